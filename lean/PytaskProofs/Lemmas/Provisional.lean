import PytaskModel.Provisional
import PytaskProofs.Lemmas.Sorter
/-! Helper lemmas for M7 (directory patterns, generators). Core Lean only. -/
namespace Pytask
namespace Prov
open Engine Sorter

/-! ## The hook chains, evaluated on the call orders extracted from the source -/

/-- `pytask_execute_task_setup` in the extracted order: provisional (tryfirst), skipping, persist, execute. -/
theorem setupChain_eval (s : Sess) (t : Nat) :
    setupChain t Generated.setupOrder s =
      (if failMarked (setupProvisional s t) t then (setupProvisional s t, Raised.ancestorFailed)
       else setupExecute (setupProvisional s t) t) := by
  simp only [Generated.setupOrder, setupChain, setupImpl]
  simp only [String.reduceBEq, Bool.false_eq_true, if_false, if_true]
  by_cases h : failMarked (setupProvisional s t) t = true
  · simp [h]
  · simp only [h, Bool.false_eq_true, if_false]
    cases hse : setupExecute (setupProvisional s t) t with
    | mk s' r => cases r <;> simp [hse]

/-- No `skip_ancestor_failed` mark, neither from the time an ancestor failed nor renewed by a later `recreate_dag`. -/
theorem failMarked_false {s : Sess} {t : Nat} (h1 : t ∉ s.failMarks) (h2 : t ∉ s.renewed) : failMarked s t = false := by
  simp [failMarked, h1, h2]

/-- `pytask_execute_task` in the extracted order (profile wrapper, provisional, execute; firstresult):
a generator is run by the `provisional` implementation only — its non-`None` result ends the chain. -/
theorem execChain_eval (Y : YieldFn) (F : BodyFn) (s : Sess) (t : Nat) :
    execChain Y F t Generated.executeOrder s =
      (match findTask s.tasks t with
       | none => (s, true)
       | some tk =>
         if tk.gen then genExecute Y s tk
         else ({ invoke s tk with w := { s.w with fs := (runBody F tk s.w.fs).1 } }, (runBody F tk s.w.fs).2)) := by
  simp only [Generated.executeOrder, execChain, execImpl, String.reduceBEq, Bool.false_eq_true, if_false, if_true,
    Generated.provisionalGeneratorResult, Generated.executeOrderFirstResult]
  cases hf : findTask s.tasks t with
  | none => simp [hf]
  | some tk =>
    by_cases hg : tk.gen = true
    · simp only [hf, hg, if_true]
      cases hge : genExecute Y s tk with
      | mk s' r => cases r <;> simp
    · simp only [hf, hg, Bool.false_eq_true, if_false]
      cases hrb : (runBody F tk s.w.fs).2 <;> simp [hrb]

/-- `pytask_execute_task_process_report` in the extracted order (skipping, profile, persist, provisional, execute; firstresult). -/
theorem reportChain_eval (s : Sess) (t : Nat) (r : Raised) :
    reportChain t r Generated.processReportOrder s =
      (match r with
       | .skippedUnchanged => addReport s t .skipUnchanged
       | .ancestorFailed => addReport s t .skipPrevFailed
       | .none =>
         if isGen s.tasks t then addReport s t .success
         else
           let u := updateStates (toProject s.tasks) s.g s.w t (neighbours s.g t)
           if u.2 then addReport { s with w := u.1 } t .success else { s with crashed := true }
       | _ => { addReport s t .fail with failMarks := s.failMarks ++ taskDesc s.g t }) := by
  simp only [Generated.processReportOrder, reportChain, reportImpl, String.reduceBEq, Bool.false_eq_true, if_false, if_true,
    Generated.provisionalReportKeepsStates, Generated.processReportOrderFirstResult, Bool.and_true]
  cases r with
  | none =>
    by_cases hg : isGen s.tasks t = true
    · simp [hg]
    · cases hu : (updateStates (toProject s.tasks) s.g s.w t (neighbours s.g t)).2 <;> simp [hg, hu]
  | _ => simp

/-! ## What a protocol can do to the scheduling state: a small set of primitive moves -/

/-- `Moves t s s'`: `s'` results from `s` by steps of the protocol of task `t` — changes that leave
tasks / graph / sorter / stop flag alone, re-creations of the DAG, and "change `session.tasks`, then re-create". -/
inductive Moves (t : Nat) : Sess → Sess → Prop
  | refl (s : Sess) : Moves t s s
  | other (s s' s'' : Sess) : Moves t s s' → s''.tasks = s'.tasks → s''.g = s'.g → s''.so = s'.so → s''.stop = s'.stop →
      (∃ l, s''.reports = s'.reports ++ l) → Moves t s s''
  | re (s s' : Sess) : Moves t s s' → Moves t s (recreate s' t)
  | setRe (s s' : Sess) (tk' : PTask) (twp' : List Nat) : Moves t s s' → tk'.id = t →
      Moves t s (recreate { s' with tasks := setTask s'.tasks tk', twp := twp' } t)
  | addRe (s s' : Sess) (kids : List PTask) : Moves t s s' →
      Moves t s (recreate { s' with tasks := s'.tasks ++ kids } t)

theorem Moves.trans {t : Nat} {a b c : Sess} (h1 : Moves t a b) (h2 : Moves t b c) : Moves t a c := by
  induction h2 with
  | refl => exact h1
  | other s' s'' _ e1 e2 e3 e4 e5 ih => exact Moves.other _ _ _ ih e1 e2 e3 e4 e5
  | re s' _ ih => exact Moves.re _ _ ih
  | setRe s' tk' twp' _ hid ih => exact Moves.setRe _ _ tk' twp' ih hid
  | addRe s' kids _ ih => exact Moves.addRe _ _ kids ih

theorem addTwp_contains (twp : List Nat) (t : Nat) : (addTwp twp t).contains t = true := by
  unfold addTwp
  by_cases h : twp.contains t = true
  · simp only [h, if_true]
  · simp only [h, Bool.false_eq_true, if_false]; simp

theorem findTask_id {ts : List PTask} {t : Nat} {tk : PTask} (h : findTask ts t = some tk) : tk.id = t := by
  unfold findTask at h
  have := List.find?_some h
  simpa using this

theorem setupProvisional_moves (s : Sess) (t : Nat) : Moves t s (setupProvisional s t) := by
  unfold setupProvisional
  cases hf : findTask s.tasks t with
  | none => exact Moves.refl s
  | some tk =>
    simp only []
    by_cases hu : unresolved tk.pdeps = true
    · simp only [hu, if_true, addTwp_contains]
      exact Moves.setRe s s _ _ (Moves.refl s) (by simpa using findTask_id hf)
    · simp only [hu, Bool.false_eq_true, if_false]
      split
      · exact Moves.re s s (Moves.refl s)
      · exact Moves.refl s

theorem collectProducts_moves (s : Sess) (t : Nat) : Moves t s (collectProducts s t) := by
  unfold collectProducts
  cases hf : findTask s.tasks t with
  | none => exact Moves.refl s
  | some tk =>
    simp only []
    split
    · exact Moves.refl s
    · by_cases hu : unresolved tk.pprods = true
      · simp only [hu, if_true, addTwp_contains]
        exact Moves.setRe s s _ _ (Moves.refl s) (by simpa using findTask_id hf)
      · simp only [hu, Bool.false_eq_true, if_false]
        split
        · exact Moves.re s s (Moves.refl s)
        · exact Moves.refl s

theorem setupExecute_moves (s : Sess) (t : Nat) : Moves t s (setupExecute s t).1 := by
  unfold setupExecute
  split
  · exact Moves.refl s
  · split
    · exact Moves.refl s
    · split
      · exact Moves.refl s
      · exact Moves.refl s
      · exact collectProducts_moves s t

theorem genExecute_moves (Y : YieldFn) (s : Sess) (tk : PTask) (hid : tk.id = t) : Moves t s (genExecute Y s tk).1 := by
  unfold genExecute
  have h0 : Moves t s (invoke s tk) := Moves.other s s _ (Moves.refl s) rfl rfl rfl rfl ⟨[], by simp [invoke]⟩
  simp only []
  split
  · exact h0
  · split
    · exact h0
    · split
      · exact h0
      · split
        · exact h0
        · rw [← hid]
          exact Moves.addRe s (invoke s tk) _ (hid ▸ h0)

theorem teardown_moves (s : Sess) (t : Nat) : Moves t s (teardown s t).1 := by
  unfold teardown
  split
  · exact Moves.refl s
  · split
    · exact Moves.refl s
    · split
      · exact Moves.refl s
      · simp only []
        split
        · exact collectProducts_moves s t
        · split <;> exact collectProducts_moves s t

theorem setupChain_moves (s : Sess) (t : Nat) : Moves t s (setupChain t Generated.setupOrder s).1 := by
  rw [setupChain_eval]
  split
  · exact setupProvisional_moves s t
  · exact (setupProvisional_moves s t).trans (setupExecute_moves _ t)

theorem execChain_moves (Y : YieldFn) (F : BodyFn) (s : Sess) (t : Nat) :
    Moves t s (execChain Y F t Generated.executeOrder s).1 := by
  rw [execChain_eval]
  cases hf : findTask s.tasks t with
  | none => exact Moves.refl s
  | some tk =>
    simp only []
    split
    · exact genExecute_moves Y s tk (findTask_id hf)
    · exact Moves.other s s _ (Moves.refl s) rfl rfl rfl rfl ⟨[], by simp [invoke]⟩

theorem runPhases_moves (Y : YieldFn) (F : BodyFn) (s : Sess) (t : Nat) : Moves t s (runPhases Y F s t).1 := by
  unfold runPhases
  have h1 := setupChain_moves s t
  generalize setupChain t Generated.setupOrder s = r1 at h1 ⊢
  obtain ⟨s1, ra⟩ := r1
  cases ra with
  | none =>
    simp only []
    have h2 := execChain_moves Y F s1 t
    generalize execChain Y F t Generated.executeOrder s1 = r2 at h2 ⊢
    obtain ⟨s2, b⟩ := r2
    cases b with
    | true => exact h1.trans h2
    | false => exact (h1.trans h2).trans (teardown_moves s2 t)
  | _ => exact h1

theorem updateStates_fs (P : Project) (g : G) (t : Nat) : ∀ (vs : List Nat) (w : World), (updateStates P g w t vs).1.fs = w.fs
  | [], w => rfl
  | v :: vs, w => by
    unfold updateStates
    split
    · rfl
    · rw [updateStates_fs P g t vs]

theorem reportChain_frame (s : Sess) (t : Nat) (r : Raised) :
    let s' := reportChain t r Generated.processReportOrder s
    s'.tasks = s.tasks ∧ s'.g = s.g ∧ s'.so = s.so ∧ s'.stop = s.stop ∧ s'.log = s.log ∧ s'.recv = s.recv ∧ s'.twp = s.twp ∧
      s'.w.fs = s.w.fs := by
  rw [reportChain_eval]
  cases r <;> simp only [addReport] <;> (try (split <;> (try split))) <;> simp [updateStates_fs]

theorem reportChain_reports (s : Sess) (t : Nat) (r : Raised) :
    ∃ l, (reportChain t r Generated.processReportOrder s).reports = s.reports ++ l := by
  rw [reportChain_eval]
  cases r <;> simp only [addReport] <;> (try (split <;> (try split))) <;> first | exact ⟨_, rfl⟩ | exact ⟨[], by simp⟩

theorem protocol_moves (Y : YieldFn) (F : BodyFn) (s : Sess) (t : Nat) : Moves t s (protocol Y F s t) := by
  unfold protocol
  have h := reportChain_frame (runPhases Y F s t).1 t (runPhases Y F s t).2
  exact Moves.other s _ _ (runPhases_moves Y F s t) h.1 h.2.1 h.2.2.1 h.2.2.2.1 (reportChain_reports _ t _)

/-! ## Graph facts: what `create_dag_from_session` guarantees about the graph it returns -/

theorem mem_addNode_nodes {g : G} {v x : Nat} : x ∈ (g.addNode v).nodes ↔ x ∈ g.nodes ∨ x = v := by
  unfold G.addNode
  by_cases h : g.nodes.contains v = true
  · simp only [h, if_true]
    constructor
    · exact Or.inl
    · rintro (h' | rfl)
      · exact h'
      · simpa using h
  · have h' : v ∉ g.nodes := by simpa using h
    simp [h']

@[simp] theorem addNode_edges (g : G) (v : Nat) : (g.addNode v).edges = g.edges := by
  unfold G.addNode; split <;> rfl

theorem mem_addEdge_edges {g : G} {u v : Nat} {e : Nat × Nat} :
    e ∈ (g.addEdge u v).edges ↔ e ∈ g.edges ∨ e = (u, v) := by
  unfold G.addEdge
  simp only [addNode_edges]
  by_cases h : g.edges.contains (u, v) = true
  · simp only [h, if_true, addNode_edges]
    constructor
    · exact Or.inl
    · rintro (h' | rfl)
      · exact h'
      · simpa using h
  · have h' : (u, v) ∉ g.edges := by simpa using h
    simp [h']

theorem mem_addEdge_nodes {g : G} {u v x : Nat} :
    x ∈ (g.addEdge u v).nodes ↔ x ∈ g.nodes ∨ x = u ∨ x = v := by
  unfold G.addEdge
  simp only [addNode_edges]
  split <;> simp [mem_addNode_nodes, or_assoc]

/-- `g ≤ g'`: nothing was removed. -/
def GLe (g g' : G) : Prop := (∀ x ∈ g.nodes, x ∈ g'.nodes) ∧ (∀ e ∈ g.edges, e ∈ g'.edges)

theorem GLe.refl (g : G) : GLe g g := ⟨fun _ h => h, fun _ h => h⟩
theorem GLe.trans {a b c : G} (h1 : GLe a b) (h2 : GLe b c) : GLe a c :=
  ⟨fun x h => h2.1 x (h1.1 x h), fun e h => h2.2 e (h1.2 e h)⟩
theorem GLe.addEdge (g : G) (u v : Nat) : GLe g (g.addEdge u v) :=
  ⟨fun _ h => mem_addEdge_nodes.2 (Or.inl h), fun _ h => mem_addEdge_edges.2 (Or.inl h)⟩
theorem GLe.addNode (g : G) (v : Nat) : GLe g (g.addNode v) :=
  ⟨fun _ h => mem_addNode_nodes.2 (Or.inl h), fun _ h => by simpa using h⟩

theorem GLe.foldl {α} (f : G → α → G) (hf : ∀ g x, GLe g (f g x)) : ∀ (xs : List α) (g : G), GLe g (xs.foldl f g)
  | [], g => GLe.refl g
  | x :: xs, g => (hf g x).trans (GLe.foldl f hf xs (f g x))

/-- The per-task step of `_create_dag_from_tasks`. -/
def baseStep (g : G) (t : TaskSpec) : G :=
  let g := g.addNode (tv t.id)
  let g := t.deps.foldl (fun g d => g.addEdge (nv d) (tv t.id)) g
  t.prods.foldl (fun g p => g.addEdge (tv t.id) (nv p)) g

theorem baseGraph_eq (P : Project) : baseGraph P = P.tasks.foldl baseStep G.empty := rfl

theorem foldl_addEdge_mem {α} (mk : α → Nat × Nat) : ∀ (xs : List α) (g : G) (x : α), x ∈ xs →
    mk x ∈ (xs.foldl (fun g y => g.addEdge (mk y).1 (mk y).2) g).edges
  | y :: ys, g, x, hx => by
    simp only [List.foldl_cons]
    rcases List.mem_cons.1 hx with rfl | hx
    · exact (GLe.foldl _ (fun g y => GLe.addEdge g _ _) ys _).2 _ (mem_addEdge_edges.2 (Or.inr rfl))
    · exact foldl_addEdge_mem mk ys _ x hx

theorem baseStep_le (g : G) (t : TaskSpec) : GLe g (baseStep g t) := by
  unfold baseStep
  exact ((GLe.addNode g _).trans (GLe.foldl _ (fun g d => GLe.addEdge g _ _) _ _)).trans
    (GLe.foldl _ (fun g p => GLe.addEdge g _ _) _ _)

theorem baseStep_spec (g : G) (t : TaskSpec) :
    tv t.id ∈ (baseStep g t).nodes ∧ (∀ d ∈ t.deps, (nv d, tv t.id) ∈ (baseStep g t).edges) ∧
      (∀ p ∈ t.prods, (tv t.id, nv p) ∈ (baseStep g t).edges) := by
  unfold baseStep
  refine ⟨?_, ?_, ?_⟩
  · exact ((GLe.foldl _ (fun g d => GLe.addEdge g _ _) _ _).trans (GLe.foldl _ (fun g p => GLe.addEdge g _ _) _ _)).1 _
      (mem_addNode_nodes.2 (Or.inr rfl))
  · intro d hd
    exact (GLe.foldl _ (fun g p => GLe.addEdge g _ _) _ _).2 _
      (foldl_addEdge_mem (fun d => (nv d, tv t.id)) t.deps _ d hd)
  · intro p hp
    exact foldl_addEdge_mem (fun p => (tv t.id, nv p)) t.prods _ p hp

theorem baseGraph_spec (P : Project) (t : TaskSpec) (ht : t ∈ P.tasks) :
    tv t.id ∈ (baseGraph P).nodes ∧ (∀ d ∈ t.deps, (nv d, tv t.id) ∈ (baseGraph P).edges) ∧
      (∀ p ∈ t.prods, (tv t.id, nv p) ∈ (baseGraph P).edges) := by
  rw [baseGraph_eq]
  generalize G.empty = g0
  obtain ⟨tasks⟩ := P
  simp only at ht ⊢
  induction tasks generalizing g0 with
  | nil => cases ht
  | cons x xs ih =>
    simp only [List.foldl_cons]
    rcases List.mem_cons.1 ht with rfl | ht
    · have h := baseStep_spec g0 t
      have hle := GLe.foldl baseStep baseStep_le xs (baseStep g0 t)
      exact ⟨hle.1 _ h.1, fun d hd => hle.2 _ (h.2.1 d hd), fun p hp => hle.2 _ (h.2.2 p hp)⟩
    · exact ih _ ht

theorem modifyDag_le (P : Project) (g : G) : GLe g (modifyDag P g) := by
  unfold modifyDag
  refine GLe.foldl _ (fun g t => ?_) _ _
  refine GLe.foldl _ (fun g o => ?_) _ _
  split
  · exact GLe.refl g
  · exact GLe.foldl _ (fun g s => GLe.addEdge g _ _) _ _

/-- `create_dag_from_session` without `-k`/`-m`, in the extracted step order: the graph it returns. -/
theorem createDag_ok {P : Project} {g : G} {m : List Nat} (h : createDag P {} = .ok (g, m)) :
    g = modifyDag P (baseGraph P) ∧ g.hasCycle = false := by
  simp only [createDag, createDag.go, Generated.dagPipeline, String.reduceBEq, Bool.false_eq_true, if_false, if_true] at h
  split at h
  · cases h
  split at h
  · cases h
  split at h
  · cases h
  rename_i hc
  simp only [Except.ok.injEq, Prod.mk.injEq] at h
  exact ⟨h.1.symm, by rw [← h.1]; simpa using hc⟩

theorem createDag_spec {ts : List PTask} {g : G} {m : List Nat} (h : createDag (toProject ts) {} = .ok (g, m))
    (u : PTask) (hu : u ∈ ts) :
    tv u.id ∈ g.nodes ∧ (∀ d ∈ u.allDeps, (nv d, tv u.id) ∈ g.edges) ∧ (∀ p ∈ u.allProds, (tv u.id, nv p) ∈ g.edges) := by
  obtain ⟨rfl, _⟩ := createDag_ok h
  have hm : toSpec u ∈ (toProject ts).tasks := List.mem_map.2 ⟨u, hu, rfl⟩
  have hb := baseGraph_spec (toProject ts) (toSpec u) hm
  have hle := modifyDag_le (toProject ts) (baseGraph (toProject ts))
  exact ⟨hle.1 _ hb.1, fun d hd => hle.2 _ (hb.2.1 d hd), fun p hp => hle.2 _ (hb.2.2 p hp)⟩

theorem mem_union {a b : List Nat} {x : Nat} : x ∈ G.union a b ↔ x ∈ a ∨ x ∈ b := by
  unfold G.union
  induction b generalizing a with
  | nil => simp
  | cons y ys ih =>
    simp only [List.foldl_cons, List.mem_cons]
    rw [ih]
    by_cases h : a.contains y = true
    · simp only [h, if_true]
      have : y ∈ a := by simpa using h
      constructor
      · rintro (h1 | h1)
        · exact Or.inl h1
        · exact Or.inr (Or.inr h1)
      · rintro (h1 | rfl | h1)
        · exact Or.inl h1
        · exact Or.inl this
        · exact Or.inr h1
    · simp only [h, Bool.false_eq_true, if_false, List.mem_append, List.mem_singleton]
      constructor
      · rintro ((h1 | rfl) | h1)
        · exact Or.inl h1
        · exact Or.inr (Or.inl rfl)
        · exact Or.inr (Or.inr h1)
      · rintro (h1 | rfl | h1)
        · exact Or.inl (Or.inl h1)
        · exact Or.inl (Or.inr rfl)
        · exact Or.inr h1

theorem mem_preds {g : G} {u v : Nat} : u ∈ g.preds v ↔ (u, v) ∈ g.edges := by
  unfold G.preds
  simp only [List.mem_map, List.mem_filter, beq_iff_eq]
  constructor
  · rintro ⟨e, ⟨he, rfl⟩, rfl⟩; exact he
  · intro h; exact ⟨(u, v), ⟨h, rfl⟩, rfl⟩

theorem mem_succs {g : G} {u v : Nat} : v ∈ g.succs u ↔ (u, v) ∈ g.edges := by
  unfold G.succs
  simp only [List.mem_map, List.mem_filter, beq_iff_eq]
  constructor
  · rintro ⟨e, ⟨he, rfl⟩, rfl⟩; exact he
  · intro h; exact ⟨(u, v), ⟨h, rfl⟩, rfl⟩

theorem iter_stepBack_mono (g : G) {x : Nat} : ∀ (n : Nat) (s : List Nat), x ∈ s → x ∈ G.iter g.stepBack n s
  | 0, _, h => h
  | n + 1, s, h => by
    unfold G.iter
    exact iter_stepBack_mono g n _ (by unfold G.stepBack; exact mem_union.2 (Or.inl h))

/-- A producer is a graph ancestor of a consumer of one of its products (path of two edges). -/
theorem anc_two_step {g : G} {u x v : Nat} (h1 : (u, x) ∈ g.edges) (h2 : (x, v) ∈ g.edges) (hne : u ≠ v) :
    u ∈ g.anc v := by
  unfold G.anc G.ancRaw
  refine List.mem_filter.2 ⟨?_, by simpa using hne⟩
  have hlen : g.edges.length ≠ 0 := by
    intro h0
    have := List.eq_nil_of_length_eq_zero h0
    rw [this] at h1; cases h1
  obtain ⟨n, hn⟩ := Nat.exists_eq_succ_of_ne_zero hlen
  rw [hn]
  unfold G.iter
  apply iter_stepBack_mono
  unfold G.stepBack
  refine mem_union.2 (Or.inr ?_)
  exact List.mem_flatMap.2 ⟨x, mem_preds.2 h2, mem_preds.2 h1⟩

/-! ## Scheduling invariants -/

/-- What holds of tasks / graph / sorter while the build has not been stopped; `H` = tasks handed out so far. -/
structure Good (s : Sess) (H : List Nat) : Prop where
  dag : ∃ m, createDag (toProject s.tasks) {} = .ok (s.g, m)
  reach : ∃ f, fromDag s.g isTaskV prio0 = .ok f ∧ Reach f.edges s.so H
  nodes : ∀ u ∈ s.tasks, tv u.id ∈ s.so.nodes ∨ tv u.id ∈ s.so.done

theorem Good.congr {s s' : Sess} {H : List Nat} (h : Good s H) (e1 : s'.tasks = s.tasks) (e2 : s'.g = s.g) (e3 : s'.so = s.so) :
    Good s' H := by
  obtain ⟨d, r, n⟩ := h
  exact ⟨by rw [e1, e2]; exact d, by rw [e2, e3]; exact r, by rw [e1, e3]; exact n⟩

theorem recreate_frame (x : Sess) (t : Nat) :
    (recreate x t).tasks = x.tasks ∧ (recreate x t).w = x.w ∧ (recreate x t).log = x.log ∧ (recreate x t).recv = x.recv ∧
    (recreate x t).failMarks = x.failMarks ∧ (recreate x t).crashed = x.crashed ∧ (recreate x t).twp = x.twp ∧
    (x.stop = true → (recreate x t).stop = true) := by
  unfold recreate
  split
  · simp
  · split <;> simp

theorem recreate_spec (x : Sess) (t : Nat) :
    (recreate x t).so.done = x.so.done ∧
    ((recreate x t).stop = false → x.stop = false ∧ ∀ H E, Reach E x.so H → Good (recreate x t) H) := by
  unfold recreate
  cases hc : createDag (toProject x.tasks) {} with
  | error e => simp
  | ok gm =>
    obtain ⟨g, m⟩ := gm
    simp only []
    cases hs : fromDagAndSorter g isTaskV prio0 x.so with
    | error e => simp
    | ok so =>
      simp only []
      have hs' := hs
      unfold fromDagAndSorter at hs'
      cases hf : fromDag g isTaskV prio0 with
      | error e => rw [hf] at hs'; cases hs'
      | ok f =>
        rw [hf] at hs'
        simp only [Except.ok.injEq] at hs'
        have hfd := (fromDag_init hf).1
        have hdone : so.done = x.so.done := by rw [← hs']; simp [finish, hfd]
        refine ⟨hdone, fun hst => ⟨hst, fun H E hr => ⟨⟨m, hc⟩, ⟨f, hf, Reach.recreate g isTaskV prio0 f so hr hf hs⟩, ?_⟩⟩⟩
        intro u hu
        have hn := (createDag_spec hc u hu).1
        have hfn : tv u.id ∈ f.nodes := by
          rw [fromDag_nodes hf]
          exact List.mem_filter.2 ⟨hn, by unfold isTaskV tv; simp⟩
        by_cases hd : tv u.id ∈ x.so.done
        · right; rw [hdone]; exact hd
        · left; rw [← hs']; simp [finish, hfn, hd]

theorem Moves.good {t : Nat} {s s' : Sess} (h : Moves t s s') :
    s'.so.done = s.so.done ∧ (s'.stop = false → s.stop = false) ∧
    ∀ H, (s.stop = false → Good s H) → (s'.stop = false → Good s' H) := by
  induction h with
  | refl => exact ⟨rfl, id, fun _ h => h⟩
  | other s' s'' _ e1 e2 e3 e4 _ ih =>
    refine ⟨by rw [e3]; exact ih.1, fun h => ih.2.1 (by rw [← e4]; exact h), fun H hg hst => ?_⟩
    exact (ih.2.2 H hg (by rw [← e4]; exact hst)).congr e1 e2 e3
  | re s' _ ih =>
    have hsp := recreate_spec s' t
    refine ⟨hsp.1.trans ih.1, fun h => ih.2.1 (hsp.2 h).1, fun H hg hst => ?_⟩
    obtain ⟨hst', hgood⟩ := hsp.2 hst
    obtain ⟨f, _, hr⟩ := (ih.2.2 H hg hst').reach
    exact hgood H _ hr
  | setRe s' tk' twp' _ _ ih =>
    have hsp := recreate_spec { s' with tasks := setTask s'.tasks tk', twp := twp' } t
    refine ⟨hsp.1.trans ih.1, fun h => ih.2.1 (hsp.2 h).1, fun H hg hst => ?_⟩
    obtain ⟨hst', hgood⟩ := hsp.2 hst
    obtain ⟨f, _, hr⟩ := (ih.2.2 H hg hst').reach
    exact hgood H _ hr
  | addRe s' kids _ ih =>
    have hsp := recreate_spec { s' with tasks := s'.tasks ++ kids } t
    refine ⟨hsp.1.trans ih.1, fun h => ih.2.1 (hsp.2 h).1, fun H hg hst => ?_⟩
    obtain ⟨hst', hgood⟩ := hsp.2 hst
    obtain ⟨f, _, hr⟩ := (ih.2.2 H hg hst').reach
    exact hgood H _ hr

theorem findTask_setTask_ne (ts : List PTask) (tk' : PTask) (u : Nat) (h : tk'.id ≠ u) :
    findTask (setTask ts tk') u = findTask ts u := by
  unfold findTask setTask
  induction ts with
  | nil => rfl
  | cons x xs ih =>
    simp only [List.map_cons, List.find?_cons]
    by_cases hx : x.id = tk'.id
    · have h1 : (x.id == tk'.id) = true := by simpa using hx
      have h2 : (tk'.id == u) = false := by simpa using h
      have h3 : (x.id == u) = false := by rw [hx]; exact h2
      simp only [h1, if_true, h2, h3]
      exact ih
    · have h1 : (x.id == tk'.id) = false := by simpa using hx
      simp only [h1, Bool.false_eq_true, if_false]
      cases hxu : (x.id == u)
      · exact ih
      · rfl

theorem findTask_setTask_self (ts : List PTask) (tk' : PTask) (h : (findTask ts tk'.id).isSome) :
    findTask (setTask ts tk') tk'.id = some tk' := by
  unfold findTask setTask at *
  induction ts with
  | nil => simp at h
  | cons x xs ih =>
    simp only [List.map_cons, List.find?_cons] at h ⊢
    by_cases hx : x.id = tk'.id
    · have h1 : (x.id == tk'.id) = true := by simpa using hx
      simp [h1]
    · have h1 : (x.id == tk'.id) = false := by simpa using hx
      simp only [h1, Bool.false_eq_true, if_false] at h ⊢
      exact ih h

theorem findTask_append_some (ts ks : List PTask) (u : Nat) (x : PTask) (h : findTask ts u = some x) :
    findTask (ts ++ ks) u = some x := by
  unfold findTask at *
  rw [List.find?_append, h]; rfl

theorem Moves.tasks {t : Nat} {s s' : Sess} (h : Moves t s s') :
    (∀ u, (findTask s.tasks u).isSome → (findTask s'.tasks u).isSome) ∧
    (∀ u x, u ≠ t → findTask s.tasks u = some x → findTask s'.tasks u = some x) := by
  induction h with
  | refl => exact ⟨fun _ h => h, fun _ _ _ h => h⟩
  | other s' s'' _ e1 _ _ _ _ ih => rw [e1]; exact ih
  | re s' _ ih => rw [(recreate_frame s' t).1]; exact ih
  | setRe s' tk' twp' _ hid ih =>
    rw [(recreate_frame _ t).1]
    simp only []
    refine ⟨fun u hu => ?_, fun u x hne hx => ?_⟩
    · by_cases hut : u = t
      · subst hut
        rw [← hid, findTask_setTask_self _ _ (by rw [hid]; exact ih.1 _ hu)]; rfl
      · rw [findTask_setTask_ne _ _ _ (by rw [hid]; exact fun h => hut h.symm)]; exact ih.1 u hu
    · rw [findTask_setTask_ne _ _ _ (by rw [hid]; exact fun h => hne h.symm)]; exact ih.2 u x hne hx
  | addRe s' kids _ ih =>
    rw [(recreate_frame _ t).1]
    simp only []
    refine ⟨fun u hu => ?_, fun u x hne hx => findTask_append_some _ _ _ _ (ih.2 u x hne hx)⟩
    have := ih.1 u hu
    cases hf : findTask s'.tasks u with
    | none => rw [hf] at this; cases this
    | some y => rw [findTask_append_some _ _ _ _ hf]; rfl

/-! ## The build loop -/

/-- One iteration of `pytask_execute_build` for the pick `t`. -/
def stepOf (Y : YieldFn) (F : BodyFn) (s : Sess) (t : Nat) : Sess :=
  let s1 := protocol Y F { s with so := s.so.take [tv t] } t
  { s1 with so := s1.so.finish [tv t] }

theorem loop_cons {Y : YieldFn} {F : BodyFn} {s s' : Sess} {t : Nat} {ts : List Nat}
    (h : loop Y F s (t :: ts) = .ok s') :
    s.stop = false ∧ s.crashed = false ∧ LegalBatch s.so 1 [tv t] ∧ (findTask s.tasks t).isSome ∧
      loop Y F (stepOf Y F s t) ts = .ok s' := by
  unfold loop at h
  split at h
  · cases h
  rename_i h1
  split at h
  · cases h
  rename_i h2
  split at h
  · cases h
  rename_i x hx
  simp only [Bool.or_eq_true, not_or, Bool.not_eq_true] at h1
  refine ⟨h1.1.1, h1.1.2, (legalBatchB_iff _ _ _).1 (by simpa using h2), by rw [hx]; rfl, h⟩

theorem loop_append {Y : YieldFn} {F : BodyFn} : ∀ (p q : List Nat) (s s' : Sess),
    loop Y F s (p ++ q) = .ok s' → ∃ sm, loop Y F s p = .ok sm ∧ loop Y F sm q = .ok s'
  | [], q, s, s', h => ⟨s, rfl, h⟩
  | t :: p, q, s, s', h => by
    have hc := loop_cons (ts := p ++ q) h
    obtain ⟨sm, h1, h2⟩ := loop_append p q _ s' hc.2.2.2.2
    refine ⟨sm, ?_, h2⟩
    have hl : legalBatchB s.so 1 [tv t] = true := (legalBatchB_iff _ _ _).2 hc.2.2.1
    have hact : s.so.isActive = true := by
      have := (mem_avail.1 (hc.2.2.1.2.1 (tv t) (by simp))).1
      unfold isActive
      cases hn : s.so.nodes with
      | nil => rw [hn] at this; cases this
      | cons a as => rfl
    unfold loop
    rw [if_neg (by simp [hc.1, hc.2.1, hact]), if_neg (by simp [hl])]
    cases hf : findTask s.tasks t with
    | none => rw [hf] at hc; simp at hc
    | some x => exact h1

/-- Invariant of `pytask_execute_build` after the picks `h`, for a build that started with the tasks `ts0`. -/
structure LInv (ts0 : List PTask) (s : Sess) (h : List Nat) : Prop where
  done : s.so.done = h.map tv
  good : s.stop = false → Good s (h.map tv)
  untouched : ∀ u x, u ∉ h → findTask ts0 u = some x → findTask s.tasks u = some x
  known : ∀ u, u ∈ h → (findTask s.tasks u).isSome
  mono : ∀ u, (findTask ts0 u).isSome → (findTask s.tasks u).isSome

theorem findTask_mem {ts : List PTask} {t : Nat} {x : PTask} (h : findTask ts t = some x) : x ∈ ts := by
  unfold findTask at h; exact List.mem_of_find?_eq_some h

theorem initSess_inv {ts0 : List PTask} {w : World} {s0 : Sess} (h : initSess ts0 w = some s0) : LInv ts0 s0 [] := by
  unfold initSess at h
  cases hc : createDag (toProject ts0) {} with
  | error e => rw [hc] at h; cases h
  | ok gm =>
    obtain ⟨g, m⟩ := gm
    rw [hc] at h
    simp only [] at h
    cases hf : fromDag g isTaskV prio0 with
    | error e => rw [hf] at h; cases h
    | ok f =>
      rw [hf] at h
      simp only [Option.some.injEq] at h
      subst h
      obtain ⟨hd, hp⟩ := fromDag_init hf
      refine ⟨by simpa using hd, fun _ => ⟨⟨m, hc⟩, ⟨f, hf, Reach.init f hd hp⟩, ?_⟩, fun _ _ _ h => h, fun _ h => (by cases h), fun _ h => h⟩
      intro u hu
      left
      show tv u.id ∈ f.nodes
      rw [fromDag_nodes hf]
      exact List.mem_filter.2 ⟨(createDag_spec hc u hu).1, by unfold isTaskV tv; simp⟩

theorem stepOf_inv {Y : YieldFn} {F : BodyFn} {ts0 : List PTask} {s : Sess} {h : List Nat} {t : Nat}
    (hi : LInv ts0 s h) (hstop : s.stop = false) (hl : LegalBatch s.so 1 [tv t]) (hf : (findTask s.tasks t).isSome) :
    LInv ts0 (stepOf Y F s t) (h ++ [t]) := by
  have hg := hi.good hstop
  let sa : Sess := { s with so := s.so.take [tv t] }
  have hga : sa.stop = false → Good sa (h.map tv ++ [tv t]) := fun _ =>
    ⟨hg.dag, by obtain ⟨f, hf, hr⟩ := hg.reach; exact ⟨f, hf, Reach.ready 1 [tv t] hr hl⟩, hg.nodes⟩
  have hm : Moves t sa (protocol Y F sa t) := protocol_moves Y F sa t
  have hmg := hm.good
  have hmt := hm.tasks
  have hstep : stepOf Y F s t = { protocol Y F sa t with so := (protocol Y F sa t).so.finish [tv t] } := rfl
  rw [hstep]
  refine ⟨?_, ?_, ?_, ?_, ?_⟩
  · show ((protocol Y F sa t).so.finish [tv t]).done = (h ++ [t]).map tv
    simp only [finish, List.map_append, List.map_cons, List.map_nil]
    rw [hmg.1]
    show (s.so.take [tv t]).done ++ [tv t] = _
    simp [take, hi.done]
  · intro hst
    have hg1 : Good (protocol Y F sa t) (h.map tv ++ [tv t]) := hmg.2.2 _ hga hst
    refine ⟨hg1.dag, ?_, ?_⟩
    · obtain ⟨f, hf, hr⟩ := hg1.reach
      exact ⟨f, hf, by simpa using Reach.done [tv t] hr⟩
    · intro u hu
      rcases hg1.nodes u hu with hn | hd
      · by_cases hut : tv u.id = tv t
        · right; show tv u.id ∈ ((protocol Y F sa t).so.finish [tv t]).done; simp [finish, hut]
        · left; show tv u.id ∈ ((protocol Y F sa t).so.finish [tv t]).nodes; simp [finish, hn, hut]
      · right; show tv u.id ∈ ((protocol Y F sa t).so.finish [tv t]).done; simp [finish, hd]
  · intro u x hu hx
    have hu' : u ∉ h ∧ u ≠ t := by simpa using hu
    exact hmt.2 u x hu'.2 (hi.untouched u x hu'.1 hx)
  · intro u hu
    rcases List.mem_append.1 hu with hu | hu
    · exact hmt.1 u (hi.known u hu)
    · have : u = t := by simpa using hu
      subst this
      exact hmt.1 u hf
  · intro u hu
    exact hmt.1 u (hi.mono u hu)

theorem loop_inv {Y : YieldFn} {F : BodyFn} {ts0 : List PTask} : ∀ (picks : List Nat) (s s' : Sess) (h : List Nat),
    LInv ts0 s h → loop Y F s picks = .ok s' → LInv ts0 s' (h ++ picks)
  | [], s, s', h, hi, hl => by
    simp only [loop, Except.ok.injEq] at hl
    subst hl; simpa using hi
  | t :: ts, s, s', h, hi, hl => by
    obtain ⟨h1, _, h3, h4, h5⟩ := loop_cons hl
    have := loop_inv ts _ s' (h ++ [t]) (stepOf_inv hi h1 h3 h4) h5
    simpa [List.append_assoc] using this

/-! ## What the phases do to the world, the body log and the received-lists log -/

/-- Fields no setup / teardown bookkeeping touches. -/
def SameObs (s s' : Sess) : Prop :=
  s'.w = s.w ∧ s'.log = s.log ∧ s'.recv = s.recv ∧ s'.failMarks = s.failMarks ∧ s'.crashed = s.crashed

theorem SameObs.refl (s : Sess) : SameObs s s := ⟨rfl, rfl, rfl, rfl, rfl⟩
theorem SameObs.trans {a b c : Sess} (h1 : SameObs a b) (h2 : SameObs b c) : SameObs a c :=
  ⟨h2.1.trans h1.1, h2.2.1.trans h1.2.1, h2.2.2.1.trans h1.2.2.1, h2.2.2.2.1.trans h1.2.2.2.1, h2.2.2.2.2.trans h1.2.2.2.2⟩

theorem recreate_sameObs (x : Sess) (t : Nat) : SameObs x (recreate x t) := by
  have h := recreate_frame x t
  exact ⟨h.2.1, h.2.2.1, h.2.2.2.1, h.2.2.2.2.1, h.2.2.2.2.2.1⟩

/-- The task record after `provisional.pytask_execute_task_setup`. -/
def resolvedDeps (fs : FS) (tk : PTask) : PTask :=
  if unresolved tk.pdeps then { tk with pdeps := tk.pdeps.map (Slot.resolve fs) } else tk

theorem setupProvisional_spec (s : Sess) (t : Nat) (tk : PTask) (hf : findTask s.tasks t = some tk) :
    SameObs s (setupProvisional s t) ∧ findTask (setupProvisional s t).tasks t = some (resolvedDeps s.w.fs tk) := by
  unfold setupProvisional resolvedDeps
  rw [hf]
  simp only []
  by_cases hu : unresolved tk.pdeps = true
  · simp only [hu, if_true, addTwp_contains]
    refine ⟨recreate_sameObs _ t, ?_⟩
    rw [(recreate_frame _ t).1]
    have hid : tk.id = t := findTask_id hf
    have := findTask_setTask_self s.tasks { tk with pdeps := tk.pdeps.map (Slot.resolve s.w.fs) } (by show (findTask s.tasks tk.id).isSome = true; rw [hid, hf]; rfl)
    rw [← hid]
    exact this
  · simp only [hu, Bool.false_eq_true, if_false]
    split
    · exact ⟨recreate_sameObs _ t, by rw [(recreate_frame _ t).1]; exact hf⟩
    · exact ⟨SameObs.refl s, hf⟩

theorem collectProducts_sameObs (s : Sess) (t : Nat) : SameObs s (collectProducts s t) := by
  unfold collectProducts
  split
  · exact SameObs.refl s
  · simp only []
    split
    · exact SameObs.refl s
    · split <;> split <;> first | exact recreate_sameObs _ t | exact SameObs.refl s

theorem setupExecute_sameObs (s : Sess) (t : Nat) : SameObs s (setupExecute s t).1 := by
  unfold setupExecute
  split
  · exact SameObs.refl s
  · split
    · exact SameObs.refl s
    · split
      · exact SameObs.refl s
      · exact SameObs.refl s
      · exact collectProducts_sameObs s t

theorem setupExecute_none_tasks (s : Sess) (t : Nat) (h : (setupExecute s t).2 = Raised.none) :
    (setupExecute s t).1 = s := by
  unfold setupExecute at h ⊢
  cases hf : findTask s.tasks t with
  | none => rfl
  | some tk =>
    simp only [hf] at h ⊢
    by_cases hg : tk.gen = true
    · simp [hg]
    · simp only [hg, Bool.false_eq_true, if_false] at h ⊢
      cases hs : scanP (toProject s.tasks) s.g s.w (provNodes s.tasks) t false (neighbours s.g t) <;>
        simp only [hs] at h ⊢
      cases h

theorem teardown_sameObs (s : Sess) (t : Nat) : SameObs s (teardown s t).1 := by
  unfold teardown
  split
  · exact SameObs.refl s
  · split
    · exact SameObs.refl s
    · split
      · exact SameObs.refl s
      · simp only []
        split
        · exact collectProducts_sameObs s t
        · split <;> exact collectProducts_sameObs s t

theorem genExecute_obs (Y : YieldFn) (s : Sess) (tk : PTask) :
    (genExecute Y s tk).1.w = s.w ∧ (genExecute Y s tk).1.log = s.log ++ [tk.id] ∧
      (genExecute Y s tk).1.recv = s.recv ++ [⟨tk.id, received tk, seenBy tk s.w.fs⟩] ∧
      (genExecute Y s tk).1.failMarks = s.failMarks ∧ (genExecute Y s tk).1.crashed = s.crashed := by
  unfold genExecute
  simp only []
  split
  · simp [invoke]
  · split
    · simp [invoke]
    · split
      · simp [invoke]
      · split
        · simp [invoke]
        · have h := recreate_frame { invoke s tk with tasks := (invoke s tk).tasks ++ Y tk.id (received tk) } tk.id
          simp only [h.2.1, h.2.2.1, h.2.2.2.1, h.2.2.2.2.1, h.2.2.2.2.2.1]
          simp [invoke]

/-- Everything `runPhases` can do to the observable part of the session: either no body ran (world, body log and
received-lists log are unchanged), or the body ran exactly once, on the task record left by the `provisional`
setup implementation, in the world the protocol started in. -/
theorem runPhases_obs (Y : YieldFn) (F : BodyFn) (s : Sess) (t : Nat) (tk : PTask) (hf : findTask s.tasks t = some tk) :
    ((runPhases Y F s t).1.log = s.log ∧ (runPhases Y F s t).1.recv = s.recv ∧ (runPhases Y F s t).1.w = s.w) ∨
    ((runPhases Y F s t).1.log = s.log ++ [t] ∧
      (runPhases Y F s t).1.recv = s.recv ++ [⟨t, received (resolvedDeps s.w.fs tk), seenBy (resolvedDeps s.w.fs tk) s.w.fs⟩] ∧
      (runPhases Y F s t).1.w.db = s.w.db ∧
      (runPhases Y F s t).1.w.fs = (if (resolvedDeps s.w.fs tk).gen then s.w.fs else (runBody F (resolvedDeps s.w.fs tk) s.w.fs).1)) := by
  have hsp := setupProvisional_spec s t tk hf
  generalize resolvedDeps s.w.fs tk = tk1 at hsp ⊢
  have hid : tk1.id = t := findTask_id hsp.2
  unfold runPhases
  rw [setupChain_eval]
  by_cases hfm : failMarked (setupProvisional s t) t = true
  · simp only [hfm, if_true]
    left; exact ⟨hsp.1.2.1, hsp.1.2.2.1, hsp.1.1⟩
  · simp only [hfm, Bool.false_eq_true, if_false]
    have hse := setupExecute_sameObs (setupProvisional s t) t
    have hnone := setupExecute_none_tasks (setupProvisional s t) t
    generalize setupExecute (setupProvisional s t) t = r2 at hse hnone ⊢
    obtain ⟨s2, ra⟩ := r2
    have h12 := hsp.1.trans hse
    cases ra with
    | none =>
      simp only []
      have he : s2 = setupProvisional s t := hnone rfl
      subst he
      rw [execChain_eval, hsp.2]
      simp only []
      right
      by_cases hg : tk1.gen = true
      · simp only [hg, if_true]
        have hge := genExecute_obs Y (setupProvisional s t) tk1
        generalize genExecute Y (setupProvisional s t) tk1 = r3 at hge ⊢
        obtain ⟨s3, b⟩ := r3
        cases b with
        | true =>
          simp only [] at hge ⊢
          rw [hge.2.1, hge.2.2.1, hge.1, hid, hsp.1.1, hsp.1.2.1, hsp.1.2.2.1]
          exact ⟨rfl, rfl, rfl, rfl⟩
        | false =>
          simp only [] at hge ⊢
          have htd := teardown_sameObs s3 t
          rw [htd.2.1, htd.2.2.1, htd.1, hge.2.1, hge.2.2.1, hge.1, hid, hsp.1.1, hsp.1.2.1, hsp.1.2.2.1]
          exact ⟨rfl, rfl, rfl, rfl⟩
      · simp only [hg, Bool.false_eq_true, if_false]
        cases hb : (runBody F tk1 (setupProvisional s t).w.fs).2 with
        | true =>
          simp [invoke, hid, hsp.1.1, hsp.1.2.1, hsp.1.2.2.1]
        | false =>
          simp only []
          have htd := teardown_sameObs ({ invoke (setupProvisional s t) tk1 with
            w := { (setupProvisional s t).w with fs := (runBody F tk1 (setupProvisional s t).w.fs).1 } }) t
          rw [htd.2.1, htd.2.2.1, htd.1]
          simp [invoke, hid, hsp.1.1, hsp.1.2.1, hsp.1.2.2.1]
    | _ => left; exact ⟨h12.2.1, h12.2.2.1, h12.1⟩

theorem protocol_obs (Y : YieldFn) (F : BodyFn) (s : Sess) (t : Nat) (tk : PTask) (hf : findTask s.tasks t = some tk) :
    ((protocol Y F s t).log = s.log ∧ (protocol Y F s t).recv = s.recv ∧ (protocol Y F s t).w.fs = s.w.fs) ∨
    ((protocol Y F s t).log = s.log ++ [t] ∧
      (protocol Y F s t).recv = s.recv ++ [⟨t, received (resolvedDeps s.w.fs tk), seenBy (resolvedDeps s.w.fs tk) s.w.fs⟩] ∧
      (protocol Y F s t).w.fs = (if (resolvedDeps s.w.fs tk).gen then s.w.fs else (runBody F (resolvedDeps s.w.fs tk) s.w.fs).1)) := by
  unfold protocol
  have hfr := reportChain_frame (runPhases Y F s t).1 t (runPhases Y F s t).2
  simp only [] at hfr
  rw [hfr.2.2.2.2.1, hfr.2.2.2.2.2.1, hfr.2.2.2.2.2.2.2]
  rcases runPhases_obs Y F s t tk hf with h | h
  · left; exact ⟨h.1, h.2.1, by rw [h.2.2]⟩
  · right; exact ⟨h.1, h.2.1, h.2.2.2⟩

theorem received_resolvedDeps (fs : FS) (tk : PTask) :
    received (resolvedDeps fs tk) = tk.pdeps.map (fun sl => sl.res.getD (sl.pat.glob fs)) := by
  unfold resolvedDeps received
  by_cases hu : unresolved tk.pdeps = true
  · simp only [hu, if_true, List.map_map]
    apply List.map_congr_left
    intro sl _
    rcases sl with ⟨pat, _ | l⟩ <;> simp [Slot.resolve]
  · simp only [hu, Bool.false_eq_true, if_false]
    apply List.map_congr_left
    intro sl hsl
    have : sl.res.isNone = false := by
      unfold unresolved at hu
      simp only [List.any_eq_true, not_exists, not_and, Bool.not_eq_true] at hu
      exact hu sl hsl
    cases hr : sl.res with
    | none => rw [hr] at this; cases this
    | some l => rfl

theorem seenBy_resolvedDeps (fs fs' : FS) (tk : PTask) :
    seenBy (resolvedDeps fs tk) fs' = tk.pdeps.map (fun sl => sl.pat.glob fs') := by
  unfold resolvedDeps seenBy
  by_cases hu : unresolved tk.pdeps = true
  · simp only [hu, if_true, List.map_map]
    apply List.map_congr_left
    intro sl _
    rcases sl with ⟨pat, _ | l⟩ <;> simp [Slot.resolve]
  · simp only [hu, Bool.false_eq_true, if_false]

theorem mem_glob {π : Pat} {fs : FS} {n : Nat} :
    n ∈ π.glob fs ↔ π.lo ≤ n ∧ n < π.lo + π.len ∧ (lookup fs n).isSome = true := by
  unfold Pat.glob
  simp only [List.mem_filter, List.mem_range'_1]
  constructor
  · rintro ⟨⟨h1, h2⟩, h3⟩; exact ⟨h1, h2, h3⟩
  · rintro ⟨h1, h2, h3⟩; exact ⟨⟨h1, h2⟩, h3⟩

theorem stepOf_log (Y : YieldFn) (F : BodyFn) (s : Sess) (t : Nat) (hf : (findTask s.tasks t).isSome) :
    (stepOf Y F s t).log = s.log ∨ (stepOf Y F s t).log = s.log ++ [t] := by
  cases hft : findTask s.tasks t with
  | none => rw [hft] at hf; cases hf
  | some tk =>
    have := protocol_obs Y F { s with so := s.so.take [tv t] } t tk hft
    rcases this with h | h
    · left; exact h.1
    · right; exact h.1

/-- The body log grows by a sublist of the picks. -/
theorem loop_log {Y : YieldFn} {F : BodyFn} : ∀ (picks : List Nat) (s s' : Sess),
    loop Y F s picks = .ok s' → ∃ l, l.Sublist picks ∧ s'.log = s.log ++ l
  | [], s, s', h => by
    simp only [loop, Except.ok.injEq] at h
    subst h; exact ⟨[], List.Sublist.refl _, by simp⟩
  | t :: ts, s, s', h => by
    obtain ⟨_, _, _, h4, h5⟩ := loop_cons h
    obtain ⟨l, hl1, hl2⟩ := loop_log ts _ s' h5
    rcases stepOf_log Y F s t h4 with hlog | hlog
    · exact ⟨l, List.Sublist.cons _ hl1, by rw [hl2, hlog]⟩
    · exact ⟨t :: l, List.Sublist.cons_cons _ hl1, by rw [hl2, hlog]; simp⟩

theorem tv_inj' {a b : Nat} (h : tv a = tv b) : a = b := by unfold tv at h; omega

theorem loop_nodup {Y : YieldFn} {F : BodyFn} {ts0 : List PTask} : ∀ (picks : List Nat) (s s' : Sess) (h : List Nat),
    LInv ts0 s h → h.Nodup → loop Y F s picks = .ok s' → (h ++ picks).Nodup
  | [], _, _, h, _, hn, _ => by simpa using hn
  | t :: ts, s, s', h, hi, hn, hl => by
    obtain ⟨h1, _, h3, h4, h5⟩ := loop_cons hl
    obtain ⟨f, _, hr⟩ := (hi.good h1).reach
    have hnd := (reach_inv (Reach.ready 1 [tv t] hr h3)).hnodup
    have hn' : (h ++ [t]).Nodup := by
      have : ((h ++ [t]).map tv).Nodup := by simpa using hnd
      exact (List.pairwise_map.1 this).imp (fun hne heq => hne (by rw [heq]))
    have := loop_nodup ts _ s' (h ++ [t]) (stepOf_inv hi h1 h3 h4) hn' h5
    simpa [List.append_assoc] using this

/-- When a task is handed out, every task-ancestor in the *current* graph has completed its protocol. -/
theorem pick_order {ts0 : List PTask} {s : Sess} {h : List Nat} {t : Nat} (hi : LInv ts0 s h) (hstop : s.stop = false)
    (hl : LegalBatch s.so 1 [tv t]) (hf : (findTask s.tasks t).isSome) (a : Nat) (ha : a ∈ taskAnc s.g t) : a ∈ h := by
  have hg := hi.good hstop
  obtain ⟨f, hfd, hr⟩ := hg.reach
  obtain ⟨m, hdag⟩ := hg.dag
  unfold taskAnc at ha
  simp only [List.mem_map, List.mem_filter] at ha
  obtain ⟨v, ⟨hv1, hv2⟩, rfl⟩ := ha
  cases hft : findTask s.tasks t with
  | none => rw [hft] at hf; cases hf
  | some tk =>
    have hnode : tv t ∈ s.g.nodes := by
      have := (createDag_spec hdag tk (findTask_mem hft)).1
      rwa [findTask_id hft] at this
    have hedge : (v, tv t) ∈ f.edges := (fromDag_edges hfd v (tv t)).2 ⟨hnode, by unfold isTaskV tv; simp, hv1, hv2⟩
    have hinv := reach_inv hr
    have hav := mem_avail.1 (hl.2.1 (tv t) (by simp))
    have hdone : v ∈ s.so.done := by
      rcases hinv.edges v (tv t) hedge hav.1 with he | hd
      · exact absurd he (indeg0_iff.1 hav.2.1 v)
      · exact hd
    rw [hi.done] at hdone
    obtain ⟨a', ha', hv⟩ := List.mem_map.1 hdone
    have : v / 2 = a' := by rw [← hv]; unfold tv; omega
    rw [this]; exact ha'

/-! ## Change detection over the resolved dependencies -/

theorem scanP_needs (P : Project) (g : G) (w : World) (pn : List Nat) (t : Nat) :
    ∀ vs, scanP P g w pn t true vs ≠ Scan.unchanged
  | [] => by simp [scanP]
  | v :: vs => by
    unfold scanP
    simp only []
    split
    · simp
    · split
      · exact scanP_needs P g w pn t vs
      · split
        · simp
        · simp only [if_true]; exact scanP_needs P g w pn t vs

/-- A predecessor whose recorded state is absent or differs makes the scan answer "changed" (or "missing"). -/
theorem scanP_changed (P : Project) (g : G) (w : World) (pn : List Nat) (t : Nat) (x : Nat)
    (hx : x ∈ g.preds (tv t)) (hch : hasChanged w t x (stateOf P w x) = true) :
    ∀ (vs : List Nat) (needs : Bool), x ∈ vs → scanP P g w pn t needs vs ≠ Scan.unchanged
  | [], _, h => by cases h
  | v :: vs, needs, h => by
    unfold scanP
    simp only []
    split
    · simp
    · rename_i h1
      split
      · rename_i h2
        have hvx : v ≠ x := by
          intro e; subst e
          simp only [Bool.and_eq_true, Bool.not_eq_true', Bool.or_eq_false_iff] at h2
          have := h2.1.1
          simp only [List.contains_eq_mem, decide_eq_false_iff_not] at this
          exact this hx
        have : x ∈ vs := by
          rcases List.mem_cons.1 h with e | e
          · exact absurd e.symm hvx
          · exact e
        exact scanP_changed P g w pn t x hx hch vs needs this
      · split
        · simp
        · cases needs with
          | true => simp only [if_true]; exact scanP_needs P g w pn t vs
          | false =>
            simp only [Bool.false_eq_true, if_false]
            rcases List.mem_cons.1 h with e | e
            · subst e; rw [hch]; exact scanP_needs P g w pn t vs
            · exact scanP_changed P g w pn t x hx hch vs _ e

/-- The consumer's setup does not raise `SkippedUnchanged`: either the body is called or the task fails. -/
theorem runPhases_not_unchanged (Y : YieldFn) (F : BodyFn) (s : Sess) (t : Nat) (tk : PTask)
    (hf : findTask s.tasks t = some tk) (hng : tk.gen = false) (hfm : t ∉ s.failMarks)
    (hrn : t ∉ (setupProvisional s t).renewed)
    (hscan : scanP (toProject (setupProvisional s t).tasks) (setupProvisional s t).g (setupProvisional s t).w
        (provNodes (setupProvisional s t).tasks) t false (neighbours (setupProvisional s t).g t) ≠ Scan.unchanged) :
    (runPhases Y F s t).1.log = s.log ++ [t] ∨ (runPhases Y F s t).2 = Raised.error := by
  have hsp := setupProvisional_spec s t tk hf
  have hgen : (resolvedDeps s.w.fs tk).gen = false := by unfold resolvedDeps; split <;> exact hng
  have hid : (resolvedDeps s.w.fs tk).id = t := findTask_id hsp.2
  unfold runPhases
  rw [setupChain_eval]
  have hfm' : failMarked (setupProvisional s t) t = false :=
    failMarked_false (by rw [hsp.1.2.2.2.1]; exact hfm) hrn
  simp only [hfm', Bool.false_eq_true, if_false]
  have hse : setupExecute (setupProvisional s t) t = (setupProvisional s t, Raised.none) ∨
      setupExecute (setupProvisional s t) t = (setupProvisional s t, Raised.error) := by
    unfold setupExecute
    rw [hsp.2]
    simp only [hgen, Bool.false_eq_true, if_false]
    cases hsc : scanP (toProject (setupProvisional s t).tasks) (setupProvisional s t).g (setupProvisional s t).w
        (provNodes (setupProvisional s t).tasks) t false (neighbours (setupProvisional s t).g t) with
    | missing => right; rfl
    | changed => left; rfl
    | unchanged => exact absurd hsc hscan
  rcases hse with hse | hse
  · rw [hse]
    simp only []
    rw [execChain_eval, hsp.2]
    simp only [hgen, Bool.false_eq_true, if_false]
    cases hb : (runBody F (resolvedDeps s.w.fs tk) (setupProvisional s t).w.fs).2 with
    | true => right; rfl
    | false =>
      left
      simp only []
      have htd := teardown_sameObs ({ invoke (setupProvisional s t) (resolvedDeps s.w.fs tk) with
        w := { (setupProvisional s t).w with fs := (runBody F (resolvedDeps s.w.fs tk) (setupProvisional s t).w.fs).1 } }) t
      rw [htd.2.1]
      simp [invoke, hid, hsp.1.2.1]
  · rw [hse]; right; rfl

theorem stateOf_nv (P : Project) (w : World) (n : Nat) : stateOf P w (nv n) = lookup w.fs n := by
  unfold stateOf
  have h1 : isTaskV (nv n) = false := by unfold isTaskV nv; simp
  have h2 : nv n / 2 = n := by unfold nv; omega
  simp [h1, h2]

/-- A one-pick loop that is accepted performs exactly `stepOf`. -/
theorem loop_one {Y : YieldFn} {F : BodyFn} {s : Sess} {t : Nat}
    (h : (match loop Y F s [t] with | .ok _ => true | .error _ => false) = true) :
    loop Y F s [t] = .ok (stepOf Y F s t) := by
  unfold loop at h ⊢
  split
  · rename_i h1; simp [h1] at h
  · split
    · rename_i h1 h2; simp [h1, h2] at h
    · split
      · rename_i h1 h2 _ h3; simp [h1, h2, h3] at h
      · rfl

/-! ## Reports and generated tasks -/

theorem recreate_reports (x : Sess) (t : Nat) : ∃ l, (recreate x t).reports = x.reports ++ l := by
  unfold recreate
  split
  · exact ⟨_, rfl⟩
  · split
    · exact ⟨_, rfl⟩
    · exact ⟨[], by simp⟩

theorem Moves.reports {t : Nat} {s s' : Sess} (h : Moves t s s') : ∃ l, s'.reports = s.reports ++ l := by
  induction h with
  | refl => exact ⟨[], by simp⟩
  | other s' s'' _ _ _ _ _ e5 ih =>
    obtain ⟨l1, h1⟩ := ih; obtain ⟨l2, h2⟩ := e5
    exact ⟨l1 ++ l2, by rw [h2, h1, List.append_assoc]⟩
  | re s' _ ih =>
    obtain ⟨l1, h1⟩ := ih; obtain ⟨l2, h2⟩ := recreate_reports s' t
    exact ⟨l1 ++ l2, by rw [h2, h1, List.append_assoc]⟩
  | setRe s' tk' twp' _ _ ih =>
    obtain ⟨l1, h1⟩ := ih
    obtain ⟨l2, h2⟩ := recreate_reports { s' with tasks := setTask s'.tasks tk', twp := twp' } t
    exact ⟨l1 ++ l2, by rw [h2]; simp only []; rw [h1, List.append_assoc]⟩
  | addRe s' kids _ ih =>
    obtain ⟨l1, h1⟩ := ih
    obtain ⟨l2, h2⟩ := recreate_reports { s' with tasks := s'.tasks ++ kids } t
    exact ⟨l1 ++ l2, by rw [h2]; simp only []; rw [h1, List.append_assoc]⟩

theorem stepOf_moves (Y : YieldFn) (F : BodyFn) (s : Sess) (t : Nat) :
    Moves t { s with so := s.so.take [tv t] } (protocol Y F { s with so := s.so.take [tv t] } t) :=
  protocol_moves Y F _ t

theorem stepOf_mono (Y : YieldFn) (F : BodyFn) (s : Sess) (t : Nat) :
    (∀ r ∈ s.reports, r ∈ (stepOf Y F s t).reports) ∧
    (∀ u, (findTask s.tasks u).isSome → (findTask (stepOf Y F s t).tasks u).isSome) := by
  have hm := stepOf_moves Y F s t
  obtain ⟨l, hl⟩ := hm.reports
  refine ⟨fun r hr => ?_, fun u hu => hm.tasks.1 u hu⟩
  show r ∈ (protocol Y F { s with so := s.so.take [tv t] } t).reports
  rw [hl]; exact List.mem_append.2 (Or.inl hr)

theorem loop_mono {Y : YieldFn} {F : BodyFn} : ∀ (picks : List Nat) (s s' : Sess), loop Y F s picks = .ok s' →
    (∀ r ∈ s.reports, r ∈ s'.reports) ∧ (∀ u, (findTask s.tasks u).isSome → (findTask s'.tasks u).isSome)
  | [], s, s', h => by
    simp only [loop, Except.ok.injEq] at h
    subst h; exact ⟨fun _ h => h, fun _ h => h⟩
  | t :: ts, s, s', h => by
    obtain ⟨_, _, _, _, h5⟩ := loop_cons h
    have ih := loop_mono ts _ s' h5
    have hs := stepOf_mono Y F s t
    exact ⟨fun r hr => ih.1 r (hs.1 r hr), fun u hu => ih.2 u (hs.2 u hu)⟩

/-- Every protocol that does not crash appends a report about its task. -/
theorem protocol_report (Y : YieldFn) (F : BodyFn) (s : Sess) (t : Nat) :
    (protocol Y F s t).crashed = true ∨ ∃ o, (t, o) ∈ (protocol Y F s t).reports := by
  unfold protocol
  rw [reportChain_eval]
  generalize runPhases Y F s t = r
  obtain ⟨s1, ra⟩ := r
  cases ra <;> simp only [addReport] <;> (try (split <;> (try split))) <;>
    first
    | (right; exact ⟨_, List.mem_append.2 (Or.inr (List.mem_singleton.2 rfl))⟩)
    | (left; rfl)

theorem loop_reports {Y : YieldFn} {F : BodyFn} : ∀ (picks : List Nat) (s s' : Sess), loop Y F s picks = .ok s' →
    s'.crashed = false → ∀ t ∈ picks, ∃ o, (t, o) ∈ s'.reports
  | [], _, _, _, _, t, ht => by cases ht
  | p :: ps, s, s', h, hc, t, ht => by
    obtain ⟨_, _, _, _, h5⟩ := loop_cons h
    rcases List.mem_cons.1 ht with rfl | ht
    · have hcr : (stepOf Y F s t).crashed = false := by
        cases ps with
        | nil => simp only [loop, Except.ok.injEq] at h5; rw [h5]; exact hc
        | cons q qs => exact (loop_cons h5).2.1
      rcases protocol_report Y F { s with so := s.so.take [tv t] } t with hx | ⟨o, ho⟩
      · exact absurd (show (stepOf Y F s t).crashed = true from hx) (by rw [hcr]; simp)
      · exact ⟨o, (loop_mono ps _ s' h5).1 _ ho⟩
    · exact loop_reports ps _ s' h5 hc t ht

theorem findTask_isSome_of_mem {ts : List PTask} {k : PTask} (h : k ∈ ts) : (findTask ts k.id).isSome := by
  unfold findTask
  rw [List.find?_isSome]
  exact ⟨k, h, by simp⟩

/-- When the build loop has run to its natural end, every task of the session — generated ones included — was handed out. -/
theorem complete_all_done {ts0 : List PTask} {s : Sess} {h : List Nat} (hi : LInv ts0 s h) (hstop : s.stop = false)
    (hact : s.so.isActive = false) (u : Nat) (hu : (findTask s.tasks u).isSome) : u ∈ h := by
  cases hf : findTask s.tasks u with
  | none => rw [hf] at hu; cases hu
  | some x =>
    have hx := findTask_mem hf
    have hn : s.so.nodes = [] := by
      unfold isActive at hact
      cases hnn : s.so.nodes with
      | nil => rfl
      | cons a as => rw [hnn] at hact; simp at hact
    rcases (hi.good hstop).nodes x hx with h1 | h1
    · rw [hn] at h1; cases h1
    · rw [hi.done, findTask_id hf] at h1
      obtain ⟨a, ha, hv⟩ := List.mem_map.1 h1
      rw [← tv_inj' hv]; exact ha

theorem findTask_isSome_any (ts : List PTask) (u : Nat) : (findTask ts u).isSome = ts.any (fun x => x.id == u) := by
  unfold findTask
  induction ts with
  | nil => rfl
  | cons x xs ih =>
    simp only [List.find?_cons, List.any_cons]
    cases h : (x.id == u) <;> simp [ih]

theorem setTask_any_id (ts : List PTask) (tk' : PTask) (u : Nat) :
    (setTask ts tk').any (fun x => x.id == u) = ts.any (fun x => x.id == u) := by
  unfold setTask
  induction ts with
  | nil => rfl
  | cons x xs ih =>
    simp only [List.map_cons, List.any_cons, ih]
    by_cases h : (x.id == tk'.id) = true
    · have : x.id = tk'.id := by simpa using h
      simp [h, this]
    · simp [h]

theorem nameClash_setupProvisional (s : Sess) (t : Nat) (kids : List PTask) :
    nameClash (setupProvisional s t).tasks kids = nameClash s.tasks kids := by
  have key : ∀ u, (findTask (setupProvisional s t).tasks u).isSome = (findTask s.tasks u).isSome := by
    intro u
    rw [findTask_isSome_any, findTask_isSome_any]
    unfold setupProvisional
    split
    · rfl
    · simp only []
      split <;> split <;> (try rw [(recreate_frame _ t).1]) <;> (try simp only [setTask_any_id])
  unfold nameClash
  have : (kids.any fun k => (findTask (setupProvisional s t).tasks k.id).isSome) = (kids.any fun k => (findTask s.tasks k.id).isSome) := by
    induction kids with
    | nil => rfl
    | cons k ks ih => simp only [List.any_cons, key, ih]
  rw [this]

/-- A generator that is not skipped, does not raise and defines only collectable tasks leaves every task it defined in
`session.tasks`. -/
theorem protocol_gen_tasks (Y : YieldFn) (F : BodyFn) (s : Sess) (g : Nat) (G : PTask) (hf : findTask s.tasks g = some G)
    (hgen : G.gen = true) (hnf : G.fails = false) (hfm : g ∉ s.failMarks)
    (hrn : g ∉ (setupProvisional s g).renewed)
    (hcoll : ∀ x ∈ Y g (received (resolvedDeps s.w.fs G)), x.uncollectable = false)
    (hclash : nameClash s.tasks (Y g (received (resolvedDeps s.w.fs G))) = false) (k : PTask)
    (hk : k ∈ Y g (received (resolvedDeps s.w.fs G))) : k ∈ (protocol Y F s g).tasks := by
  have hsp := setupProvisional_spec s g G hf
  have hgen1 : (resolvedDeps s.w.fs G).gen = true := by unfold resolvedDeps; split <;> exact hgen
  have hnf1 : (resolvedDeps s.w.fs G).fails = false := by unfold resolvedDeps; split <;> exact hnf
  have hid : (resolvedDeps s.w.fs G).id = g := findTask_id hsp.2
  generalize resolvedDeps s.w.fs G = G1 at hsp hgen1 hnf1 hid hk hcoll hclash
  unfold protocol
  rw [(reportChain_frame _ g _).1]
  unfold runPhases
  rw [setupChain_eval]
  have hfm' : failMarked (setupProvisional s g) g = false :=
    failMarked_false (by rw [hsp.1.2.2.2.1]; exact hfm) hrn
  simp only [hfm', Bool.false_eq_true, if_false]
  have hse : setupExecute (setupProvisional s g) g = (setupProvisional s g, Raised.none) := by
    unfold setupExecute; rw [hsp.2]; simp [hgen1]
  rw [hse]
  simp only []
  rw [execChain_eval, hsp.2]
  simp only [hgen1, if_true]
  have hne : (Y G1.id (received G1)).isEmpty = false := by
    rw [hid]; cases hy : Y g (received G1) with
    | nil => rw [hy] at hk; cases hk
    | cons a as => rfl
  have hge : genExecute Y (setupProvisional s g) G1 =
      (recreate { invoke (setupProvisional s g) G1 with tasks := (invoke (setupProvisional s g) G1).tasks ++ Y G1.id (received G1) } G1.id, false) := by
    have hany : (Y G1.id (received G1)).any (·.uncollectable) = false := by
      rw [hid]
      cases ha : (Y g (received G1)).any (·.uncollectable) with
      | false => rfl
      | true =>
        obtain ⟨x, hx, hxu⟩ := List.any_eq_true.1 ha
        rw [hcoll x hx] at hxu; cases hxu
    have hcl : nameClash (invoke (setupProvisional s g) G1).tasks (Y G1.id (received G1)) = false := by
      show nameClash (setupProvisional s g).tasks _ = false
      rw [nameClash_setupProvisional, hid]; exact hclash
    unfold genExecute
    simp [hnf1, hne, hany, hcl]
  rw [hge]
  simp only []
  have htasks : (recreate { invoke (setupProvisional s g) G1 with tasks := (invoke (setupProvisional s g) G1).tasks ++ Y G1.id (received G1) } G1.id).tasks
      = (setupProvisional s g).tasks ++ Y g (received G1) := by
    rw [(recreate_frame _ _).1, hid]; rfl
  have hft : findTask (recreate { invoke (setupProvisional s g) G1 with tasks := (invoke (setupProvisional s g) G1).tasks ++ Y G1.id (received G1) } G1.id).tasks g = some G1 := by
    rw [htasks]; exact findTask_append_some _ _ _ _ hsp.2
  unfold teardown
  rw [hft]
  simp only [hgen1, if_true]
  rw [htasks]
  exact List.mem_append.2 (Or.inr hk)

/-! ## Converse graph facts: where the edges of the graph come from -/

theorem foldl_addEdge_conv {α} (mk : α → Nat × Nat) : ∀ (xs : List α) (g : G) (e : Nat × Nat),
    e ∈ (xs.foldl (fun g y => g.addEdge (mk y).1 (mk y).2) g).edges → e ∈ g.edges ∨ ∃ x ∈ xs, e = mk x
  | [], g, e, h => Or.inl h
  | y :: ys, g, e, h => by
    simp only [List.foldl_cons] at h
    rcases foldl_addEdge_conv mk ys _ e h with h1 | ⟨x, hx, rfl⟩
    · rcases mem_addEdge_edges.1 h1 with h2 | h2
      · exact Or.inl h2
      · exact Or.inr ⟨y, by simp, h2⟩
    · exact Or.inr ⟨x, by simp [hx], rfl⟩

theorem baseStep_conv (g : G) (t : TaskSpec) (e : Nat × Nat) (h : e ∈ (baseStep g t).edges) :
    e ∈ g.edges ∨ (∃ d ∈ t.deps, e = (nv d, tv t.id)) ∨ (∃ p ∈ t.prods, e = (tv t.id, nv p)) := by
  unfold baseStep at h
  rcases foldl_addEdge_conv (fun p => (tv t.id, nv p)) t.prods _ e h with h1 | h1
  · rcases foldl_addEdge_conv (fun d => (nv d, tv t.id)) t.deps _ e h1 with h2 | h2
    · left; simpa using h2
    · right; left; exact h2
  · right; right; exact h1

theorem baseGraph_conv (P : Project) (e : Nat × Nat) (h : e ∈ (baseGraph P).edges) :
    ∃ t ∈ P.tasks, (∃ d ∈ t.deps, e = (nv d, tv t.id)) ∨ (∃ p ∈ t.prods, e = (tv t.id, nv p)) := by
  rw [baseGraph_eq] at h
  have key : ∀ (ts : List TaskSpec) (g : G), e ∈ (ts.foldl baseStep g).edges →
      e ∈ g.edges ∨ ∃ t ∈ ts, (∃ d ∈ t.deps, e = (nv d, tv t.id)) ∨ (∃ p ∈ t.prods, e = (tv t.id, nv p)) := by
    intro ts
    induction ts with
    | nil => intro g h; exact Or.inl h
    | cons x xs ih =>
      intro g h
      simp only [List.foldl_cons] at h
      rcases ih _ h with h1 | ⟨t, ht, h2⟩
      · rcases baseStep_conv g x e h1 with h3 | h3
        · exact Or.inl h3
        · exact Or.inr ⟨x, by simp, h3⟩
      · exact Or.inr ⟨t, by simp [ht], h2⟩
  rcases key P.tasks G.empty h with h1 | h1
  · cases h1
  · exact h1

theorem isTaskV_tv (a : Nat) : isTaskV (tv a) = true := by unfold isTaskV tv; simp
theorem isTaskV_nv (a : Nat) : isTaskV (nv a) = false := by unfold isTaskV nv; simp
theorem tv_ne_nv (a b : Nat) : tv a ≠ nv b := by unfold tv nv; omega

/-- Every edge joins a task vertex and a node vertex. -/
def Bip (g : G) : Prop := ∀ e ∈ g.edges, isTaskV e.1 ≠ isTaskV e.2

/-- `_modify_dag` only adds edges from a node (a product of the `after` target) to a task declaring `after`. -/
theorem modifyDag_conv (P : Project) (g : G) (hb : Bip g) (e : Nat × Nat) (h : e ∈ (modifyDag P g).edges) :
    e ∈ g.edges ∨ ∃ u ∈ P.tasks, u.after ≠ [] ∧ e.2 = tv u.id ∧ isTaskV e.1 = false := by
  unfold modifyDag at h
  have succ_step : ∀ (t : TaskSpec) (o : Nat) (g : G), Bip g →
      Bip ((g.succs (tv o)).foldl (fun g s => g.addEdge s (tv t.id)) g) ∧
      ∀ e ∈ ((g.succs (tv o)).foldl (fun g s => g.addEdge s (tv t.id)) g).edges,
        e ∈ g.edges ∨ (e.2 = tv t.id ∧ isTaskV e.1 = false) := by
    intro t o g hb
    have hconv : ∀ e ∈ ((g.succs (tv o)).foldl (fun g s => g.addEdge s (tv t.id)) g).edges,
        e ∈ g.edges ∨ (e.2 = tv t.id ∧ isTaskV e.1 = false) := by
      intro e he
      rcases foldl_addEdge_conv (fun s => (s, tv t.id)) _ g e he with h2 | ⟨s, hs, rfl⟩
      · exact Or.inl h2
      · have hedge := mem_succs.1 hs
        have := hb _ hedge
        simp only [isTaskV_tv] at this
        refine Or.inr ⟨rfl, ?_⟩
        cases hx : isTaskV s with
        | false => rfl
        | true => rw [hx] at this; exact absurd rfl this
    refine ⟨fun e he => ?_, hconv⟩
    rcases hconv e he with h1 | ⟨h1, h2⟩
    · exact hb e h1
    · rw [h1, h2, isTaskV_tv]; simp
  have inner : ∀ (t : TaskSpec) (os : List Nat) (g : G), Bip g →
      Bip (os.foldl (fun g o => if o == t.id then g else (g.succs (tv o)).foldl (fun g s => g.addEdge s (tv t.id)) g) g) ∧
      ∀ e ∈ (os.foldl (fun g o => if o == t.id then g else (g.succs (tv o)).foldl (fun g s => g.addEdge s (tv t.id)) g) g).edges,
        e ∈ g.edges ∨ (os ≠ [] ∧ e.2 = tv t.id ∧ isTaskV e.1 = false) := by
    intro t os
    induction os with
    | nil => intro g hb; exact ⟨hb, fun e h => Or.inl h⟩
    | cons o os ih =>
      intro g hb
      simp only [List.foldl_cons]
      by_cases ho : (o == t.id) = true
      · simp only [ho, if_true]
        obtain ⟨b1, c1⟩ := ih g hb
        exact ⟨b1, fun e he => (c1 e he).imp id (fun h => ⟨by simp, h.2⟩)⟩
      · simp only [ho, Bool.false_eq_true, if_false]
        obtain ⟨b0, c0⟩ := succ_step t o g hb
        obtain ⟨b1, c1⟩ := ih _ b0
        refine ⟨b1, fun e he => ?_⟩
        rcases c1 e he with h1 | h1
        · rcases c0 e h1 with h2 | h2
          · exact Or.inl h2
          · exact Or.inr ⟨by simp, h2⟩
        · exact Or.inr ⟨by simp, h1.2⟩
  have outer : ∀ (ts : List TaskSpec) (g : G), Bip g →
      ∀ e ∈ (ts.foldl (fun g t => t.after.foldl (fun g o => if o == t.id then g else
          (g.succs (tv o)).foldl (fun g s => g.addEdge s (tv t.id)) g) g) g).edges,
      e ∈ g.edges ∨ ∃ u ∈ ts, u.after ≠ [] ∧ e.2 = tv u.id ∧ isTaskV e.1 = false := by
    intro ts
    induction ts with
    | nil => intro g _ e h; exact Or.inl h
    | cons x xs ih =>
      intro g hb e h
      simp only [List.foldl_cons] at h
      obtain ⟨b0, c0⟩ := inner x x.after g hb
      rcases ih _ b0 e h with h1 | ⟨u, hu, h2⟩
      · rcases c0 e h1 with h3 | h3
        · exact Or.inl h3
        · exact Or.inr ⟨x, by simp, h3⟩
      · exact Or.inr ⟨u, by simp [hu], h2⟩
  exact outer P.tasks g hb e h

theorem baseGraph_bip (P : Project) : Bip (baseGraph P) := by
  intro e he
  obtain ⟨t, _, hor⟩ := baseGraph_conv P e he
  rcases hor with ⟨d, _, rfl⟩ | ⟨p, _, rfl⟩
  · simp [isTaskV_tv, isTaskV_nv]
  · simp [isTaskV_tv, isTaskV_nv]

/-- Predecessors and successors of a task vertex in the graph of `create_dag_from_session`: the declared dependencies
(and, for a task with `after`, whatever `_modify_dag` added) — resp. exactly the declared products — of tasks with that id. -/
theorem createDag_neighbours_conv {ts : List PTask} {g : G} {m : List Nat} (h : createDag (toProject ts) {} = .ok (g, m)) (t : Nat) :
    (∀ x, x ∈ g.preds (tv t) → (∃ u ∈ ts, u.id = t ∧ ∃ d ∈ u.allDeps, x = nv d) ∨ (∃ u ∈ ts, u.id = t ∧ u.after ≠ [])) ∧
    (∀ x, x ∈ g.succs (tv t) → ∃ u ∈ ts, u.id = t ∧ ∃ p ∈ u.allProds, x = nv p) := by
  obtain ⟨rfl, _⟩ := createDag_ok h
  have base : ∀ e, e ∈ (baseGraph (toProject ts)).edges →
      ∃ u ∈ ts, (∃ d ∈ u.allDeps, e = (nv d, tv u.id)) ∨ (∃ p ∈ u.allProds, e = (tv u.id, nv p)) := by
    intro e he
    obtain ⟨sp, hsp, hor⟩ := baseGraph_conv _ e he
    obtain ⟨u, hu, rfl⟩ := List.mem_map.1 hsp
    exact ⟨u, hu, hor⟩
  constructor
  · intro x hx
    have he := mem_preds.1 hx
    rcases modifyDag_conv _ _ (baseGraph_bip _) _ he with h1 | ⟨sp, hsp, ha, h2, _⟩
    · obtain ⟨u, hu, hor⟩ := base _ h1
      rcases hor with ⟨d, hd, heq⟩ | ⟨p, hp, heq⟩
      · simp only [Prod.mk.injEq] at heq
        exact Or.inl ⟨u, hu, (tv_inj' heq.2).symm, d, hd, heq.1⟩
      · simp only [Prod.mk.injEq] at heq
        exact absurd heq.2 (tv_ne_nv _ _)
    · obtain ⟨u, hu, rfl⟩ := List.mem_map.1 hsp
      exact Or.inr ⟨u, hu, (tv_inj' h2).symm, ha⟩
  · intro x hx
    have he := mem_succs.1 hx
    rcases modifyDag_conv _ _ (baseGraph_bip _) _ he with h1 | ⟨sp, hsp, _, _, h3⟩
    · obtain ⟨u, hu, hor⟩ := base _ h1
      rcases hor with ⟨d, hd, heq⟩ | ⟨p, hp, heq⟩
      · simp only [Prod.mk.injEq] at heq
        exact absurd heq.1 (tv_ne_nv _ _)
      · simp only [Prod.mk.injEq] at heq
        exact ⟨u, hu, (tv_inj' heq.1).symm, p, hp, heq.2⟩
    · simp only [isTaskV_tv] at h3
      cases h3

theorem scanP_not_missing (P : Project) (g : G) (w : World) (pn : List Nat) (t : Nat) :
    ∀ (vs : List Nat) (needs : Bool),
      (∀ v ∈ vs, ((g.preds (tv t)).contains v || v == tv t) = true → (stateOf P w v).isSome = true) →
      scanP P g w pn t needs vs ≠ Scan.missing
  | [], needs, _ => by unfold scanP; split <;> simp
  | v :: vs, needs, h => by
    have hrec := fun n => scanP_not_missing P g w pn t vs n (fun u hu => h u (List.mem_cons_of_mem _ hu))
    unfold scanP
    simp only []
    split
    · simp
    · split
      · exact hrec _
      · split
        · rename_i hm
          simp only [Bool.and_eq_true] at hm
          have := h v (by simp) hm.1
          rw [Option.isNone_iff_eq_none] at hm
          rw [hm.2] at this; cases this
        · split
          · exact hrec _
          · exact hrec _

theorem scan_cases (sc : Scan) (h1 : sc ≠ .unchanged) (h2 : sc ≠ .missing) : sc = .changed := by
  cases sc <;> simp_all

theorem mem_setTask {ts : List PTask} {tk' u : PTask} (h : u ∈ setTask ts tk') : u = tk' ∨ (u ∈ ts ∧ u.id ≠ tk'.id) := by
  unfold setTask at h
  obtain ⟨x, hx, rfl⟩ := List.mem_map.1 h
  by_cases he : (x.id == tk'.id) = true
  · left; simp [he]
  · right; simp only [he, Bool.false_eq_true, if_false]; exact ⟨hx, by simpa using he⟩

theorem project_find_of_findTask {ts : List PTask} {t : Nat} {tk : PTask} (h : findTask ts t = some tk) :
    Project.find? (toProject ts) t = some (toSpec tk) := by
  unfold Project.find? toProject findTask at *
  simp only []
  induction ts with
  | nil => simp at h
  | cons x xs ih =>
    simp only [List.map_cons, List.find?_cons] at h ⊢
    have : (toSpec x).id = x.id := rfl
    rw [this]
    cases hx : (x.id == t)
    · rw [hx] at h; exact ih h
    · rw [hx] at h; simp only [Option.some.injEq] at h; rw [h]

theorem stateOf_tv {ts : List PTask} {t : Nat} {tk : PTask} (w : World) (h : findTask ts t = some tk) :
    stateOf (toProject ts) w (tv t) = lookup w.fs tk.src := by
  unfold stateOf
  have h2 : tv t / 2 = t := by unfold tv; omega
  simp only [isTaskV_tv, if_true, h2, project_find_of_findTask h]
  rfl

/-- If the change scan answers "changed", the task function is called (whatever it then does). -/
theorem runPhases_changed (Y : YieldFn) (F : BodyFn) (s : Sess) (t : Nat) (tk : PTask)
    (hf : findTask s.tasks t = some tk) (hng : tk.gen = false) (hfm : t ∉ s.failMarks)
    (hrn : t ∉ (setupProvisional s t).renewed)
    (hscan : scanP (toProject (setupProvisional s t).tasks) (setupProvisional s t).g (setupProvisional s t).w
        (provNodes (setupProvisional s t).tasks) t false (neighbours (setupProvisional s t).g t) = Scan.changed) :
    (runPhases Y F s t).1.log = s.log ++ [t] := by
  have hsp := setupProvisional_spec s t tk hf
  have hgen : (resolvedDeps s.w.fs tk).gen = false := by unfold resolvedDeps; split <;> exact hng
  have hid : (resolvedDeps s.w.fs tk).id = t := findTask_id hsp.2
  unfold runPhases
  rw [setupChain_eval]
  have hfm' : failMarked (setupProvisional s t) t = false :=
    failMarked_false (by rw [hsp.1.2.2.2.1]; exact hfm) hrn
  simp only [hfm', Bool.false_eq_true, if_false]
  have hse : setupExecute (setupProvisional s t) t = (setupProvisional s t, Raised.none) := by
    unfold setupExecute
    rw [hsp.2]
    simp only [hgen, Bool.false_eq_true, if_false, hscan]
  rw [hse]
  simp only []
  rw [execChain_eval, hsp.2]
  simp only [hgen, Bool.false_eq_true, if_false]
  cases hb : (runBody F (resolvedDeps s.w.fs tk) (setupProvisional s t).w.fs).2 with
  | true => simp [invoke, hid, hsp.1.2.1]
  | false =>
    simp only []
    have htd := teardown_sameObs ({ invoke (setupProvisional s t) (resolvedDeps s.w.fs tk) with
      w := { (setupProvisional s t).w with fs := (runBody F (resolvedDeps s.w.fs tk) (setupProvisional s t).w.fs).1 } }) t
    rw [htd.2.1]
    simp [invoke, hid, hsp.1.2.1]

theorem setupProvisional_tasks (s : Sess) (t : Nat) (tk : PTask) (hf : findTask s.tasks t = some tk)
    (hu : unresolved tk.pdeps = true) :
    (setupProvisional s t).tasks = setTask s.tasks (resolvedDeps s.w.fs tk) := by
  unfold setupProvisional resolvedDeps
  rw [hf]
  simp only [hu, if_true, addTwp_contains]
  rw [(recreate_frame _ t).1]

/-- After the resolution, with all pattern dependencies fresh, every declared dependency of the task record exists if the
non-pattern dependencies do (matched files exist by definition of matching). -/
theorem resolvedDeps_allDeps_exist (fs : FS) (tk : PTask) (hun : ∀ sl ∈ tk.pdeps, sl.res = none)
    (hdeps : ∀ d ∈ tk.cnt.toList ++ tk.deps, (lookup fs d).isSome = true) :
    ∀ d ∈ (resolvedDeps fs tk).allDeps, (lookup fs d).isSome = true := by
  intro d hd
  unfold resolvedDeps at hd
  by_cases hu : unresolved tk.pdeps = true
  · simp only [hu, if_true, PTask.allDeps] at hd
    rcases List.mem_append.1 hd with h1 | h1
    · exact hdeps d h1
    · obtain ⟨sl', hsl', hdn⟩ := List.mem_flatMap.1 h1
      obtain ⟨sl, hsl, rfl⟩ := List.mem_map.1 hsl'
      have := hun sl hsl
      unfold Slot.resolve Slot.nodes at hdn
      rw [this] at hdn
      simp only [] at hdn
      exact (mem_glob.1 hdn).2.2
  · simp only [hu, Bool.false_eq_true, if_false, PTask.allDeps] at hd
    rcases List.mem_append.1 hd with h1 | h1
    · exact hdeps d h1
    · obtain ⟨sl, hsl, hdn⟩ := List.mem_flatMap.1 h1
      have hnone := hun sl hsl
      exfalso
      unfold unresolved at hu
      simp only [List.any_eq_true, not_exists, not_and, Bool.not_eq_true] at hu
      have := hu sl hsl
      rw [hnone] at this; simp at this

/-- Re-assembling an accepted pick list: an accepted pick followed by an accepted rest. -/
theorem loop_cons_ok {Y : YieldFn} {F : BodyFn} {s s' : Sess} {t : Nat} {ts : List Nat}
    (h1 : s.stop = false) (h2 : s.crashed = false) (h3 : LegalBatch s.so 1 [tv t]) (h4 : (findTask s.tasks t).isSome)
    (h5 : loop Y F (stepOf Y F s t) ts = .ok s') : loop Y F s (t :: ts) = .ok s' := by
  have hl : legalBatchB s.so 1 [tv t] = true := (legalBatchB_iff _ _ _).2 h3
  have hact : s.so.isActive = true := by
    have := (mem_avail.1 (h3.2.1 (tv t) (by simp))).1
    unfold isActive
    cases hn : s.so.nodes with
    | nil => rw [hn] at this; cases this
    | cons a as => rfl
  unfold loop
  rw [if_neg (by simp [h1, h2, hact]), if_neg (by simp [hl])]
  cases hf : findTask s.tasks t with
  | none => rw [hf] at h4; cases h4
  | some x => exact h5

theorem loop_append_ok {Y : YieldFn} {F : BodyFn} : ∀ (p q : List Nat) (a b c : Sess),
    loop Y F a p = .ok b → loop Y F b q = .ok c → loop Y F a (p ++ q) = .ok c
  | [], q, a, b, c, hab, hbc => by
    simp only [loop, Except.ok.injEq] at hab; subst hab; exact hbc
  | x :: xs, q, a, b, c, hab, hbc => by
    obtain ⟨c1, c2, c3, c4, c5⟩ := loop_cons hab
    exact loop_cons_ok c1 c2 c3 c4 (loop_append_ok xs q _ b c c5 hbc)

/-- Every entry of the received-lists log was written by one accepted pick: by the body of task `t`, handed out in the state
`sm` reached after a prefix of the picks, on the task record left by the resolution of `t`'s pattern dependencies in the
world of `sm`. -/
theorem loop_recv {Y : YieldFn} {F : BodyFn} : ∀ (picks : List Nat) (s s' : Sess), loop Y F s picks = .ok s' →
    ∀ e ∈ s'.recv, e ∈ s.recv ∨ ∃ pre t post sm tk, picks = pre ++ t :: post ∧ loop Y F s pre = .ok sm ∧
      findTask sm.tasks t = some tk ∧
      e = ⟨t, received (resolvedDeps sm.w.fs tk), seenBy (resolvedDeps sm.w.fs tk) sm.w.fs⟩
  | [], s, s', h, e, he => by
    simp only [loop, Except.ok.injEq] at h; subst h; exact Or.inl he
  | t :: ts, s, s', h, e, he => by
    obtain ⟨c1, c2, c3, c4, c5⟩ := loop_cons h
    rcases loop_recv ts _ s' c5 e he with h1 | ⟨pre, t', post, sm, tk, hp, hl, hf, heq⟩
    · cases hft : findTask s.tasks t with
      | none => rw [hft] at c4; cases c4
      | some tk =>
        have hobs := protocol_obs Y F { s with so := s.so.take [tv t] } t tk hft
        have hrecv : (stepOf Y F s t).recv = (protocol Y F { s with so := s.so.take [tv t] } t).recv := rfl
        rw [hrecv] at h1
        rcases hobs with ho | ho
        · rw [ho.2.1] at h1; exact Or.inl h1
        · rw [ho.2.1] at h1
          rcases List.mem_append.1 h1 with h2 | h2
          · exact Or.inl h2
          · right
            simp only [List.mem_singleton] at h2
            exact ⟨[], t, ts, s, tk, rfl, rfl, hft, h2⟩
    · right
      exact ⟨t :: pre, t', post, sm, tk, by rw [hp]; rfl, loop_cons_ok c1 c2 c3 c4 hl, hf, heq⟩

theorem initSess_empty {ts : List PTask} {w : World} {s0 : Sess} (h : initSess ts w = some s0) :
    s0.recv = [] ∧ s0.log = [] ∧ s0.reports = [] ∧ s0.w = w ∧ s0.tasks = ts ∧ s0.failMarks = [] := by
  unfold initSess at h
  split at h
  · cases h
  · split at h
    · cases h
    · cases h; exact ⟨rfl, rfl, rfl, rfl, rfl, rfl⟩

/-! ## The database: what a successful task records, and that nobody else touches its rows -/

abbrev Key := Nat × Nat

theorem lookup_insert_self (m : List (Key × Nat)) (k : Key) (v : Nat) : lookup (Engine.insert m k v) k = some v := by
  unfold lookup Engine.insert
  simp

theorem lookup_insert_ne (m : List (Key × Nat)) (k k' : Key) (v : Nat) (h : k' ≠ k) :
    lookup (Engine.insert m k v) k' = lookup m k' := by
  unfold lookup Engine.insert
  have h1 : (k == k') = false := by simpa using fun e => h e.symm
  simp only [List.find?_cons, h1]
  congr 1
  induction m with
  | nil => rfl
  | cons x xs ih =>
    simp only [List.filter_cons, List.find?_cons]
    by_cases hx : (x.1 == k) = true
    · have hxk : x.1 = k := by simpa using hx
      have : (x.1 == k') = false := by rw [hxk]; exact h1
      simp only [hx, Bool.not_true, Bool.false_eq_true, if_false, this]
      exact ih
    · simp only [hx, Bool.not_false, if_true, List.find?_cons]
      cases hxk : (x.1 == k')
      · exact ih
      · rfl

theorem stateOf_congr_fs (P : Project) (w w' : World) (h : w'.fs = w.fs) (v : Nat) : stateOf P w' v = stateOf P w v := by
  unfold stateOf; rw [h]

/-- `update_states_in_database` when it succeeds: one row per neighbour holding its current state; other rows untouched. -/
theorem updateStates_spec (P : Project) (g : G) (t : Nat) : ∀ (vs : List Nat) (w : World),
    (updateStates P g w t vs).2 = true →
    (∀ v ∈ vs, ∃ h, stateOf P w v = some h ∧ lookup (updateStates P g w t vs).1.db (tv t, v) = some h) ∧
    (∀ key : Key, (key.1 ≠ tv t ∨ key.2 ∉ vs) → lookup (updateStates P g w t vs).1.db key = lookup w.db key)
  | [], w, _ => ⟨fun _ h => (by cases h), fun _ _ => rfl⟩
  | v :: vs, w, hok => by
    unfold updateStates at hok ⊢
    cases hs : stateOf P w v with
    | none => rw [hs] at hok; simp at hok
    | some h =>
      rw [hs] at hok
      simp only [] at hok ⊢
      have ih := updateStates_spec P g t vs { w with db := Engine.insert w.db (tv t, v) h } hok
      have hst : ∀ x, stateOf P { w with db := Engine.insert w.db (tv t, v) h } x = stateOf P w x :=
        fun x => stateOf_congr_fs P w _ rfl x
      refine ⟨fun x hx => ?_, fun key hkey => ?_⟩
      · by_cases hxv : x ∈ vs
        · obtain ⟨h', e1, e2⟩ := ih.1 x hxv
          exact ⟨h', by rw [← hst x]; exact e1, e2⟩
        · have hxe : x = v := by
            rcases List.mem_cons.1 hx with e | e
            · exact e
            · exact absurd e hxv
          subst hxe
          refine ⟨h, hs, ?_⟩
          rw [ih.2 (tv t, x) (Or.inr hxv)]
          exact lookup_insert_self _ _ _
      · have hk2 : key.1 ≠ tv t ∨ key.2 ∉ vs := by
          rcases hkey with e | e
          · exact Or.inl e
          · exact Or.inr (fun hin => e (List.mem_cons_of_mem _ hin))
        rw [ih.2 key hk2]
        apply lookup_insert_ne
        intro e
        rcases hkey with e' | e'
        · exact e' (by rw [e])
        · exact e' (by rw [e]; simp)

/-- `TASKS_WITH_PROVISIONAL_NODES` only ever gains the task whose protocol is running. -/
def TwpExt (t : Nat) (s s' : Sess) : Prop := ∀ u ∈ s'.twp, u ∈ s.twp ∨ u = t

theorem TwpExt.refl (t : Nat) (s : Sess) : TwpExt t s s := fun _ h => Or.inl h
theorem TwpExt.trans {t : Nat} {a b c : Sess} (h1 : TwpExt t a b) (h2 : TwpExt t b c) : TwpExt t a c := fun u hu => by
  rcases h2 u hu with h | h
  · exact h1 u h
  · exact Or.inr h
theorem TwpExt.of_eq {t : Nat} {s s' : Sess} (h : s'.twp = s.twp) : TwpExt t s s' := fun u hu => Or.inl (h ▸ hu)

theorem mem_addTwp {twp : List Nat} {t u : Nat} (h : u ∈ addTwp twp t) : u ∈ twp ∨ u = t := by
  unfold addTwp at h
  split at h
  · exact Or.inl h
  · simpa using h

theorem setupProvisional_twp (s : Sess) (t : Nat) : TwpExt t s (setupProvisional s t) := by
  unfold setupProvisional
  split
  · exact TwpExt.refl t s
  · simp only []
    split <;> split <;> (try rw [TwpExt, (recreate_frame _ t).2.2.2.2.2.2.1]) <;>
      first | exact fun u hu => mem_addTwp hu | exact TwpExt.refl t s

theorem collectProducts_twp (s : Sess) (t : Nat) : TwpExt t s (collectProducts s t) := by
  unfold collectProducts
  split
  · exact TwpExt.refl t s
  · simp only []
    split
    · exact TwpExt.refl t s
    · split <;> split <;> (try rw [TwpExt, (recreate_frame _ t).2.2.2.2.2.2.1]) <;>
        first | exact fun u hu => mem_addTwp hu | exact TwpExt.refl t s

theorem setupExecute_twp (s : Sess) (t : Nat) : TwpExt t s (setupExecute s t).1 := by
  unfold setupExecute
  split
  · exact TwpExt.refl t s
  · split
    · exact TwpExt.refl t s
    · split
      · exact TwpExt.refl t s
      · exact TwpExt.refl t s
      · exact collectProducts_twp s t

theorem genExecute_twp (Y : YieldFn) (s : Sess) (tk : PTask) (t : Nat) : TwpExt t s (genExecute Y s tk).1 := by
  unfold genExecute
  simp only []
  split
  · exact TwpExt.of_eq rfl
  · split
    · exact TwpExt.of_eq rfl
    · split
      · exact TwpExt.of_eq rfl
      · split
        · exact TwpExt.of_eq rfl
        · exact TwpExt.of_eq (by rw [(recreate_frame _ _).2.2.2.2.2.2.1]; rfl)

theorem teardown_twp (s : Sess) (t : Nat) : TwpExt t s (teardown s t).1 := by
  unfold teardown
  split
  · exact TwpExt.refl t s
  · split
    · exact TwpExt.refl t s
    · split
      · exact TwpExt.refl t s
      · simp only []
        split
        · exact collectProducts_twp s t
        · split <;> exact collectProducts_twp s t

theorem protocol_twp (Y : YieldFn) (F : BodyFn) (s : Sess) (t : Nat) : TwpExt t s (protocol Y F s t) := by
  unfold protocol
  refine TwpExt.trans ?_ (TwpExt.of_eq (reportChain_frame _ t _).2.2.2.2.2.2.1)
  unfold runPhases
  rw [setupChain_eval]
  by_cases hfm : failMarked (setupProvisional s t) t = true
  · simp only [hfm, if_true]; exact setupProvisional_twp s t
  · simp only [hfm, Bool.false_eq_true, if_false]
    have h1 := (setupProvisional_twp s t).trans (setupExecute_twp (setupProvisional s t) t)
    generalize setupExecute (setupProvisional s t) t = r2 at h1 ⊢
    obtain ⟨s2, ra⟩ := r2
    cases ra with
    | none =>
      simp only []
      have h2 : TwpExt t s2 (execChain Y F t Generated.executeOrder s2).1 := by
        rw [execChain_eval]
        split
        · exact TwpExt.refl t s2
        · split
          · exact genExecute_twp Y s2 _ t
          · exact TwpExt.of_eq rfl
      generalize execChain Y F t Generated.executeOrder s2 = r3 at h2 ⊢
      obtain ⟨s3, b⟩ := r3
      cases b with
      | true => exact h1.trans h2
      | false => exact (h1.trans h2).trans (teardown_twp s3 t)
    | _ => exact h1

theorem loop_twp {Y : YieldFn} {F : BodyFn} : ∀ (picks : List Nat) (s s' : Sess) (h : List Nat),
    (∀ u ∈ s.twp, u ∈ h) → loop Y F s picks = .ok s' → ∀ u ∈ s'.twp, u ∈ h ++ picks
  | [], s, s', h, hs, hl => by
    simp only [loop, Except.ok.injEq] at hl; subst hl; simpa using hs
  | t :: ts, s, s', h, hs, hl => by
    obtain ⟨_, _, _, _, h5⟩ := loop_cons hl
    have hstep : ∀ u ∈ (stepOf Y F s t).twp, u ∈ h ++ [t] := by
      intro u hu
      rcases protocol_twp Y F { s with so := s.so.take [tv t] } t u hu with h1 | h1
      · exact List.mem_append.2 (Or.inl (hs u h1))
      · simp [h1]
    have := loop_twp ts _ s' (h ++ [t]) hstep h5
    simpa [List.append_assoc] using this

/-- The rows of task `t` are written by `t`'s own protocol only. -/
theorem protocol_db_other (Y : YieldFn) (F : BodyFn) (s : Sess) (t' : Nat) (tk : PTask) (hf : findTask s.tasks t' = some tk)
    (t : Nat) (hne : t ≠ t') (v : Nat) :
    lookup (protocol Y F s t').w.db (tv t, v) = lookup s.w.db (tv t, v) := by
  have hdb : (runPhases Y F s t').1.w.db = s.w.db := by
    rcases runPhases_obs Y F s t' tk hf with h | h
    · rw [h.2.2]
    · exact h.2.2.1
  unfold protocol
  rw [reportChain_eval]
  generalize runPhases Y F s t' = r at hdb
  obtain ⟨s1, ra⟩ := r
  simp only [] at hdb
  cases ra <;> simp only [addReport] <;> (try rw [hdb])
  -- the `.none` case
  split
  · rw [hdb]
  · split
    · simp only []
      rw [(updateStates_spec _ _ _ _ _ (by assumption)).2 (tv t, v) (Or.inl (fun e => hne (tv_inj' e))), hdb]
    · rw [hdb]

theorem loop_db_other {Y : YieldFn} {F : BodyFn} (t v : Nat) : ∀ (picks : List Nat) (s s' : Sess),
    loop Y F s picks = .ok s' → t ∉ picks → lookup s'.w.db (tv t, v) = lookup s.w.db (tv t, v)
  | [], s, s', h, _ => by simp only [loop, Except.ok.injEq] at h; subst h; rfl
  | p :: ps, s, s', h, hn => by
    obtain ⟨_, _, _, h4, h5⟩ := loop_cons h
    have hn' : t ≠ p ∧ t ∉ ps := by simpa using hn
    rw [loop_db_other t v ps _ s' h5 hn'.2]
    cases hf : findTask s.tasks p with
    | none => rw [hf] at h4; cases h4
    | some tk => exact protocol_db_other Y F { s with so := s.so.take [tv p] } p tk hf t hn'.1 v

/-! ## Tasks without directory patterns (e.g. the copy tasks a generator defines): the protocol in normal form -/

/-- The session after the body of a pattern-free task ran. -/
def afterBody (F : BodyFn) (s : Sess) (K : PTask) : Sess :=
  { invoke s K with w := { s.w with fs := (runBody F K s.w.fs).1 } }

def failReport (s : Sess) (k : Nat) : Sess := { addReport s k .fail with failMarks := s.failMarks ++ taskDesc s.g k }

/-- `pytask_execute_task_protocol` for a non-generator task without pattern arguments that is not registered in
`TASKS_WITH_PROVISIONAL_NODES`: nothing is resolved, the DAG is not re-created. -/
theorem protocol_plain (Y : YieldFn) (F : BodyFn) (s : Sess) (k : Nat) (K : PTask) (hf : findTask s.tasks k = some K)
    (hng : K.gen = false) (hpd : K.pdeps = []) (hpp : K.pprods = []) (htw : k ∉ s.twp) :
    protocol Y F s k =
      (if failMarked s k then addReport s k .skipPrevFailed
       else match scanP (toProject s.tasks) s.g s.w (provNodes s.tasks) k false (neighbours s.g k) with
        | .missing => failReport s k
        | .unchanged => addReport s k .skipUnchanged
        | .changed =>
          if (runBody F K s.w.fs).2 = true ∨ K.allProds.any (fun p => (lookup (afterBody F s K).w.fs p).isNone) = true
          then failReport (afterBody F s K) k
          else
            let u := updateStates (toProject s.tasks) s.g (afterBody F s K).w k (neighbours s.g k)
            if u.2 then addReport { afterBody F s K with w := u.1 } k .success else { afterBody F s K with crashed := true }) := by
  have hsp : setupProvisional s k = s := by
    unfold setupProvisional
    rw [hf]
    simp [hpd, unresolved, htw]
  have hcp : ∀ s' : Sess, findTask s'.tasks k = some K → s'.twp = s.twp → collectProducts s' k = s' := by
    intro s' hf' htw'
    unfold collectProducts
    rw [hf']
    have : k ∉ s'.twp := by rw [htw']; exact htw
    simp [hpp, unresolved, this, hng]
  have hisgen : ∀ s' : Sess, findTask s'.tasks k = some K → isGen s'.tasks k = false := by
    intro s' hf'; unfold isGen; rw [hf']; exact hng
  unfold protocol runPhases
  rw [setupChain_eval, hsp]
  by_cases hfm : failMarked s k = true
  · simp only [hfm, if_true]
    rw [reportChain_eval]
  · have hfm0 : failMarked s k = false := by simpa using hfm
    simp only [hfm0, Bool.false_eq_true, if_false]
    unfold setupExecute
    rw [hf]
    simp only [hng, Bool.false_eq_true, if_false]
    cases hsc : scanP (toProject s.tasks) s.g s.w (provNodes s.tasks) k false (neighbours s.g k) with
    | missing => simp only []; rw [reportChain_eval]; rfl
    | unchanged => simp only []; rw [hcp s hf rfl, reportChain_eval]
    | changed =>
      simp only []
      rw [execChain_eval, hf]
      simp only [hng, Bool.false_eq_true, if_false]
      have hab : ({ invoke s K with w := { s.w with fs := (runBody F K s.w.fs).1 } } : Sess) = afterBody F s K := rfl
      rw [hab]
      cases hb : (runBody F K s.w.fs).2 with
      | true =>
        simp only [true_or, if_true]
        rw [reportChain_eval]; rfl
      | false =>
        simp only [Bool.false_eq_true, false_or]
        have hf2 : findTask (afterBody F s K).tasks k = some K := hf
        have hop : K.ordinaryProds = K.allProds := by unfold PTask.ordinaryProds PTask.allProds; rw [hpp]; rfl
        unfold teardown
        rw [hf2]
        simp only [hng, Bool.false_eq_true, if_false, hop]
        by_cases hmiss : K.allProds.any (fun p => (lookup (afterBody F s K).w.fs p).isNone) = true
        · simp only [hmiss, if_true]
          rw [reportChain_eval]; rfl
        · simp only [hmiss, Bool.false_eq_true, if_false]
          rw [hcp (afterBody F s K) hf2 rfl, hf2]
          simp only [hmiss, Bool.false_eq_true, if_false]
          rw [reportChain_eval]
          simp only [hisgen _ hf2, Bool.false_eq_true, if_false]
          rfl

/-- The recorded state of vertex `v` for task `t` equals its current state. -/
def RowOK (P : Project) (w : World) (t v : Nat) : Prop := ∃ h, stateOf P w v = some h ∧ lookup w.db (tv t, v) = some h

theorem scanP_unchanged_of_rows (P : Project) (g : G) (w : World) (pn : List Nat) (t : Nat) :
    ∀ vs, (∀ v ∈ vs, RowOK P w t v) → scanP P g w pn t false vs = Scan.unchanged
  | [], _ => by simp [scanP]
  | v :: vs, h => by
    have ih := scanP_unchanged_of_rows P g w pn t vs (fun u hu => h u (List.mem_cons_of_mem _ hu))
    obtain ⟨hh, h1, h2⟩ := h v (by simp)
    unfold scanP
    simp only [Bool.false_and, Bool.false_eq_true, if_false]
    split
    · exact ih
    · have hc : hasChanged w t v (some hh) = false := by
        unfold hasChanged; simp only [h2]; simp
      simp only [h1, Option.isNone_some, Bool.and_false, Bool.false_eq_true, if_false, hc]
      exact ih

/-- Every declared dependency, the module and every declared product of `K` exist and have their current content recorded
for `K` in the database. -/
def Recorded (w : World) (K : PTask) : Prop :=
  (∀ d ∈ K.allDeps, ∃ h, lookup w.fs d = some h ∧ lookup w.db (tv K.id, nv d) = some h) ∧
  (∃ h, lookup w.fs K.src = some h ∧ lookup w.db (tv K.id, tv K.id) = some h) ∧
  (∀ p ∈ K.allProds, ∃ h, lookup w.fs p = some h ∧ lookup w.db (tv K.id, nv p) = some h)

theorem neighbours_rows {s : Sess} {m : List Nat} (hdag : createDag (toProject s.tasks) {} = .ok (s.g, m)) (k : Nat) (K : PTask)
    (hf : findTask s.tasks k = some K) (huniq : ∀ u ∈ s.tasks, u.id = k → u = K) (hafter : K.after = [])
    (w : World) (hrec : Recorded w K) : ∀ v ∈ neighbours s.g k, RowOK (toProject s.tasks) w k v := by
  have hid : K.id = k := findTask_id hf
  intro v hv
  unfold neighbours at hv
  simp only [List.mem_append, List.mem_singleton] at hv
  rcases hv with (hv | rfl) | hv
  · rcases (createDag_neighbours_conv hdag k).1 v hv with ⟨u, hu, huid, d, hd, rfl⟩ | ⟨u, hu, huid, ha⟩
    · rw [huniq u hu huid] at hd
      obtain ⟨h, e1, e2⟩ := hrec.1 d hd
      exact ⟨h, by rw [stateOf_nv]; exact e1, by rw [← hid]; exact e2⟩
    · rw [huniq u hu huid] at ha; exact absurd hafter ha
  · obtain ⟨h, e1, e2⟩ := hrec.2.1
    exact ⟨h, by rw [stateOf_tv _ hf]; exact e1, by rw [← hid]; exact e2⟩
  · obtain ⟨u, hu, huid, p, hp, rfl⟩ := (createDag_neighbours_conv hdag k).2 v hv
    rw [huniq u hu huid] at hp
    obtain ⟨h, e1, e2⟩ := hrec.2.2 p hp
    exact ⟨h, by rw [stateOf_nv]; exact e1, by rw [← hid]; exact e2⟩

theorem list_ne_append_singleton {α} (l : List α) (a : α) : l ≠ l ++ [a] := by
  intro h
  have := congrArg List.length h
  simp at this

/-- **unchanged ⇒ skipped** for a pattern-free task: with everything recorded, the protocol only appends `SKIP_UNCHANGED`. -/
theorem plain_skip (Y : YieldFn) (F : BodyFn) (s : Sess) (k : Nat) (K : PTask) (m : List Nat)
    (hdag : createDag (toProject s.tasks) {} = .ok (s.g, m)) (hf : findTask s.tasks k = some K)
    (hng : K.gen = false) (hpd : K.pdeps = []) (hpp : K.pprods = []) (htw : k ∉ s.twp) (hfm : k ∉ s.failMarks) (hrn : k ∉ s.renewed)
    (huniq : ∀ u ∈ s.tasks, u.id = k → u = K) (hafter : K.after = []) (hrec : Recorded s.w K) :
    protocol Y F s k = addReport s k .skipUnchanged := by
  rw [protocol_plain Y F s k K hf hng hpd hpp htw]
  simp only [failMarked_false hfm hrn, Bool.false_eq_true, if_false]
  rw [scanP_unchanged_of_rows _ _ _ _ _ _ (neighbours_rows hdag k K hf huniq hafter s.w hrec)]

/-- **success ⇒ recorded**: if the body of a pattern-free task ran, the task did not fail and nothing crashed, then all
its dependencies, its module and its products exist and are recorded with their current contents. -/
theorem plain_records (Y : YieldFn) (F : BodyFn) (s : Sess) (k : Nat) (K : PTask) (m : List Nat)
    (hdag : createDag (toProject s.tasks) {} = .ok (s.g, m)) (hf : findTask s.tasks k = some K)
    (hng : K.gen = false) (hpd : K.pdeps = []) (hpp : K.pprods = []) (htw : k ∉ s.twp)
    (hlog : (protocol Y F s k).log = s.log ++ [k]) (hnf : (k, Outcome.fail) ∉ (protocol Y F s k).reports)
    (hcr : (protocol Y F s k).crashed = false) : Recorded (protocol Y F s k).w K := by
  have hid : K.id = k := findTask_id hf
  rw [protocol_plain Y F s k K hf hng hpd hpp htw] at hlog hnf hcr ⊢
  by_cases hfm : failMarked s k = true
  · simp only [hfm, if_true, addReport] at hlog
    exact absurd hlog (list_ne_append_singleton _ _)
  · simp only [hfm, Bool.false_eq_true, if_false] at hlog hnf hcr ⊢
    cases hsc : scanP (toProject s.tasks) s.g s.w (provNodes s.tasks) k false (neighbours s.g k) with
    | missing => rw [hsc] at hlog; simp only [failReport, addReport] at hlog; exact absurd hlog (list_ne_append_singleton _ _)
    | unchanged => rw [hsc] at hlog; simp only [addReport] at hlog; exact absurd hlog (list_ne_append_singleton _ _)
    | changed =>
      rw [hsc] at hnf hcr
      simp only [] at hnf hcr ⊢
      split at hnf
      · exfalso; apply hnf; simp [failReport, addReport]
      · rename_i hgood
        rw [if_neg hgood] at hcr ⊢
        cases hu : (updateStates (toProject s.tasks) s.g (afterBody F s K).w k (neighbours s.g k)).2 with
        | false => rw [hu] at hcr; simp at hcr
        | true =>
          simp only [if_true, addReport]
          have hspec := updateStates_spec (toProject s.tasks) s.g k (neighbours s.g k) (afterBody F s K).w hu
          have hfs := updateStates_fs (toProject s.tasks) s.g k (neighbours s.g k) (afterBody F s K).w
          have hKin := findTask_mem hf
          have hcs := createDag_spec hdag K hKin
          rw [hid] at hcs
          refine ⟨fun d hd => ?_, ?_, fun p hp => ?_⟩
          · have hv : nv d ∈ neighbours s.g k := by
              unfold neighbours; simp [mem_preds.2 (hcs.2.1 d hd)]
            obtain ⟨h, e1, e2⟩ := hspec.1 _ hv
            rw [stateOf_nv] at e1
            exact ⟨h, by rw [hfs]; exact e1, by rw [hid]; exact e2⟩
          · have hv : tv k ∈ neighbours s.g k := by unfold neighbours; simp
            obtain ⟨h, e1, e2⟩ := hspec.1 _ hv
            rw [stateOf_tv _ hf] at e1
            exact ⟨h, by rw [hfs]; exact e1, by rw [hid]; exact e2⟩
          · have hv : nv p ∈ neighbours s.g k := by
              unfold neighbours; simp [mem_succs.2 (hcs.2.2 p hp)]
            obtain ⟨h, e1, e2⟩ := hspec.1 _ hv
            rw [stateOf_nv] at e1
            exact ⟨h, by rw [hfs]; exact e1, by rw [hid]; exact e2⟩

/-- **changed ⇒ executed** for a pattern-free task: a declared dependency whose recorded state is absent or differs, and
nothing missing. -/
theorem plain_runs (Y : YieldFn) (F : BodyFn) (s : Sess) (k : Nat) (K : PTask) (m : List Nat)
    (hdag : createDag (toProject s.tasks) {} = .ok (s.g, m)) (hf : findTask s.tasks k = some K)
    (hng : K.gen = false) (hpd : K.pdeps = []) (hpp : K.pprods = []) (htw : k ∉ s.twp) (hfm : k ∉ s.failMarks) (hrn : k ∉ s.renewed)
    (huniq : ∀ u ∈ s.tasks, u.id = k → u = K) (hafter : K.after = [])
    (d : Nat) (hd : d ∈ K.allDeps) (hch : hasChanged s.w k (nv d) (lookup s.w.fs d) = true)
    (hex : ∀ x ∈ K.allDeps, (lookup s.w.fs x).isSome = true) (hsrc : (lookup s.w.fs K.src).isSome = true) :
    (protocol Y F s k).log = s.log ++ [k] := by
  have hid : K.id = k := findTask_id hf
  have hcs := createDag_spec hdag K (findTask_mem hf)
  rw [hid] at hcs
  have hpred : nv d ∈ s.g.preds (tv k) := mem_preds.2 (hcs.2.1 d hd)
  have hne1 := scanP_changed (toProject s.tasks) s.g s.w (provNodes s.tasks) k (nv d) hpred
    (by rw [stateOf_nv]; exact hch) (neighbours s.g k) false (by unfold neighbours; simp [hpred])
  have hne2 := scanP_not_missing (toProject s.tasks) s.g s.w (provNodes s.tasks) k (neighbours s.g k) false (by
    intro v _ hv
    simp only [Bool.or_eq_true, List.contains_iff_mem, beq_iff_eq] at hv
    rcases hv with hv | rfl
    · rcases (createDag_neighbours_conv hdag k).1 v hv with ⟨u, hu, huid, x, hx, rfl⟩ | ⟨u, hu, huid, ha⟩
      · rw [huniq u hu huid] at hx
        rw [stateOf_nv]; exact hex x hx
      · rw [huniq u hu huid] at ha; exact absurd hafter ha
    · rw [stateOf_tv _ hf]; exact hsrc)
  rw [protocol_plain Y F s k K hf hng hpd hpp htw]
  simp only [failMarked_false hfm hrn, Bool.false_eq_true, if_false, scan_cases _ hne1 hne2]
  split
  · simp [failReport, addReport, afterBody, invoke, hid]
  · split <;> simp [addReport, afterBody, invoke, hid]

/-- Generators are executed in every build (by design: their states are never recorded, `needs_to_be_executed = … or
is_task_generator(task)`): unless skipped because an ancestor failed, the generator function is called. -/
theorem protocol_gen_log (Y : YieldFn) (F : BodyFn) (s : Sess) (g : Nat) (G : PTask) (hf : findTask s.tasks g = some G)
    (hgen : G.gen = true) (hfm : g ∉ s.failMarks) (hrn : g ∉ (setupProvisional s g).renewed) :
    (protocol Y F s g).log = s.log ++ [g] := by
  have hsp := setupProvisional_spec s g G hf
  have hgen1 : (resolvedDeps s.w.fs G).gen = true := by unfold resolvedDeps; split <;> exact hgen
  have hid : (resolvedDeps s.w.fs G).id = g := findTask_id hsp.2
  generalize resolvedDeps s.w.fs G = G1 at hsp hgen1 hid
  unfold protocol
  rw [(reportChain_frame _ g _).2.2.2.2.1]
  unfold runPhases
  rw [setupChain_eval]
  have hfm' : failMarked (setupProvisional s g) g = false :=
    failMarked_false (by rw [hsp.1.2.2.2.1]; exact hfm) hrn
  simp only [hfm', Bool.false_eq_true, if_false]
  have hse : setupExecute (setupProvisional s g) g = (setupProvisional s g, Raised.none) := by
    unfold setupExecute; rw [hsp.2]; simp [hgen1]
  rw [hse]
  simp only []
  rw [execChain_eval, hsp.2]
  simp only [hgen1, if_true]
  have hge := genExecute_obs Y (setupProvisional s g) G1
  generalize genExecute Y (setupProvisional s g) G1 = r3 at hge ⊢
  obtain ⟨s3, b⟩ := r3
  cases b with
  | true => simp only [] at hge ⊢; rw [hge.2.1, hid, hsp.1.2.1]
  | false =>
    simp only [] at hge ⊢
    rw [(teardown_sameObs s3 g).2.1, hge.2.1, hid, hsp.1.2.1]

/-- A task the loop hands out has not been handed out before. -/
theorem pick_fresh {ts0 : List PTask} {s : Sess} {h : List Nat} {t : Nat} (hi : LInv ts0 s h) (hstop : s.stop = false)
    (hl : LegalBatch s.so 1 [tv t]) : t ∉ h := by
  intro hc
  obtain ⟨f, _, hr⟩ := (hi.good hstop).reach
  have hav := mem_avail.1 (hl.2.1 (tv t) (by simp))
  exact (reach_inv hr).disj (tv t) hav.1 (by rw [hi.done]; exact List.mem_map.2 ⟨t, hc, rfl⟩)

theorem initSess_twp {ts : List PTask} {w : World} {s0 : Sess} (h : initSess ts w = some s0) : s0.twp = [] := by
  unfold initSess at h
  split at h
  · cases h
  · split at h
    · cases h
    · cases h; rfl

/-! ## `skip_ancestor_failed` marks: where they come from, and that they cover everything below a failed task -/

/-- What a protocol does to graph / reports / fail marks / stop flag before its report is processed: nothing, or
`recreate_dag` on a session with these fields unchanged. -/
inductive Marks (t : Nat) : Sess → Sess → Prop
  | refl (s : Sess) : Marks t s s
  | other (s s' s'' : Sess) : Marks t s s' → s''.g = s'.g → s''.reports = s'.reports → s''.failMarks = s'.failMarks →
      s''.renewed = s'.renewed → s''.stop = s'.stop → Marks t s s''
  | re (s s' x : Sess) : Marks t s s' → x.g = s'.g → x.reports = s'.reports → x.failMarks = s'.failMarks →
      x.renewed = s'.renewed → x.stop = s'.stop → Marks t s (recreate x t)

theorem Marks.trans {t : Nat} {a b c : Sess} (h1 : Marks t a b) (h2 : Marks t b c) : Marks t a c := by
  induction h2 with
  | refl => exact h1
  | other s' s'' _ e1 e2 e3 e4 e5 ih => exact Marks.other _ _ _ ih e1 e2 e3 e4 e5
  | re s' x _ e1 e2 e3 e4 e5 ih => exact Marks.re _ _ x ih e1 e2 e3 e4 e5

theorem Marks.re_self {t : Nat} (s : Sess) : Marks t s (recreate s t) := Marks.re s s s (Marks.refl s) rfl rfl rfl rfl rfl

theorem setupProvisional_marks (s : Sess) (t : Nat) : Marks t s (setupProvisional s t) := by
  unfold setupProvisional
  split
  · exact Marks.refl s
  · simp only []
    split <;> split <;> first
      | exact Marks.re s s _ (Marks.refl s) rfl rfl rfl rfl rfl
      | exact Marks.refl s
      | exact Marks.other s s _ (Marks.refl s) rfl rfl rfl rfl rfl

theorem collectProducts_marks (s : Sess) (t : Nat) : Marks t s (collectProducts s t) := by
  unfold collectProducts
  split
  · exact Marks.refl s
  · simp only []
    split
    · exact Marks.refl s
    · split <;> split <;> first
        | exact Marks.re s s _ (Marks.refl s) rfl rfl rfl rfl rfl
        | exact Marks.refl s
        | exact Marks.other s s _ (Marks.refl s) rfl rfl rfl rfl rfl

theorem setupExecute_marks (s : Sess) (t : Nat) : Marks t s (setupExecute s t).1 := by
  unfold setupExecute
  split
  · exact Marks.refl s
  · split
    · exact Marks.refl s
    · split
      · exact Marks.refl s
      · exact Marks.refl s
      · exact collectProducts_marks s t

theorem genExecute_marks (Y : YieldFn) (s : Sess) (tk : PTask) (hid : tk.id = t) : Marks t s (genExecute Y s tk).1 := by
  unfold genExecute
  have h0 : Marks t s (invoke s tk) := Marks.other s s _ (Marks.refl s) rfl rfl rfl rfl rfl
  simp only []
  split
  · exact h0
  · split
    · exact h0
    · split
      · exact h0
      · split
        · exact h0
        · rw [← hid]
          exact Marks.re s s _ (Marks.refl s) rfl rfl rfl rfl rfl

theorem teardown_marks (s : Sess) (t : Nat) : Marks t s (teardown s t).1 := by
  unfold teardown
  split
  · exact Marks.refl s
  · split
    · exact Marks.refl s
    · split
      · exact Marks.refl s
      · simp only []
        split
        · exact collectProducts_marks s t
        · split <;> exact collectProducts_marks s t

theorem runPhases_marks (Y : YieldFn) (F : BodyFn) (s : Sess) (t : Nat) : Marks t s (runPhases Y F s t).1 := by
  unfold runPhases
  rw [setupChain_eval]
  by_cases hfm : failMarked (setupProvisional s t) t = true
  · simp only [hfm, if_true]; exact setupProvisional_marks s t
  · simp only [hfm, Bool.false_eq_true, if_false]
    have h1 := (setupProvisional_marks s t).trans (setupExecute_marks (setupProvisional s t) t)
    generalize setupExecute (setupProvisional s t) t = r2 at h1 ⊢
    obtain ⟨s2, ra⟩ := r2
    cases ra with
    | none =>
      simp only []
      have h2 : Marks t s2 (execChain Y F t Generated.executeOrder s2).1 := by
        rw [execChain_eval]
        cases hf : findTask s2.tasks t with
        | none => exact Marks.refl s2
        | some tk =>
          simp only []
          split
          · exact genExecute_marks Y s2 tk (findTask_id hf)
          · exact Marks.other s2 s2 _ (Marks.refl s2) rfl rfl rfl rfl rfl
      generalize execChain Y F t Generated.executeOrder s2 = r3 at h2 ⊢
      obtain ⟨s3, b⟩ := r3
      cases b with
      | true => exact h1.trans h2
      | false => exact (h1.trans h2).trans (teardown_marks s3 t)
    | _ => exact h1

/-- No task has been reported FAIL so far. -/
def NoFail (s : Sess) : Prop := ∀ r ∈ s.reports, r.2 ≠ Outcome.fail

/-- No task has been skipped because an ancestor failed. -/
def NoSkipPrev (s : Sess) : Prop := ∀ r ∈ s.reports, r.2 ≠ Outcome.skipPrevFailed

/-- As long as nothing failed, no task carries a `skip_ancestor_failed` mark (and none was skipped for a failed ancestor). -/
def CleanMarks (s : Sess) : Prop := NoFail s → s.failMarks = [] ∧ s.renewed = [] ∧ NoSkipPrev s

/-- Everything below a task reported FAIL — in the *current* graph — carries a `skip_ancestor_failed` mark. -/
def BelowFailedMarked (s : Sess) : Prop :=
  s.stop = false → ∀ f d, (f, Outcome.fail) ∈ s.reports → d ∈ taskDesc s.g f → failMarked s d = true

theorem renewFailMarks_clean (g : G) (s : Sess) (h : NoFail s) (h2 : NoSkipPrev s) : renewFailMarks g s = s.renewed := by
  unfold renewFailMarks renewMarks
  have : s.reports.filter (fun r => [Outcome.fail, Outcome.skipPrevFailed].contains r.2) = [] := by
    rw [List.filter_eq_nil_iff]
    intro r hr
    have a := h r hr
    have b := h2 r hr
    simp [a, b]
  rw [this]; simp

theorem recreate_marks_spec (x : Sess) (t : Nat) :
    (recreate x t).failMarks = x.failMarks ∧ (∃ l, (recreate x t).reports = x.reports ++ l ∧ ∀ r ∈ l, r.2 = Outcome.fail) ∧
    (NoFail x → NoSkipPrev x → (recreate x t).renewed = x.renewed) ∧ BelowFailedMarked (recreate x t) := by
  unfold recreate
  cases hc : createDag (toProject x.tasks) {} with
  | error e => exact ⟨rfl, ⟨_, rfl, by simp⟩, fun _ _ => rfl, fun hs => by simp at hs⟩
  | ok gm =>
    obtain ⟨g, m⟩ := gm
    simp only []
    cases hs : Sorter.fromDagAndSorter g isTaskV prio0 x.so with
    | error e => exact ⟨rfl, ⟨_, rfl, by simp⟩, fun h h2 => renewFailMarks_clean g x h h2, fun hs => by simp at hs⟩
    | ok so =>
      refine ⟨rfl, ⟨[], by simp, by simp⟩, fun h h2 => renewFailMarks_clean g x h h2, fun _ f d hf hd => ?_⟩
      simp only [] at hf hd
      unfold failMarked renewFailMarks renewMarks
      simp only []
      simp
      by_cases h1 : d ∈ x.failMarks
      · exact Or.inl h1
      · by_cases h2 : d ∈ x.renewed
        · exact Or.inr (Or.inl h2)
        · refine Or.inr (Or.inr ⟨?_, h1, h2⟩)
          first
            | exact ⟨f, Outcome.fail, ⟨hf, by simp⟩, hd⟩
            | exact ⟨f, ⟨Outcome.fail, hf, by simp⟩, hd⟩
            | exact ⟨f, ⟨Or.inl hf, hd⟩⟩
            | (simp; exact ⟨f, Or.inl hf, hd⟩)

theorem NoFail.of_append {s s' : Sess} {l : List (Nat × Outcome)} (h : s'.reports = s.reports ++ l) (hn : NoFail s') : NoFail s :=
  fun r hr => hn r (by rw [h]; exact List.mem_append.2 (Or.inl hr))

theorem Marks.invariants {t : Nat} {s s' : Sess} (h : Marks t s s') :
    (∃ l, s'.reports = s.reports ++ l) ∧ s'.failMarks = s.failMarks ∧ (s.stop = true → s'.stop = true) ∧
    (CleanMarks s → CleanMarks s') ∧ (BelowFailedMarked s → BelowFailedMarked s') := by
  induction h with
  | refl => exact ⟨⟨[], by simp⟩, rfl, id, id, id⟩
  | other s' s'' _ e1 e2 e3 e4 e5 ih =>
    obtain ⟨⟨l, hl⟩, hf, hst, hc, hb⟩ := ih
    refine ⟨⟨l, by rw [e2, hl]⟩, by rw [e3, hf], fun h => by rw [e5]; exact hst h, fun hcs hn => ?_, fun hbs hs f d hfr hd => ?_⟩
    · have := hc hcs (fun r hr => hn r (by rw [e2]; exact hr))
      exact ⟨by rw [e3]; exact this.1, by rw [e4]; exact this.2.1, fun r hr => this.2.2 r (by rw [← e2]; exact hr)⟩
    · have := hb hbs (by rw [← e5]; exact hs) f d (by rw [← e2]; exact hfr) (by rw [← e1]; exact hd)
      unfold failMarked at this ⊢; rw [e3, e4]; exact this
  | re s' x _ e1 e2 e3 e4 e5 ih =>
    obtain ⟨⟨l, hl⟩, hf, hst, hc, _⟩ := ih
    obtain ⟨r1, ⟨l2, r2, r2f⟩, r3, r4⟩ := recreate_marks_spec x t
    refine ⟨⟨l ++ l2, by rw [r2, e2, hl, List.append_assoc]⟩, by rw [r1, e3, hf],
      fun h => (recreate_frame x t).2.2.2.2.2.2.2 (by rw [e5]; exact hst h), fun hcs hn => ?_, fun _ => r4⟩
    have hnx : NoFail x := NoFail.of_append r2 hn
    have hcl := hc hcs (fun r hr => hnx r (by rw [e2]; exact hr))
    have hnsx : NoSkipPrev x := fun r hr => hcl.2.2 r (by rw [← e2]; exact hr)
    refine ⟨by rw [r1, e3]; exact hcl.1, by rw [r3 hnx hnsx, e4]; exact hcl.2.1, fun r hr => ?_⟩
    rw [r2] at hr
    rcases List.mem_append.1 hr with hr | hr
    · exact hnsx r hr
    · rw [r2f r hr]; simp

/-- The report hooks, given that SKIP_PREVIOUS_FAILED is only reported for a task that carries the mark. -/
theorem reportChain_marks (s : Sess) (t : Nat) (r : Raised) (hanc : r = Raised.ancestorFailed → failMarked s t = true) :
    (CleanMarks s → CleanMarks (reportChain t r Generated.processReportOrder s)) ∧
    (BelowFailedMarked s → BelowFailedMarked (reportChain t r Generated.processReportOrder s)) := by
  rw [reportChain_eval]
  have key : ∀ (s' : Sess) (o : Outcome), o ≠ Outcome.fail → (o = Outcome.skipPrevFailed → failMarked s t = true) →
      s'.reports = s.reports ++ [(t, o)] → s'.failMarks = s.failMarks →
      s'.renewed = s.renewed → s'.g = s.g → s'.stop = s.stop →
      (CleanMarks s → CleanMarks s') ∧ (BelowFailedMarked s → BelowFailedMarked s') := by
    intro s' o ho hsp e1 e2 e3 e4 e5
    refine ⟨fun hc hn => ?_, fun hb hs f d hf hd => ?_⟩
    · have := hc (fun r hr => hn r (by rw [e1]; exact List.mem_append.2 (Or.inl hr)))
      refine ⟨by rw [e2]; exact this.1, by rw [e3]; exact this.2.1, fun r hr => ?_⟩
      rw [e1] at hr
      rcases List.mem_append.1 hr with hr | hr
      · exact this.2.2 r hr
      · simp only [List.mem_singleton] at hr
        rw [hr]
        intro ho2
        have hm := hsp ho2
        unfold failMarked at hm
        rw [this.1, this.2.1] at hm
        simp at hm
    · rw [e1] at hf
      rcases List.mem_append.1 hf with hf | hf
      · have := hb (by rw [← e5]; exact hs) f d hf (by rw [← e4]; exact hd)
        unfold failMarked at this ⊢; rw [e2, e3]; exact this
      · simp only [List.mem_singleton, Prod.mk.injEq] at hf
        exact absurd hf.2.symm ho
  have crash : ∀ s' : Sess, s'.reports = s.reports → s'.failMarks = s.failMarks → s'.renewed = s.renewed → s'.g = s.g →
      s'.stop = s.stop → (CleanMarks s → CleanMarks s') ∧ (BelowFailedMarked s → BelowFailedMarked s') := by
    intro s' e1 e2 e3 e4 e5
    refine ⟨fun hc hn => ?_, fun hb hs f d hf hd => ?_⟩
    · have := hc (fun r hr => hn r (by rw [e1]; exact hr))
      exact ⟨by rw [e2]; exact this.1, by rw [e3]; exact this.2.1, fun r hr => this.2.2 r (by rw [← e1]; exact hr)⟩
    · have := hb (by rw [← e5]; exact hs) f d (by rw [← e1]; exact hf) (by rw [← e4]; exact hd)
      unfold failMarked at this ⊢; rw [e2, e3]; exact this
  have failc : (CleanMarks s → CleanMarks ({ addReport s t .fail with failMarks := s.failMarks ++ taskDesc s.g t } : Sess)) ∧
      (BelowFailedMarked s → BelowFailedMarked ({ addReport s t .fail with failMarks := s.failMarks ++ taskDesc s.g t } : Sess)) := by
    refine ⟨fun _ hn => ?_, fun hb hs f d hf hd => ?_⟩
    · exact absurd rfl (hn (t, Outcome.fail) (by simp [addReport]))
    · simp only [addReport] at hf hd hs
      rcases List.mem_append.1 hf with hf | hf
      · have := hb hs f d hf hd
        unfold failMarked at this ⊢
        simp only [Bool.or_eq_true, List.contains_iff_mem, List.mem_append] at this ⊢
        rcases this with h | h
        · exact Or.inl (Or.inl h)
        · exact Or.inr h
      · simp only [List.mem_singleton, Prod.mk.injEq] at hf
        unfold failMarked
        simp only [Bool.or_eq_true, List.contains_iff_mem, List.mem_append]
        exact Or.inl (Or.inr (by rw [← hf.1]; exact hd))
  cases r with
  | none =>
    simp only []
    split
    · exact key _ .success (by simp) (by simp) rfl rfl rfl rfl rfl
    · split
      · exact key _ .success (by simp) (by simp) rfl rfl rfl rfl rfl
      · exact crash _ rfl rfl rfl rfl rfl
  | skippedUnchanged => exact key _ .skipUnchanged (by simp) (by simp) rfl rfl rfl rfl rfl
  | ancestorFailed => exact key _ .skipPrevFailed (by simp) (fun _ => hanc rfl) rfl rfl rfl rfl rfl
  | skipped => exact failc
  | persisted => exact failc
  | wouldBeExecuted => exact failc
  | error => exact failc

/-- `SkippedAncestorFailed` is raised by the skipping hook only, for a task that carries the mark at that moment. -/
theorem runPhases_ancestorFailed (Y : YieldFn) (F : BodyFn) (s : Sess) (t : Nat)
    (h : (runPhases Y F s t).2 = Raised.ancestorFailed) : failMarked (runPhases Y F s t).1 t = true := by
  unfold runPhases at h ⊢
  rw [setupChain_eval] at h ⊢
  by_cases hfm : failMarked (setupProvisional s t) t = true
  · simp only [hfm, if_true]
  · simp only [hfm, Bool.false_eq_true, if_false] at h ⊢
    exfalso
    have hse : (setupExecute (setupProvisional s t) t).2 ≠ Raised.ancestorFailed := by
      unfold setupExecute
      split
      · simp
      · split
        · simp
        · split <;> simp
    generalize setupExecute (setupProvisional s t) t = r2 at h hse
    obtain ⟨s2, ra⟩ := r2
    cases ra with
    | none =>
      simp only [] at h
      generalize execChain Y F t Generated.executeOrder s2 = r3 at h
      obtain ⟨s3, b⟩ := r3
      cases b with
      | true => simp at h
      | false =>
        simp only [] at h
        unfold teardown at h
        split at h
        · simp at h
        · split at h
          · simp at h
          · split at h
            · simp at h
            · simp only [] at h
              split at h
              · simp at h
              · split at h <;> simp at h
    | ancestorFailed => exact hse rfl
    | _ => simp at h

theorem protocol_marks (Y : YieldFn) (F : BodyFn) (s : Sess) (t : Nat) :
    (CleanMarks s → CleanMarks (protocol Y F s t)) ∧ (BelowFailedMarked s → BelowFailedMarked (protocol Y F s t)) := by
  unfold protocol
  have h1 := (runPhases_marks Y F s t).invariants
  have h2 := reportChain_marks (runPhases Y F s t).1 t (runPhases Y F s t).2 (runPhases_ancestorFailed Y F s t)
  exact ⟨fun h => h2.1 (h1.2.2.2.1 h), fun h => h2.2 (h1.2.2.2.2 h)⟩

theorem loop_marks {Y : YieldFn} {F : BodyFn} : ∀ (picks : List Nat) (s s' : Sess), loop Y F s picks = .ok s' →
    (CleanMarks s → CleanMarks s') ∧ (BelowFailedMarked s → BelowFailedMarked s')
  | [], s, s', h => by simp only [loop, Except.ok.injEq] at h; subst h; exact ⟨id, id⟩
  | t :: ts, s, s', h => by
    obtain ⟨_, _, _, _, h5⟩ := loop_cons h
    have ih := loop_marks ts _ s' h5
    have hp := protocol_marks Y F { s with so := s.so.take [tv t] } t
    exact ⟨fun hc => ih.1 (hp.1 hc), fun hb => ih.2 (hp.2 hb)⟩

theorem initSess_marks {ts : List PTask} {w : World} {s0 : Sess} (h : initSess ts w = some s0) :
    CleanMarks s0 ∧ BelowFailedMarked s0 := by
  unfold initSess at h
  split at h
  · cases h
  · split at h
    · cases h
    · cases h
      exact ⟨fun _ => ⟨rfl, rfl, fun r hr => by cases hr⟩, fun _ f d hf _ => by cases hf⟩

theorem recreate_stop_reports (x : Sess) (t : Nat) (h : (recreate x t).stop = false) : (recreate x t).reports = x.reports := by
  unfold recreate at h ⊢
  split
  · rename_i hc; rw [hc] at h; simp at h
  · rename_i g m hc
    rw [hc] at h
    simp only [] at h ⊢
    split
    · rename_i hs; rw [hs] at h; simp at h
    · rfl

theorem Marks.reports_of_running {t : Nat} {s s' : Sess} (h : Marks t s s') (hs : s'.stop = false) : s'.reports = s.reports := by
  induction h with
  | refl => rfl
  | other s' s'' _ _ e2 _ _ e5 ih => rw [e2]; exact ih (by rw [← e5]; exact hs)
  | re s' x hm _ e2 _ _ e5 ih =>
    rw [recreate_stop_reports x t hs, e2]
    apply ih
    cases hst : s'.stop with
    | false => rfl
    | true =>
      have := (recreate_frame x t).2.2.2.2.2.2.2 (by rw [e5]; exact hst)
      rw [this] at hs; cases hs

end Prov
end Pytask
