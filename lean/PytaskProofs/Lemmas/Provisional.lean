import PytaskModel.Provisional
import PytaskProofs.Lemmas.Sorter
/-! Helper lemmas for M7 (directory patterns, generators). Core Lean only. -/
namespace Pytask
namespace Prov
open Engine Sorter

/-! ## The hook chains, evaluated on the call orders extracted from the source -/

/-- `pytask_execute_task_setup` in the extracted order: provisional (tryfirst), skipping, persist, execute. -/
theorem setupChain_eval (s : Sess) (t : Nat) :
    setupChain t Generated.setupOrder s =
      (if (setupProvisional s t).failMarks.contains t then (setupProvisional s t, Raised.ancestorFailed)
       else setupExecute (setupProvisional s t) t) := by
  simp only [Generated.setupOrder, setupChain, setupImpl]
  simp only [String.reduceBEq, Bool.false_eq_true, if_false, if_true]
  by_cases h : t ∈ (setupProvisional s t).failMarks
  · simp [h]
  · simp only [List.contains_iff_mem, h, if_false]
    cases hse : setupExecute (setupProvisional s t) t with
    | mk s' r => cases r <;> rfl

/-- `pytask_execute_task` in the extracted order (profile wrapper, provisional, execute; firstresult):
a generator is run by the `provisional` implementation only — its non-`None` result ends the chain. -/
theorem execChain_eval (Y : YieldFn) (F : BodyFn) (s : Sess) (t : Nat) :
    execChain Y F t Generated.executeOrder s =
      (match findTask s.tasks t with
       | none => (s, true)
       | some tk =>
         if tk.gen then genExecute Y s tk
         else ({ invoke s tk with w := { s.w with fs := (runBody F tk s.w.fs).1 } }, (runBody F tk s.w.fs).2)) := by
  simp only [Generated.executeOrder, execChain, execImpl, String.reduceBEq, Bool.false_eq_true, if_false, if_true,
    Generated.provisionalGeneratorResult, Generated.executeOrderFirstResult]
  cases hf : findTask s.tasks t with
  | none => simp [hf]
  | some tk =>
    by_cases hg : tk.gen = true
    · simp only [hf, hg, if_true]
      cases hge : genExecute Y s tk with
      | mk s' r => cases r <;> simp
    · simp only [hf, hg, Bool.false_eq_true, if_false]
      cases hrb : (runBody F tk s.w.fs).2 <;> simp [hrb]

/-- `pytask_execute_task_process_report` in the extracted order (skipping, profile, persist, provisional, execute; firstresult). -/
theorem reportChain_eval (s : Sess) (t : Nat) (r : Raised) :
    reportChain t r Generated.processReportOrder s =
      (match r with
       | .skippedUnchanged => addReport s t .skipUnchanged
       | .ancestorFailed => addReport s t .skipPrevFailed
       | .none =>
         if isGen s.tasks t then addReport s t .success
         else
           let u := updateStates (toProject s.tasks) s.g s.w t (neighbours s.g t)
           if u.2 then addReport { s with w := u.1 } t .success else { s with w := u.1, crashed := true }
       | _ => { addReport s t .fail with failMarks := s.failMarks ++ taskDesc s.g t }) := by
  simp only [Generated.processReportOrder, reportChain, reportImpl, String.reduceBEq, Bool.false_eq_true, if_false, if_true,
    Generated.provisionalReportKeepsStates, Generated.processReportOrderFirstResult, Bool.and_true]
  cases r with
  | none =>
    by_cases hg : isGen s.tasks t = true
    · simp [hg]
    · cases hu : (updateStates (toProject s.tasks) s.g s.w t (neighbours s.g t)).2 <;> simp [hg, hu]
  | _ => simp

end Prov
end Pytask
