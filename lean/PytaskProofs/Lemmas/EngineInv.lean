import PytaskProofs.Lemmas.StateProtocol
import PytaskProofs.Lemmas.StateGraph
/-!
# The state-table invariant of the build engine and its consequences
-/
namespace Pytask
namespace Engine
open Sorter

/-- Bodies that return normally have written every product (no "forgets a product" behaviour).
This is the premise under which "what a from-scratch build would produce" is defined. -/
def BodiesTotal (P : Project) : Prop := ∀ t ∈ P.tasks, ∀ k, t.beh ≠ .omits k

/-- **The inductive invariant (state table only).** For a task that is not marked `persist`: a
recorded product row is `F` applied to the recorded module row and the recorded dependency rows —
rows of one task always stem from one snapshot taken right after its body succeeded. -/
def DbCoherent (F : BodyFn) (P : Project) (db : DB) : Prop :=
  ∀ t ∈ P.tasks, t.persist = false → ∀ p i, (p, i) ∈ t.prods.zipIdx → ∀ hp, row db t.id (nv p) = some hp →
    hp = F t.id i (row db t.id (tv t.id)) (t.deps.map (fun d => row db t.id (nv d)))

/-- **Inv.** Whenever all rows of a (non-`persist`) task match the current contents, each of its
products holds `F t i (module content) (dependency contents)`. -/
def Inv (F : BodyFn) (P : Project) (g : G) (w : World) : Prop :=
  ∀ t ∈ P.tasks, t.persist = false → RowsMatch P g w t.id → ∀ p i, (p, i) ∈ t.prods.zipIdx →
    lookup w.fs p = some (F t.id i (lookup w.fs t.src) (t.deps.map (lookup w.fs)))

theorem mem_neighbours {g : G} {t v : Nat} :
    v ∈ neighbours g t ↔ v ∈ g.preds (tv t) ∨ v = tv t ∨ v ∈ g.succs (tv t) := by
  simp [neighbours]

theorem inv_of_coherent {F : BodyFn} {P : Project} {g : G} {w : World} (hwf : WF P) (hg : GraphOK P g)
    (hc : DbCoherent F P w.db) : Inv F P g w := by
  intro t ht hnp hrows p i hpi
  have hp : p ∈ t.prods := mem_zipIdx_fst hpi
  obtain ⟨h, hs, hr⟩ := hrows (nv p) (mem_neighbours.2 (Or.inr (Or.inr (hg.prods t ht p hp))))
  rw [stateOf_nv] at hs
  rw [hs, hc t ht hnp p i hpi h hr]
  obtain ⟨h', hs', hr'⟩ := hrows (tv t.id) (mem_neighbours.2 (Or.inr (Or.inl rfl)))
  rw [stateOf_tv P w (find?_of_mem hwf ht)] at hs'
  rw [hr', ← hs']
  have : t.deps.map (fun d => row w.db t.id (nv d)) = t.deps.map (lookup w.fs) := by
    apply List.map_congr_left
    intro d hd
    obtain ⟨h'', hs'', hr''⟩ := hrows (nv d) (mem_neighbours.2 (Or.inl (hg.deps t ht d hd)))
    rw [stateOf_nv] at hs''
    rw [hr'', hs'']
  rw [this]

/-! ## when a protocol records rows -/

theorem setupChain_none (P : Project) (g : G) (cfg : Cfg) (s : Sess) (t : TaskSpec) :
    ∀ names, setupChain P g cfg s t names = .none → ∀ n ∈ names, setupImpl P g cfg s t n = .none
  | [], _, _, hn => by cases hn
  | m :: ms, h, n, hn => by
    unfold setupChain at h
    split at h
    · rename_i hm
      rcases List.mem_cons.1 hn with rfl | hn
      · exact hm
      · exact setupChain_none P g cfg s t ms h n hn
    · rename_i hne
      exact absurd h hne

theorem setupImpl_persisted (P : Project) (g : G) (cfg : Cfg) (s : Sess) (t : TaskSpec) (n : String)
    (h : setupImpl P g cfg s t n = .persisted) :
    t.persist = true ∧ ((neighbours g t.id).map (stateOf P s.w)).all (·.isSome) = true := by
  unfold setupImpl at h
  split at h
  · repeat' split at h
    all_goals cases h
  · split at h
    · split at h
      · rename_i hp
        simp only at h
        split at h
        · rename_i hall
          simp only [Bool.and_eq_true] at hp
          exact ⟨hp.1, hall⟩
        · cases h
      · cases h
    · split at h
      · split at h
        · cases h
        · split at h
          all_goals cases h
      · cases h

theorem setupChain_persisted (P : Project) (g : G) (cfg : Cfg) (s : Sess) (t : TaskSpec) :
    ∀ names, setupChain P g cfg s t names = .persisted →
      t.persist = true ∧ ((neighbours g t.id).map (stateOf P s.w)).all (·.isSome) = true
  | [], h => by cases h
  | n :: ns, h => by
    unfold setupChain at h
    split at h
    · exact setupChain_persisted P g cfg s t ns h
    · exact setupImpl_persisted P g cfg s t n h

theorem setupImpl_execute_none (P : Project) (g : G) (cfg : Cfg) (s : Sess) (t : TaskSpec)
    (h : setupImpl P g cfg s t "execute" = .none) :
    scan P g s.w t.id cfg.force (neighbours g t.id) = .changed := by
  unfold setupImpl at h
  simp only [show ("execute" == "skipping") = false by decide, show ("execute" == "persist") = false by decide,
    show ("execute" == "execute") = true by decide, Bool.false_eq_true, if_false, if_true] at h
  split at h
  · cases h
  · split at h
    · cases h
    · assumption
    · cases h

/-- The three ways a protocol can end with respect to the state table. -/
theorem protocol_db_cases (F : BodyFn) (P : Project) (g : G) (cfg : Cfg) (s : Sess) (t : TaskSpec) :
    ((protocol F P g cfg s t).w.db = s.w.db ∧ (runPhases F P g cfg s t).1 ≠ .none ∧
      (runPhases F P g cfg s t).1 ≠ .persisted) ∨
    (setupChain P g cfg s t Generated.setupOrder = .persisted ∧ (runPhases F P g cfg s t).1 = .persisted ∧
      (protocol F P g cfg s t).w = (recordStates P g cfg s.w t.id).1) ∨
    (setupChain P g cfg s t Generated.setupOrder = .none ∧ cfg.dry = false ∧ (runPhases F P g cfg s t).1 = .none ∧
      (runBody F t s.w.fs).2 = false ∧ (∀ p ∈ t.prods, (lookup (runBody F t s.w.fs).1 p).isSome = true) ∧
      (protocol F P g cfg s t).w =
        (updateStates P g { s.w with fs := (runBody F t s.w.fs).1 } t.id (neighbours g t.id)).1) := by
  unfold protocol runPhases
  generalize hr : setupChain P g cfg s t Generated.setupOrder = r
  cases r
  case none =>
    simp only
    by_cases hd : cfg.dry = true
    · left; refine ⟨by simp [hd, processReport], by simp [hd], by simp [hd]⟩
    · simp only [hd, Bool.false_eq_true, if_false]
      by_cases hraised : (runBody F t s.w.fs).2 = true
      · left; refine ⟨by simp [hraised, processReport], by simp [hraised], by simp [hraised]⟩
      · simp only [hraised, Bool.false_eq_true, if_false]
        by_cases hmiss : (t.prods.any fun p => (lookup (runBody F t s.w.fs).1 p).isNone) = true
        · left; refine ⟨by simp [hmiss, processReport], by simp [hmiss], by simp [hmiss]⟩
        · right; right
          simp only [hmiss, Bool.false_eq_true, if_false]
          refine ⟨trivial, by first | trivial | (simp at hd; exact hd), trivial, by first | trivial | (simp at hraised; exact hraised), ?_, ?_⟩
          · intro p hp
            simp only [List.any_eq_true, not_exists, not_and, Bool.not_eq_true, Option.isNone_eq_false_iff] at hmiss
            exact hmiss p hp
          · unfold processReport recordStates
            simp only [hd, Bool.false_eq_true, if_false]
            split <;> rfl
  case persisted =>
    right; left
    exact ⟨rfl, rfl, rfl⟩
  all_goals (left; exact ⟨rfl, by simp, by simp⟩)

theorem stateOf_keeps (P : Project) (w w' : World)
    (hk : ∀ q, (lookup w.fs q).isSome = true → (lookup w'.fs q).isSome = true) (v : Nat)
    (h : (stateOf P w v).isSome = true) : (stateOf P w' v).isSome = true := by
  unfold stateOf at h ⊢
  split
  · rename_i hv
    simp only [hv, if_true] at h
    split
    · rename_i spec hf
      simp only [hf] at h
      exact hk _ h
    · rename_i hf
      simp [hf] at h
  · rename_i hv
    simp only [hv, Bool.false_eq_true, if_false] at h
    exact hk _ h

/-- On the success path every neighbour has a state after the body, so `update_states` commits all
rows (it cannot stop half-way). -/
theorem success_all_states (F : BodyFn) (P : Project) (g : G) (cfg : Cfg) (s : Sess) (t : TaskSpec)
    (hg : GraphOK P g) (ht : t ∈ P.tasks)
    (hchain : setupChain P g cfg s t Generated.setupOrder = .none)
    (hprods : ∀ p ∈ t.prods, (lookup (runBody F t s.w.fs).1 p).isSome = true) :
    ∀ v ∈ neighbours g t.id, (stateOf P { s.w with fs := (runBody F t s.w.fs).1 } v).isSome = true := by
  have hexec := setupChain_none P g cfg s t _ hchain "execute" (by decide)
  have hscan := setupImpl_execute_none P g cfg s t hexec
  have hpre := scan_prefix_exists P g s.w t.id (g.preds (tv t.id) ++ [tv t.id]) (g.succs (tv t.id)) cfg.force
    (by
      intro v hv
      rcases List.mem_append.1 hv with hv | hv
      · simp [hv]
      · simp at hv; simp [hv])
    (by
      have : g.preds (tv t.id) ++ [tv t.id] ++ g.succs (tv t.id) = neighbours g t.id := rfl
      rw [this, hscan]; intro h; cases h)
  intro v hv
  rcases mem_neighbours.1 hv with hv | hv | hv
  · exact stateOf_keeps P s.w _ (fun q hq => runBody_keeps F t _ q hq) v (hpre v (by simp [hv]))
  · exact stateOf_keeps P s.w _ (fun q hq => runBody_keeps F t _ q hq) v (hpre v (by simp [hv]))
  · obtain ⟨p, hp, rfl⟩ := hg.succs t ht v hv
    rw [stateOf_nv]
    exact hprods p hp

/-- **rows_cover_neighbours / rows from one snapshot.** After the success path, the rows of `t` are
exactly the states of all its neighbours in the world right after the body. -/
theorem success_rows (F : BodyFn) (P : Project) (g : G) (cfg : Cfg) (s : Sess) (t : TaskSpec)
    (hg : GraphOK P g) (ht : t ∈ P.tasks)
    (hchain : setupChain P g cfg s t Generated.setupOrder = .none)
    (hprods : ∀ p ∈ t.prods, (lookup (runBody F t s.w.fs).1 p).isSome = true) :
    let w1 : World := { s.w with fs := (runBody F t s.w.fs).1 }
    let w' := (updateStates P g w1 t.id (neighbours g t.id)).1
    (updateStates P g w1 t.id (neighbours g t.id)).2 = true ∧ w'.fs = w1.fs ∧
    ∀ v ∈ neighbours g t.id, ∃ h, stateOf P w1 v = some h ∧ row w'.db t.id v = some h := by
  intro w1 w'
  have hall := success_all_states F P g cfg s t hg ht hchain hprods
  have hok := updateStates_ok P g t.id (neighbours g t.id) w1 hall
  obtain ⟨h1, _, h3⟩ := updateStates_spec P g t.id (neighbours g t.id) w1 w' _ rfl
  exact ⟨hok, h1, h3 hok⟩

/-- **inv_protocol** (state-table form). One task protocol — any configuration (forced, dry-run,
selections, failure limits), any outcome (success, failure in any phase, skip, persisted) —
preserves `DbCoherent`. -/
theorem coherent_protocol (F : BodyFn) (P : Project) (g : G) (cfg : Cfg) (s : Sess) (t : TaskSpec)
    (hwf : WF P) (hbt : BodiesTotal P) (hg : GraphOK P g) (ht : t ∈ P.tasks)
    (hc : DbCoherent F P s.w.db) : DbCoherent F P (protocol F P g cfg s t).w.db := by
  intro u hu hnp p i hpi hp hrow
  by_cases hut : u.id = t.id
  · have := hwf.ids u hu t ht hut
    subst this
    rcases protocol_db_cases F P g cfg s u with ⟨hdb, _, _⟩ | ⟨hchain, _, _⟩ | ⟨hchain, _, _, hret, hprods, hw⟩
    · rw [hdb] at hrow ⊢
      exact hc u hu hnp p i hpi hp hrow
    · have := (setupChain_persisted P g cfg s u _ hchain).1
      rw [hnp] at this; cases this
    · obtain ⟨_, hfs, hrows⟩ := success_rows F P g cfg s u hg ht hchain hprods
      rw [hw] at hrow ⊢
      -- the product row
      have hpm : p ∈ u.prods := mem_zipIdx_fst hpi
      obtain ⟨h, hs, hr⟩ := hrows (nv p) (mem_neighbours.2 (Or.inr (Or.inr (hg.prods u hu p hpm))))
      rw [hr] at hrow
      cases hrow
      rw [stateOf_nv] at hs
      simp only at hs
      obtain ⟨hval, _⟩ := runBody_val F u s.w.fs (hwf.prodsNodup u hu) (hbt u hu) hret p i hpi
      rw [hval] at hs
      cases hs
      -- the module row
      obtain ⟨h', hs', hr'⟩ := hrows (tv u.id) (mem_neighbours.2 (Or.inr (Or.inl rfl)))
      rw [stateOf_tv P _ (find?_of_mem hwf hu)] at hs'
      simp only at hs'
      rw [runBody_frame F u _ _ (hwf.srcNotProd u hu u hu)] at hs'
      rw [hr', ← hs']
      -- the dependency rows
      have : u.deps.map (fun d => row (updateStates P g { s.w with fs := (runBody F u s.w.fs).1 } u.id (neighbours g u.id)).1.db u.id (nv d))
          = u.deps.map (lookup s.w.fs) := by
        apply List.map_congr_left
        intro d hd
        obtain ⟨h'', hs'', hr''⟩ := hrows (nv d) (mem_neighbours.2 (Or.inl (hg.deps u hu d hd)))
        rw [stateOf_nv] at hs''
        simp only at hs''
        rw [runBody_frame F u _ _ (hg.noSelf u hu d hd)] at hs''
        rw [hr'', hs'']
      rw [this]
  · have hfr : ∀ v, row (protocol F P g cfg s t).w.db u.id v = row s.w.db u.id v := by
      intro v
      unfold row
      exact protocol_db_frame F P g cfg s t (tv u.id, v) (fun h => hut (tv_inj' h))
    rw [hfr] at hrow
    have := hc u hu hnp p i hpi hp hrow
    rw [this, hfr]
    congr 1
    apply List.map_congr_left
    intro d _
    rw [hfr]

/-! ## the build loop -/

theorem buildLoop_cons {F : BodyFn} {P : Project} {g : G} {cfg : Cfg} {so so' : Sorter} {s s' : Sess}
    {t : Nat} {ts : List Nat} (h : buildLoop F P g cfg so s (t :: ts) = .ok (so', s')) :
    ∃ spec, Project.find? P t = some spec ∧ LegalBatch so 1 [tv t] ∧
      s.stop = false ∧ s.crashed = false ∧
      buildLoop F P g cfg ((so.take [tv t]).finish [tv t]) (protocol F P g cfg s spec) ts = .ok (so', s') := by
  unfold buildLoop at h
  split at h
  · cases h
  · rename_i h0
    split at h
    · cases h
    · rename_i hlegal
      split at h
      · cases h
      · rename_i spec hfind
        have hlb : LegalBatch so 1 [tv t] := (legalBatchB_iff so 1 [tv t]).1 (by simpa using hlegal)
        simp only [Bool.or_eq_true, not_or, Bool.not_eq_true] at h0
        exact ⟨spec, hfind, hlb, h0.1.1, h0.1.2, h⟩

theorem buildLoop_cons_intro {F : BodyFn} {P : Project} {g : G} {cfg : Cfg} {so so' : Sorter} {s s' : Sess}
    {t : Nat} {ts : List Nat} {spec : TaskSpec} (h : buildLoop F P g cfg so s (t :: ts) = .ok (so', s'))
    (hfind : Project.find? P t = some spec) (so1 : Sorter) (s1 : Sess)
    (hrest : buildLoop F P g cfg ((so.take [tv t]).finish [tv t]) (protocol F P g cfg s spec) [] = .ok (so1, s1)) :
    buildLoop F P g cfg so s [t] = .ok (so1, s1) := by
  unfold buildLoop at h ⊢
  split at h
  · cases h
  · rename_i h0
    split at h
    · cases h
    · rename_i hlegal
      simp only [h0, hlegal, hfind]
      exact hrest

/-- Splitting a run of the loop at a pick. -/
theorem buildLoop_split {F : BodyFn} {P : Project} {g : G} {cfg : Cfg} :
    ∀ (pre : List Nat) {so so' : Sorter} {s s' : Sess} {t : Nat} {post : List Nat},
      buildLoop F P g cfg so s (pre ++ t :: post) = .ok (so', s') →
      ∃ so1 s1 spec, buildLoop F P g cfg so s pre = .ok (so1, s1) ∧ Project.find? P t = some spec ∧
        buildLoop F P g cfg ((so1.take [tv t]).finish [tv t]) (protocol F P g cfg s1 spec) post = .ok (so', s')
  | [], so, so', s, s', t, post, h => by
    obtain ⟨spec, hfind, _, _, _, hrest⟩ := buildLoop_cons h
    exact ⟨so, s, spec, by simp [buildLoop], hfind, hrest⟩
  | p :: pre, so, so', s, s', t, post, h => by
    simp only [List.cons_append] at h
    obtain ⟨spec, hfind, hlb, hstop, hcr, hrest⟩ := buildLoop_cons h
    obtain ⟨so1, s1, spec1, h1, hf1, h2⟩ := buildLoop_split pre hrest
    refine ⟨so1, s1, spec1, ?_, hf1, h2⟩
    unfold buildLoop
    have hl : Sorter.legalBatchB so 1 [tv p] = true := (legalBatchB_iff so 1 [tv p]).2 hlb
    have hact : so.isActive = true := by
      unfold buildLoop at h
      split at h
      · cases h
      · rename_i h0
        simp only [Bool.or_eq_true, not_or, Bool.not_eq_true, Bool.not_eq_false'] at h0
        simpa using h0.2
    simp only [hstop, hcr, hact, Bool.or_self, Bool.not_true, Bool.false_eq_true, if_false, hl, hfind]
    exact h1

theorem coherent_buildLoop (F : BodyFn) (P : Project) (g : G) (cfg : Cfg)
    (hwf : WF P) (hbt : BodiesTotal P) (hg : GraphOK P g) :
    ∀ (picks : List Nat) (so so' : Sorter) (s s' : Sess),
      buildLoop F P g cfg so s picks = .ok (so', s') → DbCoherent F P s.w.db → DbCoherent F P s'.w.db
  | [], so, so', s, s', h, hc => by
    simp only [buildLoop, Except.ok.injEq, Prod.mk.injEq] at h
    rw [← h.2]; exact hc
  | t :: ts, so, so', s, s', h, hc => by
    obtain ⟨spec, hfind, _, _, _, hrest⟩ := buildLoop_cons h
    exact coherent_buildLoop F P g cfg hwf hbt hg ts _ so' _ s' hrest
      (coherent_protocol F P g cfg s spec hwf hbt hg (find?_mem hfind) hc)

theorem ladder_dag_ne : ladderCode "ResolvingDependenciesError" ≠ 0 := by decide
theorem ladder_exc_ne : ladderCode "Exception" ≠ 0 := by decide
theorem ladder_exec_ne : ladderCode "ExecutionError" ≠ 0 := by decide

/-- What `build` returns, in terms of the loop. -/
theorem build_cases {F : BodyFn} {P : Project} {cfg : Cfg} {w : World} {picks : List Nat} {r : Result}
    (h : build F P cfg w picks = .ok r) :
    (r.w = w ∧ r.log = [] ∧ r.reports = [] ∧ r.exit ≠ 0) ∨
    ∃ g marks so so' s, createDag P cfg = .ok (g, marks) ∧ Sorter.fromDag g isTaskV (prioFn P) = .ok so ∧
      buildLoop F P g cfg so { w := w, skipMarks := marks } picks = .ok (so', s) ∧
      r.w = s.w ∧ r.log = s.log ∧ r.reports = s.reports ∧
      (r.exit = 0 → s.crashed = false ∧ ∀ e ∈ s.reports, e.2 ≠ .fail) ∧
      r.complete = (s.stop || s.crashed || !so'.isActive) := by
  unfold build at h
  split at h
  · left
    simp only [Except.ok.injEq] at h
    subst h
    exact ⟨rfl, rfl, rfl, ladder_dag_ne⟩
  · rename_i g marks hdag
    split at h
    · left
      simp only [Except.ok.injEq] at h
      subst h
      exact ⟨rfl, rfl, rfl, ladder_exc_ne⟩
    · rename_i so hso
      simp only at h
      split at h
      · cases h
      · rename_i so' s hloop
        right
        simp only [Except.ok.injEq] at h
        subst h
        refine ⟨g, marks, so, so', s, hdag, hso, hloop, rfl, rfl, rfl, ?_, rfl⟩
        simp only
        intro hexit
        by_cases hc : s.crashed = true
        · simp only [hc, if_true] at hexit
          exact absurd hexit ladder_exc_ne
        · simp only [hc, Bool.false_eq_true, if_false] at hexit
          refine ⟨by simpa using hc, ?_⟩
          by_cases hf : (s.reports.any fun r => r.2 == Outcome.fail) = true
          · simp only [hf, if_true] at hexit
            exact absurd hexit ladder_exec_ne
          · intro e he hfail
            apply hf
            exact List.any_eq_true.2 ⟨e, he, by simp [hfail]⟩

/-! ## where a report comes from -/

theorem buildLoop_report_origin {F : BodyFn} {P : Project} {g : G} {cfg : Cfg} :
    ∀ (picks : List Nat) {so so' : Sorter} {s s' : Sess} (e : Nat × Outcome),
      buildLoop F P g cfg so s picks = .ok (so', s') → e ∈ s'.reports →
      e ∈ s.reports ∨ ∃ pre post, picks = pre ++ e.1 :: post ∧
        ∀ so1 s1 spec, buildLoop F P g cfg so s pre = .ok (so1, s1) → Project.find? P e.1 = some spec →
          e.2 = outcomeOf (runPhases F P g cfg s1 spec).1
  | [], so, so', s, s', e, h, he => by
    simp only [buildLoop, Except.ok.injEq, Prod.mk.injEq] at h
    rw [← h.2] at he; exact Or.inl he
  | t :: ts, so, so', s, s', e, h, he => by
    obtain ⟨spec, hfind, _, _, _, hrest⟩ := buildLoop_cons h
    rcases buildLoop_report_origin ts e hrest he with h1 | ⟨pre, post, hp, hall⟩
    · rcases protocol_reports F P g cfg s spec with hr | ⟨_, hr, _⟩
      · rw [hr] at h1
        rcases List.mem_append.1 h1 with h1 | h1
        · exact Or.inl h1
        · right
          simp only [List.mem_singleton] at h1
          have hid : spec.id = t := find?_id hfind
          refine ⟨[], ts, by rw [h1]; simp [hid], ?_⟩
          intro so1 s1 spec' hb hf'
          simp only [buildLoop, Except.ok.injEq, Prod.mk.injEq] at hb
          rw [h1] at hf' ⊢
          simp only [hid] at hf'
          rw [hfind] at hf'
          cases hf'
          rw [← hb.2]
      · rw [hr] at h1; exact Or.inl h1
    · right
      refine ⟨t :: pre, post, by rw [hp]; rfl, ?_⟩
      intro so1 s1 spec' hb hf'
      obtain ⟨spec2, hfind2, _, _, _, hrest2⟩ := buildLoop_cons hb
      rw [hfind] at hfind2
      cases hfind2
      exact hall so1 s1 spec' hrest2 hf'

/-! ## stability of `RowsMatch` under other tasks' protocols -/

theorem stateOf_frame (P : Project) (w w' : World) (prods : List Nat)
    (hfr : ∀ q, q ∉ prods → lookup w'.fs q = lookup w.fs q) (v : Nat)
    (hnode : isTaskV v = false → v / 2 ∉ prods)
    (htask : isTaskV v = true → ∀ spec, Project.find? P (v / 2) = some spec → spec.src ∉ prods) :
    stateOf P w' v = stateOf P w v := by
  unfold stateOf
  split
  · rename_i hv
    split
    · rename_i spec hf
      exact hfr _ (htask hv spec hf)
    · rfl
  · rename_i hv
    exact hfr _ (hnode (by simpa using hv))

/-- Task `x` cannot disturb what task `u` tracks. -/
def Undisturbed (P : Project) (g : G) (u : Nat) (x : TaskSpec) : Prop :=
  x.id ≠ u ∧ ∀ v ∈ neighbours g u, (isTaskV v = false → v / 2 ∉ x.prods) ∧
    (isTaskV v = true → ∀ spec, Project.find? P (v / 2) = some spec → spec.src ∉ x.prods)

theorem rowsMatch_protocol_frame (F : BodyFn) (P : Project) (g : G) (cfg : Cfg) (s : Sess) (x : TaskSpec)
    (u : Nat) (hu : Undisturbed P g u x) (h : RowsMatch P g s.w u) :
    RowsMatch P g (protocol F P g cfg s x).w u := by
  intro v hv
  obtain ⟨hh, hs, hr⟩ := h v hv
  refine ⟨hh, ?_, ?_⟩
  · rw [stateOf_frame P s.w _ x.prods (fun q hq => protocol_fs_frame F P g cfg s x q hq) v
      (hu.2 v hv).1 (hu.2 v hv).2]
    exact hs
  · unfold row at hr ⊢
    rw [protocol_db_frame F P g cfg s x (tv u, v) (fun h => hu.1 (tv_inj' h).symm)]
    exact hr

theorem rowsMatch_buildLoop_frame (F : BodyFn) (P : Project) (g : G) (cfg : Cfg) (u : Nat) :
    ∀ (post : List Nat) (so so' : Sorter) (s s' : Sess),
      buildLoop F P g cfg so s post = .ok (so', s') →
      (∀ x ∈ post, ∀ spec, Project.find? P x = some spec → Undisturbed P g u spec) →
      RowsMatch P g s.w u → RowsMatch P g s'.w u
  | [], so, so', s, s', h, _, hr => by
    simp only [buildLoop, Except.ok.injEq, Prod.mk.injEq] at h
    rw [← h.2]; exact hr
  | t :: ts, so, so', s, s', h, hall, hr => by
    obtain ⟨spec, hfind, _, _, _, hrest⟩ := buildLoop_cons h
    exact rowsMatch_buildLoop_frame F P g cfg u ts _ so' _ s' hrest
      (fun x hx => hall x (by simp [hx]))
      (rowsMatch_protocol_frame F P g cfg s spec u (hall t (by simp) spec hfind) hr)

theorem odd_eq_nv {v : Nat} (h : isTaskV v = false) : v = nv (v / 2) := by
  unfold isTaskV at h; unfold nv
  simp at h; omega

theorem undisturbed_of {P : Project} {g : G} (hwf : WF P) (hg : GraphOK P g) {u x : TaskSpec}
    (hu : u ∈ P.tasks) (hx : x ∈ P.tasks) (hne : x.id ≠ u.id) (hanc : x.id ∉ taskAnc g u.id) :
    Undisturbed P g u.id x := by
  refine ⟨hne, ?_⟩
  intro v hv
  rcases mem_neighbours.1 hv with hv | hv | hv
  · have hodd := hg.predsOdd u.id v hv
    refine ⟨fun _ hq => ?_, fun h => by rw [hodd] at h; cases h⟩
    apply hanc
    apply hg.producerAnc u hu x hx (v / 2) hq
    rw [← odd_eq_nv hodd]; exact hv
  · subst hv
    refine ⟨fun h => by simp at h, fun _ spec hf => ?_⟩
    rw [tv_div, find?_of_mem hwf hu] at hf
    cases hf
    exact hwf.srcNotProd u hu x hx
  · obtain ⟨p, hp, rfl⟩ := hg.succs u hu v hv
    refine ⟨fun _ hq => ?_, fun h => by simp at h⟩
    rw [nv_div] at hq
    exact hne (by rw [hg.uniqueProducer x hx u hu p hq hp])

/-! ## after its own protocol a task's rows match -/

/-- **rows_cover_neighbours.** After a protocol that ended in SUCCESS, PERSISTENCE or SKIP_UNCHANGED
(not in a dry-run), every neighbour of the task has a row equal to its current state. -/
theorem good_rowsMatch (F : BodyFn) (P : Project) (g : G) (cfg : Cfg) (s : Sess) (t : TaskSpec)
    (hg : GraphOK P g) (ht : t ∈ P.tasks) (hdry : cfg.dry = false)
    (hgood : outcomeOf (runPhases F P g cfg s t).1 = .success ∨
             outcomeOf (runPhases F P g cfg s t).1 = .persistence ∨
             outcomeOf (runPhases F P g cfg s t).1 = .skipUnchanged) :
    RowsMatch P g (protocol F P g cfg s t).w t.id := by
  rcases protocol_db_cases F P g cfg s t with ⟨_, hn1, hn2⟩ | ⟨hchain, _, hw⟩ | ⟨hchain, _, _, _, hprods, hw⟩
  · -- nothing recorded: the outcome must be SKIP_UNCHANGED
    have hsu : (runPhases F P g cfg s t).1 = .skippedUnchanged := by
      cases hx : (runPhases F P g cfg s t).1 <;> simp [hx, outcomeOf] at hgood hn1 hn2 ⊢
    have hchain : setupChain P g cfg s t Generated.setupOrder = .skippedUnchanged := by
      rcases runPhases_raised F P g cfg s t with h1 | ⟨_, h1 | h1 | h1⟩
      · rw [← h1]; exact hsu
      · rw [hsu] at h1; cases h1.1
      · rw [hsu] at h1; cases h1
      · rw [hsu] at h1; cases h1
    have hrows := ((scan_unchanged_iff P g s.w t.id _ _).1 (setupChain_unchanged P g cfg s t _ hchain)).2
    have hq : Quiet (setupChain P g cfg s t Generated.setupOrder) := by
      rw [hchain]; right; right; right; rfl
    rw [(protocol_quiet F P g cfg s t hq).1]
    exact hrows
  · -- persisted
    obtain ⟨_, hall⟩ := setupChain_persisted P g cfg s t _ hchain
    rw [hw]
    unfold recordStates
    simp only [hdry, Bool.false_eq_true, if_false]
    have hall' : ∀ v ∈ neighbours g t.id, (stateOf P s.w v).isSome = true := by
      simpa [List.all_map] using hall
    have hok := updateStates_ok P g t.id (neighbours g t.id) s.w hall'
    obtain ⟨h1, _, h3⟩ := updateStates_spec P g t.id (neighbours g t.id) s.w _ _ rfl
    intro v hv
    obtain ⟨hh, hs, hr⟩ := h3 hok v hv
    exact ⟨hh, by rw [stateOf_fs P s.w _ h1]; exact hs, hr⟩
  · -- success
    obtain ⟨_, hfs, hrows⟩ := success_rows F P g cfg s t hg ht hchain hprods
    rw [hw]
    intro v hv
    obtain ⟨hh, hs, hr⟩ := hrows v hv
    exact ⟨hh, by rw [stateOf_fs P _ _ hfs]; exact hs, hr⟩

/-! ## order of picks (C01) in the form needed here -/

theorem picks_order {F : BodyFn} {P : Project} {g : G} {cfg : Cfg} {so so' : Sorter} {s s' : Sess}
    {picks : List Nat} (hg : GraphOK P g)
    (hso : Sorter.fromDag g isTaskV (prioFn P) = .ok so)
    (hb : buildLoop F P g cfg so s picks = .ok (so', s')) :
    picks.Nodup ∧ ∀ pre t post, picks = pre ++ t :: post → ∀ u ∈ P.tasks, u.id = t →
      ∀ a ∈ taskAnc g t, a ∈ pre := by
  obtain ⟨hd0, hp0⟩ := fromDag_init hso
  have hr0 : Reach so.edges so [] := Reach.init so hd0 hp0
  obtain ⟨hr1, _, hord, _⟩ := buildLoop_order F P g cfg picks so.edges so s [] so' s' hr0 hd0 hb
  have hnd : (picks.map tv).Nodup := by simpa using (reach_inv hr1).hnodup
  have hpn : picks.Nodup := by
    have := List.pairwise_map.1 hnd
    exact this.imp (fun hne heq => hne (by rw [heq]))
  refine ⟨hpn, ?_⟩
  intro pre t post hp u hu hut a ha
  unfold taskAnc at ha
  simp only [List.mem_map, List.mem_filter] at ha
  obtain ⟨v, ⟨hv1, hv2⟩, rfl⟩ := ha
  have htn : tv t ∈ g.nodes := by rw [← hut]; exact hg.taskNode u hu
  have hedge : (v, tv t) ∈ so.edges := (fromDag_edges hso v (tv t)).2 ⟨htn, by simp, hv1, hv2⟩
  have := hord pre t post hp v hedge
  simp only [List.nil_append, List.mem_map] at this
  obtain ⟨a', ha', hv⟩ := this
  have : v / 2 = a' := by rw [← hv]; simp
  rw [this]; exact ha'

/-- **Rows match at the end of the build.** A task reported SUCCESS, PERSISTENCE or SKIP_UNCHANGED
in a (non-dry) build has, in the *final* world, a matching row for every neighbour: tasks that ran
after it wrote only their own products, which are neither its dependencies (their producers are
its ancestors and ran earlier), nor its module, nor its products (unique producers). -/
theorem final_rowsMatch {F : BodyFn} {P : Project} {g : G} {cfg : Cfg} {so so' : Sorter} {s0 s' : Sess}
    {picks : List Nat} (hwf : WF P) (hg : GraphOK P g) (hdry : cfg.dry = false)
    (hso : Sorter.fromDag g isTaskV (prioFn P) = .ok so)
    (hloop : buildLoop F P g cfg so s0 picks = .ok (so', s')) (hs0 : s0.reports = [])
    (e : Nat × Outcome) (he : e ∈ s'.reports)
    (hgood : e.2 = .success ∨ e.2 = .persistence ∨ e.2 = .skipUnchanged) :
    RowsMatch P g s'.w e.1 ∧ ∃ pre post, picks = pre ++ e.1 :: post := by
  obtain ⟨hnd, hord⟩ := picks_order hg hso hloop
  rcases buildLoop_report_origin picks e hloop he with h0 | ⟨pre, post, hp, hall⟩
  · rw [hs0] at h0; cases h0
  · refine ⟨?_, pre, post, hp⟩
    rw [hp] at hloop
    obtain ⟨so1, s1, spec, hpre, hfind, hpost⟩ := buildLoop_split pre hloop
    have hout := hall so1 s1 spec hpre hfind
    have hspec : spec ∈ P.tasks := find?_mem hfind
    have hid : spec.id = e.1 := find?_id hfind
    have hrm := good_rowsMatch F P g cfg s1 spec hg hspec hdry (by rw [← hout]; exact hgood)
    rw [hid] at hrm
    apply rowsMatch_buildLoop_frame F P g cfg e.1 post _ so' _ s' hpost _ hrm
    intro x hx xs hfx
    have hxs : xs ∈ P.tasks := find?_mem hfx
    have hxid : xs.id = x := find?_id hfx
    rw [hp] at hnd
    have hnd' := List.nodup_append.1 hnd
    have hxne : x ≠ e.1 := by
      intro h; subst h
      exact (List.nodup_cons.1 hnd'.2.1).1 hx
    have hxpre : x ∉ pre := fun h => hnd'.2.2 x h x (by simp [hx]) rfl
    rw [← hid]
    apply undisturbed_of hwf hg hspec hxs (by rw [hxid, hid]; exact hxne)
    rw [hxid, hid]
    intro hanc
    exact hxpre (hord pre e.1 post hp spec hspec hid x hanc)

/-- If every task's rows match, a non-forced run of the loop executes nothing and changes nothing. -/
theorem quiet_buildLoop (F : BodyFn) (P : Project) (g : G) (cfg : Cfg) (w0 : World)
    (hforce : cfg.force = false) (hall : ∀ t ∈ P.tasks, RowsMatch P g w0 t.id) :
    ∀ (picks : List Nat) (so so' : Sorter) (s s' : Sess), s.w = w0 →
      buildLoop F P g cfg so s picks = .ok (so', s') → s'.w = w0 ∧ s'.log = s.log
  | [], so, so', s, s', hw, h => by
    simp only [buildLoop, Except.ok.injEq, Prod.mk.injEq] at h
    rw [← h.2]; exact ⟨hw, rfl⟩
  | t :: ts, so, so', s, s', hw, h => by
    obtain ⟨spec, hfind, _, _, _, hrest⟩ := buildLoop_cons h
    have hq := setupChain_rowsMatch P g cfg s spec hforce (by rw [hw]; exact hall spec (find?_mem hfind))
      Generated.setupOrder (by decide)
    obtain ⟨h1, h2⟩ := protocol_quiet F P g cfg s spec hq
    obtain ⟨h3, h4⟩ := quiet_buildLoop F P g cfg w0 hforce hall ts _ so' _ s' (by rw [h1]; exact hw) hrest
    exact ⟨h3, by rw [h4, h2]⟩

end Engine
end Pytask
