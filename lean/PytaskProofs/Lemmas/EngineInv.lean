import PytaskProofs.Lemmas.EngineProtocol
import PytaskProofs.Lemmas.EngineGraph
/-!
# The state-table invariant of the build engine and its consequences
-/
namespace Pytask
namespace Engine
open Sorter

/-- Bodies that return normally have written every product (no "forgets a product" behaviour).
This is the premise under which "what a from-scratch build would produce" is defined. -/
def BodiesTotal (P : Project) : Prop := ∀ t ∈ P.tasks, ∀ k, t.beh ≠ .omits k

/-- **The inductive invariant (state table only).** For a task that is not marked `persist`: a
recorded product row is `F` applied to the recorded module row and the recorded dependency rows —
rows of one task always stem from one snapshot taken right after its body succeeded. -/
def DbCoherent (F : BodyFn) (P : Project) (db : DB) : Prop :=
  ∀ t ∈ P.tasks, t.persist = false → ∀ p i, (p, i) ∈ t.prods.zipIdx → ∀ hp, row db t.id (nv p) = some hp →
    hp = F t.id i (row db t.id (tv t.id)) (t.deps.map (fun d => row db t.id (nv d)))

/-- **Inv.** Whenever all rows of a (non-`persist`) task match the current contents, each of its
products holds `F t i (module content) (dependency contents)`. -/
def Inv (F : BodyFn) (P : Project) (g : G) (w : World) : Prop :=
  ∀ t ∈ P.tasks, t.persist = false → RowsMatch P g w t.id → ∀ p i, (p, i) ∈ t.prods.zipIdx →
    lookup w.fs p = some (F t.id i (lookup w.fs t.src) (t.deps.map (lookup w.fs)))

theorem mem_neighbours {g : G} {t v : Nat} :
    v ∈ neighbours g t ↔ v ∈ g.preds (tv t) ∨ v = tv t ∨ v ∈ g.succs (tv t) := by
  simp [neighbours]

theorem inv_of_coherent {F : BodyFn} {P : Project} {g : G} {w : World} (hwf : WF P) (hg : GraphOK P g)
    (hc : DbCoherent F P w.db) : Inv F P g w := by
  intro t ht hnp hrows p i hpi
  have hp : p ∈ t.prods := mem_zipIdx_fst hpi
  obtain ⟨h, hs, hr⟩ := hrows (nv p) (mem_neighbours.2 (Or.inr (Or.inr (hg.prods t ht p hp))))
  rw [stateOf_nv] at hs
  rw [hs, hc t ht hnp p i hpi h hr]
  obtain ⟨h', hs', hr'⟩ := hrows (tv t.id) (mem_neighbours.2 (Or.inr (Or.inl rfl)))
  rw [stateOf_tv P w (find?_of_mem hwf ht)] at hs'
  rw [hr', ← hs']
  have : t.deps.map (fun d => row w.db t.id (nv d)) = t.deps.map (lookup w.fs) := by
    apply List.map_congr_left
    intro d hd
    obtain ⟨h'', hs'', hr''⟩ := hrows (nv d) (mem_neighbours.2 (Or.inl (hg.deps t ht d hd)))
    rw [stateOf_nv] at hs''
    rw [hr'', hs'']
  rw [this]

/-! ## when a protocol records rows -/

theorem setupChain_none (P : Project) (g : G) (cfg : Cfg) (s : Sess) (t : TaskSpec) :
    ∀ names, setupChain P g cfg s t names = .none → ∀ n ∈ names, setupImpl P g cfg s t n = .none
  | [], _, _, hn => by cases hn
  | m :: ms, h, n, hn => by
    unfold setupChain at h
    split at h
    · rename_i hm
      rcases List.mem_cons.1 hn with rfl | hn
      · exact hm
      · exact setupChain_none P g cfg s t ms h n hn
    · rename_i hne
      exact absurd h hne

theorem setupImpl_persisted (P : Project) (g : G) (cfg : Cfg) (s : Sess) (t : TaskSpec) (n : String)
    (h : setupImpl P g cfg s t n = .persisted) :
    t.persist = true ∧ ((neighbours g t.id).map (stateOf P s.w)).all (·.isSome) = true := by
  unfold setupImpl at h
  split at h
  · repeat' split at h
    all_goals cases h
  · split at h
    · split at h
      · rename_i hp
        simp only at h
        split at h
        · rename_i hall
          exact ⟨hp, hall⟩
        · cases h
      · cases h
    · split at h
      · split at h
        · cases h
        · split at h
          all_goals cases h
      · cases h

theorem setupChain_persisted (P : Project) (g : G) (cfg : Cfg) (s : Sess) (t : TaskSpec) :
    ∀ names, setupChain P g cfg s t names = .persisted →
      t.persist = true ∧ ((neighbours g t.id).map (stateOf P s.w)).all (·.isSome) = true
  | [], h => by cases h
  | n :: ns, h => by
    unfold setupChain at h
    split at h
    · exact setupChain_persisted P g cfg s t ns h
    · exact setupImpl_persisted P g cfg s t n h

theorem setupImpl_execute_none (P : Project) (g : G) (cfg : Cfg) (s : Sess) (t : TaskSpec)
    (h : setupImpl P g cfg s t "execute" = .none) :
    scan P g s.w t.id cfg.force (neighbours g t.id) = .changed := by
  unfold setupImpl at h
  simp only [show ("execute" == "skipping") = false by decide, show ("execute" == "persist") = false by decide,
    show ("execute" == "execute") = true by decide, Bool.false_eq_true, if_false, if_true] at h
  split at h
  · cases h
  · split at h
    · cases h
    · assumption
    · cases h

/-- The three ways a protocol can end with respect to the state table. -/
theorem protocol_db_cases (F : BodyFn) (P : Project) (g : G) (cfg : Cfg) (s : Sess) (t : TaskSpec) :
    (protocol F P g cfg s t).w.db = s.w.db ∨
    (setupChain P g cfg s t Generated.setupOrder = .persisted ∧ (runPhases F P g cfg s t).1 = .persisted ∧
      (protocol F P g cfg s t).w = (recordStates P g cfg s.w t.id).1) ∨
    (setupChain P g cfg s t Generated.setupOrder = .none ∧ cfg.dry = false ∧ (runPhases F P g cfg s t).1 = .none ∧
      (runBody F t s.w.fs).2 = false ∧ (∀ p ∈ t.prods, (lookup (runBody F t s.w.fs).1 p).isSome = true) ∧
      (protocol F P g cfg s t).w =
        (updateStates P g { s.w with fs := (runBody F t s.w.fs).1 } t.id (neighbours g t.id)).1) := by
  unfold protocol runPhases
  generalize hr : setupChain P g cfg s t Generated.setupOrder = r
  cases r
  case none =>
    simp only
    by_cases hd : cfg.dry = true
    · left; simp [hd, processReport]
    · simp only [hd, Bool.false_eq_true, if_false]
      by_cases hraised : (runBody F t s.w.fs).2 = true
      · left; simp [hraised, processReport]
      · simp only [hraised, Bool.false_eq_true, if_false]
        by_cases hmiss : (t.prods.any fun p => (lookup (runBody F t s.w.fs).1 p).isNone) = true
        · left; simp [hmiss, processReport]
        · right; right
          simp only [hmiss, Bool.false_eq_true, if_false]
          refine ⟨trivial, by first | trivial | (simp at hd; exact hd), trivial, by first | trivial | (simp at hraised; exact hraised), ?_, ?_⟩
          · intro p hp
            simp only [List.any_eq_true, not_exists, not_and, Bool.not_eq_true, Option.isNone_eq_false_iff] at hmiss
            exact hmiss p hp
          · unfold processReport recordStates
            simp only [hd, Bool.false_eq_true, if_false]
            split <;> rfl
  case persisted =>
    right; left
    exact ⟨rfl, rfl, rfl⟩
  all_goals (left; rfl)

theorem stateOf_keeps (P : Project) (w w' : World)
    (hk : ∀ q, (lookup w.fs q).isSome = true → (lookup w'.fs q).isSome = true) (v : Nat)
    (h : (stateOf P w v).isSome = true) : (stateOf P w' v).isSome = true := by
  unfold stateOf at h ⊢
  split
  · rename_i hv
    simp only [hv, if_true] at h
    split
    · rename_i spec hf
      simp only [hf] at h
      exact hk _ h
    · rename_i hf
      simp [hf] at h
  · rename_i hv
    simp only [hv, Bool.false_eq_true, if_false] at h
    exact hk _ h

/-- On the success path every neighbour has a state after the body, so `update_states` commits all
rows (it cannot stop half-way). -/
theorem success_all_states (F : BodyFn) (P : Project) (g : G) (cfg : Cfg) (s : Sess) (t : TaskSpec)
    (hg : GraphOK P g) (ht : t ∈ P.tasks)
    (hchain : setupChain P g cfg s t Generated.setupOrder = .none)
    (hprods : ∀ p ∈ t.prods, (lookup (runBody F t s.w.fs).1 p).isSome = true) :
    ∀ v ∈ neighbours g t.id, (stateOf P { s.w with fs := (runBody F t s.w.fs).1 } v).isSome = true := by
  have hexec := setupChain_none P g cfg s t _ hchain "execute" (by decide)
  have hscan := setupImpl_execute_none P g cfg s t hexec
  have hpre := scan_prefix_exists P g s.w t.id (g.preds (tv t.id) ++ [tv t.id]) (g.succs (tv t.id)) cfg.force
    (by
      intro v hv
      rcases List.mem_append.1 hv with hv | hv
      · simp [hv]
      · simp at hv; simp [hv])
    (by
      have : g.preds (tv t.id) ++ [tv t.id] ++ g.succs (tv t.id) = neighbours g t.id := rfl
      rw [this, hscan]; intro h; cases h)
  intro v hv
  rcases mem_neighbours.1 hv with hv | hv | hv
  · exact stateOf_keeps P s.w _ (fun q hq => runBody_keeps F t _ q hq) v (hpre v (by simp [hv]))
  · exact stateOf_keeps P s.w _ (fun q hq => runBody_keeps F t _ q hq) v (hpre v (by simp [hv]))
  · obtain ⟨p, hp, rfl⟩ := hg.succs t ht v hv
    rw [stateOf_nv]
    exact hprods p hp

/-- **rows_cover_neighbours / rows from one snapshot.** After the success path, the rows of `t` are
exactly the states of all its neighbours in the world right after the body. -/
theorem success_rows (F : BodyFn) (P : Project) (g : G) (cfg : Cfg) (s : Sess) (t : TaskSpec)
    (hg : GraphOK P g) (ht : t ∈ P.tasks)
    (hchain : setupChain P g cfg s t Generated.setupOrder = .none)
    (hprods : ∀ p ∈ t.prods, (lookup (runBody F t s.w.fs).1 p).isSome = true) :
    let w1 : World := { s.w with fs := (runBody F t s.w.fs).1 }
    let w' := (updateStates P g w1 t.id (neighbours g t.id)).1
    (updateStates P g w1 t.id (neighbours g t.id)).2 = true ∧ w'.fs = w1.fs ∧
    ∀ v ∈ neighbours g t.id, ∃ h, stateOf P w1 v = some h ∧ row w'.db t.id v = some h := by
  intro w1 w'
  have hall := success_all_states F P g cfg s t hg ht hchain hprods
  have hok := updateStates_ok P g t.id (neighbours g t.id) w1 hall
  obtain ⟨h1, _, h3⟩ := updateStates_spec P g t.id (neighbours g t.id) w1 w' _ rfl
  exact ⟨hok, h1, h3 hok⟩

/-- **inv_protocol** (state-table form). One task protocol — any configuration (forced, dry-run,
selections, failure limits), any outcome (success, failure in any phase, skip, persisted) —
preserves `DbCoherent`. -/
theorem coherent_protocol (F : BodyFn) (P : Project) (g : G) (cfg : Cfg) (s : Sess) (t : TaskSpec)
    (hwf : WF P) (hbt : BodiesTotal P) (hg : GraphOK P g) (ht : t ∈ P.tasks)
    (hc : DbCoherent F P s.w.db) : DbCoherent F P (protocol F P g cfg s t).w.db := by
  intro u hu hnp p i hpi hp hrow
  by_cases hut : u.id = t.id
  · have := hwf.ids u hu t ht hut
    subst this
    rcases protocol_db_cases F P g cfg s u with hdb | ⟨hchain, _, _⟩ | ⟨hchain, _, _, hret, hprods, hw⟩
    · rw [hdb] at hrow ⊢
      exact hc u hu hnp p i hpi hp hrow
    · have := (setupChain_persisted P g cfg s u _ hchain).1
      rw [hnp] at this; cases this
    · obtain ⟨_, hfs, hrows⟩ := success_rows F P g cfg s u hg ht hchain hprods
      rw [hw] at hrow ⊢
      -- the product row
      have hpm : p ∈ u.prods := mem_zipIdx_fst hpi
      obtain ⟨h, hs, hr⟩ := hrows (nv p) (mem_neighbours.2 (Or.inr (Or.inr (hg.prods u hu p hpm))))
      rw [hr] at hrow
      cases hrow
      rw [stateOf_nv] at hs
      simp only at hs
      obtain ⟨hval, _⟩ := runBody_val F u s.w.fs (hwf.prodsNodup u hu) (hbt u hu) hret p i hpi
      rw [hval] at hs
      cases hs
      -- the module row
      obtain ⟨h', hs', hr'⟩ := hrows (tv u.id) (mem_neighbours.2 (Or.inr (Or.inl rfl)))
      rw [stateOf_tv P _ (find?_of_mem hwf hu)] at hs'
      simp only at hs'
      rw [runBody_frame F u _ _ (hwf.srcNotProd u hu u hu)] at hs'
      rw [hr', ← hs']
      -- the dependency rows
      have : u.deps.map (fun d => row (updateStates P g { s.w with fs := (runBody F u s.w.fs).1 } u.id (neighbours g u.id)).1.db u.id (nv d))
          = u.deps.map (lookup s.w.fs) := by
        apply List.map_congr_left
        intro d hd
        obtain ⟨h'', hs'', hr''⟩ := hrows (nv d) (mem_neighbours.2 (Or.inl (hg.deps u hu d hd)))
        rw [stateOf_nv] at hs''
        simp only at hs''
        rw [runBody_frame F u _ _ (hwf.noSelf u hu d hd)] at hs''
        rw [hr'', hs'']
      rw [this]
  · have hfr : ∀ v, row (protocol F P g cfg s t).w.db u.id v = row s.w.db u.id v := by
      intro v
      unfold row
      exact protocol_db_frame F P g cfg s t (tv u.id, v) (fun h => hut (tv_inj' h))
    rw [hfr] at hrow
    have := hc u hu hnp p i hpi hp hrow
    rw [this, hfr]
    congr 1
    apply List.map_congr_left
    intro d _
    rw [hfr]

end Engine
end Pytask
