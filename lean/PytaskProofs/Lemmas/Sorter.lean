import PytaskModel.Sorter
/-! Helper lemmas for M2 (sorter). Core Lean only. -/
namespace Pytask
namespace Sorter

theorem nodupB_iff : ∀ (l : List Nat), nodupB l = true ↔ l.Nodup
  | [] => by simp [nodupB]
  | x :: xs => by simp [nodupB, nodupB_iff xs]

theorem sortedB_iff (p : Nat → Int) : ∀ (l : List Nat),
    sortedB p l = true ↔ l.Pairwise (fun x y => p x ≤ p y)
  | [] => by simp [sortedB]
  | x :: xs => by simp [sortedB, sortedB_iff p xs]

theorem legalBatchB_iff (s : Sorter) (n : Nat) (b : List Nat) :
    legalBatchB s n b = true ↔ LegalBatch s n b := by
  unfold legalBatchB LegalBatch
  simp only [Bool.and_eq_true, nodupB_iff, sortedB_iff, List.all_eq_true, List.contains_iff_mem,
    beq_iff_eq, Bool.or_eq_true, decide_eq_true_eq]
  constructor
  · rintro ⟨⟨⟨⟨h1, h2⟩, h3⟩, h4⟩, h5⟩
    refine ⟨h1, h2, h3, ?_, h5⟩
    intro x hx y hy hnb
    rcases h4 x hx y hy with h | h
    · exact absurd h hnb
    · exact h
  · rintro ⟨h1, h2, h3, h4, h5⟩
    refine ⟨⟨⟨⟨h1, h2⟩, h3⟩, ?_⟩, h5⟩
    intro x hx y hy
    by_cases hb : y ∈ b
    · exact Or.inl hb
    · exact Or.inr (h4 x hx y hy hb)

theorem avail_nodup (s : Sorter) (h : s.nodes.Nodup) : s.avail.Nodup :=
  List.Pairwise.sublist List.filter_sublist h

theorem mem_avail {s : Sorter} {v : Nat} :
    v ∈ s.avail ↔ v ∈ s.nodes ∧ s.indeg0 v = true ∧ v ∉ s.processing := by
  simp [avail]

theorem indeg0_iff {s : Sorter} {v : Nat} : s.indeg0 v = true ↔ ∀ a, (a, v) ∉ s.edges := by
  unfold indeg0
  simp only [List.all_eq_true, bne_iff_ne, ne_eq]
  constructor
  · intro h a hm; exact h (a, v) hm rfl
  · intro h e he heq
    have : e = (e.1, v) := by cases e; simp_all
    exact h e.1 (this ▸ he)

theorem ins_perm (p : Nat → Int) (x : Nat) : ∀ l, (ins p x l).Perm (x :: l)
  | [] => by simp [ins]
  | y :: ys => by
    unfold ins
    split
    · exact List.Perm.refl _
    · exact ((ins_perm p x ys).cons y).trans (List.Perm.swap x y ys)

theorem isort_perm (p : Nat → Int) : ∀ l, (isort p l).Perm l
  | [] => by simp [isort]
  | x :: xs => by
    unfold isort
    exact (ins_perm p x _).trans ((isort_perm p xs).cons x)

theorem ins_sorted (p : Nat → Int) (x : Nat) : ∀ l, l.Pairwise (fun a b => p a ≤ p b) →
    (ins p x l).Pairwise (fun a b => p a ≤ p b)
  | [], _ => by simp [ins]
  | y :: ys, h => by
    unfold ins
    split
    · rename_i hxy
      refine List.Pairwise.cons ?_ h
      intro z hz
      rcases List.mem_cons.1 hz with rfl | hz
      · exact hxy
      · have := (List.pairwise_cons.1 h).1 z hz; omega
    · rename_i hxy
      have h' := List.pairwise_cons.1 h
      refine List.Pairwise.cons ?_ (ins_sorted p x ys h'.2)
      intro z hz
      rcases List.mem_cons.1 ((ins_perm p x ys).mem_iff.1 hz) with rfl | hz
      · omega
      · exact h'.1 z hz

theorem isort_sorted (p : Nat → Int) : ∀ l, (isort p l).Pairwise (fun a b => p a ≤ p b)
  | [] => by simp [isort]
  | x :: xs => by unfold isort; exact ins_sorted p x _ (isort_sorted p xs)

end Sorter
end Pytask

namespace Pytask
namespace Sorter

/-- The invariant behind C01 at scheduler level. -/
structure Inv (E : List (Nat × Nat)) (s : Sorter) (h : List Nat) : Prop where
  edges : ∀ a x, (a, x) ∈ E → x ∈ s.nodes → (a, x) ∈ s.edges ∨ a ∈ s.done
  disj : ∀ x, x ∈ s.nodes → x ∉ s.done
  handed : ∀ x, x ∈ h → x ∈ s.processing ∨ x ∈ s.done
  hnodup : h.Nodup

theorem mem_finish_nodes {s : Sorter} {xs : List Nat} {x : Nat} :
    x ∈ (s.finish xs).nodes ↔ x ∈ s.nodes ∧ x ∉ xs := by
  simp [finish]

theorem inv_take {E s h} (n : Nat) (b : List Nat) (hi : Inv E s h) (hb : LegalBatch s n b) :
    Inv E (s.take b) (h ++ b) := by
  obtain ⟨hnd, hsub, _, _, _⟩ := hb
  refine ⟨hi.edges, hi.disj, ?_, ?_⟩
  · intro x hx
    rcases List.mem_append.1 hx with hx | hx
    · rcases hi.handed x hx with hp | hd
      · exact Or.inl (List.mem_append.2 (Or.inl hp))
      · exact Or.inr hd
    · exact Or.inl (List.mem_append.2 (Or.inr hx))
  · refine List.nodup_append.2 ⟨hi.hnodup, hnd, ?_⟩
    intro x hx y hy hxy
    subst hxy
    have hav := mem_avail.1 (hsub x hy)
    rcases hi.handed x hx with hp | hd
    · exact hav.2.2 hp
    · exact hi.disj x hav.1 hd

theorem inv_finish {E s h} (xs : List Nat) (hi : Inv E s h) : Inv E (s.finish xs) h := by
  refine ⟨?_, ?_, ?_, hi.hnodup⟩
  · intro a x hE hx
    have hx' := mem_finish_nodes.1 hx
    by_cases ha : a ∈ xs
    · exact Or.inr (by simp [finish, ha])
    · rcases hi.edges a x hE hx'.1 with he | hd
      · left; simp [finish, he, ha, hx'.2]
      · right; simp [finish, hd]
  · intro x hx hd
    have hx' := mem_finish_nodes.1 hx
    simp only [finish, List.mem_append] at hd
    rcases hd with hd | hd
    · exact hi.disj x hx'.1 hd
    · exact hx'.2 hd
  · intro x hx
    rcases hi.handed x hx with hp | hd
    · by_cases hxs : x ∈ xs
      · right; simp [finish, hxs]
      · left; simp [finish, hp, hxs]
    · right; simp [finish, hd]

theorem fromDag_init {full : G} {isTask : Nat → Bool} {prio : Nat → Int} {f : Sorter}
    (h : fromDag full isTask prio = .ok f) : f.done = [] ∧ f.processing = [] := by
  unfold fromDag at h
  split at h
  · cases h
  · cases h; exact ⟨rfl, rfl⟩

theorem inv_recreate {E s h} (full : G) (isTask : Nat → Bool) (prio : Nat → Int) (f s' : Sorter)
    (hi : Inv E s h) (hf : fromDag full isTask prio = .ok f)
    (hs : fromDagAndSorter full isTask prio s = .ok s') : Inv f.edges s' h := by
  unfold fromDagAndSorter at hs
  rw [hf] at hs
  simp only [Except.ok.injEq] at hs
  subst hs
  obtain ⟨hfd, _⟩ := fromDag_init hf
  refine ⟨?_, ?_, ?_, hi.hnodup⟩
  · intro a x hE hx
    have hx' : x ∈ f.nodes ∧ x ∉ s.done := by simpa [finish] using hx
    by_cases ha : a ∈ s.done
    · right; simp [finish, ha]
    · left; simp [finish, hE, ha, hx'.2]
  · intro x hx hd
    have hx' : x ∈ f.nodes ∧ x ∉ s.done := by simpa [finish] using hx
    have : x ∈ s.done := by simpa [finish, hfd] using hd
    exact hx'.2 this
  · intro x hx
    rcases hi.handed x hx with hp | hd
    · left; exact hp
    · right; simp [finish, hd]

theorem reach_inv {E s h} (hr : Reach E s h) : Inv E s h := by
  induction hr with
  | init s hd hp =>
    refine ⟨fun a x he _ => Or.inl he, ?_, ?_, List.nodup_nil⟩
    · intro x _ hx; rw [hd] at hx; cases hx
    · intro x hx; cases hx
  | ready n b _ hb ih => exact inv_take n b ih hb
  | done xs _ ih => exact inv_finish xs ih
  | recreate full isTask prio f s' _ hf hs ih => exact inv_recreate full isTask prio f s' ih hf hs

/-- Edges of the reduced task graph built by `from_dag`: exactly (task-ancestor, task) pairs. -/
theorem fromDag_edges {full : G} {isTask : Nat → Bool} {prio : Nat → Int} {f : Sorter}
    (h : fromDag full isTask prio = .ok f) (a t : Nat) :
    (a, t) ∈ f.edges ↔ t ∈ full.nodes ∧ isTask t = true ∧ a ∈ full.anc t ∧ isTask a = true := by
  unfold fromDag at h
  split at h
  · cases h
  · cases h
    simp only [List.mem_flatMap, List.mem_filter, List.mem_map, Prod.mk.injEq]
    constructor
    · rintro ⟨t', ⟨ht1, ht2⟩, a', ⟨ha1, ha2⟩, rfl, rfl⟩
      exact ⟨ht1, ht2, ha1, ha2⟩
    · rintro ⟨h1, h2, h3, h4⟩
      exact ⟨t, ⟨h1, h2⟩, a, ⟨h3, h4⟩, rfl, rfl⟩

theorem fromDag_nodes {full : G} {isTask : Nat → Bool} {prio : Nat → Int} {f : Sorter}
    (h : fromDag full isTask prio = .ok f) : f.nodes = full.nodes.filter isTask := by
  unfold fromDag at h
  split at h
  · cases h
  · cases h; rfl

/-- A non-empty list has an element of minimal rank. -/
theorem exists_min_rank (rank : Nat → Nat) : ∀ (l : List Nat), l ≠ [] →
    ∃ x ∈ l, ∀ y ∈ l, rank x ≤ rank y
  | [], h => absurd rfl h
  | [a], _ => ⟨a, by simp, by simp⟩
  | a :: b :: t, _ => by
    obtain ⟨m, hm, hmin⟩ := exists_min_rank rank (b :: t) (by simp)
    by_cases hle : rank a ≤ rank m
    · refine ⟨a, by simp, ?_⟩
      intro y hy
      rcases List.mem_cons.1 hy with rfl | hy
      · exact Nat.le_refl _
      · exact Nat.le_trans hle (hmin y hy)
    · refine ⟨m, List.mem_cons_of_mem _ hm, ?_⟩
      intro y hy
      rcases List.mem_cons.1 hy with rfl | hy
      · omega
      · exact hmin y hy

end Sorter
end Pytask
