import PytaskModel.Sorter
/-! Helper lemmas for M2 (sorter). Core Lean only. -/
namespace Pytask
namespace Sorter

theorem nodupB_iff : ∀ (l : List Nat), nodupB l = true ↔ l.Nodup
  | [] => by simp [nodupB]
  | x :: xs => by simp [nodupB, nodupB_iff xs]

theorem sortedB_iff (p : Nat → Int) : ∀ (l : List Nat),
    sortedB p l = true ↔ l.Pairwise (fun x y => p x ≤ p y)
  | [] => by simp [sortedB]
  | x :: xs => by simp [sortedB, sortedB_iff p xs]

theorem legalBatchB_iff (s : Sorter) (n : Nat) (b : List Nat) :
    legalBatchB s n b = true ↔ LegalBatch s n b := by
  unfold legalBatchB LegalBatch
  simp only [Bool.and_eq_true, nodupB_iff, sortedB_iff, List.all_eq_true, List.contains_iff_mem,
    beq_iff_eq, Bool.or_eq_true, decide_eq_true_eq]
  constructor
  · rintro ⟨⟨⟨⟨h1, h2⟩, h3⟩, h4⟩, h5⟩
    refine ⟨h1, h2, h3, ?_, h5⟩
    intro x hx y hy hnb
    rcases h4 x hx y hy with h | h
    · exact absurd h hnb
    · exact h
  · rintro ⟨h1, h2, h3, h4, h5⟩
    refine ⟨⟨⟨⟨h1, h2⟩, h3⟩, ?_⟩, h5⟩
    intro x hx y hy
    by_cases hb : y ∈ b
    · exact Or.inl hb
    · exact Or.inr (h4 x hx y hy hb)

theorem avail_nodup (s : Sorter) (h : s.nodes.Nodup) : s.avail.Nodup :=
  List.Pairwise.sublist List.filter_sublist h

theorem mem_avail {s : Sorter} {v : Nat} :
    v ∈ s.avail ↔ v ∈ s.nodes ∧ s.indeg0 v = true ∧ v ∉ s.processing := by
  simp [avail]

theorem indeg0_iff {s : Sorter} {v : Nat} : s.indeg0 v = true ↔ ∀ a, (a, v) ∉ s.edges := by
  unfold indeg0
  simp only [List.all_eq_true, bne_iff_ne, ne_eq]
  constructor
  · intro h a hm; exact h (a, v) hm rfl
  · intro h e he heq
    have : e = (e.1, v) := by cases e; simp_all
    exact h e.1 (this ▸ he)

theorem ins_perm (p : Nat → Int) (x : Nat) : ∀ l, (ins p x l).Perm (x :: l)
  | [] => by simp [ins]
  | y :: ys => by
    unfold ins
    split
    · exact List.Perm.refl _
    · exact ((ins_perm p x ys).cons y).trans (List.Perm.swap x y ys)

theorem isort_perm (p : Nat → Int) : ∀ l, (isort p l).Perm l
  | [] => by simp [isort]
  | x :: xs => by
    unfold isort
    exact (ins_perm p x _).trans ((isort_perm p xs).cons x)

theorem ins_sorted (p : Nat → Int) (x : Nat) : ∀ l, l.Pairwise (fun a b => p a ≤ p b) →
    (ins p x l).Pairwise (fun a b => p a ≤ p b)
  | [], _ => by simp [ins]
  | y :: ys, h => by
    unfold ins
    split
    · rename_i hxy
      refine List.Pairwise.cons ?_ h
      intro z hz
      rcases List.mem_cons.1 hz with rfl | hz
      · exact hxy
      · have := (List.pairwise_cons.1 h).1 z hz; omega
    · rename_i hxy
      have h' := List.pairwise_cons.1 h
      refine List.Pairwise.cons ?_ (ins_sorted p x ys h'.2)
      intro z hz
      rcases List.mem_cons.1 ((ins_perm p x ys).mem_iff.1 hz) with rfl | hz
      · omega
      · exact h'.1 z hz

theorem isort_sorted (p : Nat → Int) : ∀ l, (isort p l).Pairwise (fun a b => p a ≤ p b)
  | [] => by simp [isort]
  | x :: xs => by unfold isort; exact ins_sorted p x _ (isort_sorted p xs)

end Sorter
end Pytask
