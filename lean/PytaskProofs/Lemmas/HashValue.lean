import PytaskModel.HashValue
/-!
Helper lemmas and specification vocabulary for M4 (`HashValue.lean`), used by `Properties/C12.lean`.
-/
namespace Pytask.Hash

/-! ### decimal renderings -/

theorem decNat_inj {n m : Nat} (h : decNat n = decNat m) : n = m := by
  have := congrArg (fun l => Nat.ofDigitChars 10 l 0) h
  simpa [decNat] using this

theorem decNat_ne_nil (n : Nat) : decNat n ≠ [] := Nat.toDigits_ne_nil

theorem decNat_isDigit {n : Nat} {c : Char} (h : c ∈ decNat n) : c.isDigit = true :=
  Nat.isDigit_of_mem_toDigits (by decide) (by decide) h

theorem decNat_head_ne_minus (n : Nat) : (decNat n).head? ≠ some '-' := by
  intro h
  cases hd : decNat n with
  | nil => rw [hd] at h; simp at h
  | cons c cs =>
    rw [hd] at h
    simp only [List.head?_cons, Option.some.injEq] at h
    have : c.isDigit = true := decNat_isDigit (n := n) (by rw [hd]; simp)
    rw [h] at this
    exact absurd this (by decide)

theorem decInt_inj {i j : Int} (h : decInt i = decInt j) : i = j := by
  cases i with
  | ofNat n =>
    cases j with
    | ofNat m => simp only [decInt] at h; rw [decNat_inj h]
    | negSucc m =>
      simp only [decInt] at h
      exact absurd (by rw [h]; rfl) (decNat_head_ne_minus n)
  | negSucc n =>
    cases j with
    | ofNat m =>
      simp only [decInt] at h
      exact absurd (by rw [← h]; rfl) (decNat_head_ne_minus m)
    | negSucc m =>
      simp only [decInt, List.cons.injEq, true_and] at h
      have := decNat_inj h
      congr 1; omega

theorem decInt_ne_nil (i : Int) : decInt i ≠ [] := by
  cases i with
  | ofNat n => exact decNat_ne_nil n
  | negSucc n => simp [decInt]

/-! ### utf-8 -/

theorem utf8_toByteArray (s : Str) : (utf8 s).toByteArray = s.utf8Encode := by
  induction s with
  | nil => simp [utf8]
  | cons c cs ih =>
    rw [List.utf8Encode_cons, List.utf8Encode_singleton, ← ih]
    simp [utf8, List.toByteArray_append]

theorem utf8_inj {s t : Str} (h : utf8 s = utf8 t) : s = t := by
  have h1 : s.utf8Encode = t.utf8Encode := by rw [← utf8_toByteArray, ← utf8_toByteArray, h]
  have h2 := congrArg ByteArray.utf8Decode? h1
  simpa using h2

theorem utf8_append (s t : Str) : utf8 (s ++ t) = utf8 s ++ utf8 t := by
  simp [utf8]

/-! ### CPython's int hash -/

theorem pyHashInt_range (i : Int) :
    -(pyHashModulus : Int) < pyHashInt i ∧ pyHashInt i < pyHashModulus ∧ pyHashInt i ≠ -1 := by
  have hm : (i.natAbs % pyHashModulus : Nat) < pyHashModulus := Nat.mod_lt _ (by decide)
  have hM' : pyHashModulus = 2305843009213693951 := by decide
  simp only [pyHashInt]
  generalize (i.natAbs % pyHashModulus : Nat) = m at hm ⊢
  rw [hM'] at hm ⊢
  split <;> split <;> omega

theorem pyHashInt_small {i : Int} (h1 : -(pyHashModulus : Int) < i) (h2 : i < pyHashModulus)
    (h3 : i ≠ -1) : pyHashInt i = i := by
  have hM : (pyHashModulus : Int) = 2305843009213693951 := by decide
  have hM' : pyHashModulus = 2305843009213693951 := by decide
  rw [hM] at h1 h2
  have hlt : i.natAbs % pyHashModulus = i.natAbs := Nat.mod_eq_of_lt (by rw [hM']; omega)
  simp only [pyHashInt, hlt]
  split <;> split <;> omega

theorem pyHashInt_minus_one : pyHashInt (-1) = pyHashInt (-2) := by decide

theorem pyHashInt_periodic (i : Int) (h : 0 ≤ i) : pyHashInt (i + pyHashModulus) = pyHashInt i := by
  have hM : (pyHashModulus : Int) = 2305843009213693951 := by decide
  have e : (i + (pyHashModulus : Int)).natAbs = i.natAbs + pyHashModulus := by omega
  have h1 : ¬ (i + (pyHashModulus : Int) < 0) := by omega
  have h2 : ¬ (i < 0) := by omega
  simp only [pyHashInt, e, Nat.add_mod_right, h1, h2, if_false]

/-! ### specification vocabulary of C12 -/

/-- The kinds the property distinguishes ("same shape"): the numeric kinds are one kind. -/
inductive Kind | none | num | str | bytes | path | tuple | list
  deriving DecidableEq, Repr

def PyVal.kind : PyVal → Kind
  | .none => .none
  | .bool _ | .int _ | .float _ => .num
  | .str _ => .str
  | .bytes _ => .bytes
  | .path _ => .path
  | .tuple _ => .tuple
  | .list _ => .list

/-- Python's `hash` of a numeric leaf (0 for the other kinds, never used there). -/
def PyVal.numHash : PyVal → Int
  | .bool b => boolHash b
  | .int i => pyHashInt i
  | .float h => h
  | _ => 0

mutual
/-- Same kind at every position both values have (sequence lengths may differ). -/
def SameShape : PyVal → PyVal → Prop
  | .tuple xs, .tuple ys => SameShapeL xs ys
  | .list xs, .list ys => SameShapeL xs ys
  | .tuple _, _ => False
  | .list _, _ => False
  | a, b => a.kind = b.kind
def SameShapeL : List PyVal → List PyVal → Prop
  | x :: xs, y :: ys => SameShape x y ∧ SameShapeL xs ys
  | _, _ => True
end

mutual
/-- What Python's own `==` and `hash` cannot tell apart: equal leaves, numeric leaves with equal
`hash`, sequences of the same type and length that are element-wise so. -/
def PyEqH : PyVal → PyVal → Prop
  | .tuple xs, .tuple ys => PyEqHL xs ys
  | .list xs, .list ys => PyEqHL xs ys
  | .tuple _, _ => False
  | .list _, _ => False
  | .none, .none => True
  | .str s, .str t => s = t
  | .bytes s, .bytes t => s = t
  | .path s, .path t => s = t
  | a, b => a.kind = .num ∧ b.kind = .num ∧ a.numHash = b.numHash
def PyEqHL : List PyVal → List PyVal → Prop
  | [], [] => True
  | x :: xs, y :: ys => PyEqH x y ∧ PyEqHL xs ys
  | _, _ => False
end

mutual
/-- *Fixed width*: wherever two numeric leaves sit at the same position of two compared sequences,
the decimal renderings of their hashes are equally long. -/
def WidthOK : PyVal → PyVal → Prop
  | .tuple xs, .tuple ys => WidthOKL xs ys
  | .list xs, .list ys => WidthOKL xs ys
  | _, _ => True
def WidthOKL : List PyVal → List PyVal → Prop
  | x :: xs, y :: ys =>
      (x.kind = .num → y.kind = .num → (decInt x.numHash).length = (decInt y.numHash).length)
        ∧ WidthOK x y ∧ WidthOKL xs ys
  | _, _ => True
end

/-- `sha` has no collision inside the set `S` of byte strings. -/
def InjOn (f : Bytes → Str) (S : Bytes → Prop) : Prop := ∀ x y, S x → S y → f x = f y → x = y

section
variable (sha : Bytes → Str)

mutual
/-- Every byte string that is fed to `sha` while computing `hash_value v` lies in `S`. -/
def Covers (S : Bytes → Prop) : PyVal → Prop
  | .str s => S (utf8 s)
  | .bytes b => S b
  | .path p => S (utf8 p)
  | .tuple xs => S (utf8 (joinSep Generated.hashSeqSep (hashRenders sha xs))) ∧ CoversL S xs
  | .list xs => S (utf8 (joinSep Generated.hashSeqSep (hashRenders sha xs))) ∧ CoversL S xs
  | _ => True
def CoversL (S : Bytes → Prop) : List PyVal → Prop
  | [] => True
  | x :: xs => Covers S x ∧ CoversL S xs
end

end

/-! ### injectivity of `hash_value` up to what Python cannot tell apart -/

theorem joinSep_nil (l : List Str) : joinSep [] l = l.flatten := by
  induction l with
  | nil => rfl
  | cons x xs ih =>
    cases xs with
    | nil => simp [joinSep]
    | cons y r => simp [joinSep, ih]

theorem joinSep_gen (l : List Str) : joinSep Generated.hashSeqSep l = l.flatten := joinSep_nil l

theorem sameShape_kind {a b : PyVal} (h : SameShape a b) : a.kind = b.kind := by
  cases a <;> cases b <;> simp_all [SameShape, PyVal.kind]

variable (sha : Bytes → Str)

theorem hashValue_of_num {a : PyVal} (h : a.kind = .num) : hashValue sha a = .int a.numHash := by
  cases a <;> simp_all [PyVal.kind, hashValue, PyVal.numHash]

theorem hashValue_of_none {a : PyVal} (h : a.kind = .none) :
    hashValue sha a = .int Generated.hashNoneConst := by
  cases a <;> simp_all [PyVal.kind, hashValue]

theorem hashValue_hex {a : PyVal} (h1 : a.kind ≠ .num) (h2 : a.kind ≠ .none) :
    ∃ b, hashValue sha a = .hex (sha b) := by
  cases a <;> simp_all [PyVal.kind, hashValue] <;> exact ⟨_, rfl⟩

theorem render_ne_nil (hlen : ∀ b, (sha b).length = 64) (a : PyVal) : (hashValue sha a).render ≠ [] := by
  by_cases h1 : a.kind = .num
  · rw [hashValue_of_num sha h1]; simp only [HV.render]; exact decInt_ne_nil _
  · by_cases h2 : a.kind = .none
    · rw [hashValue_of_none sha h2]; simp only [HV.render]; exact decInt_ne_nil _
    · obtain ⟨b, hb⟩ := hashValue_hex sha h1 h2
      rw [hb]; intro h
      have := hlen b
      simp only [HV.render] at h
      rw [h] at this; simp at this

/-- aligned elements of same-shape values render equally wide, given the width side condition on numeric leaves -/
theorem render_length_eq (hlen : ∀ b, (sha b).length = 64) {x y : PyVal} (hs : SameShape x y)
    (hw : x.kind = .num → y.kind = .num → (decInt x.numHash).length = (decInt y.numHash).length) :
    (hashValue sha x).render.length = (hashValue sha y).render.length := by
  have hk := sameShape_kind hs
  by_cases h1 : x.kind = .num
  · have h1' : y.kind = .num := hk ▸ h1
    rw [hashValue_of_num sha h1, hashValue_of_num sha h1']; exact hw h1 h1'
  · by_cases h2 : x.kind = .none
    · have h2' : y.kind = .none := hk ▸ h2
      rw [hashValue_of_none sha h2, hashValue_of_none sha h2']
    · obtain ⟨b, hb⟩ := hashValue_hex sha h1 h2
      obtain ⟨b', hb'⟩ := hashValue_hex sha (hk ▸ h1) (hk ▸ h2)
      rw [hb, hb']; simp [HV.render, hlen]

/-- for same-shape values, `str(hash_value(·))` determines `hash_value(·)` -/
theorem render_inj {x y : PyVal} (hs : SameShape x y)
    (h : (hashValue sha x).render = (hashValue sha y).render) : hashValue sha x = hashValue sha y := by
  have hk := sameShape_kind hs
  by_cases h1 : x.kind = .num
  · have h1' : y.kind = .num := hk ▸ h1
    rw [hashValue_of_num sha h1, hashValue_of_num sha h1'] at h ⊢
    simp only [HV.render] at h; rw [decInt_inj h]
  · by_cases h2 : x.kind = .none
    · have h2' : y.kind = .none := hk ▸ h2
      rw [hashValue_of_none sha h2, hashValue_of_none sha h2']
    · obtain ⟨b, hb⟩ := hashValue_hex sha h1 h2
      obtain ⟨b', hb'⟩ := hashValue_hex sha (hk ▸ h1) (hk ▸ h2)
      rw [hb, hb'] at h ⊢; simp only [HV.render] at h; rw [h]

mutual
theorem hashValue_inj_aux (hlen : ∀ b, (sha b).length = 64) (S : Bytes → Prop) (hS : InjOn sha S) :
    ∀ a b : PyVal, SameShape a b → WidthOK a b → Covers sha S a → Covers sha S b →
      hashValue sha a = hashValue sha b → PyEqH a b
  | .none, b, hs, _, _, _, h => by
    cases b <;> simp_all [SameShape, PyVal.kind, PyEqH]
  | .bool x, b, hs, _, _, _, h => by
    cases b <;> simp_all [SameShape, PyVal.kind, PyEqH, hashValue, PyVal.numHash]
  | .int x, b, hs, _, _, _, h => by
    cases b <;> simp_all [SameShape, PyVal.kind, PyEqH, hashValue, PyVal.numHash]
  | .float x, b, hs, _, _, _, h => by
    cases b <;> simp_all [SameShape, PyVal.kind, PyEqH, hashValue, PyVal.numHash]
  | .str s, b, hs, _, ca, cb, h => by
    cases b <;> simp_all [SameShape, PyVal.kind, PyEqH, hashValue, Covers]
    exact utf8_inj (hS _ _ ca cb h)
  | .path s, b, hs, _, ca, cb, h => by
    cases b <;> simp_all [SameShape, PyVal.kind, PyEqH, hashValue, Covers]
    exact utf8_inj (hS _ _ ca cb h)
  | .bytes s, b, hs, _, ca, cb, h => by
    cases b <;> simp_all [SameShape, PyVal.kind, PyEqH, hashValue, Covers]
    exact hS _ _ ca cb h
  | .tuple xs, b, hs, hw, ca, cb, h => by
    cases b with
    | tuple ys =>
      simp only [SameShape, WidthOK, Covers, PyEqH] at *
      simp only [hashValue, HV.hex.injEq] at h
      have := utf8_inj (hS _ _ ca.1 cb.1 h)
      rw [joinSep_gen, joinSep_gen] at this
      exact hashRenders_inj_aux hlen S hS xs ys hs hw ca.2 cb.2 this
    | _ => simp_all [SameShape]
  | .list xs, b, hs, hw, ca, cb, h => by
    cases b with
    | list ys =>
      simp only [SameShape, WidthOK, Covers, PyEqH] at *
      simp only [hashValue, HV.hex.injEq] at h
      have := utf8_inj (hS _ _ ca.1 cb.1 h)
      rw [joinSep_gen, joinSep_gen] at this
      exact hashRenders_inj_aux hlen S hS xs ys hs hw ca.2 cb.2 this
    | _ => simp_all [SameShape]
theorem hashRenders_inj_aux (hlen : ∀ b, (sha b).length = 64) (S : Bytes → Prop) (hS : InjOn sha S) :
    ∀ xs ys : List PyVal, SameShapeL xs ys → WidthOKL xs ys → CoversL sha S xs → CoversL sha S ys →
      (hashRenders sha xs).flatten = (hashRenders sha ys).flatten → PyEqHL xs ys
  | [], [], _, _, _, _, _ => by simp [PyEqHL]
  | [], y :: ys, _, _, _, _, h => by
    simp only [hashRenders, List.flatten_nil, List.flatten_cons] at h
    have := render_ne_nil sha hlen y
    simp_all
  | x :: xs, [], _, _, _, _, h => by
    simp only [hashRenders, List.flatten_nil, List.flatten_cons] at h
    have := render_ne_nil sha hlen x
    simp_all
  | x :: xs, y :: ys, hs, hw, ca, cb, h => by
    simp only [SameShapeL, WidthOKL, CoversL, PyEqHL] at *
    simp only [hashRenders, List.flatten_cons] at h
    have hl := render_length_eq sha hlen hs.1 hw.1
    obtain ⟨h1, h2⟩ := List.append_inj h hl
    exact ⟨hashValue_inj_aux hlen S hS x y hs.1 hw.2.1 ca.1 cb.1 (render_inj sha hs.1 h1),
           hashRenders_inj_aux hlen S hS xs ys hs.2 hw.2.2 ca.2 cb.2 h2⟩
end

/-! ### `hash_value` respects what Python cannot tell apart; raw keys -/

mutual
theorem hashValue_resp : ∀ a b : PyVal, PyEqH a b → hashValue sha a = hashValue sha b
  | .tuple xs, b, h => by
    cases b with
    | tuple ys => simp only [PyEqH] at h; simp only [hashValue, hashRenders_resp xs ys h]
    | _ => simp_all [PyEqH]
  | .list xs, b, h => by
    cases b with
    | list ys => simp only [PyEqH] at h; simp only [hashValue, hashRenders_resp xs ys h]
    | _ => simp_all [PyEqH]
  | .none, b, h => by cases b <;> simp_all [PyEqH, PyVal.kind, hashValue, PyVal.numHash]
  | .bool _, b, h => by cases b <;> simp_all [PyEqH, PyVal.kind, hashValue, PyVal.numHash]
  | .int _, b, h => by cases b <;> simp_all [PyEqH, PyVal.kind, hashValue, PyVal.numHash]
  | .float _, b, h => by cases b <;> simp_all [PyEqH, PyVal.kind, hashValue, PyVal.numHash]
  | .str _, b, h => by cases b <;> simp_all [PyEqH, PyVal.kind, hashValue, PyVal.numHash]
  | .bytes _, b, h => by cases b <;> simp_all [PyEqH, PyVal.kind, hashValue, PyVal.numHash]
  | .path _, b, h => by cases b <;> simp_all [PyEqH, PyVal.kind, hashValue, PyVal.numHash]
theorem hashRenders_resp : ∀ xs ys : List PyVal, PyEqHL xs ys → hashRenders sha xs = hashRenders sha ys
  | [], [], _ => rfl
  | [], _ :: _, h => by simp [PyEqHL] at h
  | _ :: _, [], h => by simp [PyEqHL] at h
  | x :: xs, y :: ys, h => by
    simp only [PyEqHL] at h
    simp only [hashRenders, hashValue_resp x y h.1, hashRenders_resp xs ys h.2]
end

/-! signatures -/

theorem rawKey_task (b p : Str) :
    rawKey sha Generated.sigTaskFields (envTask b p) = sha (utf8 b) ++ sha (utf8 p) := by
  simp [rawKey, Generated.sigTaskFields, envTask, hashValue, HV.render]

theorem rawKey_pathnode (n p : Str) :
    rawKey sha Generated.sigPathNodeFields (envPathNode n p) = sha (utf8 p) := by
  simp [rawKey, Generated.sigPathNodeFields, envPathNode, hashValue, HV.render]

theorem rawKey_picklenode (n p : Str) :
    rawKey sha Generated.sigPickleNodeFields (envPathNode n p) = sha (utf8 p) := by
  simp [rawKey, Generated.sigPickleNodeFields, envPathNode, hashValue, HV.render]

theorem rawKey_taskw (n : Str) :
    rawKey sha Generated.sigTaskWithoutPathFields (envTaskWithoutPath n) = sha (utf8 n) := by
  simp [rawKey, Generated.sigTaskWithoutPathFields, envTaskWithoutPath, hashValue, HV.render]

theorem rawKey_dirnode (n : Str) (r : Option Str) (pat : Str) :
    rawKey sha Generated.sigDirNodeFields (envDirNode n r pat) =
      (hashValue sha (optPath r)).render ++ sha (utf8 pat) := by
  simp [rawKey, Generated.sigDirNodeFields, envDirNode, hashValue, HV.render.eq_2]

theorem rawKey_python (ni : NodeInfo) :
    rawKey sha Generated.sigPythonNodeFields (envNodeInfo ni) =
      sha (utf8 ni.argName) ++ ((hashValue sha (.tuple ni.treePath)).render ++ (sha (utf8 ni.taskName) ++
        (hashValue sha (optPath ni.taskPath)).render)) := by
  simp [rawKey, Generated.sigPythonNodeFields, envNodeInfo, hashValue, HV.render.eq_2]

theorem rawKey_memo (p : Str) (mh : Int) :
    rawKey sha Generated.memoKeyFields (envMemo p mh) = sha (utf8 p) ++ decInt mh := by
  simp [rawKey, Generated.memoKeyFields, envMemo, hashValue, HV.render]

/-! ### signatures -/

/-- coverage of a signature / memo raw key: the hashed fields and the raw key itself lie in `S`. -/
def SigCovers (S : Bytes → Prop) (fields : List String) (env : String → PyVal) : Prop :=
  (∀ f ∈ fields, Covers sha S (env f)) ∧ S (utf8 (rawKey sha fields env))

theorem sha_utf8_inj {S : Bytes → Prop} (hS : InjOn sha S) {s t : Str} (hs : S (utf8 s)) (ht : S (utf8 t))
    (h : sha (utf8 s) = sha (utf8 t)) : s = t := utf8_inj (hS _ _ hs ht h)

theorem noneConst_len : (decInt Generated.hashNoneConst).length = 10 := by decide

theorem optPath_render_len (hlen : ∀ b, (sha b).length = 64) (r : Option Str) :
    (hashValue sha (optPath r)).render.length = if r.isSome then 64 else 10 := by
  cases r <;> simp [optPath, hashValue, HV.render, hlen, noneConst_len]

theorem optPath_render_inj (hlen : ∀ b, (sha b).length = 64) {S : Bytes → Prop} (hS : InjOn sha S)
    {r1 r2 : Option Str} (c1 : Covers sha S (optPath r1)) (c2 : Covers sha S (optPath r2))
    (h : (hashValue sha (optPath r1)).render = (hashValue sha (optPath r2)).render) : r1 = r2 := by
  have hl := congrArg List.length h
  rw [optPath_render_len sha hlen, optPath_render_len sha hlen] at hl
  cases r1 <;> cases r2 <;> simp_all [optPath, hashValue, HV.render, Covers]
  exact sha_utf8_inj sha hS c1 c2 h

/-! ### the `hash_path` memo -/

section
variable (sha md5 : Bytes → Str)

/-- The file system as `_get_state` sees it: path ↦ (`hash(st_mtime)`, bytes), `none` = missing. -/
abbrev World := Str → Option (Int × Bytes)

/-- Every memo entry that a lookup for an existing file can hit holds the digest of the file's
current bytes. -/
def MemoCoherent (memo : Memo) (W : World) : Prop :=
  ∀ p mh c v, W p = some (mh, c) → memo.get (memoKey sha md5 p mh) = some v → v = sha c

/-- An edit of the file system is *honest* w.r.t. the memo: every file that differs from before
carries a (path, mtime) pair the memo has no entry for (e.g. the clock moved on). -/
def HonestEdit (memo : Memo) (W W' : World) : Prop :=
  ∀ p mh c, W' p = some (mh, c) → W p = some (mh, c) ∨ memo.get (memoKey sha md5 p mh) = none

/-- Memos that arise from the empty memo by `state()` calls on arbitrary files. -/
inductive Reachable : Memo → Prop
  | empty : Reachable {}
  | step {m : Memo} (h : Reachable m) (p : Str) (f : Option (Int × Bytes)) :
      Reachable (stateOfFile sha md5 m p f).1

theorem Memo.get_insert (m : Memo) (k v k' : Str) :
    (m.insert k v).get k' = if k = k' then some v else m.get k' := by
  simp only [Memo.get, Memo.insert, List.find?_cons]
  by_cases h : k = k'
  · simp [h]
  · have hb : (k == k') = false := by simpa using h
    simp [h, hb]

theorem Memo.get_empty (k : Str) : ({} : Memo).get k = none := rfl

theorem memoKey_inj (hlen : ∀ b, (sha b).length = 64) (S S₂ : Bytes → Prop) (hS : InjOn sha S)
    (hS₂ : InjOn md5 S₂) {p p' : Str} {mh mh' : Int} (c : S (utf8 p)) (c' : S (utf8 p'))
    (k : S₂ (utf8 (rawKey sha Generated.memoKeyFields (envMemo p mh))))
    (k' : S₂ (utf8 (rawKey sha Generated.memoKeyFields (envMemo p' mh'))))
    (h : memoKey sha md5 p mh = memoKey sha md5 p' mh') : p = p' ∧ mh = mh' := by
  simp only [memoKey] at h
  have hr := utf8_inj (hS₂ _ _ k k' h)
  rw [rawKey_memo, rawKey_memo] at hr
  obtain ⟨e₁, e₂⟩ := List.append_inj hr (by rw [hlen, hlen])
  exact ⟨sha_utf8_inj sha hS c c' e₁, decInt_inj e₂⟩

theorem stateOfFile_some (memo : Memo) (p : Str) (mh : Int) (c : Bytes) :
    stateOfFile sha md5 memo p (some (mh, c)) =
      match memo.get (memoKey sha md5 p mh) with
      | some v => (memo, some v)
      | none => (memo.insert (memoKey sha md5 p mh) (sha c), some (sha c)) := rfl

/-- What happens between two observations: the file system is edited, or `state()` is called on a path. -/
inductive Event where
  | edit (W' : World)
  | state (p : Str)

/-- `sha`/`md5` do not collide on the paths / memo keys of the files of a world. -/
def Cov (S S₂ : Bytes → Prop) (W : World) : Prop :=
  ∀ q mh c, W q = some (mh, c) → S (utf8 q) ∧ S₂ (utf8 (rawKey sha Generated.memoKeyFields (envMemo q mh)))

def CovHist (S S₂ : Bytes → Prop) : World → List Event → Prop
  | W, [] => Cov sha S S₂ W
  | W, .edit W' :: es => Cov sha S S₂ W ∧ CovHist S S₂ W' es
  | W, .state _ :: es => CovHist S S₂ W es

/-- every edit of the history is honest w.r.t. the memo at that moment -/
def Honest : Memo → World → List Event → Prop
  | _, _, [] => True
  | m, W, .edit W' :: es => HonestEdit sha md5 m W W' ∧ Honest m W' es
  | m, W, .state p :: es => Honest (stateOfFile sha md5 m p (W p)).1 W es

/-- every `state()` of the history on an existing file returns the digest of the file's bytes at that moment -/
def AllCorrect : Memo → World → List Event → Prop
  | _, _, [] => True
  | m, _, .edit W' :: es => AllCorrect m W' es
  | m, W, .state p :: es =>
      (∀ mh c, W p = some (mh, c) → (stateOfFile sha md5 m p (W p)).2 = some (sha c))
        ∧ AllCorrect (stateOfFile sha md5 m p (W p)).1 W es

theorem covHist_head (S S₂ : Bytes → Prop) (W : World) (es : List Event) (h : CovHist sha S S₂ W es) :
    Cov sha S S₂ W := by
  induction es generalizing W with
  | nil => exact h
  | cons e es ih =>
    cases e with
    | edit W' => exact h.1
    | state p => exact ih W h

end

/-! ### toy digests (used only to refute `_full` statements and in non-vacuity examples) -/

/-- two values, told apart on the one byte string that matters (`"123"`). -/
def toySha (x : Bytes) : Str := if x = [49, 50, 51] then List.replicate 64 '0' else List.replicate 64 '1'

/-- length, a prefix and a suffix of the bytes as characters, padded to 64: has length 64 and is
collision-free on the small sets of the examples. -/
def padSha (x : Bytes) : Str :=
  let s := x.map fun b => Char.ofNat b.toNat
  (decNat x.length ++ '|' :: s.take 28 ++ '|' :: s.reverse.take 28 ++ List.replicate 64 '0').take 64

theorem padSha_len (x : Bytes) : (padSha x).length = 64 := by simp [padSha]; omega

/-- collision-freeness on an explicit finite list, in decidable form -/
theorem injOn_of_list (f : Bytes → Str) (l : List Bytes)
    (h : ∀ x ∈ l, ∀ y ∈ l, f x = f y → x = y) : InjOn f (· ∈ l) := fun x y hx hy e => h x hx y hy e

end Pytask.Hash
