import PytaskProofs.Lemmas.EngineInv
/-!
# From "exit code 0, complete, nothing skipped" to "every task reported SUCCESS / PERSISTENCE / SKIP_UNCHANGED"
-/
namespace Pytask
namespace Engine
open Sorter

theorem runPhases_keeps (F : BodyFn) (P : Project) (g : G) (cfg : Cfg) (s : Sess) (t : TaskSpec) :
    (runPhases F P g cfg s t).2.failMarks = s.failMarks ∧ (runPhases F P g cfg s t).2.wbeMarks = s.wbeMarks ∧
    (runPhases F P g cfg s t).2.stop = s.stop ∧ (runPhases F P g cfg s t).2.crashed = s.crashed := by
  unfold runPhases
  split
  · split
    · exact ⟨rfl, rfl, rfl, rfl⟩
    · simp only; split
      · exact ⟨rfl, rfl, rfl, rfl⟩
      · split <;> exact ⟨rfl, rfl, rfl, rfl⟩
  · exact ⟨rfl, rfl, rfl, rfl⟩

/-- Failure bookkeeping is only ever caused by a FAIL report; `would_be_executed` marks only exist in
a dry-run. -/
structure MarksInv (cfg : Cfg) (s : Sess) : Prop where
  stop : s.stop = true → ∃ e ∈ s.reports, e.2 = Outcome.fail
  failMarks : ∀ x ∈ s.failMarks, ∃ e ∈ s.reports, e.2 = Outcome.fail
  wbe : cfg.dry = false → s.wbeMarks = []

theorem setupImpl_wbe (P : Project) (g : G) (cfg : Cfg) (s : Sess) (t : TaskSpec) (n : String)
    (h : setupImpl P g cfg s t n = .wouldBeExecuted) : t.id ∈ s.wbeMarks := by
  unfold setupImpl at h
  split at h
  · repeat' split at h
    all_goals cases h
  · split at h
    · split at h
      · simp only at h
        repeat' split at h
        all_goals cases h
      · cases h
    · split at h
      · split at h
        · rename_i hc; simpa using hc
        · split at h
          all_goals cases h
      · cases h

theorem setupImpl_ancestorFailed (P : Project) (g : G) (cfg : Cfg) (s : Sess) (t : TaskSpec) (n : String)
    (h : setupImpl P g cfg s t n = .ancestorFailed) : t.id ∈ s.failMarks := by
  unfold setupImpl at h
  split at h
  · split at h
    · cases h
    · split at h
      · cases h
      · split at h
        · rename_i hc; simpa using hc
        · cases h
  · split at h
    · split at h
      · simp only at h
        repeat' split at h
        all_goals cases h
      · cases h
    · split at h
      · split at h
        · cases h
        · split at h
          all_goals cases h
      · cases h

theorem setupChain_wbe (P : Project) (g : G) (cfg : Cfg) (s : Sess) (t : TaskSpec) :
    ∀ names, setupChain P g cfg s t names = .wouldBeExecuted → t.id ∈ s.wbeMarks
  | [], h => by cases h
  | n :: ns, h => by
    unfold setupChain at h
    split at h
    · exact setupChain_wbe P g cfg s t ns h
    · exact setupImpl_wbe P g cfg s t n h

theorem setupChain_ancestorFailed (P : Project) (g : G) (cfg : Cfg) (s : Sess) (t : TaskSpec) :
    ∀ names, setupChain P g cfg s t names = .ancestorFailed → t.id ∈ s.failMarks
  | [], h => by cases h
  | n :: ns, h => by
    unfold setupChain at h
    split at h
    · exact setupChain_ancestorFailed P g cfg s t ns h
    · exact setupImpl_ancestorFailed P g cfg s t n h

/-- What the phases can raise, given the bookkeeping invariant. -/
theorem runPhases_raised_inv (F : BodyFn) (P : Project) (g : G) (cfg : Cfg) (s : Sess) (t : TaskSpec)
    (hm : MarksInv cfg s) :
    ((runPhases F P g cfg s t).1 = .wouldBeExecuted → cfg.dry = true) ∧
    ((runPhases F P g cfg s t).1 = .ancestorFailed → ∃ e ∈ s.reports, e.2 = Outcome.fail) := by
  refine ⟨?_, ?_⟩
  · intro h
    rcases runPhases_raised F P g cfg s t with h1 | ⟨_, h1 | h1 | h1⟩
    · rw [h] at h1
      have := setupChain_wbe P g cfg s t _ h1.symm
      cases hd : cfg.dry with
      | true => rfl
      | false => rw [hm.wbe hd] at this; cases this
    · exact h1.2
    · rw [h] at h1; cases h1
    · rw [h] at h1; cases h1
  · intro h
    rcases runPhases_raised F P g cfg s t with h1 | ⟨_, h1 | h1 | h1⟩
    · rw [h] at h1
      exact hm.failMarks _ (setupChain_ancestorFailed P g cfg s t _ h1.symm)
    · rw [h] at h1; cases h1.1
    · rw [h] at h1; cases h1
    · rw [h] at h1; cases h1

theorem marksInv_processReport (P : Project) (g : G) (cfg : Cfg) (s1 : Sess) (t : TaskSpec) (r : Raised)
    (hm1 : MarksInv cfg s1) (hwbe : r = .wouldBeExecuted → cfg.dry = true) :
    MarksInv cfg (processReport P g cfg s1 t r) := by
  have lift : ∀ (o : Outcome), (∃ e ∈ s1.reports, e.2 = Outcome.fail) →
      ∃ e ∈ s1.reports ++ [(t.id, o)], e.2 = Outcome.fail :=
    fun o ⟨e, he, hf⟩ => ⟨e, List.mem_append.2 (Or.inl he), hf⟩
  cases r
  case none =>
    unfold processReport
    simp only
    split
    · exact ⟨fun h => lift _ (hm1.stop h), fun x hx => lift _ (hm1.failMarks x hx), hm1.wbe⟩
    · exact ⟨hm1.stop, hm1.failMarks, hm1.wbe⟩
  case skippedUnchanged =>
    exact ⟨fun h => lift _ (hm1.stop h), fun x hx => lift _ (hm1.failMarks x hx), hm1.wbe⟩
  case skipped =>
    exact ⟨fun h => lift _ (hm1.stop h), fun x hx => lift _ (hm1.failMarks x hx), hm1.wbe⟩
  case ancestorFailed =>
    exact ⟨fun h => lift _ (hm1.stop h), fun x hx => lift _ (hm1.failMarks x hx), hm1.wbe⟩
  case persisted =>
    exact ⟨fun h => lift _ (hm1.stop h), fun x hx => lift _ (hm1.failMarks x hx), hm1.wbe⟩
  case wouldBeExecuted =>
    refine ⟨fun h => lift _ (hm1.stop h), fun x hx => lift _ (hm1.failMarks x hx), ?_⟩
    intro hd
    rw [hwbe rfl] at hd; cases hd
  case error =>
    have hw : ∃ e ∈ s1.reports ++ [(t.id, Outcome.fail)], e.2 = Outcome.fail :=
      ⟨(t.id, Outcome.fail), by simp, rfl⟩
    exact ⟨fun _ => hw, fun _ _ => hw, hm1.wbe⟩

theorem marksInv_protocol (F : BodyFn) (P : Project) (g : G) (cfg : Cfg) (s : Sess) (t : TaskSpec)
    (hm : MarksInv cfg s) : MarksInv cfg (protocol F P g cfg s t) := by
  obtain ⟨hwbe, _⟩ := runPhases_raised_inv F P g cfg s t hm
  obtain ⟨k1, k2, k3, _⟩ := runPhases_keeps F P g cfg s t
  have kr := runPhases_reports F P g cfg s t
  unfold protocol
  apply marksInv_processReport P g cfg _ t _ _ hwbe
  exact ⟨by rw [k3, kr]; exact hm.stop, by rw [k1, kr]; exact hm.failMarks, by rw [k2]; exact hm.wbe⟩

theorem protocol_reports_mono (F : BodyFn) (P : Project) (g : G) (cfg : Cfg) (s : Sess) (t : TaskSpec)
    {e : Nat × Outcome} (he : e ∈ s.reports) : e ∈ (protocol F P g cfg s t).reports := by
  rcases protocol_reports F P g cfg s t with h | ⟨_, h, _⟩
  · rw [h]; exact List.mem_append.2 (Or.inl he)
  · rw [h]; exact he

theorem buildLoop_reports_mono {F : BodyFn} {P : Project} {g : G} {cfg : Cfg} :
    ∀ (picks : List Nat) {so so' : Sorter} {s s' : Sess}, buildLoop F P g cfg so s picks = .ok (so', s') →
      ∀ e ∈ s.reports, e ∈ s'.reports
  | [], so, so', s, s', h, e, he => by
    simp only [buildLoop, Except.ok.injEq, Prod.mk.injEq] at h
    rw [← h.2]; exact he
  | t :: ts, so, so', s, s', h, e, he => by
    obtain ⟨spec, _, _, _, _, hrest⟩ := buildLoop_cons h
    exact buildLoop_reports_mono ts hrest e (protocol_reports_mono F P g cfg s spec he)

theorem marksInv_buildLoop {F : BodyFn} {P : Project} {g : G} {cfg : Cfg} :
    ∀ (picks : List Nat) {so so' : Sorter} {s s' : Sess}, buildLoop F P g cfg so s picks = .ok (so', s') →
      MarksInv cfg s → MarksInv cfg s'
  | [], so, so', s, s', h, hm => by
    simp only [buildLoop, Except.ok.injEq, Prod.mk.injEq] at h
    rw [← h.2]; exact hm
  | t :: ts, so, so', s, s', h, hm => by
    obtain ⟨spec, _, _, _, _, hrest⟩ := buildLoop_cons h
    exact marksInv_buildLoop ts hrest (marksInv_protocol F P g cfg s spec hm)

/-- Every pick files a report unless the loop crashed, and the sorter forgets exactly the picks. -/
theorem buildLoop_picks_reported {F : BodyFn} {P : Project} {g : G} {cfg : Cfg} :
    ∀ (picks : List Nat) {so so' : Sorter} {s s' : Sess}, buildLoop F P g cfg so s picks = .ok (so', s') →
      (s'.crashed = false → ∀ t ∈ picks, ∃ o, (t, o) ∈ s'.reports) ∧
      (∀ v, v ∈ so'.nodes ↔ v ∈ so.nodes ∧ v ∉ picks.map tv)
  | [], so, so', s, s', h => by
    simp only [buildLoop, Except.ok.injEq, Prod.mk.injEq] at h
    rw [← h.1]; simp
  | t :: ts, so, so', s, s', h => by
    obtain ⟨spec, hfind, _, _, _, hrest⟩ := buildLoop_cons h
    obtain ⟨ih1, ih2⟩ := buildLoop_picks_reported ts hrest
    refine ⟨?_, ?_⟩
    · intro hc x hx
      rcases List.mem_cons.1 hx with rfl | hx
      · -- the protocol of `x` did not crash (otherwise the loop would have stopped crashed)
        rcases protocol_reports F P g cfg s spec with hr | ⟨_, _, hcr⟩
        · refine ⟨outcomeOf (runPhases F P g cfg s spec).1, buildLoop_reports_mono ts hrest _ ?_⟩
          rw [hr, find?_id hfind]; simp
        · -- crashed: the rest of the picks must be empty and the final state is crashed
          cases ts with
          | nil =>
            simp only [buildLoop, Except.ok.injEq, Prod.mk.injEq] at hrest
            rw [← hrest.2, hcr] at hc; cases hc
          | cons y ys =>
            obtain ⟨_, _, _, _, hcr', _⟩ := buildLoop_cons hrest
            rw [hcr] at hcr'; cases hcr'
      · exact ih1 hc x hx
    · intro v
      rw [ih2 v]
      have hc : ∀ v : Nat, ([tv t].contains v = false) ↔ ¬ v = tv t := by
        intro v; simp
      simp only [Sorter.finish, Sorter.take, List.mem_filter, Bool.not_eq_true', List.map_cons, List.mem_cons,
        not_or, hc]
      constructor
      · rintro ⟨⟨h1, h2⟩, h3⟩; exact ⟨h1, h2, h3⟩
      · rintro ⟨h1, h2, h3⟩; exact ⟨⟨h1, h2⟩, h3⟩

/-- **From the exit code to per-task outcomes.** A (non-dry) build that ran to its natural end with
exit code 0 and skipped nothing has reported every task of the project as SUCCESS, PERSISTENCE or
SKIP_UNCHANGED. -/
theorem all_good_of_exit0 {F : BodyFn} {P : Project} {cfg : Cfg} {w : World} {picks : List Nat} {r : Result}
    (hwf : WF P) (h : build F P cfg w picks = .ok r) (hexit : r.exit = 0) (hcomplete : r.complete = true)
    (hdry : cfg.dry = false) (hnoskip : ∀ e ∈ r.reports, e.2 ≠ Outcome.skip) :
    ∀ t ∈ P.tasks, (t.id, Outcome.success) ∈ r.reports ∨ (t.id, Outcome.persistence) ∈ r.reports ∨
      (t.id, Outcome.skipUnchanged) ∈ r.reports := by
  rcases build_cases h with ⟨_, _, _, hne⟩ | ⟨g, marks, so, so', s, hdag, hso, hloop, _, _, hr, hex, hcomp⟩
  · exact absurd hexit hne
  · obtain ⟨hcr, hnofail⟩ := hex hexit
    have hg := graphOK_of_createDag hwf hdag
    have hm0 : MarksInv cfg ({ w := w, skipMarks := marks } : Sess) :=
      ⟨fun h => (by cases h), fun x hx => (by cases hx), fun _ => rfl⟩
    have hm := marksInv_buildLoop picks hloop hm0
    have hstop : s.stop = false := by
      cases hs : s.stop with
      | false => rfl
      | true =>
        obtain ⟨e, he, hf⟩ := hm.stop hs
        exact absurd hf (hnofail e he)
    obtain ⟨hrep, hnodes⟩ := buildLoop_picks_reported picks hloop
    rw [hcomp, hstop, hcr] at hcomplete
    have hempty : so'.nodes = [] := by
      simpa [Sorter.isActive] using hcomplete
    intro t ht
    -- `t` was picked
    have htp : t.id ∈ picks := by
      have hin : tv t.id ∈ so.nodes := by
        rw [fromDag_nodes hso]; simp [hg.taskNode t ht]
      by_cases hp : tv t.id ∈ picks.map tv
      · obtain ⟨a, ha, hat⟩ := List.mem_map.1 hp
        rw [← tv_inj' hat]; exact ha
      · have := (hnodes (tv t.id)).2 ⟨hin, hp⟩
        rw [hempty] at this; cases this
    obtain ⟨o, ho⟩ := hrep hcr t.id htp
    -- classify the outcome through the origin of the report
    rcases buildLoop_report_origin picks _ hloop ho with h0 | ⟨pre, post, hp, hall⟩
    · cases h0
    · simp only at hp hall
      have hloop' := hloop
      rw [hp] at hloop'
      obtain ⟨so1, s1, spec, hpre, hfind, hpost⟩ := buildLoop_split pre hloop'
      have hout := hall so1 s1 spec hpre hfind
      have hm1 := marksInv_buildLoop pre hpre hm0
      obtain ⟨hwbe, hanc⟩ := runPhases_raised_inv F P g cfg s1 spec hm1
      have hmono : ∀ e ∈ s1.reports, e ∈ s.reports := by
        intro e he
        exact buildLoop_reports_mono post hpost e (protocol_reports_mono F P g cfg s1 spec he)
      rw [hr]
      cases hx : (runPhases F P g cfg s1 spec).1 with
      | none => left; rw [hx] at hout; simp only [outcomeOf] at hout; rw [← hout]; exact ho
      | persisted => right; left; rw [hx] at hout; simp only [outcomeOf] at hout; rw [← hout]; exact ho
      | skippedUnchanged => right; right; rw [hx] at hout; simp only [outcomeOf] at hout; rw [← hout]; exact ho
      | skipped =>
        rw [hx] at hout; simp only [outcomeOf] at hout
        exact absurd hout (hnoskip _ (by rw [hr]; exact ho))
      | ancestorFailed =>
        obtain ⟨e, he, hf⟩ := hanc hx
        exact absurd hf (hnofail e (hmono e he))
      | wouldBeExecuted =>
        have := hwbe hx
        rw [hdry] at this; cases this
      | error =>
        rw [hx] at hout; simp only [outcomeOf] at hout
        exact absurd hout (hnofail _ ho)

end Engine
end Pytask
