import PytaskModel.PathNorm
/-! Helper lemmas for `PathNorm.lean` (C12). -/
namespace Pytask.PathNorm
open Pytask.Hash (Str)

theorem splitSlash_ne_nil (p : Str) : splitSlash p ≠ [] := by
  induction p with
  | nil => simp [splitSlash]
  | cons c cs ih =>
    simp only [splitSlash]
    split
    · simp
    · split <;> simp

theorem splitSlash_append (p q : Str) : splitSlash (p ++ '/' :: q) = splitSlash p ++ splitSlash q := by
  induction p with
  | nil => simp [splitSlash]
  | cons c cs ih =>
    simp only [List.cons_append, splitSlash]
    split
    · simp [ih]
    · rw [ih]
      cases h : splitSlash cs with
      | nil => exact absurd h (splitSlash_ne_nil cs)
      | cons a as => simp

theorem splitSlash_noslash (x : Str) (h : '/' ∉ x) : splitSlash x = [x] := by
  induction x with
  | nil => rfl
  | cons c cs ih =>
    simp only [List.mem_cons, not_or] at h
    simp only [splitSlash]
    rw [if_neg (fun e => h.1 e.symm), ih h.2]

/-- `p` contains a character other than `/`. -/
def HasNonSlash (p : Str) : Prop := ∃ c ∈ p, c ≠ '/'

theorem takeWhile_append_of_hasNonSlash (p r : Str) (h : HasNonSlash p) :
    (p ++ r).takeWhile (· = '/') = p.takeWhile (· = '/') := by
  induction p with
  | nil => obtain ⟨c, hc, _⟩ := h; simp at hc
  | cons c cs ih =>
    simp only [List.cons_append, List.takeWhile_cons]
    by_cases hc : c = '/'
    · simp only [hc, decide_true, if_true, List.cons.injEq, true_and]
      apply ih
      obtain ⟨d, hd, hne⟩ := h
      simp only [List.mem_cons] at hd
      rcases hd with rfl | hd
      · exact absurd hc hne
      · exact ⟨d, hd, hne⟩
    · simp [hc]

theorem initialSlashes_append (p r : Str) (h : HasNonSlash p) :
    initialSlashes (p ++ r) = initialSlashes p := by
  simp only [initialSlashes, takeWhile_append_of_hasNonSlash p r h]

theorem ne_nil_of_hasNonSlash {p : Str} (h : HasNonSlash p) : p ≠ [] := by
  obtain ⟨c, hc, _⟩ := h; intro e; simp [e] at hc

/-- the loop of `normpath` as a fold -/
def loop (init : Nat) (comps : List Str) : List Str := comps.foldl (step init) []

/-- the last two statements of `normpath` -/
def finish (init : Nat) (acc : List Str) : Str :=
  if List.replicate init '/' ++ joinSlash acc.reverse = [] then dot
  else List.replicate init '/' ++ joinSlash acc.reverse

theorem normpath_eq (p : Str) (h : p ≠ []) :
    normpath p = finish (initialSlashes p) ((splitSlash p).foldl (step (initialSlashes p)) []) := by
  simp [normpath, h, normComps, finish]

/-- two non-empty spellings with the same leading slashes and the same loop result normalise alike -/
theorem normpath_congr {s t : Str} (hs : s ≠ []) (ht : t ≠ []) (hi : initialSlashes s = initialSlashes t)
    (hl : (splitSlash s).foldl (step (initialSlashes s)) [] = (splitSlash t).foldl (step (initialSlashes s)) []) :
    normpath s = normpath t := by
  rw [normpath_eq s hs, normpath_eq t ht, ← hi, hl]

theorem step_empty (init : Nat) (acc : List Str) : step init acc [] = acc := by simp [step]
theorem step_dot (init : Nat) (acc : List Str) : step init acc dot = acc := by simp [step]

/-- a component that the loop pushes unconditionally -/
def Normal (x : Str) : Prop := x ≠ [] ∧ '/' ∉ x ∧ x ≠ dot ∧ x ≠ dotdot

theorem step_normal (init : Nat) (acc : List Str) {x : Str} (h : Normal x) : step init acc x = x :: acc := by
  simp [step, h.1, h.2.2.1, h.2.2.2]

theorem step_push_pop (init : Nat) (acc : List Str) {x : Str} (h : Normal x) :
    step init (step init acc x) dotdot = acc := by
  rw [step_normal init acc h]
  have h1 : dotdot ≠ ([] : Str) := by decide
  have h2 : dotdot ≠ dot := by decide
  simp [step, h1, h2, h.2.2.2]

/-! ### idempotence -/

section
theorem splitSlash_noslash_mem (p : Str) : ∀ c ∈ splitSlash p, '/' ∉ c := by
  induction p with
  | nil => simp [splitSlash]
  | cons a as ih =>
    simp only [splitSlash]
    split
    · intro c hc
      simp only [List.mem_cons] at hc
      rcases hc with rfl | hc
      · simp
      · exact ih c hc
    · next hne =>
      cases h : splitSlash as with
      | nil => simp; exact fun e => hne e.symm
      | cons x xs =>
        rw [h] at ih
        intro c hc
        simp only [List.mem_cons] at hc
        rcases hc with rfl | hc
        · have := ih x (by simp)
          simp only [List.mem_cons, not_or]
          exact ⟨fun e => hne e.symm, this⟩
        · exact ih c (by simp [hc])

/-- normal form of the stack `new_comps` (top first): ordinary components above a run of `..`,
the latter only for relative paths. -/
def NFs (init : Nat) (acc : List Str) : Prop :=
  ∃ rest k, acc = rest ++ List.replicate k dotdot ∧ (init ≠ 0 → k = 0) ∧ ∀ x ∈ rest, Normal x

theorem NFs_nil (init : Nat) : NFs init [] := ⟨[], 0, by simp, by simp, by simp⟩

theorem dotdot_not_normal : ¬ Normal dotdot := fun h => h.2.2.2 rfl

theorem NFs_step (init : Nat) (acc : List Str) (comp : Str) (hc : '/' ∉ comp) (h : NFs init acc) :
    NFs init (step init acc comp) := by
  obtain ⟨rest, k, rfl, hk, hr⟩ := h
  unfold step
  split
  · exact ⟨rest, k, rfl, hk, hr⟩
  · next h1 =>
    simp only [not_or] at h1
    split
    · next h2 =>
      by_cases hd : comp = dotdot
      · subst hd
        simp only [ne_eq, not_true_eq_false, false_or] at h2
        rcases h2 with ⟨h0, he⟩ | h2
        · refine ⟨[], 1, by simp [he], fun h => absurd h0 h, by simp⟩
        · cases rest with
          | nil =>
            cases k with
            | zero => simp at h2
            | succ k =>
              have h0 : init = 0 := by
                by_cases h0 : init = 0
                · exact h0
                · exact absurd (hk h0) (by simp)
              exact ⟨[], k + 2, by simp [List.replicate_succ], fun h => absurd h0 h, by simp⟩
          | cons x xs =>
            simp only [List.cons_append, List.head?_cons, Option.some.injEq] at h2
            exact absurd (h2 ▸ hr x (by simp)) dotdot_not_normal
      · exact ⟨comp :: rest, k, by simp, hk, by
          intro x hx
          simp only [List.mem_cons] at hx
          rcases hx with rfl | hx
          · exact ⟨h1.1, hc, h1.2, hd⟩
          · exact hr x hx⟩
    · next h2 =>
      simp only [not_or, ne_eq, Decidable.not_not] at h2
      cases rest with
      | nil =>
        cases k with
        | zero => exact ⟨[], 0, by simp, by simp, by simp⟩
        | succ k => exact absurd (by simp [List.replicate_succ]) h2.2.2
      | cons x xs =>
        exact ⟨xs, k, by simp, hk, fun y hy => hr y (by simp [hy])⟩

theorem NFs_foldl (init : Nat) (comps : List Str) (hc : ∀ c ∈ comps, '/' ∉ c) :
    ∀ acc, NFs init acc → NFs init (comps.foldl (step init) acc) := by
  induction comps with
  | nil => intro acc h; exact h
  | cons c cs ih =>
    intro acc h
    simp only [List.foldl_cons]
    exact ih (fun x hx => hc x (by simp [hx])) _ (NFs_step init acc c (hc c (by simp)) h)


theorem joinSlash_cons_cons (x y : Str) (r : List Str) :
    joinSlash (x :: y :: r) = x ++ '/' :: joinSlash (y :: r) := rfl

theorem splitSlash_joinSlash (comps : List Str) (hne : comps ≠ []) (hc : ∀ c ∈ comps, '/' ∉ c) :
    splitSlash (joinSlash comps) = comps := by
  induction comps with
  | nil => exact absurd rfl hne
  | cons x xs ih =>
    cases xs with
    | nil => simpa [joinSlash] using splitSlash_noslash x (hc x (by simp))
    | cons y r =>
      rw [joinSlash_cons_cons, splitSlash_append, splitSlash_noslash x (hc x (by simp)),
        ih (by simp) (fun c h => hc c (by simp [h]))]
      rfl

theorem foldl_normal (init : Nat) (l : List Str) (hl : ∀ x ∈ l, Normal x) :
    ∀ acc, l.foldl (step init) acc = l.reverse ++ acc := by
  induction l with
  | nil => simp
  | cons x xs ih =>
    intro acc
    simp only [List.foldl_cons, step_normal init acc (hl x (by simp))]
    rw [ih (fun y hy => hl y (by simp [hy]))]
    simp

theorem step_dotdot_on_dotdots (j : Nat) :
    step 0 (List.replicate j dotdot) dotdot = List.replicate (j + 1) dotdot := by
  have h1 : dotdot ≠ ([] : Str) := by decide
  have h2 : dotdot ≠ dot := by decide
  cases j with
  | zero => simp [step, h1, h2]
  | succ j => simp [step, h1, h2, List.replicate_succ]

theorem foldl_dotdots (k : Nat) : ∀ j,
    (List.replicate k dotdot).foldl (step 0) (List.replicate j dotdot) = List.replicate (j + k) dotdot := by
  induction k with
  | zero => simp
  | succ k ih =>
    intro j
    simp only [List.replicate_succ, List.foldl_cons]
    rw [step_dotdot_on_dotdots, ih (j + 1)]
    congr 1; omega

theorem foldl_empties (init n : Nat) (acc : List Str) :
    (List.replicate n ([] : Str)).foldl (step init) acc = acc := by
  induction n with
  | zero => rfl
  | succ n ih => simp [List.replicate_succ, step_empty, ih]

theorem splitSlash_slashes (n : Nat) (s : Str) :
    splitSlash (List.replicate n '/' ++ s) = List.replicate n [] ++ splitSlash s := by
  induction n with
  | zero => simp
  | succ n ih => simp [List.replicate_succ, splitSlash, ih]

theorem initialSlashes_le (p : Str) : initialSlashes p ≤ 2 := by
  unfold initialSlashes; simp only; split
  · omega
  · split <;> omega

/-- the loop, run on comps in normal form, reproduces them -/
theorem loop_nf (init : Nat) (rest : List Str) (k : Nat) (hk : init ≠ 0 → k = 0)
    (hr : ∀ x ∈ rest, Normal x) :
    (List.replicate k dotdot ++ rest.reverse).foldl (step init) [] = rest ++ List.replicate k dotdot := by
  rw [List.foldl_append]
  have h1 : (List.replicate k dotdot).foldl (step init) [] = List.replicate k dotdot := by
    by_cases h0 : init = 0
    · subst h0
      have := foldl_dotdots k 0
      simpa using this
    · rw [hk h0]; rfl
  rw [h1, foldl_normal init rest.reverse (by simpa using hr)]
  simp

theorem joinSlash_head (c : Str) (cs : List Str) (hc : c ≠ []) :
    ∃ a t, c = a :: t ∧ ∃ u, joinSlash (c :: cs) = a :: u := by
  cases c with
  | nil => exact absurd rfl hc
  | cons a t =>
    refine ⟨a, t, rfl, ?_⟩
    cases cs with
    | nil => exact ⟨t, rfl⟩
    | cons y r => exact ⟨t ++ '/' :: joinSlash (y :: r), rfl⟩

theorem takeWhile_slashes (n : Nat) (a : Char) (u : Str) (ha : a ≠ '/') :
    (List.replicate n '/' ++ a :: u).takeWhile (· = '/') = List.replicate n '/' := by
  induction n with
  | zero => simp [ha]
  | succ n ih => simp [List.replicate_succ, ih]

theorem normpath_finish (init : Nat) (hi : init ≤ 2) (acc : List Str) (h : NFs init acc) :
    normpath (finish init acc) = finish init acc := by
  obtain ⟨rest, k, rfl, hk, hr⟩ := h
  by_cases hnil : rest ++ List.replicate k dotdot = []
  · rw [hnil]
    have : init = 0 ∨ init = 1 ∨ init = 2 := by omega
    rcases this with rfl | rfl | rfl <;> decide
  · -- comps in order
    have hrev : (rest ++ List.replicate k dotdot).reverse = List.replicate k dotdot ++ rest.reverse := by
      simp
    have hall : ∀ c ∈ List.replicate k dotdot ++ rest.reverse, c ≠ [] ∧ '/' ∉ c := by
      intro c hc
      simp only [List.mem_append, List.mem_replicate, List.mem_reverse] at hc
      rcases hc with ⟨_, rfl⟩ | hc
      · exact ⟨by decide, by decide⟩
      · exact ⟨(hr c hc).1, (hr c hc).2.1⟩
    have hne : List.replicate k dotdot ++ rest.reverse ≠ [] := by
      rw [← hrev]; intro e; exact hnil (List.reverse_eq_nil_iff.1 e)
    obtain ⟨c, cs, hcs⟩ := List.exists_cons_of_ne_nil hne
    obtain ⟨a, t, hat, u, hu⟩ := joinSlash_head c cs (hall c (by rw [hcs]; simp)).1
    have ha : a ≠ '/' := by
      intro e
      have := (hall c (by rw [hcs]; simp)).2
      rw [hat, e] at this; simp at this
    have ho : finish init (rest ++ List.replicate k dotdot) =
        List.replicate init '/' ++ joinSlash (List.replicate k dotdot ++ rest.reverse) := by
      unfold finish
      rw [hrev, hcs, hu]; simp
    rw [ho]
    have hne' : List.replicate init '/' ++ joinSlash (List.replicate k dotdot ++ rest.reverse) ≠ [] := by
      rw [hcs, hu]; simp
    rw [normpath_eq _ hne']
    have hinit : initialSlashes (List.replicate init '/' ++ joinSlash (List.replicate k dotdot ++ rest.reverse)) = init := by
      unfold initialSlashes
      rw [hcs, hu, takeWhile_slashes init a u ha]
      simp only [List.length_replicate]
      have : init = 0 ∨ init = 1 ∨ init = 2 := by omega
      rcases this with rfl | rfl | rfl <;> rfl
    rw [hinit, splitSlash_slashes, splitSlash_joinSlash _ hne (fun c hc => (hall c hc).2),
      List.foldl_append, foldl_empties, loop_nf init rest k hk hr, ho]

/-- `normpath` is idempotent -/
theorem normpath_idem (p : Str) : normpath (normpath p) = normpath p := by
  by_cases hp : p = []
  · subst hp; decide
  · rw [normpath_eq p hp]
    exact normpath_finish _ (initialSlashes_le p) _
      (NFs_foldl _ _ (splitSlash_noslash_mem p) [] (NFs_nil _))

end

end Pytask.PathNorm
