import PytaskModel.Graph
/-!
Reachability characterisation of `G.descRaw` / `G.ancRaw` (the model of `nx.descendants` / `nx.ancestors`):
the |E|-fold frontier expansion has converged, so it computes exactly the transitive closure of the edge relation.
Consequences: ancestors/descendants are dual and transitive. Core Lean only.
-/
namespace Pytask
namespace EngineDry
open G

/-- `u ⟶⁺ v` along the edges of `g`. -/
inductive Reach (g : G) : Nat → Nat → Prop
  | edge {u v} : (u, v) ∈ g.edges → Reach g u v
  | tail {u m v} : Reach g u m → (m, v) ∈ g.edges → Reach g u v

theorem Reach.trans {g : G} {a b c : Nat} (h1 : Reach g a b) (h2 : Reach g b c) : Reach g a c := by
  induction h2 with
  | edge h => exact Reach.tail h1 h
  | tail _ h ih => exact Reach.tail ih h

theorem Reach.head {g : G} {a b c : Nat} (h : (a, b) ∈ g.edges) (h2 : Reach g b c) : Reach g a c :=
  Reach.trans (Reach.edge h) h2

theorem mem_succs {g : G} {x y : Nat} : x ∈ g.succs y ↔ (y, x) ∈ g.edges := by
  unfold succs
  simp only [List.mem_map, List.mem_filter, beq_iff_eq]
  constructor
  · rintro ⟨e, ⟨he, h1⟩, h2⟩; cases e; simp_all
  · intro h; exact ⟨(y, x), ⟨h, rfl⟩, rfl⟩

theorem mem_preds {g : G} {x y : Nat} : x ∈ g.preds y ↔ (x, y) ∈ g.edges := by
  unfold preds
  simp only [List.mem_map, List.mem_filter, beq_iff_eq]
  constructor
  · rintro ⟨e, ⟨he, h1⟩, h2⟩; cases e; simp_all
  · intro h; exact ⟨(x, y), ⟨h, rfl⟩, rfl⟩

theorem mem_union {a b : List Nat} {x : Nat} : x ∈ union a b ↔ x ∈ a ∨ x ∈ b := by
  unfold union
  induction b generalizing a with
  | nil => simp
  | cons y ys ih =>
    simp only [List.foldl_cons]
    rw [ih]
    by_cases hc : a.contains y = true
    · simp only [hc, if_true, List.mem_cons]
      have : y ∈ a := by simpa using hc
      constructor
      · rintro (h | h); exact Or.inl h; exact Or.inr (Or.inr h)
      · rintro (h | rfl | h); exact Or.inl h; exact Or.inl this; exact Or.inr h
    · simp only [hc, List.mem_cons]
      simp only [Bool.false_eq_true, if_false, List.mem_append, List.mem_singleton]
      constructor
      · rintro ((h | rfl) | h); exact Or.inl h; exact Or.inr (Or.inl rfl); exact Or.inr (Or.inr h)
      · rintro (h | rfl | h); exact Or.inl (Or.inl h); exact Or.inl (Or.inr rfl); exact Or.inr h

theorem mem_stepFwd {g : G} {s : List Nat} {x : Nat} :
    x ∈ g.stepFwd s ↔ x ∈ s ∨ ∃ y ∈ s, (y, x) ∈ g.edges := by
  unfold stepFwd
  rw [mem_union]
  simp only [List.mem_flatMap, mem_succs]

theorem iter_succ' {α} (f : α → α) (n : Nat) (a : α) : iter f (n + 1) a = f (iter f n a) := by
  induction n generalizing a with
  | zero => rfl
  | succ n ih => rw [iter, ih (f a)]; rfl

/-- soundness of the frontier expansion -/
theorem iter_fwd_sound {g : G} {S : List Nat} : ∀ (n : Nat) {x : Nat}, x ∈ iter g.stepFwd n S →
    x ∈ S ∨ ∃ y ∈ S, Reach g y x
  | 0, x, h => Or.inl h
  | n + 1, x, h => by
    rw [iter_succ'] at h
    rcases mem_stepFwd.1 h with h | ⟨y, hy, he⟩
    · exact iter_fwd_sound n h
    · rcases iter_fwd_sound n hy with hy | ⟨z, hz, hr⟩
      · exact Or.inr ⟨y, hy, Reach.edge he⟩
      · exact Or.inr ⟨z, hz, Reach.tail hr he⟩

theorem iter_fwd_mono {g : G} {S : List Nat} (n : Nat) {x : Nat} (h : x ∈ S) : x ∈ iter g.stepFwd n S := by
  induction n with
  | zero => exact h
  | succ n ih => rw [iter_succ']; exact mem_stepFwd.2 (Or.inl ih)

/-- number of edge targets (with multiplicity) lying in `S` -/
def cnt (g : G) (S : List Nat) : Nat := (g.edges.map (·.2)).countP (fun x => S.contains x)

theorem countP_lt {l : List Nat} {p q : Nat → Bool} (hpq : ∀ x, p x = true → q x = true)
    {x : Nat} (hx : x ∈ l) (hq : q x = true) (hp : p x = false) : l.countP p < l.countP q := by
  induction l with
  | nil => cases hx
  | cons y ys ih =>
    have hle : ys.countP p ≤ ys.countP q := List.countP_mono_left (fun z _ => hpq z)
    rcases List.mem_cons.1 hx with rfl | hx
    · simp only [List.countP_cons, hq, hp, if_true]
      simp only [Bool.false_eq_true, if_false]; omega
    · have := ih hx
      simp only [List.countP_cons]
      by_cases h1 : p y = true
      · simp [h1, hpq y h1]; omega
      · have h1' : p y = false := by simpa using h1
        simp only [h1', Bool.false_eq_true, if_false]
        split <;> omega

def Closed (g : G) (S : List Nat) : Prop := ∀ x, x ∈ g.stepFwd S → x ∈ S

theorem closed_step {g : G} {S : List Nat} (h : Closed g S) : Closed g (g.stepFwd S) := by
  intro x hx
  rcases mem_stepFwd.1 hx with hx | ⟨y, hy, he⟩
  · exact hx
  · exact mem_stepFwd.2 (Or.inr ⟨y, h y hy, he⟩)

theorem cnt_grows {g : G} {S : List Nat} (h : ¬ Closed g S) : cnt g S < cnt g (g.stepFwd S) := by
  have : ∃ x, x ∈ g.stepFwd S ∧ x ∉ S := by
    apply Classical.byContradiction
    intro hn
    apply h
    intro x hx
    apply Classical.byContradiction
    intro hxs
    exact hn ⟨x, hx, hxs⟩
  obtain ⟨x, hx, hxs⟩ := this
  rcases mem_stepFwd.1 hx with hx' | ⟨y, _, he⟩
  · exact absurd hx' hxs
  · unfold cnt
    refine countP_lt (x := x) ?_ ?_ ?_ ?_
    · intro z hz
      have : z ∈ S := by simpa using hz
      simpa using mem_stepFwd.2 (Or.inl this)
    · exact List.mem_map.2 ⟨(y, x), he, rfl⟩
    · simpa using hx
    · simpa using hxs

theorem closed_or_cnt {g : G} {S : List Nat} : ∀ k, Closed g (iter g.stepFwd k S) ∨ k ≤ cnt g (iter g.stepFwd k S)
  | 0 => Or.inr (Nat.zero_le _)
  | k + 1 => by
    rw [iter_succ']
    by_cases hc : Closed g (iter g.stepFwd k S)
    · exact Or.inl (closed_step hc)
    · rcases closed_or_cnt (g := g) (S := S) k with h | h
      · exact absurd h hc
      · have := cnt_grows hc
        exact Or.inr (by omega)

/-- after |E| rounds the expansion has converged -/
theorem closed_final (g : G) (S : List Nat) : Closed g (iter g.stepFwd g.edges.length S) := by
  rcases closed_or_cnt (g := g) (S := S) g.edges.length with h | h
  · exact h
  · intro x hx
    rcases mem_stepFwd.1 hx with hx | ⟨y, _, he⟩
    · exact hx
    · -- every edge target already lies in the set
      have hle : cnt g (iter g.stepFwd g.edges.length S) ≤ (g.edges.map (·.2)).length := List.countP_le_length
      have heq : cnt g (iter g.stepFwd g.edges.length S) = (g.edges.map (·.2)).length := by
        simp only [List.length_map] at hle ⊢; omega
      have hall := List.countP_eq_length.1 heq x (List.mem_map.2 ⟨(y, x), he, rfl⟩)
      simpa using hall

theorem iter_fwd_complete {g : G} {S : List Nat} {y x : Nat} (hy : y ∈ S) (h : Reach g y x) :
    x ∈ iter g.stepFwd g.edges.length S := by
  induction h with
  | edge he => exact closed_final g S _ (mem_stepFwd.2 (Or.inr ⟨y, iter_fwd_mono _ hy, he⟩))
  | tail _ he ih => exact closed_final g S _ (mem_stepFwd.2 (Or.inr ⟨_, ih, he⟩))

/-- `nx.descendants` as modelled computes exactly reachability. -/
theorem mem_descRaw {g : G} {v x : Nat} : x ∈ g.descRaw v ↔ Reach g v x := by
  unfold descRaw
  constructor
  · intro h
    rcases iter_fwd_sound _ h with h | ⟨y, hy, hr⟩
    · exact Reach.edge (mem_succs.1 h)
    · exact Reach.head (mem_succs.1 hy) hr
  · intro h
    -- split the first edge off
    have : ∃ y, (v, y) ∈ g.edges ∧ (y = x ∨ Reach g y x) := by
      induction h with
      | edge he => exact ⟨_, he, Or.inl rfl⟩
      | tail _ he ih =>
        obtain ⟨y, hy, hor⟩ := ih
        rcases hor with rfl | hr
        · exact ⟨y, hy, Or.inr (Reach.edge he)⟩
        · exact ⟨y, hy, Or.inr (Reach.tail hr he)⟩
    obtain ⟨y, hy, hor⟩ := this
    rcases hor with rfl | hr
    · exact iter_fwd_mono _ (mem_succs.2 hy)
    · exact iter_fwd_complete (mem_succs.2 hy) hr

/-- the reversed graph -/
def rev (g : G) : G := { nodes := g.nodes, edges := g.edges.map (fun e => (e.2, e.1)) }

theorem rev_preds (g : G) (v : Nat) : g.preds v = (rev g).succs v := by
  unfold preds succs rev
  simp only [List.filter_map, List.map_map]
  rfl

theorem rev_stepBack (g : G) : g.stepBack = (rev g).stepFwd := by
  funext s
  unfold stepBack stepFwd
  congr 1
  congr 1
  funext v
  exact rev_preds g v

theorem rev_ancRaw (g : G) (v : Nat) : g.ancRaw v = (rev g).descRaw v := by
  unfold ancRaw descRaw
  rw [rev_stepBack, rev_preds]
  simp [rev]

theorem rev_reach {g : G} {a b : Nat} : Reach (rev g) a b ↔ Reach g b a := by
  have key : ∀ (g : G) {a b}, (∀ x y, (x, y) ∈ (rev g).edges ↔ (y, x) ∈ g.edges) → Reach (rev g) a b → Reach g b a := by
    intro g a b hm h
    induction h with
    | edge he => exact Reach.edge ((hm _ _).1 he)
    | tail _ he ih => exact Reach.head ((hm _ _).1 he) ih
  have hm : ∀ x y, (x, y) ∈ (rev g).edges ↔ (y, x) ∈ g.edges := by
    intro x y
    simp only [rev, List.mem_map]
    constructor
    · rintro ⟨e, he, h⟩; cases e; simp only [Prod.mk.injEq] at h; obtain ⟨rfl, rfl⟩ := h; exact he
    · intro h; exact ⟨(y, x), h, rfl⟩
  constructor
  · exact key g hm
  · intro h
    induction h with
    | edge he => exact Reach.edge ((hm _ _).2 he)
    | tail _ he ih => exact Reach.head ((hm _ _).2 he) ih

/-- `nx.ancestors` as modelled computes exactly reverse reachability. -/
theorem mem_ancRaw {g : G} {v x : Nat} : x ∈ g.ancRaw v ↔ Reach g x v := by
  rw [rev_ancRaw, mem_descRaw, rev_reach]

end EngineDry
end Pytask
