import PytaskModel.EngineGen
import PytaskProofs.Lemmas.EngineNoCrash
/-!
Refinement lemmas: the interpreters of `EngineGen.lean`, run on the data the translator extracted
(`Generated.Eng.*`), compute exactly the hand-written definitions of `Engine.lean`.

Every proof unfolds the *generated* terms (`simp [Generated.Eng.…]`), so a source change that alters one of them leaves
a goal that no longer closes.
-/
set_option linter.unusedSimpArgs false
namespace Pytask
namespace EngineGen
open Engine Generated.Eng

variable {F : BodyFn} {P : Project} {g : G} {cfg : Cfg}

/-! ### node_and_neighbors, has_node_changed, update_states_in_database -/

theorem neighboursGen_eq (g : G) (t : Nat) : neighboursGen g t = neighbours g t := by
  simp [neighboursGen, neighbours, neighbourOrder, part]

theorem hasChangedGen_eq (w : World) (t v : Nat) (st : Option Nat) :
    hasChangedGen w t v st = some (hasChanged w t v st) := by
  unfold hasChangedGen hasChanged
  simp only [hasChangedCases, hasChangedRun]
  cases st with
  | none => rfl
  | some h => cases lookup w.db (tv t, v) <;> rfl

theorem recordStatesGen_eq (P : Project) (g : G) (cfg : Cfg) (w : World) (t : Nat) :
    recordStatesGen P g cfg w t = recordStates P g cfg w t := by
  simp [recordStatesGen, recordStates, updateStatesSkipsDryRun, neighboursGen_eq]

/-! ### the row loop of update_states_in_database -/

theorem upsertGen_eq (db : DB) (t v h : Nat) : upsertGen db (rowKeyGen t v) h = insert db (tv t, v) h := by
  unfold upsertGen rowKeyGen
  cases lookup db (if updateRowKey == ["task", "node"] then (tv t, v) else (v, tv t)) <;>
    simp [updateRowKey, upsertAddsWhenAbsent, upsertOverwritesWhenPresent]

theorem updateRowsGen_ok (P : Project) (g : G) (w0 : World) (t : Nat) : ∀ (vs : List Nat) (w : World),
    (updateRowsGen P w0 t w vs).2 = (updateStates P g w t vs).2
  | [], _ => rfl
  | v :: vs, w => by
    unfold updateRowsGen updateStates
    cases hs : stateOf P w v with
    | none => rfl
    | some h => simp only [upsertGen_eq]; exact updateRowsGen_ok P g w0 t vs _

theorem updateRowsGen_eq (P : Project) (g : G) (w0 : World) (t : Nat) : ∀ (vs : List Nat) (w : World),
    (∀ v ∈ vs, (stateOf P w v).isSome = true) → updateRowsGen P w0 t w vs = updateStates P g w t vs
  | [], _, _ => rfl
  | v :: vs, w, h => by
    unfold updateRowsGen updateStates
    cases hs : stateOf P w v with
    | none => have := h v (by simp); rw [hs] at this; cases this
    | some x =>
      simp only [upsertGen_eq]
      exact updateRowsGen_eq P g w0 t vs _ (fun u hu => h u (by simp [hu]))

/-- On the reachable calls (every neighbour has a state — guaranteed by the teardown checks / persist's `all(all_states)`)
the interpreted row loop is the model's `updateStates`. -/
theorem updateStatesGen_eq (P : Project) (g : G) (w : World) (t : Nat) (vs : List Nat)
    (h : ∀ v ∈ vs, (stateOf P w v).isSome = true) : updateStatesGen P g w t vs = updateStates P g w t vs :=
  updateRowsGen_eq P g w t vs w h

/-- Whether the call succeeds is the same in all cases. -/
theorem updateStatesGen_ok (P : Project) (g : G) (w : World) (t : Nat) (vs : List Nat) :
    (updateStatesGen P g w t vs).2 = (updateStates P g w t vs).2 := updateRowsGen_ok P g w t vs w

/-- When the call fails nothing is recorded (one transaction), while the older model clause keeps the rows before the
failing one: the two differ only in that unreachable case. -/
theorem updateStatesGen_fail (P : Project) (g : G) (w : World) (t : Nat) : ∀ (vs : List Nat) (w' : World),
    (updateRowsGen P w t w' vs).2 = false → (updateRowsGen P w t w' vs).1 = w
  | [], _, h => by cases h
  | v :: vs, w', h => by
    unfold updateRowsGen at h ⊢
    cases hs : stateOf P w' v with
    | none => simp [Generated.rowsSingleTransaction]
    | some x => simp only [hs] at h ⊢; exact updateStatesGen_fail P g w t vs _ h

/-! ### the loop of execute.pytask_execute_task_setup -/

@[simp] theorem toScan_raised : ScanG.raised.toScan = .missing := rfl
@[simp] theorem toScan_done_true : (ScanG.done true).toScan = .changed := rfl
@[simp] theorem toScan_done_false : (ScanG.done false).toScan = .unchanged := rfl

/-- The `scan` step of the implementation in execute.py, as extracted. -/
def execScan : Option (Cond × Cond × List NPart × List LStep) :=
  match setupImpls.find? (fun i => i.name == "execute") with
  | some impl => impl.steps.findSome? (fun st => match st with
    | .scan i gd ps ls => some (i, gd, ps, ls)
    | _ => none)
  | none => none

theorem scanGen_eq (P : Project) (g : G) (w : World) (t : Nat) {i gd : Cond} {ps : List NPart} {ls : List LStep}
    (h : execScan = some (i, gd, ps, ls)) : ∀ (vs : List Nat) (needs : Bool),
    (scanGen P g w t ps ls (fun _ => false) needs vs).toScan = scan P g w t needs vs := by
  simp only [execScan, setupImpls, List.find?] at h
  simp at h
  obtain ⟨-, -, rfl, rfl⟩ := h
  intro vs
  induction vs with
  | nil => intro needs; cases needs <;> rfl
  | cons v vs ih =>
    intro needs
    unfold scanGen scan
    simp only [hasChangedGen_eq, inPredSet, part, List.any_cons, List.any_nil, List.contains_cons, List.contains_nil,
      Bool.or_false, runSteps, evalL, runActs]
    cases needs <;> cases hp : (g.preds (tv t)).contains v <;> cases hs : (v == tv t) <;>
      cases hst : stateOf P w v <;> simp [ih]
    all_goals (generalize hasChanged w t v _ = c; cases c <;> simp [ih])

/-- With provisional nodes (outside the static model): a provisional node that is no predecessor is skipped by the
loop (`continue`), whatever follows. -/
theorem scanGen_skips_provisional (P : Project) (g : G) (w : World) (t : Nat) {i gd : Cond} {ps : List NPart} {ls : List LStep}
    (h : execScan = some (i, gd, ps, ls)) (prov : Nat → Bool) (v : Nat) (vs : List Nat)
    (hp : prov v = true) (hn : inPredSet g t ps v = false) :
    scanGen P g w t ps ls prov false (v :: vs) = scanGen P g w t ps ls prov false vs := by
  simp only [execScan, setupImpls, List.find?] at h
  simp at h
  obtain ⟨-, -, rfl, rfl⟩ := h
  rw [scanGen]
  simp [runSteps, evalL, runActs, hp, hn]

/-! ### pytask_execute_task_setup implementations -/

theorem changedAny_eq (w : World) (t : Nat) : ∀ (l : List (Nat × Option Nat)),
    changedAny w t l = some (l.any (fun (v, st) => hasChanged w t v st))
  | [] => rfl
  | (v, st) :: r => by
    unfold changedAny
    rw [hasChangedGen_eq, changedAny_eq w t r]
    cases h : hasChanged w t v st <;> simp [List.any_cons, h]

theorem setupImplGen_provisional (s : Sess) (t : TaskSpec) :
    setupImplGen P g cfg s t "provisional" = setupImpl P g cfg s t "provisional" := by
  simp [setupImplGen, setupImpl, setupImpls, runSetupSteps]

theorem setupImplGen_skipping (s : Sess) (t : TaskSpec) :
    setupImplGen P g cfg s t "skipping" = setupImpl P g cfg s t "skipping" := by
  simp only [setupImplGen, setupImpl, setupImpls, List.find?]
  simp [runSetupSteps, evalCond, evalMark, evalFlag, excToRaised]
  cases t.skip <;> cases t.skipif <;> by_cases h1 : t.id ∈ s.skipMarks <;> by_cases h2 : t.id ∈ s.failMarks <;> simp [h1, h2]

theorem setupImplGen_persist (s : Sess) (t : TaskSpec) :
    setupImplGen P g cfg s t "persist" = setupImpl P g cfg s t "persist" := by
  simp only [setupImplGen, setupImpl, setupImpls, List.find?]
  simp [runSetupSteps, evalCond, evalMark, evalFlag, excToRaised, changedAny_eq, neighboursGen_eq]
  cases t.persist <;> by_cases h1 : t.id ∈ s.wbeMarks <;> simp [h1]
  by_cases ha : ∀ x ∈ neighbours g t.id, (stateOf P s.w x).isSome = true
  · have h2 : (neighbours g t.id).all ((fun x => x.isSome) ∘ stateOf P s.w) = true := by
      simpa [List.all_eq_true] using ha
    simp only [h2, ha]
    cases ((neighbours g t.id).zip (List.map (stateOf P s.w) (neighbours g t.id))).any
      (fun x => hasChanged s.w t.id x.fst x.snd) <;> simp <;>
      (intro x hx h; have := ha x hx; simp [h] at this)
  · have h2 : (neighbours g t.id).all ((fun x => x.isSome) ∘ stateOf P s.w) = false := by
      rw [Bool.eq_false_iff]; intro h; exact ha (by simpa [List.all_eq_true] using h)
    simp only [h2, ha]
    simp

theorem execScan_isSome : execScan.isSome = true := by
  simp [execScan, setupImpls]

theorem setupImplGen_execute (s : Sess) (t : TaskSpec) :
    setupImplGen P g cfg s t "execute" = setupImpl P g cfg s t "execute" := by
  obtain ⟨⟨i, gd, ps, ls⟩, hsc⟩ := Option.isSome_iff_exists.1 execScan_isSome
  have key := fun needs => scanGen_eq P g s.w t.id hsc (neighbours g t.id) needs
  simp only [execScan, setupImpls, List.find?] at hsc
  simp at hsc
  obtain ⟨rfl, rfl, rfl, rfl⟩ := hsc
  simp only [setupImplGen, setupImpl, setupImpls, List.find?]
  simp [runSetupSteps, evalCond, evalMark, evalFlag, excToRaised, neighboursGen_eq]
  by_cases h1 : t.id ∈ s.wbeMarks <;> simp [h1]
  cases hf : cfg.force <;> simp only [] <;> rw [← key] <;>
    generalize scanGen P g s.w t.id _ _ _ _ (neighbours g t.id) = r <;>
    rcases r with _ | (_ | _) <;> simp

/-- Every implementation of `pytask_execute_task_setup` that pluggy calls is computed from the extracted data. -/
theorem setupImplGen_eq (s : Sess) (t : TaskSpec) {name : String} (hn : name ∈ Generated.setupOrder) :
    setupImplGen P g cfg s t name = setupImpl P g cfg s t name := by
  simp only [Generated.setupOrder, List.mem_cons, List.mem_nil_iff, or_false] at hn
  rcases hn with rfl | rfl | rfl | rfl
  · exact setupImplGen_provisional s t
  · exact setupImplGen_skipping s t
  · exact setupImplGen_persist s t
  · exact setupImplGen_execute s t

theorem setupChainGen_eq_of (s : Sess) (t : TaskSpec) : ∀ (names : List String), (∀ n ∈ names, n ∈ Generated.setupOrder) →
    setupChainGen P g cfg s t names = setupChain P g cfg s t names
  | [], _ => rfl
  | n :: ns, h => by
    unfold setupChainGen setupChain
    rw [setupImplGen_eq s t (h n (by simp)), setupChainGen_eq_of s t ns (fun m hm => h m (by simp [hm]))]
    cases setupImpl P g cfg s t n <;> rfl

theorem setupChainGen_eq (s : Sess) (t : TaskSpec) :
    setupChainGen P g cfg s t Generated.setupOrder = setupChain P g cfg s t Generated.setupOrder :=
  setupChainGen_eq_of s t _ (fun _ h => h)

/-! ### pytask_execute_task_process_report implementations -/

theorem processReportGen_eq (s : Sess) (t : TaskSpec) (r : Raised)
    (hp : r = .persisted → (recordStates P g cfg s.w t.id).2 = true ∧ s.crashed = false) :
    processReportGen P g cfg s t r = processReport P g cfg s t r := by
  unfold processReportGen processReport
  rcases hrs : recordStates P g cfg s.w t.id with ⟨w', ok⟩
  cases r
  case persisted =>
    obtain ⟨h1, h2⟩ := hp rfl
    rw [hrs] at h1
    simp only at h1
    subst h1
    simp [Generated.processReportOrder, Generated.processReportOrderFirstResult, reportImpls,
      runReportImpls, initRep, raisedToExc, reportFromTask, reportFromException, runChains, runChain, evalRTest, runRActs,
      runRAct, isInst, excSubclass, recordStatesGen_eq, taskSet, outToOutcome, stopCmp, hrs, h2]
  all_goals
    cases ok <;>
    simp [Generated.processReportOrder, Generated.processReportOrderFirstResult, reportImpls,
      runReportImpls, initRep, raisedToExc, reportFromTask, reportFromException, runChains, runChain, evalRTest, runRActs,
      runRAct, isInst, excSubclass, recordStatesGen_eq, taskSet, outToOutcome, stopCmp, hrs] <;>
    (try (cases cfg.maxFail <;> rfl))

/-! ### pytask_execute_task, teardown, the protocol's `try` -/

/-- After a setup that raised nothing, every predecessor of the task and the task's module have a state. -/
theorem setup_none_preds_exist (s : Sess) (t : TaskSpec) (h : setupChain P g cfg s t Generated.setupOrder = .none) :
    ∀ v ∈ g.preds (tv t.id) ++ [tv t.id], (stateOf P s.w v).isSome = true := by
  have hc := ((setupChain_none_iff s t).1 h).2
  intro v hv
  cases hst : stateOf P s.w v with
  | some _ => rfl
  | none =>
    have : scan P g s.w t.id cfg.force (neighbours g t.id) = .missing :=
      (scan_missing_iff s.w t.id cfg.force).2 ⟨v, hv, hst⟩
    rw [this] at hc; cases hc

theorem runPhasesGen_eq (s : Sess) (t : TaskSpec) : runPhasesGen F P g cfg s t = runPhases F P g cfg s t := by
  unfold runPhasesGen runPhases
  simp only [protocolPhases, runPhaseList]
  rw [setupChainGen_eq]
  cases hsc : setupChain P g cfg s t Generated.setupOrder
  case none =>
    have hex := setup_none_preds_exist s t hsc
    have hex' : ∀ v ∈ g.preds (tv t.id) ++ [tv t.id],
        stateOf P { fs := (runBody F t s.w.fs).1, db := s.w.db } v ≠ none := by
      intro v hv hn
      have := stateOf_mono (P := P) (w := s.w) (w' := { fs := (runBody F t s.w.fs).1, db := s.w.db })
        (fun n hn => runBody_fs_mono t s.w.fs n hn) v (hex v hv)
      rw [hn] at this; cases this
    have hv1 : ¬ ((∃ x, x ∈ g.preds (tv t.id) ∧ stateOf P { fs := (runBody F t s.w.fs).1, db := s.w.db } x = none) ∨
        stateOf P { fs := (runBody F t s.w.fs).1, db := s.w.db } (tv t.id) = none) := by
      rintro (⟨x, hx, hn⟩ | hn)
      · exact hex' x (by simp [hx]) hn
      · exact hex' _ (by simp) hn
    simp [Generated.executeOrder, Generated.executeOrderFirstResult, runExecChain, executeWrappers, executeGuards, evalCond,
      executeSteps, runExecSteps, excToRaised, teardownChecks, runTeardown]
    by_cases hd : cfg.dry = true <;> simp [hd]
    by_cases hr : (runBody F t s.w.fs).snd = true <;> simp [hr, hv1]
    by_cases hm : ∃ x, x ∈ t.prods ∧ lookup (runBody F t s.w.fs).fst x = none <;> simp [hm]
  all_goals simp

/-! ### pytask_execute_task_protocol -/

/-- `Persisted` is raised only when every neighbour has a state (persist.py checks `all(all_states)`). -/
theorem setupChain_persisted_exist (s : Sess) (t : TaskSpec)
    (h : setupChain P g cfg s t Generated.setupOrder = .persisted) :
    ((neighbours g t.id).map (stateOf P s.w)).all (·.isSome) = true := by
  cases hall : ((neighbours g t.id).map (stateOf P s.w)).all (·.isSome) with
  | true => rfl
  | false =>
    exfalso
    simp only [Generated.setupOrder, setupChain, setupImpl] at h
    simp [hall] at h
    repeat' split at h
    all_goals simp_all

theorem runPhases_persisted (s : Sess) (t : TaskSpec) (h : (runPhases F P g cfg s t).1 = .persisted) :
    setupChain P g cfg s t Generated.setupOrder = .persisted ∧ (runPhases F P g cfg s t).2 = s := by
  unfold runPhases at h ⊢
  cases hsc : setupChain P g cfg s t Generated.setupOrder <;> simp only [hsc] at h ⊢ <;> try (exact ⟨rfl, rfl⟩)
  all_goals (try (simp at h))
  repeat' split at h
  all_goals simp_all

/-- The report hooks never meet a failing `update_states_in_database` for a persisted task. -/
theorem persisted_records (s : Sess) (t : TaskSpec) (h : (runPhases F P g cfg s t).1 = .persisted) :
    (recordStates P g cfg (runPhases F P g cfg s t).2.w t.id).2 = true := by
  obtain ⟨h1, h2⟩ := runPhases_persisted s t h
  rw [h2]
  unfold recordStates
  split
  · rfl
  · apply updateStates_ok
    have := setupChain_persisted_exist s t h1
    simpa [List.all_eq_true] using this

theorem protocolGen_eq (s : Sess) (t : TaskSpec) (hc : s.crashed = false) :
    protocolGen F P g cfg s t = protocol F P g cfg s t := by
  unfold protocolGen protocol
  simp only [runPhasesGen_eq]
  have hp : (runPhases F P g cfg s t).1 = .persisted →
      (recordStates P g cfg (runPhases F P g cfg s t).2.w t.id).2 = true ∧ (runPhases F P g cfg s t).2.crashed = false := by
    intro h
    refine ⟨persisted_records s t h, ?_⟩
    rw [(runPhases_persisted s t h).2]; exact hc
  have key := processReportGen_eq (P := P) (g := g) (cfg := cfg) (runPhases F P g cfg s t).2 t (runPhases F P g cfg s t).1 hp
  cases hr : (runPhases F P g cfg s t).1 <;> rw [hr] at key <;>
    simp [raisedToExc, protocolHandlers, catches, excIsException, key]

/-! ### pytask_execute_build -/

theorem buildLoopGen_eq : ∀ (picks : List Nat) (so : Sorter) (s : Sess),
    buildLoopGen F P g cfg so s picks = Engine.buildLoop F P g cfg so s picks
  | [], so, s => by simp [buildLoopGen, Engine.buildLoop]
  | t :: ts, so, s => by
    unfold buildLoopGen Engine.buildLoop
    simp only [buildLoopOps, iterGen]
    cases hs : s.stop <;> cases hcr : s.crashed <;> cases ha : so.isActive <;> simp
    cases hl : Sorter.legalBatchB so 1 [tv t] <;> simp
    cases hf : Project.find? P t with
    | none => simp
    | some spec =>
      simp only [protocolGen_eq s spec hcr]
      exact buildLoopGen_eq ts _ _

theorem buildGen_eq (w : World) (picks : List Nat) : buildGen F P cfg w picks = Engine.build F P cfg w picks := by
  unfold buildGen Engine.build
  simp only [buildLoopGen_eq]
  rcases createDag P cfg with _ | ⟨g, marks⟩
  · rfl
  · simp only []
    rcases Sorter.fromDag g isTaskV (prioFn P) with _ | so
    · rfl
    · simp only []
      rcases Engine.buildLoop F P g cfg so { w := w, skipMarks := marks } picks with _ | ⟨so', s⟩ <;> rfl

end EngineGen
end Pytask
