import PytaskModel.Catalog
/-!
Helper lemmas for M9b (`Catalog.lean`): the validator for each `re` function, path arithmetic,
association lists, and the session invariants behind `entry_stable` / `catalog_roundtrip`.
-/
namespace Pytask
namespace Catalog

/-! ## Character class -/

theorem char_le_iff (a b : Char) : a ≤ b ↔ a.toNat ≤ b.toNat := Iff.rfl

theorem char_beq_eq (c a : Char) : (c == a) = decide (c.toNat = a.toNat) := by
  by_cases h : c = a
  · subst h; simp
  · have : c.toNat ≠ a.toNat := by
      intro h'; apply h
      exact Char.ext (UInt32.toNat_inj.1 h')
    simp [h, this]

/-- The extracted character class *is* the documented alphabet. Breaks (on purpose) when the class in
`data_catalog.py` changes. -/
theorem inClass_doc (c : Char) : inClass Generated.catalogNameClass c = docChar c := by
  simp only [inClass, Generated.catalogNameClass, docChar, List.any_cons, List.any_nil, Bool.or_false]
  simp only [char_le_iff, char_beq_eq]
  have e1 : 'a'.toNat = 97 := rfl
  have e2 : 'z'.toNat = 122 := rfl
  have e3 : 'A'.toNat = 65 := rfl
  have e4 : 'Z'.toNat = 90 := rfl
  have e5 : '0'.toNat = 48 := rfl
  have e6 : '9'.toNat = 57 := rfl
  have e7 : '-'.toNat = 45 := rfl
  have e8 : '_'.toNat = 95 := rfl
  simp only [e1, e2, e3, e4, e5, e6, e7, e8]
  generalize c.toNat = n
  rw [Bool.eq_iff_iff]
  simp only [Bool.and_eq_true, Bool.or_eq_true, decide_eq_true_iff]
  omega

theorem docChar_ne_slash {c : Char} (h : docChar c = true) : c ≠ '/' := by
  intro hc; subst hc; revert h; decide

theorem docChar_ne_dot {c : Char} (h : docChar c = true) : c ≠ '.' := by
  intro hc; subst hc; revert h; decide

/-! ## The three `re` functions on `[class]+` -/

theorem takeWhile_length_pos (p : Char → Bool) (s : Str) :
    0 < (s.takeWhile p).length ↔ ∃ c rest, s = c :: rest ∧ p c = true := by
  cases s with
  | nil => simp
  | cons c rest =>
    by_cases h : p c = true
    · simp [h]
    · simp [h]

theorem takeWhile_length_eq (p : Char → Bool) (s : Str) :
    (s.takeWhile p).length = s.length ↔ ∀ c ∈ s, p c = true := by
  induction s with
  | nil => simp
  | cons c rest ih =>
    by_cases h : p c = true
    · simp [h, ih]
    · simp [h]

theorem reMatch_iff (cls : List (Nat × Nat)) (s : Str) :
    reMatch cls s = true ↔ ∃ c rest, s = c :: rest ∧ inClass cls c = true := by
  unfold reMatch
  rw [decide_eq_true_iff]
  exact takeWhile_length_pos _ _

theorem reFullmatch_iff (cls : List (Nat × Nat)) (s : Str) :
    reFullmatch cls s = true ↔ s ≠ [] ∧ ∀ c ∈ s, inClass cls c = true := by
  unfold reFullmatch
  rw [Bool.and_eq_true, decide_eq_true_iff, beq_iff_eq]
  unfold matchLen
  rw [takeWhile_length_eq, takeWhile_length_pos]
  constructor
  · rintro ⟨⟨c, rest, rfl, _⟩, hall⟩
    exact ⟨by simp, hall⟩
  · rintro ⟨hne, hall⟩
    cases s with
    | nil => exact absurd rfl hne
    | cons c rest => exact ⟨⟨c, rest, rfl, hall c (by simp)⟩, hall⟩

theorem reSearch_iff (cls : List (Nat × Nat)) (s : Str) :
    reSearch cls s = true ↔ ∃ c ∈ s, inClass cls c = true := by
  simp [reSearch, List.any_eq_true]

/-- `FullyValid s`: the documented rule — non-empty, only `[A-Za-z0-9_-]`. -/
def FullyValid (s : Str) : Prop := s ≠ [] ∧ ∀ c ∈ s, docChar c = true

theorem fullyValidB_iff (s : Str) : fullyValidB s = true ↔ FullyValid s := by
  simp [fullyValidB, FullyValid, List.all_eq_true]

instance (s : Str) : Decidable (FullyValid s) := decidable_of_iff _ (fullyValidB_iff s)

/-- Whatever of the three `re` functions is used, a documented name is accepted
(needs the class to be the documented alphabet: `inClass_doc`). -/
theorem validNameK_of_fullyValid {k : Nat} (hk : k ≤ 2) {s : Str} (h : FullyValid s) :
    validNameK k Generated.catalogNameClass s = true := by
  obtain ⟨hne, hall⟩ := h
  have hall' : ∀ c ∈ s, inClass Generated.catalogNameClass c = true := by
    intro c hc; rw [inClass_doc]; exact hall c hc
  match k, hk with
  | 0, _ =>
    cases s with
    | nil => exact absurd rfl hne
    | cons c rest => exact (reMatch_iff _ _).2 ⟨c, rest, rfl, hall' c (by simp)⟩
  | 1, _ => exact (reFullmatch_iff _ _).2 ⟨hne, hall'⟩
  | 2, _ =>
    cases s with
    | nil => exact absurd rfl hne
    | cons c rest => exact (reSearch_iff _ _).2 ⟨c, by simp, hall' c (by simp)⟩

theorem anchorKind_le : Generated.catalogNameAnchorKind ≤ 2 := by decide

theorem validName_of_fullyValid {s : Str} (h : FullyValid s) : validName s = true :=
  validNameK_of_fullyValid anchorKind_le h

/-- With `re.fullmatch` acceptance is exactly the documented rule. -/
theorem validNameK_full_iff (s : Str) :
    validNameK 1 Generated.catalogNameClass s = true ↔ FullyValid s := by
  simp only [validNameK, reFullmatch_iff, FullyValid, inClass_doc]

/-! ## Paths -/

theorem splitSlash_ne_nil (s : Str) : splitSlash s ≠ [] := by
  cases s with
  | nil => simp [splitSlash]
  | cons c cs =>
    unfold splitSlash
    split
    · simp
    · split <;> simp

theorem splitSlash_no_slash {s : Str} (h : '/' ∉ s) : splitSlash s = [s] := by
  induction s with
  | nil => rfl
  | cons c cs ih =>
    have hc : c ≠ '/' := fun e => h (by simp [e])
    have hcs : '/' ∉ cs := fun m => h (by simp [m])
    simp [splitSlash, hc, ih hcs]

theorem fullyValid_no_slash {s : Str} (h : FullyValid s) : '/' ∉ s :=
  fun m => docChar_ne_slash (h.2 _ m) rfl

theorem fullyValid_ne_dot {s : Str} (h : FullyValid s) : s ≠ ['.'] := by
  intro e; subst e
  exact docChar_ne_dot (h.2 '.' (by simp)) rfl

theorem fullyValid_ne_dotdot {s : Str} (h : FullyValid s) : s ≠ ['.', '.'] := by
  intro e; subst e
  exact docChar_ne_dot (h.2 '.' (by simp)) rfl

/-- A documented name is one ordinary path component: the catalog directory is
`root/.pytask/data_catalogs/<name>` literally. -/
theorem catalogDir_fullyValid (root : Path) {cat : Str} (h : FullyValid cat) :
    catalogDir root cat = root ++ Generated.catalogDirParts ++ [cat] := by
  unfold catalogDir normComps
  rw [splitSlash_no_slash (fullyValid_no_slash h)]
  simp [normStep, h.1, fullyValid_ne_dot h, fullyValid_ne_dotdot h]

theorem entryPathIn_inj {sha : Str → Str} (hsha : Function.Injective sha) {d₁ d₂ : Path} {e₁ e₂ : Str}
    (h : entryPathIn sha d₁ e₁ = entryPathIn sha d₂ e₂) : d₁ = d₂ ∧ e₁ = e₂ := by
  unfold entryPathIn entryFile at h
  have h' := List.append_inj' h rfl
  refine ⟨h'.1, ?_⟩
  have h2 : sha e₁ ++ Generated.catalogEntrySuffix = sha e₂ ++ Generated.catalogEntrySuffix := by
    simpa using h'.2
  exact hsha (List.append_cancel_right h2)

/-- **entry isolation** for documented names (any root, any entry names). -/
theorem entryPath_inj {sha : Str → Str} (hsha : Function.Injective sha) (root : Path)
    {c₁ c₂ e₁ e₂ : Str} (h₁ : FullyValid c₁) (h₂ : FullyValid c₂)
    (h : entryPath sha root c₁ e₁ = entryPath sha root c₂ e₂) : c₁ = c₂ ∧ e₁ = e₂ := by
  unfold entryPath at h
  obtain ⟨hd, he⟩ := entryPathIn_inj hsha h
  rw [catalogDir_fullyValid root h₁, catalogDir_fullyValid root h₂] at hd
  have := List.append_inj' hd rfl
  exact ⟨by simpa using this.2, he⟩

/-! ## Association lists -/

theorem lookup_mem {β : Type} {l : List (Str × β)} {k : Str} {v : β} (h : l.lookup k = some v) :
    (k, v) ∈ l := by
  induction l with
  | nil => simp at h
  | cons x xs ih =>
    obtain ⟨k', v'⟩ := x
    by_cases hk : k = k'
    · subst hk; simp at h; simp [h]
    · have : (k == k') = false := by simpa using hk
      simp only [List.lookup, this] at h
      exact List.mem_cons_of_mem _ (ih h)

/-! ## Session invariants -/

/-- A persisted node file is exactly what `add` writes: named after its entry's digest and holding
the node whose value file lies next to it. -/
def NodeOK (sha : Str → Str) (p : Path) (n : Node) : Prop :=
  ∃ d e, p = d ++ [nodeFile sha e] ∧ n = ⟨e, entryPathIn sha d e⟩

def FSInv (sha : Str → Str) (fs : FS) : Prop := ∀ x ∈ fs.nodes, NodeOK sha x.1 x.2

/-- A live catalog object: accepted name, its directory, and every entry maps to the node `add`
would compute. -/
def CatInv (sha : Str → Str) (root : Path) (c : CatObj) : Prop :=
  validName c.name = true ∧ c.dir = catalogDir root c.name ∧
  ∀ x ∈ c.entries, x.2 = ⟨x.1, entryPathIn sha c.dir x.1⟩

def StInv (sha : Str → Str) (st : St) : Prop :=
  FSInv sha st.fs ∧ ∀ x ∈ st.cats, x.2.name = x.1 ∧ CatInv sha st.root x.2

theorem stInv_init (sha : Str → Str) (root : Path) : StInv sha (St.init root) := by
  constructor
  · intro x hx; simp [St.init, FS.empty] at hx
  · intro x hx; simp [St.init] at hx

theorem isNodeFileIn_concat {dir d : Path} {f : Str} (h : isNodeFileIn dir (d ++ [f]) = true) : d = dir := by
  unfold isNodeFileIn at h
  simp at h
  exact h.1

theorem globNodes_ok {sha : Str → Str} {fs : FS} (hfs : FSInv sha fs) {dir : Path} {n : Node}
    (hn : n ∈ globNodes fs dir) : n = ⟨n.name, entryPathIn sha dir n.name⟩ := by
  unfold globNodes at hn
  rw [List.mem_map] at hn
  obtain ⟨x, hx, rfl⟩ := hn
  rw [List.mem_filter] at hx
  obtain ⟨d, e, hp, hnode⟩ := hfs x hx.1
  have hd : d = dir := by
    have := hx.2; rw [hp] at this; exact isNodeFileIn_concat this
  subst hd
  rw [hnode]

theorem openCatalog_none_iff (root : Path) (fs : FS) (name : Str) :
    openCatalog root fs name = none ↔ validName name = false := by
  unfold openCatalog
  by_cases h : validName name = true <;> simp [h]

theorem openCatalog_inv {sha : Str → Str} {root : Path} {fs : FS} (hfs : FSInv sha fs) {name : Str}
    {c : CatObj} (h : openCatalog root fs name = some c) : c.name = name ∧ CatInv sha root c := by
  unfold openCatalog at h
  by_cases hv : validName name = true
  · simp only [hv, if_true, Option.some.injEq] at h
    subst h
    refine ⟨rfl, hv, rfl, ?_⟩
    intro x hx
    simp only [List.mem_map] at hx
    obtain ⟨n, hn, rfl⟩ := hx
    exact globNodes_ok hfs hn
  · simp [hv] at h

theorem fsInv_setFile {sha : Str → Str} {fs : FS} (hfs : FSInv sha fs) (d : Path) (e : Str) :
    FSInv sha { fs with nodes := setFile fs.nodes (d ++ [nodeFile sha e]) ⟨e, entryPathIn sha d e⟩ } := by
  intro x hx
  simp only [setFile, List.mem_cons, List.mem_filter] at hx
  rcases hx with rfl | ⟨hx, _⟩
  · exact ⟨d, e, rfl, rfl⟩
  · exact hfs x hx

theorem getItem_spec {sha : Str → Str} {root : Path} {fs : FS} {c : CatObj} (hfs : FSInv sha fs)
    (hc : CatInv sha root c) (e : Str) :
    (getItem sha fs c e).2.2 = ⟨e, entryPathIn sha c.dir e⟩ ∧ FSInv sha (getItem sha fs c e).1 ∧
    CatInv sha root (getItem sha fs c e).2.1 ∧ (getItem sha fs c e).2.1.name = c.name ∧
    (getItem sha fs c e).1.vals = fs.vals := by
  unfold getItem
  cases hl : c.entries.lookup e with
  | some n =>
    have := hc.2.2 _ (lookup_mem hl)
    exact ⟨this, hfs, hc, rfl, rfl⟩
  | none =>
    simp only [addEntry]
    refine ⟨trivial, fsInv_setFile hfs c.dir e, ⟨hc.1, hc.2.1, ?_⟩, trivial, trivial⟩
    intro x hx
    simp only [List.mem_cons] at hx
    rcases hx with rfl | hx
    · rfl
    · exact hc.2.2 x hx

/-- The catalog object a session uses for `name`: cached, or freshly constructed. -/
def sessionCat (st : St) (name : Str) : Option CatObj :=
  match st.cats.lookup name with
  | some c => some c
  | none => openCatalog st.root st.fs name

theorem withCat_eq (sha : Str → Str) (st : St) (name e : Str) :
    withCat sha st name e =
      match sessionCat st name with
      | none => none
      | some c => some ({ st with fs := (getItem sha st.fs c e).1,
                                   cats := (name, (getItem sha st.fs c e).2.1) :: st.cats },
                        (getItem sha st.fs c e).2.2) := by
  unfold withCat sessionCat
  rfl

theorem sessionCat_inv {sha : Str → Str} {st : St} (hst : StInv sha st) {name : Str} {c : CatObj}
    (h : sessionCat st name = some c) : c.name = name ∧ CatInv sha st.root c := by
  unfold sessionCat at h
  cases hl : st.cats.lookup name with
  | some c' =>
    rw [hl] at h
    simp only [Option.some.injEq] at h
    subst h
    exact hst.2 _ (lookup_mem hl)
  | none =>
    rw [hl] at h
    exact openCatalog_inv hst.1 h

theorem sessionCat_none_iff {sha : Str → Str} {st : St} (hst : StInv sha st) (name : Str) :
    sessionCat st name = none ↔ validName name = false := by
  unfold sessionCat
  cases hl : st.cats.lookup name with
  | some c' =>
    have := hst.2 _ (lookup_mem hl)
    have hv : validName name = true := by
      have h1 : c'.name = name := this.1
      rw [← h1]; exact this.2.1
    simp [hv]
  | none => exact openCatalog_none_iff _ _ _

/-- `catalog[e]` in any reachable state: accepted iff the validator accepts the name, and the node
handed out lives at `entryPath root cat e` — whether it was just created, cached in this session,
or un-pickled from an earlier session's node file. -/
theorem withCat_spec {sha : Str → Str} {st : St} (hst : StInv sha st) (name e : Str) :
    (validName name = false ∧ withCat sha st name e = none) ∨
    (validName name = true ∧ ∃ st' n, withCat sha st name e = some (st', n) ∧
      n = ⟨e, entryPath sha st.root name e⟩ ∧ StInv sha st' ∧ st'.root = st.root ∧
      st'.fs.vals = st.fs.vals) := by
  rw [withCat_eq]
  cases hs : sessionCat st name with
  | none =>
    left; exact ⟨(sessionCat_none_iff hst name).1 hs, rfl⟩
  | some c =>
    right
    obtain ⟨hname, hc⟩ := sessionCat_inv hst hs
    have hv : validName name = true := by rw [← hname]; exact hc.1
    obtain ⟨hnode, hfs', hc', hname', hvals⟩ := getItem_spec hst.1 hc e
    refine ⟨hv, _, _, rfl, ?_, ⟨hfs', ?_⟩, rfl, hvals⟩
    · rw [hnode, hc.2.1, hname]; rfl
    · intro x hx
      simp only [List.mem_cons] at hx
      rcases hx with rfl | hx
      · exact ⟨by rw [hname', hname], hc'⟩
      · exact hst.2 x hx

/-! ## Steps and histories -/

theorem stInv_setVals {sha : Str → Str} {st : St} (hst : StInv sha st) (f : Path → Option Nat) :
    StInv sha { st with fs := { st.fs with vals := f } } := hst

theorem step_inv {sha : Str → Str} {st : St} (hst : StInv sha st) (op : Op) :
    StInv sha (step sha st op).1 ∧ (step sha st op).1.root = st.root := by
  cases op with
  | newSession =>
    refine ⟨⟨hst.1, ?_⟩, rfl⟩
    intro x hx; simp [step] at hx
  | save cat e v =>
    rcases withCat_spec hst cat e with ⟨_, hw⟩ | ⟨_, st', n, hw, _, hst', hroot, _⟩
    · simp only [step, hw]; exact ⟨hst, trivial⟩
    · simp only [step, hw]; exact ⟨stInv_setVals hst' _, hroot⟩
  | load cat e =>
    rcases withCat_spec hst cat e with ⟨_, hw⟩ | ⟨_, st', n, hw, _, hst', hroot, _⟩
    · simp only [step, hw]; exact ⟨hst, trivial⟩
    · simp only [step, hw]; exact ⟨hst', hroot⟩

theorem run_nil (sha : Str → Str) (st : St) : run sha st [] = st := rfl

theorem run_cons (sha : Str → Str) (st : St) (op : Op) (ops : List Op) :
    run sha st (op :: ops) = run sha (step sha st op).1 ops := rfl

theorem run_append (sha : Str → Str) (st : St) (xs ys : List Op) :
    run sha st (xs ++ ys) = run sha (run sha st xs) ys := by
  simp [run, List.foldl_append]

theorem run_inv {sha : Str → Str} {st : St} (hst : StInv sha st) (ops : List Op) :
    StInv sha (run sha st ops) ∧ (run sha st ops).root = st.root := by
  induction ops generalizing st with
  | nil => exact ⟨hst, rfl⟩
  | cons op ops ih =>
    rw [run_cons]
    obtain ⟨h1, h2⟩ := step_inv hst op
    obtain ⟨h3, h4⟩ := ih h1
    exact ⟨h3, h4.trans h2⟩

/-- What a `load` answers in any reachable state. -/
theorem step_load_ans {sha : Str → Str} {st : St} (hst : StInv sha st) (cat e : Str) :
    (step sha st (.load cat e)).2 =
      if validName cat = true then .loaded (st.fs.vals (entryPath sha st.root cat e)) else .rejected := by
  rcases withCat_spec hst cat e with ⟨hv, hw⟩ | ⟨hv, st', n, hw, hn, _, _, hvals⟩
  · simp [step, hw, hv]
  · simp [step, hw, hv, hn, hvals]

theorem step_save_ans {sha : Str → Str} {st : St} (hst : StInv sha st) (cat e : Str) (v : Nat) :
    (step sha st (.save cat e v)).2 = if validName cat = true then .done else .rejected := by
  rcases withCat_spec hst cat e with ⟨hv, hw⟩ | ⟨hv, st', n, hw, _, _, _, _⟩
  · simp [step, hw, hv]
  · simp [step, hw, hv]

/-- The value files after one operation: only an accepted `save` changes one, and only the file at
its entry's location. -/
theorem step_vals {sha : Str → Str} {st : St} (hst : StInv sha st) (op : Op) (p : Path) :
    (step sha st op).1.fs.vals p =
      match op with
      | .save c e v => if validName c = true ∧ p = entryPath sha st.root c e then some v else st.fs.vals p
      | _ => st.fs.vals p := by
  cases op with
  | newSession => rfl
  | load cat e =>
    rcases withCat_spec hst cat e with ⟨_, hw⟩ | ⟨_, st', n, hw, _, _, _, hvals⟩
    · simp [step, hw]
    · simp [step, hw, hvals]
  | save cat e v =>
    rcases withCat_spec hst cat e with ⟨hv, hw⟩ | ⟨hv, st', n, hw, hn, _, _, hvals⟩
    · simp [step, hw, hv]
    · simp only [step, hw, hv, true_and, writeVal, hn, hvals]

/-- **Round trip over a whole history**, for the value file of a documented catalog's entry: it
holds the value of the last `save` through exactly that `(catalog, entry)`, whatever else happened
(other saves, loads, rejected names, new sessions). -/
theorem run_vals {sha : Str → Str} (hsha : Function.Injective sha) {st : St} (hst : StInv sha st)
    (ops : List Op)
    (hops : ∀ op ∈ ops, ∀ c, op.cat? = some c → validName c = true → FullyValid c)
    {cat : Str} (hcat : FullyValid cat) (e : Str) :
    (run sha st ops).fs.vals (entryPath sha st.root cat e) =
      lastSavedFrom cat e (st.fs.vals (entryPath sha st.root cat e)) ops := by
  induction ops generalizing st with
  | nil => rfl
  | cons op ops ih =>
    rw [run_cons]
    obtain ⟨h1, h2⟩ := step_inv (sha := sha) hst op
    have hops' : ∀ op ∈ ops, ∀ c, op.cat? = some c → validName c = true → FullyValid c :=
      fun o ho => hops o (List.mem_cons_of_mem _ ho)
    have := ih h1 hops'
    rw [h2] at this
    rw [this, step_vals hst]
    cases op with
    | newSession => rfl
    | load c' e' => rfl
    | save c' e' v =>
      simp only [lastSavedFrom]
      congr 1
      by_cases hv : validName c' = true
      · have hf : FullyValid c' := hops (.save c' e' v) (List.mem_cons_self ..) c' rfl hv
        by_cases heq : c' = cat ∧ e' = e
        · obtain ⟨rfl, rfl⟩ := heq
          simp [hv]
        · have : ¬ (entryPath sha st.root cat e = entryPath sha st.root c' e') := by
            intro hp
            obtain ⟨a, b⟩ := entryPath_inj hsha st.root hcat hf hp
            exact heq ⟨a.symm, b.symm⟩
          simp [this, heq]
      · have : ¬ (c' = cat ∧ e' = e) := by
          rintro ⟨rfl, _⟩
          exact hv (validName_of_fullyValid hcat)
        simp [hv, this]

theorem answers_length (sha : Str → Str) (st : St) (ops : List Op) :
    (answers sha st ops).length = ops.length := by
  induction ops generalizing st with
  | nil => rfl
  | cons op ops ih => simp [answers, ih]

/-- The `i`-th answer of a history is the answer of the `i`-th operation in the state reached by the
first `i` operations. -/
theorem answers_getElem (sha : Str → Str) (st : St) (ops : List Op) (i : Nat) (hi : i < ops.length) :
    (answers sha st ops)[i]'(by rw [answers_length]; exact hi) =
      (step sha (run sha st (ops.take i)) ops[i]).2 := by
  induction ops generalizing st i with
  | nil => simp at hi
  | cons op ops ih =>
    cases i with
    | zero => simp [answers, run_nil]
    | succ i =>
      simp only [answers, List.getElem_cons_succ, List.take_succ_cons, run_cons]
      exact ih _ i (by simpa using hi)

/-! ## The validator by anchor kind, and the F5 witnesses -/

/-- What the validator accepts, for each `re` function the translator can report. -/
def AcceptsK (k : Nat) (s : Str) : Prop :=
  match k with
  | 0 => ∃ c rest, s = c :: rest ∧ docChar c = true
  | 1 => FullyValid s
  | 2 => ∃ c ∈ s, docChar c = true
  | _ => False

theorem validNameK_iff (k : Nat) (s : Str) :
    validNameK k Generated.catalogNameClass s = true ↔ AcceptsK k s := by
  match k with
  | 0 => simp only [validNameK, AcceptsK, reMatch_iff, inClass_doc]
  | 1 => exact validNameK_full_iff s
  | 2 => simp only [validNameK, AcceptsK, reSearch_iff, inClass_doc]
  | k + 3 => simp [validNameK, AcceptsK]

/-- `a/../b` -/
def witDots : Str := ['a', '/', '.', '.', '/', 'b']
/-- `a/b` -/
def witSlash : Str := ['a', '/', 'b']
/-- `a b` -/
def witSpace : Str := ['a', ' ', 'b']
/-- `a\n` -/
def witNewline : Str := ['a', '\n']
/-- `b` -/
def witB : Str := ['b']

/-- Every name that starts with a documented character is accepted by `re.match` and `re.search`. -/
theorem validName_of_head {k : Nat} (hk : k = 0 ∨ k = 2) {c : Char} (rest : Str) (hc : docChar c = true) :
    validNameK k Generated.catalogNameClass (c :: rest) = true := by
  rw [validNameK_iff]
  rcases hk with rfl | rfl
  · exact ⟨c, rest, rfl, hc⟩
  · exact ⟨c, by simp, hc⟩

theorem not_fullyValid_of_mem {s : Str} {c : Char} (hc : c ∈ s) (hd : docChar c = false) : ¬ FullyValid s := by
  intro h; rw [h.2 c hc] at hd; exact Bool.noConfusion hd

/-- `normpath(root/.pytask/data_catalogs/a/../b)` is the directory of catalog `b`. -/
theorem catalogDir_witDots (root : Path) : catalogDir root witDots = catalogDir root witB := by
  simp [catalogDir, normComps, witDots, witB, splitSlash, normStep]

theorem kind_cases {k : Nat} (hk : k ≤ 2) (h1 : ¬ k = 1) : k = 0 ∨ k = 2 := by omega

end Catalog
end Pytask
