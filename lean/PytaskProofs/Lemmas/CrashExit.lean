import PytaskProofs.Lemmas.CrashGraph
/-!
From the *result* of a build (exit code 0, loop ran to its end) to the facts the convergence lemmas use: every report is
SUCCESS or SKIP_UNCHANGED and every task was processed — for projects without skip markers and builds without selection or
dry-run.
-/
namespace Pytask
namespace Engine
open Sorter

/-- no injected marks, loop not stopped -/
structure Clean (s : Sess) : Prop where
  skip : s.skipMarks = []
  fail : s.failMarks = []
  wbe : s.wbeMarks = []
  stop : s.stop = false

/-- no `skip` / `skipif(True)` markers in the project -/
def NoSkips (P : Project) : Prop := ∀ t ∈ P.tasks, t.skip = false ∧ t.skipif = false

theorem setupChain_clean (P : Project) (g : G) (cfg : Cfg) (s : Sess) (t : TaskSpec) (hc : Clean s)
    (hsk : t.skip = false) (hsi : t.skipif = false) (hp : t.persist = false) :
    setupChain P g cfg s t Generated.setupOrder =
      (match scan P g s.w t.id cfg.force (neighbours g t.id) with
        | .missing => .error
        | .changed => .none
        | .unchanged => .skippedUnchanged) := by
  have e1 : setupImpl P g cfg s t "provisional" = .none := by
    unfold setupImpl
    simp only [show ("provisional" == "skipping") = false by decide, show ("provisional" == "persist") = false by decide,
      show ("provisional" == "execute") = false by decide, Bool.false_eq_true, if_false]
  have e2 : setupImpl P g cfg s t "skipping" = .none := by
    unfold setupImpl
    simp [hsk, hsi, hc.skip, hc.fail]
  have e3 : setupImpl P g cfg s t "persist" = .none := by
    unfold setupImpl
    simp only [show ("persist" == "skipping") = false by decide, show ("persist" == "persist") = true by decide, hp,
      Bool.false_and, Bool.false_eq_true, if_false, if_true]
  have e4 : setupImpl P g cfg s t "execute" =
      (match scan P g s.w t.id cfg.force (neighbours g t.id) with
        | .missing => .error
        | .changed => .none
        | .unchanged => .skippedUnchanged) := by
    unfold setupImpl
    simp only [show ("execute" == "skipping") = false by decide, show ("execute" == "persist") = false by decide,
      show ("execute" == "execute") = true by decide, Bool.false_eq_true, if_false, if_true, hc.wbe]
    cases scan P g s.w t.id cfg.force (neighbours g t.id) <;> simp
  show setupChain P g cfg s t ["provisional", "skipping", "persist", "execute"] = _
  simp only [setupChain, e1, e2, e3, e4]
  cases scan P g s.w t.id cfg.force (neighbours g t.id) <;> rfl

/-- In a clean session of a non-dry build, a protocol of an unskipped task ends in SUCCESS, SKIP_UNCHANGED, FAIL, or dies in
its row commits; in the first two cases the session stays clean. -/
theorem protocol_clean (F : BodyFn) (P : Project) (g : G) (cfg : Cfg) (s : Sess) (t : TaskSpec) (hc : Clean s)
    (hdry : cfg.dry = false) (hsk : t.skip = false) (hsi : t.skipif = false) (hp : t.persist = false) :
    (protocol F P g cfg s t).crashed = true ∨ (t.id, Outcome.fail) ∈ (protocol F P g cfg s t).reports ∨
    (Clean (protocol F P g cfg s t) ∧
      ((runPhases F P g cfg s t).1 = .none ∨ (runPhases F P g cfg s t).1 = .skippedUnchanged)) := by
  have hchain := setupChain_clean P g cfg s t hc hsk hsi hp
  have hmarks : (runPhases F P g cfg s t).2.skipMarks = s.skipMarks ∧ (runPhases F P g cfg s t).2.failMarks = s.failMarks ∧
      (runPhases F P g cfg s t).2.wbeMarks = s.wbeMarks ∧ (runPhases F P g cfg s t).2.stop = s.stop := by
    unfold runPhases
    split
    · simp only [hdry, Bool.false_eq_true, if_false]
      split <;> (try split) <;> simp
    · simp
  have hr : (runPhases F P g cfg s t).1 = .none ∨ (runPhases F P g cfg s t).1 = .skippedUnchanged ∨
      (runPhases F P g cfg s t).1 = .error := by
    unfold runPhases
    rw [hchain]
    cases scan P g s.w t.id cfg.force (neighbours g t.id) <;> simp only [hdry, Bool.false_eq_true, if_false]
    · simp
    · by_cases h1 : (runBody F t s.w.fs).2 = true <;>
        by_cases h2 : (t.prods.any fun p => (lookup (runBody F t s.w.fs).1 p).isNone) = true <;> simp [h1, h2]
    · simp
  unfold protocol
  simp only []
  rcases hr with hr | hr | hr
  · -- body and teardown went through
    simp only [hr, processReport, recordStates, hdry, Bool.false_eq_true, if_false]
    cases hok : (updateStates P g (runPhases F P g cfg s t).2.w t.id (neighbours g t.id)).2
    · left; simp
    · right; right
      refine ⟨⟨?_, ?_, ?_, ?_⟩, Or.inl trivial⟩ <;> simp [hmarks, hc.skip, hc.fail, hc.wbe, hc.stop]
  · right; right
    simp only [hr, processReport]
    refine ⟨⟨?_, ?_, ?_, ?_⟩, Or.inr trivial⟩ <;> simp [hmarks, hc.skip, hc.fail, hc.wbe, hc.stop]
  · right; left
    simp only [hr, processReport]
    simp

/-- `buildLoop` from a clean session: if the final session has no FAIL report and did not crash, every protocol ended in
SUCCESS / SKIP_UNCHANGED, all reports are good and the loop was never stopped. -/
theorem clean_loop (F : BodyFn) (P : Project) (g : G) (cfg : Cfg) (hdry : cfg.dry = false) (hns : NoSkips P)
    (hnp : ∀ t ∈ P.tasks, t.persist = false) :
    ∀ (picks : List Nat) (so : Sorter) (s : Sess) (so' : Sorter) (s' : Sess), Clean s →
      (∀ rep ∈ s.reports, GoodOutcome rep.2) → buildLoop F P g cfg so s picks = .ok (so', s') →
      (∀ rep ∈ s'.reports, rep.2 ≠ .fail) → s'.crashed = false →
      (∀ rep ∈ s'.reports, GoodOutcome rep.2) ∧ s'.stop = false
  | [], so, s, so', s', hc, hg, h, _, _ => by
    simp only [buildLoop, Except.ok.injEq, Prod.mk.injEq] at h
    obtain ⟨_, rfl⟩ := h
    exact ⟨hg, hc.stop⟩
  | t :: ts, so, s, so', s', hc, hg, h, hnf, hcr => by
    unfold buildLoop at h
    split at h
    · cases h
    split at h
    · cases h
    split at h
    · cases h
    rename_i spec hfind
    have hspec := mem_of_find? hfind
    rcases protocol_clean F P g cfg s spec hc hdry (hns spec hspec).1 (hns spec hspec).2 (hnp spec hspec) with h1 | h1 | ⟨h1, h2⟩
    · exfalso
      cases ts with
      | nil =>
        simp only [buildLoop, Except.ok.injEq, Prod.mk.injEq] at h
        obtain ⟨_, rfl⟩ := h
        rw [h1] at hcr; cases hcr
      | cons u us => unfold buildLoop at h; simp [h1] at h
    · exact absurd rfl (hnf _ (buildLoop_reports_mono F P g cfg ts _ _ so' s' h _ h1))
    · apply clean_loop F P g cfg hdry hns hnp ts _ _ so' s' h1 _ h hnf hcr
      -- the reports after this protocol are good
      intro rep hrep
      unfold protocol at hrep
      simp only [] at hrep
      have hrep0 : (runPhases F P g cfg s spec).2.reports = s.reports := by
        unfold runPhases
        split
        · split
          · rfl
          · simp only []
            split <;> (try split) <;> rfl
        · rfl
      rcases h2 with h2 | h2
      · simp only [h2, processReport] at hrep
        split at hrep
        · simp only [List.mem_append, List.mem_singleton, hrep0] at hrep
          rcases hrep with hrep | rfl
          · exact hg rep hrep
          · exact Or.inl rfl
        · rw [hrep0] at hrep; exact hg rep hrep
      · simp only [h2, processReport, List.mem_append, List.mem_singleton, hrep0] at hrep
        rcases hrep with hrep | rfl
        · exact hg rep hrep
        · exact Or.inr rfl


/-! ### when the loop ran to its natural end, every task was processed -/

theorem buildLoop_nodes (F : BodyFn) (P : Project) (g : G) (cfg : Cfg) :
    ∀ (picks : List Nat) (so : Sorter) (s : Sess) (so' : Sorter) (s' : Sess),
      buildLoop F P g cfg so s picks = .ok (so', s') →
      so'.nodes = so.nodes.filter (fun v => !(picks.map tv).contains v)
  | [], so, s, so', s', h => by
    simp only [buildLoop, Except.ok.injEq, Prod.mk.injEq] at h
    obtain ⟨rfl, _⟩ := h
    simp only [List.map_nil, List.contains_nil, Bool.not_false]
    exact (List.filter_eq_self.2 (fun _ _ => rfl)).symm
  | t :: ts, so, s, so', s', h => by
    unfold buildLoop at h
    split at h
    · cases h
    split at h
    · cases h
    split at h
    · cases h
    rw [buildLoop_nodes F P g cfg ts _ _ so' s' h]
    simp only [finish, take, List.filter_filter, List.map_cons]
    apply List.filter_congr
    intro v _
    simp [Bool.and_comm]

theorem addNode_mem (g : G) (v : Nat) : v ∈ (g.addNode v).nodes := by
  unfold G.addNode
  split
  · rename_i h; simpa using h
  · simp

theorem addNode_nodes_mono (g : G) (v x : Nat) (h : x ∈ g.nodes) : x ∈ (g.addNode v).nodes := by
  unfold G.addNode
  split
  · exact h
  · exact List.mem_append_left _ h

theorem addEdge_nodes_mono (g : G) (u v x : Nat) (h : x ∈ g.nodes) : x ∈ (g.addEdge u v).nodes := by
  unfold G.addEdge
  simp only []
  split <;> exact addNode_nodes_mono _ _ _ (addNode_nodes_mono _ _ _ h)

theorem foldl_addEdge_nodes_mono {α} (l : List α) (f h : α → Nat) (g : G) (x : Nat) (hx : x ∈ g.nodes) :
    x ∈ (l.foldl (fun g a => g.addEdge (f a) (h a)) g).nodes := by
  induction l generalizing g with
  | nil => exact hx
  | cons a l ih => exact ih _ (addEdge_nodes_mono g _ _ x hx)

theorem crBaseStep_nodes_mono (g : G) (t : TaskSpec) (x : Nat) (hx : x ∈ g.nodes) : x ∈ (crBaseStep g t).nodes := by
  unfold crBaseStep
  simp only []
  apply foldl_addEdge_nodes_mono t.prods (fun _ => tv t.id) nv
  apply foldl_addEdge_nodes_mono t.deps nv (fun _ => tv t.id)
  exact addNode_nodes_mono g _ x hx

theorem crBaseStep_self (g : G) (t : TaskSpec) : tv t.id ∈ (crBaseStep g t).nodes := by
  unfold crBaseStep
  simp only []
  apply foldl_addEdge_nodes_mono t.prods (fun _ => tv t.id) nv
  apply foldl_addEdge_nodes_mono t.deps nv (fun _ => tv t.id)
  exact addNode_mem g _

theorem foldl_baseStep_nodes (l : List TaskSpec) (g0 : G) :
    (∀ x ∈ g0.nodes, x ∈ (l.foldl crBaseStep g0).nodes) ∧ (∀ t ∈ l, tv t.id ∈ (l.foldl crBaseStep g0).nodes) := by
  induction l generalizing g0 with
  | nil => exact ⟨fun x hx => hx, fun t ht => by cases ht⟩
  | cons a l ih =>
    obtain ⟨h1, h2⟩ := ih (crBaseStep g0 a)
    refine ⟨fun x hx => h1 x (crBaseStep_nodes_mono g0 a x hx), ?_⟩
    intro t ht
    rcases List.mem_cons.1 ht with rfl | ht
    · exact h1 _ (crBaseStep_self g0 t)
    · exact h2 t ht

theorem afterStep_nodes_mono (g : G) (t : TaskSpec) (x : Nat) (hx : x ∈ g.nodes) : x ∈ (afterStep g t).nodes := by
  unfold afterStep
  generalize t.after = os
  induction os generalizing g with
  | nil => exact hx
  | cons o os ih =>
    rw [List.foldl_cons]
    apply ih
    split
    · exact hx
    · exact foldl_addEdge_nodes_mono _ (fun s => s) (fun _ => tv t.id) g x hx

theorem modifyDag_nodes_mono (P : Project) (g : G) (x : Nat) (hx : x ∈ g.nodes) : x ∈ (modifyDag P g).nodes := by
  rw [modifyDag_eq]
  generalize P.tasks = l
  induction l generalizing g with
  | nil => exact hx
  | cons t l ih => exact ih _ (afterStep_nodes_mono g t x hx)

/-- a loop that ended because the scheduler had nothing left has processed every task -/
theorem all_picked (F : BodyFn) {P : Project} {cfg cfg0 : Cfg} {g : G} {marks : List Nat}
    (hdag : createDag P cfg0 = .ok (g, marks)) (so so' : Sorter) (s s' : Sess) (picks : List Nat)
    (hso : Sorter.fromDag g isTaskV (prioFn P) = .ok so) (hb : buildLoop F P g cfg so s picks = .ok (so', s'))
    (hin : so'.isActive = false) : ∀ t ∈ P.tasks, t.id ∈ picks := by
  intro t ht
  have hg := createDag_graph P cfg0 g marks hdag
  have hnode : tv t.id ∈ so.nodes := by
    rw [fromDag_nodes hso, List.mem_filter]
    refine ⟨?_, cr_isTaskV_tv _⟩
    rw [hg]
    apply modifyDag_nodes_mono
    rw [baseGraph_eq]
    exact (foldl_baseStep_nodes P.tasks G.empty).2 t ht
  have hn := buildLoop_nodes F P g cfg picks so s so' s' hb
  have hempty : so'.nodes = [] := by
    unfold isActive at hin
    simpa using hin
  rw [hempty] at hn
  have := List.filter_eq_nil_iff.1 hn.symm (tv t.id) hnode
  simp only [Bool.not_eq_true, Bool.not_eq_false', List.contains_eq_mem, List.mem_map, decide_eq_true_eq] at this
  obtain ⟨x, hx, hxe⟩ := this
  rw [← tv_inj hxe]; exact hx

theorem deselected_none (P : Project) (g : G) (cfg : Cfg) (hk : cfg.selK = none) (hm : cfg.selM = none) :
    deselected P g cfg = [] := by
  unfold deselected
  simp [hk, hm]


theorem createDag_marks (P : Project) (cfg : Cfg) (g : G) (marks : List Nat) (h : createDag P cfg = .ok (g, marks)) :
    marks = deselected P g cfg := by
  rw [createDag_unfold] at h
  split at h
  · cases h
  split at h
  · cases h
  split at h
  · cases h
  simp only [Except.ok.injEq, Prod.mk.injEq, List.nil_append] at h
  rw [← h.2, h.1]

/-- `build` is `buildLoop` on the graph of `createDag` and the sorter of `from_dag`, plus the exit code. -/
theorem build_ok_loop (F : BodyFn) (P : Project) (cfg : Cfg) (w : World) (picks : List Nat) (r : Result) (g : G)
    (marks : List Nat) (so0 : Sorter) (hdag : createDag P cfg = .ok (g, marks))
    (hso : Sorter.fromDag g isTaskV (prioFn P) = .ok so0) (hb : build F P cfg w picks = .ok r) :
    ∃ so' s', buildLoop F P g cfg so0 { w := w, skipMarks := marks } picks = .ok (so', s') ∧ r.w = s'.w ∧ r.log = s'.log ∧
      r.exit = (if s'.crashed then ladderCode "Exception"
                else if s'.reports.any (fun r => r.2 == .fail) then ladderCode "ExecutionError" else exitCode "OK") ∧
      r.complete = (s'.stop || s'.crashed || !so'.isActive) := by
  unfold build at hb
  simp only [hdag, hso] at hb
  cases hl : buildLoop F P g cfg so0 { w := w, skipMarks := marks } picks with
  | error e => simp only [hl] at hb; cases hb
  | ok res =>
    obtain ⟨so', s'⟩ := res
    simp only [hl] at hb
    cases hb
    exact ⟨so', s', rfl, rfl, rfl, rfl, rfl⟩

theorem exit_zero {crashed failed : Bool}
    (h : (if crashed then ladderCode "Exception" else if failed then ladderCode "ExecutionError" else exitCode "OK") = 0) :
    crashed = false ∧ failed = false := by
  cases crashed <;> cases failed <;> simp at h ⊢ <;> exact absurd h (by decide)

end Engine
end Pytask
