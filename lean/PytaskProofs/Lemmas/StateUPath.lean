import PytaskModel.Generated
/-!
# State of a path node whose path is a `UPath` with a protocol (`nodes._get_state`, branch `UPathStatResult`)

The engine model M6 takes "state = content id" for every node. That is the local branch of `_get_state`
(`hash_path(path, mtime)`, C12). The other branch — a `UPath` with a protocol, whose `stat()` is a
`UPathStatResult` — returns `stat.as_info().get(upathStateKey, upathNoEtagState)`: the file system's ETag if it
reports one, else a constant. Both facts are read from the source by the translator (`harness/extract_state.py`).
-/
namespace Pytask

/-- What the file system tells about a file: its ETag (if it has such a notion) — next to the content id and the
modification time, which this branch does not look at. -/
structure UFile where
  etag : Option String
  content : Nat
  mtime : Nat

/-- `_get_state` on an existing protocol-UPath. -/
def upathState (f : UFile) : String := f.etag.getD Generated.upathNoEtagState

end Pytask
