import PytaskModel.Generated
import PytaskProofs.Lemmas.HashValue
/-!
# State of a path node whose path is a `UPath` with a protocol (`nodes._get_state`, branch `UPathStatResult`)

The engine model M6 takes "state = content id" for every node. For local paths that is justified by the local branch of
`_get_state` (`hash_path(path, mtime)`, C12: `stateOfFile`). A `UPath` with a protocol, whose `stat()` is a
`UPathStatResult`, takes the other branch: the file system's ETag if it reports one, else — since the repair of finding F61 —
`hash_path(path, stat.st_mtime)` again, i.e. the same memoised content hash as for local paths. Which of the two the code does
is read from the source by the translator (`harness/extract_state.py`: `Generated.upathNoEtagKind`).
-/
namespace Pytask.Hash

section
variable (sha md5 : Bytes → Str)

/-- `_get_state` on a protocol-UPath. `file = none`: `stat()` raises `FileNotFoundError`; `some (etag, h, c)`: the file system's
ETag for the file (if it has such a notion), `hash(st_mtime) = h`, and the bytes `c`. -/
def upathStateOf (memo : Memo) (path : Str) (file : Option (Option Str × Int × Bytes)) : Memo × Option Str :=
  match file with
  | none => (memo, none)
  | some (some etag, _, _) => (memo, some etag)
  | some (none, mh, c) =>
    if Generated.upathNoEtagKind = "hashPathMtime" then stateOfFile sha md5 memo path (some (mh, c))
    else (memo, some Generated.upathNoEtagConst.toList)

/-- Without ETag the state is the one of a local file: the memoised content hash. -/
theorem upathStateOf_noEtag (memo : Memo) (p : Str) (mh : Int) (c : Bytes) :
    upathStateOf sha md5 memo p (some (none, mh, c)) = stateOfFile sha md5 memo p (some (mh, c)) := by
  unfold upathStateOf
  simp only [show (Generated.upathNoEtagKind = "hashPathMtime") = True from by decide, if_true]

/-- the local-file lemma (C12 `state_content_partial`): with a coherent memo the state is the digest of the current bytes -/
theorem stateOfFile_coherent (memo : Memo) (W : World) (hc : MemoCoherent sha md5 memo W)
    (p : Str) (mh : Int) (c : Bytes) (hp : W p = some (mh, c)) :
    (stateOfFile sha md5 memo p (some (mh, c))).2 = some (sha c) := by
  rw [stateOfFile_some]
  cases hg : memo.get (memoKey sha md5 p mh) with
  | none => rfl
  | some v => simp only; rw [hc p mh c v hp hg]

end

end Pytask.Hash
