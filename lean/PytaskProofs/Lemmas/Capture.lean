import PytaskModel.Capture
/-!
# Lemmas for M10 (`PytaskModel/Capture.lean`)

Layer 1: the descriptor table and the file store through their observations `fd`, `count`, `file`.
Layer 2: effect of one task window per capture method.
Layer 3: the state between windows (`Ready…`) and its preservation by every operation of a build.
-/
namespace Pytask.Capture

/-! ## Layer 1 — lists -/

theorem getD_tset (t : List (Option Nat)) (i j : Nat) (v : Option Nat) :
    (tset t i v).getD j none = if j = i then v else t.getD j none := by
  unfold tset
  simp only [List.getD_eq_getElem?_getD]
  split
  · grind
  · simp only [List.getElem?_append, List.getElem?_replicate, List.length_append, List.length_replicate]
    grind

theorem getD_fset (l : List Data) (f g : Nat) (d : Data) :
    (fset l f d).getD g [] = if g = f then d else l.getD g [] := by
  unfold fset
  simp only [List.getD_eq_getElem?_getD]
  split
  · grind
  · simp only [List.getElem?_append, List.getElem?_replicate, List.length_append, List.length_replicate]
    grind

theorem length_fset_ge (l : List Data) (f : Nat) (d : Data) : l.length ≤ (fset l f d).length := by
  unfold fset; split <;> simp

theorem countP_tset (t : List (Option Nat)) (i : Nat) (v : Option Nat) :
    (tset t i v).countP (fun x => x.isSome) + (if (t.getD i none).isSome then 1 else 0)
      = t.countP (fun x => x.isSome) + (if v.isSome then 1 else 0) := by
  unfold tset
  split
  · rename_i h
    induction t generalizing i with
    | nil => simp at h
    | cons a t ih =>
      cases i with
      | zero => simp [List.countP_cons]; grind
      | succ i =>
        have := ih i (by simpa using h)
        simp [List.countP_cons] at this ⊢
        omega
  · rename_i h
    have : t.getD i none = none := by simp [List.getD_eq_getElem?_getD]; grind
    rw [this]
    simp [List.countP_append, List.countP_replicate]

theorem getD_findIdx_isNone (t : List (Option Nat)) : t.getD (t.findIdx (fun x => x.isNone)) none = none := by
  by_cases h : t.findIdx (fun x => x.isNone) < t.length
  · have := List.findIdx_getElem (w := h)
    simp [List.getD_eq_getElem?_getD, List.getElem?_eq_getElem h]
    simpa using this
  · simp [List.getD_eq_getElem?_getD]; grind

/-! ## Layer 1 — `OS` -/

namespace OS

@[simp] theorem fd_setFd (o : OS) (i j : Nat) (v : Option Nat) :
    (o.setFd i v).fd j = if j = i then v else o.fd j := getD_tset _ _ _ _

@[simp] theorem files_setFd (o : OS) (i : Nat) (v : Option Nat) : (o.setFd i v).files = o.files := rfl
@[simp] theorem file_setFd (o : OS) (i f : Nat) (v : Option Nat) : (o.setFd i v).file f = o.file f := rfl

theorem count_setFd (o : OS) (i : Nat) (v : Option Nat) :
    (o.setFd i v).count + (if (o.fd i).isSome then 1 else 0) = o.count + (if v.isSome then 1 else 0) :=
  countP_tset _ _ _

@[simp] theorem fd_free (o : OS) : o.fd o.free = none := getD_findIdx_isNone _

@[simp] theorem fd_setFile (o : OS) (f i : Nat) (d : Data) : (o.setFile f d).fd i = o.fd i := rfl
@[simp] theorem count_setFile (o : OS) (f : Nat) (d : Data) : (o.setFile f d).count = o.count := rfl
@[simp] theorem free_setFile (o : OS) (f : Nat) (d : Data) : (o.setFile f d).free = o.free := rfl
@[simp] theorem file_setFile (o : OS) (f g : Nat) (d : Data) :
    (o.setFile f d).file g = if g = f then d else o.file g := getD_fset _ _ _ _
theorem length_setFile (o : OS) (f : Nat) (d : Data) : o.files.length ≤ (o.setFile f d).files.length :=
  length_fset_ge _ _ _

/-- descriptors 0, 1, 2 are open -/
structure Std3 (o : OS) : Prop where
  h0 : ∃ f, o.fd 0 = some f
  h1 : ∃ f, o.fd 1 = some f
  h2 : ∃ f, o.fd 2 = some f

theorem free_ge3 (o : OS) (h : Std3 o) : 3 ≤ o.free := by
  have hf := o.fd_free
  obtain ⟨f0, e0⟩ := h.h0
  obtain ⟨f1, e1⟩ := h.h1
  obtain ⟨f2, e2⟩ := h.h2
  by_cases c0 : o.free = 0; · rw [c0, e0] at hf; cases hf
  by_cases c1 : o.free = 1; · rw [c1, e1] at hf; cases hf
  by_cases c2 : o.free = 2; · rw [c2, e2] at hf; cases hf
  omega

@[simp] theorem dup_snd (o : OS) (s : Nat) : (o.dup s).2 = o.free := rfl
@[simp] theorem dup_fst (o : OS) (s : Nat) : (o.dup s).1 = o.setFd o.free (o.fd s) := rfl
@[simp] theorem close_eq (o : OS) (i : Nat) : o.close i = o.setFd i none := rfl
@[simp] theorem openNew_snd (o : OS) : o.openNew.2 = o.free := rfl
@[simp] theorem fd_openNew (o : OS) (j : Nat) :
    o.openNew.1.fd j = if j = o.free then some o.files.length else o.fd j := getD_tset _ _ _ _
@[simp] theorem file_openNew (o : OS) (f : Nat) : o.openNew.1.file f = o.file f := by
  simp only [openNew, file, List.getD_eq_getElem?_getD, List.getElem?_append]
  grind
@[simp] theorem length_openNew (o : OS) : o.openNew.1.files.length = o.files.length + 1 := by
  simp [openNew]
theorem count_openNew (o : OS) : o.openNew.1.count = o.count + 1 := by
  have := countP_tset o.fdt o.free (some o.files.length)
  have hf : o.fdt.getD o.free none = none := o.fd_free
  rw [hf] at this
  simpa [openNew, count] using this

theorem dup2_of_some (o : OS) (s d f : Nat) (h : o.fd s = some f) : o.dup2 s d = o.setFd d (some f) := by
  simp [dup2, h]

theorem write_of_some (o : OS) (i f : Nat) (d : Data) (h : o.fd i = some f) :
    o.write i d = o.setFile f (o.file f ++ d) := by
  simp [write, h]

theorem snap_of_some (o : OS) (i f : Nat) (h : o.fd i = some f) : o.snap i = (o.setFile f [], o.file f) := by
  simp [snap, h]

end OS

/-! ## Layer 2 — bridge to `Generated`, capture objects, one window (fd) -/

theorem taskCaptureCalls_eq : taskCaptureCalls = [.resume, .yield, .suspend false, .read, .section false, .section true] := by decide
theorem postParseCalls_eq : postParseCalls = [.stop, .start, .suspend false] := by decide
theorem collectLogCalls_eq : collectLogCalls = [.suspend true, .yield] := by decide
theorem ctorsOf_fd : ctorsOf .fd = [("fd", 0), ("fd", 1), ("fd", 2)] := by decide
theorem ctorsOf_sys : ctorsOf .sys = [("sys", 0), ("sys", 1), ("sys", 2)] := by decide
theorem ctorsOf_no : ctorsOf .no = [("none", 0), ("none", 0), ("none", 0)] := by decide
theorem ctorsOf_tee : ctorsOf .teeSys = [("none", 0), ("tee", 1), ("tee", 2)] := by decide

/-- an `FDCapture` whose target was valid at construction -/
def fdCap (target save pyfd oid : Nat) (sc : SysCap) (s : CapState) : FdCap :=
  { target := target, save := save, invalid := none, tmp := .file oid pyfd, pyfd := pyfd, sysc := some sc, state := s }

theorem FdCap.resume_susp (w : W) (target save pyfd oid : Nat) (old tmp : Stream) :
    FdCap.resume w (fdCap target save pyfd oid ⟨target, some old, tmp, .suspended⟩ .suspended)
      = ({ w with py := w.py.setStd target tmp, os := w.os.dup2 pyfd target },
         fdCap target save pyfd oid ⟨target, some old, tmp, .started⟩ .started) := by
  simp [FdCap.resume, fdCap, optSys, SysCap.resume, W.setStd]

theorem FdCap.suspend_started (w : W) (target save pyfd oid : Nat) (old tmp : Stream) :
    FdCap.suspend w (fdCap target save pyfd oid ⟨target, some old, tmp, .started⟩ .started)
      = ({ w with py := w.py.setStd target old, os := w.os.dup2 save target },
         fdCap target save pyfd oid ⟨target, some old, tmp, .suspended⟩ .suspended) := by
  simp [FdCap.suspend, fdCap, optSys, SysCap.suspend, W.setStd]

theorem FdCap.snap_live (w : W) (target save pyfd oid : Nat) (sc : SysCap) (s : CapState)
    (hs : s = .started ∨ s = .suspended) :
    FdCap.snap w (fdCap target save pyfd oid sc s)
      = ({ w with os := (w.os.snap pyfd).1 }, (w.os.snap pyfd).2) := by
  rcases hs with rfl | rfl <;> simp [FdCap.snap, fdCap]

/-! ### text selectors -/
def outText (sel : Chan → Bool) (ws : List Write) : Data := (ws.filter (fun x => sel x.chan)).flatMap (·.data)

@[simp] theorem outText_nil (sel : Chan → Bool) : outText sel [] = [] := rfl
theorem outText_cons (sel : Chan → Bool) (x : Write) (ws : List Write) :
    outText sel (x :: ws) = (if sel x.chan then x.data else []) ++ outText sel ws := by
  unfold outText; by_cases h : sel x.chan <;> simp [h]

/-- sections one window appends -/
def secsOf (task : Nat) (when : String) (out err : Data) : List Sec :=
  (if out.isEmpty then [] else [⟨task, when, false, out⟩]) ++ (if err.isEmpty then [] else [⟨task, when, true, err⟩])

/-- parameters of a live fd-mode MultiCapture -/
structure FdP where
  si : Nat
  pi : Nat
  oi : Nat
  oi' : Nat
  so : Nat
  po : Nat
  oo : Nat
  se : Nat
  pe : Nat
  oe : Nat
  t0 : Nat
  t1 : Nat
  t2 : Nat
  g0 : Nat
  g1 : Nat
  g2 : Nat
  sin : Stream      -- `sys.stdin` at construction

def fdMC (p : FdP) (ins : CapState) : MC :=
  { in_ := some (.fd (fdCap 0 p.si p.pi p.oi ⟨0, some p.sin, .dontRead p.oi', ins⟩ ins)),
    out := some (.fd (fdCap 1 p.so p.po p.oo ⟨1, some (.orig 1), .file p.oo p.po, .suspended⟩ .suspended)),
    err := some (.fd (fdCap 2 p.se p.pe p.oe ⟨2, some (.orig 2), .file p.oe p.pe, .suspended⟩ .suspended)),
    state := .suspended,
    inSuspended := ins == .suspended }

/-- the state between two windows of an fd-mode build; `ins` tells whether stdin is currently redirected -/
structure FdReady (st : St) (p : FdP) (ins : CapState) : Prop where
  cm : st.cm = some ⟨.fd, some (fdMC p ins)⟩
  ins_ok : ins = .started ∨ ins = .suspended
  ge : 3 ≤ p.si ∧ 3 ≤ p.pi ∧ 3 ≤ p.so ∧ 3 ≤ p.po ∧ 3 ≤ p.se ∧ 3 ≤ p.pe
  fd1 : st.w.os.fd 1 = some p.t1
  fd2 : st.w.os.fd 2 = some p.t2
  fso : st.w.os.fd p.so = some p.t1
  fse : st.w.os.fd p.se = some p.t2
  fsi : st.w.os.fd p.si = some p.t0
  fpo : st.w.os.fd p.po = some p.g1
  fpe : st.w.os.fd p.pe = some p.g2
  fpi : st.w.os.fd p.pi = some p.g0
  fd0 : st.w.os.fd 0 = some (if ins = .suspended then p.t0 else p.g0)
  sin : st.w.py.stdin = if ins = .suspended then p.sin else .dontRead p.oi'
  sout : st.w.py.stdout = .orig 1
  serr : st.w.py.stderr = .orig 2
  e1 : st.w.os.file p.g1 = []
  e2 : st.w.os.file p.g2 = []
  ne : p.g1 ≠ p.g2
  nofault : st.w.fault = false
  dist : [p.si, p.pi, p.so, p.po, p.se, p.pe].Nodup

theorem whenOf_call : whenOf "pytask_execute_task" = "call" := by decide

/-- effect of the writes of one window in fd mode -/
theorem doWrites_fd (ws : List Write) (w : W) (po pe oo oe g1 g2 : Nat)
    (h1 : w.os.fd 1 = some g1) (h2 : w.os.fd 2 = some g2) (hpo : w.os.fd po = some g1) (hpe : w.os.fd pe = some g2)
    (so : w.py.stdout = .file oo po) (se : w.py.stderr = .file oe pe) :
    (doWrites w ws).os.fdt = w.os.fdt ∧ (doWrites w ws).py = w.py ∧ (doWrites w ws).fault = w.fault ∧
    ∀ f, (doWrites w ws).os.file f = w.os.file f ++
      outText (fun c => (!c.isErr && g1 == f) || (c.isErr && g2 == f)) ws := by
  induction ws generalizing w with
  | nil => simp [doWrites]
  | cons x ws ih =>
    have key : ∃ g, doWrite w x = { w with os := w.os.setFile g (w.os.file g ++ x.data) } ∧ g = (if x.chan.isErr then g2 else g1) := by
      cases hx : x.chan <;> simp [doWrite, hx, writePy, W.osWrite, so, se, OS.write, h1, h2, hpo, hpe, Chan.isErr]
    obtain ⟨g, hk, hg⟩ := key
    have := ih (doWrite w x) (by rw [hk]; simpa using h1) (by rw [hk]; simpa using h2) (by rw [hk]; simpa using hpo) (by rw [hk]; simpa using hpe)
      (by rw [hk]; simpa using so) (by rw [hk]; simpa using se)
    simp only [doWrites, List.foldl_cons] at this ⊢
    obtain ⟨a, b, c, d⟩ := this
    refine ⟨by rw [a, hk]; rfl, by rw [b, hk], by rw [c, hk], ?_⟩
    intro f
    rw [d f, hk, outText_cons]
    simp only [OS.file_setFile, hg]
    cases hx : x.chan.isErr <;> by_cases hf1 : g1 = f <;> by_cases hf2 : g2 = f <;> simp_all
    all_goals grind


/-- what the hook body of a window may do: write (and, around the task function, push and pop warning filters) -/
def bodyOf (cfg : Cfg) (hook : String) (ws : List Write) (filt : List Nat) : W → W :=
  if hook == "pytask_execute_task" then callBody cfg ws filt else fun w => doWrites w ws

theorem step_phase (cfg : Cfg) (st : St) (t : Nat) (hook : String) (ws : List Write) (filt : List Nat) :
    step cfg st (.phase t hook ws filt) = runCalls t (whenOf hook) (bodyOf cfg hook ws filt) st
      [.resume, .yield, .suspend false, .read, .section false, .section true] := by
  simp [step, taskCapture, taskCaptureCalls_eq, bodyOf]

theorem body_fd (cfg : Cfg) (hook : String) (ws : List Write) (filt : List Nat) (w : W) (po pe oo oe g1 g2 : Nat)
    (h1 : w.os.fd 1 = some g1) (h2 : w.os.fd 2 = some g2) (hpo : w.os.fd po = some g1) (hpe : w.os.fd pe = some g2)
    (so : w.py.stdout = .file oo po) (se : w.py.stderr = .file oe pe) :
    (bodyOf cfg hook ws filt w).os.fdt = w.os.fdt ∧ (bodyOf cfg hook ws filt w).py = w.py ∧
    (bodyOf cfg hook ws filt w).fault = w.fault ∧
    ∀ f, (bodyOf cfg hook ws filt w).os.file f = w.os.file f ++
      outText (fun c => (!c.isErr && g1 == f) || (c.isErr && g2 == f)) ws := by
  unfold bodyOf
  split
  · have := doWrites_fd ws { w with py := { w.py with filters := cfg.cfgFilters ++ w.py.filters } } po pe oo oe g1 g2
      h1 h2 hpo hpe so se
    obtain ⟨a, b, c, d⟩ := this
    simp only [callBody]
    refine ⟨a, ?_, c, d⟩
    simp [b]
  · exact doWrites_fd ws w po pe oo oe g1 g2 h1 h2 hpo hpe so se


attribute [local grind =] OS.fd_setFd OS.fd_setFile OS.file_setFile OS.file_setFd

/-- the same MultiCapture inside a window -/
def fdMCs (p : FdP) : MC :=
  { in_ := some (.fd (fdCap 0 p.si p.pi p.oi ⟨0, some p.sin, .dontRead p.oi', .started⟩ .started)),
    out := some (.fd (fdCap 1 p.so p.po p.oo ⟨1, some (.orig 1), .file p.oo p.po, .started⟩ .started)),
    err := some (.fd (fdCap 2 p.se p.pe p.oe ⟨2, some (.orig 2), .file p.oe p.pe, .started⟩ .started)),
    state := .started,
    inSuspended := false }

theorem resume_fd_started (w : W) (p : FdP) (hpo : w.os.fd p.po = some p.g1) (hpe : w.os.fd p.pe = some p.g2)
    (h4 : 3 ≤ p.pe) :
    MC.resumeCapturing w (fdMC p .started) =
      ({ w with os := (w.os.setFd 1 (some p.g1)).setFd 2 (some p.g2),
                py := { w.py with stdout := .file p.oo p.po, stderr := .file p.oe p.pe } }, fdMCs p) := by
  have hpe' : (w.os.setFd 1 (some p.g1)).fd p.pe = some p.g2 := by grind
  simp [MC.resumeCapturing, fdMC, fdMCs, optCap, Cap.resume, FdCap.resume_susp, Py.setStd,
    OS.dup2_of_some _ _ _ _ hpo, OS.dup2_of_some _ _ _ _ hpe']

theorem resume_fd_susp (w : W) (p : FdP) (hpo : w.os.fd p.po = some p.g1) (hpe : w.os.fd p.pe = some p.g2)
    (hpi : w.os.fd p.pi = some p.g0) (h4 : 3 ≤ p.pe) (h2 : 3 ≤ p.pi) :
    MC.resumeCapturing w (fdMC p .suspended) =
      ({ w with os := ((w.os.setFd 1 (some p.g1)).setFd 2 (some p.g2)).setFd 0 (some p.g0),
                py := { w.py with stdout := .file p.oo p.po, stderr := .file p.oe p.pe, stdin := .dontRead p.oi' } }, fdMCs p) := by
  have hpe' : (w.os.setFd 1 (some p.g1)).fd p.pe = some p.g2 := by grind
  have hpi' : ((w.os.setFd 1 (some p.g1)).setFd 2 (some p.g2)).fd p.pi = some p.g0 := by grind
  simp [MC.resumeCapturing, fdMC, fdMCs, optCap, Cap.resume, FdCap.resume_susp, Py.setStd,
    OS.dup2_of_some _ _ _ _ hpo, OS.dup2_of_some _ _ _ _ hpe', OS.dup2_of_some _ _ _ _ hpi']

theorem suspend_fd (w : W) (p : FdP) (hso : w.os.fd p.so = some p.t1) (hse : w.os.fd p.se = some p.t2) (h5 : 3 ≤ p.se) :
    MC.suspendCapturing w (fdMCs p) false =
      ({ w with os := (w.os.setFd 1 (some p.t1)).setFd 2 (some p.t2),
                py := { w.py with stdout := .orig 1, stderr := .orig 2 } }, fdMC p .started) := by
  have hse' : (w.os.setFd 1 (some p.t1)).fd p.se = some p.t2 := by grind
  simp [MC.suspendCapturing, fdMC, fdMCs, optCap, Cap.suspend, FdCap.suspend_started, Py.setStd,
    OS.dup2_of_some _ _ _ _ hso, OS.dup2_of_some _ _ _ _ hse']

theorem read_fd (w : W) (p : FdP) (ins : CapState)
    (hpo : w.os.fd p.po = some p.g1) (hpe : w.os.fd p.pe = some p.g2) :
    MC.readouterr w (fdMC p ins) =
      ({ w with os := (w.os.setFile p.g1 []).setFile p.g2 [] }, w.os.file p.g1, (w.os.setFile p.g1 []).file p.g2) := by
  have hpe' : (w.os.setFile p.g1 []).fd p.pe = some p.g2 := by simpa using hpe
  simp [MC.readouterr, MC.snapOpt, fdMC, Cap.snap, FdCap.snap_live _ _ _ _ _ _ _ (Or.inr rfl),
    OS.snap_of_some _ _ _ hpo, OS.snap_of_some _ _ _ hpe']

theorem W.eta_files (w w' : W) (h1 : w'.os.fdt = w.os.fdt) (h2 : w'.py = w.py) (h3 : w'.fault = w.fault) :
    w' = { w with os := { w.os with files := w'.os.files } } := by
  cases w; cases w'; rename_i o p f o' p' f'; cases o; cases o'; simp_all

theorem secs_step (t : Nat) (wh : String) (body : W → W) (st : St) (out err : Data) :
    (runCall t wh body (runCall t wh body { st := st, out := out, err := err } (.section false)) (.section true)).st
      = { st with secs := st.secs ++ secsOf t wh out err } := by
  unfold secsOf
  by_cases h1 : out.isEmpty <;> by_cases h2 : err.isEmpty <;> simp [runCall, h1, h2]

theorem outText_congr (s1 s2 : Chan → Bool) (ws : List Write) (h : ∀ c, s1 c = s2 c) : outText s1 ws = outText s2 ws := by
  have : s1 = s2 := funext h
  rw [this]

theorem OS.count_setFd_some (o : OS) (i f g : Nat) (h : o.fd i = some f) : (o.setFd i (some g)).count = o.count := by
  have := o.count_setFd i (some g)
  simp [h] at this
  exact this

theorem fd_ge3 {o o' : OS} {a b c : Option Nat}
    (h : ∀ j, o'.fd j = if j = 0 then a else if j = 2 then b else if j = 1 then c else o.fd j) (j : Nat) (hj : 3 ≤ j) :
    o'.fd j = o.fd j := by
  rw [h, if_neg (by omega), if_neg (by omega), if_neg (by omega)]

/-- the world after suspend + read, in terms of the world `wB` the hook body left -/
def fdAfter (wB : W) (p : FdP) : W :=
  { wB with os := (((wB.os.setFd 1 (some p.t1)).setFd 2 (some p.t2)).setFile p.g1 []).setFile p.g2 []
            py := { wB.py with stdout := .orig 1, stderr := .orig 2 } }

theorem phase_fd (cfg : Cfg) (st : St) (p : FdP) (ins : CapState) (h : FdReady st p ins)
    (t : Nat) (hook : String) (ws : List Write) (filt : List Nat) :
    FdReady (step cfg st (.phase t hook ws filt)) p .started ∧
    (step cfg st (.phase t hook ws filt)).secs = st.secs ++
      secsOf t (whenOf hook) (outText (fun c => !c.isErr) ws) (outText (fun c => c.isErr) ws) ∧
    (∀ f, f ≠ p.g1 → f ≠ p.g2 → (step cfg st (.phase t hook ws filt)).w.os.file f = st.w.os.file f) ∧
    (step cfg st (.phase t hook ws filt)).w.os.count = st.w.os.count ∧
    (step cfg st (.phase t hook ws filt)).tasks = st.tasks ∧
    (step cfg st (.phase t hook ws filt)).collectFailed = st.collectFailed ∧
    (step cfg st (.phase t hook ws filt)).w.py = { st.w.py with stdin := .dontRead p.oi' } ∧
    (∀ j, 3 ≤ j → (step cfg st (.phase t hook ws filt)).w.os.fd j = st.w.os.fd j) := by
  rw [step_phase]
  obtain ⟨hcm, hins, ⟨g1, g2, g3, g4, g5, g6⟩, fd1, fd2, fso, fse, fsi, fpo, fpe, fpi, fd0, sin, sout, serr, e1, e2, ne, nf, hdist⟩ := h
  -- the world after `resume`
  obtain ⟨wR, hR, hRfd, hRfiles, hRcount, hRpy, hRfault⟩ : ∃ wR, MC.resumeCapturing st.w (fdMC p ins) = (wR, fdMCs p) ∧
      (∀ j, wR.os.fd j = if j = 0 then some p.g0 else if j = 2 then some p.g2 else if j = 1 then some p.g1 else st.w.os.fd j) ∧
      wR.os.files = st.w.os.files ∧ wR.os.count = st.w.os.count ∧
      wR.py = { st.w.py with stdout := .file p.oo p.po, stderr := .file p.oe p.pe, stdin := .dontRead p.oi' } ∧ wR.fault = st.w.fault := by
    rcases hins with rfl | rfl
    · refine ⟨_, resume_fd_started st.w p fpo fpe g6, ?_, rfl, ?_, ?_, rfl⟩
      · intro j; simp at fd0; grind
      · simp only []
        rw [OS.count_setFd_some _ 2 p.t2 _ (by grind), OS.count_setFd_some _ 1 p.t1 _ fd1]
      · simp at sin; simp [← sin]
    · refine ⟨_, resume_fd_susp st.w p fpo fpe fpi g6 g2, ?_, rfl, ?_, rfl, rfl⟩
      · intro j; grind
      · simp only [] at fd0 ⊢
        rw [OS.count_setFd_some _ 0 p.t0 _ (by grind), OS.count_setFd_some _ 2 p.t2 _ (by grind), OS.count_setFd_some _ 1 p.t1 _ fd1]
  -- the hook body
  have r1 : wR.os.fd 1 = some p.g1 := by simpa using hRfd 1
  have r2 : wR.os.fd 2 = some p.g2 := by simpa using hRfd 2
  have r0 : wR.os.fd 0 = some p.g0 := by simpa using hRfd 0
  have rpo : wR.os.fd p.po = some p.g1 := by rw [fd_ge3 hRfd _ g4, fpo]
  have rpe : wR.os.fd p.pe = some p.g2 := by rw [fd_ge3 hRfd _ g6, fpe]
  have rso : wR.os.fd p.so = some p.t1 := by rw [fd_ge3 hRfd _ g3, fso]
  have rse : wR.os.fd p.se = some p.t2 := by rw [fd_ge3 hRfd _ g5, fse]
  have rsi : wR.os.fd p.si = some p.t0 := by rw [fd_ge3 hRfd _ g1, fsi]
  have rpi : wR.os.fd p.pi = some p.g0 := by rw [fd_ge3 hRfd _ g2, fpi]
  have hB := body_fd cfg hook ws filt wR p.po p.pe p.oo p.oe p.g1 p.g2 r1 r2 rpo rpe
    (by rw [hRpy]) (by rw [hRpy])
  obtain ⟨hBfdt, hBpy, hBfault, hBfile⟩ := hB
  generalize hwB : bodyOf cfg hook ws filt wR = wB at *
  have hBfd : ∀ j, wB.os.fd j = wR.os.fd j := by intro j; simp [OS.fd, hBfdt]
  have hBcount : wB.os.count = wR.os.count := by simp [OS.count, hBfdt]
  -- suspend, read
  have hS := suspend_fd wB p (by rw [hBfd, rso]) (by rw [hBfd, rse]) g5
  have hD := read_fd { wB with os := (wB.os.setFd 1 (some p.t1)).setFd 2 (some p.t2),
                               py := { wB.py with stdout := .orig 1, stderr := .orig 2 } } p .started
    (by have := hBfd p.po; grind) (by have := hBfd p.pe; grind)
  have hg1 : wB.os.file p.g1 = outText (fun c => !c.isErr) ws := by
    rw [hBfile, show wR.os.file p.g1 = [] by simp [OS.file, hRfiles]; exact e1]
    simp only [List.nil_append]
    apply outText_congr; intro c; cases c.isErr <;> simp [ne.symm]
  have hg2 : wB.os.file p.g2 = outText (fun c => c.isErr) ws := by
    rw [hBfile, show wR.os.file p.g2 = [] by simp [OS.file, hRfiles]; exact e2]
    simp only [List.nil_append]
    apply outText_congr; intro c; cases c.isErr <;> simp [ne]
  simp only [runCalls, List.foldl_cons, List.foldl_nil]
  have e1' : (runCall t (whenOf hook) (bodyOf cfg hook ws filt)
      (runCall t (whenOf hook) (bodyOf cfg hook ws filt)
        (runCall t (whenOf hook) (bodyOf cfg hook ws filt)
          (runCall t (whenOf hook) (bodyOf cfg hook ws filt) { st := st } .resume) .yield) (.suspend false)) .read)
      = Frame.mk { st with w := fdAfter wB p, cm := some ⟨.fd, some (fdMC p .started)⟩ }
          (outText (fun c => !c.isErr) ws) (outText (fun c => c.isErr) ws) := by
    simp [runCall, withCM, hcm, CM.resume, hR, hwB, CM.suspend, hS, CM.read, hD, hg1, hg2, ne, ne.symm, fdAfter]
  rw [e1', secs_step]
  have fA : ∀ j, (fdAfter wB p).os.fd j = if j = 2 then some p.t2 else if j = 1 then some p.t1 else wR.os.fd j := by
    intro j; simp [fdAfter, hBfd]
  refine ⟨⟨rfl, Or.inl rfl, ⟨g1, g2, g3, g4, g5, g6⟩, ?_, ?_, ?_, ?_, ?_, ?_, ?_, ?_, ?_, ?_, ?_, ?_, ?_, ?_, ne, ?_, hdist⟩, rfl, ?_, ?_, rfl, rfl, ?_, ?_⟩
  · simp [fA]
  · simp [fA]
  · simp only []; rw [fA, if_neg (by omega), if_neg (by omega), rso]
  · simp only []; rw [fA, if_neg (by omega), if_neg (by omega), rse]
  · simp only []; rw [fA, if_neg (by omega), if_neg (by omega), rsi]
  · simp only []; rw [fA, if_neg (by omega), if_neg (by omega), rpo]
  · simp only []; rw [fA, if_neg (by omega), if_neg (by omega), rpe]
  · simp only []; rw [fA, if_neg (by omega), if_neg (by omega), rpi]
  · simp [fA, r0]
  · simp [fdAfter, hBpy, hRpy]
  · simp [fdAfter]
  · simp [fdAfter]
  · simp [fdAfter, ne]
  · simp [fdAfter]
  · simp [fdAfter, hBfault, hRfault, nf]
  · intro f h1 h2
    simp only [fdAfter, OS.file_setFile, OS.file_setFd, if_neg h1, if_neg h2]
    rw [hBfile f, show wR.os.file f = st.w.os.file f by simp [OS.file, hRfiles]]
    have : outText (fun c => !c.isErr && p.g1 == f || c.isErr && p.g2 == f) ws = [] := by
      have : (fun c : Chan => !c.isErr && p.g1 == f || c.isErr && p.g2 == f) = fun _ => false := by
        funext c; simp [Ne.symm h1, Ne.symm h2]
      rw [this]; simp [outText]
    rw [this]; simp
  · simp only [fdAfter, OS.count_setFile]
    rw [OS.count_setFd_some _ 2 p.g2 _ (by simp [hBfd, r2]), OS.count_setFd_some _ 1 p.g1 _ (by simp [hBfd, r1]), hBcount, hRcount]
  · simp [fdAfter, hBpy, hRpy, sout, serr]
  · intro j hj
    simp only []; rw [fA, if_neg (by omega), if_neg (by omega), fd_ge3 hRfd _ hj]

/-! ### sys / tee-sys -/

@[simp] theorem W.buf_setBuf (w : W) (b c : Nat) (d : Data) : (w.setBuf b d).buf c = if c = b then d else w.buf c :=
  getD_fset _ _ _ _
@[simp] theorem W.os_setBuf (w : W) (b : Nat) (d : Data) : (w.setBuf b d).os = w.os := rfl
@[simp] theorem W.fault_setBuf (w : W) (b : Nat) (d : Data) : (w.setBuf b d).fault = w.fault := rfl

structure SysP where
  tee : Bool
  oi : Nat
  oo : Nat
  oe : Nat
  b1 : Nat
  b2 : Nat
  t1 : Nat
  t2 : Nat
  sin : Stream

def SysP.tmpO (p : SysP) : Stream := if p.tee then .teeIO p.oo p.b1 (.orig 1) else .capIO p.oo p.b1
def SysP.tmpE (p : SysP) : Stream := if p.tee then .teeIO p.oe p.b2 (.orig 2) else .capIO p.oe p.b2
def SysP.method (p : SysP) : Method := if p.tee then .teeSys else .sys

def sysMC (p : SysP) (ins : CapState) : MC :=
  { in_ := if p.tee then none else some (.sys ⟨0, some p.sin, .dontRead p.oi, ins⟩),
    out := some (.sys ⟨1, some (.orig 1), p.tmpO, .suspended⟩),
    err := some (.sys ⟨2, some (.orig 2), p.tmpE, .suspended⟩),
    state := .suspended,
    inSuspended := !p.tee && ins == .suspended }

def sysMCs (p : SysP) : MC :=
  { in_ := if p.tee then none else some (.sys ⟨0, some p.sin, .dontRead p.oi, .started⟩),
    out := some (.sys ⟨1, some (.orig 1), p.tmpO, .started⟩),
    err := some (.sys ⟨2, some (.orig 2), p.tmpE, .started⟩),
    state := .started,
    inSuspended := false }

structure SysReady (st : St) (p : SysP) (ins : CapState) : Prop where
  cm : st.cm = some ⟨p.method, some (sysMC p ins)⟩
  ins_ok : ins = .started ∨ ins = .suspended
  fd1 : st.w.os.fd 1 = some p.t1
  fd2 : st.w.os.fd 2 = some p.t2
  sin : p.tee = false → st.w.py.stdin = if ins = .suspended then p.sin else .dontRead p.oi
  sout : st.w.py.stdout = .orig 1
  serr : st.w.py.stderr = .orig 2
  e1 : st.w.buf p.b1 = []
  e2 : st.w.buf p.b2 = []
  ne : p.b1 ≠ p.b2
  nofault : st.w.fault = false

/-- the world after `resume` -/
def sysResumed (w : W) (p : SysP) (ins : CapState) : W :=
  { w with py := { w.py with stdout := p.tmpO
                             stderr := p.tmpE
                             stdin := if !p.tee && ins == .suspended then .dontRead p.oi else w.py.stdin } }

/-- the world after suspend + read, in terms of the world `wB` the hook body left -/
def sysAfter (wB : W) (p : SysP) : W :=
  (({ wB with py := { wB.py with stdout := .orig 1, stderr := .orig 2 } } : W).setBuf p.b1 []).setBuf p.b2 []

theorem resume_sys (w : W) (p : SysP) (ins : CapState) (hins : ins = .started ∨ ins = .suspended) :
    MC.resumeCapturing w (sysMC p ins) = (sysResumed w p ins, sysMCs p) := by
  rcases hins with rfl | rfl <;> cases hp : p.tee <;>
    simp [MC.resumeCapturing, sysMC, sysMCs, optCap, Cap.resume, SysCap.resume, W.setStd, Py.setStd, hp, sysResumed]

theorem suspend_sys (w : W) (p : SysP) :
    MC.suspendCapturing w (sysMCs p) false =
      ({ w with py := { w.py with stdout := .orig 1, stderr := .orig 2 } }, sysMC p .started) := by
  cases hp : p.tee <;>
    simp [MC.suspendCapturing, sysMC, sysMCs, optCap, Cap.suspend, SysCap.suspend, W.setStd, Py.setStd, hp]

theorem read_sys (w : W) (p : SysP) (ins : CapState) :
    MC.readouterr w (sysMC p ins) = ((w.setBuf p.b1 []).setBuf p.b2 [], w.buf p.b1, (w.setBuf p.b1 []).buf p.b2) := by
  cases hp : p.tee <;>
    simp [MC.readouterr, MC.snapOpt, sysMC, Cap.snap, SysCap.snap, SysP.tmpO, SysP.tmpE, hp]

/-- same descriptor table, same interpreter state except buffer contents, same fault flag -/
def SameShape (w w' : W) : Prop := w'.os.fdt = w.os.fdt ∧ w'.fault = w.fault ∧ ∃ B, w'.py = { w.py with bufs := B }

theorem SameShape.refl (w : W) : SameShape w w := ⟨rfl, rfl, w.py.bufs, rfl⟩
theorem SameShape.trans {a b c : W} (h1 : SameShape a b) (h2 : SameShape b c) : SameShape a c := by
  obtain ⟨x1, y1, B1, z1⟩ := h1
  obtain ⟨x2, y2, B2, z2⟩ := h2
  exact ⟨x2.trans x1, y2.trans y1, B2, by rw [z2, z1]⟩
theorem SameShape.fd {a b : W} (h : SameShape a b) (i : Nat) : b.os.fd i = a.os.fd i := by simp [OS.fd, h.1]
theorem SameShape.count {a b : W} (h : SameShape a b) : b.os.count = a.os.count := by simp [OS.count, h.1]
theorem SameShape.stdout {a b : W} (h : SameShape a b) : b.py.stdout = a.py.stdout := by
  obtain ⟨_, _, B, z⟩ := h; rw [z]
theorem SameShape.stderr {a b : W} (h : SameShape a b) : b.py.stderr = a.py.stderr := by
  obtain ⟨_, _, B, z⟩ := h; rw [z]

theorem sameShape_bufAppend (w : W) (b : Nat) (d : Data) : SameShape w (w.bufAppend b d) :=
  ⟨rfl, rfl, _, rfl⟩
theorem sameShape_osWrite (w : W) (i : Nat) (d : Data) : SameShape w (w.osWrite i d) := by
  refine ⟨?_, rfl, w.py.bufs, rfl⟩
  simp only [W.osWrite, OS.write]; split <;> rfl

@[simp] theorem buf_bufAppend (w : W) (b c : Nat) (d : Data) :
    (w.bufAppend b d).buf c = w.buf c ++ (if b = c then d else []) := by
  simp only [W.bufAppend, W.buf_setBuf]; by_cases h : c = b
  · subst h; simp
  · simp [h, Ne.symm h]
@[simp] theorem file_bufAppend (w : W) (b f : Nat) (d : Data) : (w.bufAppend b d).os.file f = w.os.file f := rfl
@[simp] theorem buf_osWrite (w : W) (i c : Nat) (d : Data) : (w.osWrite i d).buf c = w.buf c := rfl
theorem file_osWrite (w : W) (i f g : Nat) (d : Data) (h : w.os.fd i = some f) :
    (w.osWrite i d).os.file g = w.os.file g ++ (if f = g then d else []) := by
  simp only [W.osWrite, OS.write_of_some _ _ _ _ h, OS.file_setFile]; by_cases e : g = f
  · subst e; simp
  · simp [e, Ne.symm e]

/-- effect of the writes of one window in sys / tee-sys mode -/
theorem doWrites_sys (ws : List Write) (w : W) (p : SysP)
    (h1 : w.os.fd 1 = some p.t1) (h2 : w.os.fd 2 = some p.t2) (so : w.py.stdout = p.tmpO) (se : w.py.stderr = p.tmpE) :
    SameShape w (doWrites w ws) ∧
    (∀ b, (doWrites w ws).buf b = w.buf b ++
      outText (fun c => (c == .pyOut && p.b1 == b) || (c == .pyErr && p.b2 == b)) ws) ∧
    ∀ f, (doWrites w ws).os.file f = w.os.file f ++
      outText (fun c => (p.tee || !c.isPy) && ((!c.isErr && p.t1 == f) || (c.isErr && p.t2 == f))) ws := by
  induction ws generalizing w with
  | nil => exact ⟨SameShape.refl w, by simp [doWrites], by simp [doWrites]⟩
  | cons x ws ih =>
    have key : SameShape w (doWrite w x) ∧
        (∀ b, (doWrite w x).buf b = w.buf b ++ (if (x.chan == .pyOut && p.b1 == b) || (x.chan == .pyErr && p.b2 == b) then x.data else [])) ∧
        (∀ f, (doWrite w x).os.file f = w.os.file f ++
          (if (p.tee || !x.chan.isPy) && ((!x.chan.isErr && p.t1 == f) || (x.chan.isErr && p.t2 == f)) then x.data else [])) := by
      cases hx : x.chan <;> cases hp : p.tee <;>
        simp only [doWrite, hx, writePy, so, se, SysP.tmpO, SysP.tmpE, hp, if_true, if_false, Bool.false_eq_true]
      · -- pyOut, sys
        exact ⟨sameShape_bufAppend _ _ _, by intro b; simp, by intro f; simp [Chan.isPy]⟩
      · -- pyOut, tee
        refine ⟨(sameShape_bufAppend _ _ _).trans (sameShape_osWrite _ _ _), by intro b; simp, ?_⟩
        intro f; rw [file_osWrite _ 1 p.t1 f _ (show (w.bufAppend p.b1 x.data).os.fd 1 = some p.t1 from h1)]; simp [Chan.isErr]
      · exact ⟨sameShape_bufAppend _ _ _, by intro b; simp, by intro f; simp [Chan.isPy]⟩
      · refine ⟨(sameShape_bufAppend _ _ _).trans (sameShape_osWrite _ _ _), by intro b; simp, ?_⟩
        intro f; rw [file_osWrite _ 2 p.t2 f _ (show (w.bufAppend p.b2 x.data).os.fd 2 = some p.t2 from h2)]; simp [Chan.isErr]
      all_goals first
        | exact ⟨sameShape_osWrite _ _ _, by intro b; simp, by intro f; rw [file_osWrite _ 1 p.t1 f _ h1]; simp [Chan.isErr, Chan.isPy]⟩
        | exact ⟨sameShape_osWrite _ _ _, by intro b; simp, by intro f; rw [file_osWrite _ 2 p.t2 f _ h2]; simp [Chan.isErr, Chan.isPy]⟩
    obtain ⟨k1, k2, k3⟩ := key
    have := ih (doWrite w x) (by rw [k1.fd, h1]) (by rw [k1.fd, h2]) (by rw [k1.stdout, so]) (by rw [k1.stderr, se])
    obtain ⟨i1, i2, i3⟩ := this
    simp only [doWrites, List.foldl_cons] at i1 i2 i3 ⊢
    refine ⟨k1.trans i1, ?_, ?_⟩
    · intro b; rw [i2, k2, outText_cons, List.append_assoc]
    · intro f; rw [i3, k3, outText_cons, List.append_assoc]

theorem body_sys (cfg : Cfg) (hook : String) (ws : List Write) (filt : List Nat) (w : W) (p : SysP)
    (h1 : w.os.fd 1 = some p.t1) (h2 : w.os.fd 2 = some p.t2) (so : w.py.stdout = p.tmpO) (se : w.py.stderr = p.tmpE) :
    SameShape w (bodyOf cfg hook ws filt w) ∧
    (∀ b, (bodyOf cfg hook ws filt w).buf b = w.buf b ++
      outText (fun c => (c == .pyOut && p.b1 == b) || (c == .pyErr && p.b2 == b)) ws) ∧
    ∀ f, (bodyOf cfg hook ws filt w).os.file f = w.os.file f ++
      outText (fun c => (p.tee || !c.isPy) && ((!c.isErr && p.t1 == f) || (c.isErr && p.t2 == f))) ws := by
  unfold bodyOf
  split
  · have := doWrites_sys ws { w with py := { w.py with filters := cfg.cfgFilters ++ w.py.filters } } p h1 h2 so se
    obtain ⟨⟨a1, a2, B, a3⟩, b, c⟩ := this
    simp only [callBody]
    refine ⟨⟨a1, a2, B, ?_⟩, b, c⟩
    simp [a3]
  · exact doWrites_sys ws w p h1 h2 so se

theorem phase_sys (cfg : Cfg) (st : St) (p : SysP) (ins : CapState) (h : SysReady st p ins)
    (t : Nat) (hook : String) (ws : List Write) (filt : List Nat) :
    SysReady (step cfg st (.phase t hook ws filt)) p .started ∧
    (step cfg st (.phase t hook ws filt)).secs = st.secs ++
      secsOf t (whenOf hook) (outText (fun c => c == .pyOut) ws) (outText (fun c => c == .pyErr) ws) ∧
    (∀ f, (step cfg st (.phase t hook ws filt)).w.os.file f = st.w.os.file f ++
      outText (fun c => (p.tee || !c.isPy) && ((!c.isErr && p.t1 == f) || (c.isErr && p.t2 == f))) ws) ∧
    (step cfg st (.phase t hook ws filt)).w.os.fdt = st.w.os.fdt ∧
    (step cfg st (.phase t hook ws filt)).tasks = st.tasks ∧
    (step cfg st (.phase t hook ws filt)).collectFailed = st.collectFailed ∧
    ∃ B, (step cfg st (.phase t hook ws filt)).w.py =
      { st.w.py with stdin := if p.tee then st.w.py.stdin else .dontRead p.oi, bufs := B } := by
  rw [step_phase]
  obtain ⟨hcm, hins, fd1, fd2, sin, sout, serr, e1, e2, ne, nf⟩ := h
  have hR := resume_sys st.w p ins hins
  generalize hwR : sysResumed st.w p ins = wR at hR
  have hB := body_sys cfg hook ws filt wR p (by rw [← hwR]; exact fd1) (by rw [← hwR]; exact fd2) (by rw [← hwR]; rfl) (by rw [← hwR]; rfl)
  obtain ⟨hBs, hBbuf, hBfile⟩ := hB
  generalize hwB : bodyOf cfg hook ws filt wR = wB at *
  have hS := suspend_sys wB p
  have hD := read_sys { wB with py := { wB.py with stdout := .orig 1, stderr := .orig 2 } } p .started
  have hb1 : wB.buf p.b1 = outText (fun c => c == .pyOut) ws := by
    rw [hBbuf, show wR.buf p.b1 = [] by rw [← hwR]; exact e1]
    simp only [List.nil_append]
    apply outText_congr; intro c; cases c <;> simp [ne.symm]
  have hb2 : wB.buf p.b2 = outText (fun c => c == .pyErr) ws := by
    rw [hBbuf, show wR.buf p.b2 = [] by rw [← hwR]; exact e2]
    simp only [List.nil_append]
    apply outText_congr; intro c; cases c <;> simp [ne]
  simp only [runCalls, List.foldl_cons, List.foldl_nil]
  have e1' : (runCall t (whenOf hook) (bodyOf cfg hook ws filt)
      (runCall t (whenOf hook) (bodyOf cfg hook ws filt)
        (runCall t (whenOf hook) (bodyOf cfg hook ws filt)
          (runCall t (whenOf hook) (bodyOf cfg hook ws filt) { st := st } .resume) .yield) (.suspend false)) .read)
      = Frame.mk { st with w := sysAfter wB p, cm := some ⟨p.method, some (sysMC p .started)⟩ }
          (outText (fun c => c == .pyOut) ws) (outText (fun c => c == .pyErr) ws) := by
    have hb2' : (W.setBuf { wB with py := { wB.py with stdout := .orig 1, stderr := .orig 2 } } p.b1 []).buf p.b2
        = outText (fun c => c == .pyErr) ws := by
      rw [W.buf_setBuf, if_neg ne.symm]; exact hb2
    simp [runCall, withCM, hcm, CM.resume, hR, hwB, CM.suspend, hS, CM.read, hD, sysAfter, hb2']
    exact hb1
  rw [e1', secs_step]
  obtain ⟨sfdt, sfault, B, spy⟩ := hBs
  have hRfd : ∀ j, wR.os.fd j = st.w.os.fd j := by intro j; rw [← hwR]; rfl
  have hAfd : ∀ j, (sysAfter wB p).os.fd j = st.w.os.fd j := by
    intro j; rw [← hRfd]; simp [sysAfter, OS.fd, sfdt]
  have hApy : (sysAfter wB p).py = { wR.py with stdout := .orig 1, stderr := .orig 2, bufs := fset (fset B p.b1 []) p.b2 [] } := by
    simp [sysAfter, W.setBuf, spy]
  have hRpy : wR.py = (sysResumed st.w p ins).py := by rw [← hwR]
  refine ⟨⟨rfl, Or.inl rfl, ?_, ?_, ?_, ?_, ?_, ?_, ?_, ne, ?_⟩, rfl, ?_, ?_, rfl, rfl, ?_⟩
  · simp only []; rw [hAfd, fd1]
  · simp only []; rw [hAfd, fd2]
  · intro ht
    simp only [hApy, hRpy, sysResumed, ht]
    rcases hins with rfl | rfl <;> simp [sin ht]
  · simp [hApy]
  · simp [hApy]
  · simp [sysAfter, ne]
  · simp [sysAfter]
  · show (sysAfter wB p).fault = false
    simp [sysAfter, sfault, ← hwR, sysResumed, nf]
  · intro f
    show (sysAfter wB p).os.file f = _
    rw [show (sysAfter wB p).os.file f = wB.os.file f from rfl, hBfile, ← hwR]; rfl
  · show (sysAfter wB p).os.fdt = _
    rw [show (sysAfter wB p).os.fdt = wB.os.fdt from rfl, sfdt, ← hwR]; rfl
  · refine ⟨fset (fset B p.b1 []) p.b2 [], ?_⟩
    simp only [hApy, hRpy, sysResumed, sout, serr]
    cases ht : p.tee
    · rcases hins with rfl | rfl <;> simp [sin ht, ← sout, ← serr]
    · simp [← sout, ← serr]

/-! ### no capturing -/

def noMC (s : MCState) : MC := { in_ := none, out := none, err := none, state := s, inSuspended := false }

structure NoReady (st : St) (t1 t2 : Nat) : Prop where
  cm : st.cm = some ⟨.no, some (noMC .suspended)⟩
  fd1 : st.w.os.fd 1 = some t1
  fd2 : st.w.os.fd 2 = some t2
  sout : st.w.py.stdout = .orig 1
  serr : st.w.py.stderr = .orig 2
  nofault : st.w.fault = false

theorem doWrites_no (ws : List Write) (w : W) (t1 t2 : Nat)
    (h1 : w.os.fd 1 = some t1) (h2 : w.os.fd 2 = some t2) (so : w.py.stdout = .orig 1) (se : w.py.stderr = .orig 2) :
    (doWrites w ws).os.fdt = w.os.fdt ∧ (doWrites w ws).py = w.py ∧ (doWrites w ws).fault = w.fault ∧
    ∀ f, (doWrites w ws).os.file f = w.os.file f ++
      outText (fun c => (!c.isErr && t1 == f) || (c.isErr && t2 == f)) ws := by
  induction ws generalizing w with
  | nil => simp [doWrites]
  | cons x ws ih =>
    have key : ∃ g, doWrite w x = { w with os := w.os.setFile g (w.os.file g ++ x.data) } ∧ g = (if x.chan.isErr then t2 else t1) := by
      cases hx : x.chan <;> simp [doWrite, hx, writePy, W.osWrite, so, se, OS.write, h1, h2, Chan.isErr]
    obtain ⟨g, hk, hg⟩ := key
    have := ih (doWrite w x) (by rw [hk]; simpa using h1) (by rw [hk]; simpa using h2) (by rw [hk]; simpa using so) (by rw [hk]; simpa using se)
    simp only [doWrites, List.foldl_cons] at this ⊢
    obtain ⟨a, b, c, d⟩ := this
    refine ⟨by rw [a, hk]; rfl, by rw [b, hk], by rw [c, hk], ?_⟩
    intro f
    rw [d f, hk, outText_cons]
    simp only [OS.file_setFile, hg]
    cases hx : x.chan.isErr <;> by_cases hf1 : t1 = f <;> by_cases hf2 : t2 = f <;> simp_all
    all_goals grind

theorem body_no (cfg : Cfg) (hook : String) (ws : List Write) (filt : List Nat) (w : W) (t1 t2 : Nat)
    (h1 : w.os.fd 1 = some t1) (h2 : w.os.fd 2 = some t2) (so : w.py.stdout = .orig 1) (se : w.py.stderr = .orig 2) :
    (bodyOf cfg hook ws filt w).os.fdt = w.os.fdt ∧ (bodyOf cfg hook ws filt w).py = w.py ∧
    (bodyOf cfg hook ws filt w).fault = w.fault ∧
    ∀ f, (bodyOf cfg hook ws filt w).os.file f = w.os.file f ++
      outText (fun c => (!c.isErr && t1 == f) || (c.isErr && t2 == f)) ws := by
  unfold bodyOf
  split
  · have := doWrites_no ws { w with py := { w.py with filters := cfg.cfgFilters ++ w.py.filters } } t1 t2 h1 h2 so se
    obtain ⟨a, b, c, d⟩ := this
    simp only [callBody]
    refine ⟨a, ?_, c, d⟩
    simp [b]
  · exact doWrites_no ws w t1 t2 h1 h2 so se

theorem phase_no (cfg : Cfg) (st : St) (t1 t2 : Nat) (h : NoReady st t1 t2)
    (t : Nat) (hook : String) (ws : List Write) (filt : List Nat) :
    NoReady (step cfg st (.phase t hook ws filt)) t1 t2 ∧
    (step cfg st (.phase t hook ws filt)).secs = st.secs ∧
    (∀ f, (step cfg st (.phase t hook ws filt)).w.os.file f = st.w.os.file f ++
      outText (fun c => (!c.isErr && t1 == f) || (c.isErr && t2 == f)) ws) ∧
    (step cfg st (.phase t hook ws filt)).w.os.fdt = st.w.os.fdt ∧
    (step cfg st (.phase t hook ws filt)).tasks = st.tasks ∧
    (step cfg st (.phase t hook ws filt)).collectFailed = st.collectFailed ∧
    (step cfg st (.phase t hook ws filt)).w.py = st.w.py := by
  rw [step_phase]
  obtain ⟨hcm, fd1, fd2, sout, serr, nf⟩ := h
  obtain ⟨a, b, c, d⟩ := body_no cfg hook ws filt st.w t1 t2 fd1 fd2 sout serr
  generalize hwB : bodyOf cfg hook ws filt st.w = wB at *
  have e : runCalls t (whenOf hook) (bodyOf cfg hook ws filt) st
      [.resume, .yield, .suspend false, .read, .section false, .section true] = { st with w := wB } := by
    simp [runCalls, runCall, withCM, hcm, CM.resume, CM.suspend, CM.read, noMC, MC.resumeCapturing, MC.suspendCapturing,
      MC.readouterr, MC.snapOpt, optCap, hwB]
  rw [e]
  refine ⟨⟨hcm, ?_, ?_, ?_, ?_, ?_⟩, rfl, d, a, rfl, rfl, b⟩
  · simp [OS.fd, a]; exact fd1
  · simp [OS.fd, a]; exact fd2
  · simp [b, sout]
  · simp [b, serr]
  · simp [c, nf]

/-! ### construction of an `FDCapture` -/

attribute [local grind =] OS.fd_openNew OS.file_openNew

/-- `FDCapture(target)` on a valid descriptor: the world afterwards and the object -/
def fdInitW (w : W) (_target t : Nat) : W :=
  let os1 := w.os.setFd w.os.free (some t)
  { w with os := os1.openNew.1, py := { w.py with nextOid := w.py.nextOid + 1 } }

theorem fdInit_out (w : W) (target t : Nat) (h : w.os.fd target = some t) (ht : target = 1 ∨ target = 2) :
    FdCap.init w target = (fdInitW w target t,
      fdCap target w.os.free (w.os.setFd w.os.free (some t)).free w.py.nextOid
        ⟨target, some (w.py.getStd target), .file w.py.nextOid (w.os.setFd w.os.free (some t)).free, .initialized⟩ .initialized) := by
  rcases ht with rfl | rfl <;> simp [FdCap.init, h, fdInitW, fdCap, newOid, SysCap.init, Py.getStd]

theorem fdInit_in (w : W) (t : Nat) (h : w.os.fd 0 = some t) :
    FdCap.init w 0 = ({ fdInitW w 0 t with py := { w.py with nextOid := w.py.nextOid + 2 } },
      fdCap 0 w.os.free (w.os.setFd w.os.free (some t)).free w.py.nextOid
        ⟨0, some w.py.stdin, .dontRead (w.py.nextOid + 1), .initialized⟩ .initialized) := by
  simp [FdCap.init, h, fdInitW, fdCap, newOid, SysCap.init, Py.getStd]


theorem OS.Std3.setFd_ge3 {o : OS} (h : o.Std3) (i : Nat) (v : Option Nat) (hi : 3 ≤ i) : (o.setFd i v).Std3 := by
  obtain ⟨⟨f0, a0⟩, ⟨f1, a1⟩, ⟨f2, a2⟩⟩ := h
  exact ⟨⟨f0, by grind⟩, ⟨f1, by grind⟩, ⟨f2, by grind⟩⟩

theorem OS.Std3.openNew {o : OS} (h : o.Std3) : o.openNew.1.Std3 := by
  have := o.free_ge3 h
  obtain ⟨⟨f0, a0⟩, ⟨f1, a1⟩, ⟨f2, a2⟩⟩ := h
  exact ⟨⟨f0, by grind⟩, ⟨f1, by grind⟩, ⟨f2, by grind⟩⟩

theorem OS.count_setFd_free (o : OS) (v : Nat) : (o.setFd o.free (some v)).count = o.count + 1 := by
  have := o.count_setFd o.free (some v)
  simpa using this

/-- the descriptors and files one `FDCapture(target)` allocates -/
theorem fdInitW_spec (w : W) (target t : Nat) (hs : w.os.Std3) :
    let s := w.os.free
    let p := (w.os.setFd s (some t)).free
    3 ≤ s ∧ 3 ≤ p ∧ s ≠ p ∧ (fdInitW w target t).os.Std3 ∧
    (∀ j, (fdInitW w target t).os.fd j = if j = p then some w.os.files.length else if j = s then some t else w.os.fd j) ∧
    (∀ f, (fdInitW w target t).os.file f = w.os.file f) ∧
    (fdInitW w target t).os.files.length = w.os.files.length + 1 ∧
    (fdInitW w target t).os.count = w.os.count + 2 ∧ (fdInitW w target t).fault = w.fault := by
  intro s p
  have hs1 := w.os.free_ge3 hs
  have hs2 : (w.os.setFd s (some t)).Std3 := hs.setFd_ge3 _ _ hs1
  have hp := (w.os.setFd s (some t)).free_ge3 hs2
  have hf := (w.os.setFd s (some t)).fd_free
  refine ⟨hs1, hp, ?_, hs2.openNew, ?_, ?_, ?_, ?_, rfl⟩
  · intro e
    have h1 : (w.os.setFd s (some t)).fd s = some t := by simp
    have h2 : (w.os.setFd s (some t)).fd p = none := hf
    rw [← e, h1] at h2; cases h2
  · intro j; simp only [fdInitW, OS.fd_openNew, OS.fd_setFd, OS.files_setFd]; rfl
  · intro f; simp [fdInitW]
  · simp [fdInitW]
  · simp only [fdInitW, OS.count_openNew, OS.count_setFd_free]


theorem FdCap.start_init (w : W) (target save pyfd oid : Nat) (old tmp : Stream) :
    FdCap.start w (fdCap target save pyfd oid ⟨target, some old, tmp, .initialized⟩ .initialized)
      = ({ w with py := w.py.setStd target tmp, os := w.os.dup2 pyfd target },
         fdCap target save pyfd oid ⟨target, some old, tmp, .started⟩ .started) := by
  simp [FdCap.start, fdCap, optSys, SysCap.start, W.setStd]

/-- the process state the theorems start from: descriptors 0-2 open on existing files, `sys.stdout` / `sys.stderr`
are the interpreter's own streams, no assertion has failed -/
structure StdW (w : W) : Prop where
  os : w.os.Std3
  sout : w.py.stdout = .orig 1
  serr : w.py.stderr = .orig 2
  nofault : w.fault = false

/-! ## Layer 3 — all windows of a build -/

/-- one entered hook of one task: (task, hook, writes, warning filters the body adds) -/
abbrev Phase := Nat × String × List Write × List Nat

def Phase.op (ph : Phase) : Op := .phase ph.1 ph.2.1 ph.2.2.1 ph.2.2.2

def phaseList (ios : List TaskIO) : List Phase :=
  ios.flatMap (fun t => t.phases.map (fun hw => (t.id, hw.1, hw.2, if hw.1 == "pytask_execute_task" then t.filt else [])))

theorem phaseOps_eq (ios : List TaskIO) : phaseOps ios = (phaseList ios).map Phase.op := by
  simp [phaseOps, phaseList, List.map_flatMap, Phase.op, Function.comp_def]

/-- the sections the property prescribes for one window when channels `cap` are captured -/
def Phase.secs (cap : Chan → Bool) (ph : Phase) : List Sec :=
  secsOf ph.1 (whenOf ph.2.1) (outText (fun c => cap c && !c.isErr) ph.2.2.1) (outText (fun c => cap c && c.isErr) ph.2.2.1)

/-- everything the tasks wrote, in execution order -/
def allWrites (phs : List Phase) : List Write := phs.flatMap (fun ph => ph.2.2.1)

theorem outText_append (sel : Chan → Bool) (a b : List Write) : outText sel (a ++ b) = outText sel a ++ outText sel b := by
  simp [outText]

/-- the interpreter state a window must leave alone -/
def miscOf (p : Py) := (p.filters, p.setTrace, p.pdbSaved, p.reportVars, p.provisional, p.collected, p.modules, p.dbFd,
  p.garbage, p.stdout, p.stderr)

/-- what one window does, for a capture method characterised by: the invariant `R` between windows, the captured
channels `cap`, the files `keep` the statement speaks about and the channels `term f` that reach file `f`. -/
structure Law (cfg : Cfg) (R : St → Prop) (cap : Chan → Bool) (keep : Nat → Prop) (term : Nat → Chan → Bool) : Prop where
  phase : ∀ (st : St) (ph : Phase), R st →
    R (step cfg st ph.op) ∧
    (step cfg st ph.op).secs = st.secs ++ ph.secs cap ∧
    (∀ f, keep f → (step cfg st ph.op).w.os.file f = st.w.os.file f ++ outText (term f) ph.2.2.1) ∧
    (step cfg st ph.op).w.os.count = st.w.os.count ∧
    (step cfg st ph.op).tasks = st.tasks ∧
    (step cfg st ph.op).collectFailed = st.collectFailed ∧
    miscOf (step cfg st ph.op).w.py = miscOf st.w.py ∧
    (∀ j, 3 ≤ j → (step cfg st ph.op).w.os.fd j = st.w.os.fd j)

theorem Law.phases {cfg : Cfg} {R : St → Prop} {cap : Chan → Bool} {keep : Nat → Prop} {term : Nat → Chan → Bool}
    (law : Law cfg R cap keep term) (phs : List Phase) (st : St) (h : R st) :
    R (runOps cfg st (phs.map Phase.op)) ∧
    (runOps cfg st (phs.map Phase.op)).secs = st.secs ++ phs.flatMap (Phase.secs cap) ∧
    (∀ f, keep f → (runOps cfg st (phs.map Phase.op)).w.os.file f = st.w.os.file f ++ outText (term f) (allWrites phs)) ∧
    (runOps cfg st (phs.map Phase.op)).w.os.count = st.w.os.count ∧
    (runOps cfg st (phs.map Phase.op)).tasks = st.tasks ∧
    (runOps cfg st (phs.map Phase.op)).collectFailed = st.collectFailed ∧
    miscOf (runOps cfg st (phs.map Phase.op)).w.py = miscOf st.w.py ∧
    (∀ j, 3 ≤ j → (runOps cfg st (phs.map Phase.op)).w.os.fd j = st.w.os.fd j) := by
  induction phs generalizing st with
  | nil => simpa [runOps, allWrites] using h
  | cons ph phs ih =>
    obtain ⟨a1, a2, a3, a4, a5, a6, a7, a8⟩ := law.phase st ph h
    obtain ⟨b1, b2, b3, b4, b5, b6, b7, b8⟩ := ih (step cfg st ph.op) a1
    simp only [runOps, List.map_cons, List.foldl_cons] at b1 b2 b3 b4 b5 b6 b7 b8 ⊢
    refine ⟨b1, ?_, ?_, by rw [b4, a4], by rw [b5, a5], by rw [b6, a6], by rw [b7, a7], fun j hj => by rw [b8 j hj, a8 j hj]⟩
    · rw [b2, a2]; simp
    · intro f hf
      rw [b3 f hf, a3 f hf]
      simp [allWrites, outText_append]

theorem law_fd (cfg : Cfg) (p : FdP) :
    Law cfg (fun st => ∃ ins, FdReady st p ins) (fun _ => true) (fun f => f ≠ p.g1 ∧ f ≠ p.g2) (fun _ _ => false) := by
  constructor
  intro st ph ⟨ins, h⟩
  obtain ⟨a1, a2, a3, a4, a5, a6, a7, a8⟩ := phase_fd cfg st p ins h ph.1 ph.2.1 ph.2.2.1 ph.2.2.2
  refine ⟨⟨_, a1⟩, ?_, ?_, a4, a5, a6, ?_, a8⟩
  · simpa [Phase.secs, Phase.op] using a2
  · intro f hf; rw [show step cfg st ph.op = step cfg st (.phase ph.1 ph.2.1 ph.2.2.1 ph.2.2.2) from rfl, a3 f hf.1 hf.2]
    simp [outText]
  · rw [show step cfg st ph.op = step cfg st (.phase ph.1 ph.2.1 ph.2.2.1 ph.2.2.2) from rfl, a7]; rfl

theorem law_sys (cfg : Cfg) (p : SysP) :
    Law cfg (fun st => ∃ ins, SysReady st p ins) (fun c => c.isPy) (fun _ => True)
      (fun f c => (p.tee || !c.isPy) && ((!c.isErr && p.t1 == f) || (c.isErr && p.t2 == f))) := by
  constructor
  intro st ph ⟨ins, h⟩
  obtain ⟨a1, a2, a3, a4, a5, a6, B, a7⟩ := phase_sys cfg st p ins h ph.1 ph.2.1 ph.2.2.1 ph.2.2.2
  have e : step cfg st ph.op = step cfg st (.phase ph.1 ph.2.1 ph.2.2.1 ph.2.2.2) := rfl
  refine ⟨⟨_, a1⟩, ?_, ?_, ?_, a5, a6, ?_, fun j _ => by rw [e]; simp [OS.fd, a4]⟩
  · rw [e, a2]; simp only [Phase.secs]
    congr 2
    · apply outText_congr; intro c; cases c <;> rfl
    · apply outText_congr; intro c; cases c <;> rfl
  · intro f _; rw [e, a3 f]
  · rw [e]; simp [OS.count, a4]
  · rw [e, a7]; rfl

theorem law_no (cfg : Cfg) (t1 t2 : Nat) :
    Law cfg (fun st => NoReady st t1 t2) (fun _ => false) (fun _ => True)
      (fun f c => (!c.isErr && t1 == f) || (c.isErr && t2 == f)) := by
  constructor
  intro st ph h
  obtain ⟨a1, a2, a3, a4, a5, a6, a7⟩ := phase_no cfg st t1 t2 h ph.1 ph.2.1 ph.2.2.1 ph.2.2.2
  have e : step cfg st ph.op = step cfg st (.phase ph.1 ph.2.1 ph.2.2.1 ph.2.2.2) := rfl
  refine ⟨a1, ?_, ?_, ?_, a5, a6, ?_, fun j _ => by rw [e]; simp [OS.fd, a4]⟩
  · rw [e, a2]; simp [Phase.secs, secsOf, outText]
  · intro f _; rw [e, a3 f]
  · rw [e]; simp [OS.count, a4]
  · rw [e, a7]

/-! ### operations that do not touch capturing -/

/-- `st'` differs from `st` only in registries / task lists (not in descriptors, streams, buffers, sections, capture manager) -/
structure Inert (st st' : St) : Prop where
  cm : st'.cm = st.cm
  os : st'.w.os = st.w.os
  fault : st'.w.fault = st.w.fault
  secs : st'.secs = st.secs
  sin : st'.w.py.stdin = st.w.py.stdin
  sout : st'.w.py.stdout = st.w.py.stdout
  serr : st'.w.py.stderr = st.w.py.stderr
  bufs : st'.w.py.bufs = st.w.py.bufs

theorem FdReady.inert {st st' : St} {p : FdP} {ins : CapState} (h : FdReady st p ins) (i : Inert st st') : FdReady st' p ins := by
  obtain ⟨a1, a2, a3, a4, a5, a6, a7, a8, a9, a10, a11, a12, a13, a14, a15, a16, a17, a18, a19, a20⟩ := h
  obtain ⟨i1, i2, i3, i4, i5, i6, i7, i8⟩ := i
  exact ⟨by rw [i1, a1], a2, a3, by rw [i2, a4], by rw [i2, a5], by rw [i2, a6], by rw [i2, a7], by rw [i2, a8], by rw [i2, a9],
    by rw [i2, a10], by rw [i2, a11], by rw [i2, a12], by rw [i5, a13], by rw [i6, a14], by rw [i7, a15], by rw [i2, a16],
    by rw [i2, a17], a18, by rw [i3, a19], a20⟩

theorem SysReady.inert {st st' : St} {p : SysP} {ins : CapState} (h : SysReady st p ins) (i : Inert st st') : SysReady st' p ins := by
  obtain ⟨a1, a2, a3, a4, a5, a6, a7, a8, a9, a10, a11⟩ := h
  obtain ⟨i1, i2, i3, i4, i5, i6, i7, i8⟩ := i
  exact ⟨by rw [i1, a1], a2, by rw [i2, a3], by rw [i2, a4], fun ht => by rw [i5, a5 ht], by rw [i6, a6], by rw [i7, a7],
    by simpa [W.buf, i8] using a8, by simpa [W.buf, i8] using a9, a10, by rw [i3, a11]⟩

theorem NoReady.inert {st st' : St} {t1 t2 : Nat} (h : NoReady st t1 t2) (i : Inert st st') : NoReady st' t1 t2 := by
  obtain ⟨a1, a2, a3, a4, a5, a6⟩ := h
  obtain ⟨i1, i2, i3, i4, i5, i6, i7, i8⟩ := i
  exact ⟨by rw [i1, a1], by rw [i2, a2], by rw [i2, a3], by rw [i6, a4], by rw [i7, a5], by rw [i3, a6]⟩

theorem inert_collect (cfg : Cfg) (st : St) (mods : List ModSpec) : Inert st (step cfg st (.collect mods)) := by
  have key : ∀ (ms : List ModSpec) (p : Py), (collectAll p ms).1.stdin = p.stdin ∧ (collectAll p ms).1.stdout = p.stdout ∧
      (collectAll p ms).1.stderr = p.stderr ∧ (collectAll p ms).1.bufs = p.bufs := by
    intro ms
    induction ms with
    | nil => intro p; simp [collectAll]
    | cons m ms ih =>
      intro p
      have h1 : (collectModule p m).1.stdin = p.stdin ∧ (collectModule p m).1.stdout = p.stdout ∧
          (collectModule p m).1.stderr = p.stderr ∧ (collectModule p m).1.bufs = p.bufs := by
        unfold collectModule; split
        · simp
        · split <;> simp
      obtain ⟨b1, b2, b3, b4⟩ := ih (collectModule p m).1
      simp only [collectAll]
      exact ⟨b1.trans h1.1, b2.trans h1.2.1, b3.trans h1.2.2.1, b4.trans h1.2.2.2⟩
  obtain ⟨k1, k2, k3, k4⟩ := key mods st.w.py
  exact ⟨rfl, rfl, rfl, rfl, k1, k2, k3, k4⟩

theorem step_postParse_neutral (cfg : Cfg) (st : St) (s : String)
    (h : s ∈ ["warnings", "profile", "mark", "live", "execute", "config", "build"]) : step cfg st (.postParse s) = st := by
  simp only [List.mem_cons, List.not_mem_nil, or_false] at h
  rcases h with rfl | rfl | rfl | rfl | rfl | rfl | rfl <;> rfl

theorem step_postParse_logging (cfg : Cfg) (st : St) :
    step cfg st (.postParse "logging") = { st with w := { st.w with py := { st.w.py with reportVars := cfg.reportVars } } } := rfl

theorem step_postParse_debugging (cfg : Cfg) (st : St) :
    step cfg st (.postParse "debugging") =
      { st with w := { st.w with py := { st.w.py with pdbSaved := st.w.py.setTrace :: st.w.py.pdbSaved, setTrace := 1 } } } := rfl

theorem step_postParse_database (cfg : Cfg) (st : St) :
    step cfg st (.postParse "database") =
      { st with w := { st.w with os := st.w.os.openNew.1,
                                 py := { st.w.py with garbage := st.w.py.garbage ++ st.w.py.dbFd.toList, dbFd := some st.w.os.free } } } := rfl

theorem step_unconfigure_task (cfg : Cfg) (st : St) :
    step cfg st (.unconfigure "task") = { st with w := { st.w with py := { st.w.py with collected := [] } } } := rfl
theorem step_unconfigure_logging (cfg : Cfg) (st : St) :
    step cfg st (.unconfigure "logging") = { st with w := { st.w with py := { st.w.py with reportVars := 0 } } } := rfl
theorem step_unconfigure_provisional (cfg : Cfg) (st : St) :
    step cfg st (.unconfigure "provisional") = { st with w := { st.w with py := { st.w.py with provisional := [] } } } := rfl
theorem step_unconfigure_build (cfg : Cfg) (st : St) : step cfg st (.unconfigure "build") = st := rfl
theorem step_unconfigure_debugging (cfg : Cfg) (st : St) (x : Nat) (rest : List Nat) (h : st.w.py.pdbSaved = x :: rest) :
    step cfg st (.unconfigure "debugging") = { st with w := { st.w with py := { st.w.py with setTrace := x, pdbSaved := rest } } } := by
  show (match st.w.py.pdbSaved with | [] => _ | x :: rest => _) = _
  rw [h]

/-! ### `pytask_collect_log` wrapper: `suspend(in_=True)` -/

theorem step_collectLog (cfg : Cfg) (st : St) :
    step cfg st .collectLog = runCalls 0 "" id st [.suspend true, .yield] := by
  simp [step, collectLogCalls_eq]

theorem collectLog_no (cfg : Cfg) (st : St) (t1 t2 : Nat) (h : NoReady st t1 t2) :
    NoReady (step cfg st .collectLog) t1 t2 ∧ Inert st (step cfg st .collectLog) ∧ (step cfg st .collectLog).w.py = st.w.py
      ∧ (step cfg st .collectLog).tasks = st.tasks ∧ (step cfg st .collectLog).collectFailed = st.collectFailed := by
  rw [step_collectLog]
  have e : runCalls 0 "" id st [.suspend true, .yield] = st := by
    simp [runCalls, runCall, withCM, h.cm, CM.suspend, MC.suspendCapturing, noMC, optCap]
    cases st; simp_all
    exact h.cm.symm
  rw [e]; exact ⟨h, ⟨rfl, rfl, rfl, rfl, rfl, rfl, rfl, rfl⟩, rfl, rfl, rfl⟩

theorem collectLog_sys (cfg : Cfg) (st : St) (p : SysP) (h : SysReady st p .started) :
    SysReady (step cfg st .collectLog) p .suspended ∧ (step cfg st .collectLog).w.os = st.w.os ∧
    (step cfg st .collectLog).secs = st.secs ∧ (step cfg st .collectLog).tasks = st.tasks ∧
    (step cfg st .collectLog).collectFailed = st.collectFailed ∧
    miscOf (step cfg st .collectLog).w.py = miscOf st.w.py := by
  rw [step_collectLog]
  obtain ⟨hcm, hins, fd1, fd2, sin, sout, serr, e1, e2, ne, nf⟩ := h
  cases hp : p.tee
  · have e : runCalls 0 "" id st [.suspend true, .yield] =
        { st with w := { st.w with py := { st.w.py with stdin := p.sin } }, cm := some ⟨p.method, some (sysMC p .suspended)⟩ } := by
      simp [runCalls, runCall, withCM, hcm, CM.suspend, MC.suspendCapturing, sysMC, optCap, hp, Cap.suspend, SysCap.suspend,
        W.setStd, Py.setStd]
      exact ⟨sout.symm, serr.symm⟩
    rw [e]
    refine ⟨⟨rfl, Or.inr rfl, fd1, fd2, fun _ => by simp, sout, serr, e1, e2, ne, nf⟩, rfl, rfl, rfl, rfl, ?_⟩
    simp [miscOf]
  · have e : runCalls 0 "" id st [.suspend true, .yield] =
        { st with cm := some ⟨p.method, some (sysMC p .suspended)⟩ } := by
      simp [runCalls, runCall, withCM, hcm, CM.suspend, MC.suspendCapturing, sysMC, optCap, hp, Cap.suspend, SysCap.suspend,
        W.setStd, Py.setStd]
      cases st; rename_i w _ _ _ _; cases w; rename_i _ py _ ; cases py; simp_all
    rw [e]
    exact ⟨⟨rfl, Or.inr rfl, fd1, fd2, fun ht => by simp [hp] at ht, sout, serr, e1, e2, ne, nf⟩, rfl, rfl, rfl, rfl, rfl⟩

theorem collectLog_fd (cfg : Cfg) (st : St) (p : FdP) (h : FdReady st p .started) :
    FdReady (step cfg st .collectLog) p .suspended ∧ (∀ f, (step cfg st .collectLog).w.os.file f = st.w.os.file f) ∧
    (step cfg st .collectLog).w.os.count = st.w.os.count ∧
    (step cfg st .collectLog).secs = st.secs ∧ (step cfg st .collectLog).tasks = st.tasks ∧
    (step cfg st .collectLog).collectFailed = st.collectFailed ∧
    miscOf (step cfg st .collectLog).w.py = miscOf st.w.py ∧
    (∀ j, 3 ≤ j → (step cfg st .collectLog).w.os.fd j = st.w.os.fd j) := by
  rw [step_collectLog]
  obtain ⟨hcm, hins, ⟨g1, g2, g3, g4, g5, g6⟩, fd1, fd2, fso, fse, fsi, fpo, fpe, fpi, fd0, sin, sout, serr, e1, e2, ne, nf, hdist⟩ := h
  have e : runCalls 0 "" id st [.suspend true, .yield] =
      { st with w := { st.w with os := st.w.os.setFd 0 (some p.t0), py := { st.w.py with stdin := p.sin } },
                cm := some ⟨.fd, some (fdMC p .suspended)⟩ } := by
    simp [runCalls, runCall, withCM, hcm, CM.suspend, MC.suspendCapturing, fdMC, optCap, Cap.suspend, FdCap.suspend_started,
      FdCap.suspend, fdCap, W.setStd, Py.setStd, OS.dup2_of_some _ _ _ _ fsi, optSys, SysCap.suspend]
  rw [e]
  simp at fd0
  refine ⟨⟨rfl, Or.inr rfl, ⟨g1, g2, g3, g4, g5, g6⟩, ?_, ?_, ?_, ?_, ?_, ?_, ?_, ?_, ?_, ?_, sout, serr, e1, e2, ne, nf, hdist⟩, ?_, ?_, rfl, rfl, rfl, ?_, ?_⟩
  all_goals first | (simp only []; grind) | skip
  · simp only []; exact OS.count_setFd_some _ 0 p.g0 _ fd0
  · simp [miscOf]

/-! ### `capture.pytask_post_parse` -/

/-- the state in which `capture.pytask_post_parse` calls the new manager: the previous manager is unreachable -/
def preCapture (cfg : Cfg) (st : St) : St :=
  { st with w := { st.w with py := { st.w.py with garbage := st.w.py.garbage ++ (st.cm.map CM.owned).getD [] } }
            cm := some { method := cfg.method } }

theorem step_postParse_capture (cfg : Cfg) (st : St) :
    step cfg st (.postParse "capture") =
      runCalls 0 "" id (preCapture cfg st) [.stop, .start, .suspend false] := by
  show runCalls 0 "" id _ postParseCalls = _
  rw [postParseCalls_eq]; rfl

theorem postParse_capture_no (cfg : Cfg) (st : St) (hm : cfg.method = .no) (hw : StdW st.w)
    (t1 t2 : Nat) (h1 : st.w.os.fd 1 = some t1) (h2 : st.w.os.fd 2 = some t2) :
    NoReady (step cfg st (.postParse "capture")) t1 t2 ∧
    (step cfg st (.postParse "capture")).w.os = st.w.os ∧
    (step cfg st (.postParse "capture")).secs = st.secs ∧
    (step cfg st (.postParse "capture")).w.py = { st.w.py with garbage := st.w.py.garbage ++ (st.cm.map CM.owned).getD [] } := by
  rw [step_postParse_capture]
  have e : runCalls 0 "" id (preCapture cfg st) [.stop, .start, .suspend false]
      = { preCapture cfg st with cm := some ⟨.no, some (noMC .suspended)⟩ } := by
    simp [preCapture, runCalls, runCall, withCM, hm, CM.stopCapturing, CM.startCapturing, getMulticapture, ctorsOf_no, mkCap, MC.startCapturing,
      optCap, CM.suspend, MC.suspendCapturing, noMC]
  rw [e]
  exact ⟨⟨rfl, h1, h2, hw.sout, hw.serr, hw.nofault⟩, rfl, rfl, rfl⟩

theorem postParse_capture_sys (cfg : Cfg) (st : St) (tee : Bool) (hm : cfg.method = if tee then .teeSys else .sys) (hw : StdW st.w)
    (t1 t2 : Nat) (h1 : st.w.os.fd 1 = some t1) (h2 : st.w.os.fd 2 = some t2) :
    ∃ p : SysP, SysReady (step cfg st (.postParse "capture")) p .started ∧ p.tee = tee ∧ p.t1 = t1 ∧ p.t2 = t2 ∧
    (step cfg st (.postParse "capture")).w.os = st.w.os ∧
    (step cfg st (.postParse "capture")).secs = st.secs ∧
    miscOf (step cfg st (.postParse "capture")).w.py =
      miscOf { st.w.py with garbage := st.w.py.garbage ++ (st.cm.map CM.owned).getD [] } ∧
    (tee = true → (step cfg st (.postParse "capture")).w.py.stdin = st.w.py.stdin) ∧ p.sin = st.w.py.stdin := by
  rw [step_postParse_capture]
  obtain ⟨hos, hso, hse, hnf⟩ := hw
  cases tee
  · refine ⟨⟨false, st.w.py.nextOid, st.w.py.nextOid + 1, st.w.py.nextOid + 2, st.w.py.bufs.length, st.w.py.bufs.length + 1, t1, t2, st.w.py.stdin⟩, ?_⟩
    simp only [Bool.false_eq_true, if_false] at hm
    have e : runCalls 0 "" id (preCapture cfg st) [.stop, .start, .suspend false]
        = { st with w := { st.w with py := { st.w.py with garbage := st.w.py.garbage ++ (st.cm.map CM.owned).getD []
                                                          nextOid := st.w.py.nextOid + 3
                                                          bufs := st.w.py.bufs ++ [[]] ++ [[]]
                                                          stdin := .dontRead st.w.py.nextOid } }
                    cm := some ⟨.sys, some (sysMC ⟨false, st.w.py.nextOid, st.w.py.nextOid + 1, st.w.py.nextOid + 2, st.w.py.bufs.length, st.w.py.bufs.length + 1, t1, t2, st.w.py.stdin⟩ .started)⟩ } := by
      simp [preCapture, runCalls, runCall, withCM, hm, CM.stopCapturing, CM.startCapturing, getMulticapture, ctorsOf_sys, mkCap, MC.startCapturing,
        optCap, CM.suspend, MC.suspendCapturing, sysMC, SysCap.init, newOid, newBuf, Cap.start, SysCap.start, Cap.suspend,
        SysCap.suspend, W.setStd, Py.setStd, Py.getStd, hso, hse, SysP.tmpO, SysP.tmpE]
    rw [e]
    refine ⟨⟨rfl, Or.inl rfl, h1, h2, fun _ => by simp, hso, hse, ?_, ?_, by simp, hnf⟩, rfl, rfl, rfl, rfl, rfl, by simp [miscOf, hso, hse], by simp, rfl⟩
    · simp [W.buf, List.getD_eq_getElem?_getD]
    · simp [W.buf, List.getD_eq_getElem?_getD]
  · refine ⟨⟨true, 0, st.w.py.nextOid, st.w.py.nextOid + 1, st.w.py.bufs.length, st.w.py.bufs.length + 1, t1, t2, st.w.py.stdin⟩, ?_⟩
    simp only [if_true] at hm
    have e : runCalls 0 "" id (preCapture cfg st) [.stop, .start, .suspend false]
        = { st with w := { st.w with py := { st.w.py with garbage := st.w.py.garbage ++ (st.cm.map CM.owned).getD []
                                                          nextOid := st.w.py.nextOid + 2
                                                          bufs := st.w.py.bufs ++ [[]] ++ [[]] } }
                    cm := some ⟨.teeSys, some (sysMC ⟨true, 0, st.w.py.nextOid, st.w.py.nextOid + 1, st.w.py.bufs.length, st.w.py.bufs.length + 1, t1, t2, st.w.py.stdin⟩ .started)⟩ } := by
      simp [preCapture, runCalls, runCall, withCM, hm, CM.stopCapturing, CM.startCapturing, getMulticapture, ctorsOf_tee, mkCap, MC.startCapturing,
        optCap, CM.suspend, MC.suspendCapturing, sysMC, SysCap.init, newOid, newBuf, Cap.start, SysCap.start, Cap.suspend,
        SysCap.suspend, W.setStd, Py.setStd, Py.getStd, hso, hse, SysP.tmpO, SysP.tmpE]
    rw [e]
    refine ⟨⟨rfl, Or.inl rfl, h1, h2, fun h => by simp at h, hso, hse, ?_, ?_, by simp, hnf⟩, rfl, rfl, rfl, rfl, rfl, by simp [miscOf, hso, hse], by simp, rfl⟩
    · simp [W.buf, List.getD_eq_getElem?_getD]
    · simp [W.buf, List.getD_eq_getElem?_getD]

theorem getMulticapture_fd (w : W) (t0 t1 t2 : Nat) (hos : w.os.Std3)
    (h0 : w.os.fd 0 = some t0) (h1 : w.os.fd 1 = some t1) (h2 : w.os.fd 2 = some t2) :
    ∃ (wc : W) (si pi so po se pe : Nat),
      getMulticapture w .fd = (wc,
        { in_ := some (.fd (fdCap 0 si pi w.py.nextOid ⟨0, some w.py.stdin, .dontRead (w.py.nextOid + 1), .initialized⟩ .initialized)),
          out := some (.fd (fdCap 1 so po (w.py.nextOid + 2) ⟨1, some w.py.stdout, .file (w.py.nextOid + 2) po, .initialized⟩ .initialized)),
          err := some (.fd (fdCap 2 se pe (w.py.nextOid + 3) ⟨2, some w.py.stderr, .file (w.py.nextOid + 3) pe, .initialized⟩ .initialized)) }) ∧
      3 ≤ si ∧ 3 ≤ pi ∧ 3 ≤ so ∧ 3 ≤ po ∧ 3 ≤ se ∧ 3 ≤ pe ∧
      wc.os.fd 0 = some t0 ∧ wc.os.fd 1 = some t1 ∧ wc.os.fd 2 = some t2 ∧
      wc.os.fd si = some t0 ∧ wc.os.fd so = some t1 ∧ wc.os.fd se = some t2 ∧
      wc.os.fd pi = some w.os.files.length ∧ wc.os.fd po = some (w.os.files.length + 1) ∧ wc.os.fd pe = some (w.os.files.length + 2) ∧
      (∀ f, wc.os.file f = w.os.file f) ∧ wc.os.count = w.os.count + 6 ∧ wc.fault = w.fault ∧
      wc.py = { w.py with nextOid := w.py.nextOid + 4 } ∧
      [si, pi, so, po, se, pe].Nodup ∧ (∀ x ∈ [si, pi, so, po, se, pe], w.os.fd x = none) ∧
      (∀ j, j ∉ [si, pi, so, po, se, pe] → wc.os.fd j = w.os.fd j) := by
  -- in_
  have A := fdInitW_spec w 0 t0 hos
  have eA := fdInit_in w t0 h0
  generalize hwa : ({ fdInitW w 0 t0 with py := { w.py with nextOid := w.py.nextOid + 2 } } : W) = wa at eA
  have hwa_os : wa.os = (fdInitW w 0 t0).os := by rw [← hwa]
  have hwa_py : wa.py = { w.py with nextOid := w.py.nextOid + 2 } := by rw [← hwa]
  have hwa_f : wa.fault = w.fault := by rw [← hwa]; rfl
  obtain ⟨a1, a2, a3, a4, a5, a6, a7, a8, a9⟩ := A
  rw [← hwa_os] at a4 a5 a6 a7 a8
  -- out
  have h1a : wa.os.fd 1 = some t1 := by rw [a5]; grind
  have B := fdInitW_spec wa 1 t1 a4
  have eB := fdInit_out wa 1 t1 h1a (Or.inl rfl)
  obtain ⟨b1, b2, b3, b4, b5, b6, b7, b8, b9⟩ := B
  -- err
  have h2b : (fdInitW wa 1 t1).os.fd 2 = some t2 := by rw [b5, a5]; grind
  have C := fdInitW_spec (fdInitW wa 1 t1) 2 t2 b4
  have eC := fdInit_out (fdInitW wa 1 t1) 2 t2 h2b (Or.inr rfl)
  obtain ⟨c1, c2, c3, c4, c5, c6, c7, c8, c9⟩ := C
  -- names
  generalize hsi : w.os.free = si at *
  generalize hpi : (w.os.setFd si (some t0)).free = pi at *
  generalize hso : wa.os.free = so at *
  generalize hpo : (wa.os.setFd so (some t1)).free = po at *
  generalize hwb : fdInitW wa 1 t1 = wb at *
  generalize hse : wb.os.free = se at *
  generalize hpe : (wb.os.setFd se (some t2)).free = pe at *
  generalize hwc : fdInitW wb 2 t2 = wc at *
  have ne_of : ∀ {o : OS} {a b x : Nat}, o.fd a = none → o.fd b = some x → a ≠ b := by
    intro o a b x ha hb e; rw [e, hb] at ha; cases ha
  -- descriptors of the first construction in `wa`
  have wa_pi : wa.os.fd pi = some w.os.files.length := by rw [a5]; simp
  have wa_si : wa.os.fd si = some t0 := by rw [a5, if_neg a3]; simp
  have wa_0 : wa.os.fd 0 = some t0 := by rw [a5, if_neg (by omega), if_neg (by omega)]; exact h0
  have wa_2 : wa.os.fd 2 = some t2 := by rw [a5, if_neg (by omega), if_neg (by omega)]; exact h2
  have f_so : wa.os.fd so = none := by rw [← hso]; exact wa.os.fd_free
  have f_po : (wa.os.setFd so (some t1)).fd po = none := by rw [← hpo]; exact (wa.os.setFd so (some t1)).fd_free
  have f_po' : wa.os.fd po = none := by rw [OS.fd_setFd, if_neg (Ne.symm b3)] at f_po; exact f_po
  -- in `wb`
  have wb_fd : ∀ j, j ≠ po → j ≠ so → wb.os.fd j = wa.os.fd j := by intro j x y; rw [b5, if_neg x, if_neg y]
  have wb_pi : wb.os.fd pi = some w.os.files.length := by rw [wb_fd _ (ne_of f_po' wa_pi).symm (ne_of f_so wa_pi).symm, wa_pi]
  have wb_si : wb.os.fd si = some t0 := by rw [wb_fd _ (ne_of f_po' wa_si).symm (ne_of f_so wa_si).symm, wa_si]
  have wb_0 : wb.os.fd 0 = some t0 := by rw [wb_fd _ (by omega) (by omega), wa_0]
  have wb_1 : wb.os.fd 1 = some t1 := by rw [wb_fd _ (by omega) (by omega), h1a]
  have wb_so : wb.os.fd so = some t1 := by rw [b5, if_neg b3]; simp
  have wb_po : wb.os.fd po = some wa.os.files.length := by rw [b5]; simp
  have f_se : wb.os.fd se = none := by rw [← hse]; exact wb.os.fd_free
  have f_pe : (wb.os.setFd se (some t2)).fd pe = none := by rw [← hpe]; exact (wb.os.setFd se (some t2)).fd_free
  have f_pe' : wb.os.fd pe = none := by rw [OS.fd_setFd, if_neg (Ne.symm c3)] at f_pe; exact f_pe
  have wc_fd : ∀ j, j ≠ pe → j ≠ se → wc.os.fd j = wb.os.fd j := by intro j x y; rw [c5, if_neg x, if_neg y]
  refine ⟨wc, si, pi, so, po, se, pe, ?_, a1, a2, b1, b2, c1, c2, ?_⟩
  · simp only [getMulticapture, ctorsOf_fd, mkCap, eA, eB, eC]
    have o1 : wa.py.nextOid = w.py.nextOid + 2 := by rw [hwa_py]
    have o2 : wb.py.nextOid = w.py.nextOid + 3 := by rw [← hwb]; simp [fdInitW, hwa_py]
    have g1 : wa.py.getStd 1 = w.py.stdout := by rw [hwa_py]; rfl
    have g2 : wb.py.getStd 2 = w.py.stderr := by rw [← hwb]; simp [fdInitW, hwa_py, Py.getStd]
    simp [o1, o2, g1, g2]
  · have n1 := ne_of f_so wa_si; have n2 := ne_of f_so wa_pi
    have n3 := ne_of f_po' wa_si; have n4 := ne_of f_po' wa_pi
    have n5 := ne_of f_se wb_si; have n6 := ne_of f_se wb_pi; have n7 := ne_of f_se wb_so; have n8 := ne_of f_se wb_po
    have m5 := ne_of f_pe' wb_si; have m6 := ne_of f_pe' wb_pi; have m7 := ne_of f_pe' wb_so; have m8 := ne_of f_pe' wb_po
    have z_si : w.os.fd si = none := by rw [← hsi]; exact w.os.fd_free
    have z_pi : w.os.fd pi = none := by
      have : (w.os.setFd si (some t0)).fd pi = none := by rw [← hpi]; exact (w.os.setFd si (some t0)).fd_free
      rw [OS.fd_setFd, if_neg (Ne.symm a3)] at this; exact this
    have wa_w : ∀ j, j ≠ pi → j ≠ si → wa.os.fd j = w.os.fd j := by intro j x y; rw [a5, if_neg x, if_neg y]
    have z_so : w.os.fd so = none := by rw [← wa_w _ n2 n1]; exact f_so
    have z_po : w.os.fd po = none := by rw [← wa_w _ n4 n3]; exact f_po'
    have z_se : w.os.fd se = none := by rw [← wa_w _ n6 n5, ← wb_fd _ n8 n7]; exact f_se
    have z_pe : w.os.fd pe = none := by rw [← wa_w _ m6 m5, ← wb_fd _ m8 m7]; exact f_pe'
    refine ⟨?_, ?_, ?_, ?_, ?_, ?_, ?_, ?_, ?_, ?_, ?_, ?_, ?_, ?_, ?_, ?_⟩
    rotate_left 13
    · simp only [List.nodup_cons, List.mem_cons, List.not_mem_nil, or_false, not_or, List.nodup_nil, and_true]
      exact ⟨⟨a3, n1.symm, n3.symm, n5.symm, m5.symm⟩, ⟨n2.symm, n4.symm, n6.symm, m6.symm⟩, ⟨b3, n7.symm, m7.symm⟩,
        ⟨n8.symm, m8.symm⟩, c3, not_false⟩
    · intro x hx
      simp only [List.mem_cons, List.not_mem_nil, or_false] at hx
      rcases hx with rfl | rfl | rfl | rfl | rfl | rfl <;> assumption
    · intro j hj
      simp only [List.mem_cons, List.not_mem_nil, or_false, not_or] at hj
      obtain ⟨j1, j2, j3, j4, j5, j6⟩ := hj
      rw [wc_fd _ j6 j5, wb_fd _ j4 j3, wa_w _ j2 j1]
    · rw [wc_fd _ (by omega) (by omega), wb_0]
    · rw [wc_fd _ (by omega) (by omega), wb_1]
    · rw [wc_fd _ (by omega) (by omega), h2b]
    · rw [wc_fd _ (ne_of f_pe' wb_si).symm (ne_of f_se wb_si).symm, wb_si]
    · rw [wc_fd _ (ne_of f_pe' wb_so).symm (ne_of f_se wb_so).symm, wb_so]
    · rw [c5, if_neg c3]; simp
    · rw [wc_fd _ (ne_of f_pe' wb_pi).symm (ne_of f_se wb_pi).symm, wb_pi]
    · rw [wc_fd _ (ne_of f_pe' wb_po).symm (ne_of f_se wb_po).symm, wb_po, a7]
    · rw [c5]; simp [b7, a7]
    · intro f; rw [c6, b6, a6]
    · rw [c8, b8, a8]
    · rw [c9, b9, hwa_f]
    · rw [← hwc, ← hwb]; simp [fdInitW, hwa_py]


theorem postParse_capture_fd (cfg : Cfg) (st : St) (hm : cfg.method = .fd) (hw : StdW st.w)
    (t0 t1 t2 : Nat) (h0 : st.w.os.fd 0 = some t0) (h1 : st.w.os.fd 1 = some t1) (h2 : st.w.os.fd 2 = some t2) :
    ∃ p : FdP, FdReady (step cfg st (.postParse "capture")) p .started ∧
      p.t0 = t0 ∧ p.t1 = t1 ∧ p.t2 = t2 ∧
      p.g0 = st.w.os.files.length ∧ p.g1 = st.w.os.files.length + 1 ∧ p.g2 = st.w.os.files.length + 2 ∧
      (∀ f, (step cfg st (.postParse "capture")).w.os.file f = st.w.os.file f) ∧
      (step cfg st (.postParse "capture")).w.os.count = st.w.os.count + 6 ∧
      (step cfg st (.postParse "capture")).secs = st.secs ∧
      (step cfg st (.postParse "capture")).tasks = st.tasks ∧
      (step cfg st (.postParse "capture")).collectFailed = st.collectFailed ∧
      miscOf (step cfg st (.postParse "capture")).w.py = miscOf (preCapture cfg st).w.py ∧
      (∀ x ∈ [p.si, p.pi, p.so, p.po, p.se, p.pe], st.w.os.fd x = none) ∧
      (∀ j, 3 ≤ j → j ∉ [p.si, p.pi, p.so, p.po, p.se, p.pe] → (step cfg st (.postParse "capture")).w.os.fd j = st.w.os.fd j) ∧
      p.sin = st.w.py.stdin := by
  rw [step_postParse_capture]
  obtain ⟨hos, hso, hse, hnf⟩ := hw
  have k1 : (preCapture cfg st).cm = some ⟨.fd, none⟩ := by simp [preCapture, hm]
  have k2 : (preCapture cfg st).w.os = st.w.os := rfl
  have k3 : (preCapture cfg st).w.py.stdin = st.w.py.stdin := rfl
  have k4 : (preCapture cfg st).w.py.stdout = .orig 1 := hso
  have k5 : (preCapture cfg st).w.py.stderr = .orig 2 := hse
  have k6 : (preCapture cfg st).w.fault = false := hnf
  have k7 : (preCapture cfg st).secs = st.secs := rfl
  have k8 : (preCapture cfg st).tasks = st.tasks := rfl
  have k9 : (preCapture cfg st).collectFailed = st.collectFailed := rfl
  generalize preCapture cfg st = st1 at *
  rw [← k2] at hos h0 h1 h2
  obtain ⟨wc, si, pi, so, po, se, pe, eG, g1, g2, g3, g4, g5, g6, c0, c1, c2, csi, cso, cse, cpi, cpo, cpe, cfile, ccount, cfault, cpy, cdist, cclosed, cframe⟩ :=
    getMulticapture_fd st1.w t0 t1 t2 hos h0 h1 h2
  rw [k4, k5] at eG
  rw [← k2]
  generalize hn : st1.w.os.files.length = n at *
  generalize hoid : st1.w.py.nextOid = oid at *
  refine ⟨⟨si, pi, oid, oid + 1, so, po, oid + 2, se, pe, oid + 3, t0, t1, t2, n, n + 1, n + 2, st1.w.py.stdin⟩, ?_⟩
  -- the world after start ×3 and suspend ×2
  have e : runCalls 0 "" id st1 [.stop, .start, .suspend false] =
      { st1 with
          w := { wc with os := ((((wc.os.setFd 0 (some n)).setFd 1 (some (n + 1))).setFd 2 (some (n + 2))).setFd 1 (some t1)).setFd 2 (some t2)
                         py := { wc.py with stdin := .dontRead (oid + 1) } }
          cm := some ⟨.fd, some (fdMC ⟨si, pi, oid, oid + 1, so, po, oid + 2, se, pe, oid + 3, t0, t1, t2, n, n + 1, n + 2, st1.w.py.stdin⟩ .started)⟩ } := by
    have d1 : (wc.os.setFd 0 (some n)).fd po = some (n + 1) := by rw [OS.fd_setFd, if_neg (by omega)]; exact cpo
    have d2 : ((wc.os.setFd 0 (some n)).setFd 1 (some (n + 1))).fd pe = some (n + 2) := by
      rw [OS.fd_setFd, if_neg (by omega), OS.fd_setFd, if_neg (by omega)]; exact cpe
    have d3 : (((wc.os.setFd 0 (some n)).setFd 1 (some (n + 1))).setFd 2 (some (n + 2))).fd so = some t1 := by
      rw [OS.fd_setFd, if_neg (by omega), OS.fd_setFd, if_neg (by omega), OS.fd_setFd, if_neg (by omega)]; exact cso
    have d4 : ((((wc.os.setFd 0 (some n)).setFd 1 (some (n + 1))).setFd 2 (some (n + 2))).setFd 1 (some t1)).fd se = some t2 := by
      rw [OS.fd_setFd, if_neg (by omega), OS.fd_setFd, if_neg (by omega), OS.fd_setFd, if_neg (by omega), OS.fd_setFd, if_neg (by omega)]; exact cse
    simp only [runCalls, List.foldl_cons, List.foldl_nil, runCall, withCM, k1, CM.stopCapturing, CM.startCapturing, eG]
    simp [MC.startCapturing, optCap, Cap.start, FdCap.start_init, OS.dup2_of_some _ _ _ _ cpi, OS.dup2_of_some _ _ _ _ d1,
      OS.dup2_of_some _ _ _ _ d2, CM.suspend, MC.suspendCapturing, Cap.suspend, FdCap.suspend_started,
      OS.dup2_of_some _ _ _ _ d3, OS.dup2_of_some _ _ _ _ d4, Py.setStd, fdMC, cpy, k4, k5, k3]
  rw [e]
  refine ⟨⟨rfl, Or.inl rfl, ⟨g1, g2, g3, g4, g5, g6⟩, ?_, ?_, ?_, ?_, ?_, ?_, ?_, ?_, ?_, ?_, ?_, ?_, ?_, ?_, by simp, ?_, cdist⟩,
    rfl, rfl, rfl, rfl, rfl, rfl, ?_, ?_, k7, k8, k9, ?_, cclosed, ?_, k3⟩
  · simp
  · simp
  · simp only []; rw [OS.fd_setFd, if_neg (by omega), OS.fd_setFd, if_neg (by omega), OS.fd_setFd, if_neg (by omega), OS.fd_setFd, if_neg (by omega), OS.fd_setFd, if_neg (by omega)]; exact cso
  · simp only []; rw [OS.fd_setFd, if_neg (by omega), OS.fd_setFd, if_neg (by omega), OS.fd_setFd, if_neg (by omega), OS.fd_setFd, if_neg (by omega), OS.fd_setFd, if_neg (by omega)]; exact cse
  · simp only []; rw [OS.fd_setFd, if_neg (by omega), OS.fd_setFd, if_neg (by omega), OS.fd_setFd, if_neg (by omega), OS.fd_setFd, if_neg (by omega), OS.fd_setFd, if_neg (by omega)]; exact csi
  · simp only []; rw [OS.fd_setFd, if_neg (by omega), OS.fd_setFd, if_neg (by omega), OS.fd_setFd, if_neg (by omega), OS.fd_setFd, if_neg (by omega), OS.fd_setFd, if_neg (by omega)]; exact cpo
  · simp only []; rw [OS.fd_setFd, if_neg (by omega), OS.fd_setFd, if_neg (by omega), OS.fd_setFd, if_neg (by omega), OS.fd_setFd, if_neg (by omega), OS.fd_setFd, if_neg (by omega)]; exact cpe
  · simp only []; rw [OS.fd_setFd, if_neg (by omega), OS.fd_setFd, if_neg (by omega), OS.fd_setFd, if_neg (by omega), OS.fd_setFd, if_neg (by omega), OS.fd_setFd, if_neg (by omega)]; exact cpi
  · simp
  · simp
  · simp [cpy]; exact k4
  · simp [cpy]; exact k5
  · simp only [OS.file_setFd, cfile]; simp only [OS.file, List.getD_eq_getElem?_getD]; rw [List.getElem?_eq_none (by omega)]; rfl
  · simp only [OS.file_setFd, cfile]; simp only [OS.file, List.getD_eq_getElem?_getD]; rw [List.getElem?_eq_none (by omega)]; rfl
  · simp [cfault]; exact k6
  · intro f; simp only [OS.file_setFd, cfile]
  · simp only []
    rw [OS.count_setFd_some _ 2 (n + 2) _ (by simp), OS.count_setFd_some _ 1 (n + 1) _ (by simp),
      OS.count_setFd_some _ 2 t2 _ (by simp; exact c2), OS.count_setFd_some _ 1 t1 _ (by simp; exact c1),
      OS.count_setFd_some _ 0 t0 _ c0, ccount]
  · simp [miscOf, cpy, k4, k5]
  · intro j hj hn
    simp only []
    rw [OS.fd_setFd, if_neg (by omega), OS.fd_setFd, if_neg (by omega), OS.fd_setFd, if_neg (by omega), OS.fd_setFd,
      if_neg (by omega), OS.fd_setFd, if_neg (by omega)]
    exact cframe j hn

/-! ### `stop_capturing` at `pytask_unconfigure` (commit 124aca8) -/

theorem OS.count_close_open (o : OS) (i f : Nat) (h : o.fd i = some f) : (o.setFd i none).count + 1 = o.count := by
  have := o.count_setFd i none; simp [h] at this; omega
theorem OS.count_close_closed (o : OS) (i : Nat) (h : o.fd i = none) : (o.setFd i none).count = o.count := by
  have := o.count_setFd i none; simp [h] at this; omega

theorem FdCap.done_out (w : W) (target s p oid : Nat) (old : Stream) (st : CapState) (hst : st = .started ∨ st = .suspended) :
    (FdCap.done w (fdCap target s p oid ⟨target, some old, .file oid p, st⟩ st)).1 =
      { w with os := (((w.os.dup2 s target).setFd s none).setFd p none).setFd p none, py := w.py.setStd target old } := by
  rcases hst with rfl | rfl <;> simp [FdCap.done, fdCap, optSys, SysCap.done, closeStream, W.setStd]

theorem FdCap.done_in (w : W) (s p oid oid' : Nat) (old : Stream) (st : CapState) (hst : st = .started ∨ st = .suspended) :
    (FdCap.done w (fdCap 0 s p oid ⟨0, some old, .dontRead oid', st⟩ st)).1 =
      { w with os := ((w.os.dup2 s 0).setFd s none).setFd p none, py := w.py.setStd 0 old } := by
  rcases hst with rfl | rfl <;> simp [FdCap.done, fdCap, optSys, SysCap.done, closeStream, W.setStd]

/-- the descriptor table after `MultiCapture.stop_capturing` in fd mode -/
def fdStopOut (o : OS) (t s p : Nat) (tgt : Nat) : OS := (((o.setFd tgt (some t)).setFd s none).setFd p none).setFd p none
def fdStopOS (o : OS) (p : FdP) : OS :=
  (((fdStopOut (fdStopOut o p.t1 p.so p.po 1) p.t2 p.se p.pe 2).setFd 0 (some p.t0)).setFd p.si none).setFd p.pi none

theorem fdStopOut_spec (o : OS) (t s p tgt x g : Nat) (hs : 3 ≤ s) (hp : 3 ≤ p) (ht : tgt < 3) (hsp : s ≠ p)
    (f1 : o.fd tgt = some x) (fs : o.fd s = some t) (fp : o.fd p = some g) :
    (∀ j, (fdStopOut o t s p tgt).fd j = if j = s ∨ j = p then none else if j = tgt then some t else o.fd j) ∧
    (fdStopOut o t s p tgt).count + 2 = o.count ∧ (fdStopOut o t s p tgt).files = o.files := by
  refine ⟨?_, ?_, rfl⟩
  · intro j; simp only [fdStopOut]; grind
  · unfold fdStopOut
    have c1 := OS.count_setFd_some o tgt x t f1
    have c2 := OS.count_close_open (o.setFd tgt (some t)) s t (by grind)
    have c3 := OS.count_close_open ((o.setFd tgt (some t)).setFd s none) p g (by grind)
    have c4 := OS.count_close_closed (((o.setFd tgt (some t)).setFd s none).setFd p none) p (by grind)
    omega

theorem fdStopOS_spec (o : OS) (p : FdP) (x : Nat)
    (ge : 3 ≤ p.si ∧ 3 ≤ p.pi ∧ 3 ≤ p.so ∧ 3 ≤ p.po ∧ 3 ≤ p.se ∧ 3 ≤ p.pe)
    (dist : [p.si, p.pi, p.so, p.po, p.se, p.pe].Nodup)
    (f0 : o.fd 0 = some x) (f1 : o.fd 1 = some p.t1) (f2 : o.fd 2 = some p.t2)
    (fso : o.fd p.so = some p.t1) (fse : o.fd p.se = some p.t2) (fsi : o.fd p.si = some p.t0)
    (fpo : o.fd p.po = some p.g1) (fpe : o.fd p.pe = some p.g2) (fpi : o.fd p.pi = some p.g0) :
    (∀ j, (fdStopOS o p).fd j = if j ∈ [p.si, p.pi, p.so, p.po, p.se, p.pe] then none else if j = 0 then some p.t0 else o.fd j) ∧
    (fdStopOS o p).count + 6 = o.count ∧ (fdStopOS o p).files = o.files := by
  obtain ⟨g1, g2, g3, g4, g5, g6⟩ := ge
  simp only [List.nodup_cons, List.mem_cons, List.not_mem_nil, or_false, not_or, List.nodup_nil, and_true, not_false_eq_true] at dist
  obtain ⟨⟨d1, d2, d3, d4, d5⟩, ⟨d6, d7, d8, d9⟩, ⟨d10, d11, d12⟩, ⟨d13, d14⟩, d15⟩ := dist
  unfold fdStopOS
  obtain ⟨a1, a2, a3⟩ := fdStopOut_spec o p.t1 p.so p.po 1 p.t1 p.g1 g3 g4 (by omega) d10 f1 fso fpo
  generalize fdStopOut o p.t1 p.so p.po 1 = oa at *
  obtain ⟨b1, b2, b3⟩ := fdStopOut_spec oa p.t2 p.se p.pe 2 p.t2 p.g2 g5 g6 (by omega) d15
    (by rw [a1]; grind) (by rw [a1]; grind) (by rw [a1]; grind)
  generalize fdStopOut oa p.t2 p.se p.pe 2 = ob at *
  have h0 : ob.fd 0 = some x := by rw [b1, a1]; grind
  have hsi : ob.fd p.si = some p.t0 := by rw [b1, a1]; grind
  have hpi : ob.fd p.pi = some p.g0 := by rw [b1, a1]; grind
  refine ⟨?_, ?_, ?_⟩
  · intro j
    simp only [List.mem_cons, List.not_mem_nil, or_false, OS.fd_setFd, b1, a1]
    by_cases hmem : j = p.si ∨ j = p.pi ∨ j = p.so ∨ j = p.po ∨ j = p.se ∨ j = p.pe
    · rw [if_pos hmem]
      rcases hmem with h | h | h | h | h | h <;> subst h <;> simp_all <;> intros <;>
        first | omega | (rw [if_neg (by omega), if_neg (by omega)])
    · rw [if_neg hmem]
      simp only [not_or] at hmem
      obtain ⟨e1, e2, e3, e4, e5, e6⟩ := hmem
      simp only [e1, e2, e3, e4, e5, e6, if_false, or_self]
      by_cases e7 : j = 0
      · subst e7; simp
      · simp only [e7, if_false]
        by_cases e9 : j = 2
        · subst e9; simp [f2]
        · simp only [e9, if_false]
          by_cases e8 : j = 1
          · subst e8; simp [f1]
          · simp [e8]
  · have c1 := OS.count_setFd_some ob 0 x p.t0 h0
    have c2 := OS.count_close_open (ob.setFd 0 (some p.t0)) p.si p.t0 (by rw [OS.fd_setFd, if_neg (by omega)]; exact hsi)
    have c3 := OS.count_close_open ((ob.setFd 0 (some p.t0)).setFd p.si none) p.pi p.g0
      (by rw [OS.fd_setFd, if_neg (Ne.symm d1), OS.fd_setFd, if_neg (by omega)]; exact hpi)
    omega
  · show ob.files = o.files
    rw [b3, a3]


theorem step_unconfigure_capture (cfg : Cfg) (st : St) :
    step cfg st (.unconfigure "capture") = withCM st CM.stopCapturing := rfl

/-- `capture.pytask_unconfigure` in fd mode: everything the capture manager did to the process is undone -/
theorem stop_fd (cfg : Cfg) (st : St) (p : FdP) (ins : CapState) (h : FdReady st p ins) :
    (step cfg st (.unconfigure "capture")).cm = some ⟨.fd, none⟩ ∧
    (∀ j, (step cfg st (.unconfigure "capture")).w.os.fd j =
      if j ∈ [p.si, p.pi, p.so, p.po, p.se, p.pe] then none else if j = 0 then some p.t0 else st.w.os.fd j) ∧
    (step cfg st (.unconfigure "capture")).w.os.count + 6 = st.w.os.count ∧
    (∀ f, (step cfg st (.unconfigure "capture")).w.os.file f = st.w.os.file f) ∧
    (step cfg st (.unconfigure "capture")).w.py = { st.w.py with stdin := p.sin } ∧
    (step cfg st (.unconfigure "capture")).w.fault = false ∧
    (step cfg st (.unconfigure "capture")).secs = st.secs ∧
    (step cfg st (.unconfigure "capture")).tasks = st.tasks ∧
    (step cfg st (.unconfigure "capture")).collectFailed = st.collectFailed := by
  obtain ⟨hcm, hins, ge, fd1, fd2, fso, fse, fsi, fpo, fpe, fpi, fd0, sin, sout, serr, e1, e2, ne, nf, hdist⟩ := h
  have hread := read_fd st.w p ins fpo fpe
  have e : step cfg st (.unconfigure "capture") =
      { st with w := { st.w with os := fdStopOS ((st.w.os.setFile p.g1 []).setFile p.g2 []) p
                                 py := { st.w.py with stdin := p.sin, stdout := .orig 1, stderr := .orig 2 } }
                cm := some ⟨.fd, none⟩ } := by
    rw [step_unconfigure_capture]
    have x1 : ((st.w.os.setFile p.g1 []).setFile p.g2 []).fd p.so = some p.t1 := by simpa using fso
    have x2 : ∀ (o : OS), o.fd p.se = some p.t2 → o.dup2 p.se 2 = o.setFd 2 (some p.t2) := fun o h => OS.dup2_of_some _ _ _ _ h
    have x3 : ∀ (o : OS), o.fd p.si = some p.t0 → o.dup2 p.si 0 = o.setFd 0 (some p.t0) := fun o h => OS.dup2_of_some _ _ _ _ h
    have hx : (st.w.os.setFile p.g1 []).file p.g2 = [] := by rw [OS.file_setFile, if_neg ne.symm]; exact e2
    simp only [withCM, hcm, CM.stopCapturing, MC.popOuterrToOrig, hread, e1, hx, List.isEmpty_nil, if_true]
    simp only [MC.stopCapturing, fdMC, optCap, Cap.done, FdCap.done_out _ _ _ _ _ _ _ (Or.inr rfl), FdCap.done_in _ _ _ _ _ _ _ hins]
    obtain ⟨g1, g2, g3, g4, g5, g6⟩ := ge
    have hd := hdist
    simp only [List.nodup_cons, List.mem_cons, List.not_mem_nil, or_false, not_or, List.nodup_nil, and_true, not_false_eq_true] at hd
    obtain ⟨⟨d1, d2, d3, d4, d5⟩, ⟨d6, d7, d8, d9⟩, ⟨d10, d11, d12⟩, ⟨d13, d14⟩, d15⟩ := hd
    generalize hos0 : (st.w.os.setFile p.g1 []).setFile p.g2 [] = os0 at *
    have q1 : os0.fd 1 = some p.t1 := by rw [← hos0]; simpa using fd1
    have qso : os0.fd p.so = some p.t1 := by rw [← hos0]; simpa using fso
    have qpo : os0.fd p.po = some p.g1 := by rw [← hos0]; simpa using fpo
    have qse : os0.fd p.se = some p.t2 := by rw [← hos0]; simpa using fse
    have qpe : os0.fd p.pe = some p.g2 := by rw [← hos0]; simpa using fpe
    have qsi : os0.fd p.si = some p.t0 := by rw [← hos0]; simpa using fsi
    have q2 : os0.fd 2 = some p.t2 := by rw [← hos0]; simpa using fd2
    obtain ⟨a1, _, _⟩ := fdStopOut_spec os0 p.t1 p.so p.po 1 p.t1 p.g1 g3 g4 (by omega) d10 q1 qso qpo
    have r2 : (fdStopOut os0 p.t1 p.so p.po 1).fd 2 = some p.t2 := by
      rw [a1, if_neg (by omega), if_neg (by omega)]; exact q2
    have rse : (fdStopOut os0 p.t1 p.so p.po 1).fd p.se = some p.t2 := by
      rw [a1, if_neg (by intro h; rcases h with h | h; exact d11 h.symm; exact d13 h.symm), if_neg (by omega)]; exact qse
    have rpe : (fdStopOut os0 p.t1 p.so p.po 1).fd p.pe = some p.g2 := by
      rw [a1, if_neg (by intro h; rcases h with h | h; exact d12 h.symm; exact d14 h.symm), if_neg (by omega)]; exact qpe
    have rsi : (fdStopOut os0 p.t1 p.so p.po 1).fd p.si = some p.t0 := by
      rw [a1, if_neg (by intro h; rcases h with h | h; exact d2 h; exact d3 h), if_neg (by omega)]; exact qsi
    obtain ⟨b1, _, _⟩ := fdStopOut_spec (fdStopOut os0 p.t1 p.so p.po 1) p.t2 p.se p.pe 2 p.t2 p.g2 g5 g6 (by omega) d15 r2 rse rpe
    have ssi : (fdStopOut (fdStopOut os0 p.t1 p.so p.po 1) p.t2 p.se p.pe 2).fd p.si = some p.t0 := by
      rw [b1, if_neg (by intro h; rcases h with h | h; exact d4 h; exact d5 h), if_neg (by omega)]; exact rsi
    have y1 := OS.dup2_of_some _ _ 1 _ qso
    have y2 := OS.dup2_of_some _ _ 2 _ rse
    have y3 := OS.dup2_of_some _ _ 0 _ ssi
    simp only [fdStopOut] at y2 y3
    rw [y1, y2, y3]
    simp [fdStopOS, fdStopOut, Py.setStd]
  rw [e]
  have q0 : ∃ x, ((st.w.os.setFile p.g1 []).setFile p.g2 []).fd 0 = some x := ⟨_, by simpa using fd0⟩
  obtain ⟨x, q0⟩ := q0
  obtain ⟨s1, s2, s3⟩ := fdStopOS_spec ((st.w.os.setFile p.g1 []).setFile p.g2 []) p x ge hdist q0
    (by simpa using fd1) (by simpa using fd2) (by simpa using fso) (by simpa using fse) (by simpa using fsi)
    (by simpa using fpo) (by simpa using fpe) (by simpa using fpi)
  refine ⟨rfl, ?_, ?_, ?_, ?_, nf, rfl, rfl, rfl⟩
  · intro j; simp only []; rw [s1 j]; simp
  · simp only []; rw [s2]; rfl
  · intro f
    simp only [OS.file, s3]
    show ((st.w.os.setFile p.g1 []).setFile p.g2 []).file f = st.w.os.file f
    rw [OS.file_setFile, OS.file_setFile]
    by_cases h2 : f = p.g2
    · rw [if_pos h2, h2, e2]
    · rw [if_neg h2]
      by_cases h1 : f = p.g1
      · rw [if_pos h1, h1, e1]
      · rw [if_neg h1]
  · simp only []; rw [← sout, ← serr]



theorem stop_sys (cfg : Cfg) (st : St) (p : SysP) (ins : CapState) (h : SysReady st p ins) :
    (step cfg st (.unconfigure "capture")).cm = some ⟨p.method, none⟩ ∧
    (step cfg st (.unconfigure "capture")).w.os = st.w.os ∧
    (∃ B, (step cfg st (.unconfigure "capture")).w.py =
      { st.w.py with stdin := if p.tee then st.w.py.stdin else p.sin, bufs := B }) ∧
    (step cfg st (.unconfigure "capture")).w.fault = false ∧
    (step cfg st (.unconfigure "capture")).secs = st.secs ∧
    (step cfg st (.unconfigure "capture")).tasks = st.tasks ∧
    (step cfg st (.unconfigure "capture")).collectFailed = st.collectFailed := by
  obtain ⟨hcm, hins, fd1, fd2, sin, sout, serr, e1, e2, ne, nf⟩ := h
  have hread := read_sys st.w p ins
  have hx : (st.w.setBuf p.b1 []).buf p.b2 = [] := by rw [W.buf_setBuf, if_neg ne.symm]; exact e2
  rw [step_unconfigure_capture]
  simp only [withCM, hcm, CM.stopCapturing, MC.popOuterrToOrig, hread, e1, hx, List.isEmpty_nil, if_true]
  cases hp : p.tee <;> rcases hins with rfl | rfl <;>
    simp [MC.stopCapturing, sysMC, optCap, Cap.done, SysCap.done, closeStream, SysP.tmpO, SysP.tmpE, hp, W.setStd, Py.setStd, W.setBuf,
      nf, ← sout, ← serr] <;> exact ⟨_, rfl⟩

theorem stop_no (cfg : Cfg) (st : St) (t1 t2 : Nat) (h : NoReady st t1 t2) :
    step cfg st (.unconfigure "capture") = { st with cm := some ⟨.no, none⟩ } := by
  rw [step_unconfigure_capture]
  simp [withCM, h.cm, CM.stopCapturing, MC.popOuterrToOrig, MC.readouterr, MC.snapOpt, noMC, MC.stopCapturing, optCap]

/-! ## Layer 4 — a whole build -/

theorem buildOps_eq (cfg : Cfg) (mods : List ModSpec) (ios : List TaskIO) (h : cfg.configFails = false) :
    buildOps cfg mods ios =
      [Op.postParse "warnings", .postParse "profile", .postParse "mark", .postParse "logging", .postParse "live",
       .postParse "execute", .postParse "database", .postParse "config", .postParse "capture", .postParse "build",
       .postParse "debugging", .collect mods, .collectLog] ++ (phaseList ios).map Phase.op ++
      [.unconfigure "task", .unconfigure "logging", .unconfigure "provisional", .unconfigure "debugging",
       .unconfigure "database", .unconfigure "capture", .unconfigure "build"] := by
  simp [buildOps, h, Generated.postParseOrder, Generated.unconfigureAfterLadder, Generated.unconfigureImpls, phaseOps_eq]

/-- the session state a build starts with -/
def fresh (st : St) : St := { st with secs := [], tasks := [], collectFailed := false }

/-- the state just before `capture.pytask_post_parse`: logging and the database have been configured -/
def beforeCapture (cfg : Cfg) (st : St) : St :=
  { fresh st with w := { st.w with os := st.w.os.openNew.1
                                   py := { st.w.py with reportVars := cfg.reportVars
                                                        garbage := st.w.py.garbage ++ st.w.py.dbFd.toList
                                                        dbFd := some st.w.os.free } } }

theorem runOps_config_prefix (cfg : Cfg) (st : St) :
    runOps cfg (fresh st) [Op.postParse "warnings", .postParse "profile", .postParse "mark", .postParse "logging", .postParse "live",
       .postParse "execute", .postParse "database", .postParse "config"] = beforeCapture cfg st := rfl

theorem beforeCapture_std (cfg : Cfg) (st : St) (hw : StdW st.w) : StdW (beforeCapture cfg st).w :=
  ⟨hw.os.openNew, hw.sout, hw.serr, hw.nofault⟩

theorem beforeCapture_fd (cfg : Cfg) (st : St) (hw : StdW st.w) (j : Nat) (hj : j < 3) :
    (beforeCapture cfg st).w.os.fd j = st.w.os.fd j := by
  have := st.w.os.free_ge3 hw.os
  show st.w.os.openNew.1.fd j = _
  rw [OS.fd_openNew, if_neg (by omega)]


theorem Inert.ofEq {st st' : St} (h : st' = st) : Inert st st' := by subst h; exact ⟨rfl, rfl, rfl, rfl, rfl, rfl, rfl, rfl⟩

/-- `Inert` steps used in a build, with what they do to the registries -/
theorem inert_debugging_pp (cfg : Cfg) (st : St) : Inert st (step cfg st (.postParse "debugging")) :=
  ⟨rfl, rfl, rfl, rfl, rfl, rfl, rfl, rfl⟩

/-- the first four `pytask_unconfigure` implementations, given that `debugging.pytask_post_parse` pushed -/
theorem unconfigure_pre (cfg : Cfg) (st : St) (x : Nat) (rest : List Nat) (h : st.w.py.pdbSaved = x :: rest) :
    let st' := runOps cfg st [.unconfigure "task", .unconfigure "logging", .unconfigure "provisional", .unconfigure "debugging"]
    Inert st st' ∧ st'.tasks = st.tasks ∧ st'.collectFailed = st.collectFailed ∧
    st'.w.py = { st.w.py with collected := [], reportVars := 0, provisional := [], setTrace := x, pdbSaved := rest } := by
  simp only [runOps, List.foldl_cons, List.foldl_nil, step_unconfigure_task, step_unconfigure_logging,
    step_unconfigure_provisional]
  rw [step_unconfigure_debugging _ _ x rest (by simpa using h)]
  exact ⟨⟨rfl, rfl, rfl, rfl, rfl, rfl, rfl, rfl⟩, rfl, rfl, rfl⟩

/-- the state after `database.pytask_unconfigure` disposed the engine holding descriptor `d` -/
def dbClosed (st : St) (d : Nat) : St :=
  { st with w := { st.w with os := st.w.os.setFd d none, py := { st.w.py with dbFd := none } } }

theorem step_unconfigure_database (cfg : Cfg) (st : St) (d : Nat) (h : st.w.py.dbFd = some d) :
    step cfg st (.unconfigure "database") = dbClosed st d := by
  show (match st.w.py.dbFd with | none => st | some d => _) = _
  rw [h]; rfl

theorem FdReady.dbClosed {st : St} {p : FdP} {ins : CapState} (h : FdReady st p ins) (d : Nat) (hd : 3 ≤ d)
    (hn : d ∉ [p.si, p.pi, p.so, p.po, p.se, p.pe]) : FdReady (dbClosed st d) p ins := by
  obtain ⟨a1, a2, a3, a4, a5, a6, a7, a8, a9, a10, a11, a12, a13, a14, a15, a16, a17, a18, a19, a20⟩ := h
  simp only [List.mem_cons, List.not_mem_nil, or_false, not_or] at hn
  obtain ⟨n1, n2, n3, n4, n5, n6⟩ := hn
  refine ⟨a1, a2, a3, ?_, ?_, ?_, ?_, ?_, ?_, ?_, ?_, ?_, a13, a14, a15, a16, a17, a18, a19, a20⟩
  all_goals (simp only [Pytask.Capture.dbClosed, OS.fd_setFd]; rw [if_neg (by first | omega | exact Ne.symm ‹_›)]; assumption)

theorem SysReady.dbClosed {st : St} {p : SysP} {ins : CapState} (h : SysReady st p ins) (d : Nat) (hd : 3 ≤ d) :
    SysReady (dbClosed st d) p ins := by
  obtain ⟨a1, a2, a3, a4, a5, a6, a7, a8, a9, a10, a11⟩ := h
  refine ⟨a1, a2, ?_, ?_, a5, a6, a7, a8, a9, a10, a11⟩
  all_goals (simp only [Pytask.Capture.dbClosed, OS.fd_setFd]; rw [if_neg (by omega)]; assumption)

theorem NoReady.dbClosed {st : St} {t1 t2 : Nat} (h : NoReady st t1 t2) (d : Nat) (hd : 3 ≤ d) :
    NoReady (dbClosed st d) t1 t2 := by
  obtain ⟨a1, a2, a3, a4, a5, a6⟩ := h
  refine ⟨a1, ?_, ?_, a4, a5, a6⟩
  all_goals (simp only [Pytask.Capture.dbClosed, OS.fd_setFd]; rw [if_neg (by omega)]; assumption)

/-- collection touches `sys.modules` and `COLLECTED_TASKS` only -/
theorem collect_py (cfg : Cfg) (st : St) (mods : List ModSpec) :
    ∃ ms cs, (step cfg st (.collect mods)).w.py = { st.w.py with modules := ms, collected := cs } := by
  have key : ∀ (l : List ModSpec) (p : Py), ∃ ms cs, (collectAll p l).1 = { p with modules := ms, collected := cs } := by
    intro l
    induction l with
    | nil => intro p; exact ⟨p.modules, p.collected, rfl⟩
    | cons m l ih =>
      intro p
      have h1 : ∃ ms cs, (collectModule p m).1 = { p with modules := ms, collected := cs } := by
        unfold collectModule; split
        · exact ⟨_, _, rfl⟩
        · split <;> exact ⟨_, _, rfl⟩
      obtain ⟨ms1, cs1, e1⟩ := h1
      obtain ⟨ms2, cs2, e2⟩ := ih (collectModule p m).1
      refine ⟨ms2, cs2, ?_⟩
      simp only [collectAll]; rw [e2, e1]
  obtain ⟨ms, cs, e⟩ := key mods st.w.py
  exact ⟨ms, cs, e⟩


theorem build_fd (cfg : Cfg) (st0 : St) (mods : List ModSpec) (ios : List TaskIO)
    (hm : cfg.method = .fd) (hcf : cfg.configFails = false) (hw : StdW st0.w) :
    (runBuild cfg mods ios st0).cm = some ⟨.fd, none⟩ ∧
    (runBuild cfg mods ios st0).secs = (phaseList ios).flatMap (Phase.secs (fun _ => true)) ∧
    (∀ f, f < st0.w.os.files.length → (runBuild cfg mods ios st0).w.os.file f = st0.w.os.file f) ∧
    (∀ j, (runBuild cfg mods ios st0).w.os.fd j = st0.w.os.fd j) ∧
    (runBuild cfg mods ios st0).w.os.count = st0.w.os.count ∧
    (runBuild cfg mods ios st0).w.fault = false ∧
    (runBuild cfg mods ios st0).w.py.stdin = st0.w.py.stdin ∧
    (runBuild cfg mods ios st0).w.py.stdout = .orig 1 ∧
    (runBuild cfg mods ios st0).w.py.stderr = .orig 2 ∧
    (runBuild cfg mods ios st0).w.py.filters = st0.w.py.filters ∧
    (runBuild cfg mods ios st0).w.py.setTrace = st0.w.py.setTrace ∧
    (runBuild cfg mods ios st0).w.py.pdbSaved = st0.w.py.pdbSaved ∧
    (runBuild cfg mods ios st0).w.py.reportVars = 0 ∧
    (runBuild cfg mods ios st0).w.py.provisional = [] ∧
    (runBuild cfg mods ios st0).w.py.collected = [] ∧
    (runBuild cfg mods ios st0).w.py.dbFd = none ∧
    (runBuild cfg mods ios st0).w.py.garbage =
      st0.w.py.garbage ++ st0.w.py.dbFd.toList ++ (st0.cm.map CM.owned).getD []
    ∧ (∃ P : Py, P.collected = st0.w.py.collected ∧ P.modules = st0.w.py.modules ∧
        (runBuild cfg mods ios st0).tasks = (collectAll P mods).2.1 ∧
        (runBuild cfg mods ios st0).collectFailed = (collectAll P mods).2.2) := by
  obtain ⟨⟨t0, e0⟩, ⟨t1, e1⟩, ⟨t2, e2⟩⟩ := hw.os
  have hb := beforeCapture_std cfg st0 hw
  have hd3 := st0.w.os.free_ge3 hw.os
  have hbfd : ∀ j, (beforeCapture cfg st0).w.os.fd j = if j = st0.w.os.free then some st0.w.os.files.length else st0.w.os.fd j := by
    intro j; exact OS.fd_openNew _ _
  obtain ⟨p, hp, pt0, pt1, pt2, pg0, pg1, pg2, cfile, ccount, csecs, ctasks, ccf, cmisc, cclosed, cframe, psin⟩ :=
    postParse_capture_fd cfg (beforeCapture cfg st0) hm hb t0 t1 t2
      (by rw [beforeCapture_fd cfg st0 hw 0 (by omega), e0]) (by rw [beforeCapture_fd cfg st0 hw 1 (by omega), e1])
      (by rw [beforeCapture_fd cfg st0 hw 2 (by omega), e2])
  -- the database descriptor is none of the capture's descriptors
  have hdn : st0.w.os.free ∉ [p.si, p.pi, p.so, p.po, p.se, p.pe] := by
    intro hmem
    have := cclosed _ hmem
    rw [hbfd, if_pos rfl] at this; cases this
  have hclosed0 : ∀ x ∈ [p.si, p.pi, p.so, p.po, p.se, p.pe], st0.w.os.fd x = none := by
    intro x hx
    have h1 := cclosed x hx
    rw [hbfd] at h1
    by_cases hxd : x = st0.w.os.free
    · rw [if_pos hxd] at h1; cases h1
    · rw [if_neg hxd] at h1; exact h1
  unfold runBuild
  rw [buildOps_eq cfg mods ios hcf]
  simp only [runOps, List.foldl_append, List.cons_append, List.nil_append]
  have hpre := runOps_config_prefix cfg st0
  simp only [runOps, fresh, List.foldl_cons, List.foldl_nil] at hpre
  simp only [List.foldl_cons, List.foldl_nil, List.foldl_append]
  rw [hpre]
  generalize hsc : step cfg (beforeCapture cfg st0) (.postParse "capture") = sc at *
  rw [step_postParse_neutral cfg sc "build" (by simp)]
  have i1 := inert_debugging_pp cfg sc
  generalize hsd : step cfg sc (.postParse "debugging") = sd at *
  have hsd_py : sd.w.py = { sc.w.py with pdbSaved := sc.w.py.setTrace :: sc.w.py.pdbSaved, setTrace := 1 } := by rw [← hsd]; rfl
  have i2 := inert_collect cfg sd mods
  generalize hse : step cfg sd (.collect mods) = se at *
  obtain ⟨ms, cs, hse_py⟩ := collect_py cfg sd mods
  rw [hse] at hse_py
  have r1 := (hp.inert i1).inert i2
  obtain ⟨r2, lfile, lcount, lsecs, ltasks, lcf, lmisc, lfd⟩ := collectLog_fd cfg se p r1
  generalize hsf : step cfg se .collectLog = sf at *
  obtain ⟨⟨ins, r3⟩, wsecs, wfile, wcount, wtasks, wcf, wmisc, wfd⟩ := (law_fd cfg p).phases (phaseList ios) sf ⟨_, r2⟩
  simp only [runOps] at r3 wsecs wfile wcount wtasks wcf wmisc wfd
  generalize hsg : List.foldl (step cfg) sf (List.map Phase.op (phaseList ios)) = sg at *
  have hbc : (preCapture cfg (beforeCapture cfg st0)).w.py = { (beforeCapture cfg st0).w.py with
      garbage := (beforeCapture cfg st0).w.py.garbage ++ ((beforeCapture cfg st0).cm.map CM.owned).getD [] } := rfl
  simp only [miscOf, Prod.mk.injEq] at cmisc lmisc wmisc
  have hpdb : sg.w.py.pdbSaved = st0.w.py.setTrace :: st0.w.py.pdbSaved := by
    rw [wmisc.2.2.1, lmisc.2.2.1, hse_py, hsd_py]; simp only []; rw [cmisc.2.1, cmisc.2.2.1, hbc]; rfl
  have hdb : sg.w.py.dbFd = some st0.w.os.free := by
    rw [wmisc.2.2.2.2.2.2.2.1, lmisc.2.2.2.2.2.2.2.1, hse_py, hsd_py]; simp only []; rw [cmisc.2.2.2.2.2.2.2.1, hbc]; rfl
  -- descriptors ≥ 3 outside the capture's are untouched up to here
  have hframe : ∀ j, 3 ≤ j → j ∉ [p.si, p.pi, p.so, p.po, p.se, p.pe] → sg.w.os.fd j = (beforeCapture cfg st0).w.os.fd j := by
    intro j hj hn
    rw [wfd j hj, lfd j hj, i2.os, i1.os, cframe j hj hn]
  -- unconfigure: task, logging, provisional, debugging
  obtain ⟨u1, u2, u3, u4⟩ := unconfigure_pre cfg sg _ _ hpdb
  simp only [runOps, List.foldl_cons, List.foldl_nil] at u1 u2 u3 u4
  generalize hsh : step cfg (step cfg (step cfg (step cfg sg (.unconfigure "task")) (.unconfigure "logging")) (.unconfigure "provisional"))
    (.unconfigure "debugging") = sh at *
  have r4 := r3.inert u1
  -- database
  rw [step_unconfigure_database cfg sh st0.w.os.free (by rw [u4]; exact hdb)]
  have r5 := r4.dbClosed st0.w.os.free hd3 hdn
  -- capture
  obtain ⟨k1, k2, k3, k4, k5, k6, k7, k8, k9⟩ := stop_fd cfg (dbClosed sh st0.w.os.free) p ins r5
  generalize hsj : step cfg (dbClosed sh st0.w.os.free) (.unconfigure "capture") = sj at *
  rw [step_unconfigure_build]
  have hdopen : sh.w.os.fd st0.w.os.free = some st0.w.os.files.length := by
    rw [u1.os, hframe _ hd3 hdn, hbfd, if_pos rfl]
  refine ⟨k1, ?_, ?_, ?_, ?_, k6, ?_, ?_, ?_, ?_, ?_, ?_, ?_, ?_, ?_, ?_, ?_, ?_⟩
  · rw [k7]; show sh.secs = _
    rw [u1.secs, wsecs, lsecs, ← hse, ← hsd]; show sc.secs ++ _ = _; rw [csecs]; rfl
  · intro f hf
    have hg1 : f ≠ p.g1 := by rw [pg1]; show f ≠ st0.w.os.openNew.1.files.length + 1; simp; omega
    have hg2 : f ≠ p.g2 := by rw [pg2]; show f ≠ st0.w.os.openNew.1.files.length + 2; simp; omega
    rw [k4 f]; show sh.w.os.file f = _
    rw [u1.os, wfile f ⟨hg1, hg2⟩, lfile, i2.os, i1.os, cfile]
    have : outText (fun _ => false) (allWrites (phaseList ios)) = [] := by simp [outText]
    rw [this, List.append_nil]
    show st0.w.os.openNew.1.file f = _; simp
  · intro j
    rw [k2 j]
    by_cases hmem : j ∈ [p.si, p.pi, p.so, p.po, p.se, p.pe]
    · rw [if_pos hmem, hclosed0 j hmem]
    · rw [if_neg hmem]
      by_cases h0 : j = 0
      · rw [if_pos h0, h0, e0, pt0]
      · rw [if_neg h0]
        show (sh.w.os.setFd st0.w.os.free none).fd j = _
        rw [OS.fd_setFd]
        by_cases hjd : j = st0.w.os.free
        · rw [if_pos hjd, hjd, OS.fd_free]
        · rw [if_neg hjd, u1.os]
          by_cases h3 : 3 ≤ j
          · rw [hframe j h3 hmem, hbfd, if_neg hjd]
          · have : j = 1 ∨ j = 2 := by omega
            rcases this with rfl | rfl
            · rw [r3.fd1, pt1, e1]
            · rw [r3.fd2, pt2, e2]
  · have c1 : (dbClosed sh st0.w.os.free).w.os.count + 1 = sh.w.os.count := OS.count_close_open _ _ _ hdopen
    have c2 : sh.w.os.count = st0.w.os.count + 7 := by
      rw [u1.os, wcount, lcount, i2.os, i1.os, ccount]; show st0.w.os.openNew.1.count + 6 = _; rw [OS.count_openNew]
    omega
  · rw [k5]; exact psin
  · rw [k5]; show sh.w.py.stdout = _; rw [u1.sout, r3.sout]
  · rw [k5]; show sh.w.py.stderr = _; rw [u1.serr, r3.serr]
  · rw [k5]; show sh.w.py.filters = _
    rw [u4]; simp only []; rw [wmisc.1, lmisc.1, hse_py, hsd_py]; simp only []; rw [cmisc.1, hbc]; rfl
  · rw [k5]; show sh.w.py.setTrace = _; rw [u4]
  · rw [k5]; show sh.w.py.pdbSaved = _; rw [u4]
  · rw [k5]; show sh.w.py.reportVars = _; rw [u4]
  · rw [k5]; show sh.w.py.provisional = _; rw [u4]
  · rw [k5]; show sh.w.py.collected = _; rw [u4]
  · rw [k5]; rfl
  · rw [k5]; show sh.w.py.garbage = _
    rw [u4]; simp only []; rw [wmisc.2.2.2.2.2.2.2.2.1, lmisc.2.2.2.2.2.2.2.2.1, hse_py, hsd_py]; simp only []
    rw [cmisc.2.2.2.2.2.2.2.2.1, hbc]; rfl
  · refine ⟨sd.w.py, ?_, ?_, ?_, ?_⟩
    · rw [hsd_py]; simp only []; rw [cmisc.2.2.2.2.2.1, hbc]; rfl
    · rw [hsd_py]; simp only []; rw [cmisc.2.2.2.2.2.2.1, hbc]; rfl
    · rw [k8]; show sh.tasks = _; rw [u2, wtasks, ltasks, ← hse]; rfl
    · rw [k9]; show sh.collectFailed = _; rw [u3, wcf, lcf, ← hse]; rfl

theorem phases_sys_extra (cfg : Cfg) (p : SysP) (phs : List Phase) (st : St) (h : ∃ ins, SysReady st p ins) :
    (runOps cfg st (phs.map Phase.op)).w.os.fdt = st.w.os.fdt ∧
    (p.tee = true → (runOps cfg st (phs.map Phase.op)).w.py.stdin = st.w.py.stdin) := by
  induction phs generalizing st with
  | nil => exact ⟨rfl, fun _ => rfl⟩
  | cons ph phs ih =>
    obtain ⟨ins, hr⟩ := h
    obtain ⟨a1, _, _, a4, _, _, B, a7⟩ := phase_sys cfg st p ins hr ph.1 ph.2.1 ph.2.2.1 ph.2.2.2
    obtain ⟨b1, b2⟩ := ih (step cfg st ph.op) ⟨_, a1⟩
    simp only [runOps, List.map_cons, List.foldl_cons] at b1 b2 ⊢
    refine ⟨b1.trans a4, fun ht => ?_⟩
    rw [b2 ht]
    show (step cfg st (.phase ph.1 ph.2.1 ph.2.2.1 ph.2.2.2)).w.py.stdin = _
    rw [a7]; simp [ht]

theorem build_sys (cfg : Cfg) (st0 : St) (mods : List ModSpec) (ios : List TaskIO) (tee : Bool)
    (hm : cfg.method = if tee then .teeSys else .sys) (hcf : cfg.configFails = false) (hw : StdW st0.w) :
    ∃ t1 t2, st0.w.os.fd 1 = some t1 ∧ st0.w.os.fd 2 = some t2 ∧
    (runBuild cfg mods ios st0).cm = some ⟨cfg.method, none⟩ ∧
    (runBuild cfg mods ios st0).secs = (phaseList ios).flatMap (Phase.secs (fun c => c.isPy)) ∧
    (∀ f, (runBuild cfg mods ios st0).w.os.file f = st0.w.os.file f ++
      outText (fun c => (tee || !c.isPy) && ((!c.isErr && t1 == f) || (c.isErr && t2 == f))) (allWrites (phaseList ios))) ∧
    (∀ j, (runBuild cfg mods ios st0).w.os.fd j = st0.w.os.fd j) ∧
    (runBuild cfg mods ios st0).w.os.count = st0.w.os.count ∧
    (runBuild cfg mods ios st0).w.fault = false ∧
    (runBuild cfg mods ios st0).w.py.stdin = st0.w.py.stdin ∧
    (runBuild cfg mods ios st0).w.py.stdout = .orig 1 ∧
    (runBuild cfg mods ios st0).w.py.stderr = .orig 2 ∧
    (runBuild cfg mods ios st0).w.py.filters = st0.w.py.filters ∧
    (runBuild cfg mods ios st0).w.py.setTrace = st0.w.py.setTrace ∧
    (runBuild cfg mods ios st0).w.py.pdbSaved = st0.w.py.pdbSaved ∧
    (runBuild cfg mods ios st0).w.py.reportVars = 0 ∧
    (runBuild cfg mods ios st0).w.py.provisional = [] ∧
    (runBuild cfg mods ios st0).w.py.collected = [] ∧
    (runBuild cfg mods ios st0).w.py.dbFd = none
    ∧ (∃ P : Py, P.collected = st0.w.py.collected ∧ P.modules = st0.w.py.modules ∧
        (runBuild cfg mods ios st0).tasks = (collectAll P mods).2.1 ∧
        (runBuild cfg mods ios st0).collectFailed = (collectAll P mods).2.2) := by
  obtain ⟨⟨t0, e0⟩, ⟨t1, e1⟩, ⟨t2, e2⟩⟩ := hw.os
  have hb := beforeCapture_std cfg st0 hw
  have hd3 := st0.w.os.free_ge3 hw.os
  have hbfd : ∀ j, (beforeCapture cfg st0).w.os.fd j = if j = st0.w.os.free then some st0.w.os.files.length else st0.w.os.fd j := by
    intro j; exact OS.fd_openNew _ _
  obtain ⟨p, hp, ptee, pt1, pt2, cos, csecs, cmisc, cstdin, psin⟩ :=
    postParse_capture_sys cfg (beforeCapture cfg st0) tee hm hb t1 t2
      (by rw [beforeCapture_fd cfg st0 hw 1 (by omega), e1]) (by rw [beforeCapture_fd cfg st0 hw 2 (by omega), e2])
  have pmeth : p.method = cfg.method := by rw [hm]; simp [SysP.method, ptee]
  unfold runBuild
  rw [buildOps_eq cfg mods ios hcf]
  simp only [runOps, List.foldl_append, List.cons_append, List.nil_append]
  have hpre := runOps_config_prefix cfg st0
  simp only [runOps, fresh, List.foldl_cons, List.foldl_nil] at hpre
  simp only [List.foldl_cons, List.foldl_nil, List.foldl_append]
  rw [hpre]
  generalize hsc : step cfg (beforeCapture cfg st0) (.postParse "capture") = sc at *
  rw [step_postParse_neutral cfg sc "build" (by simp)]
  have i1 := inert_debugging_pp cfg sc
  generalize hsd : step cfg sc (.postParse "debugging") = sd at *
  have hsd_py : sd.w.py = { sc.w.py with pdbSaved := sc.w.py.setTrace :: sc.w.py.pdbSaved, setTrace := 1 } := by rw [← hsd]; rfl
  have i2 := inert_collect cfg sd mods
  obtain ⟨ms, cs, hse_py⟩ := collect_py cfg sd mods
  generalize hse : step cfg sd (.collect mods) = se at *
  have r1 := (hp.inert i1).inert i2
  obtain ⟨r2, los, lsecs, ltasks, lcf, lmisc⟩ := collectLog_sys cfg se p r1
  generalize hsf : step cfg se .collectLog = sf at *
  obtain ⟨⟨ins, r3⟩, wsecs, wfile, wcount, wtasks, wcf, wmisc, wfd⟩ := (law_sys cfg p).phases (phaseList ios) sf ⟨_, r2⟩
  obtain ⟨xfdt, xstdin⟩ := phases_sys_extra cfg p (phaseList ios) sf ⟨_, r2⟩
  simp only [runOps] at r3 wsecs wfile wcount wtasks wcf wmisc wfd xfdt xstdin
  generalize hsg : List.foldl (step cfg) sf (List.map Phase.op (phaseList ios)) = sg at *
  simp only [miscOf, Prod.mk.injEq] at cmisc lmisc wmisc
  have hpdb : sg.w.py.pdbSaved = st0.w.py.setTrace :: st0.w.py.pdbSaved := by
    rw [wmisc.2.2.1, lmisc.2.2.1, hse_py, hsd_py]; simp only []; rw [cmisc.2.1, cmisc.2.2.1]; rfl
  have hdb : sg.w.py.dbFd = some st0.w.os.free := by
    rw [wmisc.2.2.2.2.2.2.2.1, lmisc.2.2.2.2.2.2.2.1, hse_py, hsd_py]; simp only []; rw [cmisc.2.2.2.2.2.2.2.1]; rfl
  have hsgfd : ∀ j, sg.w.os.fd j = (beforeCapture cfg st0).w.os.fd j := by
    intro j
    have : sg.w.os.fd j = sf.w.os.fd j := by simp [OS.fd, xfdt]
    rw [this, los, i2.os, i1.os, cos]
  obtain ⟨u1, u2, u3, u4⟩ := unconfigure_pre cfg sg _ _ hpdb
  simp only [runOps, List.foldl_cons, List.foldl_nil] at u1 u2 u3 u4
  generalize hsh : step cfg (step cfg (step cfg (step cfg sg (.unconfigure "task")) (.unconfigure "logging")) (.unconfigure "provisional"))
    (.unconfigure "debugging") = sh at *
  have r4 := r3.inert u1
  rw [step_unconfigure_database cfg sh st0.w.os.free (by rw [u4]; exact hdb)]
  have r5 := r4.dbClosed st0.w.os.free hd3
  obtain ⟨k1, k2, ⟨B, k3⟩, k4, k5, k6, k7⟩ := stop_sys cfg (dbClosed sh st0.w.os.free) p ins r5
  generalize hsj : step cfg (dbClosed sh st0.w.os.free) (.unconfigure "capture") = sj at *
  rw [step_unconfigure_build]
  have hdopen : sh.w.os.fd st0.w.os.free = some st0.w.os.files.length := by
    rw [u1.os, hsgfd, hbfd, if_pos rfl]
  refine ⟨t1, t2, e1, e2, by rw [k1, pmeth], ?_, ?_, ?_, ?_, k4, ?_, ?_, ?_, ?_, ?_, ?_, ?_, ?_, ?_, ?_, ?_⟩
  · rw [k5]; show sh.secs = _
    rw [u1.secs, wsecs, lsecs, ← hse, ← hsd]; show sc.secs ++ _ = _; rw [csecs]; rfl
  · intro f
    rw [k2]; show sh.w.os.file f = _
    rw [u1.os, wfile f trivial, los, i2.os, i1.os, cos, ptee, pt1, pt2]
    show st0.w.os.openNew.1.file f ++ _ = _; simp
  · intro j
    rw [k2]; show (sh.w.os.setFd st0.w.os.free none).fd j = _
    rw [OS.fd_setFd]
    by_cases hjd : j = st0.w.os.free
    · rw [if_pos hjd, hjd, OS.fd_free]
    · rw [if_neg hjd, u1.os, hsgfd, hbfd, if_neg hjd]
  · rw [k2]
    have c1 : (dbClosed sh st0.w.os.free).w.os.count + 1 = sh.w.os.count := OS.count_close_open _ _ _ hdopen
    have c2 : sh.w.os.count = st0.w.os.count + 1 := by
      rw [u1.os, wcount, los, i2.os, i1.os, cos]; show st0.w.os.openNew.1.count = _; rw [OS.count_openNew]
    omega
  · rw [k3]; show (if p.tee then sh.w.py.stdin else p.sin) = _
    cases hpt : p.tee
    · simp only [Bool.false_eq_true, if_false]; exact psin
    · simp only [if_true]
      rw [u1.sin, xstdin hpt]
      have : (step cfg se .collectLog).w.py.stdin = se.w.py.stdin := by
        rw [step_collectLog]
        simp [runCalls, runCall, withCM, r1.cm, CM.suspend, MC.suspendCapturing, sysMC, optCap, hpt, Cap.suspend, SysCap.suspend,
          W.setStd, Py.setStd]
      rw [← hsf, this, i2.sin, i1.sin, cstdin (ptee.symm.trans hpt)]; rfl
  · rw [k3]; show sh.w.py.stdout = _; rw [u1.sout, r3.sout]
  · rw [k3]; show sh.w.py.stderr = _; rw [u1.serr, r3.serr]
  · rw [k3]; show sh.w.py.filters = _
    rw [u4]; simp only []; rw [wmisc.1, lmisc.1, hse_py, hsd_py]; simp only []; rw [cmisc.1]; rfl
  · rw [k3]; show sh.w.py.setTrace = _; rw [u4]
  · rw [k3]; show sh.w.py.pdbSaved = _; rw [u4]
  · rw [k3]; show sh.w.py.reportVars = _; rw [u4]
  · rw [k3]; show sh.w.py.provisional = _; rw [u4]
  · rw [k3]; show sh.w.py.collected = _; rw [u4]
  · rw [k3]; rfl
  · refine ⟨sd.w.py, ?_, ?_, ?_, ?_⟩
    · rw [hsd_py]; simp only []; rw [cmisc.2.2.2.2.2.1]; rfl
    · rw [hsd_py]; simp only []; rw [cmisc.2.2.2.2.2.2.1]; rfl
    · rw [k6]; show sh.tasks = _; rw [u2, wtasks, ltasks, ← hse]; rfl
    · rw [k7]; show sh.collectFailed = _; rw [u3, wcf, lcf, ← hse]; rfl

theorem phases_no_extra (cfg : Cfg) (t1 t2 : Nat) (phs : List Phase) (st : St) (h : NoReady st t1 t2) :
    (runOps cfg st (phs.map Phase.op)).w.os.fdt = st.w.os.fdt ∧
    (runOps cfg st (phs.map Phase.op)).w.py = st.w.py := by
  induction phs generalizing st with
  | nil => exact ⟨rfl, rfl⟩
  | cons ph phs ih =>
    obtain ⟨a1, _, _, a4, _, _, a7⟩ := phase_no cfg st t1 t2 h ph.1 ph.2.1 ph.2.2.1 ph.2.2.2
    obtain ⟨b1, b2⟩ := ih (step cfg st ph.op) a1
    simp only [runOps, List.map_cons, List.foldl_cons] at b1 b2 ⊢
    exact ⟨b1.trans a4, b2.trans a7⟩

theorem build_no (cfg : Cfg) (st0 : St) (mods : List ModSpec) (ios : List TaskIO)
    (hm : cfg.method = .no) (hcf : cfg.configFails = false) (hw : StdW st0.w) :
    ∃ t1 t2, st0.w.os.fd 1 = some t1 ∧ st0.w.os.fd 2 = some t2 ∧
    (runBuild cfg mods ios st0).cm = some ⟨.no, none⟩ ∧
    (runBuild cfg mods ios st0).secs = [] ∧
    (∀ f, (runBuild cfg mods ios st0).w.os.file f = st0.w.os.file f ++
      outText (fun c => (!c.isErr && t1 == f) || (c.isErr && t2 == f)) (allWrites (phaseList ios))) ∧
    (∀ j, (runBuild cfg mods ios st0).w.os.fd j = st0.w.os.fd j) ∧
    (runBuild cfg mods ios st0).w.os.count = st0.w.os.count ∧
    (runBuild cfg mods ios st0).w.fault = false ∧
    (runBuild cfg mods ios st0).w.py.stdin = st0.w.py.stdin ∧
    (runBuild cfg mods ios st0).w.py.stdout = .orig 1 ∧
    (runBuild cfg mods ios st0).w.py.stderr = .orig 2 ∧
    (runBuild cfg mods ios st0).w.py.filters = st0.w.py.filters ∧
    (runBuild cfg mods ios st0).w.py.setTrace = st0.w.py.setTrace ∧
    (runBuild cfg mods ios st0).w.py.pdbSaved = st0.w.py.pdbSaved ∧
    (runBuild cfg mods ios st0).w.py.reportVars = 0 ∧
    (runBuild cfg mods ios st0).w.py.provisional = [] ∧
    (runBuild cfg mods ios st0).w.py.collected = [] ∧
    (runBuild cfg mods ios st0).w.py.dbFd = none
    ∧ (∃ P : Py, P.collected = st0.w.py.collected ∧ P.modules = st0.w.py.modules ∧
        (runBuild cfg mods ios st0).tasks = (collectAll P mods).2.1 ∧
        (runBuild cfg mods ios st0).collectFailed = (collectAll P mods).2.2) := by
  obtain ⟨⟨t0, e0⟩, ⟨t1, e1⟩, ⟨t2, e2⟩⟩ := hw.os
  have hb := beforeCapture_std cfg st0 hw
  have hd3 := st0.w.os.free_ge3 hw.os
  have hbfd : ∀ j, (beforeCapture cfg st0).w.os.fd j = if j = st0.w.os.free then some st0.w.os.files.length else st0.w.os.fd j := by
    intro j; exact OS.fd_openNew _ _
  obtain ⟨hp, cos, csecs, cpy⟩ :=
    postParse_capture_no cfg (beforeCapture cfg st0) hm hb t1 t2
      (by rw [beforeCapture_fd cfg st0 hw 1 (by omega), e1]) (by rw [beforeCapture_fd cfg st0 hw 2 (by omega), e2])
  unfold runBuild
  rw [buildOps_eq cfg mods ios hcf]
  simp only [runOps, List.foldl_append, List.cons_append, List.nil_append]
  have hpre := runOps_config_prefix cfg st0
  simp only [runOps, fresh, List.foldl_cons, List.foldl_nil] at hpre
  simp only [List.foldl_cons, List.foldl_nil, List.foldl_append]
  rw [hpre]
  generalize hsc : step cfg (beforeCapture cfg st0) (.postParse "capture") = sc at *
  rw [step_postParse_neutral cfg sc "build" (by simp)]
  have i1 := inert_debugging_pp cfg sc
  generalize hsd : step cfg sc (.postParse "debugging") = sd at *
  have hsd_py : sd.w.py = { sc.w.py with pdbSaved := sc.w.py.setTrace :: sc.w.py.pdbSaved, setTrace := 1 } := by rw [← hsd]; rfl
  have i2 := inert_collect cfg sd mods
  obtain ⟨ms, cs, hse_py⟩ := collect_py cfg sd mods
  generalize hse : step cfg sd (.collect mods) = se at *
  have r1 := (hp.inert i1).inert i2
  obtain ⟨r2, l1', lpy, ltasks, lcf⟩ := collectLog_no cfg se t1 t2 r1
  generalize hsf : step cfg se .collectLog = sf at *
  obtain ⟨r3, wsecs, wfile, wcount, wtasks, wcf, wmisc, wfd⟩ := (law_no cfg t1 t2).phases (phaseList ios) sf r2
  obtain ⟨xfdt, xpy⟩ := phases_no_extra cfg t1 t2 (phaseList ios) sf r2
  simp only [runOps] at r3 wsecs wfile wcount wtasks wcf wmisc wfd xfdt xpy
  generalize hsg : List.foldl (step cfg) sf (List.map Phase.op (phaseList ios)) = sg at *
  have hpdb : sg.w.py.pdbSaved = st0.w.py.setTrace :: st0.w.py.pdbSaved := by
    rw [xpy, lpy, hse_py, hsd_py]; simp only []; rw [cpy]; rfl
  have hdb : sg.w.py.dbFd = some st0.w.os.free := by
    rw [xpy, lpy, hse_py, hsd_py]; simp only []; rw [cpy]; rfl
  have hsgfd : ∀ j, sg.w.os.fd j = (beforeCapture cfg st0).w.os.fd j := by
    intro j
    have : sg.w.os.fd j = sf.w.os.fd j := by simp [OS.fd, xfdt]
    rw [this, l1'.os, i2.os, i1.os, cos]
  obtain ⟨u1, u2, u3, u4⟩ := unconfigure_pre cfg sg _ _ hpdb
  simp only [runOps, List.foldl_cons, List.foldl_nil] at u1 u2 u3 u4
  generalize hsh : step cfg (step cfg (step cfg (step cfg sg (.unconfigure "task")) (.unconfigure "logging")) (.unconfigure "provisional"))
    (.unconfigure "debugging") = sh at *
  have r4 := r3.inert u1
  rw [step_unconfigure_database cfg sh st0.w.os.free (by rw [u4]; exact hdb)]
  have r5 := r4.dbClosed st0.w.os.free hd3
  rw [stop_no cfg (dbClosed sh st0.w.os.free) t1 t2 r5, step_unconfigure_build]
  have hdopen : sh.w.os.fd st0.w.os.free = some st0.w.os.files.length := by
    rw [u1.os, hsgfd, hbfd, if_pos rfl]
  refine ⟨t1, t2, e1, e2, rfl, ?_, ?_, ?_, ?_, r5.nofault, ?_, ?_, ?_, ?_, ?_, ?_, ?_, ?_, ?_, rfl, ?_⟩
  · have : (phaseList ios).flatMap (Phase.secs (fun _ => false)) = [] := by
      simp [Phase.secs, secsOf, outText]
    show sh.secs = _
    rw [u1.secs, wsecs, l1'.secs, ← hse, ← hsd, this]; show sc.secs ++ [] = _; rw [csecs]; rfl
  · intro f
    show sh.w.os.file f = _
    rw [u1.os, wfile f trivial, l1'.os, i2.os, i1.os, cos]
    show st0.w.os.openNew.1.file f ++ _ = _; simp
  · intro j
    show (sh.w.os.setFd st0.w.os.free none).fd j = _
    rw [OS.fd_setFd]
    by_cases hjd : j = st0.w.os.free
    · rw [if_pos hjd, hjd, OS.fd_free]
    · rw [if_neg hjd, u1.os, hsgfd, hbfd, if_neg hjd]
  · have c1 : (dbClosed sh st0.w.os.free).w.os.count + 1 = sh.w.os.count := OS.count_close_open _ _ _ hdopen
    have c2 : sh.w.os.count = st0.w.os.count + 1 := by
      rw [u1.os, wcount, l1'.os, i2.os, i1.os, cos]; show st0.w.os.openNew.1.count = _; rw [OS.count_openNew]
    show (dbClosed sh st0.w.os.free).w.os.count = _
    omega
  · show sh.w.py.stdin = _; rw [u1.sin, xpy, lpy, i2.sin, i1.sin, cpy]; rfl
  · show sh.w.py.stdout = _; rw [u1.sout, r3.sout]
  · show sh.w.py.stderr = _; rw [u1.serr, r3.serr]
  · show sh.w.py.filters = _; rw [u4]; simp only []; rw [xpy, lpy, hse_py, hsd_py]; simp only []; rw [cpy]; rfl
  · show sh.w.py.setTrace = _; rw [u4]
  · show sh.w.py.pdbSaved = _; rw [u4]
  · show sh.w.py.reportVars = _; rw [u4]
  · show sh.w.py.provisional = _; rw [u4]
  · show sh.w.py.collected = _; rw [u4]
  · refine ⟨sd.w.py, ?_, ?_, ?_, ?_⟩
    · rw [hsd_py]; simp only []; rw [cpy]; rfl
    · rw [hsd_py]; simp only []; rw [cpy]; rfl
    · show sh.tasks = _; rw [u2, wtasks, ltasks, ← hse]; rfl
    · show sh.collectFailed = _; rw [u3, wcf, lcf, ← hse]; rfl

/-! ## Layer 5 — vocabulary of the property statements -/

/-- channels whose output the capture method puts into the task's report sections -/
def captured : Method → Chan → Bool
  | .fd, _ => true
  | .sys, c => c.isPy
  | .teeSys, c => c.isPy
  | .no, _ => false

/-- channels whose output reaches the process's real streams while a task runs -/
def reaches : Method → Chan → Bool
  | .fd, _ => false
  | .sys, c => !c.isPy
  | .teeSys, _ => true
  | .no, _ => true

/-- the sections of a finished build, for every capture method -/
theorem build_secs (cfg : Cfg) (st0 : St) (mods : List ModSpec) (ios : List TaskIO)
    (hcf : cfg.configFails = false) (hw : StdW st0.w) :
    (runBuild cfg mods ios st0).secs = (phaseList ios).flatMap (Phase.secs (captured cfg.method)) := by
  cases hm : cfg.method
  · obtain ⟨_, h, _⟩ := build_fd cfg st0 mods ios hm hcf hw
    rw [h]; rfl
  · obtain ⟨t1, t2, _, _, _, h, _⟩ := build_sys cfg st0 mods ios false (by simp [hm]) hcf hw
    rw [h]; rfl
  · obtain ⟨t1, t2, _, _, _, h, _⟩ := build_no cfg st0 mods ios hm hcf hw
    rw [h]; simp [Phase.secs, secsOf, outText, captured]
  · obtain ⟨t1, t2, _, _, _, h, _⟩ := build_sys cfg st0 mods ios true (by simp [hm]) hcf hw
    rw [h]; rfl

/-- what every build that passed configuration restores, whatever the capture method -/
structure Restored (st0 st : St) : Prop where
  fd : ∀ j, st.w.os.fd j = st0.w.os.fd j
  count : st.w.os.count = st0.w.os.count
  nofault : st.w.fault = false
  stdin : st.w.py.stdin = st0.w.py.stdin
  stdout : st.w.py.stdout = st0.w.py.stdout
  stderr : st.w.py.stderr = st0.w.py.stderr
  filters : st.w.py.filters = st0.w.py.filters
  setTrace : st.w.py.setTrace = st0.w.py.setTrace
  pdbSaved : st.w.py.pdbSaved = st0.w.py.pdbSaved

theorem Restored.refl (st : St) (h : st.w.fault = false) : Restored st st := ⟨fun _ => rfl, rfl, h, rfl, rfl, rfl, rfl, rfl, rfl⟩
theorem Restored.trans {a b c : St} (h1 : Restored a b) (h2 : Restored b c) : Restored a c :=
  ⟨fun j => (h2.fd j).trans (h1.fd j), h2.count.trans h1.count, h2.nofault, h2.stdin.trans h1.stdin, h2.stdout.trans h1.stdout,
   h2.stderr.trans h1.stderr, h2.filters.trans h1.filters, h2.setTrace.trans h1.setTrace, h2.pdbSaved.trans h1.pdbSaved⟩
theorem Restored.std {a b : St} (h : Restored a b) (hw : StdW a.w) : StdW b.w := by
  obtain ⟨⟨t0, e0⟩, ⟨t1, e1⟩, ⟨t2, e2⟩⟩ := hw.os
  exact ⟨⟨⟨t0, by rw [h.fd, e0]⟩, ⟨t1, by rw [h.fd, e1]⟩, ⟨t2, by rw [h.fd, e2]⟩⟩, by rw [h.stdout, hw.sout], by rw [h.stderr, hw.serr], h.nofault⟩

theorem build_restores (cfg : Cfg) (st0 : St) (mods : List ModSpec) (ios : List TaskIO)
    (hcf : cfg.configFails = false) (hw : StdW st0.w) :
    Restored st0 (runBuild cfg mods ios st0) ∧
    (runBuild cfg mods ios st0).cm = some ⟨cfg.method, none⟩ ∧
    (runBuild cfg mods ios st0).w.py.reportVars = 0 ∧
    (runBuild cfg mods ios st0).w.py.provisional = [] ∧
    (runBuild cfg mods ios st0).w.py.collected = [] ∧
    (runBuild cfg mods ios st0).w.py.dbFd = none ∧
    (∃ P : Py, P.collected = st0.w.py.collected ∧ P.modules = st0.w.py.modules ∧
        (runBuild cfg mods ios st0).tasks = (collectAll P mods).2.1 ∧
        (runBuild cfg mods ios st0).collectFailed = (collectAll P mods).2.2) := by
  cases hm : cfg.method
  · obtain ⟨a, _, _, b1, b2, b3, b4, b5, b6, b7, b8, b9, c1, c2, c3, c4, _, c5⟩ := build_fd cfg st0 mods ios hm hcf hw
    exact ⟨⟨b1, b2, b3, b4, by rw [b5, hw.sout], by rw [b6, hw.serr], b7, b8, b9⟩, a, c1, c2, c3, c4, c5⟩
  · obtain ⟨t1, t2, _, _, a, _, _, b1, b2, b3, b4, b5, b6, b7, b8, b9, c1, c2, c3, c4, c5⟩ :=
      build_sys cfg st0 mods ios false (by simp [hm]) hcf hw
    exact ⟨⟨b1, b2, b3, b4, by rw [b5, hw.sout], by rw [b6, hw.serr], b7, b8, b9⟩, by rw [a, hm], c1, c2, c3, c4, c5⟩
  · obtain ⟨t1, t2, _, _, a, _, _, b1, b2, b3, b4, b5, b6, b7, b8, b9, c1, c2, c3, c4, c5⟩ := build_no cfg st0 mods ios hm hcf hw
    exact ⟨⟨b1, b2, b3, b4, by rw [b5, hw.sout], by rw [b6, hw.serr], b7, b8, b9⟩, a, c1, c2, c3, c4, c5⟩
  · obtain ⟨t1, t2, _, _, a, _, _, b1, b2, b3, b4, b5, b6, b7, b8, b9, c1, c2, c3, c4, c5⟩ :=
      build_sys cfg st0 mods ios true (by simp [hm]) hcf hw
    exact ⟨⟨b1, b2, b3, b4, by rw [b5, hw.sout], by rw [b6, hw.serr], b7, b8, b9⟩, by rw [a, hm], c1, c2, c3, c4, c5⟩

/-- arguments of one `pytask.build()` call -/
structure BuildArgs where
  cfg : Cfg
  mods : List ModSpec
  ios : List TaskIO

/-- consecutive builds in one process -/
def runBuilds (bs : List BuildArgs) (st : St) : St := bs.foldl (fun st b => runBuild b.cfg b.mods b.ios st) st

theorem runBuild_configFails (cfg : Cfg) (st0 : St) (mods : List ModSpec) (ios : List TaskIO) (hcf : cfg.configFails = true) :
    (∃ r, (runBuild cfg mods ios st0).w = { st0.w with py := { st0.w.py with reportVars := r } }) ∧
    (runBuild cfg mods ios st0).cm = st0.cm ∧
    (cfg.failsInDatabase = false → (runBuild cfg mods ios st0).w = st0.w) := by
  cases hd : cfg.failsInDatabase
  · refine ⟨⟨st0.w.py.reportVars, ?_⟩, ?_, fun _ => ?_⟩ <;> simp [runBuild, buildOps, hcf, hd, runOps]
  · have e : buildOps cfg mods ios = [Op.postParse "warnings", .postParse "profile", .postParse "mark", .postParse "logging",
        .postParse "live", .postParse "execute"] := by
      simp [buildOps, hcf, hd, Generated.postParseOrder, List.takeWhile]
    refine ⟨⟨cfg.reportVars, ?_⟩, ?_, fun h => by cases h⟩ <;> (unfold runBuild; rw [e]; rfl)

theorem builds_restore (bs : List BuildArgs) (st0 : St) (hw : StdW st0.w) : Restored st0 (runBuilds bs st0) := by
  induction bs generalizing st0 with
  | nil => exact Restored.refl st0 hw.nofault
  | cons b bs ih =>
    have h1 : Restored st0 (runBuild b.cfg b.mods b.ios st0) := by
      cases hcf : b.cfg.configFails
      · exact (build_restores b.cfg st0 b.mods b.ios hcf hw).1
      · obtain ⟨r, this⟩ := (runBuild_configFails b.cfg st0 b.mods b.ios hcf).1
        exact ⟨fun j => by rw [this], by rw [this], by rw [this]; exact hw.nofault, by rw [this], by rw [this], by rw [this],
          by rw [this], by rw [this], by rw [this]⟩
    exact h1.trans (ih _ (h1.std hw))

theorem mem_secsOf {s : Sec} {t : Nat} {wh : String} {out err : Data} (h : s ∈ secsOf t wh out err) :
    s.task = t ∧ s.when = wh ∧ s.text ≠ [] ∧ s.text = (if s.err then err else out) := by
  unfold secsOf at h
  rcases List.mem_append.1 h with h | h
  · split at h
    · cases h
    · rename_i ne; simp at h; subst h; simp_all
  · split at h
    · cases h
    · rename_i ne; simp at h; subst h; simp_all

/-- closing `l` closes at most `l.length` descriptors -/
theorem count_closeAll (l : List Nat) (o : OS) : o.count ≤ (l.foldl (fun o i => o.close i) o).count + l.length := by
  induction l generalizing o with
  | nil => simp
  | cons i l ih =>
    have h1 := ih (o.close i)
    have h2 := o.count_setFd i none
    simp only [List.foldl_cons, List.length_cons, OS.close_eq] at h1 h2 ⊢
    split at h2 <;> omega

theorem owned_cap_le (c : Option Cap) : ((c.map Cap.owned).getD []).length ≤ 1 := by
  cases c with
  | none => simp
  | some c => cases c <;> simp [Cap.owned] <;> split <;> simp

theorem owned_cm_le (c : Option CM) : ((c.map CM.owned).getD []).length ≤ 3 := by
  cases c with
  | none => simp
  | some c =>
    cases hc : c.capturing with
    | none => simp [CM.owned, hc]
    | some m =>
      have a := owned_cap_le m.in_; have b := owned_cap_le m.out; have d := owned_cap_le m.err
      simp [CM.owned, hc, MC.owned] at a b d ⊢; omega

/-! ## Layer 6 — repeated collection in one process (F7) -/

/-- interpreter state after `k` builds over `mods` in one process, as far as collection is concerned: each build
collects (`collectAll`) and `task.pytask_unconfigure` clears `COLLECTED_TASKS`; nothing else in a build touches
`sys.modules` entries of task modules or `COLLECTED_TASKS` -/
def pyAfter (mods : List ModSpec) : Nat → Py
  | 0 => {}
  | k + 1 => { (collectAll (pyAfter mods k) mods).1 with collected := [] }

/-- what the `k`-th build (0-based) of the process collects: tasks and whether collection failed -/
def collectedAt (mods : List ModSpec) (k : Nat) : List (Nat × Nat) × Bool := (collectAll (pyAfter mods k) mods).2

theorem collectAll_plain (mods : List ModSpec) (h : ∀ m ∈ mods, m.decorated = [] ∧ m.fails = false) (p : Py)
    (hc : p.collected = []) :
    (collectAll p mods).2 = (mods.flatMap (fun m => m.plain.map (fun f => (m.id, f))), false) ∧
    (collectAll p mods).1.collected = [] := by
  induction mods generalizing p with
  | nil => simp [collectAll, hc]
  | cons m ms ih =>
    obtain ⟨hd, hf⟩ := h m (by simp)
    have h1 : (collectModule p m).2 = (m.plain.map (fun f => (m.id, f)), false) ∧ (collectModule p m).1.collected = [] := by
      unfold collectModule; split
      · simp [hc]
      · simp [hd, hf, hc]
    obtain ⟨a, b⟩ := ih (fun x hx => h x (by simp [hx])) (collectModule p m).1 h1.2
    simp only [collectAll]
    refine ⟨?_, b⟩
    rw [a, h1.1]; simp

end Pytask.Capture
