import PytaskModel.Engine
import PytaskProofs.Lemmas.Sorter
import PytaskProofs.Lemmas.EngineOrder
import PytaskProofs.Lemmas.SkipGraphReach
/-!
Skip / selection / persist lemmas for the build loop of M6 (used by C06 and C17).

* task-level reachability (`taskDesc`, `taskAnc` are the same relation);
* what `create_dag_from_session` returns along `Generated.dagPipeline`;
* the setup chain along `Generated.setupOrder`;
* `Steps`: the session-level view of `buildLoop` (forgets the scheduler), with monotonicity of the
  injected skip marks and the decomposition of log / reports by pick.
-/
namespace Pytask
namespace Engine
open Sorter

/-! ## task-level reachability -/

theorem tv_div (t : Nat) : tv t / 2 = t := by unfold tv; omega
theorem isTaskV_tv (t : Nat) : isTaskV (tv t) = true := by unfold isTaskV tv; simp
theorem tv_of_isTaskV {v : Nat} (h : isTaskV v = true) : tv (v / 2) = v := by
  unfold isTaskV at h; unfold tv
  have : v % 2 = 0 := by simpa using h
  omega
theorem tv_injective {a b : Nat} (h : tv a = tv b) : a = b := by unfold tv at h; omega

theorem mem_taskDesc {g : G} {s t : Nat} : t ∈ taskDesc g s ↔ G.Path g (tv s) (tv t) ∧ t ≠ s := by
  unfold taskDesc
  simp only [List.mem_map, List.mem_filter, G.mem_desc]
  constructor
  · rintro ⟨v, ⟨⟨p, hne⟩, htask⟩, rfl⟩
    rw [tv_of_isTaskV htask]
    exact ⟨p, fun e => hne (by rw [← tv_of_isTaskV htask, e])⟩
  · rintro ⟨p, hne⟩
    exact ⟨tv t, ⟨⟨p, fun e => hne (tv_injective e)⟩, isTaskV_tv t⟩, tv_div t⟩

theorem mem_taskAnc {g : G} {a t : Nat} : a ∈ taskAnc g t ↔ G.Path g (tv a) (tv t) ∧ a ≠ t := by
  unfold taskAnc
  simp only [List.mem_map, List.mem_filter, G.mem_anc]
  constructor
  · rintro ⟨v, ⟨⟨p, hne⟩, htask⟩, rfl⟩
    rw [tv_of_isTaskV htask]
    exact ⟨p, fun e => hne (by rw [← tv_of_isTaskV htask, e])⟩
  · rintro ⟨p, hne⟩
    exact ⟨tv a, ⟨⟨p, fun e => hne (tv_injective e)⟩, isTaskV_tv a⟩, tv_div a⟩

/-- "`t` is a (transitive) dependant of `s`" and "`s` is a (transitive) dependency of `t`" coincide. -/
theorem mem_taskDesc_iff_mem_taskAnc {g : G} {s t : Nat} : t ∈ taskDesc g s ↔ s ∈ taskAnc g t := by
  rw [mem_taskDesc, mem_taskAnc]
  exact ⟨fun ⟨p, h⟩ => ⟨p, fun e => h e.symm⟩, fun ⟨p, h⟩ => ⟨p, fun e => h e.symm⟩⟩

theorem mem_selClosure {g : G} {sel : List Nat} {t : Nat} :
    t ∈ selClosure g sel ↔ ∃ m ∈ sel, t = m ∨ t ∈ taskAnc g m := by
  unfold selClosure
  simp only [List.mem_flatMap, List.mem_cons]

/-- The selection closure is closed under task-ancestors. -/
theorem selClosure_anc_closed {g : G} {sel : List Nat} {a t : Nat}
    (ht : t ∈ selClosure g sel) (ha : a ∈ taskAnc g t) : a ∈ selClosure g sel := by
  rcases mem_selClosure.1 ht with ⟨m, hm, rfl | htm⟩
  · exact mem_selClosure.2 ⟨t, hm, .inr ha⟩
  · by_cases e : a = m
    · exact mem_selClosure.2 ⟨m, hm, .inl e⟩
    · have p1 := (mem_taskAnc.1 ha).1
      have p2 := (mem_taskAnc.1 htm).1
      exact mem_selClosure.2 ⟨m, hm, .inr (mem_taskAnc.2 ⟨p1.trans p2, e⟩)⟩

/-! ## selection -/

/-- Eligible under `-k` / `-m`: in the closure (matching tasks plus all their task-ancestors in the
build's graph, `after` edges included) of every selection that was given. -/
def Eligible (g : G) (cfg : Cfg) (t : Nat) : Prop :=
  (∀ k, cfg.selK = some k → t ∈ selClosure g k) ∧ (∀ m, cfg.selM = some m → t ∈ selClosure g m)

theorem mem_deselected {P : Project} {g : G} {cfg : Cfg} {t : Nat} :
    t ∈ deselected P g cfg ↔ t ∈ P.tasks.map (·.id) ∧ ¬ Eligible g cfg t := by
  unfold deselected Eligible
  cases hk : cfg.selK <;> cases hm : cfg.selM <;>
    simp only [List.append_nil, List.nil_append, List.mem_append, List.mem_filter, Bool.not_eq_true',
      List.not_mem_nil, reduceCtorEq, false_implies, implies_true, and_self, not_true, and_false,
      Option.some.injEq, forall_eq', true_and, and_true, List.contains_eq_mem, decide_eq_false_iff_not]
  · constructor
    · rintro (⟨h1, h2⟩ | ⟨h1, h2⟩)
      · exact ⟨h1, fun h => h2 h.1⟩
      · exact ⟨h1, fun h => h2 h.2⟩
    · rintro ⟨h1, h2⟩
      rename_i k m
      by_cases hh : t ∈ selClosure g k
      · exact .inr ⟨h1, fun h => h2 ⟨hh, h⟩⟩
      · exact .inl ⟨h1, hh⟩

/-- Eligibility is inherited by task-ancestors (dependencies of an eligible task are eligible). -/
theorem Eligible.anc {g : G} {cfg : Cfg} {a t : Nat} (h : Eligible g cfg t) (ha : a ∈ taskAnc g t) :
    Eligible g cfg a :=
  ⟨fun k hk => selClosure_anc_closed (h.1 k hk) ha, fun m hm => selClosure_anc_closed (h.2 m hm) ha⟩

/-- `create_dag_from_session` along `Generated.dagPipeline`: the graph is the collected bipartite
graph plus the `after` edges, it is acyclic, and the injected skip marks are exactly the tasks
deselected w.r.t. *that* graph (selection runs after `_modify_dag`). -/
theorem createDag_ok {P : Project} {cfg : Cfg} {g : G} {marks : List Nat}
    (h : createDag P cfg = .ok (g, marks)) :
    g = modifyDag P (baseGraph P) ∧ marks = deselected P g cfg ∧ g.hasCycle = false := by
  simp only [createDag, Generated.dagPipeline, createDag.go] at h
  simp at h
  split at h
  · cases h
  split at h
  · cases h
  split at h
  · cases h
  rename_i hc
  simp only [Except.ok.injEq, Prod.mk.injEq] at h
  obtain ⟨rfl, rfl⟩ := h
  exact ⟨rfl, rfl, by simpa using hc⟩

/-! ## the setup chain along `Generated.setupOrder` -/

/-- The `pytask_execute_task_setup` chain in the pluggy order read from the code: the first
implementation that raises decides. -/
theorem setupChain_order (P : Project) (g : G) (cfg : Cfg) (s : Sess) (t : TaskSpec) :
    setupChain P g cfg s t Generated.setupOrder =
      match setupImpl P g cfg s t "skipping" with
      | .none => (match setupImpl P g cfg s t "persist" with
                  | .none => setupImpl P g cfg s t "execute"
                  | r => r)
      | r => r := by
  have hp : setupImpl P g cfg s t "provisional" = .none := by simp [setupImpl]
  simp only [Generated.setupOrder, setupChain, hp]
  cases setupImpl P g cfg s t "skipping" <;> simp only []
  all_goals cases setupImpl P g cfg s t "persist" <;> simp only []
  all_goals cases setupImpl P g cfg s t "execute" <;> rfl

/-- The skipping implementation raises `Skipped` for this task in this session. -/
def SkipCond (s : Sess) (t : TaskSpec) : Prop :=
  t.skip = true ∨ t.skipif = true ∨ t.id ∈ s.skipMarks

theorem setupImpl_skipping (P : Project) (g : G) (cfg : Cfg) (s : Sess) (t : TaskSpec) :
    setupImpl P g cfg s t "skipping" =
      if t.skip || s.skipMarks.contains t.id then .skipped
      else if t.skipif then .skipped
      else if s.failMarks.contains t.id then .ancestorFailed
      else .none := by
  simp [setupImpl]

theorem setupImpl_skipping_skipped {P : Project} {g : G} {cfg : Cfg} {s : Sess} {t : TaskSpec} :
    setupImpl P g cfg s t "skipping" = .skipped ↔ SkipCond s t := by
  rw [setupImpl_skipping]
  unfold SkipCond
  by_cases h1 : t.skip = true <;> by_cases h2 : t.id ∈ s.skipMarks <;> by_cases h3 : t.skipif = true <;>
    by_cases h4 : t.id ∈ s.failMarks <;> simp [h1, h2, h3, h4]

theorem setupChain_skipped_iff {P : Project} {g : G} {cfg : Cfg} {s : Sess} {t : TaskSpec} :
    setupChain P g cfg s t Generated.setupOrder = .skipped ↔ SkipCond s t := by
  rw [setupChain_order, ← setupImpl_skipping_skipped (P := P) (g := g) (cfg := cfg)]
  have hpers : setupImpl P g cfg s t "persist" ≠ .skipped := by
    simp only [setupImpl]; simp; split <;> (try split) <;> (try split) <;> simp
  have hexe : setupImpl P g cfg s t "execute" ≠ .skipped := by
    simp only [setupImpl]; simp; split <;> (try split) <;> simp
  cases h1 : setupImpl P g cfg s t "skipping" <;> simp only [] <;> try simp
  cases h2 : setupImpl P g cfg s t "persist" <;> simp only [] <;> simp_all

/-! ## one protocol -/

/-- Outcome that `process_report` assigns to what the phases raised. -/
def outcomeOf : Raised → Outcome
  | .none => .success
  | .skippedUnchanged => .skipUnchanged
  | .skipped => .skip
  | .ancestorFailed => .skipPrevFailed
  | .persisted => .persistence
  | .wouldBeExecuted => .wouldBeExecuted
  | .error => .fail

theorem runPhases_of_raise {F : BodyFn} {P : Project} {g : G} {cfg : Cfg} {s : Sess} {t : TaskSpec} {r : Raised}
    (h : setupChain P g cfg s t Generated.setupOrder = r) (hr : r ≠ .none) :
    runPhases F P g cfg s t = (r, s) := by
  unfold runPhases
  rw [h]
  cases r <;> simp_all

/-- The phases touch only the file system and the body log. -/
theorem runPhases_fields (F : BodyFn) (P : Project) (g : G) (cfg : Cfg) (s : Sess) (t : TaskSpec) :
    (runPhases F P g cfg s t).2.skipMarks = s.skipMarks ∧ (runPhases F P g cfg s t).2.failMarks = s.failMarks ∧
    (runPhases F P g cfg s t).2.wbeMarks = s.wbeMarks ∧ (runPhases F P g cfg s t).2.reports = s.reports ∧
    (runPhases F P g cfg s t).2.nFailed = s.nFailed ∧ (runPhases F P g cfg s t).2.stop = s.stop ∧
    (runPhases F P g cfg s t).2.crashed = s.crashed ∧ (runPhases F P g cfg s t).2.w.db = s.w.db := by
  unfold runPhases
  split
  · split
    · exact ⟨rfl, rfl, rfl, rfl, rfl, rfl, rfl, rfl⟩
    · simp only []
      split <;> (try split) <;> exact ⟨rfl, rfl, rfl, rfl, rfl, rfl, rfl, rfl⟩
  · exact ⟨rfl, rfl, rfl, rfl, rfl, rfl, rfl, rfl⟩

/-- When the setup chain raises nothing, the phases end in "would be executed" (dry run), an error, or success. -/
theorem runPhases_of_none {F : BodyFn} {P : Project} {g : G} {cfg : Cfg} {s : Sess} {t : TaskSpec}
    (h : setupChain P g cfg s t Generated.setupOrder = .none) :
    (runPhases F P g cfg s t).1 = .wouldBeExecuted ∨ (runPhases F P g cfg s t).1 = .error ∨
    (runPhases F P g cfg s t).1 = .none := by
  unfold runPhases
  rw [h]
  simp only []
  split
  · exact .inl rfl
  · split
    · exact .inr (.inl rfl)
    · split
      · exact .inr (.inl rfl)
      · exact .inr (.inr rfl)

theorem runPhases_skipped_iff {F : BodyFn} {P : Project} {g : G} {cfg : Cfg} {s : Sess} {t : TaskSpec} :
    (runPhases F P g cfg s t).1 = .skipped ↔ SkipCond s t := by
  rw [← setupChain_skipped_iff (P := P) (g := g) (cfg := cfg)]
  by_cases hn : setupChain P g cfg s t Generated.setupOrder = .none
  · rcases runPhases_of_none (F := F) hn with h | h | h <;> simp [h, hn]
  · rw [runPhases_of_raise rfl hn]

theorem processReport_skipMarks {P : Project} {g : G} {cfg : Cfg} {s : Sess} {t : TaskSpec} {r : Raised}
    (hr : r ≠ .skipped) : (processReport P g cfg s t r).skipMarks = s.skipMarks := by
  unfold processReport
  cases r <;> simp only [] <;> (try split) <;> first | rfl | exact absurd rfl hr

theorem processReport_reports (P : Project) (g : G) (cfg : Cfg) (s : Sess) (t : TaskSpec) (r : Raised) :
    (processReport P g cfg s t r).reports = s.reports ++ [(t.id, outcomeOf r)] ∨
    (r = .none ∧ (processReport P g cfg s t r).reports = s.reports) := by
  unfold processReport
  cases r <;> simp only [outcomeOf] <;> (try split) <;> simp

/-- A task for which the skipping implementation raises is reported SKIP, its body does not run,
nothing is written or recorded, and all its task-descendants receive a skip mark. -/
theorem protocol_skipped {F : BodyFn} {P : Project} {g : G} {cfg : Cfg} {s : Sess} {t : TaskSpec}
    (h : SkipCond s t) :
    protocol F P g cfg s t =
      { s with reports := s.reports ++ [(t.id, Outcome.skip)], skipMarks := s.skipMarks ++ taskDesc g t.id } := by
  unfold protocol
  rw [runPhases_of_raise (setupChain_skipped_iff.2 h) (by simp)]
  simp [processReport, markAll]

/-- A task for which the skipping implementation does not raise `Skipped` adds no skip mark, and
whatever it is reported as is not SKIP. -/
theorem protocol_not_skipped {F : BodyFn} {P : Project} {g : G} {cfg : Cfg} {s : Sess} {t : TaskSpec}
    (h : ¬ SkipCond s t) :
    (protocol F P g cfg s t).skipMarks = s.skipMarks ∧
    ((protocol F P g cfg s t).reports = s.reports ∨
      ∃ o, o ≠ Outcome.skip ∧ (protocol F P g cfg s t).reports = s.reports ++ [(t.id, o)]) := by
  have hr : (runPhases F P g cfg s t).1 ≠ .skipped := fun e => h (runPhases_skipped_iff.1 e)
  obtain ⟨f1, _, _, f4, _⟩ := runPhases_fields F P g cfg s t
  unfold protocol
  refine ⟨by rw [processReport_skipMarks hr, f1], ?_⟩
  rcases processReport_reports P g cfg (runPhases F P g cfg s t).2 t (runPhases F P g cfg s t).1 with h1 | ⟨_, h1⟩
  · right
    refine ⟨outcomeOf (runPhases F P g cfg s t).1, ?_, by rw [h1, f4]⟩
    revert hr
    cases (runPhases F P g cfg s t).1 <;> simp [outcomeOf]
  · left; rw [h1, f4]

theorem protocol_skipMarks_mono (F : BodyFn) (P : Project) (g : G) (cfg : Cfg) (s : Sess) (t : TaskSpec) :
    ∀ x ∈ s.skipMarks, x ∈ (protocol F P g cfg s t).skipMarks := by
  intro x hx
  by_cases h : SkipCond s t
  · rw [protocol_skipped h]; simp [hx]
  · rw [(protocol_not_skipped (F := F) (P := P) (g := g) (cfg := cfg) h).1]; exact hx

theorem protocol_reports (F : BodyFn) (P : Project) (g : G) (cfg : Cfg) (s : Sess) (t : TaskSpec) :
    (protocol F P g cfg s t).reports = s.reports ∨ ∃ o, (protocol F P g cfg s t).reports = s.reports ++ [(t.id, o)] := by
  by_cases h : SkipCond s t
  · rw [protocol_skipped h]; exact .inr ⟨_, rfl⟩
  · rcases (protocol_not_skipped (F := F) (P := P) (g := g) (cfg := cfg) h).2 with h | ⟨o, _, h⟩
    · exact .inl h
    · exact .inr ⟨o, h⟩

/-! ## the session-level view of the build loop -/

/-- `Steps s picks s'`: running the protocol of the tasks `picks`, in this order, takes the session
from `s` to `s'`. This is `buildLoop` without the scheduler (whose guarantees — every pick legal,
ancestors first, no task twice — are `buildLoop_order`). -/
inductive Steps (F : BodyFn) (P : Project) (g : G) (cfg : Cfg) : Sess → List Nat → Sess → Prop
  | nil (s : Sess) : Steps F P g cfg s [] s
  | cons {s : Sess} {t : Nat} {spec : TaskSpec} {ts : List Nat} {s' : Sess} :
      Project.find? P t = some spec → Steps F P g cfg (protocol F P g cfg s spec) ts s' →
      Steps F P g cfg s (t :: ts) s'

theorem buildLoop_steps (F : BodyFn) (P : Project) (g : G) (cfg : Cfg) :
    ∀ (picks : List Nat) (so : Sorter) (s : Sess) (so' : Sorter) (s' : Sess),
      buildLoop F P g cfg so s picks = .ok (so', s') → Steps F P g cfg s picks s'
  | [], so, s, so', s', hb => by
    simp only [buildLoop, Except.ok.injEq, Prod.mk.injEq] at hb
    obtain ⟨_, rfl⟩ := hb
    exact .nil _
  | t :: ts, so, s, so', s', hb => by
    unfold buildLoop at hb
    split at hb
    · cases hb
    split at hb
    · cases hb
    split at hb
    · cases hb
    rename_i spec hfind
    exact .cons hfind (buildLoop_steps F P g cfg ts _ _ so' s' hb)

variable {F : BodyFn} {P : Project} {g : G} {cfg : Cfg}

theorem Steps.split {pre post : List Nat} {s s' : Sess} (h : Steps F P g cfg s (pre ++ post) s') :
    ∃ s1, Steps F P g cfg s pre s1 ∧ Steps F P g cfg s1 post s' := by
  induction pre generalizing s with
  | nil => exact ⟨s, .nil s, h⟩
  | cons t ts ih =>
    cases h with
    | cons hf hs =>
      obtain ⟨s1, h1, h2⟩ := ih hs
      exact ⟨s1, .cons hf h1, h2⟩

/-- The task `t` in the middle of a run: the session in which its protocol starts. -/
theorem Steps.at {pre post : List Nat} {t : Nat} {s s' : Sess} (h : Steps F P g cfg s (pre ++ t :: post) s') :
    ∃ s1 spec, Steps F P g cfg s pre s1 ∧ Project.find? P t = some spec ∧
      Steps F P g cfg (protocol F P g cfg s1 spec) post s' := by
  obtain ⟨s1, h1, h2⟩ := h.split
  cases h2 with
  | cons hf hs => exact ⟨s1, _, h1, hf, hs⟩

/-- Injected skip marks only grow. -/
theorem Steps.skipMarks_mono {picks : List Nat} {s s' : Sess} (h : Steps F P g cfg s picks s') :
    ∀ x ∈ s.skipMarks, x ∈ s'.skipMarks := by
  induction h with
  | nil => exact fun _ h => h
  | cons _ _ ih => exact fun x hx => ih x (protocol_skipMarks_mono F P g cfg _ _ x hx)

/-- Tasks that are not picked contribute nothing to the body log. -/
theorem Steps.log_notin {picks : List Nat} {s s' : Sess} (h : Steps F P g cfg s picks s') {t : Nat}
    (ht : t ∉ picks) : t ∈ s'.log ↔ t ∈ s.log := by
  induction h with
  | nil => exact Iff.rfl
  | @cons s u spec ts s' hf _ ih =>
    rw [ih (fun h => ht (List.mem_cons_of_mem _ h))]
    have hid := find?_id hf
    have hne : t ≠ u := fun e => ht (e ▸ List.mem_cons_self)
    rcases protocol_log F P g cfg s spec with hl | hl <;> rw [hl]
    simp [hid, hne]

/-- Tasks that are not picked get no report. -/
theorem Steps.reports_notin {picks : List Nat} {s s' : Sess} (h : Steps F P g cfg s picks s') {t : Nat} {o : Outcome}
    (ht : t ∉ picks) : (t, o) ∈ s'.reports ↔ (t, o) ∈ s.reports := by
  induction h with
  | nil => exact Iff.rfl
  | @cons s u spec ts s' hf _ ih =>
    rw [ih (fun h => ht (List.mem_cons_of_mem _ h))]
    have hid := find?_id hf
    have hne : t ≠ u := fun e => ht (e ▸ List.mem_cons_self)
    rcases protocol_reports F P g cfg s spec with hl | ⟨o', hl⟩ <;> rw [hl]
    simp [hid, hne]

theorem Steps.log_mono {picks : List Nat} {s s' : Sess} (h : Steps F P g cfg s picks s') :
    ∀ x ∈ s.log, x ∈ s'.log := by
  induction h with
  | nil => exact fun _ h => h
  | @cons s u spec ts s' hf _ ih =>
    intro x hx
    apply ih
    rcases protocol_log F P g cfg s spec with hl | hl <;> rw [hl] <;> simp [hx]

theorem Steps.reports_mono {picks : List Nat} {s s' : Sess} (h : Steps F P g cfg s picks s') :
    ∀ x ∈ s.reports, x ∈ s'.reports := by
  induction h with
  | nil => exact fun _ h => h
  | @cons s u spec ts s' hf _ ih =>
    intro x hx
    apply ih
    rcases protocol_reports F P g cfg s spec with hl | ⟨o', hl⟩ <;> rw [hl] <;> simp [hx]

/-- What a run says about one of its picks, when no task is picked twice: its body-log entry and
its report are exactly those its own protocol produced. -/
theorem Steps.pick {pre post : List Nat} {t : Nat} {s s' : Sess}
    (h : Steps F P g cfg s (pre ++ t :: post) s') (hnd : (pre ++ t :: post).Nodup) :
    ∃ s1 spec, Steps F P g cfg s pre s1 ∧ Project.find? P t = some spec ∧ spec.id = t ∧
      Steps F P g cfg (protocol F P g cfg s1 spec) post s' ∧
      (t ∈ s1.log ↔ t ∈ s.log) ∧ (∀ o, (t, o) ∈ s1.reports ↔ (t, o) ∈ s.reports) ∧
      (t ∈ s'.log ↔ t ∈ (protocol F P g cfg s1 spec).log) ∧
      (∀ o, (t, o) ∈ s'.reports ↔ (t, o) ∈ (protocol F P g cfg s1 spec).reports) := by
  obtain ⟨s1, spec, h1, hf, h2⟩ := h.at
  have hpre : t ∉ pre := by
    intro hm
    have := List.nodup_append.1 hnd
    exact this.2.2 t hm t (by simp) rfl
  have hpost : t ∉ post := by
    have := (List.nodup_append.1 hnd).2.1
    exact (List.nodup_cons.1 this).1
  exact ⟨s1, spec, h1, hf, find?_id hf, h2, h1.log_notin hpre, fun o => h1.reports_notin hpre,
    h2.log_notin hpost, fun o => h2.reports_notin hpost⟩

/-! ## skip closure -/

/-- The task carries `@pytask.mark.skip` or a `skipif` mark whose condition is true. -/
def UserSkipped (P : Project) (a : Nat) : Prop :=
  ∃ spec, Project.find? P a = some spec ∧ (spec.skip = true ∨ spec.skipif = true)

/-- A user-skipped task or one of its transitive dependants. -/
def InSkipClosure (P : Project) (g : G) (t : Nat) : Prop :=
  ∃ a, UserSkipped P a ∧ (t = a ∨ t ∈ taskDesc g a)

/-- When a task of the skip closure (or a task that already carries an injected skip mark) is
picked, the skipping implementation raises for it — provided all its task-ancestors were picked
before (which the scheduler guarantees). -/
theorem Steps.skipCond_at {pre : List Nat} {t : Nat} {s s1 : Sess} {spec : TaskSpec}
    (h1 : Steps F P g cfg s pre s1) (hf : Project.find? P t = some spec)
    (hord : ∀ a ∈ taskAnc g t, a ∈ pre)
    (hb : t ∈ s.skipMarks ∨ InSkipClosure P g t) : SkipCond s1 spec := by
  have hid := find?_id hf
  rcases hb with hm | ⟨a, ⟨spa, hfa, hflag⟩, rfl | hd⟩
  · exact .inr (.inr (hid ▸ h1.skipMarks_mono t hm))
  · rw [hf] at hfa
    cases hfa
    rcases hflag with h | h
    · exact .inl h
    · exact .inr (.inl h)
  · have hapre : a ∈ pre := hord a (mem_taskDesc_iff_mem_taskAnc.1 hd)
    obtain ⟨p1, p2, rfl⟩ := List.append_of_mem hapre
    obtain ⟨sa, spa', ha1, hfa', ha2⟩ := h1.at
    rw [hfa] at hfa'
    cases hfa'
    have hsk : SkipCond sa spa := by
      rcases hflag with h | h
      · exact .inl h
      · exact .inr (.inl h)
    rw [protocol_skipped hsk] at ha2
    have := ha2.skipMarks_mono t (by simp [find?_id hfa, hd])
    exact .inr (.inr (hid ▸ this))

/-- Main lemma for C06: in a run in which no task is picked twice and ancestors are picked first, a
task that carries an injected skip mark from the start (deselected) or lies in the skip closure
never has its body invoked, and its only possible new report is SKIP (which it gets iff it is picked). -/
theorem Steps.skipped_result {picks : List Nat} {s s' : Sess}
    (h : Steps F P g cfg s picks s') (hnd : picks.Nodup)
    (hord : ∀ pre t post, picks = pre ++ t :: post → ∀ a ∈ taskAnc g t, a ∈ pre)
    {t : Nat} (hb : t ∈ s.skipMarks ∨ InSkipClosure P g t) :
    (t ∈ s'.log ↔ t ∈ s.log) ∧
    (∀ o, (t, o) ∈ s'.reports ↔ ((t, o) ∈ s.reports ∨ (t ∈ picks ∧ o = Outcome.skip))) := by
  by_cases hp : t ∈ picks
  · obtain ⟨pre, post, rfl⟩ := List.append_of_mem hp
    obtain ⟨s1, spec, h1, hf, hid, h2, hl1, hr1, hl2, hr2⟩ := h.pick hnd
    have hsk : SkipCond s1 spec := h1.skipCond_at hf (hord pre t post rfl) hb
    rw [protocol_skipped hsk] at hl2 hr2
    refine ⟨by rw [hl2]; exact hl1, ?_⟩
    intro o
    rw [hr2 o]
    simp only [List.mem_append, List.mem_singleton, Prod.mk.injEq, hid, true_and, hr1 o, hp]
  · refine ⟨h.log_notin hp, fun o => ?_⟩
    rw [h.reports_notin hp]
    simp [hp]

/-! ## from `build` to `Steps` -/

/-- What `build` does once `create_dag` succeeded: the scheduler accepts the DAG, the loop is a
`Steps` run from the session that carries the deselection marks; no task is picked twice and every
task is picked after all its task-ancestors. -/
theorem build_run {F : BodyFn} {P : Project} {cfg : Cfg} {w : World} {picks : List Nat} {r : Result}
    {g : G} {marks : List Nat}
    (hd : createDag P cfg = .ok (g, marks)) (hb : build F P cfg w picks = .ok r) :
    ∃ (so so' : Sorter) (s' : Sess),
      Sorter.fromDag g isTaskV (prioFn P) = .ok so ∧
      buildLoop F P g cfg so { w := w, skipMarks := marks } picks = .ok (so', s') ∧
      Steps F P g cfg { w := w, skipMarks := marks } picks s' ∧ picks.Nodup ∧
      (∀ pre t post, picks = pre ++ t :: post → ∀ a ∈ taskAnc g t, a ∈ pre) ∧
      r.reports = s'.reports ∧ r.log = s'.log ∧ r.w = s'.w ∧
      r.exit = (if s'.crashed then ladderCode "Exception"
                else if s'.reports.any (fun r => r.2 == .fail) then ladderCode "ExecutionError" else exitCode "OK") ∧
      r.complete = (s'.stop || s'.crashed || !so'.isActive) := by
  have hacyc := (createDag_ok hd).2.2
  unfold build at hb
  rw [hd] at hb
  simp only [] at hb
  have hso : Sorter.fromDag g isTaskV (prioFn P) =
      .ok { nodes := g.nodes.filter isTaskV,
            edges := (g.nodes.filter isTaskV).flatMap (fun t => ((g.anc t).filter isTaskV).map (fun a => (a, t))),
            prio := prioFn P, processing := [], done := [] } := by
    unfold Sorter.fromDag
    simp [hacyc]
  rw [hso] at hb
  simp only [] at hb
  split at hb
  · cases hb
  rename_i so' s' hloop
  simp only [Except.ok.injEq] at hb
  subst hb
  refine ⟨_, so', s', hso, hloop, buildLoop_steps F P g cfg picks _ _ so' s' hloop, ?_, ?_, rfl, rfl, rfl, rfl, rfl⟩
  · obtain ⟨hd0, hp0⟩ := fromDag_init hso
    have hr0 := Reach.init _ hd0 hp0
    obtain ⟨hr1, _, _, _⟩ := buildLoop_order F P g cfg picks _ _ _ [] so' s' hr0 hd0 hloop
    have hnd : (picks.map tv).Nodup := by simpa using (reach_inv hr1).hnodup
    exact (List.pairwise_map.1 hnd).imp (fun hne heq => hne (by rw [heq]))
  · intro pre t post hp a ha
    obtain ⟨hd0, hp0⟩ := fromDag_init hso
    have hr0 := Reach.init _ hd0 hp0
    obtain ⟨_, _, hord, _⟩ := buildLoop_order F P g cfg picks _ _ _ [] so' s' hr0 hd0 hloop
    have hv := (mem_taskAnc.1 ha)
    have key := buildLoop_picked_node F P g cfg picks _ _ so' s' hloop t (by rw [hp]; simp)
    rw [fromDag_nodes hso] at key
    have htn : tv t ∈ g.nodes ∧ isTaskV (tv t) = true := by simpa using key
    have hanc : tv a ∈ g.anc (tv t) := G.mem_anc.2 ⟨hv.1, fun e => hv.2 (tv_injective e)⟩
    have hedge := (fromDag_edges hso (tv a) (tv t)).2 ⟨htn.1, htn.2, hanc, isTaskV_tv a⟩
    have := hord pre t post hp (tv a) hedge
    simp only [List.nil_append, List.mem_map] at this
    obtain ⟨a', ha', hv'⟩ := this
    exact tv_injective hv' ▸ ha'

/-! ## the converse: only blocked tasks are ever reported SKIP -/

/-- Not eligible under the selection, or in the skip closure. -/
def Blocked (P : Project) (g : G) (cfg : Cfg) (t : Nat) : Prop := ¬ Eligible g cfg t ∨ InSkipClosure P g t

theorem Blocked.desc {t d : Nat} (h : Blocked P g cfg t) (hd : d ∈ taskDesc g t) : Blocked P g cfg d := by
  rcases h with h | ⟨a, hu, rfl | hta⟩
  · exact .inl (fun he => h (he.anc (mem_taskDesc_iff_mem_taskAnc.1 hd)))
  · exact .inr ⟨t, hu, .inr hd⟩
  · by_cases e : d = a
    · exact .inr ⟨a, hu, .inl e⟩
    · have p1 := (mem_taskDesc.1 hta).1
      have p2 := (mem_taskDesc.1 hd).1
      exact .inr ⟨a, hu, .inr (mem_taskDesc.2 ⟨p1.trans p2, e⟩)⟩

theorem Steps.blocked_inv {picks : List Nat} {s s' : Sess} (h : Steps F P g cfg s picks s')
    (h0 : ∀ x ∈ s.skipMarks, Blocked P g cfg x) :
    (∀ x ∈ s'.skipMarks, Blocked P g cfg x) ∧
    (∀ u, (u, Outcome.skip) ∈ s'.reports → (u, Outcome.skip) ∈ s.reports ∨ Blocked P g cfg u) := by
  induction h with
  | nil => exact ⟨h0, fun _ h => .inl h⟩
  | @cons s t spec ts s' hf _ ih =>
    have hid := find?_id hf
    by_cases hsk : SkipCond s spec
    · have hbt : Blocked P g cfg t := by
        rcases hsk with h | h | h
        · exact .inr ⟨t, ⟨spec, hf, .inl h⟩, .inl rfl⟩
        · exact .inr ⟨t, ⟨spec, hf, .inr h⟩, .inl rfl⟩
        · exact h0 t (hid ▸ h)
      have h0' : ∀ x ∈ (protocol F P g cfg s spec).skipMarks, Blocked P g cfg x := by
        rw [protocol_skipped hsk]
        intro x hx
        simp only [List.mem_append] at hx
        rcases hx with hx | hx
        · exact h0 x hx
        · exact hbt.desc (hid ▸ hx)
      obtain ⟨i1, i2⟩ := ih h0'
      refine ⟨i1, fun u hu => ?_⟩
      rcases i2 u hu with hu | hu
      · rw [protocol_skipped hsk] at hu
        simp only [List.mem_append, List.mem_singleton, Prod.mk.injEq] at hu
        rcases hu with hu | ⟨rfl, _⟩
        · exact .inl hu
        · exact .inr (hid ▸ hbt)
      · exact .inr hu
    · obtain ⟨hm, hr⟩ := protocol_not_skipped (F := F) (P := P) (g := g) (cfg := cfg) hsk
      obtain ⟨i1, i2⟩ := ih (by rw [hm]; exact h0)
      refine ⟨i1, fun u hu => ?_⟩
      rcases i2 u hu with hu | hu
      · rcases hr with hr | ⟨o, ho, hr⟩
        · exact .inl (hr ▸ hu)
        · rw [hr] at hu
          simp only [List.mem_append, List.mem_singleton, Prod.mk.injEq] at hu
          rcases hu with hu | ⟨_, e⟩
          · exact .inl hu
          · exact absurd e.symm ho
      · exact .inr hu

/-! ## exit code: a crash of the loop comes from a task whose body ran -/

theorem runBody_not_raised {F : BodyFn} {t : TaskSpec} {fs : FS} (h : (runBody F t fs).2 = false) :
    behInvokes t.beh = true := by
  cases hb : t.beh <;> simp only [behInvokes]
  exfalso
  unfold runBody at h
  rw [hb] at h
  simp only [] at h
  split at h <;> cases h

theorem runPhases_none_log {F : BodyFn} {P : Project} {g : G} {cfg : Cfg} {s : Sess} {t : TaskSpec}
    (h : (runPhases F P g cfg s t).1 = .none) : (runPhases F P g cfg s t).2.log = s.log ++ [t.id] := by
  by_cases hn : setupChain P g cfg s t Generated.setupOrder = .none
  · unfold runPhases at h ⊢
    rw [hn] at h ⊢
    simp only [] at h ⊢
    split at h
    · cases h
    · split at h
      · cases h
      · rename_i hr
        have := runBody_not_raised (by simpa using hr)
        split at h
        · cases h
        · simp [hr, this, *]
  · rw [runPhases_of_raise rfl hn] at h
    exact absurd h hn

theorem updateStates_ok {P : Project} {g : G} {t : Nat} : ∀ (ns : List Nat) (w : World),
    (∀ v ∈ ns, (stateOf P w v).isSome = true) → (updateStates P g w t ns).2 = true
  | [], _, _ => rfl
  | v :: vs, w, h => by
    unfold updateStates
    have hv := h v (by simp)
    cases hs : stateOf P w v with
    | none => simp [hs] at hv
    | some x =>
      simp only []
      apply updateStates_ok vs
      intro v' hv'
      have := h v' (by simp [hv'])
      simpa [stateOf] using this

/-- The persist implementation raised: the task carries the mark and no `would_be_executed` mark
(repair of F20), every neighbour has a state, and one of them changed. -/
def PersistCond (P : Project) (g : G) (s : Sess) (t : TaskSpec) : Prop :=
  (t.persist = true ∧ t.id ∉ s.wbeMarks) ∧ (∀ v ∈ neighbours g t.id, (stateOf P s.w v).isSome = true) ∧
  ∃ v ∈ neighbours g t.id, hasChanged s.w t.id v (stateOf P s.w v) = true

theorem setupImpl_persist_iff {P : Project} {g : G} {cfg : Cfg} {s : Sess} {t : TaskSpec} :
    setupImpl P g cfg s t "persist" = .persisted ↔ PersistCond P g s t := by
  have e : setupImpl P g cfg s t "persist" =
      if (t.persist && !s.wbeMarks.contains t.id) then
        (if ((neighbours g t.id).map (stateOf P s.w)).all (·.isSome) then
          (if ((neighbours g t.id).zip ((neighbours g t.id).map (stateOf P s.w))).any
                (fun (v, st) => hasChanged s.w t.id v st) then .persisted else .none)
        else .none)
      else .none := by
    simp [setupImpl]
  rw [e]
  unfold PersistCond
  have hz : ∀ (l : List Nat), (l.zip (l.map (stateOf P s.w))).any (fun (v, st) => hasChanged s.w t.id v st) = true ↔
      ∃ v ∈ l, hasChanged s.w t.id v (stateOf P s.w v) = true := by
    intro l
    induction l with
    | nil => simp
    | cons x xs ih => simp only [List.map_cons, List.zip_cons_cons, List.any_cons, Bool.or_eq_true, ih, List.mem_cons, exists_eq_or_imp]
  have hg : (t.persist && !s.wbeMarks.contains t.id) = true ↔ (t.persist = true ∧ t.id ∉ s.wbeMarks) := by simp
  by_cases h1 : (t.persist && !s.wbeMarks.contains t.id) = true
  · have h1' := hg.1 h1
    by_cases h2 : ∀ v ∈ neighbours g t.id, (stateOf P s.w v).isSome = true
    · have h2' : ((neighbours g t.id).map (stateOf P s.w)).all (·.isSome) = true := by simpa using h2
      by_cases h3 : ∃ v ∈ neighbours g t.id, hasChanged s.w t.id v (stateOf P s.w v) = true
      · simp only [h1, h2', (hz _).2 h3, if_true, true_and]
        exact ⟨fun _ => ⟨h1', h2, h3⟩, fun _ => trivial⟩
      · have : ¬ ((neighbours g t.id).zip ((neighbours g t.id).map (stateOf P s.w))).any (fun (v, st) => hasChanged s.w t.id v st) = true :=
          fun h => h3 ((hz _).1 h)
        simp only [h1, h2', this, if_true]
        simp [h3]
    · have h2' : ¬ ((neighbours g t.id).map (stateOf P s.w)).all (·.isSome) = true := by simpa using h2
      simp only [h1, h2', if_true]
      simp [h2]
  · have h1' : ¬ (t.persist = true ∧ t.id ∉ s.wbeMarks) := fun h => h1 (hg.2 h)
    simp only [h1]
    simp [h1']

theorem setupImpl_skipping_none {P : Project} {g : G} {cfg : Cfg} {s : Sess} {t : TaskSpec} :
    setupImpl P g cfg s t "skipping" = .none ↔ ¬ SkipCond s t ∧ t.id ∉ s.failMarks := by
  rw [setupImpl_skipping]
  unfold SkipCond
  by_cases h1 : t.skip = true <;> by_cases h2 : t.id ∈ s.skipMarks <;> by_cases h3 : t.skipif = true <;>
    by_cases h4 : t.id ∈ s.failMarks <;> simp [h1, h2, h3, h4]

theorem setupImpl_skipping_ne_persisted {P : Project} {g : G} {cfg : Cfg} {s : Sess} {t : TaskSpec} :
    setupImpl P g cfg s t "skipping" ≠ .persisted := by
  rw [setupImpl_skipping]
  split <;> (try split) <;> (try split) <;> simp

theorem setupImpl_execute_ne_persisted {P : Project} {g : G} {cfg : Cfg} {s : Sess} {t : TaskSpec} :
    setupImpl P g cfg s t "execute" ≠ .persisted := by
  simp only [setupImpl]; simp; split <;> (try split) <;> simp

/-- The setup chain ends in `Persisted` exactly when the skipping implementation lets the task pass
(no skip mark of any origin, no failed ancestor) and the persist implementation raises. -/
theorem setupChain_persisted_iff {P : Project} {g : G} {cfg : Cfg} {s : Sess} {t : TaskSpec} :
    setupChain P g cfg s t Generated.setupOrder = .persisted ↔
      (¬ SkipCond s t ∧ t.id ∉ s.failMarks) ∧ PersistCond P g s t := by
  rw [setupChain_order, ← setupImpl_skipping_none (P := P) (g := g) (cfg := cfg),
    ← setupImpl_persist_iff (cfg := cfg)]
  have h1 := setupImpl_skipping_ne_persisted (P := P) (g := g) (cfg := cfg) (s := s) (t := t)
  have h3 := setupImpl_execute_ne_persisted (P := P) (g := g) (cfg := cfg) (s := s) (t := t)
  cases e1 : setupImpl P g cfg s t "skipping" <;> simp only [] <;> (try simp_all)
  cases e2 : setupImpl P g cfg s t "persist" <;> simp only [] <;> simp_all

theorem runPhases_persisted_iff {F : BodyFn} {P : Project} {g : G} {cfg : Cfg} {s : Sess} {t : TaskSpec} :
    (runPhases F P g cfg s t).1 = .persisted ↔ (¬ SkipCond s t ∧ t.id ∉ s.failMarks) ∧ PersistCond P g s t := by
  rw [← setupChain_persisted_iff (cfg := cfg)]
  by_cases hn : setupChain P g cfg s t Generated.setupOrder = .none
  · rcases runPhases_of_none (F := F) hn with h | h | h <;> simp [h, hn]
  · rw [runPhases_of_raise rfl hn]

theorem recordStates_ok {P : Project} {g : G} {cfg : Cfg} {w : World} {t : Nat}
    (h : ∀ v ∈ neighbours g t, (stateOf P w v).isSome = true) : (recordStates P g cfg w t).2 = true := by
  unfold recordStates
  split
  · rfl
  · exact updateStates_ok _ _ h

/-- A persisted task: reported PERSISTENCE, body not run, no file touched, states recorded. -/
theorem protocol_persisted {F : BodyFn} {P : Project} {g : G} {cfg : Cfg} {s : Sess} {t : TaskSpec}
    (h1 : ¬ SkipCond s t) (h2 : t.id ∉ s.failMarks) (h3 : PersistCond P g s t) :
    protocol F P g cfg s t =
      { s with w := (recordStates P g cfg s.w t.id).1, reports := s.reports ++ [(t.id, Outcome.persistence)],
               crashed := false } := by
  unfold protocol
  rw [runPhases_of_raise (setupChain_persisted_iff.2 ⟨⟨h1, h2⟩, h3⟩) (by simp)]
  simp only [processReport]
  rw [recordStates_ok h3.2.1]
  rfl

/-- If the loop is aborted by `update_states_in_database` raising, that happened in the protocol of
a task whose body had just run. -/
theorem protocol_crashed {F : BodyFn} {P : Project} {g : G} {cfg : Cfg} {s : Sess} {t : TaskSpec}
    (h : (protocol F P g cfg s t).crashed = true) : s.crashed = true ∨ t.id ∈ (protocol F P g cfg s t).log := by
  obtain ⟨_, _, _, _, _, _, f7, _⟩ := runPhases_fields F P g cfg s t
  cases hr : (runPhases F P g cfg s t).1
  case persisted =>
    obtain ⟨⟨h1, h2⟩, h3⟩ := runPhases_persisted_iff.1 hr
    rw [protocol_persisted h1 h2 h3] at h
    cases h
  case none =>
    right
    unfold protocol
    rw [processReport_log, runPhases_none_log hr]
    simp
  all_goals
    left
    have h' : (processReport P g cfg (runPhases F P g cfg s t).2 t (runPhases F P g cfg s t).1).crashed = true := h
    rw [hr] at h'
    simp only [processReport] at h'
    rw [← f7]; exact h'

theorem Steps.crashed_log {picks : List Nat} {s s' : Sess} (h : Steps F P g cfg s picks s')
    (h0 : s.crashed = true → ∃ u, u ∈ s.log) : s'.crashed = true → ∃ u, u ∈ s'.log := by
  induction h with
  | nil => exact h0
  | @cons s t spec ts s' hf _ ih =>
    apply ih
    intro hc
    rcases protocol_crashed hc with h | h
    · obtain ⟨u, hu⟩ := h0 h
      refine ⟨u, ?_⟩
      rcases protocol_log F P g cfg s spec with hl | hl <;> rw [hl] <;> simp [hu]
    · exact ⟨_, h⟩

end Engine
end Pytask
