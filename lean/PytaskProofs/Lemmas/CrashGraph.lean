import PytaskProofs.Lemmas.EngineConverge
import PytaskProofs.Properties.C01
namespace Pytask
namespace Engine
open G

theorem cr_addNode_edges (g : G) (v : Nat) : (g.addNode v).edges = g.edges := by
  unfold G.addNode; split <;> rfl

theorem mem_addEdge (g : G) (u v : Nat) (e : Nat × Nat) :
    e ∈ (g.addEdge u v).edges ↔ e ∈ g.edges ∨ e = (u, v) := by
  unfold G.addEdge
  simp only []
  split
  · rename_i h
    simp only [cr_addNode_edges] at h ⊢
    constructor
    · exact Or.inl
    · rintro (h1 | h1)
      · exact h1
      · rw [h1]; simpa using h
  · simp [cr_addNode_edges]

theorem foldl_addEdge_mono {α} (l : List α) (f h : α → Nat) (g : G) (e : Nat × Nat) (he : e ∈ g.edges) :
    e ∈ (l.foldl (fun g x => g.addEdge (f x) (h x)) g).edges := by
  induction l generalizing g with
  | nil => exact he
  | cons a l ih => exact ih _ ((mem_addEdge g _ _ e).2 (Or.inl he))

theorem foldl_addEdge_mem {α} (l : List α) (f h : α → Nat) (g : G) (x : α) (hx : x ∈ l) :
    (f x, h x) ∈ (l.foldl (fun g x => g.addEdge (f x) (h x)) g).edges := by
  induction l generalizing g with
  | nil => cases hx
  | cons a l ih =>
    rcases List.mem_cons.1 hx with rfl | hx
    · exact foldl_addEdge_mono l f h _ _ ((mem_addEdge g _ _ _).2 (Or.inr rfl))
    · exact ih _ hx

/-- one iteration of `_create_dag_from_tasks` -/
def crBaseStep (g : G) (t : TaskSpec) : G :=
  let g := g.addNode (tv t.id)
  let g := t.deps.foldl (fun g d => g.addEdge (nv d) (tv t.id)) g
  t.prods.foldl (fun g p => g.addEdge (tv t.id) (nv p)) g

theorem baseGraph_eq (P : Project) : baseGraph P = P.tasks.foldl crBaseStep G.empty := rfl

theorem crBaseStep_mono (g : G) (t : TaskSpec) (e : Nat × Nat) (he : e ∈ g.edges) : e ∈ (crBaseStep g t).edges := by
  unfold crBaseStep
  simp only []
  apply foldl_addEdge_mono t.prods (fun _ => tv t.id) nv
  apply foldl_addEdge_mono t.deps nv (fun _ => tv t.id)
  rw [cr_addNode_edges]; exact he

theorem crBaseStep_deps (g : G) (t : TaskSpec) (d : Nat) (hd : d ∈ t.deps) : (nv d, tv t.id) ∈ (crBaseStep g t).edges := by
  unfold crBaseStep
  simp only []
  apply foldl_addEdge_mono t.prods (fun _ => tv t.id) nv
  exact foldl_addEdge_mem t.deps nv (fun _ => tv t.id) _ d hd

theorem crBaseStep_prods (g : G) (t : TaskSpec) (p : Nat) (hp : p ∈ t.prods) : (tv t.id, nv p) ∈ (crBaseStep g t).edges := by
  unfold crBaseStep
  simp only []
  exact foldl_addEdge_mem t.prods (fun _ => tv t.id) nv _ p hp

theorem foldl_baseStep_mono (l : List TaskSpec) (g : G) (e : Nat × Nat) (he : e ∈ g.edges) :
    e ∈ (l.foldl crBaseStep g).edges := by
  induction l generalizing g with
  | nil => exact he
  | cons a l ih => exact ih _ (crBaseStep_mono g a e he)

theorem foldl_baseStep_edges (l : List TaskSpec) (g0 : G) (t : TaskSpec) (ht : t ∈ l) :
    (∀ d ∈ t.deps, (nv d, tv t.id) ∈ (l.foldl crBaseStep g0).edges) ∧
    (∀ p ∈ t.prods, (tv t.id, nv p) ∈ (l.foldl crBaseStep g0).edges) := by
  induction l generalizing g0 with
  | nil => cases ht
  | cons a l ih =>
    rcases List.mem_cons.1 ht with rfl | ht
    · exact ⟨fun d hd => foldl_baseStep_mono l _ _ (crBaseStep_deps g0 t d hd),
             fun p hp => foldl_baseStep_mono l _ _ (crBaseStep_prods g0 t p hp)⟩
    · exact ih _ ht

theorem baseGraph_edges (P : Project) (t : TaskSpec) (ht : t ∈ P.tasks) :
    (∀ d ∈ t.deps, (nv d, tv t.id) ∈ (baseGraph P).edges) ∧ (∀ p ∈ t.prods, (tv t.id, nv p) ∈ (baseGraph P).edges) := by
  rw [baseGraph_eq]; exact foldl_baseStep_edges P.tasks G.empty t ht

/-- one iteration of `_modify_dag` -/
def afterStep (g : G) (t : TaskSpec) : G :=
  t.after.foldl (fun g o =>
    if o == t.id then g else (g.succs (tv o)).foldl (fun g s => g.addEdge s (tv t.id)) g) g

theorem modifyDag_eq (P : Project) (g : G) : modifyDag P g = P.tasks.foldl afterStep g := rfl

theorem afterStep_mono (g : G) (t : TaskSpec) (e : Nat × Nat) (he : e ∈ g.edges) : e ∈ (afterStep g t).edges := by
  unfold afterStep
  generalize t.after = os
  induction os generalizing g with
  | nil => exact he
  | cons o os ih =>
    rw [List.foldl_cons]
    apply ih
    split
    · exact he
    · exact foldl_addEdge_mono _ (fun s => s) (fun _ => tv t.id) g e he

theorem cr_modifyDag_mono (P : Project) (g : G) (e : Nat × Nat) (he : e ∈ g.edges) : e ∈ (modifyDag P g).edges := by
  rw [modifyDag_eq]
  generalize P.tasks = l
  induction l generalizing g with
  | nil => exact he
  | cons t l ih => exact ih _ (afterStep_mono g t e he)

theorem createDag_unfold (P : Project) (cfg : Cfg) : createDag P cfg =
    (if (baseGraph P).hasCycle then .error .cycle
     else if sharedProduct (baseGraph P) then .error .sharedProduct
     else if (modifyDag P (baseGraph P)).hasCycle then .error .cycle
     else .ok (modifyDag P (baseGraph P), [] ++ deselected P (modifyDag P (baseGraph P)) cfg)) := by
  rfl

theorem createDag_graph (P : Project) (cfg : Cfg) (g : G) (marks : List Nat) (h : createDag P cfg = .ok (g, marks)) :
    g = modifyDag P (baseGraph P) := by
  rw [createDag_unfold] at h
  split at h
  · cases h
  split at h
  · cases h
  split at h
  · cases h
  simp only [Except.ok.injEq, Prod.mk.injEq] at h
  exact h.1.symm

theorem mem_preds_of_edge (g : G) (a b : Nat) (h : (a, b) ∈ g.edges) : a ∈ g.preds b := by
  unfold G.preds
  simp only [List.mem_map, List.mem_filter]
  exact ⟨(a, b), ⟨h, by simp⟩, rfl⟩

theorem mem_succs_of_edge (g : G) (a b : Nat) (h : (a, b) ∈ g.edges) : b ∈ g.succs a := by
  unfold G.succs
  simp only [List.mem_map, List.mem_filter]
  exact ⟨(a, b), ⟨h, by simp⟩, rfl⟩

/-- The graph of a build contains every declared dependency and product edge (`_create_dag_from_tasks`; `_modify_dag` only adds
edges), so the rows that `update_states_in_database` writes cover every declared dependency and product. -/
theorem createDag_covers (P : Project) (cfg : Cfg) (g : G) (marks : List Nat) (h : createDag P cfg = .ok (g, marks))
    (t : TaskSpec) (ht : t ∈ P.tasks) :
    (∀ d ∈ t.deps, nv d ∈ neighbours g t.id) ∧ (∀ p ∈ t.prods, nv p ∈ neighbours g t.id) := by
  have hg := createDag_graph P cfg g marks h
  subst hg
  obtain ⟨hd, hp⟩ := baseGraph_edges P t ht
  unfold neighbours
  refine ⟨fun d hdm => ?_, fun p hpm => ?_⟩
  · simp only [List.mem_append]
    exact Or.inl (Or.inl (mem_preds_of_edge _ _ _ (cr_modifyDag_mono P _ _ (hd d hdm))))
  · simp only [List.mem_append]
    exact Or.inr (mem_succs_of_edge _ _ _ (cr_modifyDag_mono P _ _ (hp p hpm)))


/-! ### converse: every edge of the build's graph is a declared one or an `after` edge into a task -/

theorem foldl_addEdge_inv {α} (l : List α) (f h : α → Nat) (g : G) (e : Nat × Nat)
    (he : e ∈ (l.foldl (fun g x => g.addEdge (f x) (h x)) g).edges) : e ∈ g.edges ∨ ∃ x ∈ l, e = (f x, h x) := by
  induction l generalizing g with
  | nil => exact Or.inl he
  | cons a l ih =>
    rcases ih _ he with h1 | ⟨x, hx, rfl⟩
    · rcases (mem_addEdge g _ _ e).1 h1 with h2 | h2
      · exact Or.inl h2
      · exact Or.inr ⟨a, by simp, h2⟩
    · exact Or.inr ⟨x, List.mem_cons_of_mem _ hx, rfl⟩

theorem crBaseStep_inv (g : G) (t : TaskSpec) (e : Nat × Nat) (he : e ∈ (crBaseStep g t).edges) :
    e ∈ g.edges ∨ (∃ d ∈ t.deps, e = (nv d, tv t.id)) ∨ (∃ p ∈ t.prods, e = (tv t.id, nv p)) := by
  unfold crBaseStep at he
  simp only [] at he
  rcases foldl_addEdge_inv t.prods (fun _ => tv t.id) nv _ e he with h1 | ⟨p, hp, rfl⟩
  · rcases foldl_addEdge_inv t.deps nv (fun _ => tv t.id) _ e h1 with h2 | ⟨d, hd, rfl⟩
    · rw [cr_addNode_edges] at h2; exact Or.inl h2
    · exact Or.inr (Or.inl ⟨d, hd, rfl⟩)
  · exact Or.inr (Or.inr ⟨p, hp, rfl⟩)

theorem foldl_baseStep_inv (l : List TaskSpec) (g0 : G) (e : Nat × Nat) (he : e ∈ (l.foldl crBaseStep g0).edges) :
    e ∈ g0.edges ∨ ∃ x ∈ l, (∃ d ∈ x.deps, e = (nv d, tv x.id)) ∨ (∃ p ∈ x.prods, e = (tv x.id, nv p)) := by
  induction l generalizing g0 with
  | nil => exact Or.inl he
  | cons a l ih =>
    rcases ih _ he with h1 | ⟨x, hx, h⟩
    · rcases crBaseStep_inv g0 a e h1 with h2 | h2
      · exact Or.inl h2
      · exact Or.inr ⟨a, by simp, h2⟩
    · exact Or.inr ⟨x, List.mem_cons_of_mem _ hx, h⟩

theorem baseGraph_inv (P : Project) (e : Nat × Nat) (he : e ∈ (baseGraph P).edges) :
    ∃ x ∈ P.tasks, (∃ d ∈ x.deps, e = (nv d, tv x.id)) ∨ (∃ p ∈ x.prods, e = (tv x.id, nv p)) := by
  rw [baseGraph_eq] at he
  rcases foldl_baseStep_inv P.tasks G.empty e he with h | h
  · cases h
  · exact h

theorem afterStep_inv (g : G) (t : TaskSpec) (e : Nat × Nat) (he : e ∈ (afterStep g t).edges) :
    e ∈ g.edges ∨ e.2 = tv t.id := by
  unfold afterStep at he
  generalize t.after = os at he
  induction os generalizing g with
  | nil => exact Or.inl he
  | cons o os ih =>
    rw [List.foldl_cons] at he
    rcases ih _ he with h1 | h1
    · split at h1
      · exact Or.inl h1
      · rcases foldl_addEdge_inv _ (fun s => s) (fun _ => tv t.id) g e h1 with h2 | ⟨x, _, rfl⟩
        · exact Or.inl h2
        · exact Or.inr rfl
    · exact Or.inr h1

theorem cr_isTaskV_tv (t : Nat) : isTaskV (tv t) = true := by
  unfold isTaskV tv
  have : (2 * t) % 2 = 0 := by omega
  simp [this]

theorem cr_isTaskV_nv (n : Nat) : isTaskV (nv n) = false := by
  unfold isTaskV nv
  have : (2 * n + 1) % 2 = 1 := by omega
  simp [this]

theorem modifyDag_inv (P : Project) (g : G) (e : Nat × Nat) (he : e ∈ (modifyDag P g).edges) :
    e ∈ g.edges ∨ isTaskV e.2 = true := by
  rw [modifyDag_eq] at he
  generalize P.tasks = l at he
  induction l generalizing g with
  | nil => exact Or.inl he
  | cons t l ih =>
    rcases ih _ he with h1 | h1
    · rcases afterStep_inv g t e h1 with h2 | h2
      · exact Or.inl h2
      · exact Or.inr (by rw [h2]; exact cr_isTaskV_tv _)
    · exact Or.inr h1

theorem mem_preds_iff (g : G) (a b : Nat) : a ∈ g.preds b ↔ (a, b) ∈ g.edges := by
  unfold G.preds
  simp only [List.mem_map, List.mem_filter]
  constructor
  · rintro ⟨e, ⟨he, hb⟩, rfl⟩
    have : e.2 = b := by simpa using hb
    rw [← this]; exact he
  · intro h; exact ⟨(a, b), ⟨h, by simp⟩, rfl⟩

theorem mem_succs_iff (g : G) (a b : Nat) : b ∈ g.succs a ↔ (a, b) ∈ g.edges := by
  unfold G.succs
  simp only [List.mem_map, List.mem_filter]
  constructor
  · rintro ⟨e, ⟨he, hb⟩, rfl⟩
    have : e.1 = a := by simpa using hb
    rw [← this]; exact he
  · intro h; exact ⟨(a, b), ⟨h, by simp⟩, rfl⟩

/-! ### the graph is bipartite -/

def Bip (g : G) : Prop := ∀ e ∈ g.edges, isTaskV e.1 ≠ isTaskV e.2

theorem Bip.addEdge {g : G} (hb : Bip g) (u v : Nat) (h : isTaskV u ≠ isTaskV v) : Bip (g.addEdge u v) := by
  intro e he
  rcases (mem_addEdge g u v e).1 he with h1 | rfl
  · exact hb e h1
  · exact h

theorem Bip.foldl {α} (l : List α) (f h : α → Nat) (g : G) (hb : Bip g) (hl : ∀ x ∈ l, isTaskV (f x) ≠ isTaskV (h x)) :
    Bip (l.foldl (fun g x => g.addEdge (f x) (h x)) g) := by
  induction l generalizing g with
  | nil => exact hb
  | cons a l ih =>
    exact ih _ (hb.addEdge _ _ (hl a (by simp))) (fun x hx => hl x (List.mem_cons_of_mem _ hx))

theorem Bip.crBaseStep {g : G} (hb : Bip g) (t : TaskSpec) : Bip (crBaseStep g t) := by
  unfold Engine.crBaseStep
  simp only []
  apply Bip.foldl t.prods (fun _ => tv t.id) nv
  · apply Bip.foldl t.deps nv (fun _ => tv t.id)
    · intro e he; rw [cr_addNode_edges] at he; exact hb e he
    · intro d _; rw [cr_isTaskV_nv, cr_isTaskV_tv]; simp
  · intro p _; rw [cr_isTaskV_nv, cr_isTaskV_tv]; simp

theorem Bip.afterStep {g : G} (hb : Bip g) (t : TaskSpec) : Bip (afterStep g t) := by
  unfold Engine.afterStep
  generalize t.after = os
  induction os generalizing g with
  | nil => exact hb
  | cons o os ih =>
    rw [List.foldl_cons]
    apply ih
    split
    · exact hb
    · apply Bip.foldl _ (fun s => s) (fun _ => tv t.id) g hb
      intro s hs
      have := hb (tv o, s) ((mem_succs_iff g _ _).1 hs)
      simp only [cr_isTaskV_tv] at this ⊢
      cases h : isTaskV s
      · simp
      · rw [h] at this; exact absurd rfl this

theorem bip_createDag (P : Project) (cfg : Cfg) (g : G) (marks : List Nat) (h : createDag P cfg = .ok (g, marks)) : Bip g := by
  have hg := createDag_graph P cfg g marks h
  subst hg
  rw [modifyDag_eq]
  have hbase : Bip (baseGraph P) := by
    rw [baseGraph_eq]
    have : Bip G.empty := fun e he => by cases he
    generalize G.empty = g0 at this
    generalize P.tasks = l
    induction l generalizing g0 with
    | nil => exact this
    | cons a l ih => exact ih _ (this.crBaseStep a)
  generalize baseGraph P = g0 at hbase
  generalize P.tasks = l
  induction l generalizing g0 with
  | nil => exact hbase
  | cons a l ih => exact ih _ (hbase.afterStep a)

/-! ### a producer of a dependency is a task-ancestor -/

theorem mem_union_left (a b : List Nat) (x : Nat) (h : x ∈ a) : x ∈ G.union a b := by
  unfold G.union
  induction b generalizing a with
  | nil => exact h
  | cons y b ih =>
    rw [List.foldl_cons]
    apply ih
    split
    · exact h
    · exact List.mem_append_left _ h

theorem mem_union_right (a b : List Nat) (x : Nat) (h : x ∈ b) : x ∈ G.union a b := by
  unfold G.union
  induction b generalizing a with
  | nil => cases h
  | cons y b ih =>
    rw [List.foldl_cons]
    rcases List.mem_cons.1 h with rfl | h
    · have := mem_union_left (if a.contains x then a else a ++ [x]) b x (by
        split
        · rename_i hc; simpa using hc
        · simp)
      unfold G.union at this
      exact this
    · exact ih _ h

theorem mem_stepBack_self (g : G) (s : List Nat) (x : Nat) (h : x ∈ s) : x ∈ g.stepBack s :=
  mem_union_left _ _ _ h

theorem mem_stepBack_pred (g : G) (s : List Nat) (x y : Nat) (hy : y ∈ s) (hx : x ∈ g.preds y) : x ∈ g.stepBack s :=
  mem_union_right _ _ _ (List.mem_flatMap.2 ⟨y, hy, hx⟩)

theorem mem_iter_stepBack (g : G) (n : Nat) (s : List Nat) (x : Nat) (h : x ∈ s) : x ∈ G.iter g.stepBack n s := by
  induction n generalizing s with
  | zero => exact h
  | succ n ih => exact ih _ (mem_stepBack_self g s x h)

theorem two_step_ancRaw (g : G) (a b c : Nat) (h1 : (a, b) ∈ g.edges) (h2 : (b, c) ∈ g.edges) : a ∈ g.ancRaw c := by
  unfold G.ancRaw
  have hlen : g.edges.length ≠ 0 := by
    intro h0
    have := List.eq_nil_of_length_eq_zero h0
    rw [this] at h1; cases h1
  obtain ⟨n, hn⟩ := Nat.exists_eq_succ_of_ne_zero hlen
  rw [hn]
  show a ∈ G.iter g.stepBack n (g.stepBack (g.preds c))
  exact mem_iter_stepBack g n _ a (mem_stepBack_pred g _ a b ((mem_preds_iff g b c).2 h2) ((mem_preds_iff g a b).2 h1))

theorem producer_taskAnc (g : G) (u t n : Nat) (h1 : (tv u, nv n) ∈ g.edges) (h2 : (nv n, tv t) ∈ g.edges) (hne : u ≠ t) :
    u ∈ taskAnc g t := by
  unfold taskAnc G.anc
  simp only [List.mem_map, List.mem_filter]
  refine ⟨tv u, ⟨⟨two_step_ancRaw g _ _ _ h1 h2, ?_⟩, cr_isTaskV_tv u⟩, by unfold tv; omega⟩
  simpa using tv_ne_of_ne hne


/-! ### from `createDag` and the scheduler theorems of C01 to the hypotheses of the convergence lemmas -/

/-- Conditions on the declared project alone (all decidable): unique task ids, one node per product, no task consumes its own
product or writes its own module, a body that returns has written all products, no `persist` marks, one producer per product,
module files are not products. -/
structure WFSpec (P : Project) : Prop where
  find : ∀ t ∈ P.tasks, Project.find? P t.id = some t
  nodup : ∀ t ∈ P.tasks, t.prods.Nodup
  disj : ∀ t ∈ P.tasks, ∀ p ∈ t.prods, p ∉ t.deps ∧ p ≠ t.src
  honest : ∀ t ∈ P.tasks, ∀ k, t.beh ≠ .omits k
  noPersist : ∀ t ∈ P.tasks, t.persist = false
  uniq : ∀ t ∈ P.tasks, ∀ u ∈ P.tasks, ∀ p, p ∈ t.prods → p ∈ u.prods → t = u
  srcNotProd : ∀ t ∈ P.tasks, ∀ u ∈ P.tasks, t.src ∉ u.prods

theorem wf_of_createDag {P : Project} {cfg : Cfg} {g : G} {marks : List Nat} (hdag : createDag P cfg = .ok (g, marks))
    (hs : WFSpec P) : WF P g where
  find := hs.find
  deps := fun t ht => (createDag_covers P cfg g marks hdag t ht).1
  prods := fun t ht => (createDag_covers P cfg g marks hdag t ht).2
  nodup := hs.nodup
  disj := hs.disj
  honest := hs.honest
  noPersist := hs.noPersist

theorem wf2_of_spec {P : Project} (hs : WFSpec P) : WF2 P := ⟨hs.uniq, hs.srcNotProd⟩

theorem hbip_of_createDag {P : Project} {cfg : Cfg} {g : G} {marks : List Nat} (hdag : createDag P cfg = .ok (g, marks)) :
    ∀ t, ∀ v ∈ neighbours g t, isTaskV v = true → v = tv t :=
  bip_of_edges g (bip_createDag P cfg g marks hdag)

theorem spec_id_inj {P : Project} (hs : WFSpec P) {t u : TaskSpec} (ht : t ∈ P.tasks) (hu : u ∈ P.tasks) (h : t.id = u.id) :
    t = u := by
  have h1 := hs.find t ht
  have h2 := hs.find u hu
  rw [h] at h1
  rw [h1] at h2
  exact Option.some.inj h2

theorem nv_inj {a b : Nat} (h : nv a = nv b) : a = b := by unfold nv at h; omega
theorem tv_ne_nv (a b : Nat) : tv a ≠ nv b := by unfold tv nv; omega

theorem buildLoop_append_ok (F : BodyFn) (P : Project) (g : G) (cfg : Cfg) :
    ∀ (a b : List Nat) (so : Sorter) (s : Sess) (so1 : Sorter) (s1 : Sess) (r : Sorter × Sess),
      buildLoop F P g cfg so s a = .ok (so1, s1) → buildLoop F P g cfg so1 s1 b = .ok r →
      buildLoop F P g cfg so s (a ++ b) = .ok r
  | [], b, so, s, so1, s1, r, h1, h2 => by
    simp only [buildLoop, Except.ok.injEq, Prod.mk.injEq] at h1
    obtain ⟨rfl, rfl⟩ := h1
    exact h2
  | t :: ts, b, so, s, so1, s1, r, h1, h2 => by
    unfold buildLoop at h1
    simp only [List.cons_append]
    unfold buildLoop
    split at h1
    · cases h1
    rename_i hc1
    split at h1
    · cases h1
    rename_i hc2
    rw [if_neg hc1, if_neg hc2]
    split at h1
    · cases h1
    rename_i spec hfind
    exact buildLoop_append_ok F P g cfg ts b _ _ so1 s1 r h1 h2

/-- the graph of a build does not depend on the configuration (only the injected "deselected" marks do) -/
theorem createDag_cfg (P : Project) (cfg0 cfg : Cfg) (g : G) (marks : List Nat) (h : createDag P cfg0 = .ok (g, marks)) :
    ∃ marks', createDag P cfg = .ok (g, marks') := by
  rw [createDag_unfold] at h ⊢
  split at h
  · cases h
  rename_i h1
  split at h
  · cases h
  rename_i h2
  split at h
  · cases h
  rename_i h3
  simp only [Except.ok.injEq, Prod.mk.injEq] at h
  rw [if_neg h1, if_neg h2, if_neg h3]
  exact ⟨_, by rw [h.1]⟩

/-- the schedule of an accepted build loop respects the data flow (from `C01_order`) -/
theorem dataOrdered_of_loop (F : BodyFn) {P : Project} {cfg cfg0 : Cfg} {g : G} {marks : List Nat}
    (hdag : createDag P cfg0 = .ok (g, marks)) (hs : WFSpec P) (so so' : Sorter) (s s' : Sess) (picks : List Nat)
    (hso : Sorter.fromDag g isTaskV (prioFn P) = .ok so) (hb : buildLoop F P g cfg so s picks = .ok (so', s')) :
    DataOrdered P (fun _ => False) picks := by
  intro pre t post hp spec hf u hu hd
  obtain ⟨d, hd, hdu⟩ := hd
  have hspec := mem_of_find? hf
  have hid : spec.id = t := find?_id hf
  have hne : u.id ≠ t := by
    intro h
    have : u = spec := spec_id_inj hs hu hspec (by rw [h, hid])
    subst this
    exact (hs.disj u hu d hdu).1 hd
  have hg := createDag_graph P cfg0 g marks hdag
  have e1 : (tv u.id, nv d) ∈ g.edges := by rw [hg]; exact cr_modifyDag_mono P _ _ ((baseGraph_edges P u hu).2 d hdu)
  have e2 : (nv d, tv t) ∈ g.edges := by rw [hg, ← hid]; exact cr_modifyDag_mono P _ _ ((baseGraph_edges P spec hspec).1 d hd)
  obtain ⟨marks', hdag'⟩ := createDag_cfg P cfg0 cfg g marks hdag
  exact Or.inr (C01_order F P cfg g marks' so so' s s' picks hdag' hso hb pre t post hp u.id
    (producer_taskAnc g u.id t d e1 e2 hne))


/-- later picks of an accepted build loop do not write into the neighbourhood of earlier ones (from `C01_order`, `C01_once`,
unique producers) -/
theorem frameOrdered_of_loop (F : BodyFn) {P : Project} {cfg cfg0 : Cfg} {g : G} {marks : List Nat}
    (hdag : createDag P cfg0 = .ok (g, marks)) (hs : WFSpec P) (so so' : Sorter) (s s' : Sess) (picks : List Nat)
    (hso : Sorter.fromDag g isTaskV (prioFn P) = .ok so) (hb : buildLoop F P g cfg so s picks = .ok (so', s')) :
    FrameOrdered P g [] picks := by
  intro pre t post hp spec hf t' ht'
  rcases ht' with h | ht'
  · cases h
  obtain ⟨pre1, pre2, rfl⟩ := List.append_of_mem ht'
  obtain ⟨marks', hdag'⟩ := createDag_cfg P cfg0 cfg g marks hdag
  have hnd : picks.Nodup := (C01_once F P cfg g so so' s s' picks hso hb).1
  have hspec := mem_of_find? hf
  have hid : spec.id = t := find?_id hf
  have hg := createDag_graph P cfg0 g marks hdag
  rw [hp] at hnd
  have hdisj := (List.nodup_append.1 hnd).2.2
  have hne : t' ≠ t := hdisj t' (by simp) t (by simp)
  refine ⟨hne, ?_⟩
  intro p hpp
  have eprod : (tv t, nv p) ∈ g.edges := by
    rw [hg, ← hid]; exact cr_modifyDag_mono P _ _ ((baseGraph_edges P spec hspec).2 p hpp)
  refine ⟨?_, ?_⟩
  · intro hmem
    unfold neighbours at hmem
    simp only [List.mem_append, List.mem_singleton] at hmem
    rcases hmem with (h1 | h1) | h1
    · -- `p` would be read by `t'`: then `t` is an ancestor of `t'` and was picked before it
      have e2 : (nv p, tv t') ∈ g.edges := (mem_preds_iff g _ _).1 h1
      have hanc := producer_taskAnc g t t' p eprod e2 (Ne.symm hne)
      have hin := C01_order F P cfg g marks' so so' s s' picks hdag' hso hb pre1 t' (pre2 ++ t :: post)
        (by rw [hp]; simp) t hanc
      exact hdisj t (by simp [hin]) t (by simp) rfl
    · exact tv_ne_nv t' p h1.symm
    · -- `p` would also be a product of `t'`
      have e2 : (tv t', nv p) ∈ g.edges := (mem_succs_iff g _ _).1 h1
      rw [hg] at e2
      rcases modifyDag_inv P _ _ e2 with hb2 | hb2
      · obtain ⟨x, hx, hcase⟩ := baseGraph_inv P _ hb2
        rcases hcase with ⟨d, _, heq⟩ | ⟨q, hq, heq⟩
        · exact tv_ne_nv t' d (by simpa using congrArg Prod.fst heq)
        · have h1' : tv t' = tv x.id := by simpa using congrArg Prod.fst heq
          have h2' : nv p = nv q := by simpa using congrArg Prod.snd heq
          have hx' : x = spec := hs.uniq x hx spec hspec p (by rw [nv_inj h2']; exact hq) hpp
          apply hne
          rw [← hid, ← hx']
          exact tv_inj h1'
      · simp [cr_isTaskV_nv] at hb2
  · intro spec' hf' heq
    exact hs.srcNotProd spec' (mem_of_find? hf') spec hspec (heq ▸ hpp)


theorem c05_wfspec : WFSpec c05P where
  find := c05_wf.find
  nodup := c05_wf.nodup
  disj := c05_wf.disj
  honest := c05_wf.honest
  noPersist := c05_wf.noPersist
  uniq := c05_wf2.uniq
  srcNotProd := c05_wf2.srcNotProd


theorem f50_wfspec : WFSpec f50P where
  find := f50_wf.find
  nodup := f50_wf.nodup
  disj := f50_wf.disj
  honest := f50_wf.honest
  noPersist := f50_wf.noPersist
  uniq := by intro t ht u hu p _ _; simp [f50P] at ht hu; rw [ht, hu]
  srcNotProd := by intro t ht u hu; simp [f50P] at ht hu; subst ht; subst hu; decide


/-! ### tasks that completed before the kill are not executed again -/

/-- tasks outside `D` neither are in `D` nor write into the neighbourhood of a task in `D` -/
def Avoids (P : Project) (g : G) (D : List Nat) : Prop :=
  ∀ x spec, Project.find? P x = some spec → x ∉ D → ∀ t' ∈ D,
    ∀ p ∈ spec.prods, nv p ∉ neighbours g t' ∧ ∀ spec', Project.find? P t' = some spec' → spec'.src ≠ p

theorem protocol_rowsMatch_world (F : BodyFn) {P : Project} {g : G} (cfg : Cfg) (s : Sess) (spec : TaskSpec)
    (hp : spec.persist = false) (hforce : cfg.force = false) (hm : RowsMatch P g s.w spec.id) :
    (protocol F P g cfg s spec).w = s.w ∧ (protocol F P g cfg s spec).log = s.log := by
  obtain ⟨hs, hne⟩ := runPhases_rowsMatch F P g cfg s spec hforce hm
  have hnp := runPhases_ne_persisted F P g cfg s spec hp
  unfold protocol
  simp only []
  rw [hs]
  cases hr : (runPhases F P g cfg s spec).1 <;> simp only [processReport] <;>
    first | exact absurd hr hne | exact absurd hr hnp | simp

theorem noredo_loop (F : BodyFn) {P : Project} {g : G} (hbip : ∀ t, ∀ v ∈ neighbours g t, isTaskV v = true → v = tv t)
    (hnp : ∀ t ∈ P.tasks, t.persist = false) (cfg : Cfg) (hforce : cfg.force = false) (D : List Nat) (hav : Avoids P g D) :
    ∀ (picks : List Nat) (so : Sorter) (s : Sess) (so' : Sorter) (s' : Sess),
      (∀ t' ∈ D, RowsMatch P g s.w t') → buildLoop F P g cfg so s picks = .ok (so', s') →
      (∀ t' ∈ D, RowsMatch P g s'.w t') ∧ ∃ l, s'.log = s.log ++ l ∧ ∀ x ∈ l, x ∉ D
  | [], so, s, so', s', hD, h => by
    simp only [buildLoop, Except.ok.injEq, Prod.mk.injEq] at h
    obtain ⟨_, rfl⟩ := h
    exact ⟨hD, [], by simp, fun x hx => by cases hx⟩
  | t :: ts, so, s, so', s', hD, h => by
    unfold buildLoop at h
    split at h
    · cases h
    split at h
    · cases h
    split at h
    · cases h
    rename_i spec hfind
    have hspec := mem_of_find? hfind
    have hid : spec.id = t := find?_id hfind
    by_cases htD : t ∈ D
    · -- rows match: not executed, nothing changes
      obtain ⟨hw, hl⟩ := protocol_rowsMatch_world F cfg s spec (hnp spec hspec) hforce (by rw [hid]; exact hD t htD)
      obtain ⟨h1, l, h2, h3⟩ := noredo_loop F hbip hnp cfg hforce D hav ts _ _ so' s' (by rw [hw]; exact hD) h
      exact ⟨h1, l, by rw [h2, hl], h3⟩
    · -- a task outside `D`: whatever it does, it leaves the neighbourhoods of `D` alone
      have hD' : ∀ t' ∈ D, RowsMatch P g (protocol F P g cfg s spec).w t' := by
        intro t' ht'
        rw [← applySteps_protocol]
        exact rowsMatch_frame P g t' (hbip t') _ _
          (protocolSteps_avoid F P g cfg s spec t' (by rw [hid]; exact fun h => htD (h ▸ ht')) (hav t spec hfind htD t' ht'))
          (hD t' ht')
      obtain ⟨h1, l, h2, h3⟩ := noredo_loop F hbip hnp cfg hforce D hav ts _ _ so' s' hD' h
      rcases protocol_log F P g cfg s spec with hl | hl
      · exact ⟨h1, l, by rw [h2, hl], h3⟩
      · refine ⟨h1, t :: l, by rw [h2, hl, hid]; simp, ?_⟩
        intro x hx
        rcases List.mem_cons.1 hx with rfl | hx
        · exact htD
        · exact h3 x hx

/-- the tasks an accepted build loop has processed are closed under "produces something in my neighbourhood" -/
theorem avoids_of_loop (F : BodyFn) {P : Project} {cfg cfg0 : Cfg} {g : G} {marks : List Nat}
    (hdag : createDag P cfg0 = .ok (g, marks)) (hs : WFSpec P) (so so' : Sorter) (s s' : Sess) (done : List Nat)
    (hso : Sorter.fromDag g isTaskV (prioFn P) = .ok so) (hb : buildLoop F P g cfg so s done = .ok (so', s')) :
    Avoids P g done := by
  intro x spec hf hx t' ht' p hpp
  obtain ⟨pre1, pre2, rfl⟩ := List.append_of_mem ht'
  obtain ⟨marks', hdag'⟩ := createDag_cfg P cfg0 cfg g marks hdag
  have hspec := mem_of_find? hf
  have hid : spec.id = x := find?_id hf
  have hg := createDag_graph P cfg0 g marks hdag
  have hne : t' ≠ x := fun h => hx (h ▸ ht')
  have eprod : (tv x, nv p) ∈ g.edges := by
    rw [hg, ← hid]; exact cr_modifyDag_mono P _ _ ((baseGraph_edges P spec hspec).2 p hpp)
  refine ⟨?_, ?_⟩
  · intro hmem
    unfold neighbours at hmem
    simp only [List.mem_append, List.mem_singleton] at hmem
    rcases hmem with (h1 | h1) | h1
    · have e2 : (nv p, tv t') ∈ g.edges := (mem_preds_iff g _ _).1 h1
      have hanc := producer_taskAnc g x t' p eprod e2 (Ne.symm hne)
      have hin := C01_order F P cfg g marks' so so' s s' _ hdag' hso hb pre1 t' pre2 rfl x hanc
      exact hx (by simp [hin])
    · exact tv_ne_nv t' p h1.symm
    · have e2 : (tv t', nv p) ∈ g.edges := (mem_succs_iff g _ _).1 h1
      rw [hg] at e2
      rcases modifyDag_inv P _ _ e2 with hb2 | hb2
      · obtain ⟨y, hy, hcase⟩ := baseGraph_inv P _ hb2
        rcases hcase with ⟨d, _, heq⟩ | ⟨q, hq, heq⟩
        · exact tv_ne_nv t' d (by simpa using congrArg Prod.fst heq)
        · have h1' : tv t' = tv y.id := by simpa using congrArg Prod.fst heq
          have h2' : nv p = nv q := by simpa using congrArg Prod.snd heq
          have hy' : y = spec := hs.uniq y hy spec hspec p (by rw [nv_inj h2']; exact hq) hpp
          apply hne
          rw [← hid, ← hy']
          exact tv_inj h1'
      · simp [cr_isTaskV_nv] at hb2
  · intro spec' hf' heq
    exact hs.srcNotProd spec' (mem_of_find? hf') spec hspec (heq ▸ hpp)

end Engine
end Pytask
