import PytaskModel.Engine
import PytaskProofs.Lemmas.Sorter
import PytaskProofs.Lemmas.EngineOrder
/-!
# State lemmas for the build engine M6 (recorded rows, change detection, body effects)

Used by C02 (incremental = from scratch) and C03 (nothing re-executed without a change).
Core Lean only.
-/
namespace Pytask
namespace Engine
open Sorter

/-! ## association lists -/

theorem lookup_insert {κ} [BEq κ] [LawfulBEq κ] (m : List (κ × Nat)) (k k' : κ) (v : Nat) :
    lookup (insert m k v) k' = if (k' == k) = true then some v else lookup m k' := by
  unfold lookup insert
  by_cases h : k' = k
  · subst h; simp
  · have hne : (k == k') = false := by
      apply beq_false_of_ne; exact fun e => h e.symm
    have hne' : (k' == k) = false := beq_false_of_ne h
    simp only [List.find?_cons, hne, hne', Bool.false_eq_true, if_false]
    rw [List.find?_filter]
    have : (fun (a : κ × Nat) => decide ((!a.fst == k) = true ∧ (a.fst == k') = true)) = (fun e => e.1 == k') := by
      funext e
      by_cases he : e.1 = k'
      · subst he; simp [hne']
      · simp [beq_false_of_ne he]
    rw [this]

theorem lookup_insert_self {κ} [BEq κ] [LawfulBEq κ] (m : List (κ × Nat)) (k : κ) (v : Nat) :
    lookup (insert m k v) k = some v := by simp [lookup_insert]

theorem lookup_insert_ne {κ} [BEq κ] [LawfulBEq κ] (m : List (κ × Nat)) {k k' : κ} (v : Nat)
    (h : k' ≠ k) : lookup (insert m k v) k' = lookup m k' := by
  simp [lookup_insert, beq_false_of_ne h]

/-! ## vertices -/

theorem tv_inj' {a b : Nat} (h : tv a = tv b) : a = b := by unfold tv at h; omega
theorem nv_inj {a b : Nat} (h : nv a = nv b) : a = b := by unfold nv at h; omega
theorem tv_ne_nv (a b : Nat) : tv a ≠ nv b := by unfold tv nv; omega
@[simp] theorem isTaskV_tv (a : Nat) : isTaskV (tv a) = true := by unfold isTaskV tv; simp
@[simp] theorem isTaskV_nv (a : Nat) : isTaskV (nv a) = false := by unfold isTaskV nv; simp
@[simp] theorem tv_div (a : Nat) : tv a / 2 = a := by unfold tv; omega
@[simp] theorem nv_div (a : Nat) : nv a / 2 = a := by unfold nv; omega

theorem find?_mem {P : Project} {t : Nat} {spec : TaskSpec} (h : Project.find? P t = some spec) :
    spec ∈ P.tasks := List.mem_of_find?_eq_some h

/-- States only depend on the file system. -/
theorem stateOf_fs (P : Project) (w w' : World) (h : w'.fs = w.fs) (v : Nat) :
    stateOf P w' v = stateOf P w v := by
  unfold stateOf; rw [h]

@[simp] theorem stateOf_nv (P : Project) (w : World) (n : Nat) : stateOf P w (nv n) = lookup w.fs n := by
  simp [stateOf]

theorem stateOf_tv (P : Project) (w : World) {t : Nat} {spec : TaskSpec}
    (h : Project.find? P t = some spec) : stateOf P w (tv t) = lookup w.fs spec.src := by
  simp [stateOf, h]

/-! ## recorded rows and change detection -/

/-- The row `(task t, neighbour v)` of the state table. -/
def row (db : DB) (t v : Nat) : Option Nat := lookup db (tv t, v)

/-- **RowsMatch**: every neighbour of `t` in the build graph (dependencies, products of `after`
targets, the task's own module, its products) exists and the state table holds, for `t`, a row equal
to the neighbour's current state (= content id; sha256 collision freedom is the trusted `sha_inj`). -/
def RowsMatch (P : Project) (g : G) (w : World) (t : Nat) : Prop :=
  ∀ v ∈ neighbours g t, ∃ h, stateOf P w v = some h ∧ row w.db t v = some h

theorem hasChanged_false_iff (w : World) (t v : Nat) (st : Option Nat) :
    hasChanged w t v st = false ↔ ∃ h, st = some h ∧ row w.db t v = some h := by
  unfold hasChanged row
  cases st with
  | none => simp
  | some h =>
    cases hl : lookup w.db (tv t, v) with
    | none => simp
    | some r =>
      simp only [Option.some.injEq, exists_eq_left']
      constructor
      · intro h'; simpa using h'
      · intro h'; simp [h']

/-- The change loop answers "unchanged" exactly when it was not forced and every neighbour exists
with a matching row. -/
theorem scan_unchanged_iff (P : Project) (g : G) (w : World) (t : Nat) :
    ∀ (vs : List Nat) (needs : Bool),
      scan P g w t needs vs = .unchanged ↔
        needs = false ∧ ∀ v ∈ vs, ∃ h, stateOf P w v = some h ∧ row w.db t v = some h
  | [], needs => by cases needs <;> simp [scan]
  | v :: vs, needs => by
    unfold scan
    cases needs with
    | true =>
      simp only [Bool.true_and, Bool.true_eq_false, false_and, iff_false]
      split
      · simp
      · split
        · simp
        · simp only [if_true]
          exact fun h => by simpa using ((scan_unchanged_iff P g w t vs true).1 h).1
    | false =>
      simp only [Bool.false_and, Bool.false_eq_true, if_false, true_and, List.mem_cons, forall_eq_or_imp]
      split
      · rename_i hmiss
        simp only [Bool.and_eq_true, Option.isNone_iff_eq_none] at hmiss
        simp [hmiss.2]
      · rw [scan_unchanged_iff P g w t vs _, hasChanged_false_iff]

/-- If the change loop does not raise "missing", every predecessor / the task itself standing in a
prefix of the scanned list exists. -/
theorem scan_prefix_exists (P : Project) (g : G) (w : World) (t : Nat) :
    ∀ (l1 l2 : List Nat) (needs : Bool),
      (∀ v ∈ l1, ((g.preds (tv t)).contains v || v == tv t) = true) →
      scan P g w t needs (l1 ++ l2) ≠ .missing → ∀ v ∈ l1, (stateOf P w v).isSome = true
  | [], _, _, _, _ => by simp
  | v :: l1, l2, needs, hpre, hne => by
    have hv := hpre v (by simp)
    have hrest : ∀ v ∈ l1, ((g.preds (tv t)).contains v || v == tv t) = true :=
      fun x hx => hpre x (by simp [hx])
    simp only [List.cons_append] at hne
    unfold scan at hne
    simp only [hv, Bool.not_true, Bool.and_false, Bool.false_eq_true, if_false, Bool.true_and] at hne
    cases hst : stateOf P w v with
    | none => simp [hst] at hne
    | some h =>
      simp only [hst, Option.isNone_some, Bool.false_eq_true, if_false] at hne
      intro x hx
      rcases List.mem_cons.1 hx with rfl | hx
      · simp [hst]
      · split at hne
        · exact scan_prefix_exists P g w t l1 l2 _ hrest hne x hx
        · exact scan_prefix_exists P g w t l1 l2 _ hrest hne x hx

/-! ## `update_states_in_database` -/

theorem updateStates_spec (P : Project) (g : G) (t : Nat) :
    ∀ (vs : List Nat) (w w' : World) (ok : Bool), updateStates P g w t vs = (w', ok) →
      w'.fs = w.fs ∧
      (∀ k, (∀ v ∈ vs, k ≠ (tv t, v)) → lookup w'.db k = lookup w.db k) ∧
      (ok = true → ∀ v ∈ vs, ∃ h, stateOf P w v = some h ∧ row w'.db t v = some h)
  | [], w, w', ok, h => by
    simp only [updateStates, Prod.mk.injEq] at h
    obtain ⟨rfl, rfl⟩ := h
    simp
  | v :: vs, w, w', ok, h => by
    unfold updateStates at h
    cases hst : stateOf P w v with
    | none =>
      simp only [hst, Prod.mk.injEq] at h
      obtain ⟨rfl, rfl⟩ := h
      simp
    | some hh =>
      simp only [hst] at h
      obtain ⟨h1, h2, h3⟩ := updateStates_spec P g t vs _ w' ok h
      refine ⟨h1, ?_, ?_⟩
      · intro k hk
        rw [h2 k (fun x hx => hk x (by simp [hx]))]
        exact lookup_insert_ne _ _ (hk v (by simp))
      · intro hok x hx
        rcases List.mem_cons.1 hx with rfl | hx
        · by_cases hmem : x ∈ vs
          · obtain ⟨h', hs, hr⟩ := h3 hok x hmem
            exact ⟨h', hs, hr⟩
          · refine ⟨hh, hst, ?_⟩
            unfold row
            rw [h2 (tv t, x) (fun y hy heq => hmem (by cases heq; exact hy))]
            exact lookup_insert_self _ _ _
        · obtain ⟨h', hs, hr⟩ := h3 hok x hx
          exact ⟨h', hs, hr⟩

theorem updateStates_ok (P : Project) (g : G) (t : Nat) :
    ∀ (vs : List Nat) (w : World), (∀ v ∈ vs, (stateOf P w v).isSome = true) →
      (updateStates P g w t vs).2 = true
  | [], _, _ => by simp [updateStates]
  | v :: vs, w, h => by
    unfold updateStates
    have hv := h v (by simp)
    cases hst : stateOf P w v with
    | none => simp [hst] at hv
    | some hh =>
      simp only
      apply updateStates_ok P g t vs
      intro x hx
      exact h x (by simp [hx])

/-! ## effect of a task body -/

/-- The write loop of a body (all products except the `skipIdx`-th). -/
def writeAll (F : BodyFn) (t : TaskSpec) (src : Option Nat) (ds : List (Option Nat)) (skipIdx : Option Nat)
    (l : List (Nat × Nat)) (fs : FS) : FS :=
  l.foldl (fun fs (p, i) => if some i == skipIdx then fs else insert fs p (F t.id i src ds)) fs

theorem runBody_eq (F : BodyFn) (t : TaskSpec) (fs : FS) :
    runBody F t fs =
      (let src := lookup fs t.src
       let ds := t.deps.map (lookup fs)
       if ds.any (·.isNone) then (fs, true) else
       match t.beh with
       | .ok => (writeAll F t src ds none t.prods.zipIdx fs, false)
       | .raisesEarly => (fs, true)
       | .raisesLate => (writeAll F t src ds none t.prods.zipIdx fs, true)
       | .omits k => (writeAll F t src ds (some k) t.prods.zipIdx fs, false)
       | .loadFails => (fs, true)
       | .saveFails => (fs, true)) := rfl

theorem writeAll_frame (F : BodyFn) (t : TaskSpec) (src : Option Nat) (ds : List (Option Nat)) (sk : Option Nat) :
    ∀ (l : List (Nat × Nat)) (fs : FS) (q : Nat), (∀ e ∈ l, e.1 ≠ q) →
      lookup (writeAll F t src ds sk l fs) q = lookup fs q
  | [], _, _, _ => rfl
  | (p, i) :: l, fs, q, h => by
    unfold writeAll
    simp only [List.foldl_cons]
    have ih := writeAll_frame F t src ds sk l
    unfold writeAll at ih
    rw [ih _ q (fun e he => h e (by simp [he]))]
    split
    · rfl
    · exact lookup_insert_ne _ _ (fun hq => h (p, i) (by simp) hq.symm)

theorem writeAll_keeps (F : BodyFn) (t : TaskSpec) (src : Option Nat) (ds : List (Option Nat)) (sk : Option Nat) :
    ∀ (l : List (Nat × Nat)) (fs : FS) (q : Nat), (lookup fs q).isSome = true →
      (lookup (writeAll F t src ds sk l fs) q).isSome = true
  | [], _, _, h => h
  | (p, i) :: l, fs, q, h => by
    unfold writeAll
    simp only [List.foldl_cons]
    have ih := writeAll_keeps F t src ds sk l
    unfold writeAll at ih
    apply ih
    split
    · exact h
    · rw [lookup_insert]; split <;> simp [h]

theorem writeAll_val (F : BodyFn) (t : TaskSpec) (src : Option Nat) (ds : List (Option Nat)) :
    ∀ (l : List (Nat × Nat)) (fs : FS) (p i : Nat), (l.map (·.1)).Nodup → (p, i) ∈ l →
      lookup (writeAll F t src ds none l fs) p = some (F t.id i src ds)
  | [], _, _, _, _, h => by cases h
  | (p0, i0) :: l, fs, p, i, hnd, hmem => by
    simp only [List.map_cons, List.nodup_cons] at hnd
    rcases List.mem_cons.1 hmem with heq | hmem
    · have hp : p = p0 := (Prod.mk.inj heq).1
      have hi : i = i0 := (Prod.mk.inj heq).2
      subst hp hi
      have hfr := writeAll_frame F t src ds none l (insert fs p (F t.id i src ds)) p
        (fun e he heq => hnd.1 (heq ▸ List.mem_map_of_mem he))
      unfold writeAll at hfr ⊢
      simp only [List.foldl_cons]
      have : (some i == (none : Option Nat)) = false := rfl
      simp only [this, Bool.false_eq_true, if_false]
      rw [hfr]; exact lookup_insert_self _ _ _
    · have ih := writeAll_val F t src ds l (if some i0 == (none : Option Nat) then fs else insert fs p0 (F t.id i0 src ds)) p i hnd.2 hmem
      unfold writeAll at ih ⊢
      simp only [List.foldl_cons]
      exact ih

theorem mem_zipIdx_fst {α} {l : List α} {p : α} {i : Nat} (h : (p, i) ∈ l.zipIdx) : p ∈ l := by
  have := List.mem_zipIdx h
  simp only [Nat.zero_le, Nat.sub_zero, true_and] at this
  obtain ⟨_, hx⟩ := this
  rw [hx]; exact List.getElem_mem _

theorem zipIdx_map_fst {α} (l : List α) (n : Nat) : (l.zipIdx n).map (·.1) = l := by
  induction l generalizing n with
  | nil => rfl
  | cons a l ih => simp [List.zipIdx_cons, ih]

/-- The body writes nothing but the task's own products. -/
theorem runBody_frame (F : BodyFn) (t : TaskSpec) (fs : FS) (q : Nat) (hq : q ∉ t.prods) :
    lookup (runBody F t fs).1 q = lookup fs q := by
  have hfr : ∀ sk src ds, lookup (writeAll F t src ds sk t.prods.zipIdx fs) q = lookup fs q :=
    fun sk src ds => writeAll_frame F t src ds sk _ fs q
      (fun e he heq => hq (heq ▸ mem_zipIdx_fst (i := e.2) (by simpa using he)))
  rw [runBody_eq]
  simp only
  split
  · rfl
  · split <;> simp [hfr]

/-- The body never removes a file. -/
theorem runBody_keeps (F : BodyFn) (t : TaskSpec) (fs : FS) (q : Nat) (h : (lookup fs q).isSome = true) :
    (lookup (runBody F t fs).1 q).isSome = true := by
  have hk : ∀ sk src ds, (lookup (writeAll F t src ds sk t.prods.zipIdx fs) q).isSome = true :=
    fun sk src ds => writeAll_keeps F t src ds sk _ fs q h
  rw [runBody_eq]
  simp only
  split
  · exact h
  · split <;> simp [hk, h]

/-- A body that returns normally and is not of the "forgets a product" kind has written
`F t i (module content) (dependency contents)` into its `i`-th product, the arguments being read
before the first write. -/
theorem runBody_val (F : BodyFn) (t : TaskSpec) (fs : FS) (hnd : t.prods.Nodup)
    (hbeh : ∀ k, t.beh ≠ .omits k) (hret : (runBody F t fs).2 = false) (p i : Nat)
    (hmem : (p, i) ∈ t.prods.zipIdx) :
    lookup (runBody F t fs).1 p = some (F t.id i (lookup fs t.src) (t.deps.map (lookup fs))) ∧
    ∀ d ∈ t.deps, (lookup fs d).isSome = true := by
  rw [runBody_eq] at hret ⊢
  simp only at hret ⊢
  split
  · rename_i h; simp [h] at hret
  · rename_i hall
    refine ⟨?_, ?_⟩
    · cases hb : t.beh with
      | ok => simp only; exact writeAll_val F t _ _ _ fs p i (by rw [zipIdx_map_fst]; exact hnd) hmem
      | omits k => exact absurd hb (hbeh k)
      | raisesEarly => simp [hall, hb] at hret
      | raisesLate => simp [hall, hb] at hret
      | loadFails => simp [hall, hb] at hret
      | saveFails => simp [hall, hb] at hret
    · intro d hd
      simp only [List.any_map, List.any_eq_true, Function.comp_apply, not_exists, not_and] at hall
      have := hall d hd
      cases hl : lookup fs d with
      | none => simp [hl] at this
      | some _ => rfl

end Engine
end Pytask
