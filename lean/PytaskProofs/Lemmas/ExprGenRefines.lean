import PytaskProofs.Lemmas.Expr
import PytaskModel.ExprGen
/-!
# The interpreters of `ExprGen.lean`, run on the extracted data, equal the hand-written model `Expr.lean`

Helper lemmas for `Properties/ExprTie.lean`. The proofs unfold `Generated.exprRules`, `exprTop`, `exprLexBranches`,
`kwMatcher`, `markMatcher`, `selKeyword`, `selMark`, `selAfter`; a source change that alters one of these terms breaks them.
-/
namespace Pytask.SelExpr.Gen
open Pytask.Generated Pytask.Generated.Gram

/-- The two admissible ways of building the node: left-nested, or appended to a flat `BoolOp` *of the same operator*. -/
def GoodShape (shape : String) : Prop := shape = "nested" ∨ shape = "flatSameOp"

theorem mkBin_good {shape : String} (h : GoodShape shape) (op : String) (acc rhs : Ast) :
    mkBin shape op acc rhs = (binOf op).map (fun f => f acc rhs) := by
  rcases h with rfl | rfl <;> simp [mkBin]

/-- What the extracted rule table says, as equations (proved by evaluating the lookup). -/
structure RulesOK : Prop where
  expr : ∃ shape, GoodShape shape ∧ lookup exprRules "expr" = some (.loop "and_expr" "OR" "and_expr" "Or" shape)
  and : ∃ shape, GoodShape shape ∧ lookup exprRules "and_expr" = some (.loop "not_expr" "AND" "not_expr" "And" shape)
  not : lookup exprRules "not_expr" =
    some (.alts [.unary "NOT" "not_expr" "Not", .group "LPAREN" "expr" "RPAREN" true, .ident "IDENT"])

/-- The `shape` field of a loop rule. -/
def ruleShape (name : String) : String :=
  match lookup exprRules name with
  | some (.loop _ _ _ _ s) => s
  | _ => ""

theorem rulesOK : RulesOK :=
  ⟨⟨ruleShape "expr", by unfold GoodShape; decide, by decide⟩,
   ⟨ruleShape "and_expr", by unfold GoodShape; decide, by decide⟩, by decide⟩

theorem runRule_succ (rules bad f name ts) : runRule rules bad (f + 1) name ts =
    match lookup rules name with
    | none => .error .fuel
    | some (.loop first cont next op shape) =>
      match runRule rules bad f first ts with
      | .error e => .error e
      | .ok (ret, r) => runLoop rules bad f cont next op shape ret r
    | some (.alts alts) =>
      match ts with
      | [] => .error (.at 0)
      | t :: rest =>
        match alts.find? (fun a => altTok a == tokKind t) with
        | none => .error (.at ts.length)
        | some (.unary _ sub node) =>
          match advance bad rest with
          | .error e => .error e
          | .ok r =>
            match runRule rules bad f sub r with
            | .error e => .error e
            | .ok (e, r') =>
              match unOf node with
              | none => .error .fuel
              | some mk => .ok (mk e, r')
        | some (.group _ sub close closeRequired) =>
          match advance bad rest with
          | .error e => .error e
          | .ok r =>
            match runRule rules bad f sub r with
            | .error e => .error e
            | .ok (e, r') =>
              match r' with
              | t' :: rest' =>
                if tokKind t' == close then
                  match advance bad rest' with
                  | .error e => .error e
                  | .ok r'' => .ok (e, r'')
                else if closeRequired then .error (.at r'.length) else .ok (e, r')
              | [] => if closeRequired then .error (.at 0) else .ok (e, r')
        | some (.ident _) =>
          match t with
          | .ident s =>
            match advance bad rest with
            | .error e => .error e
            | .ok r => .ok (.ident s, r)
          | _ => .error (.at ts.length) := by
  rw [runRule]; rfl

theorem runLoop_succ (rules bad f cont next op shape acc ts) :
    runLoop rules bad (f + 1) cont next op shape acc ts =
    match ts with
    | [] => .ok (acc, ts)
    | t :: rest =>
      if tokKind t == cont then
        match advance bad rest with
        | .error e => .error e
        | .ok r =>
          match runRule rules bad f next r with
          | .error e => .error e
          | .ok (rhs, r') =>
            match mkBin shape op acc rhs with
            | none => .error .fuel
            | some acc' => runLoop rules bad f cont next op shape acc' r'
      else .ok (acc, ts) := by
  rfl

/-- The interpreter on the extracted rules computes the five hand-written parser functions, for every amount of fuel. -/
structure RunEq (bad : Bool) (f : Nat) : Prop where
  expr : ∀ ts, runRule exprRules bad f "expr" ts = pExpr bad f ts
  and : ∀ ts, runRule exprRules bad f "and_expr" ts = pAnd bad f ts
  not : ∀ ts, runRule exprRules bad f "not_expr" ts = pNot bad f ts
  exprLoop : ∀ shape, GoodShape shape → ∀ acc ts,
    runLoop exprRules bad f "OR" "and_expr" "Or" shape acc ts = pExprLoop bad f acc ts
  andLoop : ∀ shape, GoodShape shape → ∀ acc ts,
    runLoop exprRules bad f "AND" "not_expr" "And" shape acc ts = pAndLoop bad f acc ts

theorem runEq (bad : Bool) : ∀ f, RunEq bad f := by
  intro f
  induction f with
  | zero => constructor <;> intros <;> simp [runRule, runLoop, pExpr, pAnd, pNot, pExprLoop, pAndLoop]
  | succ f ih =>
    obtain ⟨⟨se, hse, he⟩, ⟨sa, hsa, ha⟩, hn⟩ := rulesOK
    constructor
    · intro ts
      rw [runRule_succ, he, pExpr_succ]
      simp only [ih.and]
      cases pAnd bad f ts with
      | error e => rfl
      | ok v => obtain ⟨ret, r⟩ := v; exact ih.exprLoop se hse ret r
    · intro ts
      rw [runRule_succ, ha, pAnd_succ]
      simp only [ih.not]
      cases pNot bad f ts with
      | error e => rfl
      | ok v => obtain ⟨ret, r⟩ := v; exact ih.andLoop sa hsa ret r
    · intro ts
      rw [runRule_succ, hn]
      rcases ts with _ | ⟨t, rest⟩
      · rw [pNot_other _ _ _ (by simp) (by simp) (by simp)]; rfl
      · cases t
        case not =>
          rw [pNot_not]
          simp only [tokKind, altTok, List.find?, ih.not, unOf, String.reduceBEq]
          rcases advance_cases bad rest with h | h <;> simp only [h]
          cases pNot bad f rest with
          | error e => rfl
          | ok v => rfl
        case lparen =>
          rw [pNot_lparen]
          simp only [tokKind, altTok, List.find?, ih.expr, String.reduceBEq]
          rcases advance_cases bad rest with h | h <;> simp only [h]
          cases pExpr bad f rest with
          | error e => rfl
          | ok v =>
            obtain ⟨e, r'⟩ := v
            rcases r' with _ | ⟨t', rest'⟩
            · rfl
            · cases t' <;> simp <;> rfl
        case ident s =>
          rw [pNot_ident]
          simp only [tokKind, altTok, List.find?, String.reduceBEq]
          rfl
        all_goals
          rw [pNot_other _ _ _ (by simp) (by simp) (by simp)]
          simp [tokKind, altTok, List.find?]
    · intro shape hs acc ts
      rw [runLoop_succ]
      rcases ts with _ | ⟨t, rest⟩
      · rw [pExprLoop_stop _ _ _ _ (by simp)]
      · by_cases ht : t = .or
        · subst ht
          rw [pExprLoop_or]
          simp only [tokKind, ih.and, mkBin_good hs, binOf, Option.map, beq_self_eq_true, ↓reduceIte]
          rcases advance_cases bad rest with h | h <;> simp only [h]
          cases pAnd bad f rest with
          | error e => rfl
          | ok v => obtain ⟨rhs, r'⟩ := v; exact ih.exprLoop shape hs _ r'
        · rw [pExprLoop_stop _ _ _ _ (by intro r h; simp at h; exact ht h.1)]
          cases t <;> simp [tokKind] at ht ⊢
    · intro shape hs acc ts
      rw [runLoop_succ]
      rcases ts with _ | ⟨t, rest⟩
      · rw [pAndLoop_stop _ _ _ _ (by simp)]
      · by_cases ht : t = .and
        · subst ht
          rw [pAndLoop_and]
          simp only [tokKind, ih.not, mkBin_good hs, binOf, Option.map, beq_self_eq_true, ↓reduceIte]
          rcases advance_cases bad rest with h | h <;> simp only [h]
          cases pNot bad f rest with
          | error e => rfl
          | ok v => obtain ⟨rhs, r'⟩ := v; exact ih.andLoop shape hs _ r'
        · rw [pAndLoop_stop _ _ _ _ (by intro r h; simp at h; exact ht h.1)]
          cases t <;> simp [tokKind] at ht ⊢

theorem parseGen_eq (bad : Bool) (ts : List Tok) : parseGen exprTop exprRules bad ts = parseToks bad ts := by
  have htop : exprTop = ⟨"EOF", false, "expr", true⟩ := by decide
  unfold parseGen
  rw [htop]
  simp only [bne_self_eq_false, Bool.false_eq_true, ↓reduceIte]
  rcases ts with _ | ⟨t, ts⟩
  · simp [parseToks]
  · rw [parseToks_cons, (runEq bad _).expr]
    cases pExpr bad (parseFuel (t :: ts).length) (t :: ts) with
    | error e => rfl
    | ok v =>
      obtain ⟨e, r⟩ := v
      rcases r with _ | ⟨t', r⟩ <;> rfl

/-! ## Lexer -/

theorem lexGenGo_eq (isWord : Char → Bool) : ∀ fuel pos cs,
    lexGenGo isWord exprLexBranches fuel pos cs = lexGo isWord fuel pos cs := by
  intro fuel
  induction fuel with
  | zero => intro pos cs; rfl
  | succ f ih =>
    intro pos cs
    rcases cs with _ | ⟨c, cs⟩
    · rfl
    · have hcls : inClass isWord Generated.identExtraChars Generated.identHasWordClass = isIdentChar isWord := by
        funext c; rfl
      have hbr : exprLexBranches = [.skip Generated.exprWsChars, .single Generated.exprLParen "LPAREN",
          .single Generated.exprRParen "RPAREN",
          .run Generated.identExtraChars Generated.identHasWordClass Generated.exprKeywords "IDENT"] := rfl
      have hcl : ∀ v, classifyGen Generated.exprKeywords v = classify v := fun v => rfl
      rw [lexGenGo, hbr]
      simp only [List.find?, branchTest, hcls]
      rcases char_cases isWord c with h | ⟨hb, rfl⟩ | ⟨hb, hl, rfl⟩ | ⟨hb, hl, hr, hc⟩ | ⟨hb, hl, hr, hc⟩
      · rw [lexGo_blank _ _ _ h]; unfold isBlank at h; simp only [h]; rw [← hbr, ih]
      · rw [lexGo_lparen]; unfold isBlank at hb; simp only [hb, beq_self_eq_true, singleTok]; rw [← hbr, ih]
      · rw [lexGo_rparen]; unfold isBlank at hb
        have : (Generated.exprRParen == Generated.exprLParen) = false := by simpa using hl
        simp only [hb, this, beq_self_eq_true, singleTok]; rw [← hbr, ih]
      · rw [lexGo_ident _ _ hb hl hr hc]; unfold isBlank at hb
        have h1 : (c == Generated.exprLParen) = false := by simpa using hl
        have h2 : (c == Generated.exprRParen) = false := by simpa using hr
        simp only [hb, h1, h2, hc, bne_self_eq_false, Bool.false_eq_true, ↓reduceIte, hcl, hcls, List.length_cons, Nat.add_assoc]
        rw [← hbr, ih]
      · rw [lexGo_bad _ _ hb hl hr hc]; unfold isBlank at hb
        have h1 : (c == Generated.exprLParen) = false := by simpa using hl
        have h2 : (c == Generated.exprRParen) = false := by simpa using hr
        simp only [hb, h1, h2, hc]

theorem lexGen_eq (isWord : Char → Bool) (cs : List Char) : lexGen isWord cs = lex isWord cs :=
  lexGenGo_eq isWord _ _ _

theorem compileGen_eq (isWord : Char → Bool) (cs : List Char) : compileGen isWord cs = compile isWord cs := by
  simp only [compileGen, compile, lexGen_eq, parseGen_eq]
  rfl

/-! ## Matchers and selections -/

theorem matchGen_kw (lower : List Char → List Char) (t : TaskInfo) (q : List Char) :
    matchGen kwMatcher lower t q = kwMatch lower (kwNames t) q := by
  have h : kwMatcher = ⟨["name", "function_dict", "markers"], false, true, true, "substring"⟩ := by decide
  rw [h]
  simp [matchGen, namesOf, kwMatch, kwNames, List.any_map, Function.comp_def]

theorem matchGen_mark (lower : List Char → List Char) (t : TaskInfo) (q : List Char) :
    matchGen markMatcher lower t q = markMatch t.markers q := by
  have h : markMatcher = ⟨["markers"], false, false, false, "member"⟩ := by decide
  rw [h]
  simp [matchGen, namesOf, markMatch]

theorem matchGen_kw' (lower : List Char → List Char) (t : TaskInfo) :
    matchGen kwMatcher lower t = kwMatch lower (kwNames t) := funext (matchGen_kw lower t)

theorem matchGen_mark' (lower : List Char → List Char) (t : TaskInfo) :
    matchGen markMatcher lower t = markMatch t.markers := funext (matchGen_mark lower t)

theorem selectGen_keyword (isWord : Char → Bool) (lower : List Char → List Char) (expr : List Char)
    (tasks : List TaskInfo) :
    selectGen selKeyword isWord lower expr tasks = selectByKeyword isWord lower expr tasks := by
  have h : selKeyword = ⟨true, true, "KeywordMatcher", true, true⟩ := by decide
  rw [h]
  unfold selectGen selectByKeyword
  simp only [compileGen_eq, Bool.true_and]
  cases hE : expr.isEmpty
  · simp only [Bool.false_eq_true, ↓reduceIte, Bool.not_true, Bool.not_false, Bool.or_true, Bool.true_and, matcherOf]
    cases compile isWord expr with
    | error e => rfl
    | ok a => simp only [matchGen_kw']
  · simp

theorem selectGen_mark (isWord : Char → Bool) (lower : List Char → List Char) (expr : List Char)
    (tasks : List TaskInfo) :
    selectGen selMark isWord lower expr tasks = selectByMark isWord expr tasks := by
  have h : selMark = ⟨true, true, "MarkMatcher", false, true⟩ := by decide
  rw [h]
  unfold selectGen selectByMark
  simp only [compileGen_eq, Bool.true_and]
  cases hE : expr.isEmpty
  · simp only [Bool.false_eq_true, ↓reduceIte, Bool.not_false, Bool.true_or, Bool.true_and, matcherOf]
    cases compile isWord expr with
    | error e => rfl
    | ok a => simp only [matchGen_mark']
  · simp

theorem selectGen_after (isWord : Char → Bool) (lower : List Char → List Char) (expr : List Char)
    (tasks : List TaskInfo) :
    selectGen selAfter isWord lower expr tasks = (selectByAfter isWord lower expr tasks).map some := by
  have h : selAfter = ⟨false, true, "KeywordMatcher", true, false⟩ := by decide
  rw [h]
  unfold selectGen selectByAfter
  simp only [compileGen_eq, Bool.false_and, Bool.false_eq_true, ↓reduceIte, matcherOf, Bool.not_true, Bool.false_or]
  cases compile isWord expr with
  | error e => rfl
  | ok a => simp only [matchGen_kw', Except.map]

theorem afterStepGen_eq (isWord : Char → Bool) (lower : List Char → List Char) (tasks : List TaskInfo) (i : Nat)
    (expr : List Char) : afterStepGen afterLoop isWord lower tasks i expr = afterPredsOf isWord lower tasks i expr := by
  have h : afterLoop = ⟨"select_by_after_keyword", true, true, true⟩ := by decide
  rw [h]
  unfold afterStepGen afterPredsOf
  simp only [bne_self_eq_false, Bool.not_true, Bool.or_self, Bool.false_eq_true, ↓reduceIte, selectGen_after]
  cases selectByAfter isWord lower expr tasks with
  | error e => rfl
  | ok sel => rfl

theorem selectProjectGen_eq (isWord : Char → Bool) (lower : List Char → List Char) (kexpr mexpr : List Char)
    (tasks : List TaskInfo) :
    selectProjectGen deselectSteps isWord lower kexpr mexpr tasks = selectProject isWord lower kexpr mexpr tasks := by
  have h : deselectSteps = [⟨"select_by_keyword", "isNotNone", "skip"⟩, ⟨"select_by_mark", "isNotNone", "skip"⟩] := by decide
  rw [h]
  unfold selectProjectGen selectProject
  simp only [evalSelections, selectFnGen, selectGen_keyword, selectGen_mark]
  cases selectByKeyword isWord lower kexpr tasks with
  | error e => rfl
  | ok rk =>
    cases selectByMark isWord mexpr tasks with
    | error e => rfl
    | ok rm =>
      simp only [List.all_cons, List.all_nil, Bool.and_true]
      congr 2
      funext i
      cases rk <;> cases rm <;> simp [keptByGen, keptBy]

end Pytask.SelExpr.Gen
