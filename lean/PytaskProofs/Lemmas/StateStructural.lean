import PytaskProofs.Lemmas.EngineScratch
/-!
# The state-table invariant across *project* edits (add / remove / rewire tasks)

The project is what the task modules say.  `declOf c id` is the declaration of task `id` that a module
file with content `c` contains (dependencies, products, `persist` mark).  `DeclChangeTouchesSrc declOf P fs`
says that the current project `P` is read off the current module contents in this sense; consequently a
task whose declaration changed has a changed module content (`declChange_touches_src`).
-/
namespace Pytask
namespace Engine
open Sorter

/-- The part of a task's declaration the state-table invariant depends on. -/
structure Decl where
  deps : List Nat
  prods : List Nat
  persist : Bool
deriving DecidableEq, Repr

def declOfTask (t : TaskSpec) : Decl := ⟨t.deps, t.prods, t.persist⟩

/-- **DeclChangeTouchesSrc.** The declaration of every task of `P` can be read off the content of its
module file: `declOf (content of t.src) t.id = (declOfTask t)`.  Holds by construction for the harness'
generated projects (the module text is rendered from the declarations, and `declOf` is "parse that
text"); fails when the declaration also depends on something else that is evaluated at import time —
the directory listing of finding F11b (`F11b_not_declChangeTouchesSrc`). -/
def DeclChangeTouchesSrc (declOf : Nat → Nat → Option Decl) (P : Project) (fs : FS) : Prop :=
  ∀ t ∈ P.tasks, ∀ c, lookup fs t.src = some c → declOf c t.id = some (declOfTask t)

/-- Two states of a project that both satisfy the hypothesis: a task (same id) whose module content is
the same has the same dependencies, products and `persist` mark — a declaration change touches the
module content. -/
theorem declChange_touches_src {declOf : Nat → Nat → Option Decl} {P P' : Project} {fs fs' : FS}
    (h : DeclChangeTouchesSrc declOf P fs) (h' : DeclChangeTouchesSrc declOf P' fs')
    {t t' : TaskSpec} (ht : t ∈ P.tasks) (ht' : t' ∈ P'.tasks) (hid : t.id = t'.id) {c : Nat}
    (hc : lookup fs t.src = some c) (hc' : lookup fs' t'.src = some c) :
    t.deps = t'.deps ∧ t.prods = t'.prods ∧ t.persist = t'.persist := by
  have h1 := h t ht c hc
  have h2 := h' t' ht' c hc'
  rw [hid, h2] at h1
  have := Option.some.inj h1
  simp only [declOfTask, Decl.mk.injEq] at this
  exact ⟨this.1.symm, this.2.1.symm, this.2.2.symm⟩

/-- **The invariant that survives project edits (state table only, no project in it).** If the recorded
module row of task `id` is `c`, and `c` declares `id` (not `persist`) with dependencies `d.deps` and
products `d.prods`, then every recorded product row is `F` of the recorded module and dependency
rows.  Rows of removed tasks, and rows left over from earlier declarations of a task, are harmless:
they are only ever read together with a module row, which identifies the declaration they belong to. -/
def DbCoherentS (F : BodyFn) (declOf : Nat → Nat → Option Decl) (db : DB) : Prop :=
  ∀ (id c : Nat) (d : Decl), row db id (tv id) = some c → declOf c id = some d → d.persist = false →
    ∀ p i, (p, i) ∈ d.prods.zipIdx → ∀ hp, row db id (nv p) = some hp →
      hp = F id i (some c) (d.deps.map (fun x => row db id (nv x)))

theorem coherentS_init (F : BodyFn) (declOf : Nat → Nat → Option Decl) : DbCoherentS F declOf [] := by
  intro id c d h; cases h

/-- With the hypothesis for the *current* project and files, the project-free invariant gives `Inv`. -/
theorem inv_of_coherentS {F : BodyFn} {declOf : Nat → Nat → Option Decl} {P : Project} {g : G} {w : World}
    (hwf : WF P) (hg : GraphOK P g) (hread : DeclChangeTouchesSrc declOf P w.fs)
    (hc : DbCoherentS F declOf w.db) : Inv F P g w := by
  intro t ht hnp hrows p i hpi
  have hp : p ∈ t.prods := mem_zipIdx_fst hpi
  obtain ⟨c, hs', hr'⟩ := hrows (tv t.id) (mem_neighbours.2 (Or.inr (Or.inl rfl)))
  rw [stateOf_tv P w (find?_of_mem hwf ht)] at hs'
  have hd := hread t ht c hs'
  obtain ⟨h, hs, hr⟩ := hrows (nv p) (mem_neighbours.2 (Or.inr (Or.inr (hg.prods t ht p hp))))
  rw [stateOf_nv] at hs
  rw [hs, hc t.id c (declOfTask t) hr' hd hnp p i hpi h hr, hs']
  have : (declOfTask t).deps.map (fun x => row w.db t.id (nv x)) = t.deps.map (lookup w.fs) := by
    show t.deps.map _ = _
    apply List.map_congr_left
    intro x hx
    obtain ⟨h'', hs'', hr''⟩ := hrows (nv x) (mem_neighbours.2 (Or.inl (hg.deps t ht x hx)))
    rw [stateOf_nv] at hs''
    rw [hr'', hs'']
  rw [this]

/-- A protocol does not touch module files, so the hypothesis stays true during a build. -/
theorem reads_protocol (F : BodyFn) {declOf : Nat → Nat → Option Decl} (P : Project) (g : G) (cfg : Cfg)
    (s : Sess) (t : TaskSpec) (hwf : WF P) (ht : t ∈ P.tasks)
    (h : DeclChangeTouchesSrc declOf P s.w.fs) :
    DeclChangeTouchesSrc declOf P (protocol F P g cfg s t).w.fs := by
  intro u hu c hc
  rw [protocol_fs_frame F P g cfg s t u.src (hwf.srcNotProd u hu t ht)] at hc
  exact h u hu c hc

/-- **Project-free inv_protocol.** One protocol of a task of the current project — any configuration,
any outcome — preserves `DbCoherentS`, provided the current project is read off the current module
contents. -/
theorem coherentS_protocol (F : BodyFn) (declOf : Nat → Nat → Option Decl) (P : Project) (g : G) (cfg : Cfg)
    (s : Sess) (t : TaskSpec) (hwf : WF P) (hbt : BodiesTotal P) (hg : GraphOK P g) (ht : t ∈ P.tasks)
    (hread : DeclChangeTouchesSrc declOf P s.w.fs)
    (hc : DbCoherentS F declOf s.w.db) : DbCoherentS F declOf (protocol F P g cfg s t).w.db := by
  intro id c d hsrc hdecl hnp p i hpi hp hrow
  by_cases hid : id = t.id
  · subst hid
    rcases protocol_db_cases F P g cfg s t with ⟨hdb, _, _⟩ | ⟨hchain, _, hw⟩ | ⟨hchain, _, _, hret, hprods, hw⟩
    · rw [hdb] at hsrc hrow ⊢
      exact hc t.id c d hsrc hdecl hnp p i hpi hp hrow
    · -- persisted
      cases hdry : cfg.dry with
      | true =>
        -- dry-run: nothing is recorded
        have hsame : (protocol F P g cfg s t).w = s.w := by
          rw [hw]; unfold recordStates; simp [hdry]
        rw [hsame] at hsrc hrow ⊢
        exact hc t.id c d hsrc hdecl hnp p i hpi hp hrow
      | false =>
        -- the module row written now declares the task `persist`: the invariant says nothing about it
        exfalso
        obtain ⟨hper, hall⟩ := setupChain_persisted P g cfg s t _ hchain
        have hall' : ∀ v ∈ neighbours g t.id, (stateOf P s.w v).isSome = true := by
          simpa [List.all_map] using hall
        rw [hw] at hsrc
        unfold recordStates at hsrc
        simp only [hdry, Bool.false_eq_true, if_false] at hsrc
        have hok := updateStates_ok P g t.id (neighbours g t.id) s.w hall'
        obtain ⟨_, _, h3⟩ := updateStates_spec P g t.id (neighbours g t.id) s.w _ _ rfl
        obtain ⟨c', hs', hr'⟩ := h3 hok (tv t.id) (mem_neighbours.2 (Or.inr (Or.inl rfl)))
        rw [hr'] at hsrc
        cases hsrc
        rw [stateOf_tv P s.w (find?_of_mem hwf ht)] at hs'
        have hd := hread t ht c hs'
        rw [hd] at hdecl
        cases hdecl
        simp only [declOfTask] at hnp
        rw [hper] at hnp; cases hnp
    · -- success: all rows of `t` stem from the world right after the body
      obtain ⟨_, hfs, hrows⟩ := success_rows F P g cfg s t hg ht hchain hprods
      rw [hw] at hsrc hrow ⊢
      -- the module row is the current module content, which declares exactly `(declOfTask t)`
      obtain ⟨c', hs', hr'⟩ := hrows (tv t.id) (mem_neighbours.2 (Or.inr (Or.inl rfl)))
      rw [hr'] at hsrc
      cases hsrc
      rw [stateOf_tv P _ (find?_of_mem hwf ht)] at hs'
      simp only at hs'
      rw [runBody_frame F t _ _ (hwf.srcNotProd t ht t ht)] at hs'
      have hd := hread t ht c hs'
      rw [hd] at hdecl
      cases hdecl
      simp only [declOfTask] at hpi hnp ⊢
      -- the product row
      have hpm : p ∈ t.prods := mem_zipIdx_fst hpi
      obtain ⟨h, hs, hr⟩ := hrows (nv p) (mem_neighbours.2 (Or.inr (Or.inr (hg.prods t ht p hpm))))
      rw [hr] at hrow
      cases hrow
      rw [stateOf_nv] at hs
      simp only at hs
      obtain ⟨hval, _⟩ := runBody_val F t s.w.fs (hwf.prodsNodup t ht) (hbt t ht) hret p i hpi
      rw [hval] at hs
      cases hs
      rw [hs']
      -- the dependency rows
      have : t.deps.map (fun x => row (updateStates P g { s.w with fs := (runBody F t s.w.fs).1 } t.id (neighbours g t.id)).1.db t.id (nv x))
          = t.deps.map (lookup s.w.fs) := by
        apply List.map_congr_left
        intro x hx
        obtain ⟨h'', hs'', hr''⟩ := hrows (nv x) (mem_neighbours.2 (Or.inl (hg.deps t ht x hx)))
        rw [stateOf_nv] at hs''
        simp only at hs''
        rw [runBody_frame F t _ _ (hg.noSelf t ht x hx)] at hs''
        rw [hr'', hs'']
      rw [this]
  · -- rows of another task id are not written by this protocol
    have hfr : ∀ v, row (protocol F P g cfg s t).w.db id v = row s.w.db id v := by
      intro v
      unfold row
      exact protocol_db_frame F P g cfg s t (tv id, v) (fun h => hid (tv_inj' h))
    rw [hfr] at hsrc hrow
    have := hc id c d hsrc hdecl hnp p i hpi hp hrow
    rw [this]
    congr 1
    apply List.map_congr_left
    intro x _
    rw [hfr]

theorem coherentS_buildLoop (F : BodyFn) (declOf : Nat → Nat → Option Decl) (P : Project) (g : G) (cfg : Cfg)
    (hwf : WF P) (hbt : BodiesTotal P) (hg : GraphOK P g) :
    ∀ (picks : List Nat) (so so' : Sorter) (s s' : Sess),
      buildLoop F P g cfg so s picks = .ok (so', s') → DeclChangeTouchesSrc declOf P s.w.fs →
      DbCoherentS F declOf s.w.db → DbCoherentS F declOf s'.w.db
  | [], so, so', s, s', h, _, hc => by
    simp only [buildLoop, Except.ok.injEq, Prod.mk.injEq] at h
    rw [← h.2]; exact hc
  | t :: ts, so, so', s, s', h, hr, hc => by
    obtain ⟨spec, hfind, _, _, _, hrest⟩ := buildLoop_cons h
    have hspec := find?_mem hfind
    exact coherentS_buildLoop F declOf P g cfg hwf hbt hg ts _ so' _ s' hrest
      (reads_protocol F P g cfg s spec hwf hspec hr)
      (coherentS_protocol F declOf P g cfg s spec hwf hbt hg hspec hr hc)

/-- A build of the current project — any options, any schedule, any outcome, rejected DAG included —
preserves the project-free invariant. -/
theorem coherentS_build (F : BodyFn) (declOf : Nat → Nat → Option Decl) (P : Project) (cfg : Cfg) (w : World)
    (picks : List Nat) (r : Result) (hwf : WF P) (hbt : BodiesTotal P)
    (hread : DeclChangeTouchesSrc declOf P w.fs) (h : build F P cfg w picks = .ok r)
    (hc : DbCoherentS F declOf w.db) : DbCoherentS F declOf r.w.db := by
  rcases build_cases h with ⟨hw, _, _, _⟩ | ⟨g, marks, so, so', s, hdag, _, hloop, hw, _, _, _, _⟩
  · rw [hw]; exact hc
  · rw [hw]
    exact coherentS_buildLoop F declOf P g cfg hwf hbt (graphOK_of_createDag hwf hdag) picks so so' _ s hloop hread hc

/-- Module files are not written by a build: the hypothesis still holds for the world it leaves. -/
theorem reads_build (F : BodyFn) {declOf : Nat → Nat → Option Decl} (P : Project) (cfg : Cfg) (w : World)
    (picks : List Nat) (r : Result) (hwf : WF P) (hread : DeclChangeTouchesSrc declOf P w.fs)
    (h : build F P cfg w picks = .ok r) : DeclChangeTouchesSrc declOf P r.w.fs := by
  intro u hu c hc
  have hq : ∀ t ∈ P.tasks, u.src ∉ t.prods := fun t ht => hwf.srcNotProd u hu t ht
  rcases build_cases h with ⟨hw, _, _, _⟩ | ⟨g, marks, so, so', s, _, _, hloop, hw, _, _, _, _⟩
  · rw [hw] at hc; exact hread u hu c hc
  · rw [hw, buildLoop_fs_frame picks hloop u.src hq] at hc
    exact hread u hu c hc

/-! ## project edits and histories over changing projects -/

/-- A project edit: a task is added, removed, or its declaration is replaced (dependencies, products,
`after`, marks, priority, behaviour, module — the whole `TaskSpec`; the id stays). -/
inductive PEdit
  | add (t : TaskSpec)
  | remove (id : Nat)
  | change (id : Nat) (t' : TaskSpec)

def PEdit.apply : PEdit → Project → Project
  | .add t, P => ⟨P.tasks ++ [t]⟩
  | .remove id, P => ⟨P.tasks.filter (fun t => t.id != id)⟩
  | .change id t', P => ⟨P.tasks.map (fun t => if t.id == id then { t' with id := id } else t)⟩

/-- Histories over a *changing* project: file edits (any change of file contents: inputs, module
files, products), project edits (`PEdit`, any number between two builds), loss of the state table,
and builds — any options, any schedule the loop accepts, any outcome (failures, rejected DAG).  A
build happens only on a project that collects (`WF`), with total bodies, and whose declarations are
what its module files say at that moment (`DeclChangeTouchesSrc`): between builds the files and the
project may be out of step in any way. -/
inductive HistoryP (F : BodyFn) (declOf : Nat → Nat → Option Decl) : Project → World → Prop
  | init (P : Project) (fs : FS) : HistoryP F declOf P ⟨fs, []⟩
  | fileEdit {P : Project} {w : World} (fs' : FS) : HistoryP F declOf P w → HistoryP F declOf P { w with fs := fs' }
  | projEdit {P : Project} {w : World} (e : PEdit) : HistoryP F declOf P w → HistoryP F declOf (e.apply P) w
  | dbLost {P : Project} {w : World} : HistoryP F declOf P w → HistoryP F declOf P { w with db := [] }
  | build {P : Project} {w : World} (cfg : Cfg) (picks : List Nat) (r : Result) :
      HistoryP F declOf P w → WF P → BodiesTotal P → DeclChangeTouchesSrc declOf P w.fs →
      Engine.build F P cfg w picks = .ok r → HistoryP F declOf P r.w

theorem historyP_coherent {F : BodyFn} {declOf : Nat → Nat → Option Decl} {P : Project} {w : World}
    (h : HistoryP F declOf P w) : DbCoherentS F declOf w.db := by
  induction h with
  | init P fs => exact coherentS_init F declOf
  | fileEdit fs' _ ih => exact ih
  | projEdit e _ ih => exact ih
  | dbLost _ _ => exact coherentS_init F declOf
  | build cfg picks r _ hwf hbt hread hb ih => exact coherentS_build F declOf _ cfg _ picks r hwf hbt hread hb ih

/-- rows of a task are not written by the protocols of other tasks (loop version) -/
theorem buildLoop_db_frame {F : BodyFn} {P : Project} {g : G} {cfg : Cfg} (u : Nat) :
    ∀ (picks : List Nat) {so so' : Sorter} {s s' : Sess}, buildLoop F P g cfg so s picks = .ok (so', s') →
      u ∉ picks → ∀ v, row s'.w.db u v = row s.w.db u v
  | [], so, so', s, s', h, _, v => by
    simp only [buildLoop, Except.ok.injEq, Prod.mk.injEq] at h
    rw [← h.2]
  | t :: ts, so, so', s, s', h, hu, v => by
    obtain ⟨spec, hfind, _, _, _, hrest⟩ := buildLoop_cons h
    rw [buildLoop_db_frame u ts hrest (fun h' => hu (by simp [h'])) v]
    unfold row
    apply protocol_db_frame F P g cfg s spec (tv u, v)
    intro heq
    apply hu
    rw [tv_inj' heq, find?_id hfind]; simp

end Engine
end Pytask
