import PytaskProofs.Lemmas.CrashExit
/-! The C05 theorems for the fine-grained (one commit per row) step lists `…Each`; `Lemmas/CrashTxn.lean` transfers them to the
transactional step lists of the current code (every kill-point world of the latter is one of the former). -/
namespace Pytask
open Engine

theorem rc_init' (F : BodyFn) (P : Project) (g : G) : RC F P g [] := by
  intro t _ hall
  have := hall (tv t.id) (tv_mem_neighbours g t.id)
  simp [lookup] at this

theorem rows_safe_each (F : BodyFn) (P : Project) (cfg : Cfg) (w : World) (g : G) (marks : List Nat)
    (hdag : createDag P cfg = .ok (g, marks)) (hs : WFSpec P) (hrc : RC F P g w.db) (picks : List Nat) (k : Nat) :
    Inv F P g (crashAtEach F P cfg w picks k) := by
  have hwf := wf_of_createDag hdag hs
  unfold crashAtEach buildStepsEach
  simp only [hdag]
  cases hso : Sorter.fromDag g isTaskV (prioFn P) with
  | error e => simpa using inv_of_rc hwf w hrc
  | ok so => exact inv_loop_prefix hwf cfg picks so { w := w, skipMarks := marks } hrc k

theorem no_redo_each (F : BodyFn) (P : Project) (cfg cfg' : Cfg) (g : G) (marks marks' : List Nat)
    (hs : WFSpec P) (hdag : createDag P cfg = .ok (g, marks))
    (so0 : Sorter) (hso : Sorter.fromDag g isTaskV (prioFn P) = .ok so0)
    (w0 : World) (done : List Nat) (tstar : Nat) (specS : TaskSpec) (so1 soS : Sorter) (s1 sS : Sess)
    (hloop1 : buildLoop F P g cfg so0 { w := w0, skipMarks := marks } done = .ok (so1, s1))
    (hgood1 : ∀ rep ∈ s1.reports, GoodOutcome rep.2) (hcr1 : s1.crashed = false)
    (hpickS : buildLoop F P g cfg so1 s1 [tstar] = .ok (soS, sS)) (hfindS : Project.find? P tstar = some specS) (j : Nat)
    (picks2 : List Nat) (so3 : Sorter) (s3 : Sess)
    (hloop2 : buildLoop F P g cfg' so0
      { w := applySteps s1.w ((protocolStepsEach F P g cfg s1 specS).take j), skipMarks := marks' } picks2 = .ok (so3, s3))
    (hforce : cfg'.force = false) : ∀ t ∈ done, t ∉ s3.log := by
  have hwf := wf_of_createDag hdag hs
  have hbip := hbip_of_createDag hdag
  have hD1 : ∀ t' ∈ done, RowsMatch P g s1.w t' := by
    have := rowsMatch_loop hwf hbip cfg done so0 _ so1 s1 [] (fun _ h => by cases h) hloop1 hgood1 hcr1
      (frameOrdered_of_loop F hdag hs so0 so1 _ s1 done hso hloop1)
    simpa using this
  have hav := avoids_of_loop F hdag hs so0 so1 _ s1 done hso hloop1
  have hnot : tstar ∉ done := by
    have hnd := (C01_once F P cfg g so0 soS _ sS (done ++ [tstar]) hso
      (buildLoop_append_ok F P g cfg done [tstar] so0 _ so1 s1 (soS, sS) hloop1 hpickS)).1
    exact fun h => (List.nodup_append.1 hnd).2.2 tstar h tstar (by simp) rfl
  have hidS : specS.id = tstar := find?_id hfindS
  have hDw : ∀ t' ∈ done,
      RowsMatch P g (applySteps s1.w ((protocolStepsEach F P g cfg s1 specS).take j)) t' := by
    intro t' ht'
    apply rowsMatch_frame P g t' (hbip t') _ _ _ (hD1 t' ht')
    intro x hx
    exact protocolSteps_avoid F P g cfg s1 specS t' (by rw [hidS]; exact fun h => hnot (h ▸ ht'))
      (hav tstar specS hfindS hnot t' ht') x (List.mem_of_mem_take hx)
  obtain ⟨_, l, hl, hl'⟩ := noredo_loop F hbip hs.noPersist cfg' hforce done hav picks2 so0 _ so3 s3 hDw hloop2
  intro t ht hin
  rw [hl] at hin
  exact hl' t (by simpa using hin) ht

theorem converge_partial_each (F : BodyFn) (P : Project) (cfg cfg' : Cfg) (g : G) (marks marks' : List Nat)
    (hs : WFSpec P) (hdag : createDag P cfg = .ok (g, marks)) (hdag' : createDag P cfg' = .ok (g, marks'))
    (so0 : Sorter) (hso : Sorter.fromDag g isTaskV (prioFn P) = .ok so0)
    -- the killed build
    (w0 : World) (hrc : RC F P g w0.db) (done : List Nat) (tstar : Nat) (specS : TaskSpec) (so1 soS : Sorter) (s1 sS : Sess)
    (hloop1 : buildLoop F P g cfg so0 { w := w0, skipMarks := marks } done = .ok (so1, s1))
    (hgood1 : ∀ rep ∈ s1.reports, GoodOutcome rep.2)
    (hpickS : buildLoop F P g cfg so1 s1 [tstar] = .ok (soS, sS)) (hfindS : Project.find? P tstar = some specS) (j : Nat)
    -- the recovery build, in a new process
    (picks2 : List Nat) (so3 : Sorter) (s3 : Sess)
    (hloop2 : buildLoop F P g cfg' so0
      { w := applySteps s1.w ((protocolStepsEach F P g cfg s1 specS).take j), skipMarks := marks' } picks2 = .ok (so3, s3))
    (hgood2 : ∀ rep ∈ s3.reports, GoodOutcome rep.2) (hcr : s3.crashed = false) (hall : ∀ t ∈ P.tasks, t.id ∈ picks2) :
    (∀ t ∈ P.tasks, Fresh F s3.w t) ∧ (∀ t ∈ P.tasks, RowsMatch P g s3.w t.id) ∧
    (∀ (cfg'' : Cfg) (so4 so5 : Sorter) (s4 s5 : Sess) (picks : List Nat), cfg''.force = false → s4.w = s3.w →
        buildLoop F P g cfg'' so4 s4 picks = .ok (so5, s5) → s5.log = s4.log ∧ s5.w = s4.w) :=
  converge_abstract F P g cfg cfg' (wf_of_createDag hdag hs) (wf2_of_spec hs) (hbip_of_createDag hdag)
    so0 so1 _ s1 hrc done tstar specS hloop1 hgood1 hfindS
    (dataOrdered_of_loop F hdag hs so0 soS _ sS (done ++ [tstar]) hso
      (buildLoop_append_ok F P g cfg done [tstar] so0 _ so1 s1 (soS, sS) hloop1 hpickS))
    j _ rfl so0 so3 _ s3 rfl picks2 hloop2 hgood2 hcr hall
    (dataOrdered_of_loop F hdag' hs so0 so3 _ s3 picks2 hso hloop2)
    (frameOrdered_of_loop F hdag' hs so0 so3 _ s3 picks2 hso hloop2)

theorem converge_each (F : BodyFn) (P : Project) (cfg cfg' : Cfg) (g : G) (marks : List Nat)
    (hs : WFSpec P) (hns : NoSkips P) (hdag : createDag P cfg = .ok (g, marks))
    (so0 : Sorter) (hso : Sorter.fromDag g isTaskV (prioFn P) = .ok so0)
    -- the killed build
    (w0 : World) (hrc : RC F P g w0.db) (done : List Nat) (tstar : Nat) (specS : TaskSpec) (so1 soS : Sorter) (s1 sS : Sess)
    (hloop1 : buildLoop F P g cfg so0 { w := w0, skipMarks := marks } done = .ok (so1, s1))
    (hgood1 : ∀ rep ∈ s1.reports, GoodOutcome rep.2)
    (hpickS : buildLoop F P g cfg so1 s1 [tstar] = .ok (soS, sS)) (hfindS : Project.find? P tstar = some specS) (j : Nat)
    -- the recovery build
    (hk : cfg'.selK = none) (hm : cfg'.selM = none) (hdry : cfg'.dry = false) (picks2 : List Nat) (r : Result)
    (hb : build F P cfg' (applySteps s1.w ((protocolStepsEach F P g cfg s1 specS).take j)) picks2 = .ok r)
    (hexit : r.exit = 0) (hcomplete : r.complete = true) :
    (∀ t ∈ P.tasks, Fresh F r.w t) ∧ (∀ t ∈ P.tasks, RowsMatch P g r.w t.id) ∧
    (∀ (cfg'' : Cfg) (picks : List Nat) (r' : Result), cfg''.force = false → build F P cfg'' r.w picks = .ok r' →
        r'.log = [] ∧ r'.w = r.w) := by
  obtain ⟨marks', hdag'⟩ := createDag_cfg P cfg cfg' g marks hdag
  have hmarks : marks' = [] := by rw [createDag_marks P cfg' g marks' hdag', deselected_none P g cfg' hk hm]
  subst hmarks
  obtain ⟨so3, s3, hloop2, hw, _, hex, hco⟩ := build_ok_loop F P cfg' _ picks2 r g [] so0 hdag' hso hb
  rw [hex] at hexit
  obtain ⟨hcr, hnf⟩ := exit_zero hexit
  have hnofail : ∀ rep ∈ s3.reports, rep.2 ≠ .fail := by
    intro rep hrep hf
    have : s3.reports.any (fun r => r.2 == .fail) = true := List.any_eq_true.2 ⟨rep, hrep, by simp [hf]⟩
    rw [this] at hnf; cases hnf
  obtain ⟨hgood2, hstop⟩ := clean_loop F P g cfg' hdry hns hs.noPersist picks2 so0 _ so3 s3 ⟨rfl, rfl, rfl, rfl⟩
    (fun _ h => by cases h) hloop2 hnofail hcr
  have hinactive : so3.isActive = false := by
    rw [hco, hstop, hcr] at hcomplete
    simpa using hcomplete
  have hall := all_picked F hdag' so0 so3 _ s3 picks2 hso hloop2 hinactive
  obtain ⟨h1, h2, h3⟩ := converge_partial_each F P cfg cfg' g marks [] hs hdag hdag' so0 hso w0 hrc done tstar specS so1 soS s1 sS
    hloop1 hgood1 hpickS hfindS j picks2 so3 s3 hloop2 hgood2 hcr hall
  rw [hw]
  refine ⟨h1, h2, ?_⟩
  intro cfg'' picks r' hforce hb'
  obtain ⟨marks'', hdag''⟩ := createDag_cfg P cfg cfg'' g marks hdag
  obtain ⟨so5, s5, hloop3, hw', hl', _, _⟩ := build_ok_loop F P cfg'' _ picks r' g marks'' so0 hdag'' hso hb'
  have := h3 cfg'' so0 so5 { w := s3.w, skipMarks := marks'' } s5 picks hforce rfl hloop3
  rw [hw', hl']
  exact ⟨this.1, this.2⟩

end Pytask
