import PytaskModel.CleanGen
import PytaskProofs.Lemmas.Clean
/-! Soundness of the checks of `CleanGen.lean`: a structure that passes its check makes the interpreter equal to the
hand-written model M8, for all inputs. -/
namespace Pytask.CleanGen
open Pytask.Clean Pytask.Generated Pytask.Generated.Cln

theorem allB_true {f : Bool → Bool} : allB f = true ↔ ∀ b, f b = true := by
  unfold allB
  constructor
  · intro h b
    simp only [Bool.and_eq_true] at h
    cases b
    · exact h.2
    · exact h.1
  · intro h; simp [h true, h false]

theorem flatMap_congr' {α β} {f g : α → List β} {l : List α} (h : ∀ a ∈ l, f a = g a) : l.flatMap f = l.flatMap g := by
  induction l with
  | nil => rfl
  | cons a l ih =>
    simp only [List.flatMap_cons]
    rw [h a List.mem_cons_self, ih fun x hx => h x (List.mem_cons_of_mem _ hx)]

/-! ### `from_path` -/

theorem sIsUnknown_spec {e : SExp} (h : sIsUnknown e = true) (n : Node) : evalS n e = n.isUnknown := by
  unfold sIsUnknown at h
  have := allB_true.1 (allB_true.1 (allB_true.1 (allB_true.1 h n.isUnknown) n.isFile) n.isDir) (!n.subNodes.isEmpty)
  simpa [evalS] using this

theorem sIsNotUnknown_spec {e : SExp} (h : sIsNotUnknown e = true) (n : Node) : evalS n e = !n.isUnknown := by
  unfold sIsNotUnknown at h
  have := allB_true.1 (allB_true.1 (allB_true.1 (allB_true.1 h n.isUnknown) n.isFile) n.isDir) (!n.subNodes.isEmpty)
  simpa [evalS] using this

theorem evalN_eq_evalQ (c : NCtx) (subs : List Node) (e : NExp) (h : okQ e = true) :
    evalN c subs e = evalQ c (subs.all Node.isUnknown) e := by
  induction e with
  | allSub e =>
    simp only [evalN, evalQ]
    congr 1
    funext n
    exact sIsUnknown_spec h n
  | anySub e =>
    simp only [evalN, evalQ, List.not_all_eq_any_not]
    congr 1
    funext n
    exact sIsNotUnknown_spec h n
  | not a ih => simp only [okQ] at h; simp [evalN, evalQ, ih h]
  | and a b iha ihb => simp only [okQ, Bool.and_eq_true] at h; simp [evalN, evalQ, iha h.1, ihb h.2]
  | or a b iha ihb => simp only [okQ, Bool.and_eq_true] at h; simp [evalN, evalQ, iha h.1, ihb h.2]
  | ite g a b ihg iha ihb =>
    simp only [okQ, Bool.and_eq_true] at h
    simp [evalN, evalQ, ihg h.1.1, iha h.1.2, ihb h.2]
  | _ => rfl

/-- What `checkFromPath` establishes, for real sub-node lists. -/
theorem checkFromPath_facts {spec : FromPath} (h : checkFromPath spec = true) (k : Bool × Bool) (hk : k ∈ kinds)
    (kn ex : Bool) (subs : List Node) :
    evalN ⟨k.1, k.2, kn, ex⟩ subs spec.spawn = (k.2 && !ex) ∧
    evalN ⟨k.1, k.2, kn, ex⟩ subs spec.isDirField = k.2 ∧
    evalN ⟨k.1, k.2, kn, ex⟩ subs spec.isFileField = k.1 ∧
    evalN ⟨k.1, k.2, kn, ex⟩ subs spec.unknown = ((k.1 && !(kn || ex)) || (k.2 && subs.all Node.isUnknown && !ex)) := by
  unfold checkFromPath at h
  simp only [Bool.and_eq_true, List.all_eq_true] at h
  obtain ⟨⟨⟨⟨q1, q2⟩, q3⟩, q4⟩, hall⟩ := h
  have := allB_true.1 (allB_true.1 (allB_true.1 (hall k hk) kn) ex) (subs.all Node.isUnknown)
  simp only [Bool.and_eq_true, beq_iff_eq] at this
  obtain ⟨⟨⟨h1, h2⟩, h3⟩, h4⟩ := this
  rw [evalN_eq_evalQ _ _ _ q1, evalN_eq_evalQ _ _ _ q2, evalN_eq_evalQ _ _ _ q3, evalN_eq_evalQ _ _ _ q4]
  exact ⟨h1, h2, h3, h4⟩

theorem mkNodesGen_eq_map (spec : FromPath) (known excl : Path → Bool) (parent : Path) (cs : List FTree) :
    mkNodesGen spec known excl parent cs = cs.map fun c => mkNodeGen spec known excl (parent ++ [c.name]) c := by
  induction cs with
  | nil => simp [mkNodesGen]
  | cons c cs ih => simp [mkNodesGen, ih]

theorem mkNodeGen_eq {spec : FromPath} (h : checkFromPath spec = true) (known excl : Path → Bool) (t : FTree) :
    ∀ path, mkNodeGen spec known excl path t = mkNode known excl path t := by
  induction t using FTree.ind with
  | hf n =>
    intro path
    obtain ⟨_, h2, h3, h4⟩ := checkFromPath_facts h (true, false) (by simp [kinds]) (known path) (excl path) []
    simp only [mkNodeGen, nodeOf, mkNode_file, h2, h3, h4]
    simp
  | hd n cs ih =>
    intro path
    have hsub : mkNodesGen spec known excl path cs = mkNodes known excl path cs := by
      rw [mkNodesGen_eq_map, mkNodes_eq_map]
      exact List.map_congr_left fun c hc => ih c hc _
    obtain ⟨h1, _, _, _⟩ := checkFromPath_facts h (false, true) (by simp [kinds]) (known path) (excl path) []
    simp only [mkNodeGen, h1, hsub]
    generalize hs : (if (true && !excl path) = true then mkNodes known excl path cs else []) = subs
    obtain ⟨_, h2, h3, h4⟩ := checkFromPath_facts h (false, true) (by simp [kinds]) (known path) (excl path) subs
    simp only [nodeOf, h2, h3, h4, mkNode_dir]
    have : subs = (if excl path = true then [] else mkNodes known excl path cs) := by
      rw [← hs]; cases excl path <;> simp
    rw [this]; simp

theorem mkNodeAtGen_eq {spec : FromPath} (h : checkFromPath spec = true) (fs : FTree) (known excl : Path → Bool) (path : Path) :
    mkNodeAtGen spec fs known excl path = mkNodeAt fs known excl path := by
  unfold mkNodeAtGen mkNodeAt
  cases subtree fs path with
  | some t => simp [mkNodeGen_eq h]
  | none =>
    obtain ⟨_, h2, h3, h4⟩ := checkFromPath_facts h (false, false) (by simp [kinds]) (known path) (excl path) []
    simp [nodeOf, h2, h3, h4]

/-! ### the listing -/

theorem Node.ind {P : Node → Prop}
    (h : ∀ p sub d f u, (∀ n ∈ sub, P n) → P (.mk p sub d f u)) (n : Node) : P n :=
  @Node.rec (fun n => P n) (fun ns => ∀ n ∈ ns, P n) (fun p sub d f u ih => h p sub d f u ih)
    (fun _ h => by cases h)
    (fun c cs hc hcs x hx => by
      rcases List.mem_cons.1 hx with e | e
      · exact e ▸ hc
      · exact hcs x e) n

theorem listNodesGen_eq_flatMap (spec : Listing) (d : Bool) (ns : List Node) :
    listNodesGen spec d ns = ns.flatMap (listNodeGen spec d) := by
  induction ns with
  | nil => simp [listNodesGen]
  | cons n ns ih => simp [listNodesGen, ih]

theorem listNodeGen_eq {spec : Listing} (h : checkListing spec = true) (d : Bool) (n : Node) :
    listNodeGen spec d n = listNode d n := by
  induction n using Node.ind with
  | h p sub dr f u ih =>
    unfold checkListing at h
    have := allB_true.1 (allB_true.1 (allB_true.1 (allB_true.1 h u) f) dr) d
    simp only [Bool.and_eq_true, beq_iff_eq] at this
    have hsub : listNodesGen spec d sub = listNodes d sub := by
      rw [listNodesGen_eq_flatMap, listNodes_eq_flatMap]
      exact flatMap_congr' fun n hn => ih n hn
    simp only [listNodeGen, listNode_mk, this.1, this.2, hsub]
    cases (u && (f || dr && d)) <;> simp

theorem findAllUnknownGen_eq {fp : FromPath} {ls : Listing} {fa : FindAll} (h1 : checkFromPath fp = true)
    (h2 : checkListing ls = true) (h3 : checkFindAll fa = true) (fs : FTree) (known excl : Path → Bool)
    (roots : List Path) (d : Bool) :
    findAllUnknownGen fp ls fa fs known excl roots d = findAllUnknown fs known excl roots d := by
  unfold checkFindAll at h3
  unfold findAllUnknownGen findAllUnknown
  rw [if_pos h3]
  exact flatMap_congr' fun r _ => by rw [mkNodeAtGen_eq h1, listNodeGen_eq h2]

/-! ### known paths -/

theorem mem_NodeClass_all (c : NodeClass) : c ∈ NodeClass.all := by cases c <;> simp [NodeClass.all]

theorem mem_yieldLeaf {yp : YieldPaths} (h : checkYield yp = true) (l : Leaf) (p : Path) :
    p ∈ yieldLeaf yp.arms l ↔
      (implementsPPath l.cls = true ∧ p = l.path) ∨
      (l.cls = .directoryNode ∧ cleanKnowsProvisional = true ∧ p ∈ l.collected) := by
  unfold checkYield at h
  simp only [Bool.and_eq_true, List.all_eq_true, beq_iff_eq] at h
  have ha := h.2 l.cls (mem_NodeClass_all l.cls)
  unfold yieldLeaf
  rw [ha]
  unfold expectedAction
  cases hc : l.cls <;> simp [implementsPPath, cleanKnowsProvisional]

theorem mem_yieldTask {yp : YieldPaths} (h : checkYield yp = true) (t : TaskX) (p : Path) :
    p ∈ yieldTask yp t ↔ (t.isWithPath = true ∧ p = t.path) ∨ ∃ l ∈ t.leaves, p ∈ yieldLeaf yp.arms l := by
  have h' := h
  unfold checkYield at h'
  simp only [Bool.and_eq_true, List.all_eq_true, beq_iff_eq, List.contains_iff_mem, Bool.or_eq_true] at h'
  obtain ⟨⟨⟨⟨ht, hd⟩, hp⟩, honly⟩, _⟩ := h'
  unfold yieldTask
  rw [ht]
  simp only [List.mem_append, List.mem_flatMap, TaskX.leaves]
  constructor
  · rintro (h1 | ⟨a, ha, l, hl, hpl⟩)
    · left
      by_cases hw : t.isWithPath = true
      · simp [hw] at h1; exact ⟨hw, h1⟩
      · simp [hw] at h1
    · right
      refine ⟨l, ?_, hpl⟩
      rcases honly a ha with e | e
      · subst e; simp [attrLeaves] at hl; exact Or.inl hl
      · subst e; simp [attrLeaves] at hl; exact Or.inr hl
  · rintro (⟨hw, rfl⟩ | ⟨l, hl, hpl⟩)
    · left; simp [hw]
    · right
      rcases hl with hl | hl
      · exact ⟨"depends_on", hd, l, by simp [attrLeaves, hl], hpl⟩
      · exact ⟨"produces", hp, l, by simp [attrLeaves, hl], hpl⟩

/-- The files `_yield_paths_from_task` yields over all tasks are the known files of the hand-written model. -/
theorem mem_knownFilesGen {yp : YieldPaths} (h : checkYield yp = true) (sx : SessionX) (p : Path) :
    p ∈ knownFilesGen yp sx ↔
      p ∈ sx.toSession.taskPaths ++ sx.toSession.nodePaths ++
        (if cleanKnowsProvisional then sx.toSession.provisionalPaths else []) := by
  unfold knownFilesGen
  simp only [List.mem_flatMap, mem_yieldTask h, mem_yieldLeaf h, SessionX.toSession, List.mem_append, List.mem_map,
    List.mem_filter]
  constructor
  · rintro ⟨t, ht, (⟨hw, rfl⟩ | ⟨l, hl, (⟨hi, rfl⟩ | ⟨hc, hk, hpc⟩)⟩)⟩
    · exact Or.inl (Or.inl ⟨t, ⟨ht, hw⟩, rfl⟩)
    · exact Or.inl (Or.inr ⟨l, ⟨⟨t, ht, hl⟩, hi⟩, rfl⟩)
    · right
      simp only [hk, ↓reduceIte, List.mem_flatMap, List.mem_filter]
      exact ⟨l, ⟨⟨t, ht, hl⟩, by simp [hc]⟩, hpc⟩
  · rintro ((⟨t, ⟨ht, hw⟩, rfl⟩ | ⟨l, ⟨⟨t, ht, hl⟩, hi⟩, rfl⟩) | hprov)
    · exact ⟨t, ht, Or.inl ⟨hw, rfl⟩⟩
    · exact ⟨t, ht, Or.inr ⟨l, hl, Or.inl ⟨hi, rfl⟩⟩⟩
    · by_cases hk : cleanKnowsProvisional = true
      · simp only [hk, ↓reduceIte, List.mem_flatMap, List.mem_filter] at hprov
        obtain ⟨l, ⟨⟨t, ht, hl⟩, hc⟩, hpc⟩ := hprov
        exact ⟨t, ht, Or.inr ⟨l, hl, Or.inr ⟨by simpa using hc, hk, hpc⟩⟩⟩
      · simp [hk] at hprov

theorem mem_knownPathsGen {ops : List KOp} {yp : YieldPaths} (h1 : checkKnownOps ops = true) (h2 : checkYield yp = true)
    (sx : SessionX) (p : Path) : p ∈ knownPathsGen ops yp sx ↔ p ∈ knownPaths sx.toSession := by
  unfold checkKnownOps at h1
  simp only [Bool.and_eq_true, List.contains_iff_mem, Bool.or_eq_true] at h1
  obtain ⟨⟨⟨⟨o1, o2⟩, o3⟩, o4⟩, o5⟩ := h1
  have hbase : sx.toSession.config = sx.base.config ∧ sx.toSession.root = sx.base.root ∧ gitKnown sx.toSession = gitKnown sx.base := by
    refine ⟨rfl, rfl, ?_⟩
    unfold gitKnown; rfl
  unfold knownPathsGen knownPaths
  simp only [List.mem_flatMap, List.mem_append, hbase.1, hbase.2.1, hbase.2.2, List.mem_singleton]
  constructor
  · rintro ⟨op, _, hp⟩
    cases op with
    | taskPaths => exact Or.inl (Or.inl (Or.inl (Or.inl (by simpa [List.mem_append, or_assoc] using (mem_knownFilesGen h2 sx p).1 hp))))
    | parentsOfFiles =>
      simp only [List.mem_flatMap] at hp
      obtain ⟨f, hf, hpf⟩ := hp
      exact Or.inl (Or.inl (Or.inl (Or.inr ⟨f, by simpa [List.mem_append, or_assoc] using (mem_knownFilesGen h2 sx f).1 hf, hpf⟩)))
    | config g => exact Or.inl (Or.inl (Or.inr hp))
    | root => exact Or.inl (Or.inr (by simpa using hp))
    | git => exact Or.inr hp
  · rintro ((((hf | ⟨f, hf, hpf⟩) | hc) | hr) | hg)
    · exact ⟨.taskPaths, o1, (mem_knownFilesGen h2 sx p).2 (by simpa [List.mem_append, or_assoc] using hf)⟩
    · exact ⟨.parentsOfFiles, o2, by simp only [List.mem_flatMap]; exact ⟨f, (mem_knownFilesGen h2 sx f).2 (by simpa [List.mem_append, or_assoc] using hf), hpf⟩⟩
    · rcases o3 with o | o
      · exact ⟨_, o, hc⟩
      · exact ⟨_, o, hc⟩
    · exact ⟨.root, o4, by simpa using hr⟩
    · exact ⟨.git, o5, hg⟩

theorem isKnownGen_eq {ops : List KOp} {yp : YieldPaths} (h1 : checkKnownOps ops = true) (h2 : checkYield yp = true)
    (sx : SessionX) : isKnownGen ops yp sx = isKnown sx.toSession := by
  funext p
  unfold isKnownGen isKnown
  rw [Bool.eq_iff_iff, List.contains_iff_mem, List.contains_iff_mem]
  exact mem_knownPathsGen h1 h2 sx p

/-! ### the command loop -/

theorem lookup_of_check {spec : List (String × ModeBeh)} (h : checkModeLoop spec = true) (m : Mode) :
    ∃ beh, spec.lookup (modeName m) = some beh ∧ behOk m beh = true := by
  unfold checkModeLoop at h
  simp only [List.all_eq_true] at h
  have := h m (by cases m <;> simp)
  cases hl : spec.lookup (modeName m) with
  | none => rw [hl] at this; cases this
  | some beh => rw [hl] at this; exact ⟨beh, rfl, this⟩

theorem cleanLoopGen_eq {spec : List (String × ModeBeh)} (h : checkModeLoop spec = true) (mode : Mode) (quiet : Bool)
    (yes : Path → Bool) (L : List Path) : ∀ fs, cleanLoopGen spec mode quiet yes L fs = cleanLoop mode quiet yes L fs := by
  obtain ⟨beh, hl, hok⟩ := lookup_of_check h mode
  induction L with
  | nil => intro fs; cases mode <;> rfl
  | cons p ps ih =>
    intro fs
    have hb := allB_true.1 (allB_true.1 (allB_true.1 hok (yes p)) quiet) (((subtree fs p).map FTree.isDir).getD false)
    cases mode with
    | dryRun =>
      simp only [Bool.and_eq_true, Bool.not_eq_true'] at hb
      obtain ⟨⟨⟨⟨b1, b2⟩, b3⟩, b4⟩, b5⟩ := hb
      simp only [cleanLoopGen, hl, stepGen, b1, b2, b3, b4, b5, cleanLoop, ih]
      simp
    | force =>
      simp only [Bool.and_eq_true, Bool.not_eq_true', beq_iff_eq] at hb
      obtain ⟨⟨⟨⟨b1, b2⟩, b3⟩, b4⟩, b5⟩ := hb
      simp only [cleanLoopGen, hl, stepGen, b1, b2, b3, b4, b5, cleanLoop, ih]
      cases quiet <;> cases (((subtree fs p).map FTree.isDir).getD false) <;> simp
    | interactive =>
      simp only [Bool.and_eq_true, Bool.not_eq_true', beq_iff_eq] at hb
      obtain ⟨⟨⟨⟨b1, b2⟩, b3⟩, b4⟩, b5⟩ := hb
      simp only [cleanLoopGen, hl, stepGen, b1, b2, b3, b4, b5, cleanLoop, ih]
      cases hy : yes p <;> cases quiet <;> cases (((subtree fs p).map FTree.isDir).getD false) <;> simp

end Pytask.CleanGen
