import PytaskProofs.Lemmas.EngineDryGraph
/-! Dry-run lemmas, part 3: what one task protocol / a stretch of the build loop does to marks, reports, log and world. -/
namespace Pytask
namespace EngineDry
open Engine G Sorter

/-! ### lookup / insert -/

theorem lookup_cons {κ} [BEq κ] (a : κ) (b : Nat) (m : List (κ × Nat)) (k : κ) :
    lookup ((a, b) :: m) k = if a == k then some b else lookup m k := by
  by_cases h : (a == k) = true
  · simp [lookup, h]
  · have h' : (a == k) = false := by simpa using h
    simp [lookup, h']

theorem lookup_filter_ne {κ} [BEq κ] [LawfulBEq κ] (m : List (κ × Nat)) (k k' : κ) :
    lookup (m.filter (fun e => !(e.1 == k))) k' = if k' == k then none else lookup m k' := by
  induction m with
  | nil => simp [lookup]
  | cons e m ih =>
    obtain ⟨a, b⟩ := e
    by_cases hak : a = k
    · subst hak
      simp only [List.filter_cons, beq_self_eq_true, Bool.not_true, Bool.false_eq_true, if_false, ih, lookup_cons]
      by_cases h : k' = a
      · simp [h]
      · have : (a == k') = false := by simpa using fun e => h e.symm
        simp [h, this]
    · have h1 : (a == k) = false := by simpa using hak
      simp only [List.filter_cons, h1, Bool.not_false, if_true, lookup_cons, ih]
      by_cases h : a = k'
      · subst h; simp [h1]
      · have : (a == k') = false := by simpa using h
        simp [this]

theorem lookup_insert {κ} [BEq κ] [LawfulBEq κ] (m : List (κ × Nat)) (k k' : κ) (v : Nat) :
    lookup (Engine.insert m k v) k' = if k' == k then some v else lookup m k' := by
  unfold Engine.insert
  rw [lookup_cons, lookup_filter_ne]
  by_cases h : k = k'
  · subst h; simp
  · have h1 : (k == k') = false := by simpa using h
    have h2 : (k' == k) = false := by simpa using fun e => h e.symm
    simp [h1, h2]

/-! ### the body -/

theorem foldl_fs_chg (f : FS → Nat × Nat → FS)
    (hf : ∀ fs x n, lookup (f fs x) n ≠ lookup fs n → x.1 = n) (l : List (Nat × Nat)) (fs : FS) (n : Nat)
    (h : lookup (l.foldl f fs) n ≠ lookup fs n) : ∃ x ∈ l, x.1 = n := by
  induction l generalizing fs with
  | nil => exact absurd rfl h
  | cons y ys ih =>
    simp only [List.foldl_cons] at h
    by_cases h1 : lookup (ys.foldl f (f fs y)) n = lookup (f fs y) n
    · rw [h1] at h
      exact ⟨y, List.mem_cons_self, hf fs y n h⟩
    · obtain ⟨x, hx, e⟩ := ih _ h1
      exact ⟨x, List.mem_cons_of_mem _ hx, e⟩

theorem foldl_fs_mono (f : FS → Nat × Nat → FS)
    (hf : ∀ fs x n, (lookup fs n).isSome = true → (lookup (f fs x) n).isSome = true) (l : List (Nat × Nat)) (fs : FS) (n : Nat)
    (h : (lookup fs n).isSome = true) : (lookup (l.foldl f fs) n).isSome = true := by
  induction l generalizing fs with
  | nil => exact h
  | cons y ys ih => exact ih _ (hf fs y n h)

theorem runBody_chg (F : BodyFn) (t : TaskSpec) (fs : FS) (n : Nat)
    (h : lookup (runBody F t fs).1 n ≠ lookup fs n) : n ∈ t.prods ∧ behInvokes t.beh = true := by
  unfold runBody at h
  simp only [] at h
  split at h
  · exact absurd rfl h
  · have key : ∀ {f : FS → Nat × Nat → FS}, (∀ fs x n, lookup (f fs x) n ≠ lookup fs n → x.1 = n) →
        lookup ((t.prods.zipIdx).foldl f fs) n ≠ lookup fs n → n ∈ t.prods := by
      intro f hf hne
      obtain ⟨x, hx, rfl⟩ := foldl_fs_chg f hf _ fs n hne
      exact List.fst_mem_of_mem_zipIdx hx
    have step : ∀ (sk : Option Nat) (val : Nat → Nat) (fs' : FS) (x : Nat × Nat) (n' : Nat),
        lookup (if (some x.2 == sk) = true then fs' else Engine.insert fs' x.1 (val x.2)) n' ≠ lookup fs' n' → x.1 = n' := by
      rintro sk val fs' ⟨p, i⟩ n' hn
      split at hn
      · exact absurd rfl hn
      · rw [lookup_insert] at hn
        by_cases e : n' = p
        · exact e.symm
        · have : (n' == p) = false := by simpa using e
          simp [this] at hn
    cases hb : t.beh <;> simp only [hb] at h
    · exact ⟨key (step none (fun i => F t.id i (lookup fs t.src) (t.deps.map (lookup fs)))) h, rfl⟩
    · exact absurd rfl h
    · exact ⟨key (step none (fun i => F t.id i (lookup fs t.src) (t.deps.map (lookup fs)))) h, rfl⟩
    · rename_i k
      exact ⟨key (step (some k) (fun i => F t.id i (lookup fs t.src) (t.deps.map (lookup fs)))) h, rfl⟩
    · exact absurd rfl h
    · exact absurd rfl h

theorem runBody_mono (F : BodyFn) (t : TaskSpec) (fs : FS) (n : Nat)
    (h : (lookup fs n).isSome = true) : (lookup (runBody F t fs).1 n).isSome = true := by
  unfold runBody
  simp only []
  split
  · exact h
  · have step : ∀ (sk : Option Nat) (val : Nat → Nat) (fs' : FS) (x : Nat × Nat) (n' : Nat),
        (lookup fs' n').isSome = true →
        (lookup (if (some x.2 == sk) = true then fs' else Engine.insert fs' x.1 (val x.2)) n').isSome = true := by
      rintro sk val fs' ⟨p, i⟩ n' hn
      split
      · exact hn
      · rw [lookup_insert]; split
        · rfl
        · exact hn
    cases hb : t.beh <;> simp only []
    · exact foldl_fs_mono _ (step none (fun i => F t.id i (lookup fs t.src) (t.deps.map (lookup fs)))) _ fs n h
    · exact h
    · exact foldl_fs_mono _ (step none (fun i => F t.id i (lookup fs t.src) (t.deps.map (lookup fs)))) _ fs n h
    · rename_i k
      exact foldl_fs_mono _ (step (some k) (fun i => F t.id i (lookup fs t.src) (t.deps.map (lookup fs)))) _ fs n h
    · exact h
    · exact h

/-! ### recording states -/

theorem updateStates_spec (P : Project) (g : G) (t : Nat) : ∀ (l : List Nat) (w : World),
    (updateStates P g w t l).1.fs = w.fs ∧
    ∀ k, lookup (updateStates P g w t l).1.db k ≠ lookup w.db k → k.1 = tv t
  | [], w => ⟨rfl, fun k h => absurd rfl h⟩
  | v :: vs, w => by
    unfold updateStates
    split
    · exact ⟨rfl, fun k h => absurd rfl h⟩
    · rename_i h hst
      obtain ⟨ih1, ih2⟩ := updateStates_spec P g t vs { w with db := Engine.insert w.db (tv t, v) h }
      refine ⟨ih1, ?_⟩
      intro k hk
      by_cases h1 : lookup (updateStates P g { w with db := Engine.insert w.db (tv t, v) h } t vs).1.db k
          = lookup (Engine.insert w.db (tv t, v) h) k
      · rw [h1, lookup_insert] at hk
        by_cases e : k = (tv t, v)
        · rw [e]
        · have : (k == (tv t, v)) = false := by simpa using e
          simp [this] at hk
      · exact ih2 k h1

theorem recordStates_spec (P : Project) (g : G) (cfg : Cfg) (w : World) (t : Nat) :
    (recordStates P g cfg w t).1.fs = w.fs ∧
    ∀ k, lookup (recordStates P g cfg w t).1.db k ≠ lookup w.db k → k.1 = tv t := by
  unfold recordStates
  split
  · exact ⟨rfl, fun k h => absurd rfl h⟩
  · exact updateStates_spec P g t _ w

/-! ### reports and marks -/

/-- the marks `pytask_execute_task_process_report` derives from a list of reports with outcome `o` -/
def marksOf (g : G) (o : Outcome) (ex : List (Nat × Outcome)) : List Nat :=
  ex.flatMap (fun e => if e.2 = o then taskDesc g e.1 else [])

theorem mem_marksOf {g : G} {o : Outcome} {ex : List (Nat × Outcome)} {x : Nat} :
    x ∈ marksOf g o ex ↔ ∃ a, (a, o) ∈ ex ∧ x ∈ taskDesc g a := by
  unfold marksOf
  simp only [List.mem_flatMap]
  constructor
  · rintro ⟨⟨a, o'⟩, he, hx⟩
    split at hx
    · rename_i h; simp only at h; subst h; exact ⟨a, he, hx⟩
    · cases hx
  · rintro ⟨a, he, hx⟩
    exact ⟨(a, o), he, by simpa using hx⟩

theorem marksOf_append (g : G) (o : Outcome) (a b : List (Nat × Outcome)) :
    marksOf g o (a ++ b) = marksOf g o a ++ marksOf g o b := by
  unfold marksOf; simp

@[simp] theorem marksOf_nil (g : G) (o : Outcome) : marksOf g o [] = [] := rfl

def repOf : Raised → Outcome
  | .none => .success | .skippedUnchanged => .skipUnchanged | .skipped => .skip | .ancestorFailed => .skipPrevFailed
  | .persisted => .persistence | .wouldBeExecuted => .wouldBeExecuted | .error => .fail

theorem processReport_spec (P : Project) (g : G) (cfg : Cfg) (s : Sess) (t : TaskSpec) (r : Raised) :
    (processReport P g cfg s t r).log = s.log ∧ (processReport P g cfg s t r).w.fs = s.w.fs ∧
    (∀ k, lookup (processReport P g cfg s t r).w.db k ≠ lookup s.w.db k → k.1 = tv t.id) ∧
    ∃ ex, (processReport P g cfg s t r).reports = s.reports ++ ex ∧
      (processReport P g cfg s t r).skipMarks = s.skipMarks ++ marksOf g .skip ex ∧
      (processReport P g cfg s t r).failMarks = s.failMarks ++ marksOf g .fail ex ∧
      (processReport P g cfg s t r).wbeMarks = s.wbeMarks ++ marksOf g .wouldBeExecuted ex ∧
      (r ≠ .none → ex = [(t.id, repOf r)]) ∧ (r = .none → ex = [(t.id, .success)] ∨ ex = []) := by
  have hrs := recordStates_spec P g cfg s.w t.id
  rcases hrec : recordStates P g cfg s.w t.id with ⟨w', ok⟩
  rw [hrec] at hrs
  simp only at hrs
  unfold processReport
  cases r <;> simp only [hrec]
  · -- none
    split
    · refine ⟨?_, hrs.1, hrs.2, [(t.id, .success)], ?_⟩ <;> simp [marksOf]
    · refine ⟨?_, hrs.1, hrs.2, [], ?_⟩ <;> simp
  · refine ⟨?_, ?_, ?_, [(t.id, .skipUnchanged)], ?_⟩ <;> simp [marksOf, repOf]
  · refine ⟨?_, ?_, ?_, [(t.id, .skip)], ?_⟩ <;> simp [marksOf, repOf, markAll]
  · refine ⟨?_, ?_, ?_, [(t.id, .skipPrevFailed)], ?_⟩ <;> simp [marksOf, repOf]
  · refine ⟨?_, hrs.1, hrs.2, [(t.id, .persistence)], ?_⟩ <;> simp [marksOf, repOf]
  · refine ⟨?_, ?_, ?_, [(t.id, .wouldBeExecuted)], ?_⟩ <;> simp [marksOf, repOf, markAll]
  · refine ⟨?_, ?_, ?_, [(t.id, .fail)], ?_⟩ <;> simp [marksOf, repOf, markAll]

/-! ### the three phases -/

theorem runPhases_of_ne (F : BodyFn) (P : Project) (g : G) (cfg : Cfg) (s : Sess) (t : TaskSpec)
    (h : setupChain P g cfg s t Generated.setupOrder ≠ .none) :
    runPhases F P g cfg s t = (setupChain P g cfg s t Generated.setupOrder, s) := by
  unfold runPhases
  split
  · rename_i h'; exact absurd h' h
  · rfl

theorem runPhases_of_dry (F : BodyFn) (P : Project) (g : G) (cfg : Cfg) (s : Sess) (t : TaskSpec)
    (h : setupChain P g cfg s t Generated.setupOrder = .none) (hd : cfg.dry = true) :
    runPhases F P g cfg s t = (.wouldBeExecuted, s) := by
  unfold runPhases
  rw [h]
  simp [hd]

def bodyRes (F : BodyFn) (t : TaskSpec) (fs : FS) : Raised :=
  if (runBody F t fs).2 = true then .error
  else if t.prods.any (fun p => (lookup (runBody F t fs).1 p).isNone) = true then .error else .none

theorem runPhases_of_real (F : BodyFn) (P : Project) (g : G) (cfg : Cfg) (s : Sess) (t : TaskSpec)
    (h : setupChain P g cfg s t Generated.setupOrder = .none) (hd : cfg.dry = false) :
    runPhases F P g cfg s t =
      (bodyRes F t s.w.fs,
       { s with w := { s.w with fs := (runBody F t s.w.fs).1 },
                log := if behInvokes t.beh = true then s.log ++ [t.id] else s.log }) := by
  unfold runPhases bodyRes
  rw [h]
  simp only [hd, Bool.false_eq_true, if_false]
  rcases runBody F t s.w.fs with ⟨fs', raised⟩
  simp only []
  split
  · rfl
  · split <;> rfl

theorem bodyRes_cases (F : BodyFn) (t : TaskSpec) (fs : FS) : bodyRes F t fs = .error ∨ bodyRes F t fs = .none := by
  unfold bodyRes
  split
  · exact Or.inl rfl
  · split
    · exact Or.inl rfl
    · exact Or.inr rfl

theorem runPhases_spec (F : BodyFn) (P : Project) (g : G) (cfg : Cfg) (s : Sess) (t : TaskSpec) :
    (runPhases F P g cfg s t).2.skipMarks = s.skipMarks ∧ (runPhases F P g cfg s t).2.failMarks = s.failMarks ∧
    (runPhases F P g cfg s t).2.wbeMarks = s.wbeMarks ∧ (runPhases F P g cfg s t).2.reports = s.reports ∧
    (runPhases F P g cfg s t).2.w.db = s.w.db ∧
    (∀ n, (lookup s.w.fs n).isSome = true → (lookup (runPhases F P g cfg s t).2.w.fs n).isSome = true) ∧
    ∃ l, (runPhases F P g cfg s t).2.log = s.log ++ l ∧ (l = [] ∨ l = [t.id]) ∧
      (l = [t.id] → setupChain P g cfg s t Generated.setupOrder = .none ∧ cfg.dry = false) ∧
      (∀ n, lookup (runPhases F P g cfg s t).2.w.fs n ≠ lookup s.w.fs n → l = [t.id] ∧ n ∈ t.prods) ∧
      (setupChain P g cfg s t Generated.setupOrder ≠ .none →
        (runPhases F P g cfg s t).1 = setupChain P g cfg s t Generated.setupOrder) ∧
      (setupChain P g cfg s t Generated.setupOrder = .none → cfg.dry = true → (runPhases F P g cfg s t).1 = .wouldBeExecuted) ∧
      (setupChain P g cfg s t Generated.setupOrder = .none → cfg.dry = false →
        ((runPhases F P g cfg s t).1 = .error ∨ (runPhases F P g cfg s t).1 = .none)) := by
  by_cases hr : setupChain P g cfg s t Generated.setupOrder = .none
  · by_cases hd : cfg.dry = true
    · rw [runPhases_of_dry F P g cfg s t hr hd]
      refine ⟨rfl, rfl, rfl, rfl, rfl, fun n h => h, [], by simp, Or.inl rfl, ?_, fun n h => absurd rfl h,
        fun h => absurd hr h, fun _ _ => rfl, fun _ h => by simp [hd] at h⟩
      intro h; cases h
    · have hd' : cfg.dry = false := by simpa using hd
      rw [runPhases_of_real F P g cfg s t hr hd']
      have hchg := runBody_chg F t s.w.fs
      have hmono := runBody_mono F t s.w.fs
      by_cases hinv : behInvokes t.beh = true
      · refine ⟨rfl, rfl, rfl, rfl, rfl, hmono, [t.id], ?_, Or.inr rfl, fun _ => ⟨hr, hd'⟩,
          fun n h => ⟨rfl, (hchg n h).1⟩, fun h => absurd hr h, fun _ h => by simp [hd'] at h, fun _ _ => bodyRes_cases F t s.w.fs⟩
        simp only [hinv, if_true]
      · refine ⟨rfl, rfl, rfl, rfl, rfl, hmono, [], ?_, Or.inl rfl, ?_,
          fun n h => absurd (hchg n h).2 hinv, fun h => absurd hr h, fun _ h => by simp [hd'] at h, fun _ _ => bodyRes_cases F t s.w.fs⟩
        · simp [hinv]
        · intro h; cases h
  · rw [runPhases_of_ne F P g cfg s t hr]
    refine ⟨rfl, rfl, rfl, rfl, rfl, fun n h => h, [], by simp, Or.inl rfl, ?_, fun n h => absurd rfl h, fun _ => rfl,
      fun h => absurd h hr, fun h => absurd h hr⟩
    intro h; cases h

end EngineDry
end Pytask
