import PytaskModel.Engine
/-!
Facts about one run of `pytask_execute_task_protocol` in M6 (`runPhases` + `processReport`).
Core Lean only.
-/
namespace Pytask
namespace Engine

/-- The outcome that `process_report` assigns to what the protocol's `try` raised. -/
def outc : Raised → Outcome
  | .none => .success
  | .skippedUnchanged => .skipUnchanged
  | .skipped => .skip
  | .ancestorFailed => .skipPrevFailed
  | .persisted => .persistence
  | .wouldBeExecuted => .wouldBeExecuted
  | .error => .fail

theorem outc_inj {a b : Raised} (h : outc a = outc b) : a = b := by
  cases a <;> cases b <;> simp [outc] at h <;> rfl

variable {F : BodyFn} {P : Project} {g : G} {cfg : Cfg}

/-! ### `update_states_in_database` -/

theorem updateStates_fs (w : World) (t : Nat) : ∀ (vs : List Nat), (updateStates P g w t vs).1.fs = w.fs
  | [] => rfl
  | v :: vs => by
    unfold updateStates
    split
    · rfl
    · rw [updateStates_fs _ t vs]

theorem stateOf_fs_congr {w w' : World} (h : w'.fs = w.fs) (v : Nat) : stateOf P w' v = stateOf P w v := by
  unfold stateOf; rw [h]

theorem updateStates_ok (t : Nat) : ∀ (vs : List Nat) (w : World), (∀ v ∈ vs, (stateOf P w v).isSome = true) →
    (updateStates P g w t vs).2 = true
  | [], _, _ => rfl
  | v :: vs, w, h => by
    unfold updateStates
    have hv := h v (by simp)
    split
    · rename_i hn; rw [hn] at hv; cases hv
    · apply updateStates_ok t vs
      intro u hu
      exact h u (List.mem_cons_of_mem _ hu)

theorem find?_filter_ne {κ} [BEq κ] [LawfulBEq κ] (k k' : κ) (h : k' ≠ k) : ∀ (m : List (κ × Nat)),
    (m.filter (fun e => !(e.1 == k))).find? (fun e => e.1 == k') = m.find? (fun e => e.1 == k')
  | [] => rfl
  | e :: m => by
    simp only [List.filter_cons, List.find?_cons]
    by_cases he : (e.1 == k) = true
    · have hek : e.1 = k := by simpa using he
      have h2 : (e.1 == k') = false := by
        rw [hek]; simpa using fun e' => h e'.symm
      simp only [he, Bool.not_true, h2]
      exact find?_filter_ne k k' h m
    · simp only [he, Bool.not_false, if_true, List.find?_cons]
      rw [find?_filter_ne k k' h m]

theorem lookup_insert_ne {κ} [BEq κ] [LawfulBEq κ] (m : List (κ × Nat)) (k k' : κ) (v : Nat) (h : k' ≠ k) :
    lookup (insert m k v) k' = lookup m k' := by
  unfold lookup insert
  have h1 : (k == k') = false := by simpa using fun e => h e.symm
  simp only [List.find?_cons, h1]
  rw [find?_filter_ne k k' h m]

theorem lookup_insert_isSome {κ} [BEq κ] [LawfulBEq κ] (m : List (κ × Nat)) (k k' : κ) (v : Nat)
    (h : (lookup m k').isSome = true) : (lookup (insert m k v) k').isSome = true := by
  by_cases hk : k' = k
  · subst hk; unfold lookup insert; simp
  · rw [lookup_insert_ne m k k' v hk]; exact h

/-- Rows of another task are never touched. -/
theorem updateStates_db_other (t x : Nat) (hx : x ≠ t) (n : Nat) : ∀ (vs : List Nat) (w : World),
    lookup (updateStates P g w t vs).1.db (tv x, n) = lookup w.db (tv x, n)
  | [], _ => rfl
  | v :: vs, w => by
    unfold updateStates
    split
    · rfl
    · rw [updateStates_db_other t x hx n vs]
      apply lookup_insert_ne
      intro h
      simp only [Prod.mk.injEq] at h
      apply hx
      have := h.1
      unfold tv at this; omega

theorem recordStates_fs (w : World) (t : Nat) : (recordStates P g cfg w t).1.fs = w.fs := by
  unfold recordStates; split
  · rfl
  · exact updateStates_fs _ _ _

theorem recordStates_db_other (w : World) (t x : Nat) (hx : x ≠ t) (n : Nat) :
    lookup (recordStates P g cfg w t).1.db (tv x, n) = lookup w.db (tv x, n) := by
  unfold recordStates; split
  · rfl
  · exact updateStates_db_other t x hx n _ _

/-! ### `process_report` -/

theorem processReport_fs (s : Sess) (t : TaskSpec) (r : Raised) : (processReport P g cfg s t r).w.fs = s.w.fs := by
  unfold processReport
  cases r <;> simp only [] <;> (try split) <;> (try exact recordStates_fs _ _) <;> rfl

theorem processReport_failMarks (s : Sess) (t : TaskSpec) (r : Raised) :
    (processReport P g cfg s t r).failMarks = if r = .error then s.failMarks ++ taskDesc g t.id else s.failMarks := by
  cases r <;> simp only [processReport, markAll, reduceCtorEq, if_false, if_true] <;> (try (split <;> rfl))

theorem processReport_skipMarks (s : Sess) (t : TaskSpec) (r : Raised) :
    (processReport P g cfg s t r).skipMarks = if r = .skipped then s.skipMarks ++ taskDesc g t.id else s.skipMarks := by
  cases r <;> simp only [processReport, markAll, reduceCtorEq, if_false, if_true] <;> (try (split <;> rfl))

theorem processReport_nFailed (s : Sess) (t : TaskSpec) (r : Raised) :
    (processReport P g cfg s t r).nFailed = if r = .error then s.nFailed + 1 else s.nFailed := by
  cases r <;> simp only [processReport, reduceCtorEq, if_false, if_true] <;> (try (split <;> rfl))

theorem processReport_stop (s : Sess) (t : TaskSpec) (r : Raised) :
    (processReport P g cfg s t r).stop =
      (s.stop || (decide (r = .error) && (match cfg.maxFail with | some m => decide (m ≤ s.nFailed + 1) | none => false))) := by
  cases r <;> simp only [processReport, reduceCtorEq, decide_false, decide_true, Bool.false_and, Bool.true_and, Bool.or_false] <;>
    (try (split <;> rfl)) <;> (try rfl)

/-- Exactly one report is appended, unless `update_states_in_database` raised in the SUCCESS branch. -/
theorem processReport_reports (s : Sess) (t : TaskSpec) (r : Raised) :
    ((processReport P g cfg s t r).reports = s.reports ++ [(t.id, outc r)] ∧
       (r ≠ .persisted → (processReport P g cfg s t r).crashed = s.crashed)) ∨
    (r = .none ∧ (processReport P g cfg s t r).reports = s.reports ∧ (processReport P g cfg s t r).crashed = true ∧
       (recordStates P g cfg s.w t.id).2 = false) := by
  cases r
  case none =>
    by_cases hok : (recordStates P g cfg s.w t.id).2 = true
    · left; simp [processReport, outc, hok]
    · right; simp [processReport, hok]
  case persisted => exact Or.inl ⟨rfl, fun h => absurd rfl h⟩
  all_goals exact Or.inl ⟨rfl, fun _ => rfl⟩

theorem processReport_crashed_persisted (s : Sess) (t : TaskSpec) :
    (processReport P g cfg s t .persisted).crashed = !(recordStates P g cfg s.w t.id).2 := rfl

/-- Rows are written only in the SUCCESS and PERSISTENCE branches. -/
theorem processReport_w (s : Sess) (t : TaskSpec) (r : Raised) (h1 : r ≠ .none) (h2 : r ≠ .persisted) :
    (processReport P g cfg s t r).w = s.w := by
  unfold processReport
  cases r <;> first | rfl | exact absurd rfl h1 | exact absurd rfl h2

theorem processReport_db_other (s : Sess) (t : TaskSpec) (r : Raised) (x : Nat) (hx : x ≠ t.id) (n : Nat) :
    lookup (processReport P g cfg s t r).w.db (tv x, n) = lookup s.w.db (tv x, n) := by
  unfold processReport
  cases r <;> simp only [] <;> (try split) <;> (try exact recordStates_db_other _ _ _ hx _) <;> rfl

/-! ### setup / execute / teardown -/

/-- `runPhases` changes only the files and the body log. -/
theorem runPhases_frame (s : Sess) (t : TaskSpec) :
    let s' := (runPhases F P g cfg s t).2
    s'.w.db = s.w.db ∧ s'.skipMarks = s.skipMarks ∧ s'.failMarks = s.failMarks ∧ s'.wbeMarks = s.wbeMarks ∧
    s'.nFailed = s.nFailed ∧ s'.stop = s.stop ∧ s'.crashed = s.crashed ∧ s'.reports = s.reports := by
  unfold runPhases
  split
  · split
    · simp
    · simp only []
      split <;> (try split) <;> simp
  · simp

/-- Every outcome other than SUCCESS and FAIL leaves the session untouched (no body, no file written). -/
theorem runPhases_nonrun (s : Sess) (t : TaskSpec) (h1 : (runPhases F P g cfg s t).1 ≠ .none)
    (h2 : (runPhases F P g cfg s t).1 ≠ .error) : (runPhases F P g cfg s t).2 = s := by
  unfold runPhases at h1 h2 ⊢
  cases hsc : setupChain P g cfg s t Generated.setupOrder <;> simp only [hsc] at h1 h2 ⊢
  by_cases hd : cfg.dry = true
  · simp [hd]
  · simp only [hd] at h1 h2 ⊢
    by_cases hr : (runBody F t s.w.fs).2 = true
    · simp [hr] at h2
    · by_cases hp : (t.prods.any (fun p => (lookup (runBody F t s.w.fs).1 p).isNone)) = true
      · simp [hr, hp] at h2
      · simp [hr, hp] at h1

theorem setupImpl_failMarks_irrel (s : Sess) (t : TaskSpec) (fm : List Nat)
    (h : s.failMarks.contains t.id = fm.contains t.id) (n : String) :
    setupImpl P g cfg { s with failMarks := fm } t n = setupImpl P g cfg s t n := by
  unfold setupImpl
  simp only [h]

theorem setupChain_failMarks_irrel (s : Sess) (t : TaskSpec) (fm : List Nat)
    (h : s.failMarks.contains t.id = fm.contains t.id) : ∀ (ns : List String),
    setupChain P g cfg { s with failMarks := fm } t ns = setupChain P g cfg s t ns
  | [] => rfl
  | n :: ns => by
    unfold setupChain
    rw [setupImpl_failMarks_irrel s t fm h n, setupChain_failMarks_irrel s t fm h ns]

/-- A task is judged "on its own merits": the fail marks of *other* tasks play no role. -/
theorem runPhases_failMarks_irrel (s : Sess) (t : TaskSpec) (fm : List Nat)
    (h : s.failMarks.contains t.id = fm.contains t.id) :
    runPhases F P g cfg { s with failMarks := fm } t =
      ((runPhases F P g cfg s t).1, { (runPhases F P g cfg s t).2 with failMarks := fm }) := by
  unfold runPhases
  rw [setupChain_failMarks_irrel s t fm h]
  split
  · split
    · rfl
    · simp only []
      split <;> (try split) <;> rfl
  · rfl

/-- The skipping implementation precedes persist and execute in `Generated.setupOrder`: a task
carrying a `skip_ancestor_failed` (or `skip`) mark never gets further. -/
theorem setupChain_failMarked (s : Sess) (t : TaskSpec) (h : s.failMarks.contains t.id = true) :
    setupChain P g cfg s t Generated.setupOrder = .skipped ∨
    setupChain P g cfg s t Generated.setupOrder = .ancestorFailed := by
  have hf : t.id ∈ s.failMarks := by simpa using h
  by_cases h1 : t.skip = true <;> by_cases h2 : t.id ∈ s.skipMarks <;> by_cases h3 : t.skipif = true <;>
    simp [Generated.setupOrder, setupChain, setupImpl, hf, h1, h2, h3]

theorem setupChain_skipMarked (s : Sess) (t : TaskSpec) (h : (t.skip || s.skipMarks.contains t.id || t.skipif) = true) :
    setupChain P g cfg s t Generated.setupOrder = .skipped := by
  by_cases h1 : t.skip = true <;> by_cases h2 : t.id ∈ s.skipMarks <;> by_cases h3 : t.skipif = true <;>
    simp [Generated.setupOrder, setupChain, setupImpl, h1, h2, h3] <;> simp_all

theorem runPhases_failMarked (s : Sess) (t : TaskSpec) (h : s.failMarks.contains t.id = true) :
    runPhases F P g cfg s t = (.skipped, s) ∨ runPhases F P g cfg s t = (.ancestorFailed, s) := by
  unfold runPhases
  rcases setupChain_failMarked (P := P) (g := g) (cfg := cfg) s t h with h' | h' <;> rw [h'] <;> simp

theorem runPhases_skipMarked (s : Sess) (t : TaskSpec) (h : (t.skip || s.skipMarks.contains t.id || t.skipif) = true) :
    runPhases F P g cfg s t = (.skipped, s) := by
  unfold runPhases
  rw [setupChain_skipMarked s t h]

theorem runBody_noraise_invokes (t : TaskSpec) (fs : FS) (h : (runBody F t fs).2 = false) : behInvokes t.beh = true := by
  unfold runBody at h
  simp only [] at h
  split at h
  · simp at h
  · cases hb : t.beh <;> simp_all [behInvokes]

/-- What SUCCESS means at the level of one protocol. -/
theorem runPhases_none (s : Sess) (t : TaskSpec) (h : (runPhases F P g cfg s t).1 = .none) :
    setupChain P g cfg s t Generated.setupOrder = .none ∧ cfg.dry = false ∧
    (runBody F t s.w.fs).2 = false ∧ behInvokes t.beh = true ∧
    (runPhases F P g cfg s t).2.w.fs = (runBody F t s.w.fs).1 ∧
    (runPhases F P g cfg s t).2.log = s.log ++ [t.id] ∧
    (∀ p ∈ t.prods, (lookup (runPhases F P g cfg s t).2.w.fs p).isSome = true) := by
  unfold runPhases at h ⊢
  cases hsc : setupChain P g cfg s t Generated.setupOrder <;> simp only [hsc] at h ⊢ <;> try (simp at h; done)
  by_cases hd : cfg.dry = true
  · simp [hd] at h
  · simp only [hd] at h ⊢
    by_cases hr : (runBody F t s.w.fs).2 = true
    · simp [hr] at h
    · by_cases hp : (t.prods.any (fun p => (lookup (runBody F t s.w.fs).1 p).isNone)) = true
      · simp [hr, hp] at h
      · have hr' : (runBody F t s.w.fs).2 = false := by simpa using hr
        have hbi := runBody_noraise_invokes (F := F) t s.w.fs hr'
        refine ⟨trivial, by simpa using hd, hr', hbi, ?_, ?_, ?_⟩
        · simp [hr, hp]
        · simp [hr, hp, hbi]
        · intro p hpm
          simp only [hr, hp]
          simp only [List.any_eq_true, not_exists, not_and, Bool.not_eq_true] at hp
          have := hp p hpm
          cases hl : lookup (runBody F t s.w.fs).1 p <;> simp_all

/-- What FAIL means at the level of one protocol: setup raised (missing dependency), or the body was
reached and the function / a node raised or a product is missing afterwards. -/
theorem runPhases_error_iff (s : Sess) (t : TaskSpec) :
    (runPhases F P g cfg s t).1 = .error ↔
      setupChain P g cfg s t Generated.setupOrder = .error ∨
      (setupChain P g cfg s t Generated.setupOrder = .none ∧ cfg.dry = false ∧
        ((runBody F t s.w.fs).2 = true ∨ ∃ p ∈ t.prods, lookup (runBody F t s.w.fs).1 p = none)) := by
  unfold runPhases
  cases hsc : setupChain P g cfg s t Generated.setupOrder <;> simp only [hsc] <;> try (simp; done)
  by_cases hd : cfg.dry = true
  · simp [hd]
  · by_cases hr : (runBody F t s.w.fs).2 = true
    · simp [hd, hr]
    · by_cases hp : (t.prods.any (fun p => (lookup (runBody F t s.w.fs).1 p).isNone)) = true
      · have hp' : ∃ p ∈ t.prods, lookup (runBody F t s.w.fs).1 p = none := by simpa using hp
        simp [hd, hr, hp, hp']
      · have hp' : ¬ ∃ p ∈ t.prods, lookup (runBody F t s.w.fs).1 p = none := by simpa using hp
        simp only [hd, hr, hp]
        simp only [not_exists, not_and] at hp'
        simp
        intro p hpm; exact hp' p hpm

/-! ### the change scan of `pytask_execute_task_setup` -/

theorem scan_true_ne_unchanged (w : World) (t : Nat) : ∀ (vs : List Nat), scan P g w t true vs ≠ .unchanged
  | [] => by simp [scan]
  | v :: vs => by
    unfold scan
    simp only [Bool.true_and, if_true]
    split
    · simp
    · split
      · simp
      · exact scan_true_ne_unchanged w t vs

/-- "Unchanged" requires a recorded row for every neighbour. -/
theorem scan_unchanged_rows (w : World) (t : Nat) : ∀ (vs : List Nat) (needs : Bool),
    scan P g w t needs vs = .unchanged → needs = false ∧ ∀ v ∈ vs, lookup w.db (tv t, v) ≠ none
  | [], needs, h => by
    unfold scan at h
    cases needs <;> simp_all
  | v :: vs, needs, h => by
    cases needs
    · unfold scan at h
      simp only [Bool.false_and, Bool.false_eq_true, if_false] at h
      split at h
      · cases h
      · have ih := scan_unchanged_rows w t vs _ h
        refine ⟨rfl, ?_⟩
        intro u hu
        rcases List.mem_cons.1 hu with rfl | hu
        · intro hrow
          have : hasChanged w t u (stateOf P w u) = true := by
            unfold hasChanged
            cases stateOf P w u <;> simp [hrow]
          rw [this] at ih
          cases ih.1
        · exact ih.2 u hu
    · exact absurd h (scan_true_ne_unchanged w t _)

/-- Only the `execute` implementation raises `SkippedUnchanged`, and only when the scan says so. -/
theorem setupChain_unchanged (s : Sess) (t : TaskSpec)
    (h : setupChain P g cfg s t Generated.setupOrder = .skippedUnchanged) :
    scan P g s.w t.id cfg.force (neighbours g t.id) = .unchanged := by
  simp only [Generated.setupOrder, setupChain, setupImpl] at h
  repeat' split at h
  all_goals first | rfl | cases h | assumption | skip
  all_goals simp_all

end Engine
end Pytask
