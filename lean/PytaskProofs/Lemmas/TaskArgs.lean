import PytaskModel.TaskArgs
import PytaskProofs.Lemmas.PyTree
/-!
Helper lemmas for the argument level of M5 (`TaskArgs.lean`): string-keyed dicts, the per-leaf
load/collect functions, and the save loop of the return handling.
-/
namespace Pytask
namespace TaskArgs
open PyTree

namespace Dict
variable {X Y : Type}

theorem get_set (d : Dict X) (k : String) (x : X) (k' : String) :
    get (set d k x) k' = if k = k' then some x else get d k' := by
  induction d with
  | nil => simp [set, get]
  | cons kv rest ih =>
    obtain ⟨k0, x0⟩ := kv
    simp only [set]
    by_cases h0 : k0 = k
    · subst h0
      by_cases h1 : k0 = k' <;> simp [get, h1]
    · simp only [h0, ↓reduceIte, get, ih]
      by_cases h1 : k0 = k'
      · subst h1; simp [Ne.symm h0]
      · simp [h1]

theorem get_none_of_not_mem (d : Dict X) (k : String) (h : k ∉ keys d) : get d k = none := by
  induction d with
  | nil => simp [get]
  | cons kv rest ih =>
    obtain ⟨k0, x0⟩ := kv
    simp only [keys, List.map_cons, List.mem_cons, not_or] at h
    simp only [get, Ne.symm h.1, ↓reduceIte]
    exact ih h.2

theorem mem_keys_of_get (d : Dict X) (k : String) (x : X) (h : get d k = some x) : k ∈ keys d := by
  false_or_by_contra
  rename_i hn
  rw [get_none_of_not_mem d k hn] at h
  cases h

theorem get_update (d e : Dict X) (hn : (keys e).Nodup) (k : String) :
    get (update d e) k = (get e k).or (get d k) := by
  induction e generalizing d with
  | nil => simp [update, get]
  | cons kv rest ih =>
    obtain ⟨k1, x1⟩ := kv
    simp only [keys, List.map_cons, List.nodup_cons] at hn
    have : update d ((k1, x1) :: rest) = update (set d k1 x1) rest := by simp [update]
    rw [this, ih _ hn.2, get_set]
    by_cases h : k1 = k
    · subst h
      simp [get, get_none_of_not_mem rest k1 hn.1]
    · simp [get, h]

theorem get_mapVals (f : X → Y) (d : Dict X) (k : String) : get (mapVals f d) k = (get d k).map f := by
  induction d with
  | nil => simp [mapVals, get]
  | cons kv rest ih =>
    obtain ⟨k0, x0⟩ := kv
    simp only [mapVals, List.map_cons, get] at ih ⊢
    by_cases h : k0 = k <;> simp [h, ih]

theorem keys_mapVals (f : X → Y) (d : Dict X) : keys (mapVals f d) = keys d := by
  simp [keys, mapVals]

theorem get_filter_key (q : String → Bool) (d : Dict X) (k : String) :
    get (d.filter (fun kv => q kv.1)) k = if q k then get d k else none := by
  induction d with
  | nil => simp [get]
  | cons kv rest ih =>
    obtain ⟨k0, x0⟩ := kv
    simp only [List.filter]
    by_cases hq : q k0
    · simp only [hq, get, ih]
      by_cases h : k0 = k
      · subst h; simp [hq]
      · simp [h]
    · simp only [hq, ih, get]
      by_cases h : k0 = k
      · subst h; simp [hq]
      · simp [h]

theorem keys_filter_nodup (q : String × X → Bool) (d : Dict X) (h : (keys d).Nodup) : (keys (d.filter q)).Nodup := by
  simp only [keys] at h ⊢
  exact List.Nodup.sublist (List.Sublist.map _ List.filter_sublist) h

end Dict

section
variable {V P : Type}

/-- what a dependency leaf should hand to the function (the specification). -/
def depObj : Decl V P → Obj V P
  | .value v => .val v
  | .path p => .path p
  | .pyNode v _ => .val v
  | .pickle p => .unpickled p

/-- what a product leaf should hand to the function: paths as paths, nodes as the node itself. -/
def prodObj : Decl V P → Obj V P
  | .value v => .node (.pyNode v false)
  | .path p => .path p
  | .pyNode v h => .node (.pyNode v h)
  | .pickle p => .node (.pickleNode p)

theorem load_collectLeaf_dep (d : Decl V P) : load false (collectLeaf d) = .leaf (depObj d) := by
  cases d <;> simp [collectLeaf, load, depObj]

theorem load_collectLeaf_prod (d : Decl V P) : load true (collectLeaf d) = .leaf (prodObj d) := by
  cases d <;> simp [collectLeaf, load, prodObj]

theorem isLeafTree_map {α β : Type} (f : α → β) (t : T α) : isLeafTree (map f t) = isLeafTree t := by
  cases t <;> simp [map, isLeafTree]

end

/-! ### the save loop -/
section
variable {N W : Type} [DecidableEq N]

theorem saveAll_outside (isProv : N → Bool) (canSave : N → T W → Bool) :
    ∀ (nvs : List (N × T W)) (s : Store N W) (n : N), n ∉ nvs.map (·.1) → (saveAll isProv canSave nvs s).1 n = s n
  | [], s, n, _ => by simp [saveAll]
  | (m, v) :: rest, s, n, h => by
    simp only [List.map_cons, List.mem_cons, not_or] at h
    simp only [saveAll]
    split
    · exact saveAll_outside isProv canSave rest s n h.2
    · split
      · rw [saveAll_outside isProv canSave rest _ n h.2]
        simp [Store.set, h.1]
      · rfl

/-- whatever happens, a node holds its old content or a value that was paired with it. -/
theorem saveAll_inv (isProv : N → Bool) (canSave : N → T W → Bool) :
    ∀ (nvs : List (N × T W)) (s : Store N W) (n : N),
      (saveAll isProv canSave nvs s).1 n = s n ∨ ∃ v, (n, v) ∈ nvs ∧ (saveAll isProv canSave nvs s).1 n = some v
  | [], s, n => by simp [saveAll]
  | (m, v) :: rest, s, n => by
    simp only [saveAll]
    split
    · rcases saveAll_inv isProv canSave rest s n with h | ⟨w, hw, he⟩
      · exact Or.inl h
      · exact Or.inr ⟨w, List.mem_cons_of_mem _ hw, he⟩
    · split
      · rcases saveAll_inv isProv canSave rest (s.set m v) n with h | ⟨w, hw, he⟩
        · by_cases hn : n = m
          · subst hn
            exact Or.inr ⟨v, by simp, by rw [h]; simp [Store.set]⟩
          · exact Or.inl (by rw [h]; simp [Store.set, hn])
        · exact Or.inr ⟨w, List.mem_cons_of_mem _ hw, he⟩
      · exact Or.inl rfl

theorem saveAll_success (isProv : N → Bool) (canSave : N → T W → Bool) :
    ∀ (nvs : List (N × T W)) (s : Store N W), (nvs.map (·.1)).Nodup →
      (∀ nv ∈ nvs, isProv nv.1 = false ∧ canSave nv.1 nv.2 = true) →
      (saveAll isProv canSave nvs s).2 = true ∧ ∀ nv ∈ nvs, (saveAll isProv canSave nvs s).1 nv.1 = some nv.2
  | [], s, _, _ => by simp [saveAll]
  | (m, v) :: rest, s, hnd, hok => by
    simp only [List.map_cons, List.nodup_cons] at hnd
    have h0 := hok (m, v) (by simp)
    simp only [saveAll, h0.1, h0.2, Bool.false_eq_true, ↓reduceIte]
    obtain ⟨a, b⟩ := saveAll_success isProv canSave rest (s.set m v) hnd.2 (fun nv h => hok nv (List.mem_cons_of_mem _ h))
    refine ⟨a, ?_⟩
    intro nv hnv
    rcases List.mem_cons.1 hnv with rfl | h
    · rw [saveAll_outside isProv canSave rest _ m hnd.1]; simp [Store.set]
    · exact b nv h

end

end TaskArgs
end Pytask

namespace Pytask
namespace TaskArgs
open PyTree

namespace Dict
variable {X Y : Type}

theorem get_append (d e : Dict X) (k : String) : get (d ++ e) k = (get d k).or (get e k) := by
  induction d with
  | nil => simp [get]
  | cons kv rest ih =>
    obtain ⟨k0, x0⟩ := kv
    simp only [List.cons_append, get, ih]
    by_cases h : k0 = k <;> simp [h]

theorem get_map_vals (f : X → Y) (d : Dict X) (k : String) :
    get (d.map (fun kv => (kv.1, f kv.2))) k = (get d k).map f := get_mapVals f d k

theorem get_foldl_set (f : String → X) : ∀ (names : List String) (acc : Dict X) (k : String),
    get (names.foldl (fun acc n => set acc n (f n)) acc) k = if k ∈ names then some (f k) else get acc k
  | [], acc, k => by simp
  | n :: rest, acc, k => by
    simp only [List.foldl_cons]
    rw [get_foldl_set f rest (set acc n (f n)) k, get_set]
    by_cases h1 : k ∈ rest
    · simp [h1]
    · by_cases h2 : n = k
      · subst h2; simp [h1]
      · simp [h1, h2, Ne.symm h2]

end Dict
end TaskArgs
end Pytask

namespace Pytask
namespace TaskArgs
open PyTree

namespace Dict
variable {X Y : Type}

theorem get_update_none (d e : Dict X) (k : String) (h : get e k = none) : get (update d e) k = get d k := by
  induction e generalizing d with
  | nil => simp [update]
  | cons kv rest ih =>
    obtain ⟨k1, x1⟩ := kv
    have hne : k1 ≠ k := by
      intro heq; subst heq; simp [get] at h
    have hrest : get rest k = none := by simpa [get, hne] using h
    have : update d ((k1, x1) :: rest) = update (set d k1 x1) rest := by simp [update]
    rw [this, ih _ hrest, get_set]; simp [hne]

theorem keys_set (d : Dict X) (k : String) (x : X) :
    keys (set d k x) = if k ∈ keys d then keys d else keys d ++ [k] := by
  induction d with
  | nil => simp [set, keys]
  | cons kv rest ih =>
    obtain ⟨k0, x0⟩ := kv
    simp only [keys] at ih ⊢
    simp only [set]
    by_cases h0 : k0 = k
    · subst h0; simp
    · simp only [h0, ↓reduceIte, List.map_cons, ih, List.mem_cons, Ne.symm h0, false_or]
      by_cases hm : k ∈ List.map (fun x => x.fst) rest <;> simp [hm]

theorem keys_set_nodup (d : Dict X) (k : String) (x : X) (h : (keys d).Nodup) : (keys (set d k x)).Nodup := by
  rw [keys_set]
  by_cases hm : k ∈ keys d
  · simpa [hm] using h
  · simp only [hm, ↓reduceIte]
    exact List.nodup_append.2 ⟨h, by simp, by intro a ha b hb; simp at hb; subst hb; intro heq; subst heq; exact hm ha⟩

theorem keys_foldl_set_nodup (f : String → X) : ∀ (names : List String) (acc : Dict X), (keys acc).Nodup →
    (keys (names.foldl (fun acc n => set acc n (f n)) acc)).Nodup
  | [], acc, h => by simpa using h
  | n :: rest, acc, h => by
    simp only [List.foldl_cons]
    exact keys_foldl_set_nodup f rest _ (keys_set_nodup acc n (f n) h)

end Dict

section
variable {V P : Type}

/-- lookup in a dict built from the parameter list, one optional entry per parameter. -/
theorem get_filterMap_params {X : Type} (g : Param V P → Option X) :
    ∀ (params : List (Param V P)), (params.map (·.name)).Nodup → ∀ p ∈ params,
      Dict.get (params.filterMap (fun q => (g q).map (fun x => (q.name, x)))) p.name = g p
  | [], _, p, hp => by simp at hp
  | q :: rest, hnd, p, hp => by
    simp only [List.map_cons, List.nodup_cons] at hnd
    have hnone : ∀ (ps : List (Param V P)) (n : String), n ∉ ps.map (·.name) →
        Dict.get (ps.filterMap (fun q => (g q).map (fun x => (q.name, x)))) n = none := by
      intro ps n hn
      apply Dict.get_none_of_not_mem
      intro hmem
      apply hn
      simp only [Dict.keys, List.mem_map, List.mem_filterMap, Option.map_eq_some_iff] at hmem
      obtain ⟨⟨k, x⟩, ⟨q', hq', x', _, heq⟩, hk⟩ := hmem
      simp only [Prod.mk.injEq] at heq
      simp only at hk
      exact List.mem_map.2 ⟨q', hq', by rw [heq.1, hk]⟩
    rcases List.mem_cons.1 hp with rfl | hin
    · simp only [List.filterMap_cons]
      cases hg : g p with
      | none => simpa using hnone rest p.name hnd.1
      | some x => simp [Dict.get]
    · have hne : q.name ≠ p.name := by
        intro heq; exact hnd.1 (heq ▸ List.mem_map.2 ⟨p, hin, rfl⟩)
      simp only [List.filterMap_cons]
      cases hg : g q with
      | none => simpa using get_filterMap_params g rest hnd.2 p hin
      | some x => simpa [Dict.get, hne] using get_filterMap_params g rest hnd.2 p hin

end
end TaskArgs
end Pytask
