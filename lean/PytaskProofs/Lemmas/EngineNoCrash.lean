import PytaskProofs.Lemmas.EngineReport
/-!
`update_states_in_database` never raises in the SUCCESS / PERSISTENCE branches (the formal content of
the F14 repair): when the protocol of a task ends without exception, every neighbour of the task has a
state. Needs distinct task ids (collection guarantees unique signatures).
-/
namespace Pytask
namespace Engine
open Sorter

variable {F : BodyFn} {P : Project} {g : G} {cfg : Cfg}

/-- Every edge leaving a task vertex goes to a product of a task with that id. -/
def ProdEdges (P : Project) (g : G) : Prop :=
  ∀ a v, (a, v) ∈ g.edges → isTaskV a = true → ∃ t ∈ P.tasks, tv t.id = a ∧ ∃ p ∈ t.prods, v = nv p

theorem isTaskV_nv (n : Nat) : isTaskV (nv n) = false := by unfold isTaskV nv; simp

theorem addNode_edges (g : G) (u : Nat) : (g.addNode u).edges = g.edges := by
  unfold G.addNode; split <;> rfl

theorem mem_addEdge_edges (g : G) (a b : Nat) (e : Nat × Nat) (h : e ∈ (g.addEdge a b).edges) :
    e ∈ g.edges ∨ e = (a, b) := by
  unfold G.addEdge at h
  simp only [] at h
  split at h
  · left; simpa [addNode_edges] using h
  · simp only [List.mem_append, List.mem_singleton, addNode_edges] at h
    exact h

theorem prodEdges_foldl {α} (P : Project) (f : G → α → G)
    (hf : ∀ g a, ProdEdges P g → ProdEdges P (f g a)) : ∀ (l : List α) (g : G), ProdEdges P g → ProdEdges P (l.foldl f g)
  | [], _, h => h
  | a :: l, g, h => prodEdges_foldl P f hf l _ (hf g a h)

theorem prodEdges_addEdge_node (P : Project) (g : G) (d b : Nat) (h : ProdEdges P g) : ProdEdges P (g.addEdge (nv d) b) := by
  intro a v he ht
  rcases mem_addEdge_edges _ _ _ _ he with he | he
  · exact h a v he ht
  · simp only [Prod.mk.injEq] at he
    rw [he.1, isTaskV_nv] at ht; cases ht

theorem prodEdges_base (P : Project) : ProdEdges P (baseGraph P) := by
  have key : ∀ (l : List TaskSpec) (acc : G), (∀ t ∈ l, t ∈ P.tasks) → ProdEdges P acc → ProdEdges P (l.foldl baseStep acc) := by
    intro l
    induction l with
    | nil => intro acc _ h; exact h
    | cons t l ih =>
      intro acc hl h
      apply ih _ (fun u hu => hl u (by simp [hu]))
      unfold baseStep
      have ht : t ∈ P.tasks := hl t (by simp)
      -- product edges
      have h1 : ProdEdges P (acc.addNode (tv t.id)) := by
        intro a v he; rw [addNode_edges] at he; exact h a v he
      have h2 : ProdEdges P (t.deps.foldl (fun g d => g.addEdge (nv d) (tv t.id)) (acc.addNode (tv t.id))) :=
        prodEdges_foldl P _ (fun g d hg => prodEdges_addEdge_node P g d _ hg) _ _ h1
      have gen : ∀ (ps : List Nat) (g0 : G), (∀ p ∈ ps, p ∈ t.prods) → ProdEdges P g0 →
          ProdEdges P (ps.foldl (fun g p => g.addEdge (tv t.id) (nv p)) g0) := by
        intro ps
        induction ps with
        | nil => intro g0 _ h0; exact h0
        | cons p ps ihp =>
          intro g0 hps h0
          apply ihp _ (fun q hq => hps q (by simp [hq]))
          intro a v he hta
          rcases mem_addEdge_edges _ _ _ _ he with he | he
          · exact h0 a v he hta
          · simp only [Prod.mk.injEq] at he
            exact ⟨t, ht, he.1.symm, p, hps p (by simp), he.2⟩
      exact gen t.prods _ (fun p hp => hp) h2
  exact key P.tasks G.empty (fun t ht => ht) (by intro a v he; cases he)

theorem prodEdges_modify (P : Project) (g : G) (h : ProdEdges P g) : ProdEdges P (modifyDag P g) := by
  unfold modifyDag
  apply prodEdges_foldl P _ _ _ _ h
  intro g t hg
  apply prodEdges_foldl P _ _ _ _ hg
  intro g o hg
  split
  · exact hg
  · -- every new edge starts at a successor of a task vertex, i.e. at a node vertex
    have gen : ∀ (ss : List Nat) (g0 : G), (∀ s ∈ ss, isTaskV s = false) → ProdEdges P g0 →
        ProdEdges P (ss.foldl (fun g s => g.addEdge s (tv t.id)) g0) := by
      intro ss
      induction ss with
      | nil => intro g0 _ h0; exact h0
      | cons s ss ih =>
        intro g0 hss h0
        apply ih _ (fun q hq => hss q (by simp [hq]))
        intro a v he hta
        rcases mem_addEdge_edges _ _ _ _ he with he | he
        · exact h0 a v he hta
        · simp only [Prod.mk.injEq] at he
          rw [he.1, hss s (by simp)] at hta; cases hta
    apply gen _ _ _ hg
    intro s hs
    obtain ⟨u, _, _, p, _, rfl⟩ := hg (tv o) s (G.mem_succs.1 hs) (isTaskV_tv o)
    exact isTaskV_nv p

theorem find?_of_nodup (hn : (P.tasks.map (·.id)).Nodup) {t : TaskSpec} (ht : t ∈ P.tasks) :
    Project.find? P t.id = some t := by
  unfold Project.find?
  generalize P.tasks = l at hn ht
  induction l with
  | nil => cases ht
  | cons a l ih =>
    simp only [List.map_cons, List.nodup_cons] at hn
    simp only [List.find?_cons]
    rcases List.mem_cons.1 ht with rfl | ht
    · simp
    · have : (a.id == t.id) = false := by
        simp only [beq_eq_false_iff_ne, ne_eq]
        intro he
        exact hn.1 (List.mem_map.2 ⟨t, ht, he.symm⟩)
      simp only [this]
      exact ih hn.2 ht

/-- Successors of a task in the build graph are products of its spec. -/
theorem succs_are_prods {marks : List Nat} (hdag : createDag P cfg = .ok (g, marks)) (hn : (P.tasks.map (·.id)).Nodup)
    {x : Nat} {spec : TaskSpec} (hf : Project.find? P x = some spec) {v : Nat} (hv : v ∈ g.succs (tv x)) :
    ∃ p ∈ spec.prods, v = nv p := by
  have hpe : ProdEdges P g := by rw [(createDag_ok hdag).1]; exact prodEdges_modify P _ (prodEdges_base P)
  obtain ⟨t, ht, hid, p, hp, rfl⟩ := hpe (tv x) v (G.mem_succs.1 hv) (isTaskV_tv x)
  have : t.id = x := tv_inj' hid
  have h2 := find?_of_nodup hn ht
  rw [this, hf] at h2
  simp only [Option.some.injEq] at h2
  subst h2
  exact ⟨p, hp, rfl⟩

theorem stateOf_mono {w w' : World} (h : ∀ n, (lookup w.fs n).isSome = true → (lookup w'.fs n).isSome = true) (v : Nat)
    (hv : (stateOf P w v).isSome = true) : (stateOf P w' v).isSome = true := by
  unfold stateOf at hv ⊢
  split
  · rename_i ht
    simp only [ht, if_true] at hv
    split
    · rename_i t hf; simp only [hf] at hv; exact h _ hv
    · rename_i hf; simp only [hf] at hv; cases hv
  · rename_i ht
    simp only [ht] at hv
    exact h _ hv

theorem stateOf_nv (w : World) (p : Nat) : stateOf P w (nv p) = lookup w.fs p := by
  unfold stateOf
  have : (nv p) / 2 = p := by unfold nv; omega
  simp [isTaskV_nv, this]

/-- The protocol of a task never sets the crash flag. -/
theorem protocol_no_crash {marks : List Nat} (hdag : createDag P cfg = .ok (g, marks)) (hn : (P.tasks.map (·.id)).Nodup)
    (s : Sess) {x : Nat} {spec : TaskSpec} (hf : Project.find? P x = some spec) (hc : s.crashed = false) :
    (protocol F P g cfg s spec).crashed = false := by
  have hid : spec.id = x := find?_id hf
  have hfr := runPhases_frame (F := F) (P := P) (g := g) (cfg := cfg) s spec
  rcases processReport_reports (P := P) (g := g) (cfg := cfg) (runPhases F P g cfg s spec).2 spec (runPhases F P g cfg s spec).1 with h | h
  · by_cases hp : (runPhases F P g cfg s spec).1 = .persisted
    · -- PERSISTENCE: all neighbours have a state
      show (processReport P g cfg (runPhases F P g cfg s spec).2 spec (runPhases F P g cfg s spec).1).crashed = false
      rw [hp, processReport_crashed_persisted]
      have hsame : (runPhases F P g cfg s spec).2 = s := runPhases_nonrun s spec (by rw [hp]; simp) (by rw [hp]; simp)
      rw [hsame]
      have hsc : setupChain P g cfg s spec Generated.setupOrder = .persisted := by
        unfold runPhases at hp
        split at hp
        · split at hp
          · simp at hp
          · simp only [] at hp
            split at hp <;> (try split at hp) <;> simp at hp
        · simpa using hp
      have hall : ∀ v ∈ neighbours g spec.id, (stateOf P s.w v).isSome = true := by
        rw [setupChain_unfold] at hsc
        have hpi : setupImpl P g cfg s spec "persist" = .persisted := by
          cases h1 : setupImpl P g cfg s spec "skipping" <;> simp only [h1] at hsc <;> try (cases hsc)
          · rcases setupImpl_persist_cases (P := P) (g := g) (cfg := cfg) s spec with h2 | h2
            · simp only [h2] at hsc
              rw [chain_id] at hsc
              by_cases hw : spec.id ∈ s.wbeMarks
              · simp [setupImpl, hw] at hsc
              · cases hs : scan P g s.w spec.id cfg.force (neighbours g spec.id) <;> simp [setupImpl, hw, hs] at hsc
            · exact h2
          · have := setupImpl_skipping_none (P := P) (g := g) (cfg := cfg) s spec
            by_cases h1' : spec.skip = true <;> by_cases h2' : spec.id ∈ s.skipMarks <;> by_cases h3' : spec.skipif = true <;>
              by_cases h4' : spec.id ∈ s.failMarks <;> simp [setupImpl, h1', h2', h3', h4'] at h1
        simp only [setupImpl, String.reduceBEq, Bool.false_eq_true, reduceIte] at hpi
        split at hpi
        · split at hpi
          · rename_i hall
            intro v hv
            simp only [List.all_eq_true, List.mem_map, forall_exists_index, and_imp, forall_apply_eq_imp_iff₂] at hall
            exact hall v hv
          · cases hpi
        · cases hpi
      unfold recordStates
      split
      · rfl
      · simp [updateStates_ok spec.id _ s.w hall]
    · show (processReport P g cfg (runPhases F P g cfg s spec).2 spec (runPhases F P g cfg s spec).1).crashed = false
      rw [h.2 hp, hfr.2.2.2.2.2.2.1]; exact hc
  · -- SUCCESS branch with a failing database update: impossible
    exfalso
    obtain ⟨hnone, _, _, hrec⟩ := h
    obtain ⟨hsc, hdry, _, _, hfs, _, hprods⟩ := runPhases_none s spec hnone
    have hscan := ((setupChain_none_iff s spec).1 hsc).2
    have hmono : ∀ n, (lookup s.w.fs n).isSome = true → (lookup (runPhases F P g cfg s spec).2.w.fs n).isSome = true :=
      fun n hn' => runPhases_fs_mono s spec n hn'
    have hall : ∀ v ∈ neighbours g spec.id, (stateOf P (runPhases F P g cfg s spec).2.w v).isSome = true := by
      intro v hv
      unfold neighbours at hv
      rcases List.mem_append.1 hv with hv | hv
      · -- predecessors and the task itself had a state at setup (otherwise the scan says "missing")
        apply stateOf_mono hmono
        cases hst : stateOf P s.w v with
        | some _ => rfl
        | none =>
          have : scan P g s.w spec.id cfg.force (neighbours g spec.id) = .missing :=
            (scan_missing_iff s.w spec.id cfg.force).2 ⟨v, hv, hst⟩
          rw [this] at hscan; cases hscan
      · rw [hid] at hv
        obtain ⟨p, hp, rfl⟩ := succs_are_prods hdag hn hf hv
        rw [stateOf_nv]
        exact hprods p hp
    unfold recordStates at hrec
    rw [if_neg (by simp [hdry])] at hrec
    rw [updateStates_ok spec.id _ _ hall] at hrec
    cases hrec

theorem Run.no_crash {marks : List Nat} (hdag : createDag P cfg = .ok (g, marks)) (hn : (P.tasks.map (·.id)).Nodup)
    {so : Sorter} {s : Sess} {picks : List Nat} {so' : Sorter} {s' : Sess}
    (h : Run F P g cfg so s picks so' s') (hc : s.crashed = false) : s'.crashed = false := by
  induction h with
  | nil => exact hc
  | cons _ _ _ _ hf _ ih => exact ih (protocol_no_crash hdag hn _ hf hc)

theorem updateStates_fail (t : Nat) : ∀ (vs : List Nat) (w : World), (∃ v ∈ vs, stateOf P w v = none) →
    (updateStates P g w t vs).2 = false
  | [], _, h => by obtain ⟨v, hv, _⟩ := h; cases hv
  | v :: vs, w, h => by
    unfold updateStates
    split
    · rfl
    · rename_i hs
      apply updateStates_fail t vs
      obtain ⟨u, hu, hn⟩ := h
      rcases List.mem_cons.1 hu with rfl | hu
      · rw [hn] at hs; cases hs
      · exact ⟨u, hu, hn⟩

end Engine
end Pytask
