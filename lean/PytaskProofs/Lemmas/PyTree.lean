import PytaskModel.PyTree
/-!
Helper lemmas for M5 (`PyTree.lean`). The nested inductive `T α` is handled by mutual structural
recursion over tree / child list / item list, and by the hand-written induction principle `T.ind3`.
-/
namespace Pytask
namespace PyTree
variable {α β γ : Type}

/-- Induction principle for the nested inductive with one motive per layer. -/
theorem T.ind3 {P : T α → Prop} {PL : List (T α) → Prop} {PD : List (Key × T α) → Prop}
    (leaf : ∀ a, P (.leaf a)) (list : ∀ xs, PL xs → P (.list xs)) (tuple : ∀ xs, PL xs → P (.tuple xs))
    (dict : ∀ kvs, PD kvs → P (.dict kvs))
    (nilL : PL []) (consL : ∀ t ts, P t → PL ts → PL (t :: ts))
    (nilD : PD []) (consD : ∀ k t kvs, P t → PD kvs → PD ((k, t) :: kvs)) :
    (∀ t, P t) ∧ (∀ ts, PL ts) ∧ (∀ kvs, PD kvs) := by
  have h : ∀ t, P t := fun t =>
    @T.rec α P PL PD (fun kv => P kv.2) leaf list tuple dict nilL consL nilD
      (fun kv kvs h1 h2 => consD kv.1 kv.2 kvs h1 h2) (fun _ _ h => h) t
  refine ⟨h, ?_, ?_⟩
  · intro ts; induction ts with
    | nil => exact nilL
    | cons t ts ih => exact consL t ts (h t) ih
  · intro kvs; induction kvs with
    | nil => exact nilD
    | cons kv kvs ih => exact consD kv.1 kv.2 kvs (h kv.2) ih

/-! ### map / leaves / struct -/

mutual
theorem leaves_map (f : α → β) : ∀ t : T α, leaves (map f t) = (leaves t).map f
  | .leaf a => by simp [map, leaves]
  | .list xs => by simp [map, leaves, leavesL_map f xs]
  | .tuple xs => by simp [map, leaves, leavesL_map f xs]
  | .dict kvs => by simp [map, leaves, leavesD_map f kvs]
theorem leavesL_map (f : α → β) : ∀ xs : List (T α), leavesL (mapL f xs) = (leavesL xs).map f
  | [] => by simp [mapL, leavesL]
  | t :: ts => by simp [mapL, leavesL, leaves_map f t, leavesL_map f ts]
theorem leavesD_map (f : α → β) : ∀ kvs : List (Key × T α), leavesD (mapD f kvs) = (leavesD kvs).map f
  | [] => by simp [mapD, leavesD]
  | (k, t) :: kvs => by simp [mapD, leavesD, leaves_map f t, leavesD_map f kvs]
end

mutual
theorem map_map (f : α → β) (g : β → γ) : ∀ t : T α, map g (map f t) = map (fun a => g (f a)) t
  | .leaf a => by simp [map]
  | .list xs => by simp [map, mapL_mapL f g xs]
  | .tuple xs => by simp [map, mapL_mapL f g xs]
  | .dict kvs => by simp [map, mapD_mapD f g kvs]
theorem mapL_mapL (f : α → β) (g : β → γ) : ∀ xs : List (T α), mapL g (mapL f xs) = mapL (fun a => g (f a)) xs
  | [] => by simp [mapL]
  | t :: ts => by simp [mapL, map_map f g t, mapL_mapL f g ts]
theorem mapD_mapD (f : α → β) (g : β → γ) : ∀ kvs : List (Key × T α), mapD g (mapD f kvs) = mapD (fun a => g (f a)) kvs
  | [] => by simp [mapD]
  | (k, t) :: kvs => by simp [mapD, map_map f g t, mapD_mapD f g kvs]
end

theorem struct_map (f : α → β) (t : T α) : struct (map f t) = struct t := by
  simp [struct, map_map]

mutual
theorem map_id' : ∀ t : T α, map (fun a => a) t = t
  | .leaf a => by simp [map]
  | .list xs => by simp [map, mapL_id' xs]
  | .tuple xs => by simp [map, mapL_id' xs]
  | .dict kvs => by simp [map, mapD_id' kvs]
theorem mapL_id' : ∀ xs : List (T α), mapL (fun a => a) xs = xs
  | [] => by simp [mapL]
  | t :: ts => by simp [mapL, map_id' t, mapL_id' ts]
theorem mapD_id' : ∀ kvs : List (Key × T α), mapD (fun a => a) kvs = kvs
  | [] => by simp [mapD]
  | (k, t) :: kvs => by simp [mapD, map_id' t, mapD_id' kvs]
end

theorem mapD_keys (f : α → β) : ∀ kvs : List (Key × T α), (mapD f kvs).map (·.1) = kvs.map (·.1)
  | [] => by simp [mapD]
  | (k, t) :: kvs => by simp [mapD, mapD_keys f kvs]

/-! ### bind -/

mutual
theorem bind_leaf (f : α → β) : ∀ t : T α, bind (fun a => .leaf (f a)) t = map f t
  | .leaf a => by simp [bind, map]
  | .list xs => by simp [bind, map, bindL_leaf f xs]
  | .tuple xs => by simp [bind, map, bindL_leaf f xs]
  | .dict kvs => by simp [bind, map, bindD_leaf f kvs]
theorem bindL_leaf (f : α → β) : ∀ xs : List (T α), bindL (fun a => .leaf (f a)) xs = mapL f xs
  | [] => by simp [bindL, mapL]
  | t :: ts => by simp [bindL, mapL, bind_leaf f t, bindL_leaf f ts]
theorem bindD_leaf (f : α → β) : ∀ kvs : List (Key × T α), bindD (fun a => .leaf (f a)) kvs = mapD f kvs
  | [] => by simp [bindD, mapD]
  | (k, t) :: kvs => by simp [bindD, mapD, bind_leaf f t, bindD_leaf f kvs]
end

mutual
theorem bind_map (g : α → β) (f : β → T γ) : ∀ t : T α, bind f (map g t) = bind (fun a => f (g a)) t
  | .leaf a => by simp [bind, map]
  | .list xs => by simp [bind, map, bindL_mapL g f xs]
  | .tuple xs => by simp [bind, map, bindL_mapL g f xs]
  | .dict kvs => by simp [bind, map, bindD_mapD g f kvs]
theorem bindL_mapL (g : α → β) (f : β → T γ) : ∀ xs : List (T α), bindL f (mapL g xs) = bindL (fun a => f (g a)) xs
  | [] => by simp [bindL, mapL]
  | t :: ts => by simp [bindL, mapL, bind_map g f t, bindL_mapL g f ts]
theorem bindD_mapD (g : α → β) (f : β → T γ) : ∀ kvs : List (Key × T α), bindD f (mapD g kvs) = bindD (fun a => f (g a)) kvs
  | [] => by simp [bindD, mapD]
  | (k, t) :: kvs => by simp [bindD, mapD, bind_map g f t, bindD_mapD g f kvs]
end

mutual
theorem bind_congr (f g : α → T β) : ∀ t : T α, (∀ a ∈ leaves t, f a = g a) → bind f t = bind g t
  | .leaf a, h => by simp [bind]; exact h a (by simp [leaves])
  | .list xs, h => by simp [bind]; exact bindL_congr f g xs (by simpa [leaves] using h)
  | .tuple xs, h => by simp [bind]; exact bindL_congr f g xs (by simpa [leaves] using h)
  | .dict kvs, h => by simp [bind]; exact bindD_congr f g kvs (by simpa [leaves] using h)
theorem bindL_congr (f g : α → T β) : ∀ xs : List (T α), (∀ a ∈ leavesL xs, f a = g a) → bindL f xs = bindL g xs
  | [], _ => by simp [bindL]
  | t :: ts, h => by
    simp only [bindL]
    rw [bind_congr f g t (fun a ha => h a (by simp [leavesL, ha])),
        bindL_congr f g ts (fun a ha => h a (by simp [leavesL, ha]))]
theorem bindD_congr (f g : α → T β) : ∀ kvs : List (Key × T α), (∀ a ∈ leavesD kvs, f a = g a) → bindD f kvs = bindD g kvs
  | [], _ => by simp [bindD]
  | (k, t) :: kvs, h => by
    simp only [bindD]
    rw [bind_congr f g t (fun a ha => h a (by simp [leavesD, ha])),
        bindD_congr f g kvs (fun a ha => h a (by simp [leavesD, ha]))]
end

mutual
theorem leaves_bind (f : α → T β) : ∀ t : T α, leaves (bind f t) = (leaves t).flatMap (fun a => leaves (f a))
  | .leaf a => by simp [bind, leaves]
  | .list xs => by simp [bind, leaves, leavesL_bindL f xs]
  | .tuple xs => by simp [bind, leaves, leavesL_bindL f xs]
  | .dict kvs => by simp [bind, leaves, leavesD_bindD f kvs]
theorem leavesL_bindL (f : α → T β) : ∀ xs : List (T α), leavesL (bindL f xs) = (leavesL xs).flatMap (fun a => leaves (f a))
  | [] => by simp [bindL, leavesL]
  | t :: ts => by simp [bindL, leavesL, leaves_bind f t, leavesL_bindL f ts]
theorem leavesD_bindD (f : α → T β) : ∀ kvs : List (Key × T α), leavesD (bindD f kvs) = (leavesD kvs).flatMap (fun a => leaves (f a))
  | [] => by simp [bindD, leavesD]
  | (k, t) :: kvs => by simp [bindD, leavesD, leaves_bind f t, leavesD_bindD f kvs]
end

/-! ### unflatten -/

mutual
theorem unflattenAux_map (g : α → β) : ∀ (t : T α) (rest : List α),
    unflattenAux (map g t) (leaves t ++ rest) = some (t, rest)
  | .leaf a, rest => by simp [map, leaves, unflattenAux]
  | .list xs, rest => by simp [map, leaves, unflattenAux, unflattenL_map g xs rest]
  | .tuple xs, rest => by simp [map, leaves, unflattenAux, unflattenL_map g xs rest]
  | .dict kvs, rest => by simp [map, leaves, unflattenAux, unflattenD_map g kvs rest]
theorem unflattenL_map (g : α → β) : ∀ (xs : List (T α)) (rest : List α),
    unflattenL (mapL g xs) (leavesL xs ++ rest) = some (xs, rest)
  | [], rest => by simp [mapL, leavesL, unflattenL]
  | t :: ts, rest => by
    simp [mapL, leavesL, unflattenL, List.append_assoc, unflattenAux_map g t (leavesL ts ++ rest),
      unflattenL_map g ts rest]
theorem unflattenD_map (g : α → β) : ∀ (kvs : List (Key × T α)) (rest : List α),
    unflattenD (mapD g kvs) (leavesD kvs ++ rest) = some (kvs, rest)
  | [], rest => by simp [mapD, leavesD, unflattenD]
  | (k, t) :: kvs, rest => by
    simp [mapD, leavesD, unflattenD, List.append_assoc, unflattenAux_map g t (leavesD kvs ++ rest),
      unflattenD_map g kvs rest]
end

/-- what `unflattenAux` returns has the shape of the spec and exactly the consumed leaves. -/
theorem unflattenAux_sound :
    (∀ (s : T β) (l : List α) (t : T α) (rest : List α), unflattenAux s l = some (t, rest) →
        struct t = struct s ∧ l = leaves t ++ rest) ∧
    (∀ (ss : List (T β)) (l : List α) (ts : List (T α)) (rest : List α), unflattenL ss l = some (ts, rest) →
        mapL (fun _ => ()) ts = mapL (fun _ => ()) ss ∧ l = leavesL ts ++ rest) ∧
    (∀ (ss : List (Key × T β)) (l : List α) (ts : List (Key × T α)) (rest : List α), unflattenD ss l = some (ts, rest) →
        mapD (fun _ => ()) ts = mapD (fun _ => ()) ss ∧ l = leavesD ts ++ rest) := by
  apply T.ind3
  · intro a l t rest h
    cases l with
    | nil => simp [unflattenAux] at h
    | cons x l' =>
      simp [unflattenAux] at h
      obtain ⟨rfl, rfl⟩ := h
      simp [struct, map, leaves]
  · intro xs ih l t rest h
    simp only [unflattenAux, Option.map_eq_some_iff] at h
    obtain ⟨⟨ts, r⟩, h1, h2⟩ := h
    simp only [Prod.mk.injEq] at h2
    obtain ⟨rfl, rfl⟩ := h2
    have := ih l ts r h1
    simp [struct, map, leaves, this.1]; exact this.2
  · intro xs ih l t rest h
    simp only [unflattenAux, Option.map_eq_some_iff] at h
    obtain ⟨⟨ts, r⟩, h1, h2⟩ := h
    simp only [Prod.mk.injEq] at h2
    obtain ⟨rfl, rfl⟩ := h2
    have := ih l ts r h1
    simp [struct, map, leaves, this.1]; exact this.2
  · intro kvs ih l t rest h
    simp only [unflattenAux, Option.map_eq_some_iff] at h
    obtain ⟨⟨ts, r⟩, h1, h2⟩ := h
    simp only [Prod.mk.injEq] at h2
    obtain ⟨rfl, rfl⟩ := h2
    have := ih l ts r h1
    simp [struct, map, leaves, this.1]; exact this.2
  · intro l ts rest h
    simp [unflattenL] at h
    obtain ⟨rfl, rfl⟩ := h
    simp [mapL, leavesL]
  · intro s ss ih1 ih2 l ts rest h
    simp only [unflattenL] at h
    split at h
    · simp at h
    · rename_i t' l' h1
      split at h
      · simp at h
      · rename_i ts' l'' h2
        simp only [Option.some.injEq, Prod.mk.injEq] at h
        obtain ⟨rfl, rfl⟩ := h
        have a1 := ih1 l t' l' h1
        have a2 := ih2 l' ts' _ h2
        simp only [struct] at a1
        simp [mapL, leavesL, a1.1, a2.1, a1.2, a2.2]
  · intro l ts rest h
    simp [unflattenD] at h
    obtain ⟨rfl, rfl⟩ := h
    simp [mapD, leavesD]
  · intro k s ss ih1 ih2 l ts rest h
    simp only [unflattenD] at h
    split at h
    · simp at h
    · rename_i t' l' h1
      split at h
      · simp at h
      · rename_i ts' l'' h2
        simp only [Option.some.injEq, Prod.mk.injEq] at h
        obtain ⟨rfl, rfl⟩ := h
        have a1 := ih1 l t' l' h1
        have a2 := ih2 l' ts' _ h2
        simp only [struct] at a1
        simp [mapD, leavesD, a1.1, a2.1, a1.2, a2.2]

end PyTree
end Pytask
