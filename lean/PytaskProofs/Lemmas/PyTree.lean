import PytaskModel.PyTree
/-!
Helper lemmas for M5 (`PyTree.lean`). The nested inductive `T α` is handled by mutual structural
recursion over tree / child list / item list, and by the hand-written induction principle `T.ind3`.
-/
namespace Pytask
namespace PyTree
variable {α β γ : Type}

/-- Induction principle for the nested inductive with one motive per layer. -/
theorem T.ind3 {P : T α → Prop} {PL : List (T α) → Prop} {PD : List (Key × T α) → Prop}
    (leaf : ∀ a, P (.leaf a)) (list : ∀ xs, PL xs → P (.list xs)) (tuple : ∀ xs, PL xs → P (.tuple xs))
    (dict : ∀ kvs, PD kvs → P (.dict kvs))
    (nilL : PL []) (consL : ∀ t ts, P t → PL ts → PL (t :: ts))
    (nilD : PD []) (consD : ∀ k t kvs, P t → PD kvs → PD ((k, t) :: kvs)) :
    (∀ t, P t) ∧ (∀ ts, PL ts) ∧ (∀ kvs, PD kvs) := by
  have h : ∀ t, P t := fun t =>
    @T.rec α P PL PD (fun kv => P kv.2) leaf list tuple dict nilL consL nilD
      (fun kv kvs h1 h2 => consD kv.1 kv.2 kvs h1 h2) (fun _ _ h => h) t
  refine ⟨h, ?_, ?_⟩
  · intro ts; induction ts with
    | nil => exact nilL
    | cons t ts ih => exact consL t ts (h t) ih
  · intro kvs; induction kvs with
    | nil => exact nilD
    | cons kv kvs ih => exact consD kv.1 kv.2 kvs (h kv.2) ih

/-! ### map / leaves / struct -/

mutual
theorem leaves_map (f : α → β) : ∀ t : T α, leaves (map f t) = (leaves t).map f
  | .leaf a => by simp [map, leaves]
  | .list xs => by simp [map, leaves, leavesL_map f xs]
  | .tuple xs => by simp [map, leaves, leavesL_map f xs]
  | .dict kvs => by simp [map, leaves, leavesD_map f kvs]
theorem leavesL_map (f : α → β) : ∀ xs : List (T α), leavesL (mapL f xs) = (leavesL xs).map f
  | [] => by simp [mapL, leavesL]
  | t :: ts => by simp [mapL, leavesL, leaves_map f t, leavesL_map f ts]
theorem leavesD_map (f : α → β) : ∀ kvs : List (Key × T α), leavesD (mapD f kvs) = (leavesD kvs).map f
  | [] => by simp [mapD, leavesD]
  | (k, t) :: kvs => by simp [mapD, leavesD, leaves_map f t, leavesD_map f kvs]
end

mutual
theorem map_map (f : α → β) (g : β → γ) : ∀ t : T α, map g (map f t) = map (fun a => g (f a)) t
  | .leaf a => by simp [map]
  | .list xs => by simp [map, mapL_mapL f g xs]
  | .tuple xs => by simp [map, mapL_mapL f g xs]
  | .dict kvs => by simp [map, mapD_mapD f g kvs]
theorem mapL_mapL (f : α → β) (g : β → γ) : ∀ xs : List (T α), mapL g (mapL f xs) = mapL (fun a => g (f a)) xs
  | [] => by simp [mapL]
  | t :: ts => by simp [mapL, map_map f g t, mapL_mapL f g ts]
theorem mapD_mapD (f : α → β) (g : β → γ) : ∀ kvs : List (Key × T α), mapD g (mapD f kvs) = mapD (fun a => g (f a)) kvs
  | [] => by simp [mapD]
  | (k, t) :: kvs => by simp [mapD, map_map f g t, mapD_mapD f g kvs]
end

theorem struct_map (f : α → β) (t : T α) : struct (map f t) = struct t := by
  simp [struct, map_map]

mutual
theorem map_id' : ∀ t : T α, map (fun a => a) t = t
  | .leaf a => by simp [map]
  | .list xs => by simp [map, mapL_id' xs]
  | .tuple xs => by simp [map, mapL_id' xs]
  | .dict kvs => by simp [map, mapD_id' kvs]
theorem mapL_id' : ∀ xs : List (T α), mapL (fun a => a) xs = xs
  | [] => by simp [mapL]
  | t :: ts => by simp [mapL, map_id' t, mapL_id' ts]
theorem mapD_id' : ∀ kvs : List (Key × T α), mapD (fun a => a) kvs = kvs
  | [] => by simp [mapD]
  | (k, t) :: kvs => by simp [mapD, map_id' t, mapD_id' kvs]
end

theorem mapD_keys (f : α → β) : ∀ kvs : List (Key × T α), (mapD f kvs).map (·.1) = kvs.map (·.1)
  | [] => by simp [mapD]
  | (k, t) :: kvs => by simp [mapD, mapD_keys f kvs]

/-! ### bind -/

mutual
theorem bind_leaf (f : α → β) : ∀ t : T α, bind (fun a => .leaf (f a)) t = map f t
  | .leaf a => by simp [bind, map]
  | .list xs => by simp [bind, map, bindL_leaf f xs]
  | .tuple xs => by simp [bind, map, bindL_leaf f xs]
  | .dict kvs => by simp [bind, map, bindD_leaf f kvs]
theorem bindL_leaf (f : α → β) : ∀ xs : List (T α), bindL (fun a => .leaf (f a)) xs = mapL f xs
  | [] => by simp [bindL, mapL]
  | t :: ts => by simp [bindL, mapL, bind_leaf f t, bindL_leaf f ts]
theorem bindD_leaf (f : α → β) : ∀ kvs : List (Key × T α), bindD (fun a => .leaf (f a)) kvs = mapD f kvs
  | [] => by simp [bindD, mapD]
  | (k, t) :: kvs => by simp [bindD, mapD, bind_leaf f t, bindD_leaf f kvs]
end

mutual
theorem bind_map (g : α → β) (f : β → T γ) : ∀ t : T α, bind f (map g t) = bind (fun a => f (g a)) t
  | .leaf a => by simp [bind, map]
  | .list xs => by simp [bind, map, bindL_mapL g f xs]
  | .tuple xs => by simp [bind, map, bindL_mapL g f xs]
  | .dict kvs => by simp [bind, map, bindD_mapD g f kvs]
theorem bindL_mapL (g : α → β) (f : β → T γ) : ∀ xs : List (T α), bindL f (mapL g xs) = bindL (fun a => f (g a)) xs
  | [] => by simp [bindL, mapL]
  | t :: ts => by simp [bindL, mapL, bind_map g f t, bindL_mapL g f ts]
theorem bindD_mapD (g : α → β) (f : β → T γ) : ∀ kvs : List (Key × T α), bindD f (mapD g kvs) = bindD (fun a => f (g a)) kvs
  | [] => by simp [bindD, mapD]
  | (k, t) :: kvs => by simp [bindD, mapD, bind_map g f t, bindD_mapD g f kvs]
end

mutual
theorem bind_congr (f g : α → T β) : ∀ t : T α, (∀ a ∈ leaves t, f a = g a) → bind f t = bind g t
  | .leaf a, h => by simp [bind]; exact h a (by simp [leaves])
  | .list xs, h => by simp [bind]; exact bindL_congr f g xs (by simpa [leaves] using h)
  | .tuple xs, h => by simp [bind]; exact bindL_congr f g xs (by simpa [leaves] using h)
  | .dict kvs, h => by simp [bind]; exact bindD_congr f g kvs (by simpa [leaves] using h)
theorem bindL_congr (f g : α → T β) : ∀ xs : List (T α), (∀ a ∈ leavesL xs, f a = g a) → bindL f xs = bindL g xs
  | [], _ => by simp [bindL]
  | t :: ts, h => by
    simp only [bindL]
    rw [bind_congr f g t (fun a ha => h a (by simp [leavesL, ha])),
        bindL_congr f g ts (fun a ha => h a (by simp [leavesL, ha]))]
theorem bindD_congr (f g : α → T β) : ∀ kvs : List (Key × T α), (∀ a ∈ leavesD kvs, f a = g a) → bindD f kvs = bindD g kvs
  | [], _ => by simp [bindD]
  | (k, t) :: kvs, h => by
    simp only [bindD]
    rw [bind_congr f g t (fun a ha => h a (by simp [leavesD, ha])),
        bindD_congr f g kvs (fun a ha => h a (by simp [leavesD, ha]))]
end

mutual
theorem leaves_bind (f : α → T β) : ∀ t : T α, leaves (bind f t) = (leaves t).flatMap (fun a => leaves (f a))
  | .leaf a => by simp [bind, leaves]
  | .list xs => by simp [bind, leaves, leavesL_bindL f xs]
  | .tuple xs => by simp [bind, leaves, leavesL_bindL f xs]
  | .dict kvs => by simp [bind, leaves, leavesD_bindD f kvs]
theorem leavesL_bindL (f : α → T β) : ∀ xs : List (T α), leavesL (bindL f xs) = (leavesL xs).flatMap (fun a => leaves (f a))
  | [] => by simp [bindL, leavesL]
  | t :: ts => by simp [bindL, leavesL, leaves_bind f t, leavesL_bindL f ts]
theorem leavesD_bindD (f : α → T β) : ∀ kvs : List (Key × T α), leavesD (bindD f kvs) = (leavesD kvs).flatMap (fun a => leaves (f a))
  | [] => by simp [bindD, leavesD]
  | (k, t) :: kvs => by simp [bindD, leavesD, leaves_bind f t, leavesD_bindD f kvs]
end

/-! ### unflatten -/

mutual
theorem unflattenAux_map (g : α → β) : ∀ (t : T α) (rest : List α),
    unflattenAux (map g t) (leaves t ++ rest) = some (t, rest)
  | .leaf a, rest => by simp [map, leaves, unflattenAux]
  | .list xs, rest => by simp [map, leaves, unflattenAux, unflattenL_map g xs rest]
  | .tuple xs, rest => by simp [map, leaves, unflattenAux, unflattenL_map g xs rest]
  | .dict kvs, rest => by simp [map, leaves, unflattenAux, unflattenD_map g kvs rest]
theorem unflattenL_map (g : α → β) : ∀ (xs : List (T α)) (rest : List α),
    unflattenL (mapL g xs) (leavesL xs ++ rest) = some (xs, rest)
  | [], rest => by simp [mapL, leavesL, unflattenL]
  | t :: ts, rest => by
    simp [mapL, leavesL, unflattenL, List.append_assoc, unflattenAux_map g t (leavesL ts ++ rest),
      unflattenL_map g ts rest]
theorem unflattenD_map (g : α → β) : ∀ (kvs : List (Key × T α)) (rest : List α),
    unflattenD (mapD g kvs) (leavesD kvs ++ rest) = some (kvs, rest)
  | [], rest => by simp [mapD, leavesD, unflattenD]
  | (k, t) :: kvs, rest => by
    simp [mapD, leavesD, unflattenD, List.append_assoc, unflattenAux_map g t (leavesD kvs ++ rest),
      unflattenD_map g kvs rest]
end

/-- what `unflattenAux` returns has the shape of the spec and exactly the consumed leaves. -/
theorem unflattenAux_sound :
    (∀ (s : T β) (l : List α) (t : T α) (rest : List α), unflattenAux s l = some (t, rest) →
        struct t = struct s ∧ l = leaves t ++ rest) ∧
    (∀ (ss : List (T β)) (l : List α) (ts : List (T α)) (rest : List α), unflattenL ss l = some (ts, rest) →
        mapL (fun _ => ()) ts = mapL (fun _ => ()) ss ∧ l = leavesL ts ++ rest) ∧
    (∀ (ss : List (Key × T β)) (l : List α) (ts : List (Key × T α)) (rest : List α), unflattenD ss l = some (ts, rest) →
        mapD (fun _ => ()) ts = mapD (fun _ => ()) ss ∧ l = leavesD ts ++ rest) := by
  apply T.ind3
  · intro a l t rest h
    cases l with
    | nil => simp [unflattenAux] at h
    | cons x l' =>
      simp [unflattenAux] at h
      obtain ⟨rfl, rfl⟩ := h
      simp [struct, map, leaves]
  · intro xs ih l t rest h
    simp only [unflattenAux, Option.map_eq_some_iff] at h
    obtain ⟨⟨ts, r⟩, h1, h2⟩ := h
    simp only [Prod.mk.injEq] at h2
    obtain ⟨rfl, rfl⟩ := h2
    have := ih l ts r h1
    simp [struct, map, leaves, this.1]; exact this.2
  · intro xs ih l t rest h
    simp only [unflattenAux, Option.map_eq_some_iff] at h
    obtain ⟨⟨ts, r⟩, h1, h2⟩ := h
    simp only [Prod.mk.injEq] at h2
    obtain ⟨rfl, rfl⟩ := h2
    have := ih l ts r h1
    simp [struct, map, leaves, this.1]; exact this.2
  · intro kvs ih l t rest h
    simp only [unflattenAux, Option.map_eq_some_iff] at h
    obtain ⟨⟨ts, r⟩, h1, h2⟩ := h
    simp only [Prod.mk.injEq] at h2
    obtain ⟨rfl, rfl⟩ := h2
    have := ih l ts r h1
    simp [struct, map, leaves, this.1]; exact this.2
  · intro l ts rest h
    simp [unflattenL] at h
    obtain ⟨rfl, rfl⟩ := h
    simp [mapL, leavesL]
  · intro s ss ih1 ih2 l ts rest h
    simp only [unflattenL] at h
    split at h
    · simp at h
    · rename_i t' l' h1
      split at h
      · simp at h
      · rename_i ts' l'' h2
        simp only [Option.some.injEq, Prod.mk.injEq] at h
        obtain ⟨rfl, rfl⟩ := h
        have a1 := ih1 l t' l' h1
        have a2 := ih2 l' ts' _ h2
        simp only [struct] at a1
        simp [mapL, leavesL, a1.1, a2.1, a1.2, a2.2]
  · intro l ts rest h
    simp [unflattenD] at h
    obtain ⟨rfl, rfl⟩ := h
    simp [mapD, leavesD]
  · intro k s ss ih1 ih2 l ts rest h
    simp only [unflattenD] at h
    split at h
    · simp at h
    · rename_i t' l' h1
      split at h
      · simp at h
      · rename_i ts' l'' h2
        simp only [Option.some.injEq, Prod.mk.injEq] at h
        obtain ⟨rfl, rfl⟩ := h
        have a1 := ih1 l t' l' h1
        have a2 := ih2 l' ts' _ h2
        simp only [struct] at a1
        simp [mapD, leavesD, a1.1, a2.1, a1.2, a2.2]

end PyTree
end Pytask

namespace Pytask
namespace PyTree
variable {α β γ : Type}

/-! ### paths and positions -/

mutual
theorem length_paths : ∀ t : T α, (paths t).length = (leaves t).length
  | .leaf a => by simp [paths, leaves]
  | .list xs => by simp [paths, leaves, length_pathsL 0 xs]
  | .tuple xs => by simp [paths, leaves, length_pathsL 0 xs]
  | .dict kvs => by simp [paths, leaves, length_pathsD kvs]
theorem length_pathsL (i : Nat) : ∀ xs : List (T α), (pathsL i xs).length = (leavesL xs).length
  | [] => by simp [pathsL, leavesL]
  | t :: ts => by simp [pathsL, leavesL, length_paths t, length_pathsL (i + 1) ts]
theorem length_pathsD : ∀ kvs : List (Key × T α), (pathsD kvs).length = (leavesD kvs).length
  | [] => by simp [pathsD, leavesD]
  | (k, t) :: kvs => by simp [pathsD, leavesD, length_paths t, length_pathsD kvs]
end

theorem Key.lt_irrefl (k : Key) : k.lt k = false := by
  cases k with
  | int i => simp [Key.lt]
  | str s => simp [Key.lt, String.lt_irrefl]

theorem keysSorted_nodup : ∀ ks : List Key, keysSorted ks = true → ks.Nodup
  | [], _ => List.nodup_nil
  | a :: rest, h => by
    simp only [keysSorted, Bool.and_eq_true, List.all_eq_true] at h
    refine List.nodup_cons.2 ⟨?_, keysSorted_nodup rest h.2⟩
    intro hmem
    have := h.1 a hmem
    simp [Key.lt_irrefl] at this

theorem lookupD_mem {k : Key} {c : T α} : ∀ {kvs : List (Key × T α)}, lookupD k kvs = some c → k ∈ kvs.map (·.1)
  | [], h => by simp [lookupD] at h
  | (k', t) :: kvs, h => by
    simp only [lookupD] at h
    by_cases hk : k' = k
    · simp [hk]
    · simp only [hk, ↓reduceIte] at h
      simp [lookupD_mem h]

/-- the subtree found at a position, stated without committing to list or tuple. -/
def childAt (xs : List (T α)) (j : Nat) : Option (T α) := xs[j]?

theorem at_list (xs : List (T α)) (j : Nat) (p : Path) (c : T α) (h : xs[j]? = some c) :
    at? (.list xs) (.idx j :: p) = at? c p := by simp [at?, h]
theorem at_tuple (xs : List (T α)) (j : Nat) (p : Path) (c : T α) (h : xs[j]? = some c) :
    at? (.tuple xs) (.idx j :: p) = at? c p := by simp [at?, h]
theorem at_dict (kvs : List (Key × T α)) (k : Key) (p : Path) (c : T α) (h : lookupD k kvs = some c) :
    at? (.dict kvs) (.key k :: p) = at? c p := by simp [at?, h]
theorem at_nil (t : T α) : at? t [] = some t := by cases t <;> simp [at?]

theorem mem_zip_append {A B : Type} {l1 l2 : List A} {r1 r2 : List B} (h : l1.length = r1.length) {x : A × B} :
    x ∈ (l1 ++ l2).zip (r1 ++ r2) ↔ x ∈ l1.zip r1 ∨ x ∈ l2.zip r2 := by
  rw [List.zip_append h, List.mem_append]

theorem mem_zip_map_left {A A' B : Type} (f : A → A') {l : List A} {r : List B} {x : A' × B} :
    x ∈ (l.map f).zip r ↔ ∃ a, (a, x.2) ∈ l.zip r ∧ x.1 = f a := by
  rw [List.zip_map_left, List.mem_map]
  constructor
  · rintro ⟨⟨a, b⟩, h, rfl⟩; exact ⟨a, h, rfl⟩
  · rintro ⟨a, h, hx⟩; exact ⟨(a, x.2), h, by cases x; simp_all⟩

/-- every leaf sits at the position `paths` reports for it. -/
theorem paths_at_aux :
    (∀ t : T α, WF t = true → ∀ p a, (p, a) ∈ (paths t).zip (leaves t) → at? t p = some (.leaf a)) ∧
    (∀ xs : List (T α), WFL xs = true → ∀ i p a, (p, a) ∈ (pathsL i xs).zip (leavesL xs) →
        ∃ j p' c, p = .idx (i + j) :: p' ∧ xs[j]? = some c ∧ at? c p' = some (.leaf a)) ∧
    (∀ kvs : List (Key × T α), WFD kvs = true → (kvs.map (·.1)).Nodup → ∀ p a, (p, a) ∈ (pathsD kvs).zip (leavesD kvs) →
        ∃ k p' c, p = .key k :: p' ∧ lookupD k kvs = some c ∧ at? c p' = some (.leaf a)) := by
  apply T.ind3
  · intro a _ p b h
    simp [paths, leaves] at h
    obtain ⟨rfl, rfl⟩ := h
    simp [at?]
  · intro xs ih hwf p a h
    simp only [WF] at hwf
    simp only [paths, leaves] at h
    obtain ⟨j, p', c, rfl, hc, hat⟩ := ih hwf 0 p a h
    simp only [Nat.zero_add]
    rw [at_list xs j p' c hc]; exact hat
  · intro xs ih hwf p a h
    simp only [WF] at hwf
    simp only [paths, leaves] at h
    obtain ⟨j, p', c, rfl, hc, hat⟩ := ih hwf 0 p a h
    simp only [Nat.zero_add]
    rw [at_tuple xs j p' c hc]; exact hat
  · intro kvs ih hwf p a h
    simp only [WF, Bool.and_eq_true] at hwf
    simp only [paths, leaves] at h
    obtain ⟨k, p', c, rfl, hc, hat⟩ := ih hwf.2 (keysSorted_nodup _ hwf.1) p a h
    rw [at_dict kvs k p' c hc]; exact hat
  · intro _ i p a h
    simp [pathsL, leavesL] at h
  · intro t ts ih1 ih2 hwf i p a h
    simp only [WFL, Bool.and_eq_true] at hwf
    simp only [pathsL, leavesL] at h
    rw [mem_zip_append (by simp [length_paths])] at h
    rcases h with h | h
    · rw [mem_zip_map_left] at h
      obtain ⟨p0, h0, hp⟩ := h
      exact ⟨0, p0, t, by simpa using hp, by simp, ih1 hwf.1 p0 a h0⟩
    · obtain ⟨j, p', c, rfl, hc, hat⟩ := ih2 hwf.2 (i + 1) p a h
      exact ⟨j + 1, p', c, by simp [Nat.add_assoc, Nat.add_comm 1 j], by simpa using hc, hat⟩
  · intro _ _ p a h
    simp [pathsD, leavesD] at h
  · intro k t kvs ih1 ih2 hwf hnd p a h
    simp only [WFD, Bool.and_eq_true] at hwf
    simp only [List.map_cons, List.nodup_cons] at hnd
    simp only [pathsD, leavesD] at h
    rw [mem_zip_append (by simp [length_paths])] at h
    rcases h with h | h
    · rw [mem_zip_map_left] at h
      obtain ⟨p0, h0, hp⟩ := h
      exact ⟨k, p0, t, by simpa using hp, by simp [lookupD], ih1 hwf.1 p0 a h0⟩
    · obtain ⟨k', p', c, rfl, hc, hat⟩ := ih2 hwf.2 hnd.2 p a h
      refine ⟨k', p', c, rfl, ?_, hat⟩
      have hne : k ≠ k' := by
        intro heq; subst heq; exact hnd.1 (lookupD_mem hc)
      simp [lookupD, hne, hc]

/-! ### tree_map_with_path -/

mutual
theorem mapWithPath_const (g : α → β) : ∀ t : T α, mapWithPath (fun _ a => g a) t = map g t
  | .leaf a => by simp [mapWithPath, map]
  | .list xs => by simp [mapWithPath, map, mapWithPathL_const g 0 xs]
  | .tuple xs => by simp [mapWithPath, map, mapWithPathL_const g 0 xs]
  | .dict kvs => by simp [mapWithPath, map, mapWithPathD_const g kvs]
theorem mapWithPathL_const (g : α → β) (i : Nat) : ∀ xs : List (T α), mapWithPathL (fun _ a => g a) i xs = mapL g xs
  | [] => by simp [mapWithPathL, mapL]
  | t :: ts => by simp [mapWithPathL, mapL, mapWithPath_const g t, mapWithPathL_const g (i + 1) ts]
theorem mapWithPathD_const (g : α → β) : ∀ kvs : List (Key × T α), mapWithPathD (fun _ a => g a) kvs = mapD g kvs
  | [] => by simp [mapWithPathD, mapD]
  | (k, t) :: kvs => by simp [mapWithPathD, mapD, mapWithPath_const g t, mapWithPathD_const g kvs]
end

mutual
theorem leaves_mapWithPath : ∀ (t : T α) (f : Path → α → β),
    leaves (mapWithPath f t) = List.zipWith f (paths t) (leaves t)
  | .leaf a, f => by simp [mapWithPath, leaves, paths]
  | .list xs, f => by simp [mapWithPath, leaves, paths, leavesL_mapWithPathL xs f 0]
  | .tuple xs, f => by simp [mapWithPath, leaves, paths, leavesL_mapWithPathL xs f 0]
  | .dict kvs, f => by simp [mapWithPath, leaves, paths, leavesD_mapWithPathD kvs f]
theorem leavesL_mapWithPathL : ∀ (xs : List (T α)) (f : Path → α → β) (i : Nat),
    leavesL (mapWithPathL f i xs) = List.zipWith f (pathsL i xs) (leavesL xs)
  | [], f, i => by simp [mapWithPathL, leavesL, pathsL]
  | t :: ts, f, i => by
    simp only [mapWithPathL, leavesL, pathsL]
    rw [List.zipWith_append (by simp [length_paths]), leaves_mapWithPath t, leavesL_mapWithPathL ts f (i + 1),
      List.zipWith_map_left]
theorem leavesD_mapWithPathD : ∀ (kvs : List (Key × T α)) (f : Path → α → β),
    leavesD (mapWithPathD f kvs) = List.zipWith f (pathsD kvs) (leavesD kvs)
  | [], f => by simp [mapWithPathD, leavesD, pathsD]
  | (k, t) :: kvs, f => by
    simp only [mapWithPathD, leavesD, pathsD]
    rw [List.zipWith_append (by simp [length_paths]), leaves_mapWithPath t, leavesD_mapWithPathD kvs f,
      List.zipWith_map_left]
end

mutual
theorem struct_mapWithPath : ∀ (t : T α) (f : Path → α → β), struct (mapWithPath f t) = struct t
  | .leaf a, f => by simp [mapWithPath, struct, map]
  | .list xs, f => by
    have := structL_mapWithPathL xs f 0
    simp [mapWithPath, struct, map, this]
  | .tuple xs, f => by
    have := structL_mapWithPathL xs f 0
    simp [mapWithPath, struct, map, this]
  | .dict kvs, f => by
    have := structD_mapWithPathD kvs f
    simp [mapWithPath, struct, map, this]
theorem structL_mapWithPathL : ∀ (xs : List (T α)) (f : Path → α → β) (i : Nat),
    mapL (fun _ => ()) (mapWithPathL f i xs) = mapL (fun _ => ()) xs
  | [], f, i => by simp [mapWithPathL, mapL]
  | t :: ts, f, i => by
    have h1 := struct_mapWithPath t (fun p => f (Step.idx i :: p))
    have h2 := structL_mapWithPathL ts f (i + 1)
    simp only [struct] at h1
    simp [mapWithPathL, mapL, h1, h2]
theorem structD_mapWithPathD : ∀ (kvs : List (Key × T α)) (f : Path → α → β),
    mapD (fun _ => ()) (mapWithPathD f kvs) = mapD (fun _ => ()) kvs
  | [], f => by simp [mapWithPathD, mapD]
  | (k, t) :: kvs, f => by
    have h1 := struct_mapWithPath t (fun p => f (Step.key k :: p))
    have h2 := structD_mapWithPathD kvs f
    simp only [struct] at h1
    simp [mapWithPathD, mapD, h1, h2]
end

end PyTree
end Pytask

namespace Pytask
namespace PyTree
variable {α β γ δ : Type}

/-! ### is_prefix and flatten_up_to -/

mutual
theorem flattenUpTo_isSome : ∀ (s : T α) (o : T β), (flattenUpTo s o).isSome = isPrefixNS s o
  | .leaf a, o => by simp [flattenUpTo, isPrefixNS]
  | .list ss, o => by
    cases o <;> simp [flattenUpTo, isPrefixNS, flattenUpToL_isSome ss]
  | .tuple ss, o => by
    cases o <;> simp [flattenUpTo, isPrefixNS, flattenUpToL_isSome ss]
  | .dict ss, o => by
    cases o <;> simp [flattenUpTo, isPrefixNS, flattenUpToD_isSome ss]
theorem flattenUpToL_isSome : ∀ (ss : List (T α)) (os : List (T β)), (flattenUpToL ss os).isSome = isPrefixL ss os
  | [], os => by cases os <;> simp [flattenUpToL, isPrefixL]
  | s :: ss, os => by
    cases os with
    | nil => simp [flattenUpToL, isPrefixL]
    | cons o os =>
      simp only [flattenUpToL, isPrefixL]
      rw [← flattenUpTo_isSome s o, ← flattenUpToL_isSome ss os]
      cases flattenUpTo s o <;> cases flattenUpToL ss os <;> simp
theorem flattenUpToD_isSome : ∀ (ss : List (Key × T α)) (os : List (Key × T β)), (flattenUpToD ss os).isSome = isPrefixD ss os
  | [], os => by cases os <;> simp [flattenUpToD, isPrefixD]
  | (k, s) :: ss, os => by
    cases os with
    | nil => simp [flattenUpToD, isPrefixD]
    | cons ko os =>
      obtain ⟨k', o⟩ := ko
      simp only [flattenUpToD, isPrefixD]
      rw [← flattenUpTo_isSome s o, ← flattenUpToD_isSome ss os]
      by_cases hk : k = k'
      · cases flattenUpTo s o <;> cases flattenUpToD ss os <;> simp [hk]
      · simp [hk]
end

mutual
theorem flattenUpTo_map (f : α → γ) : ∀ (s : T α) (o : T β), flattenUpTo (map f s) o = flattenUpTo s o
  | .leaf a, o => by simp [map, flattenUpTo]
  | .list ss, o => by cases o <;> simp [map, flattenUpTo, flattenUpToL_map f ss]
  | .tuple ss, o => by cases o <;> simp [map, flattenUpTo, flattenUpToL_map f ss]
  | .dict ss, o => by cases o <;> simp [map, flattenUpTo, flattenUpToD_map f ss]
theorem flattenUpToL_map (f : α → γ) : ∀ (ss : List (T α)) (os : List (T β)), flattenUpToL (mapL f ss) os = flattenUpToL ss os
  | [], os => by cases os <;> simp [mapL, flattenUpToL]
  | s :: ss, os => by
    cases os with
    | nil => simp [mapL, flattenUpToL]
    | cons o os => simp [mapL, flattenUpToL, flattenUpTo_map f s o, flattenUpToL_map f ss os]
theorem flattenUpToD_map (f : α → γ) : ∀ (ss : List (Key × T α)) (os : List (Key × T β)), flattenUpToD (mapD f ss) os = flattenUpToD ss os
  | [], os => by cases os <;> simp [mapD, flattenUpToD]
  | (k, s) :: ss, os => by
    cases os with
    | nil => simp [mapD, flattenUpToD]
    | cons ko os =>
      obtain ⟨k', o⟩ := ko
      simp [mapD, flattenUpToD, flattenUpTo_map f s o, flattenUpToD_map f ss os]
end

mutual
theorem isPrefixNS_map (f : α → γ) (g : β → δ) : ∀ (s : T α) (o : T β), isPrefixNS (map f s) (map g o) = isPrefixNS s o
  | .leaf a, o => by simp [map, isPrefixNS]
  | .list ss, o => by cases o <;> simp [map, isPrefixNS, isPrefixL_map f g ss]
  | .tuple ss, o => by cases o <;> simp [map, isPrefixNS, isPrefixL_map f g ss]
  | .dict ss, o => by cases o <;> simp [map, isPrefixNS, isPrefixD_map f g ss]
theorem isPrefixL_map (f : α → γ) (g : β → δ) : ∀ (ss : List (T α)) (os : List (T β)), isPrefixL (mapL f ss) (mapL g os) = isPrefixL ss os
  | [], os => by cases os <;> simp [mapL, isPrefixL]
  | s :: ss, os => by
    cases os with
    | nil => simp [mapL, isPrefixL]
    | cons o os => simp [mapL, isPrefixL, isPrefixNS_map f g s o, isPrefixL_map f g ss os]
theorem isPrefixD_map (f : α → γ) (g : β → δ) : ∀ (ss : List (Key × T α)) (os : List (Key × T β)), isPrefixD (mapD f ss) (mapD g os) = isPrefixD ss os
  | [], os => by cases os <;> simp [mapD, isPrefixD]
  | (k, s) :: ss, os => by
    cases os with
    | nil => simp [mapD, isPrefixD]
    | cons ko os =>
      obtain ⟨k', o⟩ := ko
      simp [mapD, isPrefixD, isPrefixNS_map f g s o, isPrefixD_map f g ss os]
end

/-- the pieces cut out by `flatten_up_to` partition the leaves of the value, in order. -/
theorem flattenUpTo_leaves :
    (∀ (s : T α) (o : T β) (vs : List (T β)), flattenUpTo s o = some vs → vs.flatMap leaves = leaves o) ∧
    (∀ (ss : List (T α)) (os : List (T β)) (vs : List (T β)), flattenUpToL ss os = some vs → vs.flatMap leaves = leavesL os) ∧
    (∀ (ss : List (Key × T α)) (os : List (Key × T β)) (vs : List (T β)), flattenUpToD ss os = some vs → vs.flatMap leaves = leavesD os) := by
  apply T.ind3
  · intro a o vs h
    simp [flattenUpTo] at h; subst h; simp
  · intro ss ih o vs h
    cases o <;> simp [flattenUpTo] at h
    simpa [leaves] using ih _ vs h
  · intro ss ih o vs h
    cases o <;> simp [flattenUpTo] at h
    simpa [leaves] using ih _ vs h
  · intro ss ih o vs h
    cases o <;> simp [flattenUpTo] at h
    simpa [leaves] using ih _ vs h
  · intro os vs h
    cases os <;> simp [flattenUpToL] at h
    subst h; simp [leavesL]
  · intro s ss ih1 ih2 os vs h
    cases os with
    | nil => simp [flattenUpToL] at h
    | cons o os =>
      simp only [flattenUpToL] at h
      split at h
      · simp at h
      · rename_i v1 h1
        split at h
        · simp at h
        · rename_i v2 h2
          simp only [Option.some.injEq] at h; subst h
          simp [leavesL, ih1 o v1 h1, ih2 os v2 h2]
  · intro os vs h
    cases os <;> simp [flattenUpToD] at h
    subst h; simp [leavesD]
  · intro k s ss ih1 ih2 os vs h
    cases os with
    | nil => simp [flattenUpToD] at h
    | cons ko os =>
      obtain ⟨k', o⟩ := ko
      simp only [flattenUpToD] at h
      split at h
      · split at h
        · simp at h
        · rename_i v1 h1
          split at h
          · simp at h
          · rename_i v2 h2
            simp only [Option.some.injEq] at h; subst h
            simp [leavesD, ih1 o v1 h1, ih2 os v2 h2]
      · simp at h

theorem flattenUpToD_keys : ∀ (ss : List (Key × T α)) (os : List (Key × T β)) (vs : List (T β)),
    flattenUpToD ss os = some vs → os.map (·.1) = ss.map (·.1)
  | [], os, vs, h => by cases os <;> simp [flattenUpToD] at h ⊢
  | (k, s) :: ss, os, vs, h => by
    cases os with
    | nil => simp [flattenUpToD] at h
    | cons ko os =>
      obtain ⟨k', o⟩ := ko
      simp only [flattenUpToD] at h
      split at h
      · rename_i hk
        split at h
        · simp at h
        · split at h
          · simp at h
          · rename_i v2 h2
            simp [hk, flattenUpToD_keys ss os v2 h2]
      · simp at h

/-- value `i` of `flatten_up_to` is the subtree of the returned value at the position of leaf `i`
of the declaration. -/
theorem flattenUpTo_at_aux :
    (∀ (s : T α), WF s = true → ∀ (o : T β) (vs : List (T β)), flattenUpTo s o = some vs →
        vs.length = (paths s).length ∧ ∀ p v, (p, v) ∈ (paths s).zip vs → at? o p = some v) ∧
    (∀ (ss : List (T α)), WFL ss = true → ∀ (os : List (T β)) (vs : List (T β)), flattenUpToL ss os = some vs →
        ∀ i, vs.length = (pathsL i ss).length ∧ ∀ p v, (p, v) ∈ (pathsL i ss).zip vs →
          ∃ j p' c, p = .idx (i + j) :: p' ∧ os[j]? = some c ∧ at? c p' = some v) ∧
    (∀ (ss : List (Key × T α)), WFD ss = true → (ss.map (·.1)).Nodup → ∀ (os : List (Key × T β)) (vs : List (T β)),
        flattenUpToD ss os = some vs →
        vs.length = (pathsD ss).length ∧ ∀ p v, (p, v) ∈ (pathsD ss).zip vs →
          ∃ k p' c, p = .key k :: p' ∧ lookupD k os = some c ∧ at? c p' = some v) := by
  apply T.ind3
  · intro a _ o vs h
    simp [flattenUpTo] at h; subst h
    simp [paths, at_nil]
  · intro ss ih hwf o vs h
    simp only [WF] at hwf
    cases o <;> simp [flattenUpTo] at h
    rename_i os
    obtain ⟨hl, hp⟩ := ih hwf os vs h 0
    refine ⟨by simpa [paths] using hl, ?_⟩
    intro p v hpv
    obtain ⟨j, p', c, rfl, hc, hat⟩ := hp p v (by simpa [paths] using hpv)
    simp only [Nat.zero_add]
    rw [at_list os j p' c hc]; exact hat
  · intro ss ih hwf o vs h
    simp only [WF] at hwf
    cases o <;> simp [flattenUpTo] at h
    rename_i os
    obtain ⟨hl, hp⟩ := ih hwf os vs h 0
    refine ⟨by simpa [paths] using hl, ?_⟩
    intro p v hpv
    obtain ⟨j, p', c, rfl, hc, hat⟩ := hp p v (by simpa [paths] using hpv)
    simp only [Nat.zero_add]
    rw [at_tuple os j p' c hc]; exact hat
  · intro ss ih hwf o vs h
    simp only [WF, Bool.and_eq_true] at hwf
    cases o <;> simp [flattenUpTo] at h
    rename_i os
    obtain ⟨hl, hp⟩ := ih hwf.2 (keysSorted_nodup _ hwf.1) os vs h
    refine ⟨by simpa [paths] using hl, ?_⟩
    intro p v hpv
    obtain ⟨k, p', c, rfl, hc, hat⟩ := hp p v (by simpa [paths] using hpv)
    rw [at_dict os k p' c hc]; exact hat
  · intro _ os vs h i
    cases os <;> simp [flattenUpToL] at h
    subst h; simp [pathsL]
  · intro s ss ih1 ih2 hwf os vs h i
    simp only [WFL, Bool.and_eq_true] at hwf
    cases os with
    | nil => simp [flattenUpToL] at h
    | cons o os =>
      simp only [flattenUpToL] at h
      split at h
      · simp at h
      · rename_i v1 h1
        split at h
        · simp at h
        · rename_i v2 h2
          simp only [Option.some.injEq] at h; subst h
          obtain ⟨l1, q1⟩ := ih1 hwf.1 o v1 h1
          obtain ⟨l2, q2⟩ := ih2 hwf.2 os v2 h2 (i + 1)
          refine ⟨by simp [pathsL, l1, l2], ?_⟩
          intro p v hpv
          simp only [pathsL] at hpv
          rw [mem_zip_append (by simp [l1])] at hpv
          rcases hpv with hpv | hpv
          · rw [mem_zip_map_left] at hpv
            obtain ⟨p0, h0, hp⟩ := hpv
            exact ⟨0, p0, o, by simpa using hp, by simp, q1 p0 v h0⟩
          · obtain ⟨j, p', c, rfl, hc, hat⟩ := q2 p v hpv
            exact ⟨j + 1, p', c, by simp [Nat.add_assoc, Nat.add_comm 1 j], by simpa using hc, hat⟩
  · intro _ _ os vs h
    cases os <;> simp [flattenUpToD] at h
    subst h; simp [pathsD]
  · intro k s ss ih1 ih2 hwf hnd os vs h
    simp only [WFD, Bool.and_eq_true] at hwf
    simp only [List.map_cons, List.nodup_cons] at hnd
    cases os with
    | nil => simp [flattenUpToD] at h
    | cons ko os =>
      obtain ⟨k', o⟩ := ko
      simp only [flattenUpToD] at h
      split at h
      · rename_i hk
        subst hk
        split at h
        · simp at h
        · rename_i v1 h1
          split at h
          · simp at h
          · rename_i v2 h2
            simp only [Option.some.injEq] at h; subst h
            obtain ⟨l1, q1⟩ := ih1 hwf.1 o v1 h1
            obtain ⟨l2, q2⟩ := ih2 hwf.2 hnd.2 os v2 h2
            have hkeys := flattenUpToD_keys ss os v2 h2
            refine ⟨by simp [pathsD, l1, l2], ?_⟩
            intro p v hpv
            simp only [pathsD] at hpv
            rw [mem_zip_append (by simp [l1])] at hpv
            rcases hpv with hpv | hpv
            · rw [mem_zip_map_left] at hpv
              obtain ⟨p0, h0, hp⟩ := hpv
              exact ⟨k, p0, o, by simpa using hp, by simp [lookupD], q1 p0 v h0⟩
            · obtain ⟨k'', p', c, rfl, hc, hat⟩ := q2 p v hpv
              refine ⟨k'', p', c, rfl, ?_, hat⟩
              have hne : k ≠ k'' := by
                intro heq; subst heq
                have := lookupD_mem hc
                rw [hkeys] at this
                exact hnd.1 this
              simp [lookupD, hne, hc]
      · simp at h

mutual
theorem sameShape_isPrefixNS : ∀ (s : T α) (o : T β), sameShape s o = true → isPrefixNS s o = true
  | .leaf a, o, _ => by simp [isPrefixNS]
  | .list ss, o, h => by
    cases o <;> simp [sameShape] at h
    simp [isPrefixNS, sameShapeL_isPrefixL ss _ h]
  | .tuple ss, o, h => by
    cases o <;> simp [sameShape] at h
    simp [isPrefixNS, sameShapeL_isPrefixL ss _ h]
  | .dict ss, o, h => by
    cases o <;> simp [sameShape] at h
    simp [isPrefixNS, sameShapeD_isPrefixD ss _ h]
theorem sameShapeL_isPrefixL : ∀ (ss : List (T α)) (os : List (T β)), sameShapeL ss os = true → isPrefixL ss os = true
  | [], os, h => by cases os <;> simp [sameShapeL] at h ⊢; simp [isPrefixL]
  | s :: ss, os, h => by
    cases os with
    | nil => simp [sameShapeL] at h
    | cons o os =>
      simp only [sameShapeL, Bool.and_eq_true] at h
      simp [isPrefixL, sameShape_isPrefixNS s o h.1, sameShapeL_isPrefixL ss os h.2]
theorem sameShapeD_isPrefixD : ∀ (ss : List (Key × T α)) (os : List (Key × T β)), sameShapeD ss os = true → isPrefixD ss os = true
  | [], os, h => by cases os <;> simp [sameShapeD] at h ⊢; simp [isPrefixD]
  | (k, s) :: ss, os, h => by
    cases os with
    | nil => simp [sameShapeD] at h
    | cons ko os =>
      obtain ⟨k', o⟩ := ko
      simp only [sameShapeD, Bool.and_eq_true, decide_eq_true_eq] at h
      simp [isPrefixD, h.1.1, sameShape_isPrefixNS s o h.1.2, sameShapeD_isPrefixD ss os h.2]
end

end PyTree
end Pytask
