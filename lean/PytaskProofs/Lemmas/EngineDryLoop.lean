import PytaskProofs.Lemmas.EngineDryRel
/-! Dry-run lemmas, part 5: the build loop — decomposition at a pick, summary, completeness of a finished dry run. -/
namespace Pytask
namespace EngineDry
open Engine G Sorter

theorem buildLoop_cons {F : BodyFn} {P : Project} {g : G} {cfg : Cfg} {so : Sorter} {s : Sess} {t : Nat} {ts : List Nat}
    {so' : Sorter} {s' : Sess} (h : buildLoop F P g cfg so s (t :: ts) = .ok (so', s')) :
    (s.stop || s.crashed || !so.isActive) = false ∧ Sorter.legalBatchB so 1 [tv t] = true ∧
    ∃ spec, Project.find? P t = some spec ∧
      buildLoop F P g cfg ((so.take [tv t]).finish [tv t]) (protocol F P g cfg s spec) ts = .ok (so', s') := by
  unfold buildLoop at h
  split at h
  · cases h
  rename_i h1
  split at h
  · cases h
  rename_i h2
  split at h
  · cases h
  rename_i spec hfind
  exact ⟨by simpa using h1, by simpa using h2, spec, hfind, h⟩

theorem buildLoop_cons_intro {F : BodyFn} {P : Project} {g : G} {cfg : Cfg} {so : Sorter} {s : Sess} {t : Nat} {ts : List Nat}
    {spec : TaskSpec} {res : Except Illegal (Sorter × Sess)}
    (h1 : (s.stop || s.crashed || !so.isActive) = false) (h2 : Sorter.legalBatchB so 1 [tv t] = true)
    (hfind : Project.find? P t = some spec)
    (h : buildLoop F P g cfg ((so.take [tv t]).finish [tv t]) (protocol F P g cfg s spec) ts = res) :
    buildLoop F P g cfg so s (t :: ts) = res := by
  rw [buildLoop]
  simp only [h1, h2, hfind, Bool.false_eq_true, if_false, Bool.not_true]
  exact h

theorem buildLoop_append {F : BodyFn} {P : Project} {g : G} {cfg : Cfg} :
    ∀ (p1 p2 : List Nat) (so : Sorter) (s : Sess) (so' : Sorter) (s' : Sess),
      buildLoop F P g cfg so s (p1 ++ p2) = .ok (so', s') →
      ∃ so1 s1, buildLoop F P g cfg so s p1 = .ok (so1, s1) ∧ buildLoop F P g cfg so1 s1 p2 = .ok (so', s')
  | [], p2, so, s, so', s', h => ⟨so, s, by simp [buildLoop], by simpa using h⟩
  | t :: ts, p2, so, s, so', s', h => by
    obtain ⟨h1, h2, spec, hfind, h3⟩ := buildLoop_cons (by simpa using h)
    obtain ⟨so1, s1, h4, h5⟩ := buildLoop_append ts p2 _ _ so' s' h3
    exact ⟨so1, s1, buildLoop_cons_intro h1 h2 hfind h4, h5⟩

theorem buildLoop_rel {F : BodyFn} {P : Project} {g : G} {cfg : Cfg} :
    ∀ (picks : List Nat) (so : Sorter) (s : Sess) (so' : Sorter) (s' : Sess),
      buildLoop F P g cfg so s picks = .ok (so', s') → ∃ ex l, Rel P g s s' picks ex l
  | [], so, s, so', s', h => by
    simp only [buildLoop, Except.ok.injEq, Prod.mk.injEq] at h
    obtain ⟨_, rfl⟩ := h
    exact ⟨[], [], Rel.refl P g s⟩
  | t :: ts, so, s, so', s', h => by
    obtain ⟨_, _, spec, hfind, h3⟩ := buildLoop_cons h
    obtain ⟨ex1, l1, r1, _⟩ := protocol_rel F P g cfg s spec t hfind
    obtain ⟨ex2, l2, r2⟩ := buildLoop_rel ts _ _ so' s' h3
    exact ⟨ex1 ++ ex2, l1 ++ l2, by simpa using Rel.trans r1 r2⟩

/-- a task vertex that was not picked is still in the sorter -/
theorem buildLoop_nodes {F : BodyFn} {P : Project} {g : G} {cfg : Cfg} :
    ∀ (picks : List Nat) (so : Sorter) (s : Sess) (so' : Sorter) (s' : Sess),
      buildLoop F P g cfg so s picks = .ok (so', s') → ∀ v, v ∈ so.nodes → v ∉ picks.map tv → v ∈ so'.nodes
  | [], so, s, so', s', h, v, hv, _ => by
    simp only [buildLoop, Except.ok.injEq, Prod.mk.injEq] at h
    obtain ⟨rfl, _⟩ := h
    exact hv
  | t :: ts, so, s, so', s', h, v, hv, hn => by
    obtain ⟨_, _, spec, _, h3⟩ := buildLoop_cons h
    simp only [List.map_cons, List.mem_cons, not_or] at hn
    refine buildLoop_nodes ts _ _ so' s' h3 v ?_ hn.2
    rw [mem_finish_nodes]
    exact ⟨hv, by simpa using hn.1⟩

theorem protocol_dry_flags (F : BodyFn) (P : Project) (g : G) (cfg : Cfg) (s : Sess) (t : TaskSpec)
    (hd : cfg.dry = true) (hm : cfg.maxFail = none) (hs : s.stop = false) (hc : s.crashed = false) :
    (protocol F P g cfg s t).stop = false ∧ (protocol F P g cfg s t).crashed = false := by
  have hprot : protocol F P g cfg s t =
      processReport P g cfg (runPhases F P g cfg s t).2 t (runPhases F P g cfg s t).1 := rfl
  rw [hprot, runPhases_dry F P g cfg s t hd]
  unfold processReport
  cases (runPhases F P g cfg s t).1 <;> simp [recordStates_dry P g cfg s.w t.id hd, hm, hs, hc]

theorem buildLoop_dry_flags {F : BodyFn} {P : Project} {g : G} {cfg : Cfg} (hd : cfg.dry = true) (hm : cfg.maxFail = none) :
    ∀ (picks : List Nat) (so : Sorter) (s : Sess) (so' : Sorter) (s' : Sess),
      buildLoop F P g cfg so s picks = .ok (so', s') → s.stop = false → s.crashed = false →
      s'.stop = false ∧ s'.crashed = false
  | [], so, s, so', s', h, hs, hc => by
    simp only [buildLoop, Except.ok.injEq, Prod.mk.injEq] at h
    obtain ⟨_, rfl⟩ := h
    exact ⟨hs, hc⟩
  | t :: ts, so, s, so', s', h, hs, hc => by
    obtain ⟨_, _, spec, _, h3⟩ := buildLoop_cons h
    obtain ⟨a, b⟩ := protocol_dry_flags F P g cfg s spec hd hm hs hc
    exact buildLoop_dry_flags hd hm ts _ _ so' s' h3 a b

/-- In a dry run only a FAIL report can trip the failure limit (`session.should_stop`): whatever `max_failures` is. -/
theorem protocol_dry_stop (F : BodyFn) (P : Project) (g : G) (cfg : Cfg) (s : Sess) (t : TaskSpec)
    (hd : cfg.dry = true) (hs : s.stop = false) (hc : s.crashed = false) :
    (protocol F P g cfg s t).crashed = false ∧
    ((protocol F P g cfg s t).stop = true → (t.id, Outcome.fail) ∈ (protocol F P g cfg s t).reports) := by
  have hprot : protocol F P g cfg s t =
      processReport P g cfg (runPhases F P g cfg s t).2 t (runPhases F P g cfg s t).1 := rfl
  rw [hprot, runPhases_dry F P g cfg s t hd]
  unfold processReport
  cases (runPhases F P g cfg s t).1 <;> simp [recordStates_dry P g cfg s.w t.id hd, hs, hc]

theorem buildLoop_dry_stop {F : BodyFn} {P : Project} {g : G} {cfg : Cfg} (hd : cfg.dry = true) :
    ∀ (picks : List Nat) (so : Sorter) (s : Sess) (so' : Sorter) (s' : Sess),
      buildLoop F P g cfg so s picks = .ok (so', s') → s.stop = false → s.crashed = false →
      s'.crashed = false ∧ (s'.stop = true → ∃ t, (t, Outcome.fail) ∈ s'.reports)
  | [], so, s, so', s', h, hs, hc => by
    simp only [buildLoop, Except.ok.injEq, Prod.mk.injEq] at h
    obtain ⟨_, rfl⟩ := h
    exact ⟨hc, fun h => by rw [hs] at h; cases h⟩
  | t :: ts, so, s, so', s', h, hs, hc => by
    obtain ⟨_, _, spec, _, h3⟩ := buildLoop_cons h
    obtain ⟨a, b⟩ := protocol_dry_stop F P g cfg s spec hd hs hc
    by_cases hst : (protocol F P g cfg s spec).stop = true
    · -- the loop ends here
      cases ts with
      | nil =>
        simp only [buildLoop, Except.ok.injEq, Prod.mk.injEq] at h3
        obtain ⟨_, rfl⟩ := h3
        exact ⟨a, fun _ => ⟨spec.id, b hst⟩⟩
      | cons u us =>
        have := (buildLoop_cons h3).1
        rw [hst] at this
        simp at this
    · have hst' : (protocol F P g cfg s spec).stop = false := by simpa using hst
      exact buildLoop_dry_stop hd ts _ _ so' s' h3 hst' a

/-- a real build never attaches `would_be_executed` marks -/
theorem protocol_real_wbe (F : BodyFn) (P : Project) (g : G) (cfg : Cfg) (s : Sess) (spec : TaskSpec) (t : Nat)
    (hfind : Project.find? P t = some spec) (hd : cfg.dry = false) (hw : s.wbeMarks = []) :
    (protocol F P g cfg s spec).wbeMarks = [] := by
  obtain ⟨ex, l, rel, d1, _, d3⟩ := protocol_rel F P g cfg s spec t hfind
  rw [rel.wbeM, hw]
  simp only [List.nil_append]
  by_cases hne : setupChain P g cfg s spec Generated.setupOrder = .none
  · rcases (d3 hne hd).2 with h | h | h <;> rw [h] <;> simp [marksOf]
  · rw [(d1 hne).1]
    have : repOf (setupChain P g cfg s spec Generated.setupOrder) ≠ .wouldBeExecuted := by
      rcases setupChain_cases P g cfg s spec with ⟨_, h⟩ | ⟨_, _, h⟩ | ⟨_, _, h⟩
      · rw [h]; rcases skipRes_range s spec with h' | h' | h' <;> rw [h'] <;> simp [repOf]
      · rw [h]; simp [repOf]
      · rw [h]
        unfold execRes
        rw [hw]
        simp only [List.contains_nil, Bool.false_eq_true, if_false]
        split <;> simp [repOf]
    simp [marksOf, this]

theorem buildLoop_real_wbe {F : BodyFn} {P : Project} {g : G} {cfg : Cfg} (hd : cfg.dry = false) :
    ∀ (picks : List Nat) (so : Sorter) (s : Sess) (so' : Sorter) (s' : Sess),
      buildLoop F P g cfg so s picks = .ok (so', s') → s.wbeMarks = [] → s'.wbeMarks = []
  | [], so, s, so', s', h, hw => by
    simp only [buildLoop, Except.ok.injEq, Prod.mk.injEq] at h
    obtain ⟨_, rfl⟩ := h
    exact hw
  | t :: ts, so, s, so', s', h, hw => by
    obtain ⟨_, _, spec, hfind, h3⟩ := buildLoop_cons h
    exact buildLoop_real_wbe hd ts _ _ so' s' h3 (protocol_real_wbe F P g cfg s spec t hfind hd hw)

/-- Everything known about a build at the moment task `t` is picked. -/
theorem at_pick {F : BodyFn} {P : Project} {g : G} {cfg : Cfg} {so : Sorter} {s : Sess} {picks : List Nat}
    {so' : Sorter} {s' : Sess} (h : buildLoop F P g cfg so s picks = .ok (so', s'))
    (pre : List Nat) (t : Nat) (post : List Nat) (hp : picks = pre ++ t :: post) :
    ∃ so1 s1 spec ex1 l1 ext lt ex2 l2,
      buildLoop F P g cfg so s pre = .ok (so1, s1) ∧ Project.find? P t = some spec ∧
      Rel P g s s1 pre ex1 l1 ∧ Rel P g s1 (protocol F P g cfg s1 spec) [t] ext lt ∧
      Rel P g (protocol F P g cfg s1 spec) s' post ex2 l2 ∧
      (setupChain P g cfg s1 spec Generated.setupOrder ≠ .none →
        ext = [(t, repOf (setupChain P g cfg s1 spec Generated.setupOrder))] ∧ lt = []) ∧
      (setupChain P g cfg s1 spec Generated.setupOrder = .none → cfg.dry = true → ext = [(t, .wouldBeExecuted)] ∧ lt = []) ∧
      (setupChain P g cfg s1 spec Generated.setupOrder = .none → cfg.dry = false →
        (lt = [] ∨ lt = [t]) ∧ (ext = [] ∨ ext = [(t, .fail)] ∨ ext = [(t, .success)])) := by
  subst hp
  obtain ⟨so1, s1, h1, h2⟩ := buildLoop_append pre (t :: post) so s so' s' h
  obtain ⟨_, _, spec, hfind, h3⟩ := buildLoop_cons h2
  obtain ⟨ex1, l1, r1⟩ := buildLoop_rel pre so s so1 s1 h1
  obtain ⟨ext, lt, rt, d1, d2, d3⟩ := protocol_rel F P g cfg s1 spec t hfind
  obtain ⟨ex2, l2, r2⟩ := buildLoop_rel post _ _ so' s' h3
  exact ⟨so1, s1, spec, ex1, l1, ext, lt, ex2, l2, h1, hfind, r1, rt, r2, d1, d2, d3⟩

end EngineDry
end Pytask
