import PytaskProofs.Lemmas.EngineSkip
/-!
Completeness lemmas for the build loop of M6: every collected task is a vertex of the build's graph,
tasks leave the scheduler only by being picked (so a scheduler that ran dry has handed out every
task), and the loop is stopped early only after a reported failure.
-/
namespace Pytask
namespace Engine
open Sorter

theorem mem_addNode_self (g : G) (v : Nat) : v ∈ (g.addNode v).nodes := by
  unfold G.addNode
  split
  · rename_i h; simpa using h
  · simp

theorem mem_addNode_mono {g : G} {v : Nat} (u : Nat) (h : v ∈ g.nodes) : v ∈ (g.addNode u).nodes := by
  unfold G.addNode
  split
  · exact h
  · simp [h]

theorem mem_addEdge_mono {g : G} {v : Nat} (a b : Nat) (h : v ∈ g.nodes) : v ∈ (g.addEdge a b).nodes := by
  unfold G.addEdge
  simp only []
  split <;> exact mem_addNode_mono _ (mem_addNode_mono _ h)

theorem foldl_nodes_mono {α} (f : G → α → G) (hf : ∀ g x v, v ∈ g.nodes → v ∈ (f g x).nodes) :
    ∀ (l : List α) (g : G) (v : Nat), v ∈ g.nodes → v ∈ (l.foldl f g).nodes
  | [], _, _, h => h
  | x :: xs, g, v, h => foldl_nodes_mono f hf xs (f g x) v (hf g x v h)

def baseStep (g : G) (t : TaskSpec) : G :=
  let g := g.addNode (tv t.id)
  let g := t.deps.foldl (fun g d => g.addEdge (nv d) (tv t.id)) g
  t.prods.foldl (fun g p => g.addEdge (tv t.id) (nv p)) g

theorem baseGraph_eq (P : Project) : baseGraph P = P.tasks.foldl baseStep G.empty := rfl

theorem baseStep_mono (g : G) (t : TaskSpec) (v : Nat) (h : v ∈ g.nodes) : v ∈ (baseStep g t).nodes := by
  unfold baseStep
  simp only []
  apply foldl_nodes_mono _ (fun g p v h => mem_addEdge_mono _ _ h)
  apply foldl_nodes_mono _ (fun g p v h => mem_addEdge_mono _ _ h)
  exact mem_addNode_mono _ h

theorem baseStep_self (g : G) (t : TaskSpec) : tv t.id ∈ (baseStep g t).nodes := by
  unfold baseStep
  simp only []
  apply foldl_nodes_mono _ (fun g p v h => mem_addEdge_mono _ _ h)
  apply foldl_nodes_mono _ (fun g p v h => mem_addEdge_mono _ _ h)
  exact mem_addNode_self _ _

/-- Every collected task is a vertex of the build's graph. -/
theorem baseGraph_task_node {P : Project} {t : TaskSpec} (h : t ∈ P.tasks) : tv t.id ∈ (baseGraph P).nodes := by
  rw [baseGraph_eq]
  obtain ⟨l1, l2, e⟩ := List.append_of_mem h
  rw [e, List.foldl_append, List.foldl_cons]
  exact foldl_nodes_mono _ baseStep_mono l2 _ _ (baseStep_self _ _)

theorem modifyDag_nodes_mono (P : Project) (g : G) (v : Nat) (h : v ∈ g.nodes) : v ∈ (modifyDag P g).nodes := by
  unfold modifyDag
  apply foldl_nodes_mono _ _ _ _ _ h
  intro g t v h
  apply foldl_nodes_mono _ _ _ _ _ h
  intro g o v h
  split
  · exact h
  · exact foldl_nodes_mono _ (fun g s v h => mem_addEdge_mono _ _ h) _ _ _ h

/-- Tasks leave the scheduler only by being picked. -/
theorem buildLoop_nodes (F : BodyFn) (P : Project) (g : G) (cfg : Cfg) :
    ∀ (picks : List Nat) (so : Sorter) (s : Sess) (so' : Sorter) (s' : Sess),
      buildLoop F P g cfg so s picks = .ok (so', s') → ∀ x ∈ so.nodes, x ∈ so'.nodes ∨ x ∈ picks.map tv
  | [], so, s, so', s', hb, x, hx => by
    simp only [buildLoop, Except.ok.injEq, Prod.mk.injEq] at hb
    obtain ⟨rfl, _⟩ := hb
    exact .inl hx
  | p :: ps, so, s, so', s', hb, x, hx => by
    unfold buildLoop at hb
    split at hb
    · cases hb
    split at hb
    · cases hb
    split at hb
    · cases hb
    by_cases e : x = tv p
    · exact .inr (by simp [e])
    · have hx' : x ∈ ((so.take [tv p]).finish [tv p]).nodes := by
        simp [Sorter.finish, Sorter.take, hx, e]
      rcases buildLoop_nodes F P g cfg ps _ _ so' s' hb x hx' with h | h
      · exact .inl h
      · exact .inr (by simp only [List.map_cons, List.mem_cons]; exact .inr h)

/-- If the build loop ended because the scheduler ran dry, every task of the project was picked. -/
theorem build_all_picked {F : BodyFn} {P : Project} {cfg : Cfg} {w : World} {picks : List Nat}
    {g : G} {marks : List Nat}
    (hd : createDag P cfg = .ok (g, marks))
    (so so' : Sorter) (s' : Sess) (hso : Sorter.fromDag g isTaskV (prioFn P) = .ok so)
    (hloop : buildLoop F P g cfg so { w := w, skipMarks := marks } picks = .ok (so', s'))
    (hdry : so'.isActive = false) {t : Nat} (ht : t ∈ P.tasks.map (·.id)) : t ∈ picks := by
  obtain ⟨spec, hs, rfl⟩ := List.mem_map.1 ht
  have hg := (createDag_ok hd).1
  have hn : tv spec.id ∈ g.nodes := by rw [hg]; exact modifyDag_nodes_mono _ _ _ (baseGraph_task_node hs)
  have hsn : tv spec.id ∈ so.nodes := by rw [fromDag_nodes hso]; simp [hn, isTaskV_tv]
  rcases buildLoop_nodes F P g cfg picks so _ so' s' hloop _ hsn with h | h
  · unfold Sorter.isActive at hdry
    have : so'.nodes = [] := by simpa using hdry
    rw [this] at h; cases h
  · obtain ⟨a, ha, e⟩ := List.mem_map.1 h
    exact tv_injective e ▸ ha


theorem protocol_stop {F : BodyFn} {P : Project} {g : G} {cfg : Cfg} {s : Sess} {t : TaskSpec}
    (h : (protocol F P g cfg s t).stop = true) : s.stop = true ∨ (t.id, Outcome.fail) ∈ (protocol F P g cfg s t).reports := by
  obtain ⟨_, _, _, f4, _, f6, _, _⟩ := runPhases_fields F P g cfg s t
  have h' : (processReport P g cfg (runPhases F P g cfg s t).2 t (runPhases F P g cfg s t).1).stop = true := h
  show _ ∨ _ ∈ (processReport P g cfg (runPhases F P g cfg s t).2 t (runPhases F P g cfg s t).1).reports
  cases hr : (runPhases F P g cfg s t).1 <;> rw [hr] at h' <;> simp only [processReport] at h' ⊢
  case error => right; simp
  case none =>
    left
    split at h' <;> (rw [← f6]; exact h')
  all_goals (left; rw [← f6]; exact h')

variable {F : BodyFn} {P : Project} {g : G} {cfg : Cfg}

theorem Steps.stop_fail {picks : List Nat} {s s' : Sess} (h : Steps F P g cfg s picks s')
    (h0 : s.stop = true → ∃ u, (u, Outcome.fail) ∈ s.reports) : s'.stop = true → ∃ u, (u, Outcome.fail) ∈ s'.reports := by
  induction h with
  | nil => exact h0
  | @cons s t spec ts s' hf _ ih =>
    apply ih
    intro hc
    rcases protocol_stop hc with h | h
    · obtain ⟨u, hu⟩ := h0 h
      refine ⟨u, ?_⟩
      rcases protocol_reports F P g cfg s spec with hl | ⟨o, hl⟩ <;> rw [hl] <;> simp [hu]
    · exact ⟨_, h⟩


/-! ## `after` declarations become graph edges (through the products of the target) -/

theorem addNode_edges (g : G) (v : Nat) : (g.addNode v).edges = g.edges := by
  unfold G.addNode; split <;> rfl

theorem mem_addEdge_edges_mono {g : G} {e : Nat × Nat} (a b : Nat) (h : e ∈ g.edges) : e ∈ (g.addEdge a b).edges := by
  unfold G.addEdge
  simp only []
  split
  · rw [addNode_edges, addNode_edges]; exact h
  · simp only [List.mem_append, addNode_edges]; exact .inl h

theorem mem_addEdge_self (g : G) (a b : Nat) : (a, b) ∈ (g.addEdge a b).edges := by
  unfold G.addEdge
  simp only []
  split
  · rename_i h; simpa using h
  · simp

theorem foldl_edges_mono {α} (f : G → α → G) (hf : ∀ g x e, e ∈ g.edges → e ∈ (f g x).edges) :
    ∀ (l : List α) (g : G) (e : Nat × Nat), e ∈ g.edges → e ∈ (l.foldl f g).edges
  | [], _, _, h => h
  | x :: xs, g, e, h => foldl_edges_mono f hf xs (f g x) e (hf g x e h)

theorem foldl_addEdge_mem {α} (mk : α → Nat × Nat) : ∀ (l : List α) (g : G) (x : α), x ∈ l →
    mk x ∈ (l.foldl (fun g y => g.addEdge (mk y).1 (mk y).2) g).edges
  | y :: ys, g, x, h => by
    simp only [List.foldl_cons]
    rcases List.mem_cons.1 h with rfl | h
    · exact foldl_edges_mono _ (fun g y e h => mem_addEdge_edges_mono _ _ h) ys _ _ (mem_addEdge_self _ _ _)
    · exact foldl_addEdge_mem mk ys _ x h

theorem baseStep_edges_mono (g : G) (t : TaskSpec) (e : Nat × Nat) (h : e ∈ g.edges) : e ∈ (baseStep g t).edges := by
  unfold baseStep
  simp only []
  apply foldl_edges_mono _ (fun g p e h => mem_addEdge_edges_mono _ _ h)
  apply foldl_edges_mono _ (fun g p e h => mem_addEdge_edges_mono _ _ h)
  rw [addNode_edges]; exact h

theorem baseStep_prod_edge (g : G) (t : TaskSpec) {p : Nat} (hp : p ∈ t.prods) : (tv t.id, nv p) ∈ (baseStep g t).edges := by
  unfold baseStep
  simp only []
  exact foldl_addEdge_mem (fun p => (tv t.id, nv p)) t.prods _ p hp

/-- `_create_dag_from_tasks`: every task has an edge to each of its products. -/
theorem baseGraph_prod_edge {P : Project} {t : TaskSpec} (h : t ∈ P.tasks) {p : Nat} (hp : p ∈ t.prods) :
    (tv t.id, nv p) ∈ (baseGraph P).edges := by
  rw [baseGraph_eq]
  obtain ⟨l1, l2, e⟩ := List.append_of_mem h
  rw [e, List.foldl_append, List.foldl_cons]
  exact foldl_edges_mono _ baseStep_edges_mono l2 _ _ (baseStep_prod_edge _ _ hp)

def afterStep (t : TaskSpec) (g : G) (o : Nat) : G :=
  if o == t.id then g else (g.succs (tv o)).foldl (fun g s => g.addEdge s (tv t.id)) g

theorem afterStep_mono (t : TaskSpec) (g : G) (o : Nat) (e : Nat × Nat) (h : e ∈ g.edges) : e ∈ (afterStep t g o).edges := by
  unfold afterStep
  split
  · exact h
  · exact foldl_edges_mono _ (fun g s e h => mem_addEdge_edges_mono _ _ h) _ _ _ h

theorem modifyDag_eq (P : Project) (g : G) :
    modifyDag P g = P.tasks.foldl (fun g t => t.after.foldl (afterStep t) g) g := rfl

/-- `_modify_dag`: for `after=o` on task `t`, every successor (product) of `o` gets an edge to `t`. -/
theorem modifyDag_after_edge {P : Project} {g : G} {t : TaskSpec} (ht : t ∈ P.tasks) {o : Nat} (ho : o ∈ t.after)
    (hne : o ≠ t.id) {x : Nat} (hx : (tv o, x) ∈ g.edges) : (x, tv t.id) ∈ (modifyDag P g).edges := by
  have inner_mono : ∀ (t' : TaskSpec) (g : G) (e : Nat × Nat), e ∈ g.edges → e ∈ (t'.after.foldl (afterStep t') g).edges :=
    fun t' g e h => foldl_edges_mono _ (afterStep_mono t') _ _ _ h
  rw [modifyDag_eq]
  obtain ⟨l1, l2, e⟩ := List.append_of_mem ht
  rw [e, List.foldl_append, List.foldl_cons]
  apply foldl_edges_mono _ (fun g t' e h => inner_mono t' g e h)
  have hx1 := foldl_edges_mono _ (fun g t' e h => inner_mono t' g e h) l1 g _ hx
  generalize List.foldl (fun g t => List.foldl (afterStep t) g t.after) g l1 = g1 at hx1
  obtain ⟨a1, a2, ea⟩ := List.append_of_mem ho
  rw [ea, List.foldl_append, List.foldl_cons]
  apply foldl_edges_mono _ (afterStep_mono t)
  have hx2 := foldl_edges_mono _ (afterStep_mono t) a1 g1 _ hx1
  generalize List.foldl (afterStep t) g1 a1 = g2 at hx2
  unfold afterStep
  have : (o == t.id) = false := by simpa using hne
  simp only [this, Bool.false_eq_true, if_false]
  exact foldl_addEdge_mem (fun s => (s, tv t.id)) _ g2 x (G.mem_succs.2 hx2)

theorem modifyDag_edges_mono (P : Project) (g : G) (e : Nat × Nat) (h : e ∈ g.edges) : e ∈ (modifyDag P g).edges := by
  rw [modifyDag_eq]
  exact foldl_edges_mono _ (fun g t' e h => foldl_edges_mono _ (afterStep_mono t') _ _ _ h) _ _ _ h

/-- An `after` target that has a product is a task-ancestor in the build's graph. -/
theorem after_taskAnc {P : Project} {t u : TaskSpec} (ht : t ∈ P.tasks) (hu : u ∈ P.tasks)
    (ho : u.id ∈ t.after) (hne : u.id ≠ t.id) {p : Nat} (hp : p ∈ u.prods) :
    u.id ∈ taskAnc (modifyDag P (baseGraph P)) t.id := by
  have e1 := baseGraph_prod_edge hu hp
  have e2 := modifyDag_after_edge ht ho hne e1
  exact mem_taskAnc.2 ⟨.cons (modifyDag_edges_mono P _ _ e1) (.single e2), hne⟩

/-- A task that consumes a product of another task has that task as a task-ancestor. -/
theorem dep_taskAnc {P : Project} {t u : TaskSpec} (ht : t ∈ P.tasks) (hu : u ∈ P.tasks)
    {p : Nat} (hp : p ∈ u.prods) (hd : p ∈ t.deps) (hne : u.id ≠ t.id) :
    u.id ∈ taskAnc (modifyDag P (baseGraph P)) t.id := by
  have e1 := baseGraph_prod_edge hu hp
  have e2 : (nv p, tv t.id) ∈ (baseGraph P).edges := by
    rw [baseGraph_eq]
    obtain ⟨l1, l2, e⟩ := List.append_of_mem ht
    rw [e, List.foldl_append, List.foldl_cons]
    apply foldl_edges_mono _ baseStep_edges_mono l2
    unfold baseStep
    simp only []
    apply foldl_edges_mono _ (fun g p e h => mem_addEdge_edges_mono _ _ h)
    exact foldl_addEdge_mem (fun d => (nv d, tv t.id)) t.deps _ p hd
  exact mem_taskAnc.2 ⟨.cons (modifyDag_edges_mono P _ _ e1) (.single (modifyDag_edges_mono P _ _ e2)), hne⟩

end Engine
end Pytask
