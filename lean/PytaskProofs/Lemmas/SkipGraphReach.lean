import PytaskModel.Graph
/-!
Reachability lemmas for M1: `ancRaw` / `descRaw` (the |E|-fold frontier expansions that model
`nx.ancestors` / `nx.descendants`) contain exactly the vertices connected by a path of ≥ 1 edge.
Hence "`t` is a descendant of `s`" and "`s` is an ancestor of `t`" are the same relation.
Core Lean only.
-/
namespace Pytask
namespace G

/-- A path of at least one edge. -/
inductive Path (g : G) : Nat → Nat → Prop
  | single {u v : Nat} : (u, v) ∈ g.edges → Path g u v
  | cons {u w v : Nat} : (u, w) ∈ g.edges → Path g w v → Path g u v

theorem Path.snoc {g : G} {u w v : Nat} (h : Path g u w) (e : (w, v) ∈ g.edges) : Path g u v := by
  induction h with
  | single e' => exact .cons e' (.single e)
  | cons e' _ ih => exact .cons e' (ih e)

theorem Path.trans {g : G} {u w v : Nat} (h : Path g u w) (h' : Path g w v) : Path g u v := by
  induction h with
  | single e => exact .cons e h'
  | cons e _ ih => exact .cons e (ih h')

theorem mem_preds {g : G} {u v : Nat} : u ∈ g.preds v ↔ (u, v) ∈ g.edges := by
  unfold preds
  simp only [List.mem_map, List.mem_filter, beq_iff_eq]
  constructor
  · rintro ⟨⟨a, b⟩, ⟨h, rfl⟩, rfl⟩; exact h
  · intro h; exact ⟨(u, v), ⟨h, rfl⟩, rfl⟩

theorem mem_succs {g : G} {u v : Nat} : v ∈ g.succs u ↔ (u, v) ∈ g.edges := by
  unfold succs
  simp only [List.mem_map, List.mem_filter, beq_iff_eq]
  constructor
  · rintro ⟨⟨a, b⟩, ⟨h, rfl⟩, rfl⟩; exact h
  · intro h; exact ⟨(u, v), ⟨h, rfl⟩, rfl⟩

theorem mem_union {a b : List Nat} {x : Nat} : x ∈ union a b ↔ x ∈ a ∨ x ∈ b := by
  unfold union
  induction b generalizing a with
  | nil => simp
  | cons y ys ih =>
    simp only [List.foldl_cons, List.mem_cons]
    rw [ih]
    by_cases hy : a.contains y = true
    · simp only [hy, if_true]
      have : y ∈ a := by simpa using hy
      constructor
      · rintro (h | h); exact .inl h; exact .inr (.inr h)
      · rintro (h | rfl | h); exact .inl h; exact .inl this; exact .inr h
    · simp only [hy]
      simp only [Bool.false_eq_true, if_false, List.mem_append, List.mem_singleton]
      constructor
      · rintro ((h | h) | h); exact .inl h; exact .inr (.inl h); exact .inr (.inr h)
      · rintro (h | h | h); exact .inl (.inl h); exact .inl (.inr h); exact .inr h

/-- One frontier expansion along an arbitrary neighbour function. -/
def expand (nbr : Nat → List Nat) (s : List Nat) : List Nat := union s (s.flatMap nbr)

theorem stepBack_eq (g : G) : g.stepBack = expand g.preds := rfl
theorem stepFwd_eq (g : G) : g.stepFwd = expand g.succs := rfl

theorem mem_expand {nbr : Nat → List Nat} {s : List Nat} {x : Nat} :
    x ∈ expand nbr s ↔ x ∈ s ∨ ∃ y ∈ s, x ∈ nbr y := by
  unfold expand
  rw [mem_union]
  simp only [List.mem_flatMap]

theorem iter_succ' {α} (f : α → α) : ∀ (n : Nat) (a : α), iter f (n + 1) a = f (iter f n a)
  | 0, _ => rfl
  | n + 1, a => by
    show iter f (n + 1) (f a) = f (iter f (n + 1) a)
    rw [iter_succ' f n (f a)]
    rfl

theorem iter_inv {α} (f : α → α) (Q : α → Prop) (hf : ∀ a, Q a → Q (f a)) :
    ∀ (n : Nat) (a : α), Q a → Q (iter f n a)
  | 0, _, h => h
  | n + 1, a, h => iter_inv f Q hf n (f a) (hf a h)

theorem nodup_subset_length : ∀ (l m : List Nat), l.Nodup → (∀ x ∈ l, x ∈ m) → l.length ≤ m.length
  | [], _, _, _ => by simp
  | x :: l, m, hn, hs => by
    have hx : x ∈ m := hs x (by simp)
    have hn' := List.nodup_cons.1 hn
    have : l.length ≤ (m.erase x).length := by
      apply nodup_subset_length l (m.erase x) hn'.2
      intro y hy
      have hne : y ≠ x := fun h => hn'.1 (h ▸ hy)
      exact (List.mem_erase_of_ne hne).2 (hs y (by simp [hy]))
    rw [List.length_erase_of_mem hx] at this
    have hpos : 0 < m.length := List.length_pos_of_mem hx
    simp only [List.length_cons]
    omega

section closure
variable (nbr : Nat → List Nat) (B : List Nat) (S0 : List Nat)

private abbrev S (k : Nat) : List Nat := iter (expand nbr) k S0

theorem S_step (k : Nat) : ∀ x ∈ S nbr S0 k, x ∈ S nbr S0 (k + 1) := by
  intro x hx
  show x ∈ iter (expand nbr) (k + 1) S0
  rw [iter_succ']
  exact mem_expand.2 (.inl hx)

theorem S_mono {j k : Nat} (h : j ≤ k) : ∀ x ∈ S nbr S0 j, x ∈ S nbr S0 k := by
  induction h with
  | refl => exact fun _ h => h
  | step _ ih => exact fun x hx => S_step nbr S0 _ x (ih x hx)

theorem S_nbr (k : Nat) : ∀ x ∈ S nbr S0 k, ∀ y ∈ nbr x, y ∈ S nbr S0 (k + 1) := by
  intro x hx y hy
  show y ∈ iter (expand nbr) (k + 1) S0
  rw [iter_succ']
  exact mem_expand.2 (.inr ⟨x, hx, hy⟩)

theorem S_fix {j : Nat} (hj : ∀ x ∈ S nbr S0 (j + 1), x ∈ S nbr S0 j) :
    ∀ m, j ≤ m → ∀ x ∈ S nbr S0 m, x ∈ S nbr S0 j := by
  intro m hm
  induction hm with
  | refl => exact fun _ h => h
  | @step m _ ih =>
    intro x hx
    have hx' : x ∈ expand nbr (S nbr S0 m) := by
      have : S nbr S0 (m + 1) = expand nbr (S nbr S0 m) := iter_succ' _ _ _
      rw [← this]; exact hx
    apply hj
    rcases mem_expand.1 hx' with h | ⟨y, hy, hxy⟩
    · exact S_step nbr S0 j x (ih x h)
    · exact S_nbr nbr S0 j y (ih y hy) x hxy

theorem S_bound (hB : ∀ x y, y ∈ nbr x → y ∈ B) (h0 : ∀ x ∈ S0, x ∈ B) :
    ∀ k, ∀ x ∈ S nbr S0 k, x ∈ B := by
  intro k
  induction k with
  | zero => exact h0
  | succ k ih =>
    intro x hx
    have : S nbr S0 (k + 1) = expand nbr (S nbr S0 k) := iter_succ' _ _ _
    rw [this] at hx
    rcases mem_expand.1 hx with h | ⟨y, _, hxy⟩
    · exact ih x h
    · exact hB y x hxy

theorem S_grow : ∀ k, (∃ j, j ≤ k ∧ ∀ x ∈ S nbr S0 (j + 1), x ∈ S nbr S0 j) ∨
    (∃ l : List Nat, l.Nodup ∧ (∀ x ∈ l, x ∈ S nbr S0 k) ∧ l.length = k + 1) := by
  intro k
  induction k with
  | zero =>
    cases S0 with
    | nil =>
      left
      refine ⟨0, Nat.le_refl _, ?_⟩
      intro x hx
      have hx' : x ∈ expand nbr [] := hx
      rcases mem_expand.1 hx' with h' | ⟨y, hy, _⟩
      · cases h'
      · cases hy
    | cons a as =>
      right
      refine ⟨[a], by simp, ?_, rfl⟩
      intro x hx
      show x ∈ a :: as
      simp at hx; simp [hx]
  | succ k ih =>
    rcases ih with ⟨j, hj, hfix⟩ | ⟨l, hn, hs, hl⟩
    · exact .inl ⟨j, Nat.le_succ_of_le hj, hfix⟩
    · by_cases hc : ∀ x ∈ S nbr S0 (k + 1), x ∈ S nbr S0 k
      · exact .inl ⟨k, Nat.le_succ _, hc⟩
      · right
        rcases Classical.not_forall.1 hc with ⟨x, hx⟩
        rcases Classical.not_imp.1 hx with ⟨hx1, hx2⟩
        refine ⟨x :: l, List.nodup_cons.2 ⟨fun h => hx2 (hs x h), hn⟩, ?_, by simp [hl]⟩
        intro y hy
        rcases List.mem_cons.1 hy with rfl | hy
        · exact hx1
        · exact S_step nbr S0 k y (hs y hy)

/-- After at least `|B|` expansions the set is closed under `nbr`. -/
theorem S_closed (hB : ∀ x y, y ∈ nbr x → y ∈ B) (h0 : ∀ x ∈ S0, x ∈ B) (n : Nat) (hn : B.length ≤ n) :
    ∀ x ∈ S nbr S0 n, ∀ y ∈ nbr x, y ∈ S nbr S0 n := by
  rcases S_grow nbr S0 n with ⟨j, hj, hfix⟩ | ⟨l, hnd, hs, hl⟩
  · intro x hx y hy
    have hxj := S_fix nbr S0 hfix n hj x hx
    exact S_mono nbr S0 hj y (hfix y (S_nbr nbr S0 j x hxj y hy))
  · exfalso
    have := nodup_subset_length l B hnd (fun x hx => S_bound nbr B S0 hB h0 n x (hs x hx))
    omega

end closure

theorem ancRaw_closed (g : G) (v : Nat) : ∀ x ∈ g.ancRaw v, ∀ y ∈ g.preds x, y ∈ g.ancRaw v := by
  unfold ancRaw
  rw [stepBack_eq]
  apply S_closed g.preds (g.edges.map (·.1)) (g.preds v)
  · intro x y hy; exact List.mem_map.2 ⟨(y, x), mem_preds.1 hy, rfl⟩
  · intro x hx; exact List.mem_map.2 ⟨(x, v), mem_preds.1 hx, rfl⟩
  · simp

theorem descRaw_closed (g : G) (v : Nat) : ∀ x ∈ g.descRaw v, ∀ y ∈ g.succs x, y ∈ g.descRaw v := by
  unfold descRaw
  rw [stepFwd_eq]
  apply S_closed g.succs (g.edges.map (·.2)) (g.succs v)
  · intro x y hy; exact List.mem_map.2 ⟨(x, y), mem_succs.1 hy, rfl⟩
  · intro x hx; exact List.mem_map.2 ⟨(v, x), mem_succs.1 hx, rfl⟩
  · simp

/-- `nx.ancestors` (before removing the start vertex) = sources of paths into `v`. -/
theorem mem_ancRaw {g : G} {u v : Nat} : u ∈ g.ancRaw v ↔ Path g u v := by
  constructor
  · unfold ancRaw
    intro h
    have := iter_inv g.stepBack (fun s => ∀ x ∈ s, Path g x v) (by
      intro s hs x hx
      rw [stepBack_eq] at hx
      rcases mem_expand.1 hx with h | ⟨y, hy, hxy⟩
      · exact hs x h
      · exact .cons (mem_preds.1 hxy) (hs y hy)) g.edges.length (g.preds v)
      (fun x hx => .single (mem_preds.1 hx))
    exact this u h
  · intro h
    have h0 : ∀ x ∈ g.preds v, x ∈ g.ancRaw v := by
      unfold ancRaw; rw [stepBack_eq]
      exact S_mono g.preds (g.preds v) (Nat.zero_le _)
    have key : ∀ {x y}, Path g x y → (y = v ∨ y ∈ g.ancRaw v) → x ∈ g.ancRaw v := by
      intro x y p
      induction p with
      | single e =>
        rintro (rfl | hy)
        · exact h0 _ (mem_preds.2 e)
        · exact ancRaw_closed g v _ hy _ (mem_preds.2 e)
      | cons e _ ih =>
        intro hy
        exact ancRaw_closed g v _ (ih hy) _ (mem_preds.2 e)
    exact key h (.inl rfl)

/-- `nx.descendants` (before removing the start vertex) = targets of paths out of `v`. -/
theorem mem_descRaw {g : G} {u v : Nat} : u ∈ g.descRaw v ↔ Path g v u := by
  constructor
  · unfold descRaw
    intro h
    have := iter_inv g.stepFwd (fun s => ∀ x ∈ s, Path g v x) (by
      intro s hs x hx
      rw [stepFwd_eq] at hx
      rcases mem_expand.1 hx with h | ⟨y, hy, hxy⟩
      · exact hs x h
      · exact (hs y hy).snoc (mem_succs.1 hxy)) g.edges.length (g.succs v)
      (fun x hx => .single (mem_succs.1 hx))
    exact this u h
  · intro h
    have h0 : ∀ x ∈ g.succs v, x ∈ g.descRaw v := by
      unfold descRaw; rw [stepFwd_eq]
      exact S_mono g.succs (g.succs v) (Nat.zero_le _)
    have key : ∀ {x y}, Path g x y → (x = v ∨ x ∈ g.descRaw v) → y ∈ g.descRaw v := by
      intro x y p
      induction p with
      | single e =>
        rintro (rfl | hx)
        · exact h0 _ (mem_succs.2 e)
        · exact descRaw_closed g v _ hx _ (mem_succs.2 e)
      | cons e _ ih =>
        rintro (rfl | hx)
        · exact ih (.inr (h0 _ (mem_succs.2 e)))
        · exact ih (.inr (descRaw_closed g v _ hx _ (mem_succs.2 e)))
    exact key h (.inl rfl)

theorem mem_anc {g : G} {u v : Nat} : u ∈ g.anc v ↔ Path g u v ∧ u ≠ v := by
  unfold anc
  simp only [List.mem_filter, mem_ancRaw, bne_iff_ne, ne_eq]

theorem mem_desc {g : G} {u v : Nat} : u ∈ g.desc v ↔ Path g v u ∧ u ≠ v := by
  unfold desc
  simp only [List.mem_filter, mem_descRaw, bne_iff_ne, ne_eq]

/-- Descendant and ancestor are the same relation read in two directions. -/
theorem mem_desc_iff_mem_anc {g : G} {u v : Nat} : u ∈ g.desc v ↔ v ∈ g.anc u := by
  rw [mem_desc, mem_anc]
  exact ⟨fun ⟨p, h⟩ => ⟨p, fun e => h e.symm⟩, fun ⟨p, h⟩ => ⟨p, fun e => h e.symm⟩⟩

end G
end Pytask
