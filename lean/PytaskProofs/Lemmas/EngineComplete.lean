import PytaskProofs.Lemmas.EngineAll
/-!
What the `complete` flag of `build`'s result means (used by C06): when the loop was not stopped by
the failure limit and was not aborted while recording states, it ended because the scheduler ran
dry; then every collected task was picked and has exactly one report.
The two "early end" causes are expressed through the result itself: fewer FAIL reports than
`max_failures`, and every executed task has a report.
-/
namespace Pytask
namespace Engine
open Sorter

theorem nodup_count_one {a : Nat} : ∀ {l : List Nat}, l.Nodup → a ∈ l → l.count a = 1
  | x :: xs, hn, hm => by
    obtain ⟨hx, hn'⟩ := List.nodup_cons.1 hn
    by_cases e : x = a
    · subst e
      simp [List.count_cons, List.count_eq_zero.2 hx]
    · have : a ∈ xs := by simpa [Ne.symm e] using hm
      simp [List.count_cons, e, nodup_count_one hn' this]

def countFail (rs : List (Nat × Outcome)) : Nat := rs.countP (fun r => r.2 == Outcome.fail)

/-- Invariant of the loop: `n_tasks_failed` counts the FAIL reports, and `should_stop` is set only
once the limit is reached. -/
def StopInv (cfg : Cfg) (s : Sess) : Prop :=
  s.nFailed = countFail s.reports ∧ (s.stop = true → ∃ m, cfg.maxFail = some m ∧ m ≤ s.nFailed)

theorem countFail_append (a b : List (Nat × Outcome)) : countFail (a ++ b) = countFail a + countFail b := by
  unfold countFail; simp [List.countP_append]

theorem processReport_stopInv (P : Project) (g : G) (cfg : Cfg) (s2 : Sess) (t : TaskSpec) (r : Raised)
    (h : StopInv cfg s2) : StopInv cfg (processReport P g cfg s2 t r) := by
  obtain ⟨h1, h2⟩ := h
  cases r <;> simp only [processReport, StopInv]
  case none =>
    by_cases hok : (recordStates P g cfg s2.w t.id).2 = true
    · simp only [hok, if_true]
      exact ⟨by simp [countFail_append, countFail, h1], h2⟩
    · simp only [hok]
      exact ⟨h1, h2⟩
  case error =>
    refine ⟨by simp [countFail_append, countFail, h1], fun hs => ?_⟩
    simp only [Bool.or_eq_true] at hs
    rcases hs with hs | hs
    · obtain ⟨m, hm, hle⟩ := h2 hs
      exact ⟨m, hm, by omega⟩
    · cases hm : cfg.maxFail with
      | none => simp [hm] at hs
      | some m => exact ⟨m, rfl, by simpa [hm] using hs⟩
  all_goals exact ⟨by simp [countFail_append, countFail, h1], h2⟩

theorem protocol_stopInv (F : BodyFn) (P : Project) (g : G) (cfg : Cfg) (s : Sess) (t : TaskSpec)
    (h : StopInv cfg s) : StopInv cfg (protocol F P g cfg s t) := by
  obtain ⟨_, _, _, f4, f5, f6, _, _⟩ := runPhases_fields F P g cfg s t
  obtain ⟨h1, h2⟩ := h
  apply processReport_stopInv
  exact ⟨by rw [f4, f5]; exact h1, fun hs => by rw [f5]; exact h2 (by rw [← f6]; exact hs)⟩

variable {F : BodyFn} {P : Project} {g : G} {cfg : Cfg}

theorem Steps.stopInv {picks : List Nat} {s s' : Sess} (h : Steps F P g cfg s picks s') (h0 : StopInv cfg s) :
    StopInv cfg s' := by
  induction h with
  | nil => exact h0
  | cons _ _ ih => exact ih (protocol_stopInv F P g cfg _ _ h0)

theorem processReport_report_of_not_crashed (s2 : Sess) (t : TaskSpec) (r : Raised)
    (h : (processReport P g cfg s2 t r).crashed = false) :
    ∃ o, (processReport P g cfg s2 t r).reports = s2.reports ++ [(t.id, o)] := by
  cases r <;> simp only [processReport] at h ⊢
  case none =>
    by_cases hok : (recordStates P g cfg s2.w t.id).2 = true
    · simp only [hok, if_true]
      exact ⟨_, rfl⟩
    · simp [hok] at h
  all_goals exact ⟨_, rfl⟩

/-- A protocol that does not abort the loop appends exactly one report, for its own task. -/
theorem protocol_report_of_not_crashed {s : Sess} {t : TaskSpec} (h : (protocol F P g cfg s t).crashed = false) :
    ∃ o, (protocol F P g cfg s t).reports = s.reports ++ [(t.id, o)] := by
  obtain ⟨_, _, _, f4, _⟩ := runPhases_fields F P g cfg s t
  obtain ⟨o, ho⟩ := processReport_report_of_not_crashed (P := P) (g := g) (cfg := cfg) _ t _ h
  exact ⟨o, by rw [← f4]; exact ho⟩

/-- A protocol that aborts the loop (recording states raised) had run its body and appends no report. -/
theorem protocol_crashed' {s : Sess} {t : TaskSpec} (hs : s.crashed = false)
    (h : (protocol F P g cfg s t).crashed = true) :
    t.id ∈ (protocol F P g cfg s t).log ∧ (protocol F P g cfg s t).reports = s.reports := by
  obtain ⟨_, _, _, f4, _, _, f7, _⟩ := runPhases_fields F P g cfg s t
  cases hr : (runPhases F P g cfg s t).1
  case persisted =>
    obtain ⟨⟨h1, h2⟩, h3⟩ := runPhases_persisted_iff.1 hr
    rw [protocol_persisted h1 h2 h3] at h
    cases h
  case none =>
    refine ⟨?_, ?_⟩
    · unfold protocol
      rw [processReport_log, runPhases_none_log hr]
      simp
    · have h' : (processReport P g cfg (runPhases F P g cfg s t).2 t (runPhases F P g cfg s t).1).crashed = true := h
      show (processReport P g cfg (runPhases F P g cfg s t).2 t (runPhases F P g cfg s t).1).reports = _
      rw [hr] at h' ⊢
      simp only [processReport] at h' ⊢
      by_cases hok : (recordStates P g cfg (runPhases F P g cfg s t).2.w t.id).2 = true
      · simp only [hok, if_true] at h'
        rw [f7, hs] at h'; cases h'
      · simp only [hok]
        exact f4
  all_goals
    exfalso
    have h' : (processReport P g cfg (runPhases F P g cfg s t).2 t (runPhases F P g cfg s t).1).crashed = true := h
    rw [hr] at h'
    simp only [processReport] at h'
    rw [f7, hs] at h'; cases h'

theorem buildLoop_cons_guard {so so' : Sorter} {s s' : Sess} {t : Nat} {ts : List Nat}
    (h : buildLoop F P g cfg so s (t :: ts) = .ok (so', s')) : s.crashed = false ∧ s.stop = false := by
  unfold buildLoop at h
  split at h
  · cases h
  · rename_i hg
    cases hcr : s.crashed <;> cases hst : s.stop <;> simp [hcr, hst] at hg ⊢

theorem buildLoop_head_not_crashed {so so' : Sorter} {s s' : Sess} {ts : List Nat}
    (h : buildLoop F P g cfg so s ts = .ok (so', s')) (hc : s'.crashed = false) : s.crashed = false := by
  cases ts with
  | nil =>
    simp only [buildLoop, Except.ok.injEq, Prod.mk.injEq] at h
    rw [h.2]; exact hc
  | cons t ts => exact (buildLoop_cons_guard h).1

/-- In a loop that was not aborted, the reports are, in order, one per pick. -/
theorem buildLoop_report_keys : ∀ (picks : List Nat) (so : Sorter) (s : Sess) (so' : Sorter) (s' : Sess),
    buildLoop F P g cfg so s picks = .ok (so', s') → s'.crashed = false →
    s'.reports.map (·.1) = s.reports.map (·.1) ++ picks
  | [], so, s, so', s', h, _ => by
    simp only [buildLoop, Except.ok.injEq, Prod.mk.injEq] at h
    rw [h.2]; simp
  | t :: ts, so, s, so', s', h, hc => by
    have h0 := h
    unfold buildLoop at h
    split at h
    · cases h
    split at h
    · cases h
    split at h
    · cases h
    rename_i spec hfind
    have h1c := buildLoop_head_not_crashed h hc
    obtain ⟨o, ho⟩ := protocol_report_of_not_crashed h1c
    rw [buildLoop_report_keys ts _ _ so' s' h hc, ho]
    simp [find?_id hfind]

/-- If the loop was aborted, that happened in the protocol of the last pick, whose body had run and
which got no report. -/
theorem buildLoop_crashed : ∀ (picks : List Nat) (so : Sorter) (s : Sess) (so' : Sorter) (s' : Sess),
    buildLoop F P g cfg so s picks = .ok (so', s') → s.crashed = false → s'.crashed = true →
    ∃ pre t spec s1, picks = pre ++ [t] ∧ Steps F P g cfg s pre s1 ∧ Project.find? P t = some spec ∧
      s1.crashed = false ∧ s' = protocol F P g cfg s1 spec
  | [], so, s, so', s', h, hs, hc => by
    simp only [buildLoop, Except.ok.injEq, Prod.mk.injEq] at h
    rw [← h.2, hs] at hc; cases hc
  | t :: ts, so, s, so', s', h, hs, hc => by
    unfold buildLoop at h
    split at h
    · cases h
    split at h
    · cases h
    split at h
    · cases h
    rename_i spec hfind
    cases ts with
    | nil =>
      simp only [buildLoop, Except.ok.injEq, Prod.mk.injEq] at h
      exact ⟨[], t, spec, s, rfl, .nil s, hfind, hs, h.2.symm⟩
    | cons t2 rest =>
      have h1c : (protocol F P g cfg s spec).crashed = false := (buildLoop_cons_guard h).1
      obtain ⟨pre, u, su, s1, hp, hst, hfu, hs1, he⟩ := buildLoop_crashed (t2 :: rest) _ _ so' s' h h1c hc
      exact ⟨t :: pre, u, su, s1, by rw [hp]; rfl, .cons hfind hst, hfu, hs1, he⟩

/-- **What `complete` means.** In a complete build that was not stopped by the failure limit (fewer
FAIL reports than `max_failures`) and in which every executed task has a report (the loop was not
aborted while recording states), the scheduler ran dry: every collected task was picked, and the
reports are, in order, exactly one per pick. -/
theorem build_complete {w : World} {picks : List Nat} {r : Result} {marks : List Nat}
    (hd : createDag P cfg = .ok (g, marks)) (hb : build F P cfg w picks = .ok r)
    (hc : r.complete = true)
    (hlim : ∀ m, cfg.maxFail = some m → countFail r.reports < m)
    (hrep : ∀ u ∈ r.log, ∃ o, (u, o) ∈ r.reports) :
    (∀ t ∈ P.tasks.map (·.id), t ∈ picks) ∧ r.reports.map (·.1) = picks ∧ picks.Nodup := by
  obtain ⟨so, so', s', hso, hloop, hs, hnd, _, hr, hl, _, _, hcomp⟩ := build_run hd hb
  have hncr : s'.crashed = false := by
    cases hcr : s'.crashed
    · rfl
    · exfalso
      obtain ⟨pre, t, spec, s1, hp, hst, hf, hs1, he⟩ := buildLoop_crashed picks _ _ so' s' hloop rfl hcr
      obtain ⟨hlog, hreps⟩ := protocol_crashed' hs1 (he ▸ hcr)
      obtain ⟨o, ho⟩ := hrep t (by rw [hl, he, ← find?_id hf]; exact hlog)
      rw [hr, he, hreps] at ho
      have hpre : t ∉ pre := by
        rw [hp] at hnd
        exact fun hm => (List.nodup_append.1 hnd).2.2 t hm t (by simp) rfl
      have := (hst.reports_notin hpre (o := o)).1 ho
      simp at this
  have hns : s'.stop = false := by
    cases hst : s'.stop
    · rfl
    · exfalso
      obtain ⟨hn, hstop⟩ := hs.stopInv (cfg := cfg) ⟨rfl, by simp⟩
      obtain ⟨m, hm, hle⟩ := hstop hst
      have := hlim m hm
      rw [hr, ← hn] at this
      omega
  have hdry : so'.isActive = false := by
    rw [hcomp, hns, hncr] at hc
    simpa using hc
  refine ⟨fun t ht => build_all_picked hd so so' s' hso hloop hdry ht, ?_, hnd⟩
  rw [hr, buildLoop_report_keys picks _ _ so' s' hloop hncr]
  simp

end Engine
end Pytask
