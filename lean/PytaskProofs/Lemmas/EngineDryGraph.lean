import PytaskProofs.Lemmas.GraphClosure
import PytaskProofs.Lemmas.EngineDry
/-! Dry-run lemmas, part 2: what `create_dag_from_session` guarantees about the graph the build loop runs on. -/
namespace Pytask
namespace EngineDry
open Engine G

theorem tv_div (t : Nat) : tv t / 2 = t := by unfold tv; omega
theorem nv_div (n : Nat) : nv n / 2 = n := by unfold nv; omega
theorem isTaskV_tv (t : Nat) : isTaskV (tv t) = true := by unfold isTaskV tv; simp
theorem isTaskV_nv (n : Nat) : isTaskV (nv n) = false := by
  unfold isTaskV nv
  have : (2 * n + 1) % 2 = 1 := by omega
  simp [this]
theorem isTaskV_eq {v : Nat} (h : isTaskV v = true) : v = tv (v / 2) := by
  unfold isTaskV at h; unfold tv
  have : v % 2 = 0 := by simpa using h
  omega
theorem not_isTaskV_eq {v : Nat} (h : isTaskV v = false) : v = nv (v / 2) := by
  unfold isTaskV at h; unfold nv
  have : ¬ v % 2 = 0 := by simpa using h
  omega
theorem tv_inj' {a b : Nat} (h : tv a = tv b) : a = b := by unfold tv at h; omega
theorem tv_ne_nv (a b : Nat) : tv a ≠ nv b := by unfold tv nv; omega

theorem mem_taskDesc {g : G} {t t' : Nat} : t' ∈ taskDesc g t ↔ Reach g (tv t) (tv t') ∧ t' ≠ t := by
  unfold taskDesc desc
  simp only [List.mem_map, List.mem_filter, mem_descRaw, bne_iff_ne, ne_eq]
  constructor
  · rintro ⟨v, ⟨⟨hr, hne⟩, hv⟩, rfl⟩
    have := isTaskV_eq hv
    refine ⟨this ▸ hr, ?_⟩
    intro h; apply hne; rw [this, h]
  · rintro ⟨hr, hne⟩
    exact ⟨tv t', ⟨⟨hr, fun h => hne (tv_inj' h)⟩, isTaskV_tv _⟩, tv_div _⟩

theorem mem_taskAnc {g : G} {t a : Nat} : a ∈ taskAnc g t ↔ Reach g (tv a) (tv t) ∧ a ≠ t := by
  unfold taskAnc anc
  simp only [List.mem_map, List.mem_filter, mem_ancRaw, bne_iff_ne, ne_eq]
  constructor
  · rintro ⟨v, ⟨⟨hr, hne⟩, hv⟩, rfl⟩
    have := isTaskV_eq hv
    refine ⟨this ▸ hr, ?_⟩
    intro h; apply hne; rw [this, h]
  · rintro ⟨hr, hne⟩
    exact ⟨tv a, ⟨⟨hr, fun h => hne (tv_inj' h)⟩, isTaskV_tv _⟩, tv_div _⟩

/-- `descending_tasks` and `preceding_tasks` are dual. -/
theorem taskDesc_iff_taskAnc {g : G} {t t' : Nat} : t' ∈ taskDesc g t ↔ t ∈ taskAnc g t' := by
  rw [mem_taskDesc, mem_taskAnc]
  exact ⟨fun ⟨h, n⟩ => ⟨h, fun e => n e.symm⟩, fun ⟨h, n⟩ => ⟨h, fun e => n e.symm⟩⟩

theorem taskDesc_trans {g : G} {a b c : Nat} (h1 : b ∈ taskDesc g a) (h2 : c ∈ taskDesc g b) (hne : c ≠ a) :
    c ∈ taskDesc g a :=
  mem_taskDesc.2 ⟨(mem_taskDesc.1 h1).1.trans (mem_taskDesc.1 h2).1, hne⟩

/-! ### edges of the constructed graph -/

theorem addNode_edges (g : G) (v : Nat) : (g.addNode v).edges = g.edges := by
  unfold addNode; split <;> rfl

theorem mem_addNode_nodes {g : G} {v x : Nat} : x ∈ (g.addNode v).nodes ↔ x ∈ g.nodes ∨ x = v := by
  unfold addNode
  split
  · rename_i h
    have : v ∈ g.nodes := by simpa using h
    constructor
    · exact Or.inl
    · rintro (h | rfl); exact h; exact this
  · simp

theorem mem_addEdge_edges {g : G} {u v : Nat} {e : Nat × Nat} :
    e ∈ (g.addEdge u v).edges ↔ e ∈ g.edges ∨ e = (u, v) := by
  unfold addEdge
  simp only []
  split
  · rename_i h
    have : (u, v) ∈ g.edges := by simpa [addNode_edges] using h
    simp only [addNode_edges]
    constructor
    · exact Or.inl
    · rintro (h | rfl); exact h; exact this
  · simp [addNode_edges]

theorem mem_addEdge_nodes {g : G} {u v x : Nat} :
    x ∈ (g.addEdge u v).nodes ↔ x ∈ g.nodes ∨ x = u ∨ x = v := by
  unfold addEdge
  simp only []
  split <;> simp [mem_addNode_nodes, or_assoc]

/-- every edge end point is a node (holds for graphs built with `add_node` / `add_edge`) -/
def EndIn (g : G) : Prop := ∀ u v, (u, v) ∈ g.edges → u ∈ g.nodes ∧ v ∈ g.nodes

theorem endIn_addNode {g : G} (h : EndIn g) (v : Nat) : EndIn (g.addNode v) := by
  intro a b hab
  rw [addNode_edges] at hab
  exact ⟨mem_addNode_nodes.2 (Or.inl (h a b hab).1), mem_addNode_nodes.2 (Or.inl (h a b hab).2)⟩

theorem endIn_addEdge {g : G} (h : EndIn g) (u v : Nat) : EndIn (g.addEdge u v) := by
  intro a b hab
  rcases mem_addEdge_edges.1 hab with hab | hab
  · exact ⟨mem_addEdge_nodes.2 (Or.inl (h a b hab).1), mem_addEdge_nodes.2 (Or.inl (h a b hab).2)⟩
  · cases hab
    exact ⟨mem_addEdge_nodes.2 (Or.inr (Or.inl rfl)), mem_addEdge_nodes.2 (Or.inr (Or.inr rfl))⟩

theorem foldl_addEdge_edges {α} (l : List α) (f h : α → Nat) (g : G) (e : Nat × Nat) :
    e ∈ (l.foldl (fun g x => g.addEdge (f x) (h x)) g).edges ↔ e ∈ g.edges ∨ ∃ x ∈ l, e = (f x, h x) := by
  induction l generalizing g with
  | nil => simp
  | cons y ys ih =>
    simp only [List.foldl_cons, ih, mem_addEdge_edges, List.mem_cons]
    constructor
    · rintro ((h | h) | ⟨x, hx, h⟩)
      · exact Or.inl h
      · exact Or.inr ⟨y, Or.inl rfl, h⟩
      · exact Or.inr ⟨x, Or.inr hx, h⟩
    · rintro (h | ⟨x, rfl | hx, h⟩)
      · exact Or.inl (Or.inl h)
      · exact Or.inl (Or.inr h)
      · exact Or.inr ⟨x, hx, h⟩

theorem foldl_addEdge_endIn {α} (l : List α) (f h : α → Nat) (g : G) (hg : EndIn g) :
    EndIn (l.foldl (fun g x => g.addEdge (f x) (h x)) g) := by
  induction l generalizing g with
  | nil => exact hg
  | cons y ys ih => exact ih _ (endIn_addEdge hg _ _)

/-- the per-task step of `_create_dag_from_tasks` -/
def addTask (g : G) (t : TaskSpec) : G :=
  let g := g.addNode (tv t.id)
  let g := t.deps.foldl (fun g d => g.addEdge (nv d) (tv t.id)) g
  t.prods.foldl (fun g p => g.addEdge (tv t.id) (nv p)) g

theorem baseGraph_eq (P : Project) : baseGraph P = P.tasks.foldl addTask G.empty := rfl

theorem mem_addTask_edges {g : G} {t : TaskSpec} {e : Nat × Nat} :
    e ∈ (addTask g t).edges ↔ e ∈ g.edges ∨ (∃ d ∈ t.deps, e = (nv d, tv t.id)) ∨ (∃ p ∈ t.prods, e = (tv t.id, nv p)) := by
  unfold addTask
  simp only []
  rw [foldl_addEdge_edges t.prods (fun _ => tv t.id) (fun p => nv p),
      foldl_addEdge_edges t.deps (fun d => nv d) (fun _ => tv t.id), addNode_edges, or_assoc]

theorem addTask_endIn {g : G} (hg : EndIn g) (t : TaskSpec) : EndIn (addTask g t) := by
  unfold addTask
  simp only []
  exact foldl_addEdge_endIn t.prods (fun _ => tv t.id) (fun p => nv p) _
    (foldl_addEdge_endIn t.deps (fun d => nv d) (fun _ => tv t.id) _ (endIn_addNode hg _))

theorem foldl_addTask_edges (l : List TaskSpec) (g : G) (e : Nat × Nat) :
    e ∈ (l.foldl addTask g).edges ↔ e ∈ g.edges ∨ ∃ t ∈ l, (∃ d ∈ t.deps, e = (nv d, tv t.id)) ∨ (∃ p ∈ t.prods, e = (tv t.id, nv p)) := by
  induction l generalizing g with
  | nil => simp
  | cons y ys ih =>
    simp only [List.foldl_cons, ih, mem_addTask_edges, List.mem_cons]
    constructor
    · rintro ((h | h) | ⟨x, hx, h⟩)
      · exact Or.inl h
      · exact Or.inr ⟨y, Or.inl rfl, h⟩
      · exact Or.inr ⟨x, Or.inr hx, h⟩
    · rintro (h | ⟨x, rfl | hx, h⟩)
      · exact Or.inl (Or.inl h)
      · exact Or.inl (Or.inr h)
      · exact Or.inr ⟨x, hx, h⟩

theorem foldl_addTask_endIn (l : List TaskSpec) (g : G) (hg : EndIn g) : EndIn (l.foldl addTask g) := by
  induction l generalizing g with
  | nil => exact hg
  | cons y ys ih => exact ih _ (addTask_endIn hg y)

/-- edges of `_create_dag_from_tasks`: dependency ⟶ task and task ⟶ product, nothing else -/
theorem mem_baseGraph_edges {P : Project} {e : Nat × Nat} :
    e ∈ (baseGraph P).edges ↔ ∃ t ∈ P.tasks, (∃ d ∈ t.deps, e = (nv d, tv t.id)) ∨ (∃ p ∈ t.prods, e = (tv t.id, nv p)) := by
  rw [baseGraph_eq, foldl_addTask_edges]
  simp [G.empty]

theorem baseGraph_endIn (P : Project) : EndIn (baseGraph P) := by
  rw [baseGraph_eq]
  exact foldl_addTask_endIn _ _ (by intro u v h; simp [G.empty] at h)

/-- `g'` extends `g` by edges that point to task vertices only -/
def Ext (g g' : G) : Prop := (∀ e, e ∈ g.edges → e ∈ g'.edges) ∧ ∀ e, e ∈ g'.edges → e ∈ g.edges ∨ isTaskV e.2 = true

theorem Ext.refl (g : G) : Ext g g := ⟨fun _ h => h, fun _ h => Or.inl h⟩
theorem Ext.trans {a b c : G} (h1 : Ext a b) (h2 : Ext b c) : Ext a c :=
  ⟨fun e h => h2.1 e (h1.1 e h), fun e h => by
    rcases h2.2 e h with h | h
    · exact h1.2 e h
    · exact Or.inr h⟩

theorem ext_foldl {α} (f : G → α → G) (hf : ∀ g x, Ext g (f g x)) (l : List α) (g : G) : Ext g (l.foldl f g) := by
  induction l generalizing g with
  | nil => exact Ext.refl g
  | cons y ys ih => exact (hf g y).trans (ih _)

theorem ext_addEdge_task (g : G) (s t : Nat) : Ext g (g.addEdge s (tv t)) :=
  ⟨fun e h => mem_addEdge_edges.2 (Or.inl h), fun e h => by
    rcases mem_addEdge_edges.1 h with h | rfl
    · exact Or.inl h
    · exact Or.inr (isTaskV_tv t)⟩

theorem ext_modifyDag (P : Project) (g : G) : Ext g (modifyDag P g) := by
  unfold modifyDag
  apply ext_foldl
  intro g t
  apply ext_foldl
  intro g o
  split
  · exact Ext.refl g
  · apply ext_foldl
    intro g s
    exact ext_addEdge_task g s t.id

/-- What the build loop needs to know about the graph. -/
structure GraphOK (P : Project) (g : G) : Prop where
  /-- every declared product is a successor of its task -/
  prodEdge : ∀ spec ∈ P.tasks, ∀ p ∈ spec.prods, (tv spec.id, nv p) ∈ g.edges
  /-- `_check_if_tasks_have_the_same_products`: a node has at most one producer -/
  uniq : ∀ a b p, (a, nv p) ∈ g.edges → (b, nv p) ∈ g.edges → a = b

theorem two_mem_length {l : List Nat} {a b : Nat} (ha : a ∈ l) (hb : b ∈ l) (hne : a ≠ b) : 2 ≤ l.length := by
  match l, ha, hb with
  | [x], ha, hb => simp at ha hb; omega
  | _ :: _ :: _, _, _ => simp

theorem createDag_eq (P : Project) (cfg : Cfg) : createDag P cfg =
    (if (baseGraph P).hasCycle then .error .cycle
     else if sharedProduct (baseGraph P) then .error .sharedProduct
     else if (modifyDag P (baseGraph P)).hasCycle then .error .cycle
     else .ok (modifyDag P (baseGraph P), deselected P (modifyDag P (baseGraph P)) cfg)) := by
  unfold createDag
  simp [Generated.dagPipeline, createDag.go]

theorem createDag_graphOK {P : Project} {cfg : Cfg} {g : G} {marks : List Nat}
    (h : createDag P cfg = .ok (g, marks)) : GraphOK P g := by
  rw [createDag_eq] at h
  split at h
  · cases h
  split at h
  · cases h
  rename_i hshared
  split at h
  · cases h
  cases h
  have hext := ext_modifyDag P (baseGraph P)
  constructor
  · intro spec hs p hp
    exact hext.1 _ (mem_baseGraph_edges.2 ⟨spec, hs, Or.inr ⟨p, hp, rfl⟩⟩)
  · intro a b p ha hb
    have ha' : (a, nv p) ∈ (baseGraph P).edges := by
      rcases hext.2 _ ha with h | h
      · exact h
      · simp [isTaskV_nv] at h
    have hb' : (b, nv p) ∈ (baseGraph P).edges := by
      rcases hext.2 _ hb with h | h
      · exact h
      · simp [isTaskV_nv] at h
    apply Classical.byContradiction
    intro hne
    have hnode := (baseGraph_endIn P _ _ ha').2
    have hlen := two_mem_length (mem_preds.2 ha') (mem_preds.2 hb') hne
    apply hshared
    unfold sharedProduct
    simp only [List.any_eq_true, Bool.and_eq_true, Bool.not_eq_true', decide_eq_true_eq]
    exact ⟨nv p, hnode, isTaskV_nv p, by omega⟩

/-- The dry-run flag, `force` and the failure limit play no role in `create_dag_from_session`. -/
theorem createDag_congr (P : Project) (cfg cfg' : Cfg) (hk : cfg.selK = cfg'.selK) (hm : cfg.selM = cfg'.selM) :
    createDag P cfg = createDag P cfg' := by
  rw [createDag_eq, createDag_eq]
  unfold deselected
  rw [hk, hm]

end EngineDry
end Pytask
