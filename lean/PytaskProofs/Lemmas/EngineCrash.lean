import PytaskModel.EngineCrash
/-! Refinement lemmas: the step lists of `EngineCrash.lean` compute the worlds of `Engine.lean`. -/
namespace Pytask
namespace Engine

@[simp] theorem applySteps_nil (w : World) : applySteps w [] = w := rfl
@[simp] theorem applySteps_cons (w : World) (s : Step) (st : List Step) :
    applySteps w (s :: st) = applySteps (applyStep w s) st := rfl
theorem applySteps_append (w : World) (a b : List Step) :
    applySteps w (a ++ b) = applySteps (applySteps w a) b := by
  simp [applySteps, List.foldl_append]

/-- The extracted facts the step model rests on (a change in the source changes these terms). -/
theorem rows_one_commit_each : Generated.rowsOneCommitEach = true := rfl
theorem memo_single_write : Generated.memoSingleWrite = true := rfl

theorem neighboursBy_eq (g : G) (t : Nat) : neighboursBy Generated.neighbourOrder g t = neighbours g t := by
  simp [neighboursBy, Generated.neighbourOrder, neighbours]

theorem recordsOn_none : recordsOn .none = true := by decide
theorem recordsOn_persisted : recordsOn .persisted = true := by decide

/-! ### body writes -/

theorem applySteps_writes (l : List (Nat × Nat)) (c : Nat → Nat) (skip : Option Nat) (w : World) :
    applySteps w (l.filterMap (fun (pi : Nat × Nat) => if some pi.2 == skip then none else some (Step.write pi.1 (c pi.2)))) =
    { w with fs := l.foldl (fun fs (pi : Nat × Nat) => if some pi.2 == skip then fs else insert fs pi.1 (c pi.2)) w.fs } := by
  induction l generalizing w with
  | nil => rfl
  | cons a l ih =>
    simp only [List.filterMap_cons, List.foldl_cons]
    by_cases h : (some a.2 == skip) = true
    · simp only [h, if_true]; exact ih w
    · simp only [h, if_false, applySteps_cons, Bool.false_eq_true]
      rw [ih]; rfl

theorem applySteps_body (F : BodyFn) (t : TaskSpec) (w : World) :
    applySteps w (bodySteps F t w.fs) = { w with fs := (runBody F t w.fs).1 } := by
  unfold bodySteps runBody
  by_cases hd : ((t.deps.map (lookup w.fs)).any (·.isNone)) = true
  · simp [hd]
  · simp only [hd, if_false, Bool.false_eq_true]
    cases t.beh <;> simp only [writeSteps, applySteps_nil] <;> first | rfl | exact applySteps_writes t.prods.zipIdx (fun i => F t.id i (lookup w.fs t.src) (t.deps.map (lookup w.fs))) _ w

/-! ### row commits -/

@[simp] theorem stateOf_db (P : Project) (w : World) (d : DB) (v : Nat) : stateOf P { w with db := d } v = stateOf P w v := rfl

theorem rowSteps_db (P : Project) (w : World) (d : DB) (t : Nat) (vs : List Nat) :
    rowSteps P { w with db := d } t vs = rowSteps P w t vs := by
  induction vs with
  | nil => rfl
  | cons v vs ih => simp only [rowSteps, stateOf_db, ih]

theorem applySteps_rows (P : Project) (g : G) (t : Nat) (vs : List Nat) (w : World) :
    applySteps w (rowSteps P w t vs) = (updateStates P g w t vs).1 := by
  induction vs generalizing w with
  | nil => rfl
  | cons v vs ih =>
    unfold rowSteps updateStates
    cases h : stateOf P w v with
    | none => rfl
    | some x =>
      simp only [applySteps_cons, applyStep]
      rw [← rowSteps_db P w (insert w.db (tv t, v) x) t vs]
      exact ih _

/-! ### phases, report, protocol, loop, build -/

theorem applySteps_phases (F : BodyFn) (P : Project) (g : G) (cfg : Cfg) (s : Sess) (t : TaskSpec) :
    applySteps s.w (phaseSteps F P g cfg s t) = (runPhases F P g cfg s t).2.w := by
  unfold phaseSteps runPhases
  cases hsc : setupChain P g cfg s t Generated.setupOrder <;> simp only [applySteps_nil]
  by_cases hdry : cfg.dry = true
  · simp [hdry]
  · simp only [hdry, if_false, Bool.false_eq_true, applySteps_body]
    by_cases h1 : (runBody F t s.w.fs).2 = true <;>
      by_cases h2 : (t.prods.any fun p => (lookup (runBody F t s.w.fs).1 p).isNone) = true <;> simp [h1, h2]

theorem reportSteps_none (P : Project) (g : G) (cfg : Cfg) (s : Sess) (t : TaskSpec) :
    reportSteps P g cfg s t .none = if cfg.dry then [] else rowSteps P s.w t.id (neighbours g t.id) := by
  unfold reportSteps; rw [recordsOn_none, neighboursBy_eq]; cases cfg.dry <;> rfl

theorem reportSteps_persisted (P : Project) (g : G) (cfg : Cfg) (s : Sess) (t : TaskSpec) :
    reportSteps P g cfg s t .persisted = if cfg.dry then [] else rowSteps P s.w t.id (neighbours g t.id) := by
  unfold reportSteps; rw [recordsOn_persisted, neighboursBy_eq]; cases cfg.dry <;> rfl

theorem reportSteps_other (P : Project) (g : G) (cfg : Cfg) (s : Sess) (t : TaskSpec) (r : Raised)
    (h1 : r ≠ .none) (h2 : r ≠ .persisted) : reportSteps P g cfg s t r = [] := by
  cases r <;> first | exact absurd rfl h1 | exact absurd rfl h2 | rfl

theorem applySteps_report (P : Project) (g : G) (cfg : Cfg) (s : Sess) (t : TaskSpec) (r : Raised) :
    applySteps s.w (reportSteps P g cfg s t r) = (processReport P g cfg s t r).w := by
  cases r
  case none =>
    rw [reportSteps_none]; unfold processReport recordStates
    by_cases hdry : cfg.dry = true
    · simp [hdry]
    · simp only [hdry, if_false, Bool.false_eq_true, applySteps_rows P g]
      split <;> rfl
  case persisted =>
    rw [reportSteps_persisted]; unfold processReport recordStates
    by_cases hdry : cfg.dry = true
    · simp [hdry]
    · simp only [hdry, if_false, Bool.false_eq_true, applySteps_rows P g]
  all_goals (rw [reportSteps_other _ _ _ _ _ _ (by simp) (by simp)]; rfl)

theorem applySteps_protocol (F : BodyFn) (P : Project) (g : G) (cfg : Cfg) (s : Sess) (t : TaskSpec) :
    applySteps s.w (protocolSteps F P g cfg s t) = (protocol F P g cfg s t).w := by
  unfold protocolSteps protocol
  simp only [applySteps_append, applySteps_phases]
  exact applySteps_report P g cfg _ t _

theorem applySteps_loop (F : BodyFn) (P : Project) (g : G) (cfg : Cfg) :
    ∀ (picks : List Nat) (so : Sorter) (s : Sess) (so' : Sorter) (s' : Sess),
      buildLoop F P g cfg so s picks = .ok (so', s') → applySteps s.w (loopSteps F P g cfg so s picks) = s'.w
  | [], so, s, so', s', h => by
    simp only [buildLoop, Except.ok.injEq, Prod.mk.injEq] at h
    obtain ⟨_, rfl⟩ := h
    rfl
  | t :: ts, so, s, so', s', h => by
    unfold buildLoop at h
    unfold loopSteps
    split at h
    · cases h
    rename_i h1
    split at h
    · cases h
    rename_i h2
    rw [if_neg h1, if_neg h2]
    split at h
    · cases h
    rename_i spec hfind
    simp only [hfind]
    rw [applySteps_append, applySteps_protocol]
    exact applySteps_loop F P g cfg ts _ _ so' s' h

theorem applySteps_build (F : BodyFn) (P : Project) (cfg : Cfg) (w : World) (picks : List Nat) (r : Result)
    (h : build F P cfg w picks = .ok r) : applySteps w (buildSteps F P cfg w picks) = r.w := by
  unfold build at h
  unfold buildSteps
  split at h
  · rename_i hdag
    cases h; simp [hdag]
  · rename_i g marks hdag
    simp only [hdag]
    split at h
    · rename_i hso
      cases h; simp [hso]
    · rename_i so hso
      simp only [hso]
      simp only [] at h
      split at h
      · cases h
      · rename_i so' s' hloop
        cases h
        exact applySteps_loop F P g cfg picks so _ so' s' hloop

end Engine
end Pytask
