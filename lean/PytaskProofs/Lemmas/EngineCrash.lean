import PytaskModel.EngineCrash
/-! Refinement lemmas: the step lists of `EngineCrash.lean` compute the worlds of `Engine.lean`. -/
namespace Pytask
namespace Engine

@[simp] theorem applySteps_nil (w : World) : applySteps w [] = w := rfl
@[simp] theorem applySteps_cons (w : World) (s : Step) (st : List Step) :
    applySteps w (s :: st) = applySteps (applyStep w s) st := rfl
theorem applySteps_append (w : World) (a b : List Step) :
    applySteps w (a ++ b) = applySteps (applySteps w a) b := by
  simp [applySteps, List.foldl_append]

theorem neighboursBy_eq (g : G) (t : Nat) : neighboursBy Generated.neighbourOrder g t = neighbours g t := by
  simp [neighboursBy, Generated.neighbourOrder, neighbours]

theorem recordsOn_none : recordsOn .none = true := by decide
theorem recordsOn_persisted : recordsOn .persisted = true := by decide

/-! ### body writes -/

theorem applySteps_writes (l : List (Nat × Nat)) (c : Nat → Nat) (skip : Option Nat) (w : World) :
    applySteps w (l.filterMap (fun (pi : Nat × Nat) => if some pi.2 == skip then none else some (Step.write pi.1 (c pi.2)))) =
    { w with fs := l.foldl (fun fs (pi : Nat × Nat) => if some pi.2 == skip then fs else insert fs pi.1 (c pi.2)) w.fs } := by
  induction l generalizing w with
  | nil => rfl
  | cons a l ih =>
    simp only [List.filterMap_cons, List.foldl_cons]
    by_cases h : (some a.2 == skip) = true
    · simp only [h, if_true]; exact ih w
    · simp only [h, if_false, applySteps_cons, Bool.false_eq_true]
      rw [ih]; rfl

theorem applySteps_body (F : BodyFn) (t : TaskSpec) (w : World) :
    applySteps w (bodySteps F t w.fs) = { w with fs := (runBody F t w.fs).1 } := by
  unfold bodySteps runBody
  by_cases hd : ((t.deps.map (lookup w.fs)).any (·.isNone)) = true
  · simp [hd]
  · simp only [hd, if_false, Bool.false_eq_true]
    cases t.beh <;> simp only [writeSteps, applySteps_nil] <;> first | rfl | exact applySteps_writes t.prods.zipIdx (fun i => F t.id i (lookup w.fs t.src) (t.deps.map (lookup w.fs))) _ w

/-! ### row commits -/

@[simp] theorem stateOf_db (P : Project) (w : World) (d : DB) (v : Nat) : stateOf P { w with db := d } v = stateOf P w v := rfl

theorem rowSteps_db (P : Project) (w : World) (d : DB) (t : Nat) (vs : List Nat) :
    rowStepsEach P { w with db := d } t vs = rowStepsEach P w t vs := by
  induction vs with
  | nil => rfl
  | cons v vs ih => simp only [rowStepsEach, stateOf_db, ih]

theorem applySteps_rows (P : Project) (g : G) (t : Nat) (vs : List Nat) (w : World) :
    applySteps w (rowStepsEach P w t vs) = (updateStates P g w t vs).1 := by
  induction vs generalizing w with
  | nil => rfl
  | cons v vs ih =>
    unfold rowStepsEach updateStates
    cases h : stateOf P w v with
    | none => rfl
    | some x =>
      simp only [applySteps_cons, applyStep]
      rw [← rowSteps_db P w (insert w.db (tv t, v) x) t vs]
      exact ih _

/-! ### phases, report, protocol, loop, build -/

theorem applySteps_phases (F : BodyFn) (P : Project) (g : G) (cfg : Cfg) (s : Sess) (t : TaskSpec) :
    applySteps s.w (phaseSteps F P g cfg s t) = (runPhases F P g cfg s t).2.w := by
  unfold phaseSteps runPhases
  cases hsc : setupChain P g cfg s t Generated.setupOrder <;> simp only [applySteps_nil]
  by_cases hdry : cfg.dry = true
  · simp [hdry]
  · simp only [hdry, if_false, Bool.false_eq_true, applySteps_body]
    by_cases h1 : (runBody F t s.w.fs).2 = true <;>
      by_cases h2 : (t.prods.any fun p => (lookup (runBody F t s.w.fs).1 p).isNone) = true <;> simp [h1, h2]

theorem reportSteps_none (P : Project) (g : G) (cfg : Cfg) (s : Sess) (t : TaskSpec) :
    reportStepsEach P g cfg s t .none = if cfg.dry then [] else rowStepsEach P s.w t.id (neighbours g t.id) := by
  unfold reportStepsEach; rw [recordsOn_none, neighboursBy_eq]; cases cfg.dry <;> rfl

theorem reportSteps_persisted (P : Project) (g : G) (cfg : Cfg) (s : Sess) (t : TaskSpec) :
    reportStepsEach P g cfg s t .persisted = if cfg.dry then [] else rowStepsEach P s.w t.id (neighbours g t.id) := by
  unfold reportStepsEach; rw [recordsOn_persisted, neighboursBy_eq]; cases cfg.dry <;> rfl

theorem reportSteps_other (P : Project) (g : G) (cfg : Cfg) (s : Sess) (t : TaskSpec) (r : Raised)
    (h1 : r ≠ .none) (h2 : r ≠ .persisted) : reportStepsEach P g cfg s t r = [] := by
  cases r <;> first | exact absurd rfl h1 | exact absurd rfl h2 | rfl

theorem applySteps_report (P : Project) (g : G) (cfg : Cfg) (s : Sess) (t : TaskSpec) (r : Raised) :
    applySteps s.w (reportStepsEach P g cfg s t r) = (processReport P g cfg s t r).w := by
  cases r
  case none =>
    rw [reportSteps_none]; unfold processReport recordStates
    by_cases hdry : cfg.dry = true
    · simp [hdry]
    · simp only [hdry, if_false, Bool.false_eq_true, applySteps_rows P g]
      split <;> rfl
  case persisted =>
    rw [reportSteps_persisted]; unfold processReport recordStates
    by_cases hdry : cfg.dry = true
    · simp [hdry]
    · simp only [hdry, if_false, Bool.false_eq_true, applySteps_rows P g]
  all_goals (rw [reportSteps_other _ _ _ _ _ _ (by simp) (by simp)]; rfl)

theorem applySteps_protocol (F : BodyFn) (P : Project) (g : G) (cfg : Cfg) (s : Sess) (t : TaskSpec) :
    applySteps s.w (protocolStepsEach F P g cfg s t) = (protocol F P g cfg s t).w := by
  unfold protocolStepsEach protocol
  simp only [applySteps_append, applySteps_phases]
  exact applySteps_report P g cfg _ t _

theorem applySteps_loop (F : BodyFn) (P : Project) (g : G) (cfg : Cfg) :
    ∀ (picks : List Nat) (so : Sorter) (s : Sess) (so' : Sorter) (s' : Sess),
      buildLoop F P g cfg so s picks = .ok (so', s') → applySteps s.w (loopStepsEach F P g cfg so s picks) = s'.w
  | [], so, s, so', s', h => by
    simp only [buildLoop, Except.ok.injEq, Prod.mk.injEq] at h
    obtain ⟨_, rfl⟩ := h
    rfl
  | t :: ts, so, s, so', s', h => by
    unfold buildLoop at h
    unfold loopStepsEach
    split at h
    · cases h
    rename_i h1
    split at h
    · cases h
    rename_i h2
    rw [if_neg h1, if_neg h2]
    split at h
    · cases h
    rename_i spec hfind
    simp only [hfind]
    rw [applySteps_append, applySteps_protocol]
    exact applySteps_loop F P g cfg ts _ _ so' s' h

theorem applySteps_build (F : BodyFn) (P : Project) (cfg : Cfg) (w : World) (picks : List Nat) (r : Result)
    (h : build F P cfg w picks = .ok r) : applySteps w (buildStepsEach F P cfg w picks) = r.w := by
  unfold build at h
  unfold buildStepsEach
  split at h
  · rename_i hdag
    cases h; simp [hdag]
  · rename_i g marks hdag
    simp only [hdag]
    split at h
    · rename_i hso
      cases h; simp [hso]
    · rename_i so hso
      simp only [hso]
      simp only [] at h
      split at h
      · cases h
      · rename_i so' s' hloop
        cases h
        exact applySteps_loop F P g cfg picks so _ so' s' hloop

end Engine
end Pytask

/-! ## Association lists -/
namespace Pytask
namespace Engine

theorem lookup_insert_self {κ} [BEq κ] [LawfulBEq κ] (m : List (κ × Nat)) (k : κ) (v : Nat) :
    lookup (insert m k v) k = some v := by
  simp [lookup, insert]

theorem cr_lookup_insert_ne {κ} [BEq κ] [LawfulBEq κ] (m : List (κ × Nat)) (k k' : κ) (v : Nat) (h : k' ≠ k) :
    lookup (insert m k v) k' = lookup m k' := by
  unfold lookup insert
  have hk : (k == k') = false := by simpa using (Ne.symm h)
  simp only [List.find?_cons, hk]
  induction m with
  | nil => rfl
  | cons e m ih =>
    by_cases he : (e.1 == k) = true
    · have he' : (e.1 == k') = false := by
        have : e.1 = k := by simpa using he
        simpa [this] using (Ne.symm h)
      simp only [List.filter_cons, he, Bool.not_true, Bool.false_eq_true, if_false, List.find?_cons, he']
      exact ih
    · simp only [List.filter_cons, he, Bool.not_false, if_true, List.find?_cons]
      cases hek : (e.1 == k') with
      | true => rfl
      | false => exact ih

end Engine
end Pytask

/-! ## The invariants -/
namespace Pytask
namespace Engine

/-- Every neighbour of `t` (dependencies, products of `after` targets, the task's module, products) exists and its row for
`t` equals its current state: exactly the condition under which `pytask_execute_task_setup` raises `SkippedUnchanged`. -/
def RowsMatch (P : Project) (g : G) (w : World) (t : Nat) : Prop :=
  ∀ v ∈ neighbours g t, ∃ h, stateOf P w v = some h ∧ lookup w.db (tv t, v) = some h

/-- The products of `t` on disk are what its body produces from the module and dependency contents on disk. -/
def Fresh (F : BodyFn) (w : World) (t : TaskSpec) : Prop :=
  ∀ pi ∈ t.prods.zipIdx, lookup w.fs pi.1 = some (F t.id pi.2 (lookup w.fs t.src) (t.deps.map (lookup w.fs)))

/-- The C02 invariant: a task that pytask would report unchanged has fresh products. -/
def Inv (F : BodyFn) (P : Project) (g : G) (w : World) : Prop :=
  ∀ t ∈ P.tasks, RowsMatch P g w t.id → Fresh F w t

/-- The rows of `t`, if complete, are one consistent snapshot: the recorded product states are what the body produces from
the recorded module and dependency states. A statement about the database only — no file edit can break it. -/
def RowsConsistent (F : BodyFn) (g : G) (db : DB) (t : TaskSpec) : Prop :=
  (∀ v ∈ neighbours g t.id, (lookup db (tv t.id, v)).isSome = true) →
  ∀ pi ∈ t.prods.zipIdx, lookup db (tv t.id, nv pi.1) =
    some (F t.id pi.2 (lookup db (tv t.id, tv t.id)) (t.deps.map (fun d => lookup db (tv t.id, nv d))))

def RC (F : BodyFn) (P : Project) (g : G) (db : DB) : Prop := ∀ t ∈ P.tasks, RowsConsistent F g db t

/-- Well-formedness of a project w.r.t. the graph of the build. `find`: task ids are unique. `deps`/`prods`: the graph
contains the declared edges (`_create_dag_from_tasks`). `disj`: no task consumes its own product or writes its own module
(`_check_if_dag_has_cycles`). `nodup`: one node per product path. `honest`: a body that returns normally has written every
product (the premise "task bodies write their declared products"). `noPersist`: `@pytask.mark.persist` deliberately records
stale products and is outside the claim (as in C02). -/
structure WF (P : Project) (g : G) : Prop where
  find : ∀ t ∈ P.tasks, Project.find? P t.id = some t
  deps : ∀ t ∈ P.tasks, ∀ d ∈ t.deps, nv d ∈ neighbours g t.id
  prods : ∀ t ∈ P.tasks, ∀ p ∈ t.prods, nv p ∈ neighbours g t.id
  nodup : ∀ t ∈ P.tasks, t.prods.Nodup
  disj : ∀ t ∈ P.tasks, ∀ p ∈ t.prods, p ∉ t.deps ∧ p ≠ t.src
  honest : ∀ t ∈ P.tasks, ∀ k, t.beh ≠ .omits k
  noPersist : ∀ t ∈ P.tasks, t.persist = false

theorem cr_stateOf_nv (P : Project) (w : World) (n : Nat) : stateOf P w (nv n) = lookup w.fs n := by
  unfold stateOf nv isTaskV
  have h1 : ((2 * n + 1) % 2 == 0) = false := by
    have : (2 * n + 1) % 2 = 1 := by omega
    simp [this]
  have h2 : (2 * n + 1) / 2 = n := by omega
  simp [h2]

theorem stateOf_tv (P : Project) (w : World) (t : Nat) (spec : TaskSpec) (h : Project.find? P t = some spec) :
    stateOf P w (tv t) = lookup w.fs spec.src := by
  unfold stateOf tv isTaskV
  have h1 : ((2 * t) % 2 == 0) = true := by
    have : (2 * t) % 2 = 0 := by omega
    simp [this]
  have h2 : (2 * t) / 2 = t := by omega
  simp [h2, h]

theorem tv_mem_neighbours (g : G) (t : Nat) : tv t ∈ neighbours g t := by simp [neighbours]

theorem tv_ne_of_ne {a b : Nat} (h : a ≠ b) : tv a ≠ tv b := by unfold tv; omega

theorem wf_id_inj {P : Project} {g : G} (hwf : WF P g) {t u : TaskSpec} (ht : t ∈ P.tasks) (hu : u ∈ P.tasks)
    (h : t.id = u.id) : t = u := by
  have h1 := hwf.find t ht
  have h2 := hwf.find u hu
  rw [h] at h1
  rw [h1] at h2
  exact Option.some.inj h2

/-- `RC` gives `Inv` whatever the files are. -/
theorem inv_of_rc {F : BodyFn} {P : Project} {g : G} (hwf : WF P g) (w : World) (hrc : RC F P g w.db) : Inv F P g w := by
  intro t ht hm pi hpi
  have hall : ∀ v ∈ neighbours g t.id, (lookup w.db (tv t.id, v)).isSome = true := by
    intro v hv
    obtain ⟨h, _, h2⟩ := hm v hv
    simp [h2]
  have hrow := hrc t ht hall pi hpi
  have row_eq : ∀ v ∈ neighbours g t.id, lookup w.db (tv t.id, v) = stateOf P w v := by
    intro v hv
    obtain ⟨h, h1, h2⟩ := hm v hv
    rw [h1, h2]
  have hp : pi.1 ∈ t.prods := by
    have := List.mem_zipIdx hpi
    simp at this
    rw [this.2]
    exact List.getElem_mem _
  rw [row_eq _ (hwf.prods t ht _ hp), cr_stateOf_nv] at hrow
  rw [hrow, row_eq _ (tv_mem_neighbours g t.id), stateOf_tv P w t.id t (hwf.find t ht)]
  congr 2
  apply List.map_congr_left
  intro d hd
  rw [row_eq _ (hwf.deps t ht d hd), cr_stateOf_nv]

end Engine
end Pytask

/-! ## What steps touch -/
namespace Pytask
namespace Engine

def OnlyWrites (st : List Step) : Prop := ∀ s ∈ st, ∃ n c, s = Step.write n c
def OnlyRowsOf (t : Nat) (st : List Step) : Prop := ∀ s ∈ st, ∃ v h, s = Step.row t v h

theorem OnlyWrites.take {st : List Step} (h : OnlyWrites st) (k : Nat) : OnlyWrites (st.take k) :=
  fun s hs => h s (List.mem_of_mem_take hs)
theorem OnlyRowsOf.take {t : Nat} {st : List Step} (h : OnlyRowsOf t st) (k : Nat) : OnlyRowsOf t (st.take k) :=
  fun s hs => h s (List.mem_of_mem_take hs)

theorem applySteps_onlyWrites_db {st : List Step} (h : OnlyWrites st) (w : World) : (applySteps w st).db = w.db := by
  induction st generalizing w with
  | nil => rfl
  | cons s st ih =>
    obtain ⟨n, c, rfl⟩ := h s (by simp)
    rw [applySteps_cons, ih (fun s hs => h s (List.mem_cons_of_mem _ hs))]
    rfl

theorem applySteps_onlyRows_fs {t : Nat} {st : List Step} (h : OnlyRowsOf t st) (w : World) : (applySteps w st).fs = w.fs := by
  induction st generalizing w with
  | nil => rfl
  | cons s st ih =>
    obtain ⟨v, x, rfl⟩ := h s (by simp)
    rw [applySteps_cons, ih (fun s hs => h s (List.mem_cons_of_mem _ hs))]
    rfl

theorem applySteps_onlyRows_other {t : Nat} {st : List Step} (h : OnlyRowsOf t st) (w : World) (u x : Nat) (hu : u ≠ t) :
    lookup (applySteps w st).db (tv u, x) = lookup w.db (tv u, x) := by
  induction st generalizing w with
  | nil => rfl
  | cons s st ih =>
    obtain ⟨v, y, rfl⟩ := h s (by simp)
    rw [applySteps_cons, ih (fun s hs => h s (List.mem_cons_of_mem _ hs))]
    simp only [applyStep]
    apply cr_lookup_insert_ne
    intro heq
    exact tv_ne_of_ne hu (by simpa using congrArg Prod.fst heq)

theorem rowSteps_onlyRows (P : Project) (w : World) (t : Nat) (vs : List Nat) : OnlyRowsOf t (rowStepsEach P w t vs) := by
  induction vs with
  | nil => intro s hs; cases hs
  | cons v vs ih =>
    unfold rowStepsEach
    cases hst : stateOf P w v with
    | none => intro s hs; cases hs
    | some x =>
      intro s hs
      rcases List.mem_cons.1 hs with rfl | hs
      · exact ⟨v, x, rfl⟩
      · exact ih s hs

theorem writeSteps_onlyWrites (F : BodyFn) (t : TaskSpec) (fs : FS) (skip : Option Nat) : OnlyWrites (writeSteps F t fs skip) := by
  intro s hs
  unfold writeSteps at hs
  simp only [List.mem_filterMap] at hs
  obtain ⟨pi, _, hpi⟩ := hs
  split at hpi
  · cases hpi
  · exact ⟨_, _, (Option.some.inj hpi).symm⟩

theorem bodySteps_onlyWrites (F : BodyFn) (t : TaskSpec) (fs : FS) : OnlyWrites (bodySteps F t fs) := by
  unfold bodySteps
  split
  · intro s hs; cases hs
  · cases t.beh <;> first | exact writeSteps_onlyWrites F t fs _ | (intro s hs; cases hs)

theorem phaseSteps_onlyWrites (F : BodyFn) (P : Project) (g : G) (cfg : Cfg) (s : Sess) (t : TaskSpec) :
    OnlyWrites (phaseSteps F P g cfg s t) := by
  unfold phaseSteps
  split
  · split
    · intro s hs; cases hs
    · exact bodySteps_onlyWrites F t _
  · intro s hs; cases hs

theorem reportSteps_onlyRows (P : Project) (g : G) (cfg : Cfg) (s : Sess) (t : TaskSpec) (r : Raised) :
    OnlyRowsOf t.id (reportStepsEach P g cfg s t r) := by
  unfold reportStepsEach
  split
  · exact rowSteps_onlyRows P s.w t.id _
  · intro s hs; cases hs

/-- Transfer of row consistency between databases that agree on the rows of `t`. -/
theorem RowsConsistent.congr {F : BodyFn} {g : G} {db db' : DB} {t : TaskSpec}
    (h : ∀ x, lookup db' (tv t.id, x) = lookup db (tv t.id, x)) (hc : RowsConsistent F g db t) : RowsConsistent F g db' t := by
  intro hall pi hpi
  have := hc (fun v hv => by rw [← h]; exact hall v hv) pi hpi
  rw [h, this, h]
  congr 2
  apply List.map_congr_left
  intro d _
  rw [h]

/-- L1: steps that only write files keep `Inv` as long as the rows are consistent. -/
theorem inv_after_writes {F : BodyFn} {P : Project} {g : G} (hwf : WF P g) (w : World) (hrc : RC F P g w.db)
    {st : List Step} (h : OnlyWrites st) : Inv F P g (applySteps w st) :=
  inv_of_rc hwf _ (by rw [applySteps_onlyWrites_db h]; exact hrc)

/-- L2: while the rows of `spec` are being committed one by one, `Inv` holds: `spec`'s products are fresh whatever its rows
say, every other task still has a consistent row set. -/
theorem inv_after_rows {F : BodyFn} {P : Project} {g : G} (hwf : WF P g) (w : World) (hrc : RC F P g w.db)
    (spec : TaskSpec) (hspec : spec ∈ P.tasks) (hfresh : Fresh F w spec) {st : List Step} (h : OnlyRowsOf spec.id st) :
    Inv F P g (applySteps w st) := by
  intro u hu hm
  by_cases heq : u = spec
  · subst heq
    intro pi hpi
    rw [applySteps_onlyRows_fs h]
    exact hfresh pi hpi
  · have hid : u.id ≠ spec.id := fun hid => heq (wf_id_inj hwf hu hspec hid)
    have hcu : RowsConsistent F g (applySteps w st).db u :=
      RowsConsistent.congr (fun x => applySteps_onlyRows_other h w u.id x hid) (hrc u hu)
    -- the argument of `inv_of_rc`, for the single task `u`
    have hall : ∀ v ∈ neighbours g u.id, (lookup (applySteps w st).db (tv u.id, v)).isSome = true := by
      intro v hv
      obtain ⟨x, _, h2⟩ := hm v hv
      simp [h2]
    intro pi hpi
    have hrow := hcu hall pi hpi
    have row_eq : ∀ v ∈ neighbours g u.id, lookup (applySteps w st).db (tv u.id, v) = stateOf P (applySteps w st) v := by
      intro v hv
      obtain ⟨x, h1, h2⟩ := hm v hv
      rw [h1, h2]
    have hp : pi.1 ∈ u.prods := by
      have := List.mem_zipIdx hpi
      simp at this
      rw [this.2]
      exact List.getElem_mem _
    rw [row_eq _ (hwf.prods u hu _ hp), cr_stateOf_nv] at hrow
    rw [hrow, row_eq _ (tv_mem_neighbours g u.id), stateOf_tv P _ u.id u (hwf.find u hu)]
    congr 2
    apply List.map_congr_left
    intro d hd
    rw [row_eq _ (hwf.deps u hu d hd), cr_stateOf_nv]

end Engine
end Pytask

/-! ## The body leaves fresh products -/
namespace Pytask
namespace Engine

theorem lookup_writeAll_other (c : Nat → Nat) (l : List (Nat × Nat)) (fs : FS) (q : Nat) (hq : ∀ pi ∈ l, pi.1 ≠ q) :
    lookup (l.foldl (fun fs (pi : Nat × Nat) => if some pi.2 == (none : Option Nat) then fs else insert fs pi.1 (c pi.2)) fs) q
      = lookup fs q := by
  induction l generalizing fs with
  | nil => rfl
  | cons a l ih =>
    simp only [List.foldl_cons]
    rw [ih _ (fun pi h => hq pi (List.mem_cons_of_mem _ h))]
    have : (some a.2 == (none : Option Nat)) = false := rfl
    simp only [this, Bool.false_eq_true, if_false]
    exact cr_lookup_insert_ne _ _ _ _ (Ne.symm (hq a (by simp)))

theorem lookup_writeAll_mem (c : Nat → Nat) (l : List (Nat × Nat)) (fs : FS) (hnd : (l.map (·.1)).Nodup)
    (pi : Nat × Nat) (hpi : pi ∈ l) :
    lookup (l.foldl (fun fs (pi : Nat × Nat) => if some pi.2 == (none : Option Nat) then fs else insert fs pi.1 (c pi.2)) fs) pi.1
      = some (c pi.2) := by
  induction l generalizing fs with
  | nil => cases hpi
  | cons a l ih =>
    simp only [List.map_cons, List.nodup_cons] at hnd
    simp only [List.foldl_cons]
    have hf : (some a.2 == (none : Option Nat)) = false := rfl
    rcases List.mem_cons.1 hpi with rfl | hin
    · rw [lookup_writeAll_other c l _ pi.1 (fun q hq heq => hnd.1 (by rw [← heq]; exact List.mem_map_of_mem hq))]
      simp only [hf, Bool.false_eq_true, if_false]
      exact lookup_insert_self _ _ _
    · exact ih _ hnd.2 hin

theorem mem_prods_of_mem_zipIdx {l : List Nat} {pi : Nat × Nat} (h : pi ∈ l.zipIdx) : pi.1 ∈ l := by
  have := List.mem_zipIdx h
  simp at this
  rw [this.2]
  exact List.getElem_mem _

theorem zipIdx_map_fst (l : List Nat) (k : Nat) : (l.zipIdx k).map (·.1) = l := by
  induction l generalizing k with
  | nil => rfl
  | cons a l ih => simp [List.zipIdx_cons, ih]

/-- After setup, body and teardown of `t` went through without an exception (`runPhases … = .none`), the products of `t`
on disk are the body's function of the module and dependency contents on disk. -/
theorem runPhases_none_fresh (F : BodyFn) (P : Project) (g : G) (cfg : Cfg) (s : Sess) (t : TaskSpec)
    (hnd : t.prods.Nodup) (hdisj : ∀ p ∈ t.prods, p ∉ t.deps ∧ p ≠ t.src) (hon : ∀ k, t.beh ≠ .omits k)
    (h : (runPhases F P g cfg s t).1 = .none) : Fresh F (runPhases F P g cfg s t).2.w t := by
  unfold runPhases at h ⊢
  cases hsc : setupChain P g cfg s t Generated.setupOrder <;> simp only [hsc] at h ⊢ <;> try (exact Raised.noConfusion h)
  by_cases hdry : cfg.dry = true
  · simp [hdry] at h
  simp only [hdry, Bool.false_eq_true, if_false] at h ⊢
  by_cases h1 : (runBody F t s.w.fs).2 = true
  · simp [h1] at h
  by_cases h2 : (t.prods.any fun p => (lookup (runBody F t s.w.fs).1 p).isNone) = true
  · simp [h1, h2] at h
  simp only [h1, h2, Bool.false_eq_true, if_false]
  -- the body ran to completion with behaviour `ok`
  unfold runBody at h1 ⊢
  by_cases hd : ((t.deps.map (lookup s.w.fs)).any (·.isNone)) = true
  · simp [hd] at h1
  simp only [hd, Bool.false_eq_true, if_false] at h1 ⊢
  cases hb : t.beh <;> simp only [hb] at h1 ⊢ <;> try (exact absurd trivial h1)
  case omits k => exact absurd hb (hon k)
  intro pi hpi
  have hnd' : ((t.prods.zipIdx).map (·.1)).Nodup := by rw [zipIdx_map_fst]; exact hnd
  simp only []
  rw [lookup_writeAll_mem (fun i => F t.id i (lookup s.w.fs t.src) (t.deps.map (lookup s.w.fs))) _ _ hnd' pi hpi]
  rw [lookup_writeAll_other (fun i => F t.id i (lookup s.w.fs t.src) (t.deps.map (lookup s.w.fs))) t.prods.zipIdx s.w.fs
    t.src (fun q hq heq => (hdisj q.1 (mem_prods_of_mem_zipIdx hq)).2 heq)]
  congr 2
  apply List.map_congr_left
  intro d hd'
  rw [lookup_writeAll_other (fun i => F t.id i (lookup s.w.fs t.src) (t.deps.map (lookup s.w.fs))) t.prods.zipIdx s.w.fs
    d (fun q hq heq => (hdisj q.1 (mem_prods_of_mem_zipIdx hq)).1 (heq ▸ hd'))]

end Engine
end Pytask

/-! ## Complete protocols keep the rows consistent; prefixes of a protocol keep `Inv` -/
namespace Pytask
namespace Engine

theorem cr_updateStates_fs (P : Project) (g : G) (w : World) (t : Nat) (vs : List Nat) : (updateStates P g w t vs).1.fs = w.fs := by
  rw [← applySteps_rows]; exact applySteps_onlyRows_fs (rowSteps_onlyRows P w t vs) w

theorem updateStates_other (P : Project) (g : G) (w : World) (t : Nat) (vs : List Nat) (u x : Nat) (hu : u ≠ t) :
    lookup (updateStates P g w t vs).1.db (tv u, x) = lookup w.db (tv u, x) := by
  rw [← applySteps_rows]; exact applySteps_onlyRows_other (rowSteps_onlyRows P w t vs) w u x hu

/-- A row written by a completed `update_states_in_database` holds the state the node had then. -/
theorem cr_updateStates_ok (P : Project) (g : G) (t : Nat) (vs : List Nat) (w : World)
    (hok : (updateStates P g w t vs).2 = true) :
    (∀ v ∈ vs, ∃ h, stateOf P w v = some h ∧ lookup (updateStates P g w t vs).1.db (tv t, v) = some h) ∧
    (∀ x, x ∉ vs → lookup (updateStates P g w t vs).1.db (tv t, x) = lookup w.db (tv t, x)) := by
  induction vs generalizing w with
  | nil => exact ⟨fun v hv => (by cases hv), fun x _ => rfl⟩
  | cons v vs ih =>
    unfold updateStates at hok ⊢
    cases hst : stateOf P w v with
    | none => simp [hst] at hok
    | some h =>
      simp only [hst] at hok ⊢
      have ih' := ih { w with db := insert w.db (tv t, v) h } hok
      simp only [stateOf_db] at ih'
      refine ⟨?_, ?_⟩
      · intro x hx
        by_cases hxin : x ∈ vs
        · exact ih'.1 x hxin
        · rcases List.mem_cons.1 hx with rfl | hx'
          · refine ⟨h, hst, ?_⟩
            rw [ih'.2 x hxin]
            exact lookup_insert_self _ _ _
          · exact absurd hx' hxin
      · intro x hx
        simp only [List.mem_cons, not_or] at hx
        rw [ih'.2 x hx.2]
        apply cr_lookup_insert_ne
        intro heq
        exact hx.1 (by simpa using congrArg Prod.snd heq)

theorem setupImpl_ne_persisted (P : Project) (g : G) (cfg : Cfg) (s : Sess) (t : TaskSpec) (name : String)
    (hp : t.persist = false) : setupImpl P g cfg s t name ≠ .persisted := by
  unfold setupImpl
  simp only [hp, Bool.false_and, Bool.false_eq_true, if_false]
  repeat' split
  all_goals simp

theorem setupChain_ne_persisted (P : Project) (g : G) (cfg : Cfg) (s : Sess) (t : TaskSpec) (hp : t.persist = false)
    (order : List String) : setupChain P g cfg s t order ≠ .persisted := by
  induction order with
  | nil => simp [setupChain]
  | cons n ns ih =>
    unfold setupChain
    have := setupImpl_ne_persisted P g cfg s t n hp
    cases hr : setupImpl P g cfg s t n <;> simp only [] <;>
      first | exact ih | exact absurd hr this | (intro h; cases h)

theorem runPhases_ne_persisted (F : BodyFn) (P : Project) (g : G) (cfg : Cfg) (s : Sess) (t : TaskSpec)
    (hp : t.persist = false) : (runPhases F P g cfg s t).1 ≠ .persisted := by
  unfold runPhases
  have := setupChain_ne_persisted P g cfg s t hp Generated.setupOrder
  cases hsc : setupChain P g cfg s t Generated.setupOrder <;> simp only [] <;> try (first | exact absurd hsc this | (intro h; cases h))
  by_cases hdry : cfg.dry = true
  · simp [hdry]
  · simp only [hdry, Bool.false_eq_true, if_false]
    by_cases h1 : (runBody F t s.w.fs).2 = true <;>
      by_cases h2 : (t.prods.any fun p => (lookup (runBody F t s.w.fs).1 p).isNone) = true <;> simp [h1, h2]

theorem runPhases_db (F : BodyFn) (P : Project) (g : G) (cfg : Cfg) (s : Sess) (t : TaskSpec) :
    (runPhases F P g cfg s t).2.w.db = s.w.db := by
  rw [← applySteps_phases]; exact applySteps_onlyWrites_db (phaseSteps_onlyWrites F P g cfg s t) s.w

theorem runPhases_none_not_dry (F : BodyFn) (P : Project) (g : G) (cfg : Cfg) (s : Sess) (t : TaskSpec)
    (h : (runPhases F P g cfg s t).1 = .none) : cfg.dry = false := by
  unfold runPhases at h
  cases hsc : setupChain P g cfg s t Generated.setupOrder <;> simp only [hsc] at h <;> try (exact Raised.noConfusion h)
  cases hd : cfg.dry
  · rfl
  · simp [hd] at h

/-- Lemma A′: a complete protocol of `spec` either aborts the build (`IntegrityError` in `update_states_in_database`) or leaves
every task's row set consistent. -/
theorem rc_protocol {F : BodyFn} {P : Project} {g : G} (hwf : WF P g) (cfg : Cfg) (s : Sess) (spec : TaskSpec)
    (hspec : spec ∈ P.tasks) (hrc : RC F P g s.w.db) :
    (protocol F P g cfg s spec).crashed = true ∨ RC F P g (protocol F P g cfg s spec).w.db := by
  have hnp := runPhases_ne_persisted F P g cfg s spec (hwf.noPersist spec hspec)
  have hdb := runPhases_db F P g cfg s spec
  unfold protocol
  simp only []
  cases hr : (runPhases F P g cfg s spec).1
  case persisted => exact absurd hr hnp
  case none =>
    have hdry := runPhases_none_not_dry F P g cfg s spec hr
    have hfresh := runPhases_none_fresh F P g cfg s spec (hwf.nodup spec hspec) (hwf.disj spec hspec) (hwf.honest spec hspec) hr
    simp only [processReport, recordStates, hdry, Bool.false_eq_true, if_false]
    generalize hw1 : (runPhases F P g cfg s spec).2 = s1 at hdb hfresh
    cases hok : (updateStates P g s1.w spec.id (neighbours g spec.id)).2
    · left; simp
    · right
      simp only [if_true]
      obtain ⟨hrows, _⟩ := cr_updateStates_ok P g spec.id (neighbours g spec.id) s1.w hok
      intro u hu
      by_cases heq : u = spec
      · subst heq
        intro _ pi hpi
        have row_eq : ∀ v ∈ neighbours g u.id,
            lookup (updateStates P g s1.w u.id (neighbours g u.id)).1.db (tv u.id, v) = stateOf P s1.w v := by
          intro v hv
          obtain ⟨x, h1, h2⟩ := hrows v hv
          rw [h1, h2]
        rw [row_eq _ (hwf.prods u hu _ (mem_prods_of_mem_zipIdx hpi)), cr_stateOf_nv, hfresh pi hpi,
          row_eq _ (tv_mem_neighbours g u.id), stateOf_tv P _ u.id u (hwf.find u hu)]
        congr 2
        apply List.map_congr_left
        intro d hd
        rw [row_eq _ (hwf.deps u hu d hd), cr_stateOf_nv]
      · have hid : u.id ≠ spec.id := fun hid => heq (wf_id_inj hwf hu hspec hid)
        exact RowsConsistent.congr (fun x => by rw [updateStates_other _ _ _ _ _ _ _ hid, hdb]) (hrc u hu)
  all_goals (right; simp only [processReport]; rw [hdb]; exact hrc)

end Engine
end Pytask

namespace Pytask
namespace Engine

/-- Lemma B: `Inv` holds after every prefix of the atomic updates of one protocol. -/
theorem inv_protocol_prefix {F : BodyFn} {P : Project} {g : G} (hwf : WF P g) (cfg : Cfg) (s : Sess) (spec : TaskSpec)
    (hspec : spec ∈ P.tasks) (hrc : RC F P g s.w.db) (k : Nat) :
    Inv F P g (applySteps s.w ((protocolStepsEach F P g cfg s spec).take k)) := by
  unfold protocolStepsEach
  simp only []
  rw [List.take_append, applySteps_append]
  have hph := phaseSteps_onlyWrites F P g cfg s spec
  by_cases hk : k ≤ (phaseSteps F P g cfg s spec).length
  · have : k - (phaseSteps F P g cfg s spec).length = 0 := by omega
    rw [this, List.take_zero, applySteps_nil]
    exact inv_after_writes hwf s.w hrc (hph.take k)
  · rw [List.take_of_length_le (by omega), applySteps_phases]
    have hdb := runPhases_db F P g cfg s spec
    have hrc1 : RC F P g (runPhases F P g cfg s spec).2.w.db := by rw [hdb]; exact hrc
    by_cases hr : (runPhases F P g cfg s spec).1 = .none
    · have hfresh := runPhases_none_fresh F P g cfg s spec (hwf.nodup spec hspec) (hwf.disj spec hspec) (hwf.honest spec hspec) hr
      exact inv_after_rows hwf _ hrc1 spec hspec hfresh ((reportSteps_onlyRows P g cfg _ spec _).take _)
    · have hnp := runPhases_ne_persisted F P g cfg s spec (hwf.noPersist spec hspec)
      rw [reportSteps_other _ _ _ _ _ _ hr hnp, List.take_nil, applySteps_nil]
      exact inv_of_rc hwf _ hrc1

theorem loopSteps_crashed (F : BodyFn) (P : Project) (g : G) (cfg : Cfg) (so : Sorter) (s : Sess) (picks : List Nat)
    (h : s.crashed = true) : loopStepsEach F P g cfg so s picks = [] := by
  cases picks with
  | nil => rfl
  | cons t ts => unfold loopStepsEach; simp [h]

theorem mem_of_find? {P : Project} {t : Nat} {spec : TaskSpec} (h : Project.find? P t = some spec) : spec ∈ P.tasks := by
  unfold Project.find? at h
  exact List.mem_of_find?_eq_some h

/-- `Inv` after every prefix of the atomic updates of a build loop started with consistent rows. -/
theorem inv_loop_prefix {F : BodyFn} {P : Project} {g : G} (hwf : WF P g) (cfg : Cfg) :
    ∀ (picks : List Nat) (so : Sorter) (s : Sess), RC F P g s.w.db → ∀ k,
      Inv F P g (applySteps s.w ((loopStepsEach F P g cfg so s picks).take k))
  | [], so, s, hrc, k => by
    simp only [loopStepsEach, List.take_nil, applySteps_nil]
    exact inv_of_rc hwf _ hrc
  | t :: ts, so, s, hrc, k => by
    unfold loopStepsEach
    split
    · simp only [List.take_nil, applySteps_nil]; exact inv_of_rc hwf _ hrc
    split
    · simp only [List.take_nil, applySteps_nil]; exact inv_of_rc hwf _ hrc
    split
    · simp only [List.take_nil, applySteps_nil]; exact inv_of_rc hwf _ hrc
    rename_i spec hfind
    have hspec := mem_of_find? hfind
    rw [List.take_append, applySteps_append]
    by_cases hk : k ≤ (protocolStepsEach F P g cfg s spec).length
    · have : k - (protocolStepsEach F P g cfg s spec).length = 0 := by omega
      rw [this, List.take_zero, applySteps_nil]
      exact inv_protocol_prefix hwf cfg s spec hspec hrc k
    · rcases rc_protocol hwf cfg s spec hspec hrc with hcr | hrc'
      · rw [loopSteps_crashed _ _ _ _ _ _ _ hcr, List.take_nil, applySteps_nil]
        exact inv_protocol_prefix hwf cfg s spec hspec hrc k
      · rw [List.take_of_length_le (by omega), applySteps_protocol]
        exact inv_loop_prefix hwf cfg ts _ _ hrc' _

/-- Consistency of the rows survives a complete build loop (unless the loop aborted in `update_states_in_database`). -/
theorem rc_loop {F : BodyFn} {P : Project} {g : G} (hwf : WF P g) (cfg : Cfg) :
    ∀ (picks : List Nat) (so : Sorter) (s : Sess) (so' : Sorter) (s' : Sess), RC F P g s.w.db →
      buildLoop F P g cfg so s picks = .ok (so', s') → s'.crashed = true ∨ RC F P g s'.w.db
  | [], so, s, so', s', hrc, h => by
    simp only [buildLoop, Except.ok.injEq, Prod.mk.injEq] at h
    obtain ⟨_, rfl⟩ := h
    exact Or.inr hrc
  | t :: ts, so, s, so', s', hrc, h => by
    unfold buildLoop at h
    split at h
    · cases h
    split at h
    · cases h
    split at h
    · cases h
    rename_i spec hfind
    rcases rc_protocol hwf cfg s spec (mem_of_find? hfind) hrc with hcr | hrc'
    · -- the next iteration refuses to continue; only `ts = []` is accepted
      cases ts with
      | nil =>
        simp only [buildLoop, Except.ok.injEq, Prod.mk.injEq] at h
        obtain ⟨_, rfl⟩ := h
        exact Or.inl hcr
      | cons u us =>
        unfold buildLoop at h
        simp [hcr] at h
    · exact rc_loop hwf cfg ts _ _ so' s' hrc' h

end Engine
end Pytask

/-! ## Matching rows: not executed again; committed rows match -/
namespace Pytask
namespace Engine

theorem scan_unchanged (P : Project) (g : G) (w : World) (t : Nat) (vs : List Nat)
    (h : ∀ v ∈ vs, ∃ x, stateOf P w v = some x ∧ lookup w.db (tv t, v) = some x) :
    scan P g w t false vs = .unchanged := by
  induction vs with
  | nil => simp [scan]
  | cons v vs ih =>
    obtain ⟨x, h1, h2⟩ := h v (by simp)
    unfold scan
    simp only [Bool.false_and, Bool.false_eq_true, if_false, h1, Option.isNone_some, Bool.and_false, hasChanged, h2, bne_self_eq_false]
    exact ih (fun v hv => h v (List.mem_cons_of_mem _ hv))

theorem setupChain_ne_none (P : Project) (g : G) (cfg : Cfg) (s : Sess) (t : TaskSpec) (name : String)
    (himpl : setupImpl P g cfg s t name ≠ .none) (order : List String) (hmem : name ∈ order) :
    setupChain P g cfg s t order ≠ .none := by
  induction order with
  | nil => cases hmem
  | cons n ns ih =>
    unfold setupChain
    cases hr : setupImpl P g cfg s t n <;> simp only [] <;> try (intro h; cases h)
    rcases List.mem_cons.1 hmem with rfl | hin
    · exact absurd hr himpl
    · exact ih hin

/-- A task all of whose rows match is not executed by a non-forced build: `runPhases` raises (skipped, unchanged, …) before the
body and leaves the session as it was (the `C03_step` shape). -/
theorem runPhases_rowsMatch (F : BodyFn) (P : Project) (g : G) (cfg : Cfg) (s : Sess) (t : TaskSpec)
    (hforce : cfg.force = false) (hm : RowsMatch P g s.w t.id) :
    (runPhases F P g cfg s t).2 = s ∧ (runPhases F P g cfg s t).1 ≠ .none := by
  have himpl : setupImpl P g cfg s t "execute" ≠ .none := by
    unfold setupImpl
    simp only [show ("execute" == "skipping") = false by decide, show ("execute" == "persist") = false by decide,
      show ("execute" == "execute") = true by decide, Bool.false_eq_true, if_false, if_true, hforce,
      scan_unchanged P g s.w t.id (neighbours g t.id) hm]
    split <;> simp
  have hne := setupChain_ne_none P g cfg s t "execute" himpl Generated.setupOrder (by decide)
  unfold runPhases
  cases hsc : setupChain P g cfg s t Generated.setupOrder <;> simp only [] <;> first | exact absurd hsc hne | simp

theorem protocol_rowsMatch_log (F : BodyFn) (P : Project) (g : G) (cfg : Cfg) (s : Sess) (t : TaskSpec)
    (hforce : cfg.force = false) (hm : RowsMatch P g s.w t.id) : (protocol F P g cfg s t).log = s.log := by
  unfold protocol
  simp only []
  have h := (runPhases_rowsMatch F P g cfg s t hforce hm).1
  cases hr : (runPhases F P g cfg s t).1 <;> simp only [processReport] <;> (try split) <;> simp [h]

/-- After a protocol of `spec` that ended in SUCCESS (body, teardown and every row commit went through), all rows of `spec`
match the files. -/
theorem rowsMatch_after_protocol (F : BodyFn) (P : Project) (g : G) (cfg : Cfg) (s : Sess) (spec : TaskSpec)
    (hr : (runPhases F P g cfg s spec).1 = .none)
    (hok : (updateStates P g (runPhases F P g cfg s spec).2.w spec.id (neighbours g spec.id)).2 = true) :
    RowsMatch P g (protocol F P g cfg s spec).w spec.id := by
  have hdry := runPhases_none_not_dry F P g cfg s spec hr
  have hw : (protocol F P g cfg s spec).w = (updateStates P g (runPhases F P g cfg s spec).2.w spec.id (neighbours g spec.id)).1 := by
    unfold protocol
    simp only [hr, processReport, recordStates, hdry, Bool.false_eq_true, if_false, hok, if_true]
  rw [hw]
  intro v hv
  obtain ⟨x, h1, h2⟩ := (cr_updateStates_ok P g spec.id (neighbours g spec.id) _ hok).1 v hv
  refine ⟨x, ?_, h2⟩
  rw [← h1]
  unfold stateOf
  rw [cr_updateStates_fs]

/-- Steps that leave the neighbourhood of `t` alone: writes to files that are neither a neighbour node of `t` nor `t`'s
module, and row commits of other tasks. -/
def StepAvoids (P : Project) (g : G) (t : Nat) : Step → Prop
  | .write n _ => nv n ∉ neighbours g t ∧ ∀ spec, Project.find? P t = some spec → spec.src ≠ n
  | .row u _ _ => u ≠ t
  | .rows u _ => u ≠ t

theorem lookup_applyRows_other (db : DB) (t : Nat) (rs : List (Nat × Nat)) (u x : Nat) (hu : u ≠ t) :
    lookup (applyRows db t rs) (tv u, x) = lookup db (tv u, x) := by
  unfold applyRows
  induction rs generalizing db with
  | nil => rfl
  | cons r rs ih =>
    rw [List.foldl_cons, ih]
    apply cr_lookup_insert_ne
    intro heq
    exact tv_ne_of_ne hu (by simpa using congrArg Prod.fst heq)

theorem stateOf_write_avoid (P : Project) (g : G) (t : Nat) (w : World) (n c : Nat)
    (h : StepAvoids P g t (.write n c)) (v : Nat) (hv : v ∈ neighbours g t) (hvt : isTaskV v = true → v = tv t) :
    stateOf P (applyStep w (.write n c)) v = stateOf P w v := by
  unfold stateOf applyStep
  by_cases hT : isTaskV v = true
  · have := hvt hT
    subst this
    simp only [hT, if_true]
    have h2 : tv t / 2 = t := by unfold tv; omega
    rw [h2]
    cases hf : Project.find? P t with
    | none => rfl
    | some spec => exact cr_lookup_insert_ne _ _ _ _ (h.2 spec hf)
  · simp only [hT, Bool.false_eq_true, if_false]
    apply cr_lookup_insert_ne
    intro heq
    apply h.1
    have : v = nv n := by
      unfold isTaskV at hT
      unfold nv
      have : v % 2 = 1 := by
        have : ¬ (v % 2 = 0) := by simpa using hT
        omega
      omega
    rw [← this]; exact hv

/-- Frame: `RowsMatch t` survives steps that avoid `t`'s neighbourhood. (`hT`: the only task vertex among the neighbours of `t`
is `t` itself — the graph is bipartite.) -/
theorem rowsMatch_frame (P : Project) (g : G) (t : Nat) (hT : ∀ v ∈ neighbours g t, isTaskV v = true → v = tv t)
    (st : List Step) (w : World) (hav : ∀ s ∈ st, StepAvoids P g t s) (hm : RowsMatch P g w t) :
    RowsMatch P g (applySteps w st) t := by
  induction st generalizing w with
  | nil => exact hm
  | cons s st ih =>
    rw [applySteps_cons]
    apply ih _ (fun s' hs' => hav s' (List.mem_cons_of_mem _ hs'))
    have hs := hav s (by simp)
    intro v hv
    obtain ⟨x, h1, h2⟩ := hm v hv
    cases s with
    | write n c =>
      exact ⟨x, by rw [stateOf_write_avoid P g t w n c hs v hv (hT v hv)]; exact h1, h2⟩
    | row u y z =>
      refine ⟨x, h1, ?_⟩
      simp only [applyStep]
      rw [cr_lookup_insert_ne _ _ _ _ (by intro heq; exact tv_ne_of_ne hs (by simpa using (congrArg Prod.fst heq).symm))]
      exact h2
    | rows u rs =>
      refine ⟨x, h1, ?_⟩
      simp only [applyStep]
      rw [lookup_applyRows_other _ _ _ _ _ (Ne.symm hs)]
      exact h2

end Engine
end Pytask

/-! ## Reported unchanged ⇒ rows match (converse of `scan_unchanged`) -/
namespace Pytask
namespace Engine

theorem scan_unchanged_inv (P : Project) (g : G) (w : World) (t : Nat) (vs : List Nat) (needs : Bool)
    (h : scan P g w t needs vs = .unchanged) :
    needs = false ∧ ∀ v ∈ vs, ∃ x, stateOf P w v = some x ∧ lookup w.db (tv t, v) = some x := by
  induction vs generalizing needs with
  | nil =>
    unfold scan at h
    cases needs
    · exact ⟨rfl, fun v hv => by cases hv⟩
    · simp at h
  | cons v vs ih =>
    unfold scan at h
    simp only [] at h
    split at h
    · cases h
    split at h
    · cases h
    split at h
    · rename_i hn
      have := (ih true h).1
      cases this
    · rename_i hn
      have hnf : needs = false := by simpa using hn
      obtain ⟨hc, hrest⟩ := ih _ h
      refine ⟨hnf, ?_⟩
      intro x hx
      rcases List.mem_cons.1 hx with rfl | hx
      · unfold hasChanged at hc
        cases hst : stateOf P w x with
        | none => simp [hst] at hc
        | some a =>
          simp only [hst] at hc
          cases hrow : lookup w.db (tv t, x) with
          | none => simp [hrow] at hc
          | some r =>
            simp only [hrow] at hc
            have : r = a := by simpa using hc
            exact ⟨a, rfl, by rw [this]⟩
      · exact hrest x hx

theorem setupChain_source (P : Project) (g : G) (cfg : Cfg) (s : Sess) (t : TaskSpec) (order : List String) (r : Raised)
    (hr : r ≠ .none) (h : setupChain P g cfg s t order = r) : ∃ n ∈ order, setupImpl P g cfg s t n = r := by
  induction order with
  | nil => simp [setupChain] at h; exact absurd h.symm hr
  | cons n ns ih =>
    unfold setupChain at h
    cases hi : setupImpl P g cfg s t n <;> simp only [hi] at h
    case none =>
      obtain ⟨m, hm, hm'⟩ := ih h
      exact ⟨m, List.mem_cons_of_mem _ hm, hm'⟩
    all_goals exact ⟨n, by simp, by rw [hi, h]⟩

theorem setupImpl_skippedUnchanged (P : Project) (g : G) (cfg : Cfg) (s : Sess) (t : TaskSpec) (name : String)
    (h : setupImpl P g cfg s t name = .skippedUnchanged) :
    scan P g s.w t.id cfg.force (neighbours g t.id) = .unchanged := by
  unfold setupImpl at h
  split at h
  · repeat' split at h
    all_goals cases h
  split at h
  · split at h
    · simp only [] at h
      split at h
      · split at h <;> cases h
      · cases h
    · cases h
  split at h
  · split at h
    · cases h
    · split at h
      · cases h
      · cases h
      · assumption
  · cases h

/-- `SKIP_UNCHANGED` is reported only when every row of the task matches the files (the "equivalently" clause of C02). -/
theorem rowsMatch_of_skippedUnchanged (F : BodyFn) (P : Project) (g : G) (cfg : Cfg) (s : Sess) (t : TaskSpec)
    (h : (runPhases F P g cfg s t).1 = .skippedUnchanged) : RowsMatch P g s.w t.id ∧ (runPhases F P g cfg s t).2 = s := by
  unfold runPhases at h ⊢
  cases hsc : setupChain P g cfg s t Generated.setupOrder <;> simp only [hsc] at h ⊢ <;> try (exact Raised.noConfusion h)
  · -- `.none`: the body ran or the build is a dry-run; never `skippedUnchanged`
    exfalso
    by_cases hdry : cfg.dry = true
    · simp [hdry] at h
    · simp only [hdry, Bool.false_eq_true, if_false] at h
      by_cases h1 : (runBody F t s.w.fs).2 = true <;>
        by_cases h2 : (t.prods.any fun p => (lookup (runBody F t s.w.fs).1 p).isNone) = true <;> simp [h1, h2] at h
  · obtain ⟨n, _, hn⟩ := setupChain_source P g cfg s t _ _ (by simp) hsc
    exact ⟨(scan_unchanged_inv P g s.w t.id _ _ (setupImpl_skippedUnchanged P g cfg s t n hn)).2, trivial⟩

end Engine
end Pytask

namespace Pytask
namespace Engine

theorem fresh_of_fs_eq {F : BodyFn} {w w' : World} {t : TaskSpec} (h : w'.fs = w.fs) (hf : Fresh F w t) : Fresh F w' t := by
  intro pi hpi; rw [h]; exact hf pi hpi

/-! ## Data for the non-vacuity examples of `Properties/C05.lean` -/
def c05F : BodyFn := fun t i src ds => t * 100 + i * 10 + src.getD 0 + (ds.map (·.getD 0)).sum
def c05P : Project := ⟨[{ id := 0, src := 90, deps := [10], prods := [20, 21], after := [] },
                        { id := 1, src := 90, deps := [20], prods := [22], after := [] }]⟩
def c05G : G := modifyDag c05P (baseGraph c05P)
def c05W : World := ⟨[(10, 5), (90, 7)], []⟩

theorem c05_wf : WF c05P c05G where
  find := by intro t ht; simp [c05P] at ht; rcases ht with rfl | rfl <;> rfl
  deps := by intro t ht; simp [c05P] at ht; rcases ht with rfl | rfl <;> decide
  prods := by intro t ht; simp [c05P] at ht; rcases ht with rfl | rfl <;> decide
  nodup := by intro t ht; simp [c05P] at ht; rcases ht with rfl | rfl <;> decide
  disj := by intro t ht; simp [c05P] at ht; rcases ht with rfl | rfl <;> decide
  honest := by intro t ht; simp [c05P] at ht; rcases ht with rfl | rfl <;> (intro k h; cases h)
  noPersist := by intro t ht; simp [c05P] at ht; rcases ht with rfl | rfl <;> rfl


end Engine
end Pytask
