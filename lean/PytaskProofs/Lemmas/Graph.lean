import PytaskModel.Graph
import Mathlib.Data.Finset.Card
/-!
# Graph theory for M1 (`PytaskModel/Graph.lean`)

* `Reach g u v` — a walk of at least one edge from `u` to `v`;
* `mem_ancRaw_iff`, `mem_descRaw_iff` — the `|E|`-fold frontier expansion computes exactly reachability
  (fixpoint argument: an inflationary monotone expansion inside a universe of ≤ `|E|` vertices is stationary
  after `|E|` rounds);
* `hasCycle_true_iff` / `hasCycle_false_iff` — `hasCycle` decides "some node reaches itself";
* `HasRank` (a strict rank function along every edge) is equivalent to `hasCycle = false` on graphs whose
  edges end in nodes (`WF`); the rank of `v` is the number of its ancestors.
-/
namespace Pytask
namespace G

/-- A walk with at least one edge. -/
inductive Reach (g : G) : Nat → Nat → Prop
  | edge {u v : Nat} : (u, v) ∈ g.edges → Reach g u v
  | step {u w v : Nat} : (u, w) ∈ g.edges → Reach g w v → Reach g u v

theorem Reach.trans {g : G} {a b c : Nat} (h1 : Reach g a b) (h2 : Reach g b c) : Reach g a c := by
  induction h1 with
  | edge h => exact Reach.step h h2
  | step h _ ih => exact Reach.step h (ih h2)

theorem Reach.snoc {g : G} {a b c : Nat} (h1 : Reach g a b) (h2 : (b, c) ∈ g.edges) : Reach g a c :=
  h1.trans (Reach.edge h2)

/-- Decomposition at the last edge. -/
theorem Reach.tail_cases {g : G} {a c : Nat} (h : Reach g a c) :
    (a, c) ∈ g.edges ∨ ∃ b, Reach g a b ∧ (b, c) ∈ g.edges := by
  induction h with
  | edge h => exact Or.inl h
  | step h _ ih =>
    rcases ih with h' | ⟨b, hb, hbc⟩
    · exact Or.inr ⟨_, Reach.edge h, h'⟩
    · exact Or.inr ⟨b, Reach.step h hb, hbc⟩

theorem Reach.mono {g g' : G} (hsub : ∀ e ∈ g.edges, e ∈ g'.edges) {a b : Nat} (h : Reach g a b) :
    Reach g' a b := by
  induction h with
  | edge h => exact Reach.edge (hsub _ h)
  | step h _ ih => exact Reach.step (hsub _ h) ih

/-- Induction from the far end: a predicate that holds for all successors of `a` and is closed under
following an edge holds for everything `a` reaches. -/
theorem Reach.tail_induction {g : G} {M : Nat → Prop} (hs : ∀ b c, M b → (b, c) ∈ g.edges → M c) :
    ∀ {a c : Nat}, (∀ b, (a, b) ∈ g.edges → M b) → Reach g a c → M c := by
  intro a c h0 h
  induction h with
  | edge h => exact h0 _ h
  | step h _ ih => exact ih (fun b hb => hs _ b (h0 _ h) hb)

/-- The first vertex of a walk is the source of an edge, the last one the target of an edge. -/
theorem Reach.src_mem {g : G} {a b : Nat} (h : Reach g a b) : ∃ w, (a, w) ∈ g.edges := by
  cases h with
  | edge h => exact ⟨_, h⟩
  | step h _ => exact ⟨_, h⟩

theorem Reach.tgt_mem {g : G} {a b : Nat} (h : Reach g a b) : ∃ w, (w, b) ∈ g.edges := by
  rcases h.tail_cases with h | ⟨w, _, h⟩
  · exact ⟨_, h⟩
  · exact ⟨_, h⟩

/-! ### membership lemmas for the list primitives -/

theorem mem_preds {g : G} {u v : Nat} : u ∈ g.preds v ↔ (u, v) ∈ g.edges := by
  unfold preds
  simp only [List.mem_map, List.mem_filter, beq_iff_eq]
  constructor
  · rintro ⟨⟨a, b⟩, ⟨h, rfl⟩, rfl⟩; exact h
  · intro h; exact ⟨(u, v), ⟨h, rfl⟩, rfl⟩

theorem mem_succs {g : G} {u v : Nat} : v ∈ g.succs u ↔ (u, v) ∈ g.edges := by
  unfold succs
  simp only [List.mem_map, List.mem_filter, beq_iff_eq]
  constructor
  · rintro ⟨⟨a, b⟩, ⟨h, rfl⟩, rfl⟩; exact h
  · intro h; exact ⟨(u, v), ⟨h, rfl⟩, rfl⟩

theorem mem_union {x : Nat} : ∀ {b a : List Nat}, x ∈ union a b ↔ x ∈ a ∨ x ∈ b
  | [], a => by simp [union]
  | y :: ys, a => by
    have ih := @mem_union x ys
    unfold union at ih ⊢
    simp only [List.foldl_cons]
    by_cases hc : a.contains y = true
    · simp only [hc, if_true]
      rw [ih]
      have : y ∈ a := by simpa using hc
      constructor
      · rintro (h | h)
        · exact Or.inl h
        · exact Or.inr (List.mem_cons_of_mem _ h)
      · rintro (h | h)
        · exact Or.inl h
        · rcases List.mem_cons.1 h with rfl | h
          · exact Or.inl this
          · exact Or.inr h
    · simp only [hc]
      rw [ih]
      simp only [List.mem_append, List.mem_cons, Bool.false_eq_true, if_false]
      tauto

theorem mem_stepBack {g : G} {s : List Nat} {x : Nat} :
    x ∈ g.stepBack s ↔ x ∈ s ∨ ∃ y ∈ s, (x, y) ∈ g.edges := by
  unfold stepBack
  rw [mem_union]
  simp only [List.mem_flatMap, mem_preds]

theorem mem_stepFwd {g : G} {s : List Nat} {x : Nat} :
    x ∈ g.stepFwd s ↔ x ∈ s ∨ ∃ y ∈ s, (y, x) ∈ g.edges := by
  unfold stepFwd
  rw [mem_union]
  simp only [List.mem_flatMap, mem_succs]

/-! ### iterated expansion reaches a fixpoint -/

theorem iter_succ' {α} (f : α → α) : ∀ (n : Nat) (a : α), iter f (n + 1) a = f (iter f n a)
  | 0, _ => rfl
  | n + 1, a => by
    show iter f (n + 1) (f a) = f (iter f n (f a))
    exact iter_succ' f n (f a)

section Fix
variable (f : List Nat → List Nat)
variable (infl : ∀ s, s ⊆ f s) (mono : ∀ s s', s ⊆ s' → f s ⊆ f s')

include infl in
theorem iter_infl : ∀ (k : Nat) (s : List Nat), s ⊆ iter f k s
  | 0, s => List.Subset.refl _
  | k + 1, s => by
    rw [iter_succ']
    exact List.Subset.trans (iter_infl k s) (infl _)

include infl mono in
/-- After `k` rounds either the expansion is stationary or it has collected at least `k` distinct vertices. -/
theorem iter_fix_or_card (s0 : List Nat) :
    ∀ k, f (iter f k s0) ⊆ iter f k s0 ∨ k ≤ (iter f k s0).toFinset.card
  | 0 => Or.inr (Nat.zero_le _)
  | k + 1 => by
    rw [iter_succ']
    rcases iter_fix_or_card s0 k with hfix | hcard
    · exact Or.inl (mono _ _ hfix)
    · by_cases hfix : f (iter f k s0) ⊆ iter f k s0
      · exact Or.inl (mono _ _ hfix)
      · refine Or.inr ?_
        have hss : (iter f k s0).toFinset ⊂ (f (iter f k s0)).toFinset := by
          refine Finset.ssubset_iff_subset_ne.2 ⟨?_, ?_⟩
          · intro x hx
            simp only [List.mem_toFinset] at hx ⊢
            exact infl _ hx
          · intro heq
            apply hfix
            intro x hx
            have : x ∈ (f (iter f k s0)).toFinset := List.mem_toFinset.2 hx
            rw [← heq] at this
            exact List.mem_toFinset.1 this
        have := Finset.card_lt_card hss
        omega

include infl mono in
/-- If every expansion stays inside a universe `U` with at most `N` elements, `N` rounds reach a fixpoint. -/
theorem iter_fix (U : Finset Nat) (s0 : List Nat) (N : Nat) (hN : U.card ≤ N)
    (hU : ∀ k, (iter f k s0).toFinset ⊆ U) : f (iter f N s0) ⊆ iter f N s0 := by
  rcases iter_fix_or_card f infl mono s0 N with hfix | hcard
  · exact hfix
  · have heq : (iter f N s0).toFinset = U :=
      Finset.eq_of_subset_of_card_le (hU N) (by omega)
    intro x hx
    have h1 : x ∈ (iter f (N + 1) s0).toFinset := by
      rw [iter_succ']; exact List.mem_toFinset.2 hx
    have h2 := hU (N + 1) h1
    rw [← heq] at h2
    exact List.mem_toFinset.1 h2

end Fix

theorem stepBack_infl (g : G) (s : List Nat) : s ⊆ g.stepBack s :=
  fun _ hx => mem_stepBack.2 (Or.inl hx)

theorem stepBack_mono (g : G) (s s' : List Nat) (h : s ⊆ s') : g.stepBack s ⊆ g.stepBack s' := by
  intro x hx
  rcases mem_stepBack.1 hx with hx | ⟨y, hy, he⟩
  · exact mem_stepBack.2 (Or.inl (h hx))
  · exact mem_stepBack.2 (Or.inr ⟨y, h hy, he⟩)

theorem stepFwd_infl (g : G) (s : List Nat) : s ⊆ g.stepFwd s :=
  fun _ hx => mem_stepFwd.2 (Or.inl hx)

theorem stepFwd_mono (g : G) (s s' : List Nat) (h : s ⊆ s') : g.stepFwd s ⊆ g.stepFwd s' := by
  intro x hx
  rcases mem_stepFwd.1 hx with hx | ⟨y, hy, he⟩
  · exact mem_stepFwd.2 (Or.inl (h hx))
  · exact mem_stepFwd.2 (Or.inr ⟨y, h hy, he⟩)

/-- sources of edges -/
def srcs (g : G) : Finset Nat := (g.edges.map Prod.fst).toFinset
def tgts (g : G) : Finset Nat := (g.edges.map Prod.snd).toFinset

theorem srcs_card (g : G) : g.srcs.card ≤ g.edges.length := by
  unfold srcs
  exact (List.toFinset_card_le _).trans (by simp)

theorem tgts_card (g : G) : g.tgts.card ≤ g.edges.length := by
  unfold tgts
  exact (List.toFinset_card_le _).trans (by simp)

theorem mem_srcs {g : G} {x : Nat} : x ∈ g.srcs ↔ ∃ y, (x, y) ∈ g.edges := by
  unfold srcs
  simp only [List.mem_toFinset, List.mem_map]
  constructor
  · rintro ⟨⟨a, b⟩, h, rfl⟩; exact ⟨b, h⟩
  · rintro ⟨y, h⟩; exact ⟨(x, y), h, rfl⟩

theorem mem_tgts {g : G} {x : Nat} : x ∈ g.tgts ↔ ∃ y, (y, x) ∈ g.edges := by
  unfold tgts
  simp only [List.mem_toFinset, List.mem_map]
  constructor
  · rintro ⟨⟨a, b⟩, h, rfl⟩; exact ⟨a, h⟩
  · rintro ⟨y, h⟩; exact ⟨(y, x), h, rfl⟩

theorem iter_stepBack_sound (g : G) (v : Nat) :
    ∀ (k : Nat) (s : List Nat), (∀ x ∈ s, Reach g x v) → ∀ x ∈ iter g.stepBack k s, Reach g x v
  | 0, _, hs => hs
  | k + 1, s, hs => by
    show ∀ x ∈ iter g.stepBack k (g.stepBack s), Reach g x v
    apply iter_stepBack_sound g v k
    intro x hx
    rcases mem_stepBack.1 hx with hx | ⟨y, hy, he⟩
    · exact hs x hx
    · exact Reach.step he (hs y hy)

theorem iter_stepFwd_sound (g : G) (v : Nat) :
    ∀ (k : Nat) (s : List Nat), (∀ x ∈ s, Reach g v x) → ∀ x ∈ iter g.stepFwd k s, Reach g v x
  | 0, _, hs => hs
  | k + 1, s, hs => by
    show ∀ x ∈ iter g.stepFwd k (g.stepFwd s), Reach g v x
    apply iter_stepFwd_sound g v k
    intro x hx
    rcases mem_stepFwd.1 hx with hx | ⟨y, hy, he⟩
    · exact hs x hx
    · exact (hs y hy).snoc he

theorem ancRaw_closed (g : G) (v : Nat) : g.stepBack (g.ancRaw v) ⊆ g.ancRaw v := by
  unfold ancRaw
  refine iter_fix g.stepBack (stepBack_infl g) (stepBack_mono g) g.srcs _ _ (srcs_card g) ?_
  intro k x hx
  have := iter_stepBack_sound g v k (g.preds v) (fun x hx => Reach.edge (mem_preds.1 hx)) x (List.mem_toFinset.1 hx)
  exact mem_srcs.2 this.src_mem

theorem descRaw_closed (g : G) (v : Nat) : g.stepFwd (g.descRaw v) ⊆ g.descRaw v := by
  unfold descRaw
  refine iter_fix g.stepFwd (stepFwd_infl g) (stepFwd_mono g) g.tgts _ _ (tgts_card g) ?_
  intro k x hx
  have := iter_stepFwd_sound g v k (g.succs v) (fun x hx => Reach.edge (mem_succs.1 hx)) x (List.mem_toFinset.1 hx)
  exact mem_tgts.2 this.tgt_mem

/-- **`nx.ancestors` as computed by the model is reachability.** -/
theorem mem_ancRaw_iff {g : G} {a v : Nat} : a ∈ g.ancRaw v ↔ Reach g a v := by
  constructor
  · intro h
    exact iter_stepBack_sound g v _ (g.preds v) (fun x hx => Reach.edge (mem_preds.1 hx)) a h
  · intro h
    induction h with
    | edge h =>
      exact iter_infl g.stepBack (stepBack_infl g) _ _ (mem_preds.2 h)
    | step h _ ih =>
      exact ancRaw_closed g _ (mem_stepBack.2 (Or.inr ⟨_, ih, h⟩))

/-- **`nx.descendants` as computed by the model is reachability.** -/
theorem mem_descRaw_iff {g : G} {v d : Nat} : d ∈ g.descRaw v ↔ Reach g v d := by
  constructor
  · intro h
    exact iter_stepFwd_sound g v _ (g.succs v) (fun x hx => Reach.edge (mem_succs.1 hx)) d h
  · intro h
    refine Reach.tail_induction (M := fun b => b ∈ g.descRaw v) ?_ ?_ h
    · intro b c hb hbc
      exact descRaw_closed g _ (mem_stepFwd.2 (Or.inr ⟨_, hb, hbc⟩))
    · intro b hb
      exact iter_infl g.stepFwd (stepFwd_infl g) _ _ (mem_succs.2 hb)

theorem mem_anc_iff {g : G} {a v : Nat} : a ∈ g.anc v ↔ Reach g a v ∧ a ≠ v := by
  unfold anc
  simp [mem_ancRaw_iff]

theorem mem_desc_iff {g : G} {v d : Nat} : d ∈ g.desc v ↔ Reach g v d ∧ d ≠ v := by
  unfold desc
  simp [mem_descRaw_iff]

/-! ### cycles -/

/-- Every edge joins two nodes of the graph (true of every graph built with `addEdge`). -/
def WF (g : G) : Prop := ∀ e ∈ g.edges, e.1 ∈ g.nodes ∧ e.2 ∈ g.nodes

/-- **`find_cycle` as computed by the model**: `hasCycle` is true iff some node lies on a closed walk. -/
theorem hasCycle_true_iff {g : G} : g.hasCycle = true ↔ ∃ v ∈ g.nodes, Reach g v v := by
  unfold hasCycle
  simp only [List.any_eq_true, List.contains_iff_mem, mem_ancRaw_iff]

/-- On a well-formed graph the node side condition is redundant. -/
theorem hasCycle_true_iff_wf {g : G} (wf : WF g) : g.hasCycle = true ↔ ∃ v, Reach g v v := by
  rw [hasCycle_true_iff]
  constructor
  · rintro ⟨v, _, h⟩; exact ⟨v, h⟩
  · rintro ⟨v, h⟩
    obtain ⟨w, hw⟩ := h.src_mem
    exact ⟨v, (wf _ hw).1, h⟩

theorem hasCycle_false_iff {g : G} : g.hasCycle = false ↔ ∀ v ∈ g.nodes, ¬ Reach g v v := by
  rw [← Bool.not_eq_true, hasCycle_true_iff]
  simp

theorem hasCycle_false_iff_wf {g : G} (wf : WF g) : g.hasCycle = false ↔ ∀ v, ¬ Reach g v v := by
  rw [← Bool.not_eq_true, hasCycle_true_iff_wf wf]
  simp

/-- Acyclicity stated as a strict rank function along every edge. -/
def HasRank (g : G) : Prop := ∃ r : Nat → Nat, ∀ e ∈ g.edges, r e.1 < r e.2

theorem Reach.rank_lt {g : G} {r : Nat → Nat} (hr : ∀ e ∈ g.edges, r e.1 < r e.2) {a b : Nat}
    (h : Reach g a b) : r a < r b := by
  induction h with
  | edge h => exact hr _ h
  | step h _ ih => exact Nat.lt_trans (hr _ h) ih

/-- A ranked graph has no closed walk. -/
theorem HasRank.no_cycle {g : G} (h : HasRank g) (v : Nat) : ¬ Reach g v v := by
  obtain ⟨r, hr⟩ := h
  intro hv
  exact Nat.lt_irrefl _ (hv.rank_lt hr)

theorem hasCycle_false_of_hasRank {g : G} (h : HasRank g) : g.hasCycle = false :=
  hasCycle_false_iff.2 (fun v _ => h.no_cycle v)

/-- The rank used for the converse: the number of distinct ancestors. -/
def ancRank (g : G) (v : Nat) : Nat := (g.ancRaw v).toFinset.card

theorem hasRank_of_no_cycle {g : G} (h : ∀ v, ¬ Reach g v v) : HasRank g := by
  refine ⟨g.ancRank, ?_⟩
  rintro ⟨u, v⟩ he
  show (g.ancRaw u).toFinset.card < (g.ancRaw v).toFinset.card
  apply Finset.card_lt_card
  refine Finset.ssubset_iff_subset_ne.2 ⟨?_, ?_⟩
  · intro x hx
    rw [List.mem_toFinset, mem_ancRaw_iff] at hx ⊢
    exact hx.snoc he
  · intro heq
    have hu : u ∈ (g.ancRaw v).toFinset := by
      rw [List.mem_toFinset, mem_ancRaw_iff]; exact Reach.edge he
    rw [← heq, List.mem_toFinset, mem_ancRaw_iff] at hu
    exact h u hu

/-- **Acyclicity two ways.** On a well-formed graph, `hasCycle = false` iff a strict rank exists. -/
theorem hasCycle_false_iff_hasRank {g : G} (wf : WF g) : g.hasCycle = false ↔ HasRank g :=
  ⟨fun h => hasRank_of_no_cycle ((hasCycle_false_iff_wf wf).1 h), hasCycle_false_of_hasRank⟩

/-! ### graphs built with `addNode` / `addEdge` -/

@[simp] theorem addNode_edges (g : G) (v : Nat) : (g.addNode v).edges = g.edges := by
  unfold addNode; split <;> rfl

theorem mem_addNode_nodes {g : G} {v x : Nat} : x ∈ (g.addNode v).nodes ↔ x ∈ g.nodes ∨ x = v := by
  unfold addNode
  split
  · rename_i h
    have : v ∈ g.nodes := by simpa using h
    constructor
    · exact Or.inl
    · rintro (h | rfl)
      · exact h
      · exact this
  · simp

theorem mem_addEdge_edges {g : G} {u v : Nat} {e : Nat × Nat} :
    e ∈ (g.addEdge u v).edges ↔ e ∈ g.edges ∨ e = (u, v) := by
  unfold addEdge
  simp only
  split
  · rename_i h
    have : (u, v) ∈ g.edges := by simpa using h
    simp only [addNode_edges]
    constructor
    · exact Or.inl
    · rintro (h | rfl)
      · exact h
      · exact this
  · simp

theorem mem_addEdge_nodes {g : G} {u v x : Nat} :
    x ∈ (g.addEdge u v).nodes ↔ x ∈ g.nodes ∨ x = u ∨ x = v := by
  unfold addEdge
  simp only
  split <;> simp [mem_addNode_nodes, or_assoc]

theorem WF.addNode {g : G} (wf : WF g) (v : Nat) : WF (g.addNode v) := by
  intro e he
  rw [addNode_edges] at he
  exact ⟨mem_addNode_nodes.2 (Or.inl (wf e he).1), mem_addNode_nodes.2 (Or.inl (wf e he).2)⟩

theorem WF.addEdge {g : G} (wf : WF g) (u v : Nat) : WF (g.addEdge u v) := by
  intro e he
  rcases mem_addEdge_edges.1 he with he | rfl
  · exact ⟨mem_addEdge_nodes.2 (Or.inl (wf e he).1), mem_addEdge_nodes.2 (Or.inl (wf e he).2)⟩
  · exact ⟨mem_addEdge_nodes.2 (Or.inr (Or.inl rfl)), mem_addEdge_nodes.2 (Or.inr (Or.inr rfl))⟩

theorem WF.empty : WF G.empty := by intro e he; cases he

theorem addEdge_edges_nodup {g : G} (h : g.edges.Nodup) (u v : Nat) : (g.addEdge u v).edges.Nodup := by
  unfold addEdge
  simp only
  split
  · simpa using h
  · rename_i hc
    have : (u, v) ∉ g.edges := by simpa using hc
    simp only [addNode_edges]
    exact List.Nodup.append h (by simp) (by simpa using this)

/-- Folding `addEdge` over a list: the edges are the old ones plus one per list element. -/
theorem mem_foldl_addEdge_edges {α} (f h : α → Nat) {e : Nat × Nat} :
    ∀ (l : List α) (g : G), e ∈ (l.foldl (fun g a => g.addEdge (f a) (h a)) g).edges ↔
      e ∈ g.edges ∨ ∃ a ∈ l, e = (f a, h a)
  | [], g => by simp
  | a :: l, g => by
    simp only [List.foldl_cons]
    rw [mem_foldl_addEdge_edges f h l, mem_addEdge_edges]
    simp only [List.mem_cons, exists_eq_or_imp]
    tauto

theorem WF.foldl_addEdge {α} (f h : α → Nat) :
    ∀ (l : List α) (g : G), WF g → WF (l.foldl (fun g a => g.addEdge (f a) (h a)) g)
  | [], _, wf => wf
  | _ :: l, _, wf => WF.foldl_addEdge f h l _ (wf.addEdge _ _)

theorem foldl_addEdge_nodup {α} (f h : α → Nat) :
    ∀ (l : List α) (g : G), g.edges.Nodup → (l.foldl (fun g a => g.addEdge (f a) (h a)) g).edges.Nodup
  | [], _, hn => hn
  | _ :: l, _, hn => foldl_addEdge_nodup f h l _ (addEdge_edges_nodup hn _ _)

theorem foldl_addEdge_nodes_mono {α} (f h : α → Nat) {x : Nat} :
    ∀ (l : List α) (g : G), x ∈ g.nodes → x ∈ (l.foldl (fun g a => g.addEdge (f a) (h a)) g).nodes
  | [], _, hx => hx
  | _ :: l, _, hx => foldl_addEdge_nodes_mono f h l _ (mem_addEdge_nodes.2 (Or.inl hx))

end G
end Pytask
