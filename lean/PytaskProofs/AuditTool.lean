import Lean
/-!
`#audit_module M` prints, for every theorem declared in module `M`, the axioms it depends on:
`AUDIT <name> [ax1, ax2, …]`. Used by `harness/common.py`; the accepted set is
⊆ {propext, Classical.choice, Quot.sound}.
-/
open Lean Elab Command

elab "#audit_module " m:ident : command => do
  let env ← getEnv
  let some idx := env.getModuleIdx? m.getId
    | throwError "unknown module {m.getId}"
  let names := env.header.moduleData[idx.toNat]!.constNames
  for n in names do
    match env.find? n with
    | some (.thmInfo _) =>
      if n.isInternal then continue
      let axs ← Lean.collectAxioms n
      logInfo m!"AUDIT {n} {axs.toList}"
    | _ => pure ()
