import PytaskProofs.Lemmas.EnginePersist
import PytaskProofs.Lemmas.EngineQuiet
/-!
# C17 — persisted tasks are not executed while products exist and stay quiet afterwards

Statements about `Engine.protocol` / `Engine.build` (M6) with the setup hook implementations in the
pluggy order of `Generated.setupOrder` (`skipping`, then `persist`, then `execute`). They hold for
every project, body function, graph, configuration (`force`, `dry`, `-k`, `-m`, `max_failures`), every
session the build loop can be in, and every schedule.

Vocabulary: the *neighbours* of a task are its dependencies, its own source, and its products
(`node_and_neighbors`); a neighbour *exists* when it has a state (`stateOf … = some _`); it *changed*
when its state differs from the recorded one or nothing is recorded (`hasChanged`).
-/
namespace Pytask
open Engine

/-- **C17_persist.** A persist-marked task that no skip mark (own, deselection, skipped ancestor),
no failed ancestor and no `would_be_executed` mark (only a dry run attaches those, see
`C17_real_nowbe` / `C17_dry_below_wbe`; repair of F20) stops, all of whose neighbours exist and at
least one of which changed: is reported PERSISTENCE, its body is **not** executed, no file is touched — for every configuration,
`force` included. Unless the build is a dry run, afterwards every neighbour is recorded with its
current state (`UpToDate`); in a dry run nothing is recorded. -/
theorem C17_persist (F : BodyFn) (P : Project) (g : G) (cfg : Cfg) (s : Sess) (t : TaskSpec)
    (hp : t.persist = true) (hns : ¬ SkipCond s t) (hnf : t.id ∉ s.failMarks) (hnw : t.id ∉ s.wbeMarks)
    (hex : ∀ v ∈ neighbours g t.id, (stateOf P s.w v).isSome = true)
    (hch : ∃ v ∈ neighbours g t.id, hasChanged s.w t.id v (stateOf P s.w v) = true) :
    (protocol F P g cfg s t).reports = s.reports ++ [(t.id, Outcome.persistence)] ∧
    (protocol F P g cfg s t).log = s.log ∧ (protocol F P g cfg s t).w.fs = s.w.fs ∧
    (protocol F P g cfg s t).skipMarks = s.skipMarks ∧ (protocol F P g cfg s t).failMarks = s.failMarks ∧
    (protocol F P g cfg s t).nFailed = s.nFailed ∧
    (cfg.dry = false → UpToDate P g (protocol F P g cfg s t).w t.id) ∧
    (cfg.dry = true → (protocol F P g cfg s t).w = s.w) := by
  rw [protocol_persisted hns hnf ⟨⟨hp, hnw⟩, hex, hch⟩]
  refine ⟨rfl, rfl, recordStates_fs, rfl, rfl, rfl, fun hdry v hv => ?_, fun hdry => recordStates_dry hdry⟩
  simp only []
  rw [stateOf_fs recordStates_fs]
  exact ⟨hex v hv, recordStates_lookup hdry hex hv⟩

/-- **C17_quiet** (the next protocol of the task). If every neighbour of a task is recorded with its
current state — which is what `C17_persist` establishes — then the next unforced build reports the
task SKIP_UNCHANGED, whether or not it still carries the persist mark; nothing runs, nothing changes. -/
theorem C17_quiet (F : BodyFn) (P : Project) (g : G) (cfg : Cfg) (s : Sess) (t : TaskSpec)
    (hforce : cfg.force = false) (hns : ¬ SkipCond s t) (hnf : t.id ∉ s.failMarks) (hnw : t.id ∉ s.wbeMarks)
    (hup : UpToDate P g s.w t.id) :
    protocol F P g cfg s t = { s with reports := s.reports ++ [(t.id, Outcome.skipUnchanged)] } :=
  protocol_unchanged hforce hns hnf hnw hup

/-- **C17_persist_build.** `C17_persist` inside a whole build, for every accepted schedule: if the
conditions hold in the session `s1` in which the task's protocol starts (the state the earlier picks
`pre` lead to), the build reports the task PERSISTENCE, its body is not in the execution log, and in a
real (non-dry) build the database the build leaves records every neighbour with the state it had then.
For a real build nothing more is assumed (it never carries `would_be_executed` marks); for a dry run
the task must not have been marked by an ancestor that would be executed (`C17_dry_below_wbe`). -/
theorem C17_persist_build (F : BodyFn) (P : Project) (cfg : Cfg) (w : World) (picks : List Nat) (r : Result)
    (g : G) (marks : List Nat)
    (hd : createDag P cfg = .ok (g, marks)) (hb : build F P cfg w picks = .ok r)
    (pre post : List Nat) (t : Nat) (hpk : picks = pre ++ t :: post)
    (s1 : Sess) (spec : TaskSpec) (h1 : Steps F P g cfg { w := w, skipMarks := marks } pre s1)
    (hf : Project.find? P t = some spec)
    (hp : spec.persist = true) (hns : ¬ SkipCond s1 spec) (hnf : t ∉ s1.failMarks)
    (hnw : cfg.dry = true → t ∉ s1.wbeMarks)
    (hex : ∀ v ∈ neighbours g t, (stateOf P s1.w v).isSome = true)
    (hch : ∃ v ∈ neighbours g t, hasChanged s1.w t v (stateOf P s1.w v) = true) :
    (t, Outcome.persistence) ∈ r.reports ∧ (∀ o, (t, o) ∈ r.reports → o = Outcome.persistence) ∧ t ∉ r.log ∧
    (cfg.dry = false → ∀ v ∈ neighbours g t, lookup r.w.db (tv t, v) = stateOf P s1.w v) := by
  obtain ⟨s1', spec', s', h1', hf', hid, h2, _, hpost, _, _, hw, hl1, hr1, hl, hr⟩ := build_at hd hb hpk
  rw [hf] at hf'; cases hf'
  have := h1.det h1'; subst this
  subst hid
  have hnw' : spec.id ∉ s1.wbeMarks := by
    cases hdry : cfg.dry
    · rw [h1.real_nowbe hdry rfl]; simp
    · exact hnw hdry
  obtain ⟨c1, c2, c3, _, _, _, c7, _⟩ := C17_persist F P g cfg s1 spec hp hns hnf hnw' hex hch
  refine ⟨(hr _).2 (by rw [c1]; simp), fun o ho => ?_, fun h => hl1 (c2 ▸ hl.1 h), fun hdry v hv => ?_⟩
  · have := (hr o).1 ho
    rw [c1] at this
    simp only [List.mem_append, List.mem_singleton, Prod.mk.injEq, true_and] at this
    rcases this with h | h
    · exact absurd h (hr1 o)
    · exact h
  · rw [hw, h2.db_rows_notin hpost v]
    have hup := c7 hdry v hv
    rw [hup.2, stateOf_fs c3]

/-- **C17_quiet_build.** Two consecutive builds of the same project, the second one (any options
except `force`) started on the world the first one left — no edits in between. If the task was
persisted in the first build (conditions of `C17_persist` in the session `s1` where its protocol
started, not a dry run), and in the second build its protocol starts in a session `s2` in which it is
not stopped by a skip mark / failed ancestor (nor, if the second build is a dry run, by a
`would_be_executed` mark) and its neighbours still have the states
they had in `s1` (no upstream task rewrote them), then the second build reports it SKIP_UNCHANGED and
does not execute it. -/
theorem C17_quiet_build (F : BodyFn) (P : Project) (cfg1 cfg2 : Cfg) (w : World) (picks1 picks2 : List Nat)
    (r1 r2 : Result) (g : G) (marks1 marks2 : List Nat)
    (hd1 : createDag P cfg1 = .ok (g, marks1)) (hb1 : build F P cfg1 w picks1 = .ok r1)
    (hd2 : createDag P cfg2 = .ok (g, marks2)) (hb2 : build F P cfg2 r1.w picks2 = .ok r2)
    (pre1 post1 pre2 post2 : List Nat) (t : Nat)
    (hpk1 : picks1 = pre1 ++ t :: post1) (hpk2 : picks2 = pre2 ++ t :: post2)
    (s1 s2 : Sess) (spec : TaskSpec) (hf : Project.find? P t = some spec)
    (h1 : Steps F P g cfg1 { w := w, skipMarks := marks1 } pre1 s1)
    (h2 : Steps F P g cfg2 { w := r1.w, skipMarks := marks2 } pre2 s2)
    -- persisted in build 1
    (hdry : cfg1.dry = false)
    (hp : spec.persist = true) (hns : ¬ SkipCond s1 spec) (hnf : t ∉ s1.failMarks)
    (hex : ∀ v ∈ neighbours g t, (stateOf P s1.w v).isSome = true)
    (hch : ∃ v ∈ neighbours g t, hasChanged s1.w t v (stateOf P s1.w v) = true)
    -- build 2
    (hforce : cfg2.force = false) (hns2 : ¬ SkipCond s2 spec) (hnf2 : t ∉ s2.failMarks)
    (hnw2 : cfg2.dry = true → t ∉ s2.wbeMarks)
    (hsame : ∀ v ∈ neighbours g t, stateOf P s2.w v = stateOf P s1.w v) :
    (t, Outcome.skipUnchanged) ∈ r2.reports ∧ (∀ o, (t, o) ∈ r2.reports → o = Outcome.skipUnchanged) ∧ t ∉ r2.log := by
  obtain ⟨_, _, _, hrec⟩ := C17_persist_build F P cfg1 w picks1 r1 g marks1 hd1 hb1 pre1 post1 t hpk1 s1 spec h1 hf
    hp hns hnf (fun h => by rw [hdry] at h; cases h) hex hch
  obtain ⟨s2', spec', s', h2', hf', hid, _, hpre2, _, _, _, _, hl1, hr1, hl, hr⟩ := build_at hd2 hb2 hpk2
  rw [hf] at hf'; cases hf'
  have := h2.det h2'; subst this
  subst hid
  have hup : UpToDate P g s2.w spec.id := by
    intro v hv
    rw [hsame v hv]
    refine ⟨hex v hv, ?_⟩
    have := h2.db_rows_notin hpre2 v
    simp only [] at this
    rw [this]
    exact hrec hdry v hv
  have hnw2' : spec.id ∉ s2.wbeMarks := by
    cases hd2' : cfg2.dry
    · rw [h2.real_nowbe hd2' rfl]; simp
    · exact hnw2 hd2'
  have hq := C17_quiet F P g cfg2 s2 spec hforce hns2 hnf2 hnw2' hup
  rw [hq] at hl hr
  refine ⟨(hr _).2 (by simp), fun o ho => ?_, fun h => hl1 (hl.1 h)⟩
  have := (hr o).1 ho
  simp only [List.mem_append, List.mem_singleton, Prod.mk.injEq, true_and] at this
  rcases this with h | h
  · exact absurd h (hr1 o)
  · exact h

/-- **C17_quiet_build_full.** `C17_quiet_build` with its state hypothesis discharged. Two consecutive
builds of the same project, the second (any options except `force`, any accepted schedule) started on
the world the first one left — no edits in between; no task writes a task's source file
(`SrcSafe`). If the first build was real (not a dry run) and reported `t` PERSISTENCE, and in the
second build `t` is handed out, is eligible under `-k` / `-m`, is not in the closure of a user-skipped
task, and **no task-ancestor of `t` executes, fails or (dry run) would be executed**, then the second
build reports `t` SKIP_UNCHANGED and does not execute it.

Why the neighbours of `t` cannot have moved: a body writes its own products only; products have a
unique producer (`create_dag` accepted the graph); the producer of a dependency of `t` — or of a
product of an `after` target — is a task-ancestor of `t`; ancestors were all handed out before `t`
in build 1, and do not execute in build 2. If an ancestor *does* execute in build 2 it may rewrite a
dependency of `t`, and `t` is then rightly persisted again (example below). When build 1 was complete
and all-good and nothing was edited, no task executes in the unforced build 2 at all (property C03,
`C03_repeat`), so the ancestor hypothesis holds for every task. -/
theorem C17_quiet_build_full (F : BodyFn) (P : Project) (cfg1 cfg2 : Cfg) (w : World) (picks1 picks2 : List Nat)
    (r1 r2 : Result) (g : G) (marks1 marks2 : List Nat)
    (hd1 : createDag P cfg1 = .ok (g, marks1)) (hb1 : build F P cfg1 w picks1 = .ok r1)
    (hd2 : createDag P cfg2 = .ok (g, marks2)) (hb2 : build F P cfg2 r1.w picks2 = .ok r2)
    (hsrc : SrcSafe P) (t : Nat)
    (hdry : cfg1.dry = false) (hpers : (t, Outcome.persistence) ∈ r1.reports)
    (hforce : cfg2.force = false) (ht2 : t ∈ picks2)
    (hel : Eligible g cfg2 t) (hnsk : ¬ ∃ a, UserSkipped P a ∧ (t = a ∨ t ∈ taskDesc g a))
    (hanc : ∀ a ∈ taskAnc g t, a ∉ r2.log ∧ (a, Outcome.fail) ∉ r2.reports ∧ (a, Outcome.wouldBeExecuted) ∉ r2.reports) :
    (t, Outcome.skipUnchanged) ∈ r2.reports ∧ (∀ o, (t, o) ∈ r2.reports → o = Outcome.skipUnchanged) ∧ t ∉ r2.log := by
  -- build 1: t was picked; the session of its protocol
  obtain ⟨_, _, sf1, _, _, hs1, hnd1, hord1, hr1, _, hw1, _⟩ := build_run hd1 hb1
  have ht1 : t ∈ picks1 := by
    refine Classical.byContradiction fun hn => ?_
    have := (hs1.reports_notin hn (o := Outcome.persistence)).1 (hr1 ▸ hpers)
    simp at this
  obtain ⟨pre1, post1, hpk1⟩ := List.append_of_mem ht1
  obtain ⟨s1, spec, s1', h1, hf, hid, hpost1, hpre1n, hpost1n, _, _, hw1', _, hrep1, _, hrr1⟩ := build_at hd1 hb1 hpk1
  subst hid
  obtain ⟨⟨hns, hnf⟩, hpc⟩ := protocol_persistence_report ((hrr1 _).1 hpers) (hrep1 _)
  obtain ⟨⟨hp, hnw1⟩, hex, hch⟩ := hpc
  -- build 2
  obtain ⟨pre2, post2, hpk2⟩ := List.append_of_mem ht2
  obtain ⟨s2, spec2, s2', h2, hf2, _, hpost2, hpre2n, _, hrr2, hll2, _, _, _, _, _⟩ := build_at hd2 hb2 hpk2
  rw [hf] at hf2; cases hf2
  have hstep2 : Steps F P g cfg2 s2 (spec.id :: post2) s2' := .cons hf hpost2
  have hrep_mono : ∀ x ∈ s2.reports, x ∈ r2.reports := fun x hx => hrr2 ▸ hstep2.reports_mono x hx
  have hlog_mono : ∀ x ∈ s2.log, x ∈ r2.log := fun x hx => hll2 ▸ hstep2.log_mono x hx
  have hmo : MarksOrigin g s2 := h2.marksOrigin ⟨by simp, by simp⟩
  have hnb : ¬ Blocked P g cfg2 spec.id := fun hb => hb.elim (fun h => h hel) (fun h => hnsk h)
  have hns2 : ¬ SkipCond s2 spec := by
    have hbl := (h2.blocked_inv (cfg := cfg2) (s := { w := r1.w, skipMarks := marks2 }) (by
      intro x hx
      have : x ∈ deselected P g cfg2 := by rw [← (createDag_ok hd2).2.1]; exact hx
      exact .inl (mem_deselected.1 this).2)).1
    rintro (h | h | h)
    · exact hnsk ⟨spec.id, ⟨spec, hf, .inl h⟩, .inl rfl⟩
    · exact hnsk ⟨spec.id, ⟨spec, hf, .inr h⟩, .inl rfl⟩
    · exact hnb (hbl _ h)
  have hnf2 : spec.id ∉ s2.failMarks := by
    intro h
    obtain ⟨a, ha, hda⟩ := hmo.1 _ h
    exact (hanc a (mem_taskDesc_iff_mem_taskAnc.1 hda)).2.1 (hrep_mono _ ha)
  have hnw2 : spec.id ∉ s2.wbeMarks := by
    intro h
    obtain ⟨a, ha, hda⟩ := hmo.2 _ h
    exact (hanc a (mem_taskDesc_iff_mem_taskAnc.1 hda)).2.2 (hrep_mono _ ha)
  -- the states t looks at have not moved since its protocol in build 1
  have hsame : ∀ v ∈ neighbours g spec.id, stateOf P s2.w v = stateOf P s1.w v := by
    intro v hv
    have e2 := h2.nbr_frame hd2 hsrc hpre2n (fun u _ hu hl => (hanc u hu).1 (hlog_mono u hl)) v hv
    have e1 := hpost1.nbr_frame hd1 hsrc hpost1n (fun u hu hua _ => by
      have hin : u ∈ pre1 := hord1 pre1 spec.id post1 hpk1 u hua
      rw [hpk1] at hnd1
      exact (List.nodup_append.1 hnd1).2.2 u hin u (List.mem_cons_of_mem _ hu) rfl) v hv
    obtain ⟨_, _, c3, _⟩ := C17_persist F P g cfg1 s1 spec hp hns hnf hnw1 hex hch
    simp only [] at e2
    rw [e2, hw1', e1, stateOf_fs c3]
  exact C17_quiet_build F P cfg1 cfg2 w picks1 picks2 r1 r2 g marks1 marks2 hd1 hb1 hd2 hb2 pre1 post1 pre2 post2 spec.id
    hpk1 hpk2 s1 s2 spec hf h1 h2 hdry hp hns hnf hex hch hforce hns2 hnf2 (fun _ => hnw2) hsame

/-- **C17_real_nowbe.** A real (non-dry) build never carries `would_be_executed` marks: in every
session reached from the start of the build the mark list is empty. So the extra hypothesis of
`C17_persist` is vacuous outside dry runs, and `C17_persist_build` / `C17_quiet_build` hold for real
builds at full strength. -/
theorem C17_real_nowbe (F : BodyFn) (P : Project) (g : G) (cfg : Cfg) (w : World) (marks : List Nat)
    (pre : List Nat) (s1 : Sess) (hdry : cfg.dry = false)
    (h1 : Steps F P g cfg { w := w, skipMarks := marks } pre s1) : s1.wbeMarks = [] :=
  h1.real_nowbe hdry rfl

/-- **C17_dry_below_wbe** (repair of F20). In a dry run, a task that an ancestor which would be
executed has marked — persist-marked or not, changed or not — is reported WOULD_BE_EXECUTED, never
PERSISTENCE, and passes the mark on to its own descendants: whether its nodes will still be changed
once the ancestors really ran cannot be known. Nothing runs, nothing is recorded. -/
theorem C17_dry_below_wbe (F : BodyFn) (P : Project) (g : G) (cfg : Cfg) (s : Sess) (t : TaskSpec)
    (hns : ¬ SkipCond s t) (hnf : t.id ∉ s.failMarks) (hw : t.id ∈ s.wbeMarks) :
    protocol F P g cfg s t =
      { s with reports := s.reports ++ [(t.id, Outcome.wouldBeExecuted)], wbeMarks := s.wbeMarks ++ taskDesc g t.id } :=
  protocol_wbe_marked hns hnf hw

/-- **C17_missing.** With a missing neighbour — a missing product in particular — the persist mark
has no effect at all: the whole protocol (setup checks, execution, teardown, report, recorded states,
marks put on descendants) is that of the same task without the mark. -/
theorem C17_missing (F : BodyFn) (P : Project) (g : G) (cfg : Cfg) (s : Sess) (t : TaskSpec)
    (hmiss : ∃ v ∈ neighbours g t.id, stateOf P s.w v = none) :
    protocol F P g cfg s t = protocol F P g cfg s { t with persist := false } := by
  apply protocol_persist_irrelevant
  rintro ⟨_, hex, _⟩
  obtain ⟨v, hv, hn⟩ := hmiss
  have := hex v hv
  simp [hn] at this

/-- **C17_nochange.** Likewise when nothing changed: a persist-marked task whose neighbours are all
unchanged is handled exactly like an unmarked one (so it is SKIP_UNCHANGED, or runs when forced). -/
theorem C17_nochange (F : BodyFn) (P : Project) (g : G) (cfg : Cfg) (s : Sess) (t : TaskSpec)
    (hno : ∀ v ∈ neighbours g t.id, hasChanged s.w t.id v (stateOf P s.w v) = false) :
    protocol F P g cfg s t = protocol F P g cfg s { t with persist := false } := by
  apply protocol_persist_irrelevant
  rintro ⟨_, _, v, hv, hc⟩
  rw [hno v hv] at hc
  cases hc

/-- **C17_order.** In the pluggy call order read from the code, the skipping implementation of
`pytask_execute_task_setup` comes before the persist implementation, which comes before the
up-to-date check of `execute`; and in `pytask_execute_task_process_report` (first result wins) both
`skipping` and `persist` come before `execute`. (`C17_skip_wins`, `C17_failed_wins`, `C17_persist` are
proved through `Generated.setupOrder`, so a change of the plugin order re-checks them.) -/
theorem C17_order :
    Generated.setupOrder.idxOf "skipping" < Generated.setupOrder.idxOf "persist" ∧
    Generated.setupOrder.idxOf "persist" < Generated.setupOrder.idxOf "execute" ∧
    Generated.setupOrder.idxOf "execute" < Generated.setupOrder.length ∧
    Generated.setupOrderFirstResult = false ∧
    Generated.processReportOrder.idxOf "skipping" < Generated.processReportOrder.idxOf "persist" ∧
    Generated.processReportOrder.idxOf "persist" < Generated.processReportOrder.idxOf "execute" ∧
    Generated.processReportOrder.idxOf "execute" < Generated.processReportOrder.length ∧
    Generated.processReportOrderFirstResult = true := by decide

/-- **C17_skip_wins.** Skip beats persist: a persist-marked task that is user-skipped, deselected by
`-k` / `-m`, or a dependant of a skipped task is reported SKIP; nothing is recorded, so the pending
change is still seen by a later build. -/
theorem C17_skip_wins (F : BodyFn) (P : Project) (g : G) (cfg : Cfg) (s : Sess) (t : TaskSpec)
    (_hp : t.persist = true) (hsk : SkipCond s t) :
    protocol F P g cfg s t =
      { s with reports := s.reports ++ [(t.id, Outcome.skip)], skipMarks := s.skipMarks ++ taskDesc g t.id } :=
  protocol_skipped hsk

/-- **C17_failed_wins.** A failed ancestor beats persist: the task is reported SKIP_PREVIOUS_FAILED,
it is not executed and nothing is recorded. -/
theorem C17_failed_wins (F : BodyFn) (P : Project) (g : G) (cfg : Cfg) (s : Sess) (t : TaskSpec)
    (_hp : t.persist = true) (hns : ¬ SkipCond s t) (hf : t.id ∈ s.failMarks) :
    protocol F P g cfg s t = { s with reports := s.reports ++ [(t.id, Outcome.skipPrevFailed)] } :=
  protocol_ancestorFailed hns hf

/-! ## non-vacuity -/

/-- 0 produces 20; 1 (persist) reads 20 and writes 21. -/
def c17P : Project := ⟨[
  { id := 0, src := 90, deps := [10], prods := [20], after := [] },
  { id := 1, src := 91, deps := [20], prods := [21], after := [], persist := true }]⟩
def c17F : BodyFn := fun t i _ ds => t + i + 1 + (ds.map (·.getD 0)).sum
def c17W : World := ⟨[(10, 5), (90, 1), (91, 2)], []⟩

/-- A forced build after an edit of the input and with the product tampered: task 0 re-runs, the
persist task 1 is PERSISTENCE (not run) although forced; the next plain build reports both unchanged
(`C17_persist`, `C17_persist_build`, `C17_quiet_build` with their hypotheses instantiated). -/
example : ∃ r1 r2 r3, build c17F c17P {} c17W [0, 1] = .ok r1 ∧
    build c17F c17P { force := true } ⟨Engine.insert (Engine.insert r1.w.fs 10 6) 21 777, r1.w.db⟩ [0, 1] = .ok r2 ∧
    build c17F c17P {} r2.w [0, 1] = .ok r3 ∧
    r1.reports = [(0, .success), (1, .success)] ∧
    r2.reports = [(0, .success), (1, .persistence)] ∧ r2.log = [0] ∧ lookup r2.w.fs 21 = some 777 ∧
    r3.reports = [(0, .skipUnchanged), (1, .skipUnchanged)] ∧ r3.log = [] :=
  ⟨_, _, _, rfl, rfl, rfl, rfl, rfl, rfl, rfl, rfl, rfl⟩

/-- `C17_quiet_build_full`, hypotheses on concrete data, and its boundary: the product of the persist
task 1 is tampered → build 2 persists it; build 3 (no edits, no ancestor executes) reports it
unchanged; then the input of the *ancestor* 0 is edited → in build 4 task 0 executes and rewrites the
dependency of task 1, which is rightly persisted again; build 5 is quiet. -/
example : SrcSafe c17P ∧ ∃ r1 r2 r3 r4 r5 g, createDag c17P {} = .ok (g, []) ∧ taskAnc g 1 = [0] ∧
    build c17F c17P {} c17W [0, 1] = .ok r1 ∧
    build c17F c17P {} ⟨Engine.insert r1.w.fs 21 777, r1.w.db⟩ [0, 1] = .ok r2 ∧
    build c17F c17P {} r2.w [0, 1] = .ok r3 ∧
    build c17F c17P {} ⟨Engine.insert r3.w.fs 10 6, r3.w.db⟩ [0, 1] = .ok r4 ∧
    build c17F c17P {} r4.w [0, 1] = .ok r5 ∧
    r2.reports = [(0, .skipUnchanged), (1, .persistence)] ∧
    r3.reports = [(0, .skipUnchanged), (1, .skipUnchanged)] ∧ r3.log = [] ∧
    r4.reports = [(0, .success), (1, .persistence)] ∧ r4.log = [0] ∧
    r5.reports = [(0, .skipUnchanged), (1, .skipUnchanged)] :=
  ⟨by unfold SrcSafe; decide, _, _, _, _, _, _, rfl, by decide, rfl, rfl, rfl, rfl, rfl, rfl, rfl, rfl, rfl, rfl, rfl⟩

/-- `C17_missing`: the product of the persist task was deleted — it runs like any other task. -/
example : ∃ r1 r2, build c17F c17P {} c17W [0, 1] = .ok r1 ∧
    build c17F c17P {} ⟨r1.w.fs.filter (·.1 != 21), r1.w.db⟩ [0, 1] = .ok r2 ∧
    r2.reports = [(0, .skipUnchanged), (1, .success)] ∧ r2.log = [1] :=
  ⟨_, _, rfl, rfl, rfl, rfl⟩

/-- Dry run: PERSISTENCE is reported but nothing is recorded, so the next real build persists again. -/
example : ∃ r1 r2 r3, build c17F c17P {} c17W [0, 1] = .ok r1 ∧
    build c17F c17P { dry := true } ⟨Engine.insert r1.w.fs 21 777, r1.w.db⟩ [0, 1] = .ok r2 ∧
    build c17F c17P {} r2.w [0, 1] = .ok r3 ∧
    r2.reports = [(0, .skipUnchanged), (1, .persistence)] ∧ r2.w.db = r1.w.db ∧
    r3.reports = [(0, .skipUnchanged), (1, .persistence)] :=
  ⟨_, _, _, rfl, rfl, rfl, rfl, rfl, rfl⟩

/-- `C17_dry_below_wbe` (the F20 shape): forced dry run with the persist task's product tampered — the
producer 0 would be executed, so the persist task 1 below it is WOULD_BE_EXECUTED, not PERSISTENCE; the
real forced build then re-runs 0 and persists 1. -/
example : ∃ r1 r2 r3, build c17F c17P {} c17W [0, 1] = .ok r1 ∧
    build c17F c17P { force := true, dry := true } ⟨Engine.insert r1.w.fs 21 777, r1.w.db⟩ [0, 1] = .ok r2 ∧
    build c17F c17P { force := true } r2.w [0, 1] = .ok r3 ∧
    r2.reports = [(0, .wouldBeExecuted), (1, .wouldBeExecuted)] ∧ r2.log = [] ∧
    r3.reports = [(0, .success), (1, .persistence)] ∧ r3.log = [0] :=
  ⟨_, _, _, rfl, rfl, rfl, rfl, rfl, rfl, rfl⟩

/-- `C17_skip_wins` / `C17_failed_wins`: upstream skipped ⇒ SKIP; upstream failing ⇒ SKIP_PREVIOUS_FAILED. -/
example : ∃ r, build c17F ⟨[{ id := 0, src := 90, deps := [10], prods := [20], after := [], skip := true },
                            { id := 1, src := 91, deps := [20], prods := [21], after := [], persist := true }]⟩
      {} ⟨[(10, 5), (90, 1), (91, 2), (20, 1), (21, 1)], []⟩ [0, 1] = .ok r ∧ r.reports = [(0, .skip), (1, .skip)] :=
  ⟨_, rfl, rfl⟩
example : ∃ r, build c17F ⟨[{ id := 0, src := 90, deps := [10], prods := [20], after := [], beh := .raisesEarly },
                            { id := 1, src := 91, deps := [20], prods := [21], after := [], persist := true }]⟩
      {} ⟨[(10, 5), (90, 1), (91, 2), (20, 1), (21, 1)], []⟩ [0, 1] = .ok r ∧
      r.reports = [(0, .fail), (1, .skipPrevFailed)] :=
  ⟨_, rfl, rfl⟩

end Pytask
