import PytaskProofs.Lemmas.EngineReport
import PytaskProofs.Lemmas.EngineExit
import PytaskProofs.Lemmas.EngineNoCrash
import PytaskModel.BuildTop
/-!
# C08 — reported outcomes and exit codes are truthful; build() always returns

Engine level (M6, `Engine.build` / `buildLoop`): one report per task, what SUCCESS / the non-run
outcomes / FAIL mean — for every project, configuration, world and accepted pick list.
Top level (`BuildTop.buildTop`, the try/except ladder of `build()` taken from `Generated.buildLadder`,
`buildPhases`, `configFailCode`, `configHandler`, `unconfigureAfterLadder`, `dagWrapsException`): for
every combination of phase faults, `build()` returns and the exit code is the one of the table.
-/
namespace Pytask
open Sorter Engine BuildTop

variable {F : BodyFn} {P : Project} {cfg : Cfg} {g : G} {marks : List Nat}

/-- **C08_one_report.** Every task has at most one report per build; and if the loop ran to its
natural end (scheduler exhausted, not stopped by the failure limit, no crash in the database
update), every collected task has exactly one. -/
theorem C08_one_report {w : World} {picks : List Nat} {so so' : Sorter} {s' : Sess}
    (hdag : createDag P cfg = .ok (g, marks)) (hso : fromDag g isTaskV (prioFn P) = .ok so)
    (hloop : buildLoop F P g cfg so { w := w, skipMarks := marks } picks = .ok (so', s')) :
    (s'.reports.map Prod.fst).Nodup ∧
    (s'.stop = false → s'.crashed = false → so'.isActive = false →
      ∀ t ∈ P.tasks, (s'.reports.map Prod.fst).count t.id = 1) := by
  have hrun := run_of_buildLoop _ _ _ _ _ hloop
  obtain ⟨hn, _⟩ := run_order hso hrun
  obtain ⟨l, hl1, hl2, hl3⟩ := hrun.report_keys
  simp only [List.map_nil, List.nil_append] at hl2
  have hnd : (s'.reports.map Prod.fst).Nodup := by
    rw [hl2]; exact List.Nodup.sublist hl1.sublist hn
  refine ⟨hnd, ?_⟩
  intro _ hc hact t ht
  rw [hl2, hl3 hc]
  have hnode : tv t.id ∈ so.nodes := by
    rw [fromDag_nodes hso]
    simp [createDag_nodes hdag t ht, isTaskV_tv]
  have hempty : so'.nodes = [] := by
    unfold Sorter.isActive at hact
    simpa using hact
  have : tv t.id ∈ picks.map tv := by
    apply Classical.byContradiction
    intro hcon
    have := (hrun.sorter_nodes (tv t.id)).2 ⟨hnode, hcon⟩
    rw [hempty] at this; cases this
  obtain ⟨x, hx, hxe⟩ := List.mem_map.1 this
  rw [tv_inj' hxe] at hx
  exact count_eq_one_of_nodup hn hx

/-- At most one report per task, stated on the result of `build`. -/
theorem C08_at_most_one {w : World} {picks : List Nat} {r : Result}
    (hdag : createDag P cfg = .ok (g, marks)) (hb : build F P cfg w picks = .ok r) :
    (r.reports.map Prod.fst).Nodup := by
  rcases build_run hdag hb with ⟨so, so', s', hso, hrun, hr, _, _, _, _⟩ | ⟨hr, _, _, _⟩
  · rw [hr]; exact (C08_one_report hdag hso (buildLoop_of_run hrun)).1
  · rw [hr]; simp

/-- **C08_success.** A task reported SUCCESS was started from a session in which its function ran to
completion (the body call did not raise); it ran **once**: its body is logged exactly once in the whole
build (`r.log.count t = 1`, from the at-most-once argument of C01 — picks are duplicate-free); and
all its declared products exist when the build ends. -/
theorem C08_success {w : World} {picks : List Nat} {r : Result}
    (hdag : createDag P cfg = .ok (g, marks)) (hb : build F P cfg w picks = .ok r)
    {t : Nat} (ht : (t, Outcome.success) ∈ r.reports) :
    r.log.count t = 1 ∧
    ∃ spec, Project.find? P t = some spec ∧ (∀ p ∈ spec.prods, (lookup r.w.fs p).isSome = true) ∧
      ∃ pre post so so1 s1, picks = pre ++ t :: post ∧
        buildLoop F P g cfg so { w := w, skipMarks := marks } pre = .ok (so1, s1) ∧
        (runBody F spec s1.w.fs).2 = false ∧ cfg.dry = false := by
  rcases build_run hdag hb with ⟨so, so', s', hso, hrun, hr, hl, hw, _, _⟩ | ⟨hr, _, _, _⟩
  · rw [hr] at ht
    obtain ⟨hn, _⟩ := run_order hso hrun
    rcases report_origin hrun t _ ht with h0 | ⟨pre, post, so1, s1, spec, hpa, ho⟩
    · cases h0
    have hnone : (runPhases F P g cfg s1 spec).1 = .none := outc_inj (b := .none) ho
    obtain ⟨_, hdry, hnr, _, _, hlog, hprods⟩ := runPhases_none s1 spec hnone
    have hlogmem : t ∈ s'.log := by
      apply hpa.hpost.log_prefix.subset
      rw [protocol_log_eq, hlog, hpa.id_eq]; simp
    have hlognd : s'.log.Nodup := by
      obtain ⟨hd0, hp0⟩ := fromDag_init hso
      obtain ⟨_, _, _, l, hl1, hl2⟩ := buildLoop_order F P g cfg picks so.edges so _ [] so' s'
        (Reach.init so hd0 hp0) hd0 (buildLoop_of_run hrun)
      rw [hl2]; simpa using List.Nodup.sublist hl1 hn
    refine ⟨by rw [hl]; exact count_eq_one_of_nodup hlognd hlogmem, spec, hpa.hfind, ?_, ?_⟩
    · intro p hp
      rw [hw]
      apply hpa.hpost.fs_mono
      unfold protocol
      rw [processReport_fs]
      exact hprods p hp
    · exact ⟨pre, post, so, so1, s1, hpa.hp, buildLoop_of_run hpa.hpre, hnr, hdry⟩
  · rw [hr] at ht; cases ht

/-- **C08_not_run.** Skipped, unchanged, skipped-because-an-ancestor-failed, persisted and
would-be-executed all mean: the task's function was not invoked in this build. -/
theorem C08_not_run {w : World} {picks : List Nat} {r : Result}
    (hdag : createDag P cfg = .ok (g, marks)) (hb : build F P cfg w picks = .ok r)
    {t : Nat} {o : Outcome} (ht : (t, o) ∈ r.reports) (h1 : o ≠ .success) (h2 : o ≠ .fail) : t ∉ r.log := by
  rcases build_run hdag hb with ⟨so, so', s', hso, hrun, hr, hl, _, _, _⟩ | ⟨hr, _, _, _⟩
  · rw [hr] at ht; rw [hl]
    obtain ⟨hn, _⟩ := run_order hso hrun
    rcases report_origin hrun t _ ht with h0 | ⟨pre, post, so1, s1, spec, hpa, ho⟩
    · cases h0
    intro hlog
    rcases log_origin hrun t hlog with h0 | ⟨pre2, post2, so2, s2, spec2, hpa2, hlg⟩
    · cases h0
    obtain ⟨_, _, _, rfl, rfl⟩ := hpa.unique hn hpa2
    have hsame := runPhases_nonrun (F := F) (P := P) (g := g) (cfg := cfg) s1 spec
      (fun hc => h1 (by rw [← ho, hc]; rfl)) (fun hc => h2 (by rw [← ho, hc]; rfl))
    rw [hsame] at hlg
    simp at hlg
  · rw [hr] at ht; cases ht

/-- **C08_fail_iff.** A task is reported FAIL exactly when, in the session in which its protocol
started, `FailCond` holds: it was not short-cut by skip / skipif / a skipped or failed ancestor /
persist / a would-be-executed mark, and either a dependency (or its module) was missing at setup, or
it was due, the build is no dry-run, and its function or a node's load/save raised or a declared
product was missing after the call. -/
theorem C08_fail_iff {w : World} {picks : List Nat} {so so' : Sorter} {s' : Sess}
    (hso : fromDag g isTaskV (prioFn P) = .ok so)
    (hloop : buildLoop F P g cfg so { w := w, skipMarks := marks } picks = .ok (so', s')) (t : Nat) :
    (t, Outcome.fail) ∈ s'.reports ↔
      ∃ pre post so1 s1 spec, picks = pre ++ t :: post ∧
        buildLoop F P g cfg so { w := w, skipMarks := marks } pre = .ok (so1, s1) ∧
        Project.find? P t = some spec ∧ FailCond F P g cfg s1 spec := by
  have hrun := run_of_buildLoop _ _ _ _ _ hloop
  constructor
  · intro ht
    rcases report_origin hrun t _ ht with h0 | ⟨pre, post, so1, s1, spec, hpa, ho⟩
    · cases h0
    have he : (runPhases F P g cfg s1 spec).1 = .error := outc_inj (b := .error) ho
    exact ⟨pre, post, so1, s1, spec, hpa.hp, buildLoop_of_run hpa.hpre, hpa.hfind,
      (runPhases_error_iff_failCond s1 spec).1 he⟩
  · rintro ⟨pre, post, so1, s1, spec, rfl, hpre, hfind, hfc⟩
    obtain ⟨so1', s1', spec', hpa⟩ := pickAt_of_split hrun
    obtain ⟨rfl, rfl⟩ := Run.det hpa.hpre (run_of_buildLoop _ _ _ _ _ hpre)
    have : spec' = spec := by simpa using hpa.hfind.symm.trans hfind
    subst this
    have he := (runPhases_error_iff_failCond (F := F) s1' spec').2 hfc
    rcases hpa.report with hr | hr
    · rw [he] at hr; exact hr
    · rw [he] at hr; cases hr.1

/-- **C08_no_crash.** With distinct task ids (what collection guarantees), `update_states_in_database`
never raises in the SUCCESS / PERSISTENCE branch: whenever the protocol ends without exception every
neighbour of the task has a state (dependencies were checked at setup even for forced tasks — the F14
repair —, products at teardown). So the build loop is never aborted by an exception of pytask's own. -/
theorem C08_no_crash {w : World} {picks : List Nat} {so so' : Sorter} {s' : Sess}
    (hdag : createDag P cfg = .ok (g, marks)) (hids : (P.tasks.map (·.id)).Nodup)
    (hloop : buildLoop F P g cfg so { w := w, skipMarks := marks } picks = .ok (so', s')) : s'.crashed = false :=
  (run_of_buildLoop _ _ _ _ _ hloop).no_crash hdag hids rfl

/-- **C08_vanished_neighbour_crashes** (what F29 was). `C08_no_crash` rests on the model's premise that a
body only *writes* its products (`Engine.runBody` never removes a file). If nevertheless some neighbour
has no state when `process_report` handles a successful protocol, `update_states_in_database` raises:
**no report is appended**, the crash flag is set, the build loop accepts no further task and `build`
ends with exit code 1. Before repair ed849b4 a body deleting its own dependency reached exactly this
situation in the real code; since the repair `pytask_execute_task_teardown` fails such a task
(`NodeNotFoundError`), so it is reported FAIL — the harness replays it as "writes everything, then
raises" with the file removed from the world afterwards. -/
theorem C08_vanished_neighbour_crashes (s : Sess) (t : TaskSpec) (hdry : cfg.dry = false)
    (hv : ∃ v ∈ neighbours g t.id, stateOf P s.w v = none) :
    (processReport P g cfg s t .none).reports = s.reports ∧ (processReport P g cfg s t .none).crashed = true ∧
    ∀ so x xs, buildLoop F P g cfg so (processReport P g cfg s t .none) (x :: xs) = .error .leftover := by
  have hrec : (recordStates P g cfg s.w t.id).2 = false := by
    unfold recordStates
    rw [if_neg (by simp [hdry])]
    exact updateStates_fail t.id _ _ hv
  have h1 : (processReport P g cfg s t .none).reports = s.reports := by simp [processReport, hrec]
  have h2 : (processReport P g cfg s t .none).crashed = true := by simp [processReport, hrec]
  refine ⟨h1, h2, ?_⟩
  intro so x xs
  unfold buildLoop
  simp [h2]

/-- **C08_exactly_one.** Unless the build stopped early (failure limit reached), once the scheduler is
exhausted every collected task has exactly one report. -/
theorem C08_exactly_one {w : World} {picks : List Nat} {so so' : Sorter} {s' : Sess}
    (hdag : createDag P cfg = .ok (g, marks)) (hids : (P.tasks.map (·.id)).Nodup)
    (hso : fromDag g isTaskV (prioFn P) = .ok so)
    (hloop : buildLoop F P g cfg so { w := w, skipMarks := marks } picks = .ok (so', s'))
    (hstop : s'.stop = false) (hdone : so'.isActive = false) :
    ∀ t ∈ P.tasks, (s'.reports.map Prod.fst).count t.id = 1 :=
  (C08_one_report hdag hso hloop).2 hstop (C08_no_crash hdag hids hloop) hdone

/-- **C08_exit_zero_iff.** Without phase faults: exit code 0 iff no task is reported FAIL. -/
theorem C08_exit_zero_iff {w : World} {picks : List Nat} {r0 : Result}
    (hdag : createDag P cfg = .ok (g, marks)) (hids : (P.tasks.map (·.id)).Nodup)
    (hb : build F P cfg w picks = .ok r0) : r0.exit = 0 ↔ ∀ t, (t, Outcome.fail) ∉ r0.reports := by
  constructor
  · intro h0 t ht
    have := C04_exit' hdag hb ht
    omega
  · intro hno
    obtain ⟨so, hso⟩ := fromDag_ok_of_createDag hdag (prioFn P)
    rcases build_run hdag hb with ⟨so1, so', s', hso1, hrun, hr, _, _, _, he⟩ | ⟨_, _, _, he⟩
    · have hcr := hrun.no_crash hdag hids rfl
      have hany : s'.reports.any (fun r => r.2 == Outcome.fail) = false := by
        rw [← hr]
        apply Bool.eq_false_iff.2
        intro h
        obtain ⟨⟨t, o⟩, hm, ho⟩ := List.any_eq_true.1 h
        have : o = Outcome.fail := by simpa using ho
        subst this
        exact hno t hm
      rw [he, hcr, hany]
      decide
    · -- the sorter always accepts the graph `create_dag` returned
      exfalso
      unfold build at hb
      rw [hdag] at hb
      simp only [hso] at hb
      -- `he` says the exit code is the one of the sorter-error branch; that branch was not taken
      cases hl : buildLoop F P g cfg so { w := w, skipMarks := marks } picks with
      | error e => rw [hl] at hb; cases hb
      | ok pr =>
        rw [hl] at hb
        simp only [Except.ok.injEq] at hb
        subst hb
        have hcr := (run_of_buildLoop _ _ _ _ _ hl).no_crash hdag hids rfl
        have hr : pr.2.reports = [] := by assumption
        simp [hcr, hr] at he
        revert he; decide

/-! ## `build()`: the try/except ladder -/

/-- User-code faults: ordinary exceptions (`Exception` subclasses) in any phase; while a task module is
imported also `SystemExit` (a module calling `sys.exit()`). -/
def UserFaults (fl : Faults) : Prop :=
  (∀ e, fl.configure = some e → ∃ c, e = .exn c) ∧ (∀ ph e, fl.phase ph = some e → ∃ c, e = .exn c) ∧
  fl.unconfigure = none ∧
  (∀ e, fl.importRaises = some e → (∃ c, e = .exn c) ∨ e = .base "SystemExit")

/-- **C08_returns_full.** Whatever ordinary exception a phase raises (configuration, header,
collection, graph, execution — alone or in combination), whatever the tasks do, and also when a task
module calls `sys.exit()` while it is imported (since the F28 repair `Generated.collectFileCatches`
contains `SystemExit`): `build()` returns a session, no exception escapes. -/
theorem C08_returns_full {w : World} {picks : List Nat} {fl : Faults} {r : TopResult}
    (hf : UserFaults fl) (hb : buildTop F P cfg w picks fl = .ok r) : r.raised = false := by
  unfold buildTop at hb
  obtain ⟨hc, hp, hu, hi⟩ := hf
  split at hb
  · rename_i e he
    obtain ⟨c, rfl⟩ := hc e he
    have : handles Generated.configHandler (.exn c) = true := handles_exception _ c (by decide)
    simp only [this, if_true, Except.ok.injEq] at hb
    subst hb; rfl
  · simp only [] at hb
    split at hb
    · cases hb
    · have hexn : ∀ e, (Generated.buildPhases.foldl (runPhase F P cfg picks fl) { w := w }).exc = some e → ∃ c, e = .exn c := by
        -- every exception stored by a phase is an `exn`
        have step : ∀ (st : PhaseSt) (name : String), (∀ e, st.exc = some e → ∃ c, e = .exn c) →
            ∀ e, (runPhase F P cfg picks fl st name).exc = some e → ∃ c, e = .exn c := by
          intro st name hst e he
          unfold runPhase at he
          split at he
          · exact hst e he
          · split at he
            · split at he
              · rename_i e' hph
                obtain ⟨c, rfl⟩ := hp _ _ hph
                simp only [dagExc] at he
                split at he <;> simp at he <;> exact ⟨_, he.symm⟩
              · split at he
                · simp only [dagExc] at he
                  split at he <;> simp at he <;> exact ⟨_, he.symm⟩
                · exact hst e he
            · split at he
              · rename_i e' hph
                obtain ⟨c, rfl⟩ := hp _ _ hph
                simp at he; exact ⟨c, he.symm⟩
              · split at he
                · split at he
                  · rename_i e' him
                    rw [importExc_user (hi e' him)] at he
                    simp at he; exact ⟨_, he.symm⟩
                  · exact hst e he
                · split at he
                  · split at he
                    · simp at he; exact ⟨_, he.symm⟩
                    · split at he
                      · simp at he; exact ⟨_, he.symm⟩
                      · split at he
                        · exact hst e he
                        · simp only [] at he
                          split at he
                          · simp at he; exact ⟨_, he.symm⟩
                          · split at he
                            · simp at he; exact ⟨_, he.symm⟩
                            · cases he
                  · exact hst e he
        have fold : ∀ (l : List String) (st : PhaseSt), (∀ e, st.exc = some e → ∃ c, e = .exn c) →
            ∀ e, (l.foldl (runPhase F P cfg picks fl) st).exc = some e → ∃ c, e = .exn c := by
          intro l
          induction l with
          | nil => intro st h; exact h
          | cons a l ih => intro st h; exact ih _ (step st a h)
        exact fold _ _ (by intro e he; cases he)
      generalize Generated.buildPhases.foldl (runPhase F P cfg picks fl) { w := w } = st at hb hexn
      cases hx : st.exc with
      | none =>
        simp only [hx, hu] at hb
        split at hb <;> (simp only [Except.ok.injEq] at hb; subst hb; rfl)
      | some e =>
        obtain ⟨c, rfl⟩ := hexn e hx
        obtain ⟨code, hcode, _⟩ := ladderFind_exn c
        simp only [hx, hcode, hu] at hb
        split at hb <;> (simp only [Except.ok.injEq] at hb; subst hb; rfl)

/-- No fault injected anywhere. -/
def NoFaults (fl : Faults) : Prop :=
  fl.configure = none ∧ (∀ ph, fl.phase ph = none) ∧ fl.unconfigure = none ∧ fl.importRaises = none

/-- **C08_top_is_build.** Without phase faults `build()` is the engine's `build`: same exit code,
reports, body log and world; it returns, and `pytask_unconfigure` is called. All engine-level
theorems (C01, C04, C08_one_report … C08_fail_iff) therefore speak about what `build()` returns. -/
theorem C08_top_is_build {w : World} {picks : List Nat} {fl : Faults} {r0 : Result}
    (hf : NoFaults fl) (hdag : createDag P cfg = .ok (g, marks)) (hb : build F P cfg w picks = .ok r0) :
    ∃ r, buildTop F P cfg w picks fl = .ok r ∧ r.raised = false ∧ r.configured = true ∧ r.unconfigured = true ∧
      r.exit = r0.exit ∧ r.reports = r0.reports ∧ r.log = r0.log ∧ r.w = r0.w := by
  obtain ⟨hc, hp, hu, himp⟩ := hf
  obtain ⟨so, hso⟩ := fromDag_ok_of_createDag hdag (prioFn P)
  unfold build at hb
  rw [hdag] at hb
  simp only [hso] at hb
  unfold buildTop
  simp only [hc, himp, Generated.buildPhases, List.foldl, runPhase, hp, Option.isSome_none, Bool.or_self, Bool.false_eq_true,
    reduceIte, String.reduceBEq, hdag, hso]
  cases hl : buildLoop F P g cfg so { w := w, skipMarks := marks } picks with
  | error e => rw [hl] at hb; cases hb
  | ok pr =>
    obtain ⟨so', s⟩ := pr
    rw [hl] at hb
    simp only [Except.ok.injEq] at hb
    subst hb
    have h1 : ladderCode "Exception" = 1 := by decide
    have h2 : ladderCode "ExecutionError" = 1 := by decide
    have h3 : exitCode "OK" = 0 := by decide
    by_cases hcr : s.crashed = true
    · have : ladderFind Generated.buildLadder (.exn "Exception") = some "FAILED" := by decide
      simp [hcr, hu, this, Generated.unconfigureAfterLadder, h1]
      decide
    · by_cases hfl : (s.reports.any fun r => r.2 == Outcome.fail) = true
      · have : ladderFind Generated.buildLadder (.exn "ExecutionError") = some "FAILED" := by decide
        simp [hcr, hfl, hu, this, Generated.unconfigureAfterLadder, h2]
        decide
      · simp [hcr, hfl, hu, Generated.unconfigureAfterLadder, h3]

/-- **C08_exit** (execution phase). Without phase faults the exit code is 0 or 1; it is 1 whenever
some task is reported FAIL, and 0 only if none is (0 iff nothing failed, the code of the execution
phase otherwise). -/
theorem C08_exit_execute {w : World} {picks : List Nat} {r0 : Result}
    (hdag : createDag P cfg = .ok (g, marks)) (hb : build F P cfg w picks = .ok r0) :
    r0.exit ≤ 1 ∧ ((∃ t, (t, Outcome.fail) ∈ r0.reports) → r0.exit = 1) ∧
    (r0.exit = 0 → ∀ t, (t, Outcome.fail) ∉ r0.reports) := by
  have h1 : ladderCode "Exception" = 1 := by decide
  have h2 : ladderCode "ExecutionError" = 1 := by decide
  have h3 : exitCode "OK" = 0 := by decide
  have hex : (∃ t, (t, Outcome.fail) ∈ r0.reports) → r0.exit = 1 := fun ⟨t, ht⟩ => C04_exit' hdag hb ht
  refine ⟨?_, hex, ?_⟩
  · rcases build_run hdag hb with ⟨so, so', s', hso, hrun, hr, _, _, _, he⟩ | ⟨_, _, _, he⟩
    · rw [he]; split <;> (try split) <;> omega
    · rw [he, h1]; omega
  · intro h0 t ht
    have := hex ⟨t, ht⟩
    omega

/-- **C08_exit** (configuration phase). Any ordinary exception while the configuration is parsed gives
exit code 2 (`CONFIGURATION_FAILED`); nothing is collected or executed, the world is untouched. -/
theorem C08_exit_config {w : World} {picks : List Nat} {fl : Faults} {r : TopResult} {c : String}
    (hc : fl.configure = some (.exn c)) (hb : buildTop F P cfg w picks fl = .ok r) :
    r.raised = false ∧ r.exit = 2 ∧ r.reports = [] ∧ r.log = [] ∧ r.w = w := by
  unfold buildTop at hb
  have : handles Generated.configHandler (.exn c) = true := handles_exception _ c (by decide)
  simp only [hc, this, if_true, Except.ok.injEq] at hb
  subst hb
  exact ⟨rfl, (by decide : exitCode Generated.configFailCode = 2), rfl, rfl, rfl⟩

/-- **C08_exit** (collection phase). A module that cannot be imported (syntax error, import error, any
exception at import) yields a failed collection report, `pytask_collect_log` raises `CollectionError`:
exit code 3 (`COLLECTION_FAILED`); no task is executed. -/
theorem C08_exit_collect {w : World} {picks : List Nat} {fl : Faults} {r : TopResult}
    (hc : fl.configure = none) (hh : fl.phase "header" = none)
    (hcol : fl.phase "collect" = some (.exn Generated.collectLogRaises)) (hu : fl.unconfigure = none)
    (hb : buildTop F P cfg w picks fl = .ok r) :
    r.raised = false ∧ r.exit = 3 ∧ r.unconfigured = true ∧ r.reports = [] ∧ r.log = [] ∧ r.w = w := by
  unfold buildTop at hb
  have hl : ladderFind Generated.buildLadder (.exn "CollectionError") = some "COLLECTION_FAILED" := by decide
  simp only [hc, Generated.buildPhases, List.foldl, runPhase, hh, hcol, Generated.collectLogRaises, Option.isSome_none,
    Option.isSome_some, Bool.or_self, Bool.false_eq_true, Bool.true_or, reduceIte, String.reduceBEq, hl, hu,
    Generated.unconfigureAfterLadder, Bool.not_true, Bool.or_false, Except.ok.injEq] at hb
  subst hb
  exact ⟨rfl, (by decide : exitCode "COLLECTION_FAILED" = 3), rfl, rfl, rfl, rfl⟩

/-- **C08_exit** (graph phase). An exception inside `create_dag` (unparsable `-k` / `-m` / `after`
expression — any class, `create_dag` re-raises it as `ResolvingDependenciesError`), a cycle or a
product declared by two tasks give exit code 4 (`DAG_FAILED`); no task is executed. -/
theorem C08_exit_dag {w : World} {picks : List Nat} {fl : Faults} {r : TopResult}
    (hc : fl.configure = none) (hh : fl.phase "header" = none) (hcol : fl.phase "collect" = none)
    (himp : fl.importRaises = none)
    (hd : (∃ c, fl.phase "dag" = some (.exn c)) ∨ (fl.phase "dag" = none ∧ ∃ e, createDag P cfg = .error e))
    (hu : fl.unconfigure = none) (hb : buildTop F P cfg w picks fl = .ok r) :
    r.raised = false ∧ r.exit = 4 ∧ r.unconfigured = true ∧ r.reports = [] ∧ r.log = [] ∧ r.w = w := by
  unfold buildTop at hb
  have hl : ladderFind Generated.buildLadder (.exn "ResolvingDependenciesError") = some "DAG_FAILED" := by decide
  rcases hd with ⟨c, hd⟩ | ⟨hd, e, he⟩
  · simp only [hc, himp, Generated.buildPhases, List.foldl, runPhase, hh, hcol, hd, dagExc, Generated.dagWrapsException,
      Option.isSome_none, Option.isSome_some, Bool.or_self, Bool.false_eq_true, Bool.true_or, reduceIte, String.reduceBEq,
      hl, hu, Generated.unconfigureAfterLadder, Bool.not_true, Bool.or_false, Except.ok.injEq] at hb
    subst hb
    exact ⟨rfl, (by decide : exitCode "DAG_FAILED" = 4), rfl, rfl, rfl, rfl⟩
  · simp only [hc, himp, Generated.buildPhases, List.foldl, runPhase, hh, hcol, hd, he, dagExc, Generated.dagWrapsException,
      Option.isSome_none, Option.isSome_some, Bool.or_self, Bool.false_eq_true, Bool.true_or, reduceIte, String.reduceBEq,
      hl, hu, Generated.unconfigureAfterLadder, Bool.not_true, Bool.or_false, Except.ok.injEq] at hb
    subst hb
    exact ⟨rfl, (by decide : exitCode "DAG_FAILED" = 4), rfl, rfl, rfl, rfl⟩

/-- **C08_exit** (collection phase, import-time fault). A task module whose import raises an ordinary
exception or `SystemExit` is a failed collection report: exit code 3, nothing is executed. -/
theorem C08_exit_import {w : World} {picks : List Nat} {fl : Faults} {r : TopResult} {e : Exc}
    (hc : fl.configure = none) (hh : fl.phase "header" = none) (hcol : fl.phase "collect" = none)
    (hi : fl.importRaises = some e) (he : (∃ c, e = .exn c) ∨ e = .base "SystemExit") (hu : fl.unconfigure = none)
    (hb : buildTop F P cfg w picks fl = .ok r) :
    r.raised = false ∧ r.exit = 3 ∧ r.unconfigured = true ∧ r.reports = [] ∧ r.log = [] ∧ r.w = w := by
  unfold buildTop at hb
  have hl : ladderFind Generated.buildLadder (.exn "CollectionError") = some "COLLECTION_FAILED" := by decide
  simp only [hc, Generated.buildPhases, List.foldl, runPhase, hh, hcol, hi, importExc_user he, Generated.collectLogRaises,
    Option.isSome_none, Option.isSome_some, Bool.or_self, Bool.false_eq_true, reduceIte, String.reduceBEq, hl, hu,
    Generated.unconfigureAfterLadder, Bool.not_true, Bool.or_false, Except.ok.injEq] at hb
  subst hb
  exact ⟨rfl, (by decide : exitCode "COLLECTION_FAILED" = 3), rfl, rfl, rfl, rfl⟩

/-- The exit-code table: the code of the first phase that fails (configuration; then header, collection —
a fault of the hook or a module that cannot be imported —, graph, execution hook, in the order of
`Generated.buildPhases`), else 1 iff some task is reported FAIL, else 0. -/
def tableExit (fl : Faults) (dagOk anyFail : Bool) : Nat :=
  match fl.configure with
  | some _ => exitCode Generated.configFailCode
  | none =>
  match fl.phase "header" with
  | some e => classCode e
  | none =>
  match fl.phase "collect" with
  | some e => classCode e
  | none =>
  match fl.importRaises with
  | some e => classCode (importExc e)
  | none =>
  if (fl.phase "dag").isSome || !dagOk then exitCode "DAG_FAILED"
  else match fl.phase "execute" with
    | some e => classCode e
    | none => if anyFail then exitCode "FAILED" else exitCode "OK"

/-- **C08_exit_table.** For every combination of user-code faults (ordinary exceptions in any phase,
`SystemExit` at import), every project with distinct task ids, options, world and accepted schedule:
`build()` returns and its exit code is the one of `tableExit` — 2 for a configuration error, otherwise
the code of the first failing phase (3 collection, 4 graph, by exception class for hook faults),
otherwise 1 iff some task is reported FAIL and 0 iff none is. Subsumes `C08_exit_config`,
`C08_exit_collect`, `C08_exit_import`, `C08_exit_dag`, `C08_exit_execute`, `C08_exit_zero_iff`. -/
theorem C08_exit_table {w : World} {picks : List Nat} {fl : Faults} {r : TopResult}
    (hf : UserFaults fl) (hids : (P.tasks.map (·.id)).Nodup) (hb : buildTop F P cfg w picks fl = .ok r) :
    r.raised = false ∧
    r.exit = tableExit fl (match createDag P cfg with | .ok _ => true | .error _ => false)
                          (r.reports.any (fun x => x.2 == Outcome.fail)) := by
  refine ⟨C08_returns_full hf hb, ?_⟩
  obtain ⟨hc, hp, hu, hi⟩ := hf
  unfold buildTop at hb
  unfold tableExit
  cases hcf : fl.configure with
  | some e =>
    obtain ⟨c, rfl⟩ := hc e hcf
    have : handles Generated.configHandler (.exn c) = true := handles_exception _ c (by decide)
    simp only [hcf, this, if_true, Except.ok.injEq] at hb
    subst hb; rfl
  | none =>
  cases hh : fl.phase "header" with
  | some e =>
    obtain ⟨c, rfl⟩ := hp _ e hh
    obtain ⟨code, hcode, hcc⟩ := classCode_exn c
    simp only [hcf, Generated.buildPhases, List.foldl, runPhase, hh, Option.isSome_none, Option.isSome_some, Bool.or_self,
      Bool.false_eq_true, Bool.true_or, reduceIte, String.reduceBEq, hcode, hu, Generated.unconfigureAfterLadder,
      Bool.not_true, Bool.or_false, Except.ok.injEq] at hb
    subst hb; simp only [hcc]
  | none =>
  cases hcol : fl.phase "collect" with
  | some e =>
    obtain ⟨c, rfl⟩ := hp _ e hcol
    obtain ⟨code, hcode, hcc⟩ := classCode_exn c
    simp only [hcf, Generated.buildPhases, List.foldl, runPhase, hh, hcol, Option.isSome_none, Option.isSome_some, Bool.or_self,
      Bool.false_eq_true, Bool.true_or, reduceIte, String.reduceBEq, hcode, hu, Generated.unconfigureAfterLadder,
      Bool.not_true, Bool.or_false, Except.ok.injEq] at hb
    subst hb; simp only [hcc]
  | none =>
  cases him : fl.importRaises with
  | some e =>
    have hie := importExc_user (hi e him)
    obtain ⟨code, hcode, hcc⟩ := classCode_exn Generated.collectLogRaises
    simp only [hcf, Generated.buildPhases, List.foldl, runPhase, hh, hcol, him, hie, Option.isSome_none, Option.isSome_some,
      Bool.or_self, Bool.false_eq_true, Bool.true_or, reduceIte, String.reduceBEq, hcode, hu,
      Generated.unconfigureAfterLadder, Bool.not_true, Bool.or_false, Except.ok.injEq] at hb
    subst hb; simp only [hie, hcc]
  | none =>
  have hl4 : ladderFind Generated.buildLadder (.exn "ResolvingDependenciesError") = some "DAG_FAILED" := by decide
  cases hd : fl.phase "dag" with
  | some e =>
    obtain ⟨c, rfl⟩ := hp _ e hd
    simp only [hcf, him, Generated.buildPhases, List.foldl, runPhase, hh, hcol, hd, dagExc, Generated.dagWrapsException,
      Option.isSome_none, Option.isSome_some, Bool.or_self, Bool.false_eq_true, Bool.true_or, reduceIte, String.reduceBEq,
      hl4, hu, Generated.unconfigureAfterLadder, Bool.not_true, Bool.or_false, Except.ok.injEq] at hb
    subst hb; simp
  | none =>
  cases hcd : createDag P cfg with
  | error e =>
    simp only [hcf, him, Generated.buildPhases, List.foldl, runPhase, hh, hcol, hd, hcd, dagExc, Generated.dagWrapsException,
      Option.isSome_none, Option.isSome_some, Bool.or_self, Bool.false_eq_true, Bool.true_or, reduceIte, String.reduceBEq,
      hl4, hu, Generated.unconfigureAfterLadder, Bool.not_true, Bool.or_false, Except.ok.injEq] at hb
    subst hb; simp
  | ok d =>
  obtain ⟨g, marks⟩ := d
  cases hex : fl.phase "execute" with
  | some e =>
    obtain ⟨c, rfl⟩ := hp _ e hex
    obtain ⟨code, hcode, hcc⟩ := classCode_exn c
    simp only [hcf, him, Generated.buildPhases, List.foldl, runPhase, hh, hcol, hd, hcd, hex,
      Option.isSome_none, Option.isSome_some, Bool.or_self, Bool.false_eq_true, Bool.true_or, reduceIte, String.reduceBEq,
      hcode, hu, Generated.unconfigureAfterLadder, Bool.not_true, Bool.or_false, Except.ok.injEq] at hb
    subst hb; simp [hcc]
  | none =>
  obtain ⟨so, hso⟩ := fromDag_ok_of_createDag hcd (prioFn P)
  cases hl : buildLoop F P g cfg so { w := w, skipMarks := marks } picks with
  | error e =>
    simp only [hcf, him, Generated.buildPhases, List.foldl, runPhase, hh, hcol, hd, hcd, hex, hso, hl,
      Option.isSome_none, Option.isSome_some, Bool.or_self, Bool.false_eq_true, Bool.true_or, reduceIte, String.reduceBEq] at hb
    cases hb
  | ok pr =>
    obtain ⟨so', s⟩ := pr
    have hcr : s.crashed = false := (run_of_buildLoop _ _ _ _ _ hl).no_crash hcd hids rfl
    have hlf : ladderFind Generated.buildLadder (.exn "ExecutionError") = some "FAILED" := by decide
    by_cases hfl : (s.reports.any fun r => r.2 == Outcome.fail) = true
    · simp only [hcf, him, Generated.buildPhases, List.foldl, runPhase, hh, hcol, hd, hcd, hex, hso, hl, hcr, hfl, hlf,
        Option.isSome_none, Option.isSome_some, Bool.or_self, Bool.false_eq_true, Bool.true_or, reduceIte, String.reduceBEq,
        hu, Generated.unconfigureAfterLadder, Bool.not_true, Bool.or_false, Except.ok.injEq] at hb
      subst hb; simp [hfl]
    · simp only [hcf, him, Generated.buildPhases, List.foldl, runPhase, hh, hcol, hd, hcd, hex, hso, hl, hcr, hfl,
        Option.isSome_none, Option.isSome_some, Bool.or_self, Bool.false_eq_true, Bool.true_or, reduceIte, String.reduceBEq,
        hu, Generated.unconfigureAfterLadder, Bool.not_true, Bool.or_false, Except.ok.injEq] at hb
      subst hb; simp [hfl]

/-- **C08_escapes_scope.** Exactly which import-time exceptions still escape from `build()`: the
`BaseException` subclasses that `pytask_collect_file_protocol` does not name — `KeyboardInterrupt` (by
design: the user interrupts the run), `GeneratorExit`, a bare `BaseException`. They are not errors of
user code in the sense of the property. (In a task *body* the protocol catches
`Generated.protocolCatches` = KeyboardInterrupt, Exception, SystemExit; a body raising `GeneratorExit` or a
bare `BaseException` is outside the engine model.) -/
theorem C08_escapes_scope {w : World} {picks : List Nat} {fl : Faults} {r : TopResult} {c : String}
    (hc : fl.configure = none) (hh : fl.phase "header" = none) (hcol : fl.phase "collect" = none)
    (hi : fl.importRaises = some (.base c)) (hcl : c ∈ ["KeyboardInterrupt", "GeneratorExit", "BaseException"])
    (hb : buildTop F P cfg w picks fl = .ok r) : r.raised = true := by
  unfold buildTop at hb
  have key : ∀ c ∈ ["KeyboardInterrupt", "GeneratorExit", "BaseException"],
      importExc (.base c) = .base c ∧ ladderFind Generated.buildLadder (.base c) = none := by decide
  obtain ⟨h1, h2⟩ := key c hcl
  simp only [hc, Generated.buildPhases, List.foldl, runPhase, hh, hcol, hi, h1, h2,
    Option.isSome_none, Option.isSome_some, Bool.or_self, Bool.false_eq_true, Bool.true_or, reduceIte, String.reduceBEq,
    Except.ok.injEq] at hb
  subst hb
  rfl

/-! ## Non-vacuity -/

def c08P : Project := ⟨[
  { id := 0, src := 90, deps := [10], prods := [20], after := [], beh := .saveFails },
  { id := 1, src := 90, deps := [20], prods := [21], after := [] },
  { id := 2, src := 90, deps := [10], prods := [22], after := [] },
  { id := 3, src := 90, deps := [11], prods := [23], after := [] }]⟩
def c08W : World := ⟨[(10, 5), (90, 7)], []⟩
def c08F : BodyFn := fun t i _ _ => t * 10 + i

/-- One build exhibiting every clause: task 0 FAIL (its product node's `save` raises after the function
ran), its dependant 1 skipped, task 2 SUCCESS (logged once, product exists), task 3 FAIL because its
dependency 11 is missing (never logged); exit code 1; one report per task. -/
example : ∃ r g marks, createDag c08P {} = .ok (g, marks) ∧ build c08F c08P {} c08W [0, 2, 3, 1] = .ok r ∧
    r.reports = [(0, .fail), (2, .success), (3, .fail), (1, .skipPrevFailed)] ∧ r.log = [0, 2] ∧
    lookup r.w.fs 22 = some 20 ∧ lookup r.w.fs 20 = none ∧ r.exit = 1 ∧ r.complete = true := by
  refine ⟨_, _, _, rfl, rfl, ?_⟩
  decide

/-- Phase faults: a collection error (exit 3), an unparsable expression in the graph phase (exit 4), a
configuration error (exit 2, no unconfigure), and two faults at once (the earlier phase wins). -/
example :
    ((buildTop c08F c08P {} c08W [] { phase := fun n => if n == "collect" then some (.exn "CollectionError") else none }).toOption.map
        (fun r => (r.raised, r.exit, r.unconfigured))) = some (false, 3, true) ∧
    ((buildTop c08F c08P {} c08W [] { phase := fun n => if n == "dag" then some (.exn "ValueError") else none }).toOption.map
        (fun r => (r.raised, r.exit, r.unconfigured))) = some (false, 4, true) ∧
    ((buildTop c08F c08P {} c08W [] { configure := some (.exn "ValueError") }).toOption.map
        (fun r => (r.raised, r.exit, r.unconfigured))) = some (false, 2, false) ∧
    ((buildTop c08F c08P {} c08W [] { phase := fun n => if n == "collect" then some (.exn "CollectionError")
                                                        else if n == "dag" then some (.exn "ValueError") else none }).toOption.map
        (fun r => (r.raised, r.exit, r.unconfigured))) = some (false, 3, true) := by
  decide

/-- Import-time faults: `sys.exit()` in a task module is a collection failure (exit 3, build returns);
`KeyboardInterrupt` escapes. -/
example :
    ((buildTop c08F c08P {} c08W [] { importRaises := some (.base "SystemExit") }).toOption.map
        (fun r => (r.raised, r.exit, r.unconfigured))) = some (false, 3, true) ∧
    ((buildTop c08F c08P {} c08W [] { importRaises := some (.base "KeyboardInterrupt") }).toOption.map
        (fun r => r.raised)) = some true := by
  decide

/-- The table on concrete fault combinations: the earliest failing phase decides. -/
example :
    tableExit { configure := some (.exn "ValueError"), importRaises := some (.base "SystemExit") } true true = 2 ∧
    tableExit { importRaises := some (.base "SystemExit"), phase := fun n => if n == "dag" then some (.exn "KeyError") else none } true false = 3 ∧
    tableExit { phase := fun n => if n == "dag" then some (.exn "KeyError") else none } true true = 4 ∧
    tableExit {} false false = 4 ∧ tableExit {} true true = 1 ∧ tableExit {} true false = 0 := by
  decide

end Pytask
