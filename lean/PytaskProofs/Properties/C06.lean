import PytaskProofs.Lemmas.EngineSkip
import PytaskProofs.Lemmas.EngineAll
import PytaskProofs.Lemmas.EngineComplete
/-!
# C06 — skip markers and -k / -m selections decide exactly which tasks may run

All statements are about `Engine.build` (M6): `create_dag_from_session` along `Generated.dagPipeline`,
the scheduler, and `pytask_execute_build` with the hook implementations in the pluggy order of
`Generated.setupOrder`. They hold for **every** project, body function, configuration (`force`, `dry`,
`max_failures`, `-k`, `-m`), world (files and database: changed / unchanged / missing states) and
every schedule `picks` that the build loop accepts.

`-k` / `-m` enter as the sets of tasks whose own names / own markers match the expression
(`cfg.selK`, `cfg.selM`); the expression language is property C16.
-/
namespace Pytask
open Engine

/-- **C06_skip.** A task `a` carrying `skip` or a true `skipif`, and every task `t` that depends on
it transitively (through products or `after`), is never executed; if it is reported at all it is
reported SKIP (so never FAIL), and it is reported as soon as the scheduler hands it out. -/
theorem C06_skip (F : BodyFn) (P : Project) (cfg : Cfg) (w : World) (picks : List Nat) (r : Result)
    (g : G) (marks : List Nat)
    (hd : createDag P cfg = .ok (g, marks)) (hb : build F P cfg w picks = .ok r)
    (a : Nat) (ha : UserSkipped P a) (t : Nat) (ht : t = a ∨ t ∈ taskDesc g a) :
    t ∉ r.log ∧ (∀ o, (t, o) ∈ r.reports → o = Outcome.skip) ∧ (t ∈ picks → (t, Outcome.skip) ∈ r.reports) := by
  obtain ⟨_, _, s', _, _, hs, hnd, hord, hr, hl, _⟩ := build_run hd hb
  obtain ⟨h1, h2⟩ := hs.skipped_result hnd hord (t := t) (.inr ⟨a, ha, ht⟩)
  rw [hr, hl]
  refine ⟨fun h => by simpa using h1.1 h, fun o ho => ?_, fun hp => (h2 _).2 (.inr ⟨hp, rfl⟩)⟩
  rcases (h2 o).1 ho with h | ⟨_, h⟩
  · cases h
  · exact h

/-- **C06_select.** With `-k` and/or `-m`, a task that is not eligible — not in the closure
(matching tasks plus all their transitive dependencies in the graph that includes the `after`
edges) of every given selection — is never executed, and its only possible report is SKIP.
Full strength: holds also when both options are given (F10 is fixed: both selections are computed
before any deselection mark is attached). -/
theorem C06_select (F : BodyFn) (P : Project) (cfg : Cfg) (w : World) (picks : List Nat) (r : Result)
    (g : G) (marks : List Nat)
    (hd : createDag P cfg = .ok (g, marks)) (hb : build F P cfg w picks = .ok r)
    (t : Nat) (ht : t ∈ P.tasks.map (·.id)) (hne : ¬ Eligible g cfg t) :
    t ∉ r.log ∧ (∀ o, (t, o) ∈ r.reports → o = Outcome.skip) ∧ (t ∈ picks → (t, Outcome.skip) ∈ r.reports) := by
  obtain ⟨_, _, s', _, _, hs, hnd, hord, hr, hl, _⟩ := build_run hd hb
  have hm : t ∈ marks := by rw [(createDag_ok hd).2.1]; exact mem_deselected.2 ⟨ht, hne⟩
  obtain ⟨h1, h2⟩ := hs.skipped_result hnd hord (t := t) (.inl hm)
  rw [hr, hl]
  refine ⟨fun h => by simpa using h1.1 h, fun o ho => ?_, fun hp => (h2 _).2 (.inr ⟨hp, rfl⟩)⟩
  rcases (h2 o).1 ho with h | ⟨_, h⟩
  · cases h
  · exact h

/-- **C06_eligible_closed.** Eligibility is closed under transitive dependencies: whatever an
eligible task needs (through products or `after` edges) is eligible too. -/
theorem C06_eligible_closed (g : G) (cfg : Cfg) (t a : Nat) (h : Eligible g cfg t) (ha : a ∈ taskAnc g t) :
    Eligible g cfg a := h.anc ha

/-- **C06_dependants_are_dependencies.** The relation along which skips propagate (`taskDesc`, what
`descending_tasks` returns) is the converse of the relation along which selections are closed and
the scheduler orders (`taskAnc`, what `preceding_tasks` returns). -/
theorem C06_desc_anc (g : G) (s t : Nat) : t ∈ taskDesc g s ↔ s ∈ taskAnc g t :=
  mem_taskDesc_iff_mem_taskAnc

/-- **C06_only** ("decide *exactly*"). Conversely, a task is reported SKIP only if it is blocked:
not eligible under the selection, or user-skipped, or a transitive dependant of a user-skipped task.
In particular SKIP_UNCHANGED, PERSISTENCE, WOULD_BE_EXECUTED and FAIL outcomes of other tasks never
make a task SKIP. -/
theorem C06_only (F : BodyFn) (P : Project) (cfg : Cfg) (w : World) (picks : List Nat) (r : Result)
    (g : G) (marks : List Nat)
    (hd : createDag P cfg = .ok (g, marks)) (hb : build F P cfg w picks = .ok r)
    (t : Nat) (ht : (t, Outcome.skip) ∈ r.reports) :
    ¬ Eligible g cfg t ∨ ∃ a, UserSkipped P a ∧ (t = a ∨ t ∈ taskDesc g a) := by
  obtain ⟨_, _, s', _, _, hs, _, _, hr, _⟩ := build_run hd hb
  have h0 : ∀ x ∈ ({ w := w, skipMarks := marks } : Sess).skipMarks, Blocked P g cfg x := by
    intro x hx
    have : x ∈ deselected P g cfg := by rw [← (createDag_ok hd).2.1]; exact hx
    exact .inl (mem_deselected.1 this).2
  rcases (hs.blocked_inv h0).2 t (hr ▸ ht) with h | h
  · cases h
  · exact h

/-- **C06_unchanged_no_propagate** (one protocol). Skip marks are attached to descendants only by a
task that is itself reported SKIP. A task reported anything else — SKIP_UNCHANGED in particular —
leaves the marks of every other task alone. -/
theorem C06_unchanged_no_propagate (F : BodyFn) (P : Project) (g : G) (cfg : Cfg) (s : Sess) (t : TaskSpec) :
    ((protocol F P g cfg s t).skipMarks = s.skipMarks ++ taskDesc g t.id ∧
      (protocol F P g cfg s t).reports = s.reports ++ [(t.id, Outcome.skip)]) ∨
    ((protocol F P g cfg s t).skipMarks = s.skipMarks ∧
      ∀ o, (protocol F P g cfg s t).reports = s.reports ++ [(t.id, o)] → o ≠ Outcome.skip) := by
  by_cases h : SkipCond s t
  · left; rw [protocol_skipped h]; exact ⟨rfl, rfl⟩
  · right
    obtain ⟨hm, hr⟩ := protocol_not_skipped (F := F) (P := P) (g := g) (cfg := cfg) h
    refine ⟨hm, fun o ho => ?_⟩
    rcases hr with hr | ⟨o', ho', hr⟩
    · rw [hr] at ho
      have := congrArg List.length ho
      simp at this
    · rw [hr] at ho
      have := List.append_cancel_left ho
      simp only [List.cons.injEq, Prod.mk.injEq, true_and, and_true] at this
      exact this ▸ ho'

/-- **C06_force_dry.** Selection does not look at `force` / `dry_run`: the graph and the deselected
set are the same for every combination, and (`C06_skip`, `C06_select`, `C06_only` being stated for all
configurations and all worlds) blocked tasks stay unexecuted and SKIP whether or not they are
forced, changed, unchanged, or the build is a dry run. -/
theorem C06_force_dry (P : Project) (cfg : Cfg) (f d : Bool) :
    createDag P { cfg with force := f, dry := d } = createDag P cfg ∧
    ∀ g t, Eligible g { cfg with force := f, dry := d } t ↔ Eligible g cfg t := by
  refine ⟨?_, fun g t => Iff.rfl⟩
  simp only [createDag, Generated.dagPipeline, createDag.go]
  simp [deselected]

/-- **C06_exit.** Skipped and deselected tasks do not fail the build: whenever the exit code is not
OK there is a task that is *not* blocked and that either is reported FAIL or had its body run
(the latter covers the loop being aborted while recording states). -/
theorem C06_exit (F : BodyFn) (P : Project) (cfg : Cfg) (w : World) (picks : List Nat) (r : Result)
    (g : G) (marks : List Nat)
    (hd : createDag P cfg = .ok (g, marks)) (hb : build F P cfg w picks = .ok r)
    (hx : r.exit ≠ exitCode "OK") :
    ∃ u, ((u, Outcome.fail) ∈ r.reports ∨ u ∈ r.log) ∧
      (u ∈ P.tasks.map (·.id) → Eligible g cfg u) ∧ ¬ ∃ a, UserSkipped P a ∧ (u = a ∨ u ∈ taskDesc g a) := by
  obtain ⟨_, _, s', _, _, hs, _, _, hr, hl, _, hexit, _⟩ := build_run hd hb
  have hu : ∃ u, (u, Outcome.fail) ∈ r.reports ∨ u ∈ r.log := by
    rw [hexit] at hx
    by_cases hc : s'.crashed = true
    · obtain ⟨u, hu⟩ := hs.crashed_log (by simp) hc
      exact ⟨u, .inr (hl ▸ hu)⟩
    · simp only [hc] at hx
      by_cases hf : s'.reports.any (fun r => r.2 == Outcome.fail) = true
      · obtain ⟨⟨u, o⟩, hm, ho⟩ := List.any_eq_true.1 hf
        have : o = Outcome.fail := by simpa using ho
        exact ⟨u, .inl (hr ▸ this ▸ hm)⟩
      · simp [hf] at hx
  obtain ⟨u, hu⟩ := hu
  refine ⟨u, hu, fun hid => ?_, fun ⟨a, ha, hua⟩ => ?_⟩
  · refine Classical.byContradiction fun hne => ?_
    obtain ⟨h1, h2, _⟩ := C06_select F P cfg w picks r g marks hd hb u hid hne
    rcases hu with hu | hu
    · exact absurd (h2 _ hu) (by simp)
    · exact h1 hu
  · obtain ⟨h1, h2, _⟩ := C06_skip F P cfg w picks r g marks hd hb a ha u hua
    rcases hu with hu | hu
    · exact absurd (h2 _ hu) (by simp)
    · exact h1 hu

/-- **C06_all_reported.** "Every other task is reported as skipped": in a build that ran to the end
of its loop with exit code OK, every task of the project was handed out by the scheduler — so, by
`C06_skip` / `C06_select`, every task that is not eligible or lies in the closure of a user-skipped
task *has* the report SKIP. -/
theorem C06_all_reported (F : BodyFn) (P : Project) (cfg : Cfg) (w : World) (picks : List Nat) (r : Result)
    (g : G) (marks : List Nat)
    (hd : createDag P cfg = .ok (g, marks)) (hb : build F P cfg w picks = .ok r)
    (hc : r.complete = true) (hok : r.exit = exitCode "OK")
    (t : Nat) (ht : t ∈ P.tasks.map (·.id)) :
    t ∈ picks ∧ ((¬ Eligible g cfg t ∨ ∃ a, UserSkipped P a ∧ (t = a ∨ t ∈ taskDesc g a)) → (t, Outcome.skip) ∈ r.reports) := by
  obtain ⟨so, so', s', hso, hloop, hs, _, _, _, _, _, hexit, hcomp⟩ := build_run hd hb
  have hncr : s'.crashed = false := by
    cases h : s'.crashed
    · rfl
    · rw [hexit, h] at hok; simp only [if_true] at hok; revert hok; decide
  have hnf : s'.reports.any (fun r => r.2 == Outcome.fail) = false := by
    cases h : s'.reports.any (fun r => r.2 == Outcome.fail)
    · rfl
    · rw [hexit, hncr, h] at hok; simp only [Bool.false_eq_true, if_false, if_true] at hok; revert hok; decide
  have hns : s'.stop = false := by
    cases h : s'.stop
    · rfl
    · obtain ⟨u, hu⟩ := hs.stop_fail (by simp) h
      have : s'.reports.any (fun r => r.2 == Outcome.fail) = true := List.any_eq_true.2 ⟨_, hu, by simp⟩
      rw [hnf] at this; cases this
  have hdry : so'.isActive = false := by
    rw [hcomp, hns, hncr] at hc
    simpa using hc
  have hp : t ∈ picks := build_all_picked hd so so' s' hso hloop hdry ht
  refine ⟨hp, ?_⟩
  rintro (hne | ⟨a, ha, hta⟩)
  · exact (C06_select F P cfg w picks r g marks hd hb t ht hne).2.2 hp
  · exact (C06_skip F P cfg w picks r g marks hd hb a ha t hta).2.2 hp

/-- **C06_all_reported_full.** The same for every complete build, failing ones included (exit code
0 or 1): if the loop was not stopped early by the failure limit (the build reports fewer FAIL
outcomes than `max_failures`) and was not aborted while recording states (every executed task has a
report) — the two conditions read off the build's own result — then the scheduler ran dry: every
collected task was handed out, every collected task has **exactly one** report (the reports are, in
order, one per pick, and no task is picked twice), and the report of every task that is not eligible
or lies in the closure of a user-skipped task is SKIP. -/
theorem C06_all_reported_full (F : BodyFn) (P : Project) (cfg : Cfg) (w : World) (picks : List Nat) (r : Result)
    (g : G) (marks : List Nat)
    (hd : createDag P cfg = .ok (g, marks)) (hb : build F P cfg w picks = .ok r)
    (hc : r.complete = true)
    (hlim : ∀ m, cfg.maxFail = some m → countFail r.reports < m)
    (hrep : ∀ u ∈ r.log, ∃ o, (u, o) ∈ r.reports)
    (t : Nat) (ht : t ∈ P.tasks.map (·.id)) :
    (r.reports.map (·.1)).count t = 1 ∧
    ((¬ Eligible g cfg t ∨ ∃ a, UserSkipped P a ∧ (t = a ∨ t ∈ taskDesc g a)) →
      (t, Outcome.skip) ∈ r.reports ∧ ∀ o, (t, o) ∈ r.reports → o = Outcome.skip) := by
  obtain ⟨hall, hkeys, hnd⟩ := build_complete hd hb hc hlim hrep
  have hp : t ∈ picks := hall t ht
  refine ⟨by rw [hkeys]; exact nodup_count_one hnd hp, ?_⟩
  rintro (hne | ⟨a, ha, hta⟩)
  · obtain ⟨_, h2, h3⟩ := C06_select F P cfg w picks r g marks hd hb t ht hne
    exact ⟨h3 hp, h2⟩
  · obtain ⟨_, h2, h3⟩ := C06_skip F P cfg w picks r g marks hd hb a ha t hta
    exact ⟨h3 hp, h2⟩

/-! ## `after` declarations: the F1 face of C06

`_modify_dag` routes `after=u` through the *products* of `u`. When `u` has a product, `u` is a
task-ancestor of the declaring task and everything above applies. When `u` has none, no edge exists
(finding F1), so neither the skip closure nor the selection closure sees the declaration. -/

/-- **C06_needs.** What a task needs directly is a task-ancestor in the build's graph: the producer
of one of its dependencies, and every `after` target that has at least one product. -/
theorem C06_needs (P : Project) (cfg : Cfg) (g : G) (marks : List Nat) (hd : createDag P cfg = .ok (g, marks))
    (t u : TaskSpec) (ht : t ∈ P.tasks) (hu : u ∈ P.tasks) (hne : u.id ≠ t.id)
    (h : (∃ p ∈ u.prods, p ∈ t.deps) ∨ (u.id ∈ t.after ∧ ∃ p, p ∈ u.prods)) : u.id ∈ taskAnc g t.id := by
  rw [(createDag_ok hd).1]
  rcases h with ⟨p, hp, hd'⟩ | ⟨ha, p, hp⟩
  · exact dep_taskAnc ht hu hp hd' hne
  · exact after_taskAnc ht hu ha hne hp

/-- Full strength: a task declared `after` a user-skipped task is never executed. **False of the
current code** when the target has no products (F1). -/
def C06_skip_after_full : Prop :=
  ∀ (F : BodyFn) (P : Project) (cfg : Cfg) (w : World) (picks : List Nat) (r : Result),
    build F P cfg w picks = .ok r → ∀ t ∈ P.tasks, ∀ u ∈ P.tasks, u.id ∈ t.after → u.id ≠ t.id →
    UserSkipped P u.id → t.id ∉ r.log

/-- `up` (no products, `skip`) and `down(after=up)`. -/
def c06F1 (skipUp : Bool) : Project := ⟨[{ id := 0, src := 90, deps := [], prods := [], after := [], skip := skipUp },
                                          { id := 1, src := 90, deps := [], prods := [21], after := [0] }]⟩

theorem C06_skip_after_full_false : ¬ C06_skip_after_full := by
  intro h
  have := h (fun _ _ _ _ => 1) (c06F1 true) {} ⟨[(90, 1)], []⟩ [1, 0] _ rfl
    _ (List.Mem.tail _ (List.Mem.head _)) _ (List.Mem.head _) (by decide) (by decide) ⟨_, rfl, .inl rfl⟩
  revert this
  decide

/-- The true weakening: targets with at least one product. -/
theorem C06_skip_after_partial (F : BodyFn) (P : Project) (cfg : Cfg) (w : World) (picks : List Nat) (r : Result)
    (g : G) (marks : List Nat) (hd : createDag P cfg = .ok (g, marks)) (hb : build F P cfg w picks = .ok r)
    (t u : TaskSpec) (ht : t ∈ P.tasks) (hu : u ∈ P.tasks) (ha : u.id ∈ t.after) (hne : u.id ≠ t.id)
    (hp : ∃ p, p ∈ u.prods) (hs : UserSkipped P u.id) : t.id ∉ r.log :=
  (C06_skip F P cfg w picks r g marks hd hb u.id hs t.id
    (.inr (mem_taskDesc_iff_mem_taskAnc.2 (C06_needs P cfg g marks hd t u ht hu hne (.inr ⟨ha, hp⟩))))).1

/-- Full strength: the `after` target of an eligible task is eligible. **False of the current code**
when the target has no products (F1). -/
def C06_select_after_full : Prop :=
  ∀ (P : Project) (cfg : Cfg) (g : G) (marks : List Nat), createDag P cfg = .ok (g, marks) →
    ∀ t ∈ P.tasks, ∀ u ∈ P.tasks, u.id ∈ t.after → u.id ≠ t.id → Eligible g cfg t.id → Eligible g cfg u.id

theorem C06_select_after_full_false : ¬ C06_select_after_full := by
  intro h
  have := h (c06F1 false) { selK := some [1] } _ _ rfl
    _ (List.Mem.tail _ (List.Mem.head _)) _ (List.Mem.head _) (by decide) (by decide)
    ⟨fun k hk => by cases hk; decide, fun m hm => by cases hm⟩
  exact absurd (this.1 _ rfl) (by decide)

theorem C06_select_after_partial (P : Project) (cfg : Cfg) (g : G) (marks : List Nat)
    (hd : createDag P cfg = .ok (g, marks)) (t u : TaskSpec) (ht : t ∈ P.tasks) (hu : u ∈ P.tasks)
    (ha : u.id ∈ t.after) (hne : u.id ≠ t.id) (hp : ∃ p, p ∈ u.prods) (he : Eligible g cfg t.id) :
    Eligible g cfg u.id :=
  he.anc (C06_needs P cfg g marks hd t u ht hu hne (.inr ⟨ha, hp⟩))

/-! ## non-vacuity: the hypotheses are satisfiable on non-trivial data, and the conclusions bite -/

/-- 0 (user-skipped) → 1 → (after) 2, and an independent task 3. -/
def c06P (skip0 : Bool) : Project := ⟨[
  { id := 0, src := 90, deps := [10], prods := [20], after := [], skip := skip0 },
  { id := 1, src := 90, deps := [20], prods := [21], after := [] },
  { id := 2, src := 91, deps := [], prods := [22], after := [1] },
  { id := 3, src := 91, deps := [10], prods := [23], after := [], skipif := false }]⟩
def c06W : World := ⟨[(10, 5), (90, 1), (91, 2)], []⟩
def c06F : BodyFn := fun t i _ _ => t + i + 1

/-- `C06_skip` on a forced build: the skipped task 0, its dependant 1 and the `after`-dependant 2 are
SKIP and do not run although forced; the independent task 3 runs; exit code OK. -/
example : ∃ g marks r, createDag (c06P true) { force := true } = .ok (g, marks) ∧
    build c06F (c06P true) { force := true } c06W [0, 3, 1, 2] = .ok r ∧
    UserSkipped (c06P true) 0 ∧ 1 ∈ taskDesc g 0 ∧ 2 ∈ taskDesc g 0 ∧ 3 ∉ taskDesc g 0 ∧
    r.log = [3] ∧ r.exit = exitCode "OK" ∧
    r.reports = [(0, .skip), (3, .success), (1, .skip), (2, .skip)] :=
  ⟨_, _, _, rfl, rfl, ⟨_, rfl, .inl rfl⟩, by decide, by decide, by decide, rfl, rfl, rfl⟩

/-- `C06_select` with `-k` matching task 2 only: eligible = {2, 1, 0} (dependencies through the `after`
edge and the product chain); task 3 is not eligible, is reported SKIP and does not run. -/
example : ∃ g marks r, createDag (c06P false) { selK := some [2] } = .ok (g, marks) ∧
    build c06F (c06P false) { selK := some [2] } c06W [0, 3, 1, 2] = .ok r ∧
    Eligible g { selK := some [2] } 0 ∧ ¬ Eligible g { selK := some [2] } 3 ∧
    r.log = [0, 1, 2] ∧ r.reports = [(0, .success), (3, .skip), (1, .success), (2, .success)] := by
  refine ⟨_, _, _, rfl, rfl, ⟨fun k hk => ?_, fun m hm => by cases hm⟩, fun h => ?_, rfl, rfl⟩
  · cases hk; decide
  · exact absurd (h.1 _ rfl) (by decide)

/-- `C06_select` with both `-k` (task 2) and `-m` (task 3) — the F10 situation: nothing is in both
closures, every task is SKIP, nothing runs. -/
example : ∃ r, build c06F (c06P false) { selK := some [2], selM := some [3] } c06W [0, 3, 1, 2] = .ok r ∧
    r.log = [] ∧ r.reports = [(0, .skip), (3, .skip), (1, .skip), (2, .skip)] ∧ r.exit = exitCode "OK" :=
  ⟨_, rfl, rfl, rfl, rfl⟩

/-- `C06_only` / `C06_unchanged_no_propagate`: after a first build, the second build reports every
task SKIP_UNCHANGED and none SKIP. -/
example : ∃ r1 r2, build c06F (c06P false) {} c06W [0, 3, 1, 2] = .ok r1 ∧
    build c06F (c06P false) {} r1.w [3, 0, 1, 2] = .ok r2 ∧ r2.log = [] ∧
    r2.reports = [(3, .skipUnchanged), (0, .skipUnchanged), (1, .skipUnchanged), (2, .skipUnchanged)] :=
  ⟨_, _, rfl, rfl, rfl, rfl⟩

/-- `C06_exit`: a failing eligible task gives exit code FAILED; the culprit is not blocked. -/
example : ∃ r, build c06F ⟨[{ id := 0, src := 90, deps := [], prods := [20], after := [], beh := .raisesEarly },
                            { id := 1, src := 90, deps := [], prods := [21], after := [], skip := true }]⟩
      {} c06W [0, 1] = .ok r ∧ r.exit = exitCode "FAILED" ∧ r.reports = [(0, .fail), (1, .skip)] :=
  ⟨_, rfl, rfl, rfl⟩

/-- `C06_all_reported_full` on a failing build (exit 1, no failure limit): all four tasks have one
report each, the skipped task's is SKIP. -/
example : ∃ r, build c06F ⟨[{ id := 0, src := 90, deps := [], prods := [20], after := [], beh := .raisesEarly },
                            { id := 1, src := 90, deps := [20], prods := [21], after := [] },
                            { id := 2, src := 90, deps := [], prods := [22], after := [], skip := true },
                            { id := 3, src := 90, deps := [], prods := [23], after := [] }]⟩
      {} c06W [0, 3, 2, 1] = .ok r ∧ r.complete = true ∧ r.exit = exitCode "FAILED" ∧ countFail r.reports = 1 ∧
      r.reports = [(0, .fail), (3, .success), (2, .skip), (1, .skipPrevFailed)] ∧ r.log = [0, 3] :=
  ⟨_, rfl, rfl, rfl, rfl, rfl, rfl⟩

end Pytask
