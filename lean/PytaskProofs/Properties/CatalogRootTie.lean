-- TIE-PROPS: C20
-- TIE-SECTION: extract_clean
import PytaskModel.Clean
/-!
# CatalogRootTie — where a data catalog's default directory is rooted

`DataCatalog.__attrs_post_init__` puts the catalog below `find_project_root_and_config((module directory,))`
(`Generated.Cat.init`: `.resolveRoot`, then `root / ".pytask" / "data_catalogs" / name`). The catalog model takes that
root as a parameter; C20's "the same catalog name resolves to one storage location" therefore needs every module of a
project to resolve to the SAME root. The stop rules of the upward search are extracted by `extract_clean`
(`Generated.rootStopRules`, interpreted by `Clean.stopAt` / `Clean.searchUp`). The theorems below are about those
extracted rules, for every file tree: a `.git` entry of ANY kind — directory or file (linked work tree, submodule) —
and a `pyproject.toml` with the pytask section each stop the search; nothing else does; hence all directories below one
marked top (without a nearer marker) get that top. A source change of the rules (e.g. `.exists()` → `.is_dir()`) changes
the generated term and breaks these proofs.
-/
namespace Pytask
open Clean

def gitName : Name := ".git".toList
def pyprojectName : Name := "pyproject.toml".toList

/-- A directory that contains a `.git` entry — file or directory — and no `pyproject.toml` with the pytask section
stops the root search: it is the root (without configuration file). -/
theorem CatalogRootTie_gitEntry (fs : FTree) (hs : Path → Bool) (d : Path) (t : FTree)
    (hgit : subtree fs (d ++ [gitName]) = some t) (hcfg : hs (d ++ [pyprojectName]) = false) :
    stopAt fs hs d Generated.rootStopRules = some (d, none) := by
  have e1 : (".git" : String).toList = gitName := rfl
  have e2 : ("pyproject.toml" : String).toList = pyprojectName := rfl
  simp only [Generated.rootStopRules, stopAt, stopRule, e1, e2, hgit, hcfg]
  cases subtree fs (d ++ [pyprojectName]) <;> simp

/-- A directory with a `pyproject.toml` that has the pytask section is the root, with that file as configuration. -/
theorem CatalogRootTie_section (fs : FTree) (hs : Path → Bool) (d : Path) (t : FTree)
    (hfile : subtree fs (d ++ [pyprojectName]) = some t) (hcfg : hs (d ++ [pyprojectName]) = true) :
    stopAt fs hs d Generated.rootStopRules = some (d, some (d ++ [pyprojectName])) := by
  have e2 : ("pyproject.toml" : String).toList = pyprojectName := rfl
  simp [Generated.rootStopRules, stopAt, stopRule, e2, hfile, hcfg]

/-- Nothing else stops it: without a `.git` entry, a directory whose `pyproject.toml` is missing or lacks the pytask
section lets the search continue upwards. -/
theorem CatalogRootTie_noMarker (fs : FTree) (hs : Path → Bool) (d : Path)
    (hgit : subtree fs (d ++ [gitName]) = none) (hcfg : hs (d ++ [pyprojectName]) = false) :
    stopAt fs hs d Generated.rootStopRules = none := by
  have e1 : (".git" : String).toList = gitName := rfl
  have e2 : ("pyproject.toml" : String).toList = pyprojectName := rfl
  simp only [Generated.rootStopRules, stopAt, stopRule, e1, e2, hgit, hcfg]
  cases subtree fs (d ++ [pyprojectName]) <;> simp

/-- The upward search passes all unmarked directories and returns what the first marked one yields. -/
theorem CatalogRootTie_searchUp (fs : FTree) (hs : Path → Bool) (below : List Path) (top : Path) (above : List Path)
    (r : Path × Option Path) (hbelow : ∀ d ∈ below, stopAt fs hs d Generated.rootStopRules = none)
    (htop : stopAt fs hs top Generated.rootStopRules = some r) :
    searchUp fs hs (below ++ top :: above) = some r := by
  induction below with
  | nil => simp [searchUp, htop]
  | cons d ds ih =>
    have hd := hbelow d (by simp)
    simp only [List.cons_append, searchUp, hd]
    exact ih (fun x hx => hbelow x (by simp [hx]))

/-- **One root per project.** Two chains of directories (the parents of two modules in different sub-directories) that
meet at the same marked top — marked by a `.git` file, a `.git` directory or a sectioned `pyproject.toml` — and contain
no nearer marker resolve to the same root, so `DataCatalog(name=n)` constructed in either module uses the same
`root/.pytask/data_catalogs/n`. -/
theorem CatalogRootTie_sameRoot (fs : FTree) (hs : Path → Bool) (below₁ below₂ : List Path) (top : Path) (above : List Path)
    (r : Path × Option Path) (h₁ : ∀ d ∈ below₁, stopAt fs hs d Generated.rootStopRules = none)
    (h₂ : ∀ d ∈ below₂, stopAt fs hs d Generated.rootStopRules = none)
    (htop : stopAt fs hs top Generated.rootStopRules = some r) :
    searchUp fs hs (below₁ ++ top :: above) = searchUp fs hs (below₂ ++ top :: above) := by
  rw [CatalogRootTie_searchUp fs hs below₁ top above r h₁ htop, CatalogRootTie_searchUp fs hs below₂ top above r h₂ htop]

/-! Non-vacuity: a project whose top `p` is marked only by a `.git` FILE, with modules in `p/a` and `p/b/deep`. -/

private def wt : FTree :=
  .dir [] [.dir ['p'] [.file gitName, .dir ['a'] [.file ['t', '.', 'p', 'y']], .dir ['b'] [.dir ['d'] [.file ['u', '.', 'p', 'y']]]]]

example : searchUp wt (fun _ => false) ([[['p'], ['a']]] ++ [['p']] :: [[]]) =
    searchUp wt (fun _ => false) ([[['p'], ['b'], ['d']], [['p'], ['b']]] ++ [['p']] :: [[]]) :=
  CatalogRootTie_sameRoot wt (fun _ => false) _ _ [['p']] [[]] ([['p']], none)
    (by decide) (by decide) (CatalogRootTie_gitEntry wt _ [['p']] (.file gitName) rfl rfl)

example : searchUp wt (fun _ => false) [[['p'], ['a']], [['p']], []] = some ([['p']], none) := by decide

end Pytask
