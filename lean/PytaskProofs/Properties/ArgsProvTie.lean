-- TIE-PROPS: C07
-- TIE-SECTION: extract_provgen
import PytaskModel.Generated
/-!
# ArgsProvTie — resolving provisional dependencies REBINDS `task.depends_on`

C07's model has no provisional nodes in arguments; what it relies on is that the tree a task function's keyword arguments are
loaded from (`task.depends_on`, see `TaskArgs.kwargsOf`) is, for a task with directory patterns, the tree produced by *this* build's
resolution. `collect.pytask_collect_task` hands the build a shallow copy of a user's task object, so the `depends_on` dict is shared
with the user's object: `provisional.pytask_execute_task_setup` therefore has to **assign** `task.depends_on = tree_map…(…)` (a new
tree per build) rather than mutate the shared one. The fact is read by b-c18's translator section `extract_provgen`, whose recogniser
accepts the resolution only as an assignment to the attribute; it is consumed here so that a change of that shape reaches C07.
-/
namespace Pytask
open Generated.Prv

/-- the setup hook resolves exactly `depends_on` (by assignment of the mapped tree), then re-creates the DAG for registered tasks;
every leaf that is no provisional node is passed through unchanged, a provisional one is replaced by its collected nodes. -/
theorem ArgsProvTie_setup_rebinds :
    setupSteps = [.resolve .dependsOn, .recreate .registered] ∧
    nodeSteps = [.passNonProvisional, .register, .collect, .returnCollected] := ⟨rfl, rfl⟩

/-- a directory pattern is resolved by globbing its root directory at the time of the call. -/
theorem ArgsProvTie_dir_collect : dirCollect = .rootDirGlob := rfl

end Pytask
