-- TIE-PROPS: C16
-- TIE-SECTION: extract_exprgen
import PytaskProofs.Lemmas.ExprGenRefines
/-!
# ExprTie — the hand-written expression model M3 equals the one computed from the source

`Expr.lean` (the model under the theorems of C16) writes out by hand the lexer loop, the recursive-descent parser and the
matchers of `mark/expression.py` / `mark/__init__.py`. `harness/extract_expr.py` (`grammar_section`) reads the control
structure of the same functions from the tree under check into `Generated.exprRules`, `exprTop`, `exprLexBranches`,
`kwMatcher`, `markMatcher`, `selKeyword`, `selMark`, `selAfter`, and `ExprGen.lean` interprets that data. The theorems
below say that, **for all inputs**, the interpreters return what the hand-written definitions return. Their proofs unfold
the generated terms, so a change of pytask's source that alters an extracted fact — another token continuing a loop,
another sub-parser (precedence), another node or a flat `BoolOp` that swallows a different operator, an optional closing
parenthesis, `True` for the empty expression, a dropped `EOF` check, a keyword recognised other than by whole-match
comparison, a name source dropped from `KeywordMatcher`, a `.lower()` removed or moved, substring ↔ membership, a
selection that no longer returns `None` without expression — makes this module fail to compile: the theorems of C16 then
no longer speak about the code and the check reports PROOF-BROKEN. Shapes the translator does not know are rejected by
the translator itself (fail-closed), with the same consequence.
-/
namespace Pytask
open SelExpr SelExpr.Gen Generated

deriving instance DecidableEq for Except

/-- Each of the three parser functions `expr`, `and_expr`, `not_expr`, interpreted from its extracted control structure,
computes the hand-written `pExpr` / `pAnd` / `pNot` — for every token list, every lexer outcome and every amount of fuel.
(`"nested"` and `"flatSameOp"` node construction are both admitted: see `ExprGen.lean` on the encoding.) -/
theorem ExprTie_rules (bad : Bool) (f : Nat) (ts : List Tok) :
    runRule exprRules bad f "expr" ts = pExpr bad f ts ∧
    runRule exprRules bad f "and_expr" ts = pAnd bad f ts ∧
    runRule exprRules bad f "not_expr" ts = pNot bad f ts :=
  ⟨(runEq bad f).expr ts, (runEq bad f).and ts, (runEq bad f).not ts⟩

/-- `expression` (empty input ↦ `Constant(False)`, otherwise `expr` followed by the mandatory `EOF`), interpreted from
`exprTop` and the rule table, is `parseToks`. -/
theorem ExprTie_parse (bad : Bool) (ts : List Tok) : parseGen exprTop exprRules bad ts = parseToks bad ts :=
  parseGen_eq bad ts

/-- The `if/elif` chain of `Scanner.lex` (skip blanks, `(`, `)`, maximal run over the identifier class with the keyword
chain by whole-match equality, else reject), interpreted from `exprLexBranches`, is `lex` — for every `\w` table. -/
theorem ExprTie_lex (isWord : Char → Bool) (cs : List Char) : lexGen isWord cs = lex isWord cs := lexGen_eq isWord cs

/-- `Expression.compile_`. -/
theorem ExprTie_compile (isWord : Char → Bool) (cs : List Char) : compileGen isWord cs = compile isWord cs :=
  compileGen_eq isWord cs

/-- `KeywordMatcher.from_task(task)(query)` from the extracted sources (task id, `function.__dict__`, marker names),
lower-casing of both sides and substring test is `kwMatch`. -/
theorem ExprTie_kwMatch (lower : List Char → List Char) (t : TaskInfo) (q : List Char) :
    matchGen kwMatcher lower t q = kwMatch lower (kwNames t) q := matchGen_kw lower t q

/-- `MarkMatcher.from_task(task)(name)` (marker names, no case folding, membership) is `markMatch`. -/
theorem ExprTie_markMatch (lower : List Char → List Char) (t : TaskInfo) (q : List Char) :
    matchGen markMatcher lower t q = markMatch t.markers q := matchGen_mark lower t q

/-- `select_by_keyword`, `select_by_mark`, `select_by_after_keyword` from their extracted shape (no expression ↦ `None`
for `-k`/`-m` only; `ParseError` ↦ error; which matcher; the `if after and …` guard) are the hand-written selections. -/
theorem ExprTie_select (isWord : Char → Bool) (lower : List Char → List Char) (expr : List Char) (tasks : List TaskInfo) :
    selectGen selKeyword isWord lower expr tasks = selectByKeyword isWord lower expr tasks ∧
    selectGen selMark isWord lower expr tasks = selectByMark isWord expr tasks ∧
    selectGen selAfter isWord lower expr tasks = (selectByAfter isWord lower expr tasks).map some :=
  ⟨selectGen_keyword isWord lower expr tasks, selectGen_mark isWord lower expr tasks,
   selectGen_after isWord lower expr tasks⟩

/-- Facts the edge-free model does not interpret but the engine model relies on: `-k` / `-m` close the selection under
predecessors (`task_and_preceding_tasks`), `after` does not; a `ParseError` is turned into an error by all three. -/
theorem ExprTie_select_shape :
    selKeyword.closure = true ∧ selMark.closure = true ∧ selAfter.closure = false ∧
    selKeyword.parseErrorIsError = true ∧ selMark.parseErrorIsError = true ∧ selAfter.parseErrorIsError = true := by
  decide

/-- `select_tasks_by_marks_and_expressions`, interpreted from `deselectSteps` (both selections evaluated first; each guarded
by `remaining is not None` — `None` meaning "option not given" — and not by the truthiness of the set; every task outside
`remaining` gets the `skip` mark), is `selectProject`: in particular an EMPTY selection deselects every task. With a
truthiness guard the interpreter keeps every task for an empty selection (second statement), so such a source no longer
satisfies the first. -/
theorem ExprTie_selectProject (isWord : Char → Bool) (lower : List Char → List Char) (kexpr mexpr : List Char)
    (tasks : List TaskInfo) :
    selectProjectGen deselectSteps isWord lower kexpr mexpr tasks = selectProject isWord lower kexpr mexpr tasks ∧
    (∀ i, keptByGen ⟨"select_by_keyword", "truthy", "skip"⟩ (some []) i = true) ∧
    (∀ i, keptByGen ⟨"select_by_keyword", "isNotNone", "skip"⟩ (some []) i = false) :=
  ⟨selectProjectGen_eq isWord lower kexpr mexpr tasks, fun _ => by simp [keptByGen], fun _ => by simp [keptByGen]⟩

/-- **When the selection is applied.** `select_tasks_by_marks_and_expressions` is a step of `create_dag_from_session` (the
last one of the extracted pipeline), and `provisional_utils.recreate_dag` builds the new DAG with that function: the
`-k` / `-m` formulas are therefore applied again whenever the DAG is re-created, i.e. also to the tasks a task generator
creates during the build. (A selection done once per session, e.g. in `create_dag` only, flips `selectionSite`.) -/
theorem ExprTie_selection_on_every_dag :
    selectionSite.inCreateDagFromSession = true ∧ selectionSite.recreateUsesIt = true ∧ "select" ∈ Generated.dagPipeline := by
  decide

/-- One iteration of `_modify_dag`'s loop for a task with `after="<expr>"` — evaluate `select_by_after_keyword` on this
task's own string, discard the task itself, draw edges from the selected tasks' successors — is `afterPredsOf`; the
translator has established that an iteration reads nothing written by an earlier one (`afterLoop.stateless`; a memo
dictionary filled inside the loop, a set reused across tasks, … are rejected fail-closed), so the whole loop is
`modifyDagAfter`, the map of this step over the tasks. -/
theorem ExprTie_afterStep (isWord : Char → Bool) (lower : List Char → List Char) (tasks : List TaskInfo) (i : Nat)
    (expr : List Char) :
    afterStepGen afterLoop isWord lower tasks i expr = afterPredsOf isWord lower tasks i expr ∧ afterLoop.stateless = true :=
  ⟨afterStepGen_eq isWord lower tasks i expr, by decide⟩

/-- Non-vacuity: the interpreter is not trivially equal — run on a rule table with swapped loop tokens it parses
`a or b and c` differently from the model, and with an optional closing parenthesis it accepts `(a`. -/
example :
    parseGen exprTop [("expr", .loop "and_expr" "AND" "and_expr" "And" "nested"),
      ("and_expr", .loop "not_expr" "OR" "not_expr" "Or" "nested"),
      ("not_expr", .alts [.unary "NOT" "not_expr" "Not", .group "LPAREN" "expr" "RPAREN" true, .ident "IDENT"])] false
      [.ident ['a'], .or, .ident ['b'], .and, .ident ['c']]
    = .ok (.and (.or (.ident ['a']) (.ident ['b'])) (.ident ['c'])) := by decide +kernel
example :
    parseGen exprTop [("expr", .loop "and_expr" "OR" "and_expr" "Or" "nested"),
      ("and_expr", .loop "not_expr" "AND" "not_expr" "And" "nested"),
      ("not_expr", .alts [.unary "NOT" "not_expr" "Not", .group "LPAREN" "expr" "RPAREN" false, .ident "IDENT"])] false
      [.lparen, .ident ['a']]
    = .ok (.ident ['a']) := by decide +kernel
/-- A flat `BoolOp` that swallows any operator (`isinstance(ret, BoolOp)` only) turns `(a or b) and c` into `a or b or c`. -/
example : mkBin "flatAnyBoolOp" "And" (.or (.ident ['a']) (.ident ['b'])) (.ident ['c'])
    = some (.or (.or (.ident ['a']) (.ident ['b'])) (.ident ['c'])) := by decide +kernel

end Pytask
