-- TIE-PROPS: C07
-- TIE-SECTION: extract_argsgen
import PytaskModel.ArgsGen
import PytaskProofs.Lemmas.PyTree
/-!
# ArgsTie — the hand-written argument model M5 equals the one computed from the source

`TaskArgs.lean` (the model under the theorems of C07) writes out by hand what the two parsers of `collect_utils`, the
collection helpers, `task_utils._parse_task`, `execute.pytask_execute_task` and the generator block of
`provisional.pytask_execute_task` do. `harness/extract_argsgen.py` reads the same control structure from the tree under
check into `Generated.Args.*`, `ArgsGen.lean` interprets that data, and the theorems below say that, **for all
arguments**, the interpreters return what the hand-written definitions return. Their proofs unfold the generated
terms, so a source change that alters an extracted fact (other merge precedence, a name no longer skipped, a weaker
or stronger collapse condition, `kwargs.get(name) or …`, `out = {"return": …}`, a mutated user dict, another
`is_product` flag, a dropped parameter guard, `strict=True`, a save loop that no longer skips provisional nodes, …) —
or that the recognisers do not know at all (a shortcut in the return block, `reversed(values)`) — makes this module
fail: the properties proved over `TaskArgs.*` then no longer speak about the code and the check reports PROOF-BROKEN.
-/
namespace Pytask
open PyTree TaskArgs ArgsGen

variable {V P : Type}

/-- `{**signature_defaults, **task_kwargs}` in both parsers and `signature_kwargs | parsed_kwargs` in `_parse_task`
are the model's `Func.merged` (decorator kwargs win), and `_parse_task` builds a new dict: the user's dict — possibly
shared by several `@task(kwargs=…)` — is not changed, so tasks do not influence each other's declarations (the model
treats every `Func` on its own). -/
theorem ArgsTie_merge (f : Func V P) :
    mergeGen Generated.Args.depsMerge f = f.merged ∧ mergeGen Generated.Args.prodsMerge f = f.merged ∧
    mergeGen Generated.Args.parseTaskMerge f = f.merged ∧ Generated.Args.parseTaskMutatesUserDict = false := by
  refine ⟨rfl, rfl, rfl, rfl⟩

/-- the accepted leaves of the collapse rule, read as a truth table from the source, are the un-hashed `PythonNode`s. -/
theorem ArgsTie_leafOk (n : Node V P) : leafOkGen n = isUnhashedPy n := by
  cases n with
  | pyNode v h => cases h <;> simp [leafOkGen, Generated.Args.collapseLeafTable, isPy, hashed, isUnhashedPy]
  | _ => simp [leafOkGen, Generated.Args.collapseLeafTable, isPy, hashed, isUnhashedPy]

/-- `_collect_nodes_and_provisional_nodes` with `collect_dependency` / `_collect_product`: every leaf of the declared value is
handed, with its path, to the collection hook and replaced by what the hook returns. -/
theorem ArgsTie_collectTree (value : T (Decl V P)) :
    collectTreeGen Generated.Args.collectDependencySteps value = mapWithPath (fun _ d => collectLeaf d) value ∧
    collectTreeGen Generated.Args.collectProductSteps value = mapWithPath (fun _ d => collectLeaf d) value := by
  constructor <;> simp [collectTreeGen, Generated.Args.collectMapsLeavesWithPath, Generated.Args.collectDependencySteps,
    Generated.Args.collectProductSteps]

/-- The collapse rule as extracted (collected nodes are a container, every collected leaf is an un-hashed `PythonNode`,
no leaf of the declared value is a node; then one `PythonNode(value=<declared value>)`) is the model's `collectDep`. -/
theorem ArgsTie_collectDep (value : T (Decl V P)) : collectDepGen value = collectDep value := by
  have h : (fun n : Node V P => leafOkGen n) = isUnhashedPy := funext ArgsTie_leafOk
  simp only [collectDepGen, collectDep, (ArgsTie_collectTree value).1, Generated.Args.collapseNeedsContainer,
    Generated.Args.collapseValueNodeFree, Generated.collapseKeepsUserNodes, Bool.not_true, Bool.false_or, Bool.true_and]
  rw [show (leaves (mapWithPath (fun _ d => collectLeaf d) value)).all leafOkGen =
      (leaves (mapWithPath (fun _ d => collectLeaf d) value)).all isUnhashedPy from by rw [← h]]

/-- `parse_dependencies_from_task_function` interpreted from its extracted structure (merge, `pop("produces")`, completion
by node annotations with the defined-twice error, skipping of `Product` parameters and `return`, the collapse rule)
is the model's `parseDeps`, for every task function. -/
theorem ArgsTie_parseDeps (f : Func V P) : parseDepsGen f = parseDeps f := by
  have h : (fun kv : String × T (Decl V P) => (kv.1, collectDepGen kv.2)) = fun kv => (kv.1, collectDep kv.2) :=
    funext fun kv => by rw [ArgsTie_collectDep]
  simp only [parseDepsGen, parseDeps, Generated.Args.depsPopped, Generated.Args.depsFill, Generated.Args.depsSkipProductAnnot,
    Generated.Args.depsSkipExtra, (ArgsTie_merge f).1, List.foldl_cons, List.foldl_nil, ↓reduceIte, h]

/-- the names visited by the product loop and the declared value chosen for each are the model's. -/
theorem ArgsTie_productNames (f : Func V P) : productNamesGen f = f.productNames := by
  simp [productNamesGen, Func.productNames, Generated.Args.prodsAddProducesParam, Generated.Args.prodsReturnFromAnnot]

theorem ArgsTie_productValue (pv : PyVals V) (f : Func V P) (name : String) :
    productValueGen pv f name = f.productValue pv name := by
  simp only [productValueGen, Func.productValue, (ArgsTie_merge f).2.1, Generated.Args.prodsChoice,
    Generated.productFalsyFallsBack, Bool.false_and, Bool.false_eq_true, ↓reduceIte]
  rfl

/-- `parse_products_from_task_function` interpreted from its extracted structure (the `produces` parameter, `Product`
annotations, the return annotation, skip / defined-twice, `kwargs[name] if name in kwargs else …`, `@task(produces=…)`
stored with `out["return"] = …`, the error when both return declarations are used) is the model's `parseProds`. -/
theorem ArgsTie_parseProds (pv : PyVals V) (f : Func V P) : parseProdsGen pv f = parseProds pv f := by
  simp only [parseProdsGen, parseProds, ArgsTie_productNames, (ArgsTie_merge f).2.1, Generated.Args.prodsSkipNoValue,
    Generated.Args.prodsTwiceRaises, Generated.Args.prodsBothRaises, Generated.Args.prodsReturnFromAnnot,
    Generated.Args.prodsDecoStore, Generated.taskProducesReplaces, Bool.true_and, ↓reduceIte, Bool.false_eq_true,
    ArgsTie_productValue, (ArgsTie_collectTree _).2]
  rfl

/-- **Every keyword of `@task(...)` survives, whatever decorators were applied before.** In both branches of `task()`'s wrapper —
the function already carries `pytask_meta` (a `@pytask.mark.*` sits below `@task`), or the metadata is created — the fields
`after`, `id_`, `is_generator`, `kwargs`, `name`, `produces` are set from the decorator's keywords (so the model's `Func.kwargs` /
`Func.produces` are what the user wrote, independent of the decorator order), and both branches add the `task` mark. -/
theorem ArgsTie_taskDecorator {X : Type} (a : DecoArgs X) (old : X) :
    metaGen Generated.Args.taskMetaExisting a old = a ∧ metaGen Generated.Args.taskMetaCreated a old = a ∧
    (Generated.Args.taskMetaExisting.find? (fun kv => kv.1 == "markers")).map (·.2) = some "taskMark" ∧
    (Generated.Args.taskMetaCreated.find? (fun kv => kv.1 == "markers")).map (·.2) = some "taskMark" := by
  refine ⟨rfl, rfl, rfl, rfl⟩

/-- **The debugging wrappers are transparent.** With `pdb=True` (`wrap_function_for_post_mortem_debugging`) or `trace=True`
(`wrap_function_for_tracing`) pytask replaces `task.function` by a wrapper; calling the wrapper gives exactly what calling the
task function gives — same keyword arguments in, same return value (or exception) out — so the handling of the return value
(`executeReturn`) sees the value the body returned, whatever build options are used. -/
theorem ArgsTie_debugWrappers {K R : Type} (noArgs : K) (pyNone : R) (body : K → Option R) (kw : K) :
    wrapCall Generated.Args.wrapPostMortem noArgs pyNone body kw = body kw ∧
    wrapCall Generated.Args.wrapTracing noArgs pyNone body kw = body kw := by
  constructor <;> simp [wrapCall, Generated.Args.wrapPostMortem, Generated.Args.wrapTracing] <;> cases body kw <;> rfl

/-- **Resolving provisional dependencies rebinds `task.depends_on`.** C07's model has no provisional nodes in arguments; what it
relies on is that the tree the keyword arguments are loaded from (`task.depends_on`, see `kwargsOf`) is, for a task with directory
patterns, the tree produced by *this* build's resolution. `collect.pytask_collect_task` hands the build a shallow copy of a user's
task object, so the `depends_on` dict is shared with the user's object: `provisional.pytask_execute_task_setup` therefore
**assigns** `task.depends_on = tree_map…(…)` (the recogniser accepts the resolution only in that form), passing leaves that are no
provisional nodes through unchanged and replacing a directory pattern by what globbing its root directory finds at that moment. -/
theorem ArgsTie_provisional_rebinds :
    Generated.Args.provSetupSteps = ["resolve dependsOn", "recreate registered"] ∧
    Generated.Args.provNodeSteps = ["passNonProvisional", "register", "collect", "returnCollected"] ∧
    Generated.Args.provDirCollect = "rootDirGlob" := ⟨rfl, rfl, rfl⟩

/-- `tree_util.py`: each wrapper the model's `leaves` / `map` / `mapWithPath` / `struct` / `paths` stand for is the optree function
of the same name with `none_is_leaf=True` (so `None` is a leaf everywhere: `noneTree` is `.leaf`). -/
theorem ArgsTie_treeUtil :
    Generated.Args.treeWrappers =
      [("tree_flatten_with_path", "tree_flatten_with_path", true), ("tree_leaves", "tree_leaves", true), ("tree_map", "tree_map", true),
       ("tree_map_with_path", "tree_map_with_path", true), ("tree_structure", "tree_structure", true)] ∧
    ∀ (α : Type) (x : α), PyTree.leaves (noneTree x) = [x] := by
  refine ⟨rfl, fun α x => by simp [noneTree, Generated.treeNoneIsLeaf, leaves]⟩

/-- `execute.pytask_execute_task`: dry-run guard, keyword arguments, the call, the return block, `return True` — in this order. -/
theorem ArgsTie_execute_steps :
    Generated.Args.execSteps = [.dryRunGuard, .kwargs, .call, .returnBlock, .returnTrue] := rfl

/-- its keyword arguments — dependencies loaded with `is_product=False`, products with `is_product=True` and only `if name in
parameters`, products winning a name clash — are the model's `kwargsOf`. -/
theorem ArgsTie_kwargs (params : List String) (dependsOn produces : Dict (T (Node V P))) :
    kwargsGen Generated.Args.execDeps Generated.Args.execProds Generated.Args.execProductsWin params dependsOn produces =
      kwargsOf params dependsOn produces := by
  have ht : dependsOn.filter (fun _ => true) = dependsOn := by induction dependsOn with
    | nil => rfl
    | cons a l ih => simp [List.filter, ih]
  simp [kwargsGen, kwargsOf, Generated.Args.execDeps, Generated.Args.execProds, Generated.Args.execProductsWin,
    Generated.productsNeedParameter, ht]

/-- the generator block of `provisional.pytask_execute_task` builds the same keyword arguments. -/
theorem ArgsTie_generator_kwargs (params : List String) (dependsOn produces : Dict (T (Node V P))) :
    kwargsGen Generated.Args.genDeps Generated.Args.genProds Generated.Args.genProductsWin params dependsOn produces =
      kwargsOf params dependsOn produces := by
  have ht : dependsOn.filter (fun _ => true) = dependsOn := by induction dependsOn with
    | nil => rfl
    | cons a l ih => simp [List.filter, ih]
  simp [kwargsGen, kwargsOf, Generated.Args.genDeps, Generated.Args.genProds, Generated.Args.genProductsWin,
    Generated.productsNeedParameter, ht]

section
variable {N W : Type} [DecidableEq N]

/-- Detecting a misfit by the non-strict prefix test before `flatten_up_to`, or only by `flatten_up_to` raising, is the same
thing (`flatten_up_to` succeeds exactly on prefixes); a strict test is not. -/
theorem executeReturnWith_eq (pt : Generated.Args.PrefixTest) (hpt : pt ≠ .explicitStrict) (isProv : N → Bool)
    (canSave : N → T W → Bool) (ret : T N) (out : T W) (s : Store N W) :
    executeReturnWith pt true isProv canSave ret out s = executeReturn isProv canSave ret out s := by
  have hiff : isPrefix false (struct ret) (struct out) = (flattenUpTo (struct ret) out).isSome := by
    simp only [isPrefix, Bool.false_and, Bool.not_false, Bool.and_true, struct, isPrefixNS_map, flattenUpTo_map]
    rw [flattenUpTo_isSome]
  cases pt with
  | explicit => simp [executeReturnWith, executeReturn, Generated.returnPrefixStrict]; rfl
  | explicitStrict => exact absurd rfl hpt
  | viaFlatten =>
    simp only [executeReturnWith, executeReturn, Generated.returnPrefixStrict, ↓reduceIte, hiff]
    cases h : flattenUpTo (struct ret) out <;> simp

/-- The return block of `pytask_execute_task` as extracted (misfit test, `tree_leaves` of the declaration zipped with
`flatten_up_to` of the returned value, `save` per non-provisional leaf) is the model's `executeReturn`. -/
theorem ArgsTie_executeReturn (isProv : N → Bool) (canSave : N → T W → Bool) (ret : T N) (out : T W) (s : Store N W) :
    executeReturnGen isProv canSave ret out s = executeReturn isProv canSave ret out s := by
  have hs : Generated.Args.retSaveSkipsProvisional = true := rfl
  unfold executeReturnGen
  rw [hs]
  exact executeReturnWith_eq Generated.Args.retPrefix (by decide) isProv canSave ret out s

end

end Pytask
