import PytaskProofs.Lemmas.EngineDry
/-!
# C10 — a dry run changes nothing and over-approximates the next build

`build F P cfg w picks` is the engine model M6 (`PytaskModel/Engine.lean`): `P` a statically declared project (no task
generators), `w` the world (`fs`: every regular file the build can read or write — dependencies, products, module
files; `db`: the recorded states in `.pytask`), `picks` the observed schedule, `F` the (arbitrary) body function.
The theorems hold for every schedule the build loop accepts, every recorded state and every file system.
-/
namespace Pytask
open Engine EngineDry

/-- **C10_nolog.** A dry-run build invokes no task function: the body log is empty, for every project, world,
configuration (force, selections, failure limit) and schedule. -/
theorem C10_nolog (F : BodyFn) (P : Project) (cfg : Cfg) (w : World) (picks : List Nat) (r : Result)
    (hdry : cfg.dry = true) (hb : build F P cfg w picks = .ok r) : r.log = [] :=
  (build_dry F P cfg w picks r hdry hb).2

/-- **C10_noworld.** A dry-run build leaves the world exactly as it found it: no file is created, modified or
deleted (`fs`) *and* nothing is recorded (`db`; this is what fix 8d652c5 established — before it a changed task
marked `persist` had its states stored, finding F19). -/
theorem C10_noworld (F : BodyFn) (P : Project) (cfg : Cfg) (w : World) (picks : List Nat) (r : Result)
    (hdry : cfg.dry = true) (hb : build F P cfg w picks = .ok r) : r.w = w :=
  (build_dry F P cfg w picks r hdry hb).1

/-- **C10_nofiles.** The file-system half of `C10_noworld`, stated on its own. -/
theorem C10_nofiles (F : BodyFn) (P : Project) (cfg : Cfg) (w : World) (picks : List Nat) (r : Result)
    (hdry : cfg.dry = true) (hb : build F P cfg w picks = .ok r) : r.w.fs = w.fs := by
  rw [C10_noworld F P cfg w picks r hdry hb]

/-- **C10_noninterf.** Non-interference: whatever build follows a dry run (any configuration `cfg'`, any schedule
`picks'`, even a changed project `P'`) behaves exactly — exit code, outcomes, executed bodies, resulting world — as
it would have behaved had the dry run not taken place. -/
theorem C10_noninterf (F : BodyFn) (P P' : Project) (cfg cfg' : Cfg) (w : World) (picks picks' : List Nat) (d : Result)
    (hdry : cfg.dry = true) (hb : build F P cfg w picks = .ok d) :
    build F P' cfg' d.w picks' = build F P' cfg' w picks' := by
  rw [C10_noworld F P cfg w picks d hdry hb]

/-! ## Non-vacuity -/

/-- 0 ⟶ (20) ⟶ 1 ⟶ (21) ⟶ 2, task 1 marked `persist`, task 3 independent. -/
def c10P : Project := ⟨[{ id := 0, src := 90, deps := [10], prods := [20], after := [] },
                         { id := 1, src := 90, deps := [20], prods := [21], after := [], persist := true },
                         { id := 2, src := 91, deps := [21], prods := [22], after := [] },
                         { id := 3, src := 91, deps := [10], prods := [23], after := [] }]⟩
def c10F : BodyFn := fun t i src ds => t + i + src.getD 0 + ds.length + 1
def c10w : World := ⟨[(10, 5), (90, 1), (91, 2)], []⟩

/-- The hypotheses of `C10_nolog` / `C10_noworld` are satisfiable on a non-trivial project: the dry run over a fresh
project is accepted with the schedule 0,1,2,3 (or 0,3,1,2 …) and announces every task. -/
example : (build c10F c10P { dry := true } c10w [0, 1, 2, 3]).toOption.map (fun r => (r.exit, r.reports.map (·.2), r.complete))
    = some (0, [.wouldBeExecuted, .wouldBeExecuted, .wouldBeExecuted, .wouldBeExecuted], true) := by decide +kernel

/-- … and the following real build does execute all of them. -/
example : (build c10F c10P {} c10w [0, 3, 1, 2]).toOption.map (fun r => (r.log, r.complete)) = some ([0, 3, 1, 2], true) := by
  decide +kernel

end Pytask
