import PytaskProofs.Lemmas.EngineDry
import PytaskProofs.Lemmas.EngineDrySuperset
/-!
# C10 — a dry run changes nothing and over-approximates the next build

`build F P cfg w picks` is the engine model M6 (`PytaskModel/Engine.lean`): `P` a statically declared project (no task
generators), `w` the world (`fs`: every regular file the build can read or write — dependencies, products, module
files; `db`: the recorded states in `.pytask`), `picks` the observed schedule, `F` the (arbitrary) body function.
The theorems hold for every schedule the build loop accepts, every recorded state and every file system.
-/
namespace Pytask
open Engine EngineDry

/-- **C10_nolog.** A dry-run build invokes no task function: the body log is empty, for every project, world,
configuration (force, selections, failure limit) and schedule. -/
theorem C10_nolog (F : BodyFn) (P : Project) (cfg : Cfg) (w : World) (picks : List Nat) (r : Result)
    (hdry : cfg.dry = true) (hb : build F P cfg w picks = .ok r) : r.log = [] :=
  (build_dry F P cfg w picks r hdry hb).2

/-- **C10_noworld.** A dry-run build leaves the world exactly as it found it: no file is created, modified or
deleted (`fs`) *and* nothing is recorded (`db`; this is what fix 8d652c5 established — before it a changed task
marked `persist` had its states stored, finding F19). -/
theorem C10_noworld (F : BodyFn) (P : Project) (cfg : Cfg) (w : World) (picks : List Nat) (r : Result)
    (hdry : cfg.dry = true) (hb : build F P cfg w picks = .ok r) : r.w = w :=
  (build_dry F P cfg w picks r hdry hb).1

/-- **C10_nofiles.** The file-system half of `C10_noworld`, stated on its own. -/
theorem C10_nofiles (F : BodyFn) (P : Project) (cfg : Cfg) (w : World) (picks : List Nat) (r : Result)
    (hdry : cfg.dry = true) (hb : build F P cfg w picks = .ok r) : r.w.fs = w.fs := by
  rw [C10_noworld F P cfg w picks r hdry hb]

/-- **C10_noninterf.** Non-interference: whatever build follows a dry run (any configuration `cfg'`, any schedule
`picks'`, even a changed project `P'`) behaves exactly — exit code, outcomes, executed bodies, resulting world — as
it would have behaved had the dry run not taken place. -/
theorem C10_noninterf (F : BodyFn) (P P' : Project) (cfg cfg' : Cfg) (w : World) (picks picks' : List Nat) (d : Result)
    (hdry : cfg.dry = true) (hb : build F P cfg w picks = .ok d) :
    build F P' cfg' d.w picks' = build F P' cfg' w picks' := by
  rw [C10_noworld F P cfg w picks d hdry hb]

/-- Well-formedness assumed of projects: no task's module file is declared as the product of a task. -/
def C10_srcNotProduct (P : Project) : Prop := ∀ t, t ∈ P.tasks → ∀ u, u ∈ P.tasks → t.src ∉ u.prods

/-- **C10_superset (full strength).** `d` is a complete dry run (no failure limit; all options as in `cfg`) from world
`w`, `r` the immediately following real build with the same options: every task whose body `r` invokes carries the
outcome WOULD_BE_EXECUTED in `d` — for every project, world (fresh, partially built, after failures, after edits),
skip / skipif / persist markers, selections, `force`, and all schedules of both builds. (The real build may execute
*fewer* tasks than announced: it may fail or be limited by `max_failures`; only the dry run must be unlimited.)
Holds since the repair of finding F20 (a task carrying `would_be_executed` is not persisted). -/
theorem C10_superset_full (F : BodyFn) (P : Project) (cfg : Cfg) (w : World) (dp rp : List Nat) (d r : Result)
    (hreal : cfg.dry = false) (hmf : cfg.maxFail = none) (hwf : C10_srcNotProduct P)
    (hd : build F P { cfg with dry := true } w dp = .ok d) (hc : d.complete = true)
    (hr : build F P cfg d.w rp = .ok r) :
    ∀ t, t ∈ r.log → (t, Outcome.wouldBeExecuted) ∈ d.reports := by
  rw [C10_noworld F P _ w dp d rfl hd] at hr
  intro t ht
  have hpick : t ∈ rp := by
    rcases build_cases F P cfg w rp r hr with ⟨_, _, hlog, _⟩ | ⟨g, marks, so, so', s, _, hso, hl, _, hlog, _, _⟩
    · rw [hlog] at ht; cases ht
    · obtain ⟨_, l, hsub, _, hl'⟩ := C01_once F P cfg g so so' _ s rp hso hl
      rw [hlog, hl'] at ht
      exact hsub.subset (by simpa using ht)
  exact (build_Q hreal (Or.inl hmf) hwf hd hc hr t hpick).2.2 ht

/-- **C10_superset_limit.** The same with ANY failure limit (`max_failures`, `stop_after_first_failure`) on both builds,
provided the dry run reports no FAIL (in a dry run a task fails only when a dependency is missing at setup): a failure
limit counts failed tasks, so it must not cut the announcement — WOULD_BE_EXECUTED reports never trip it. -/
theorem C10_superset_limit (F : BodyFn) (P : Project) (cfg : Cfg) (w : World) (dp rp : List Nat) (d r : Result)
    (hreal : cfg.dry = false) (hnofail : ∀ t, (t, Outcome.fail) ∉ d.reports) (hwf : C10_srcNotProduct P)
    (hd : build F P { cfg with dry := true } w dp = .ok d) (hc : d.complete = true)
    (hr : build F P cfg d.w rp = .ok r) :
    ∀ t, t ∈ r.log → (t, Outcome.wouldBeExecuted) ∈ d.reports := by
  rw [C10_noworld F P _ w dp d rfl hd] at hr
  intro t ht
  have hpick : t ∈ rp := by
    rcases build_cases F P cfg w rp r hr with ⟨_, _, hlog, _⟩ | ⟨g, marks, so, so', s, _, hso, hl, _, hlog, _, _⟩
    · rw [hlog] at ht; cases ht
    · obtain ⟨_, l, hsub, _, hl'⟩ := C01_once F P cfg g so so' _ s rp hso hl
      rw [hlog, hl'] at ht
      exact hsub.subset (by simpa using ht)
  exact (build_Q hreal (Or.inr hnofail) hwf hd hc hr t hpick).2.2 ht

/-- Former finding F20 witness: 0 ⟶ (20) ⟶ 1, task 1 marked `persist`; everything was built once, then file 20 was tampered. -/
def f20P : Project := ⟨[{ id := 0, src := 90, deps := [10], prods := [20], after := [] },
                        { id := 1, src := 90, deps := [20], prods := [21], after := [], persist := true }]⟩
def f20F : BodyFn := fun t i src ds => t + i + src.getD 0 + ds.foldl (fun a d => a + d.getD 0) 1
def f20w : World :=
  match build f20F f20P {} ⟨[(10, 5), (90, 1)], []⟩ [0, 1] with
  | .ok r => { r.w with fs := Engine.insert r.w.fs 20 999 }
  | .error _ => ⟨[], []⟩

/-- Non-vacuity on the former F20 witness: the forced dry run now announces task 1, and the forced build executes it. -/
example : (build f20F f20P { force := true, dry := true } f20w [0, 1]).toOption.map (fun d => (d.reports.map (·.2), d.complete)) =
    some ([.wouldBeExecuted, .wouldBeExecuted], true) := by decide +kernel
example : (build f20F f20P { force := true } f20w [0, 1]).toOption.map (·.log) = some [0, 1] := by decide +kernel

/-- **C10_failures.** Failure / skip propagation: a task the complete dry run reports as
SKIP is reported SKIP by the real build (if it gets that far), and a task the dry run reports as FAIL (a dependency is
missing at setup) or SKIP_PREVIOUS_FAILED is, in the real build, skipped, skipped because of a failed ancestor, or
fails — it is never reported as successful or persisted or unchanged. -/
theorem C10_failures (F : BodyFn) (P : Project) (cfg : Cfg) (w : World) (dp rp : List Nat) (d r : Result)
    (hreal : cfg.dry = false) (hmf : cfg.maxFail = none) (hwf : C10_srcNotProduct P)
    (hd : build F P { cfg with dry := true } w dp = .ok d) (hc : d.complete = true)
    (hr : build F P cfg d.w rp = .ok r) (t : Nat) (ht : t ∈ rp) :
    ((t, Outcome.skip) ∈ d.reports → (t, Outcome.skip) ∈ r.reports) ∧
    (((t, Outcome.fail) ∈ d.reports ∨ (t, Outcome.skipPrevFailed) ∈ d.reports) →
      (t, Outcome.skip) ∈ r.reports ∨ (t, Outcome.skipPrevFailed) ∈ r.reports ∨ (t, Outcome.fail) ∈ r.reports) := by
  rw [C10_noworld F P _ w dp d rfl hd] at hr
  have := build_Q hreal (Or.inl hmf) hwf hd hc hr t ht
  exact ⟨this.1, this.2.1⟩

/-! ## Non-vacuity -/

/-- 0 ⟶ (20) ⟶ 1 ⟶ (21) ⟶ 2, task 1 marked `persist`, task 3 independent. -/
def c10P : Project := ⟨[{ id := 0, src := 90, deps := [10], prods := [20], after := [] },
                         { id := 1, src := 90, deps := [20], prods := [21], after := [], persist := true },
                         { id := 2, src := 91, deps := [21], prods := [22], after := [] },
                         { id := 3, src := 91, deps := [10], prods := [23], after := [] }]⟩
def c10F : BodyFn := fun t i src ds => t + i + src.getD 0 + ds.foldl (fun a d => a + d.getD 0) 1
def c10w : World := ⟨[(10, 5), (90, 1), (91, 2)], []⟩

/-- The hypotheses of `C10_nolog` / `C10_noworld` are satisfiable on a non-trivial project: the dry run over a fresh
project is accepted with the schedule 0,1,2,3 (or 0,3,1,2 …) and announces every task. -/
example : (build c10F c10P { dry := true } c10w [0, 1, 2, 3]).toOption.map (fun r => (r.exit, r.reports.map (·.2), r.complete))
    = some (0, [.wouldBeExecuted, .wouldBeExecuted, .wouldBeExecuted, .wouldBeExecuted], true) := by decide +kernel

/-- … and the following real build does execute all of them. -/
example : (build c10F c10P {} c10w [0, 3, 1, 2]).toOption.map (fun r => (r.log, r.complete)) = some ([0, 3, 1, 2], true) := by
  decide +kernel

/-- The hypotheses of `C10_superset_full` are satisfiable on that project (no `force`, a `persist` task present): the
dry run is complete, the real build executes all four tasks and all four were announced. -/
example : C10_srcNotProduct c10P := by unfold C10_srcNotProduct; decide
example : (build c10F c10P { dry := true } c10w [0, 3, 1, 2]).toOption.map (·.complete) = some true := by decide +kernel

/-- … and in a state where the superset is proper: after a full build the input 10 changes; the dry run announces all
four tasks (0 and 3 changed, 1 and 2 descend from 0); the real build executes 0 and 3 only: task 1 (`persist`) is then
persisted and task 2 found unchanged. -/
def c10w2 : World :=
  match build c10F c10P {} c10w [0, 3, 1, 2] with
  | .ok r => { r.w with fs := Engine.insert r.w.fs 10 6 }
  | .error _ => ⟨[], []⟩
example : (build c10F c10P { dry := true } c10w2 [0, 3, 1, 2]).toOption.map (fun r => (r.reports.map (·.2), r.complete)) =
    some ([.wouldBeExecuted, .wouldBeExecuted, .wouldBeExecuted, .wouldBeExecuted], true) := by decide +kernel
example : (build c10F c10P {} c10w2 [0, 3, 1, 2]).toOption.map (fun r => (r.reports.map (·.2), r.log)) =
    some ([.success, .success, .persistence, .skipUnchanged], [0, 3]) := by decide +kernel

/-- Non-vacuity of `C10_superset_limit`: with `max_failures = 1` the dry run over the fresh project still announces all
four tasks (no FAIL), is complete, and the limited real build executes all of them. -/
example : (build c10F c10P { dry := true, maxFail := some 1 } c10w [0, 3, 1, 2]).toOption.map
    (fun r => (r.reports.map (·.2), r.complete)) =
    some ([.wouldBeExecuted, .wouldBeExecuted, .wouldBeExecuted, .wouldBeExecuted], true) := by decide +kernel
example : (build c10F c10P { maxFail := some 1 } c10w [0, 3, 1, 2]).toOption.map (·.log) = some [0, 3, 1, 2] := by decide +kernel

end Pytask
