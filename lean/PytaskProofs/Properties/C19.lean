import PytaskProofs.Lemmas.Sorter
import PytaskProofs.Lemmas.Graph
/-!
# C19 — try_first / try_last priorities are honoured among ready tasks

Property theorems only. The scheduler's answer to `get_ready(n)` is `readyWith s enum n` for the
(hash-seed dependent) enumeration `enum` of the ready set; all statements quantify over every
enumeration, every `n`, every sorter state.
-/
namespace Pytask
namespace Sorter
open Pytask.G

/-- **C19_batch.** Whatever order the ready set is iterated in, the batch handed out consists of
ready tasks only, has the requested size (or everything that is ready), nothing left behind
outranks anything taken, and the batch is ascending by priority (consumers `pop()` from the
right). -/
theorem C19_batch (s : Sorter) (hn : s.nodes.Nodup) (enum : List Nat) (hp : enum.Perm s.avail)
    (n : Nat) : LegalBatch s n (s.readyWith enum n) := by
  unfold readyWith
  simp only [Generated.readySliceLast, Generated.readySortReversed, Bool.false_eq_true, ↓reduceIte]
  generalize hso : isort s.prio enum = sorted
  have hperm : sorted.Perm s.avail := by
    rw [← hso]; exact (isort_perm _ _).trans hp
  have hsorted : sorted.Pairwise (fun a b => s.prio a ≤ s.prio b) := by
    rw [← hso]; exact isort_sorted _ _
  have hnd : sorted.Nodup := (hperm.nodup_iff).2 (avail_nodup s hn)
  have hlen : sorted.length = s.avail.length := hperm.length_eq
  have hsplit := List.take_append_drop (sorted.length - n) sorted
  refine ⟨List.Pairwise.sublist (List.drop_sublist _ _) hnd, ?_, ?_, ?_,
          List.Pairwise.sublist (List.drop_sublist _ _) hsorted⟩
  · intro x hx; exact hperm.mem_iff.1 (List.mem_of_mem_drop hx)
  · rw [List.length_drop, hlen]; omega
  · intro x hx y hy hyb
    have hys : y ∈ sorted := hperm.mem_iff.2 hy
    rw [← hsplit] at hys hsorted
    rcases List.mem_append.1 hys with h | h
    · exact (List.pairwise_append.1 hsorted).2.2 y h x hx
    · exact absurd h hyb

/-- **C19_first** (`n = 1`, the built-in executor): if some ready task is `try_first`
(priority 1, the maximum), the task handed out is `try_first` as well. More generally the pick
has maximal priority among all ready tasks. -/
theorem C19_pick_max (s : Sorter) (hn : s.nodes.Nodup) (enum : List Nat)
    (hp : enum.Perm s.avail) (x : Nat) (hx : s.readyWith enum 1 = [x]) :
    x ∈ s.avail ∧ ∀ y ∈ s.avail, s.prio y ≤ s.prio x := by
  have h := C19_batch s hn enum hp 1
  rw [hx] at h
  obtain ⟨_, hsub, _, hmax, _⟩ := h
  refine ⟨hsub x (by simp), ?_⟩
  intro y hy
  by_cases hyx : y = x
  · subst hyx; omega
  · exact hmax x (by simp) y hy (by simpa using hyx)

theorem C19_first (s : Sorter) (hn : s.nodes.Nodup) (enum : List Nat) (hp : enum.Perm s.avail)
    (x y : Nat) (hx : s.readyWith enum 1 = [x]) (hy : y ∈ s.avail) (hfirst : s.prio y = 1)
    (hrange : ∀ v, s.prio v ≤ 1) : s.prio x = 1 := by
  have := (C19_pick_max s hn enum hp x hx).2 y hy
  have := hrange x
  omega

/-- **C19_last**: a `try_last` task (priority −1, the minimum) is handed out only when every ready
task is `try_last`. -/
theorem C19_last (s : Sorter) (hn : s.nodes.Nodup) (enum : List Nat) (hp : enum.Perm s.avail)
    (x : Nat) (hx : s.readyWith enum 1 = [x]) (hlast : s.prio x = -1)
    (hrange : ∀ v, -1 ≤ s.prio v) : ∀ y ∈ s.avail, s.prio y = -1 := by
  intro y hy
  have := (C19_pick_max s hn enum hp x hx).2 y hy
  have := hrange y
  omega

/-- A non-empty ready set always yields a pick (no starvation by priorities). -/
theorem C19_progress (s : Sorter) (enum : List Nat) (hp : enum.Perm s.avail) (n : Nat)
    (hpos : 0 < n) (hne : s.avail ≠ []) : s.readyWith enum n ≠ [] := by
  unfold readyWith
  simp only [Generated.readySliceLast, Generated.readySortReversed, Bool.false_eq_true, ↓reduceIte]
  generalize hso : isort s.prio enum = sorted
  have hlen : sorted.length = s.avail.length := by
    rw [← hso]; exact ((isort_perm _ _).trans hp).length_eq
  have : 0 < s.avail.length := List.length_pos_iff.2 hne
  intro h
  have := congrArg List.length h
  simp [List.length_drop] at this
  omega

/-- **C19_deps**: priorities never make a task with an unfinished ancestor ready — availability
does not mention `prio` at all. -/
theorem C19_deps (s : Sorter) (p' : Nat → Int) : ({ s with prio := p' } : Sorter).avail = s.avail := rfl

/-- **C19_reject**: a task carrying both marks has no priority; collection rejects it. -/
theorem C19_reject : prioOf true true = none := by decide
theorem C19_table : prioOf true false = some 1 ∧ prioOf false false = some 0 ∧
    prioOf false true = some (-1) := by decide

/-- The decidable check used by the correspondence driver is exactly `LegalBatch`. -/
theorem C19_checker (s : Sorter) (n : Nat) (b : List Nat) :
    legalBatchB s n b = true ↔ LegalBatch s n b := legalBatchB_iff s n b

/-- Non-vacuity: a concrete state with three ready tasks of priorities 1, 0, −1. -/
def exS : Sorter := { nodes := [1, 2, 3, 4], edges := [(1, 4)], prio := fun v => if v = 1 then 1 else if v = 3 then -1 else 0,
                      processing := [], done := [] }
example : exS.nodes.Nodup ∧ exS.avail = [1, 2, 3] ∧ exS.readyWith [3, 2, 1] 1 = [1] ∧
    exS.readyWith [2, 3, 1] 2 = [2, 1] := by decide

/-! ## History level: a waiting task is never overtaken by a lower priority -/

/-- Runs of a driver over one sorter (no re-creation): any batch sizes, any completion order;
`h` is everything handed out since the start state. -/
inductive Run : Sorter → Sorter → List Nat → Prop
  | nil (s : Sorter) : Run s s []
  | ready {s s' h} (n : Nat) (b : List Nat) : Run s s' h → LegalBatch s' n b → Run s (s'.take b) (h ++ b)
  | done {s s' h} (xs : List Nat) : Run s s' h → Run s (s'.finish xs) h

/-- **C19_waiting.** Once a task `x` is ready it stays ready until it is handed out, and every task
handed out while `x` waits has a priority at least `x`'s — for every batch size, every set
iteration order (`LegalBatch`), every completion order, any number of steps. So a ready
`try_first` task is never overtaken by a default or `try_last` task, and a `try_last` task is
started while another task waits only if that one is `try_last` too. -/
theorem C19_waiting {s s' : Sorter} {h : List Nat} (hr : Run s s' h) (x : Nat) (hx : x ∈ s.avail)
    (hnot : x ∉ h) (hnd : x ∉ s'.done) :
    x ∈ s'.avail ∧ s'.prio = s.prio ∧ ∀ y ∈ h, s.prio x ≤ s.prio y := by
  induction hr with
  | nil => exact ⟨hx, rfl, by simp⟩
  | @ready s' h n b _ hb ih =>
    have hxh : x ∉ h := fun hm => hnot (List.mem_append_left _ hm)
    have hxb : x ∉ b := fun hm => hnot (List.mem_append_right _ hm)
    obtain ⟨hav, hp, hall⟩ := ih hxh hnd
    refine ⟨?_, hp, ?_⟩
    · have := mem_avail.1 hav
      refine mem_avail.2 ⟨this.1, ?_, ?_⟩
      · simpa [take, indeg0] using this.2.1
      · simp only [take, List.mem_append, not_or]; exact ⟨this.2.2, hxb⟩
    · intro y hy
      rcases List.mem_append.1 hy with hy | hy
      · exact hall y hy
      · have := hb.2.2.2.1 y hy x hav hxb
        rw [hp] at this; exact this
  | @done s' h xs _ ih =>
    have hnd' : x ∉ s'.done ∧ x ∉ xs := by
      simpa [finish, List.mem_append, not_or] using hnd
    obtain ⟨hav, hp, hall⟩ := ih hnot hnd'.1
    refine ⟨?_, hp, hall⟩
    have hm := mem_avail.1 hav
    refine mem_avail.2 ⟨mem_finish_nodes.2 ⟨hm.1, hnd'.2⟩, ?_, ?_⟩
    · rw [indeg0_iff] at *
      intro a ha
      exact hm.2.1 a (by simp only [finish] at ha; exact (List.mem_filter.1 ha).1)
    · intro hc
      simp only [finish] at hc
      exact hm.2.2 (List.mem_filter.1 hc).1

/-- Corollary for the two marks: while a `try_first` task waits, only `try_first` tasks start. -/
theorem C19_first_not_overtaken {s s' : Sorter} {h : List Nat} (hr : Run s s' h) (x : Nat)
    (hx : x ∈ s.avail) (hnot : x ∉ h) (hnd : x ∉ s'.done) (hfirst : s.prio x = 1)
    (hrange : ∀ v, s.prio v ≤ 1) : ∀ y ∈ h, s.prio y = 1 := by
  intro y hy
  have := (C19_waiting hr x hx hnot hnd).2.2 y hy
  have := hrange y
  omega

/-- … and a `try_last` task is started while `x` waits only if `x` is `try_last` as well. -/
theorem C19_last_waits {s s' : Sorter} {h : List Nat} (hr : Run s s' h) (x y : Nat)
    (hx : x ∈ s.avail) (hnot : x ∉ h) (hnd : x ∉ s'.done) (hy : y ∈ h) (hlast : s.prio y = -1)
    (hrange : ∀ v, -1 ≤ s.prio v) : s.prio x = -1 := by
  have := (C19_waiting hr x hx hnot hnd).2.2 y hy
  have := hrange x
  omega

/-- Non-vacuity of `Run`: from `exS` (ready: 1 `try_first`, 2 default, 3 `try_last`) hand out `[1]`,
complete it (4 becomes ready), hand out `[4]` — task 3 waits throughout and is still ready. -/
example : Run exS (((exS.take [1]).finish [1]).take [4]) ([] ++ [1] ++ [4]) ∧
    3 ∈ exS.avail ∧ 3 ∈ (((exS.take [1]).finish [1]).take [4]).avail := by
  refine ⟨?_, by decide, by decide⟩
  refine Run.ready 1 [4] (Run.done [1] (Run.ready 1 [1] (Run.nil exS) ?_)) ?_
  · exact (legalBatchB_iff _ _ _).1 (by decide)
  · exact (legalBatchB_iff _ _ _).1 (by decide)

/-! ## Priorities never stall the scheduler -/

/-- Acyclicity of the remaining task graph, by a rank function. -/
def Ranked (s : Sorter) (rank : Nat → Nat) : Prop :=
  ∀ a x, (a, x) ∈ s.edges → a ∈ s.nodes ∧ rank a < rank x

/-- **C19_no_deadlock.** In an acyclic scheduler state (`Ranked`: a strict rank along every remaining
edge, whose source is a remaining task) with tasks left and nothing handed out but unfinished,
the ready set is not empty — with `C19_progress`, `get_ready(n)` then returns a task whatever the
priorities are: priorities reorder ready tasks, they never stall the build. -/
theorem C19_no_deadlock (s : Sorter) (rank : Nat → Nat)
    (hacyc : Ranked s rank)
    (hne : s.nodes ≠ []) (hidle : s.processing = []) : s.avail ≠ [] := by
  obtain ⟨x, hx, hmin⟩ := exists_min_rank rank s.nodes hne
  have : x ∈ s.avail := by
    refine mem_avail.2 ⟨hx, indeg0_iff.2 ?_, by simp [hidle]⟩
    intro a ha
    have := hacyc a x ha
    have := hmin a this.1
    omega
  intro h; rw [h] at this; cases this


/-- `Ranked` is preserved by handing out and by completing tasks, hence along every `Run`. -/
theorem C19_ranked_take {s : Sorter} {rank : Nat → Nat} (b : List Nat) (h : Ranked s rank) :
    Ranked (s.take b) rank := h

theorem C19_ranked_finish {s : Sorter} {rank : Nat → Nat} (xs : List Nat) (h : Ranked s rank) :
    Ranked (s.finish xs) rank := by
  intro a x he
  simp only [finish, List.mem_filter, Bool.and_eq_true, Bool.not_eq_true',
    List.contains_eq_mem, decide_eq_false_iff_not] at he
  have := h a x he.1
  exact ⟨mem_finish_nodes.2 ⟨this.1, he.2.1⟩, this.2⟩


theorem C19_ranked_run {s s' : Sorter} {h : List Nat} {rank : Nat → Nat} (hr : Run s s' h)
    (h0 : Ranked s rank) : Ranked s' rank := by
  induction hr with
  | nil => exact h0
  | ready n b _ _ ih => exact C19_ranked_take b ih
  | done xs _ ih => exact C19_ranked_finish xs ih

/-- After any run from an acyclic state: tasks left and none in flight ⇒ `get_ready(n)`, `n > 0`,
hands out a task, for every set-iteration order. -/
theorem C19_run_never_stalls {s s' : Sorter} {h : List Nat} {rank : Nat → Nat} (hr : Run s s' h)
    (h0 : Ranked s rank) (hne : s'.nodes ≠ []) (hidle : s'.processing = []) (enum : List Nat)
    (hp : enum.Perm s'.avail) (n : Nat) (hpos : 0 < n) : s'.readyWith enum n ≠ [] :=
  C19_progress s' enum hp n hpos (C19_no_deadlock s' rank (C19_ranked_run hr h0) hne hidle)

/-- Non-vacuity: `exS` is ranked by the identity (its only edge is 1 → 4). -/
example : Ranked exS id := by
  intro a x he
  have : (a, x) = (1, 4) := by simpa [exS] using he
  cases this; exact ⟨by decide, by decide⟩


/-- `from_dag` of a well-formed acyclic graph (it rejects cyclic ones) starts in a `Ranked` state: the rank
function of `C09_hasCycle_false_iff_hasRank` orders every task-ancestor edge. -/
theorem C19_fromDag_ranked {full : G} {isTask : Nat → Bool} {prio : Nat → Int} {f : Sorter}
    (h : fromDag full isTask prio = .ok f) (wf : WF full) : ∃ rank, Ranked f rank := by
  have hc : full.hasCycle = false := by
    unfold fromDag at h
    split at h
    · cases h
    · rename_i hc; simpa using hc
  obtain ⟨r, hr⟩ := (hasCycle_false_iff_hasRank wf).1 hc
  refine ⟨r, ?_⟩
  intro a x he
  have hm := (fromDag_edges h a x).1 he
  have hreach := (mem_anc_iff.1 hm.2.2.1).1
  refine ⟨?_, hreach.rank_lt hr⟩
  rw [fromDag_nodes h]
  refine List.mem_filter.2 ⟨?_, hm.2.2.2⟩
  cases hreach with
  | edge h => exact (wf _ h).1
  | step h _ => exact (wf _ h).1

/-- **C19_build_never_stalls.** From `from_dag` on, over every run of batches and completions: while tasks are
left and none is in flight, `get_ready(n)` hands out a task — for all priorities and set orders. -/
theorem C19_build_never_stalls {full : G} {isTask : Nat → Bool} {prio : Nat → Int} {f s' : Sorter}
    {hh : List Nat} (h : fromDag full isTask prio = .ok f) (wf : G.WF full) (hr : Run f s' hh)
    (hne : s'.nodes ≠ []) (hidle : s'.processing = []) (enum : List Nat) (hp : enum.Perm s'.avail)
    (n : Nat) (hpos : 0 < n) : s'.readyWith enum n ≠ [] := by
  obtain ⟨rank, hrk⟩ := C19_fromDag_ranked h wf
  exact C19_run_never_stalls hr hrk hne hidle enum hp n hpos

end Sorter
end Pytask
