-- TIE-PROPS: C12
-- TIE-SECTION: extract_hashsrc
import PytaskModel.HashGen
/-!
# HashTie — the hand-written fingerprint model M4 equals the fingerprint code computed from the source

`HashValue.lean` (the model under the theorems of C12) writes out by hand what `hash_value`, the `signature` properties,
`_get_state` / `hash_path` / `Cache.memoize`, `PythonNode.state` and the dependency wrapper of `collect_dependency` do.
`harness/extract_hashsrc.py` reads the same from the tree under check — by symbolic evaluation of the functions' ASTs —
into `Generated.Hsrc.*`, and `HashGen.lean` interprets that data.  The theorems below say that, **for all arguments**,
the interpreters return what the hand-written definitions return.  Their proofs unfold the generated terms, so a source
change that alters an extracted term (another order of `isinstance` tests that changes a result, a dropped class, a
separator, `value.name` for `str(value)`, a dropped / added / reordered signature field, `name or path`, a memo key without
the modification time, `lstat` for `stat`, a digest over part of the file, a wrapper that forgets `hash`, …) makes this
module fail to compile, or makes the translator fail closed; either is reported as PROOF-BROKEN for C12.
-/
namespace Pytask
open Pytask.Hash Pytask.Hash.Gen Pytask.Generated

variable (sha md5 : Bytes → Str)

theorem strOfV_ofHV (h : HV) : strOfV (ofHV h) = h.render := by cases h <;> rfl
theorem toHV_ofHV (h : HV) : toHV (ofHV h) = h := by cases h <;> rfl

theorem joinSep_nil' (l : List Str) : joinSep [] l = l.flatten := by
  induction l with
  | nil => rfl
  | cons x xs ih =>
    cases xs with
    | nil => simp [joinSep]
    | cons y r => simp [joinSep, ih]

@[simp] theorem strOfV_str (s : Str) : strOfV (.str s) = s := rfl
@[simp] theorem strOfV_path (s : Str) : strOfV (.path s) = s := rfl
@[simp] theorem strOfV_int (i : Int) : strOfV (.int i) = decInt i := rfl
@[simp] theorem bytesOfV_bytes (b : Bytes) : bytesOfV (.bytes b) = b := rfl

theorem zip_render' (xs : List PyVal) :
    (xs.zip (xs.map (hashValue sha))).map (fun p => p.2.render) = hashRenders sha xs := by
  induction xs with
  | nil => rfl
  | cons x xs ih => simp only [List.map_cons, List.zip_cons_cons, hashRenders, ih]

theorem zip_render (xs : List PyVal) :
    (xs.zip (xs.map (hashValue sha))).map (fun p => strOfV (ofHV p.2)) = hashRenders sha xs := by
  have e : (fun p : PyVal × HV => strOfV (ofHV p.2)) = fun p => p.2.render := by
    funext p; exact strOfV_ofHV _
  rw [e]; exact zip_render' sha xs

mutual
theorem hashValueGen_eq : ∀ v : PyVal, hashValueGen sha md5 v = hashValue sha v
  | .tuple xs => by
    have ih := hashListGen_eq xs
    simp [hashValueGen, rowOf, Hsrc.hashValueTable, eval, isArg, isElem, seqElems, toHV,
      hashValue, Generated.hashSeqSep, ih, zip_render]
  | .list xs => by
    have ih := hashListGen_eq xs
    simp [hashValueGen, rowOf, Hsrc.hashValueTable, eval, isArg, isElem, seqElems, toHV,
      hashValue, Generated.hashSeqSep, ih, zip_render]
  | .none => by simp [hashValueGen, rowOf, Hsrc.hashValueTable, eval, toHV, hashValue, Generated.hashNoneConst]
  | .bool b => by simp [hashValueGen, rowOf, Hsrc.hashValueTable, eval, toHV, hashValue, builtinHash]
  | .int i => by simp [hashValueGen, rowOf, Hsrc.hashValueTable, eval, toHV, hashValue, builtinHash]
  | .float h => by simp [hashValueGen, rowOf, Hsrc.hashValueTable, eval, toHV, hashValue, builtinHash]
  | .str s => by simp [hashValueGen, rowOf, Hsrc.hashValueTable, eval, toHV, hashValue]
  | .bytes b => by simp [hashValueGen, rowOf, Hsrc.hashValueTable, eval, toHV, hashValue]
  | .path p => by simp [hashValueGen, rowOf, Hsrc.hashValueTable, eval, toHV, hashValue]
theorem hashListGen_eq : ∀ xs : List PyVal, hashListGen sha md5 xs = xs.map (hashValue sha)
  | [] => rfl
  | x :: xs => by simp [hashListGen, hashValueGen_eq x, hashListGen_eq xs]
end


theorem hashValueGen_fun : hashValueGen sha md5 = hashValue sha := funext (hashValueGen_eq sha md5)

/-! signatures -/
theorem sigTaskGen_eq (base path : Str) : sigTaskGen sha md5 base path = sigTask sha base path := by
  simp [sigTaskGen, sigGen, Hsrc.sigTask, eval, evalCat, isElem, hashValueGen_fun, strOfV_ofHV,
    sigTask, sigOf, rawKey, Generated.sigTaskFields]

theorem sigTaskWithoutPathGen_eq (name : Str) :
    sigTaskWithoutPathGen sha md5 name = sigTaskWithoutPath sha name := by
  simp [sigTaskWithoutPathGen, sigGen, Hsrc.sigTaskWithoutPath, eval, isElem, hashValueGen_fun, strOfV_ofHV,
    sigTaskWithoutPath, sigOf, rawKey, Generated.sigTaskWithoutPathFields]

theorem sigPathNodeGen_eq (name path : Str) : sigPathNodeGen sha md5 name path = sigPathNode sha name path := by
  simp [sigPathNodeGen, sigGen, Hsrc.sigPathNode, eval, isElem, hashValueGen_fun, strOfV_ofHV,
    sigPathNode, sigOf, rawKey, Generated.sigPathNodeFields]

theorem sigPickleNodeGen_eq (name path : Str) :
    sigPickleNodeGen sha md5 name path = sigPickleNode sha name path := by
  simp [sigPickleNodeGen, sigGen, Hsrc.sigPickleNode, eval, isElem, hashValueGen_fun, strOfV_ofHV,
    sigPickleNode, sigOf, rawKey, Generated.sigPickleNodeFields]

theorem sigDirNodeGen_eq (name : Str) (root : Option Str) (pattern : Str) :
    sigDirNodeGen sha md5 name root pattern = sigDirNode sha name root pattern := by
  simp [sigDirNodeGen, sigGen, Hsrc.sigDirNode, eval, evalCat, isElem, hashValueGen_fun, strOfV_ofHV,
    sigDirNode, sigOf, rawKey, Generated.sigDirNodeFields]

theorem sigPythonNodeGen_eq (ni : Option NodeInfo) : sigPythonNodeGen sha md5 ni = sigPythonNode sha ni := by
  cases ni with
  | none =>
    simp [sigPythonNodeGen, sigGen, Hsrc.sigPythonNode, eval, isElem, hashValueGen_fun, strOfV_ofHV,
      sigPythonNode, envPythonNodeGen, truthy]
  | some i =>
    simp [sigPythonNodeGen, sigGen, Hsrc.sigPythonNode, eval, evalCat, isElem, hashValueGen_fun, strOfV_ofHV,
      sigPythonNode, sigOf, rawKey, Generated.sigPythonNodeFields, envPythonNodeGen, truthy]

/-! memo / state of files -/
theorem memoKeyGen_eq (path : Str) (mh : Int) : memoKeyGen sha md5 path mh = memoKey sha md5 path mh := by
  simp [memoKeyGen, Hsrc.memoKeyExpr, eval, evalCat, isElem, hashValueGen_fun, strOfV_ofHV,
    memoKey, rawKey, Generated.memoKeyFields, envMemo]

theorem hashPathGen_eq (content : Bytes) : hashPathGen sha md5 content = sha content := by
  simp [hashPathGen, Hsrc.hashPathExpr, eval]

theorem stateOfFileGen_eq (memo : Memo) (path : Str) (file : Option (Int × Bytes)) :
    stateOfFileGen sha md5 memo path file = stateOfFile sha md5 memo path file := by
  cases file with
  | none => rfl
  | some f =>
    obtain ⟨mh, c⟩ := f
    simp only [stateOfFileGen, stateOfFile, Hsrc.memoizeShape, memoKeyGen_eq, hashPathGen_eq]
    cases memo.get (memoKey sha md5 path mh) <;> rfl

/-! PythonNode -/
theorem statePythonNodeGen_eq (h : HashOpt) (value : Option PyVal) :
    statePythonNodeGen sha md5 h value = statePythonNodeOpt sha h value := by
  cases value <;> cases h <;>
    simp [statePythonNodeGen, Hsrc.pythonNodeState, pnTree, pnCond, pnRes, statePythonNodeOpt, hashValueGen_eq]

theorem wrapDependencyGen_eq (n : PNode) : wrapDependencyGen n = wrapDependency n := by
  simp [wrapDependencyGen, wrapDependency, wrapperKeeps, Hsrc.dependencyWrapper, Hsrc.pythonNodeFields]

theorem stateWrapperGen_eq (w : PWrapper) : stateWrapperGen sha md5 w = stateWrapper sha w := by
  obtain ⟨h, inner⟩ := w
  cases h <;> cases hv : inner.value <;>
    simp [stateWrapperGen, Hsrc.pythonNodeState, Hsrc.pythonNodeLoadUnwraps, pnTree, pnCond, pnRes, stateWrapper,
      hashValueGen_eq, hv]

/-- the `NodeInfo` of a dependency argument is wired as the hand model says (task identified by its module path) -/
theorem depNodeInfoGen_eq (s : ArgSite) : nodeInfoGen Hsrc.depNodeInfo s = nodeInfoOfArg s := by
  simp [nodeInfoGen, Hsrc.depNodeInfo, niLookup, niStr, niPath, niTree, nodeInfoOfArg]

/-- … and so is the `NodeInfo` of a product argument -/
theorem prodNodeInfoGen_eq (s : ArgSite) : nodeInfoGen Hsrc.prodNodeInfo s = nodeInfoOfArg s := by
  simp [nodeInfoGen, Hsrc.prodNodeInfo, niLookup, niStr, niPath, niTree, nodeInfoOfArg]

/-- the node that replaces a container of unhashed values carries the `NodeInfo` of its parameter (F41 repaired) -/
theorem mergedNodeInfoGen_eq (s : ArgSite) : mergedNodeInfoGen s = nodeInfoOfMerged s := by
  simp [mergedNodeInfoGen, Hsrc.mergedNodeInfo, nodeInfoGen, niLookup, niStr, niPath, niTree, nodeInfoOfMerged]

/-- what the model's world abstraction presupposes about `_get_state` -/
theorem getState_interface :
    Hsrc.getStateStatCall = "stat" ∧ Hsrc.getStateKeyAttr = "st_mtime" ∧
    Hsrc.getStateMissingExc = "FileNotFoundError" ∧ Hsrc.getStateHashPathArgs = ["path", "mtime"] := by decide

end Pytask
