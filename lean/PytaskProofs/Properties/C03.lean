import PytaskProofs.Lemmas.EngineInv
import PytaskProofs.Lemmas.StateExit
import PytaskProofs.Lemmas.EngineExample
import PytaskProofs.Lemmas.StateStructural
import PytaskProofs.Lemmas.StateUPath
/-!
# C03 — nothing is re-executed unless something it depends on changed

Model: M6 (`PytaskModel/Engine.lean`). A file's *state* is its content id (sha256 collision freedom
is trusted), so statements are about contents only: time stamps do not occur in the model (the
`(path, mtime)` memo of `hash_path`, finding F4, is the subject of C12), and dependency sets are
static (directory patterns, finding F11, are the subject of C18).
-/
namespace Pytask
open Engine

/-- **C03_step.** In a build without `--force`: if, at the moment task `t` is set up, every neighbour
of `t` in the build graph (its dependencies, the products of its `after` targets, its own module,
its products) exists and has the content recorded in `t`'s rows, then the protocol of `t` neither
invokes the body nor changes any file or row — whatever the marks, the selection, `--dry-run`,
`max_failures`, other tasks' outcomes and (since they are not part of the state) time stamps. -/
theorem C03_step (F : BodyFn) (P : Project) (g : G) (cfg : Cfg) (s : Sess) (t : TaskSpec)
    (hforce : cfg.force = false) (hrows : RowsMatch P g s.w t.id) :
    (protocol F P g cfg s t).log = s.log ∧ (protocol F P g cfg s t).w = s.w := by
  have hq := setupChain_rowsMatch P g cfg s t hforce hrows Generated.setupOrder (by decide)
  exact ⟨(protocol_quiet F P g cfg s t hq).2, (protocol_quiet F P g cfg s t hq).1⟩

/-- **C03_history.** `RowsMatch` only mentions the contents of `t`'s neighbours and `t`'s own rows:
if these are as in some earlier world `w₀` in which `t`'s rows matched (e.g. right after `t`'s last
successful or persisted run), then — whatever else happened in between: edits of unrelated files,
other tasks running, upstream tasks re-running to identical outputs, touched files — `t` is not
executed. -/
theorem C03_history (F : BodyFn) (P : Project) (g : G) (cfg : Cfg) (s : Sess) (t : TaskSpec) (w₀ : World)
    (hforce : cfg.force = false) (h₀ : RowsMatch P g w₀ t.id)
    (hsame : ∀ v ∈ neighbours g t.id, stateOf P s.w v = stateOf P w₀ v ∧ row s.w.db t.id v = row w₀.db t.id v) :
    (protocol F P g cfg s t).log = s.log ∧ (protocol F P g cfg s t).w = s.w := by
  apply C03_step F P g cfg s t hforce
  intro v hv
  obtain ⟨h, h1, h2⟩ := h₀ v hv
  exact ⟨h, by rw [(hsame v hv).1, h1], by rw [(hsame v hv).2, h2]⟩

/-- **rows_cover_neighbours.** After a protocol that ended in SUCCESS, PERSISTENCE or SKIP_UNCHANGED
(outside a dry-run) *every* neighbour of the task in the build graph — dependencies, products of
`after` targets, the module, all products — has a row equal to its current state. (A declaration
style whose node missed its row would make the next build re-run the task.) -/
theorem C03_rows_cover_neighbours (F : BodyFn) (P : Project) (cfg : Cfg) (g : G) (marks : List Nat)
    (s : Sess) (t : TaskSpec) (hwf : WF P) (hdag : createDag P cfg = .ok (g, marks)) (ht : t ∈ P.tasks)
    (hdry : cfg.dry = false)
    (hgood : outcomeOf (runPhases F P g cfg s t).1 = .success ∨
             outcomeOf (runPhases F P g cfg s t).1 = .persistence ∨
             outcomeOf (runPhases F P g cfg s t).1 = .skipUnchanged) :
    RowsMatch P g (protocol F P g cfg s t).w t.id :=
  good_rowsMatch F P g cfg s t (graphOK_of_createDag hwf hdag) ht hdry hgood

/-- **C03_repeat.** Let a (non-dry) build — any options, any legal schedule — report every task of
the project as SUCCESS, PERSISTENCE or SKIP_UNCHANGED. Then *any* following build without `--force`
on the world it left behind (no edits in between; any other options: selections, dry-run, failure
limits; any legal schedule, i.e. any hash seed) invokes no task body and changes neither files nor
rows. In particular an immediately repeated successful build executes nothing. -/
theorem C03_repeat (F : BodyFn) (P : Project) (cfg1 cfg2 : Cfg) (w : World) (picks1 picks2 : List Nat)
    (r1 r2 : Result) (hwf : WF P)
    (h1 : build F P cfg1 w picks1 = .ok r1) (hdry : cfg1.dry = false)
    (hall : ∀ t ∈ P.tasks, (t.id, Outcome.success) ∈ r1.reports ∨ (t.id, Outcome.persistence) ∈ r1.reports ∨
      (t.id, Outcome.skipUnchanged) ∈ r1.reports)
    (hforce : cfg2.force = false) (h2 : build F P cfg2 r1.w picks2 = .ok r2) :
    r2.log = [] ∧ r2.w = r1.w := by
  rcases build_cases h2 with ⟨hw, hl, _, _⟩ | ⟨g2, marks2, so2, so2', s2, hdag2, hso2, hloop2, hw2, hl2, _, _, _⟩
  · exact ⟨hl, hw⟩
  · have hrows : ∀ t ∈ P.tasks, RowsMatch P g2 r1.w t.id := by
      intro t ht
      rcases build_cases h1 with ⟨_, _, hr, _⟩ | ⟨g1, marks1, so1, so1', s1, hdag1, hso1, hloop1, hw1, _, hr1, _, _⟩
      · rw [hr] at hall
        rcases hall t ht with h | h | h <;> cases h
      · have hgeq : g1 = g2 := by rw [(createDag_ok hdag1).1, (createDag_ok hdag2).1]
        subst hgeq
        have hg := graphOK_of_createDag hwf hdag1
        rw [hw1]
        rw [hr1] at hall
        rcases hall t ht with h | h | h
        · exact (final_rowsMatch hwf hg hdry hso1 hloop1 rfl _ h (Or.inl rfl)).1
        · exact (final_rowsMatch hwf hg hdry hso1 hloop1 rfl _ h (Or.inr (Or.inl rfl))).1
        · exact (final_rowsMatch hwf hg hdry hso1 hloop1 rfl _ h (Or.inr (Or.inr rfl))).1
    obtain ⟨h3, h4⟩ := quiet_buildLoop F P g2 cfg2 r1.w hforce hrows picks2 so2 so2' _ s2 rfl hloop2
    exact ⟨by rw [hl2, h4], by rw [hw2, h3]⟩

/-- **C03_repeat_exit0** (the headline form). A non-dry build that ran to its natural end, returned
exit code 0 and skipped no task (no skip markers hit, nothing deselected) is followed by silence:
any later non-forced build of the world it left, with any options and any schedule, executes
nothing and changes nothing. -/
theorem C03_repeat_exit0 (F : BodyFn) (P : Project) (cfg1 cfg2 : Cfg) (w : World) (picks1 picks2 : List Nat)
    (r1 r2 : Result) (hwf : WF P)
    (h1 : build F P cfg1 w picks1 = .ok r1) (hexit : r1.exit = 0) (hcomplete : r1.complete = true)
    (hdry : cfg1.dry = false) (hnoskip : ∀ e ∈ r1.reports, e.2 ≠ Outcome.skip)
    (hforce : cfg2.force = false) (h2 : build F P cfg2 r1.w picks2 = .ok r2) :
    r2.log = [] ∧ r2.w = r1.w :=
  C03_repeat F P cfg1 cfg2 w picks1 picks2 r1 r2 hwf h1 hdry
    (all_good_of_exit0 hwf h1 hexit hcomplete hdry hnoskip) hforce h2

/-- **C03_history_structural** (across project edits). Let the rows of `t` have matched in a world
`w₁` of an earlier project `P₁` (graph `g₁`) — e.g. at the end of a build that reported `t` SUCCESS,
PERSISTENCE or SKIP_UNCHANGED.  Afterwards tasks may be added, removed or rewired (`P₂`, `g₂`) and
files edited.  If the edits did not touch `t` — every neighbour `t` has now was a neighbour then, each
has the state it had (contents; time stamps are not part of the state) and `t`'s rows are as they
were — then in a non-forced build of `P₂` the protocol of `t` neither invokes the body nor changes
anything.  (Neighbours may even have been *dropped*: that is finding F11b seen from C03's side.) -/
theorem C03_history_structural (F : BodyFn) (P₁ P₂ : Project) (g₁ g₂ : G) (cfg : Cfg) (s : Sess) (t : TaskSpec)
    (w₁ : World) (hforce : cfg.force = false) (h₁ : RowsMatch P₁ g₁ w₁ t.id)
    (hnb : ∀ v ∈ neighbours g₂ t.id, v ∈ neighbours g₁ t.id)
    (hsame : ∀ v ∈ neighbours g₂ t.id,
      stateOf P₂ s.w v = stateOf P₁ w₁ v ∧ row s.w.db t.id v = row w₁.db t.id v) :
    (protocol F P₂ g₂ cfg s t).log = s.log ∧ (protocol F P₂ g₂ cfg s t).w = s.w := by
  apply C03_step F P₂ g₂ cfg s t hforce
  intro v hv
  obtain ⟨h, h1, h2⟩ := h₁ v (hnb v hv)
  exact ⟨h, by rw [(hsame v hv).1, h1], by rw [(hsame v hv).2, h2]⟩

/-- **C03_history_build** (whole build, every legal schedule). In a non-forced build of the current
project from world `w`: if the rows of `t` match at the start of the build and, when `t`'s turn comes
(after the picks `pre`), every neighbour of `t` still has the state it had at the start — tasks picked
earlier did not run, or re-ran to identical outputs, or are unrelated (added, removed, rewired
elsewhere) — then the protocol of `t` does not invoke its body and changes nothing. -/
theorem C03_history_build (F : BodyFn) (P : Project) (cfg : Cfg) (w : World) (g : G) (marks : List Nat)
    (so so' so1 : Sorter) (s' s1 : Sess) (pre post : List Nat) (t : Nat) (spec : TaskSpec)
    (hwf : WF P) (hforce : cfg.force = false)
    (hdag : createDag P cfg = .ok (g, marks)) (hso : Sorter.fromDag g isTaskV (prioFn P) = .ok so)
    (hloop : buildLoop F P g cfg so { w := w, skipMarks := marks } (pre ++ t :: post) = .ok (so', s'))
    (hpre : buildLoop F P g cfg so { w := w, skipMarks := marks } pre = .ok (so1, s1))
    (hfind : Project.find? P t = some spec)
    (hrows : RowsMatch P g w t)
    (hstable : ∀ v ∈ neighbours g t, stateOf P s1.w v = stateOf P w v) :
    (protocol F P g cfg s1 spec).log = s1.log ∧ (protocol F P g cfg s1 spec).w = s1.w := by
  have hid : spec.id = t := find?_id hfind
  obtain ⟨hnd, _⟩ := picks_order (graphOK_of_createDag hwf hdag) hso hloop
  have htpre : t ∉ pre := by
    intro h
    exact (List.nodup_append.1 hnd).2.2 t h t (by simp) rfl
  apply C03_step F P g cfg s1 spec hforce
  rw [hid]
  intro v hv
  obtain ⟨h, h1, h2⟩ := hrows v hv
  exact ⟨h, by rw [hstable v hv, h1], by rw [buildLoop_db_frame t pre hpre htpre v]; exact h2⟩

open Pytask.Hash in
/-- **C03_upath_touch** (node kind outside M6: a `UPath` with a protocol). A touch-only edit gives the file a new modification time
and leaves its bytes (and its ETag, if the file system has one) alone. The state does not change: with an ETag it *is* the ETag;
without one it is `hash_path(path, mtime)`, whose memo is keyed by the time but whose value is the digest of the bytes (the local-file
lemma of C12, for memos coherent with the file system before and after the touch). Hence `RowsMatch` survives the touch and the task
is not executed. (Which expression the code uses is `Generated.upathNoEtagKind`, read from `nodes._get_state`.) -/
theorem C03_upath_touch (sha md5 : Bytes → Str) (memo memo' : Memo) (W W' : Hash.World)
    (hc : MemoCoherent sha md5 memo W) (hc' : MemoCoherent sha md5 memo' W')
    (p : Str) (etag : Option Str) (mh mh' : Int) (c : Bytes)
    (hp : W p = some (mh, c)) (hp' : W' p = some (mh', c)) :
    (upathStateOf sha md5 memo p (some (etag, mh, c))).2 = (upathStateOf sha md5 memo' p (some (etag, mh', c))).2 := by
  cases etag with
  | some e => rfl
  | none =>
    rw [upathStateOf_noEtag, upathStateOf_noEtag, stateOfFile_coherent sha md5 memo W hc p mh c hp,
        stateOfFile_coherent sha md5 memo' W' hc' p mh' c hp']

/-! ## non-vacuity (project `exP`: input 10 → task 0 → 20 → task 1 → 21, 22; see `Lemmas/EngineExample.lean`) -/

/-- The hypotheses of `C03_repeat` hold for the first build of the example project; hence every
later non-forced build of the world it left executes nothing. -/
example : ∀ (cfg2 : Cfg) (picks2 : List Nat) (r2 : Result), cfg2.force = false →
    build exF exP cfg2 exR1.w picks2 = .ok r2 → r2.log = [] ∧ r2.w = exR1.w := by
  intro cfg2 picks2 r2 hf h2
  refine C03_repeat exF exP {} cfg2 exW [0, 1] picks2 exR1 r2 exWF exBuild1 rfl ?_ hf h2
  intro t ht
  rcases mem_exP ht with rfl | rfl <;> (left; decide)

/-- The same through the exit code: `exR1` has exit code 0, is complete and skipped nothing. -/
example : ∀ (picks2 : List Nat) (r2 : Result), build exF exP {} exR1.w picks2 = .ok r2 → r2.log = [] :=
  fun picks2 r2 h2 =>
    (C03_repeat_exit0 exF exP {} {} exW [0, 1] picks2 exR1 r2 exWF exBuild1 rfl rfl rfl (by decide) rfl h2).1

/-- … and the claim is not empty: the first build did execute both tasks, a build after an edit of
the input executes both again, a build after an edit of task 1's module executes task 1 only
(task 0 is reported unchanged), and a forced build re-executes everything. -/
example : exR1.log = [0, 1] ∧ exR2.log = [0, 1] ∧ exR3.log = [1] ∧
    (match build exF exP { force := true } exR1.w [0, 1] with | .ok r => r.log | .error _ => []) = [0, 1] := by
  decide

/-- `C03_history_structural` on concrete data: the rows of task 0 matched after the second build of
`exP`; then task 1 was rewired and its module edited (`exP'`, `exW3`); task 0 is untouched by that, so
its protocol in a build of the new project runs nothing — and indeed the third build's log is `[1]`. -/
example : (protocol exF exP' (modifyDag exP' (baseGraph exP')) {} { w := exW3 } exT0).log = [] ∧ exR3'.log = [1] := by
  have hn1 : neighbours (modifyDag exP (baseGraph exP)) 0 = [21, 0, 41] := by decide
  have hn2 : neighbours (modifyDag exP' (baseGraph exP')) 0 = [21, 0, 41] := by decide
  refine ⟨(C03_history_structural exF exP exP' (modifyDag exP (baseGraph exP)) (modifyDag exP' (baseGraph exP')) {}
    { w := exW3 } exT0 exR2.w rfl ?_ ?_ ?_).1, rfl⟩
  · intro v hv
    rw [show exT0.id = 0 from rfl, hn1] at hv
    simp only [List.mem_cons, List.mem_nil_iff, or_false] at hv
    rcases hv with rfl | rfl | rfl
    · exact ⟨6, by decide, by decide⟩
    · exact ⟨1, by decide, by decide⟩
    · exact ⟨7, by decide, by decide⟩
  · intro v hv
    rw [show exT0.id = 0 from rfl, hn2] at hv
    rw [show exT0.id = 0 from rfl, hn1]; exact hv
  · intro v hv
    rw [show exT0.id = 0 from rfl, hn2] at hv
    simp only [List.mem_cons, List.mem_nil_iff, or_false] at hv
    rcases hv with rfl | rfl | rfl <;> exact ⟨by decide, by decide⟩

open Pytask.Hash in
/-- `C03_upath_touch` on concrete data: first state call with an empty memo at time 1, then a touch (time 2) and a state call with
the memo the first call left: both give the digest of the unchanged bytes. -/
example (sha md5 : Bytes → Str) :
    (upathStateOf sha md5 {} ['i', 'n'] (some (none, 1, [65]))).2 =
    (upathStateOf sha md5 {} ['i', 'n'] (some (none, 2, [65]))).2 := by
  rw [upathStateOf_noEtag, upathStateOf_noEtag, stateOfFile_some, stateOfFile_some]
  simp only [Memo.get_empty]

end Pytask
