import PytaskProofs.Lemmas.EngineProtocol
/-!
# C03 — nothing is re-executed unless something it depends on changed

Model: M6 (`PytaskModel/Engine.lean`). A file's *state* is its content id (sha256 collision freedom
is trusted), so statements are about contents only: time stamps do not occur in the model (the
`(path, mtime)` memo of `hash_path`, finding F4, is the subject of C12), and dependency sets are
static (directory patterns, finding F11, are the subject of C18).
-/
namespace Pytask
open Engine

/-- **C03_step.** In a build without `--force`: if, at the moment task `t` is set up, every neighbour
of `t` in the build graph (its dependencies, the products of its `after` targets, its own module,
its products) exists and has the content recorded in `t`'s rows, then the protocol of `t` neither
invokes the body nor changes any file or row — whatever the marks, the selection, `--dry-run`,
`max_failures`, other tasks' outcomes and (since they are not part of the state) time stamps. -/
theorem C03_step (F : BodyFn) (P : Project) (g : G) (cfg : Cfg) (s : Sess) (t : TaskSpec)
    (hforce : cfg.force = false) (hrows : RowsMatch P g s.w t.id) :
    (protocol F P g cfg s t).log = s.log ∧ (protocol F P g cfg s t).w = s.w := by
  have hq := setupChain_rowsMatch P g cfg s t hforce hrows Generated.setupOrder (by decide)
  exact ⟨(protocol_quiet F P g cfg s t hq).2, (protocol_quiet F P g cfg s t hq).1⟩

/-- **C03_history.** `RowsMatch` only mentions the contents of `t`'s neighbours and `t`'s own rows:
if these are as in some earlier world `w₀` in which `t`'s rows matched (e.g. right after `t`'s last
successful or persisted run), then — whatever else happened in between: edits of unrelated files,
other tasks running, upstream tasks re-running to identical outputs, touched files — `t` is not
executed. -/
theorem C03_history (F : BodyFn) (P : Project) (g : G) (cfg : Cfg) (s : Sess) (t : TaskSpec) (w₀ : World)
    (hforce : cfg.force = false) (h₀ : RowsMatch P g w₀ t.id)
    (hsame : ∀ v ∈ neighbours g t.id, stateOf P s.w v = stateOf P w₀ v ∧ row s.w.db t.id v = row w₀.db t.id v) :
    (protocol F P g cfg s t).log = s.log ∧ (protocol F P g cfg s t).w = s.w := by
  apply C03_step F P g cfg s t hforce
  intro v hv
  obtain ⟨h, h1, h2⟩ := h₀ v hv
  exact ⟨h, by rw [(hsame v hv).1, h1], by rw [(hsame v hv).2, h2]⟩

end Pytask
