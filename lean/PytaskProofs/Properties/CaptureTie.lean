-- TIE-PROPS: C14 C15
-- TIE-SECTION: extract_capgen
import PytaskModel.CaptureGen
import PytaskProofs.Lemmas.Capture
/-!
# CaptureTie — the hand-written capture model M10 equals the capture objects computed from the source

`Capture.lean` (the model under the theorems of C14 and C15) writes out by hand what every method of `SysCapture`,
`FDCapture`, `MultiCapture` and `CaptureManager` does. `harness/extract_capgen.py` reads the same information from
`_pytask/capture.py` of the tree under check into `Generated.Cap.*`, and `CaptureGen.lean` interprets that data. The
theorems below say that, **for all arguments**, the interpreters return what the hand-written definitions return. Their
proofs unfold the generated terms, so a source change that alters an extracted fact — a dropped `write_through=True` or
`newline=""`, a `snap()` that no longer empties its buffer, a dropped or moved `os.dup2`, `suspend()` forgetting a stream, a
changed guard in `stop_capturing`, `readouterr` reading the wrong capture, … — makes this module fail to compile: the
properties proved over `Capture.*` then no longer speak about the code and the checks report PROOF-BROKEN for C14 and C15.
(The statement order of `task_capture`, `pytask_post_parse`, the `collect_log` wrapper, the section labels, the
`_get_multicapture` table and the hook orders are consumed by `Capture.lean` directly — `extract_capture.py`.)

Not recorded on purpose: the mutual order of the three captures inside the `MultiCapture` methods (they act on disjoint
descriptors / streams), local variable names, `truncate(0)` vs `seek(0); truncate()`.
-/
namespace Pytask
open Capture Capture.Gen Generated.Cap

/-! ### `SysCaptureBase` / `SysCapture` -/

theorem CaptureTie_sys_start (w : W) (c : SysCap) : sysStartGen w c = SysCap.start w c := by
  cases c with | mk name old tmp state => cases state <;> rfl

theorem CaptureTie_sys_done (w : W) (c : SysCap) : sysDoneGen w c = SysCap.done w c := by
  cases c with | mk name old tmp state => cases state <;> cases old <;> rfl

theorem CaptureTie_sys_suspend (w : W) (c : SysCap) : sysSuspendGen w c = SysCap.suspend w c := by
  cases c with | mk name old tmp state => cases state <;> cases old <;> rfl

theorem CaptureTie_sys_resume (w : W) (c : SysCap) : sysResumeGen w c = SysCap.resume w c := by
  cases c with | mk name old tmp state => cases state <;> rfl

theorem CaptureTie_sys_writeorg (w : W) (c : SysCap) (d : Data) : sysWriteorgGen w c d = SysCap.writeorg w c d := by
  cases c with | mk name old tmp state => cases state <;> cases old <;> rfl

/-- `SysCapture.snap` returns the whole buffer and leaves it empty. -/
theorem CaptureTie_sys_snap (w : W) (c : SysCap) : sysSnapGen w c = SysCap.snap w c := by
  cases c with | mk name old tmp state => cases state <;> cases tmp <;> rfl

private theorem sysMeth_start : sysMeth "start" = SysCap.start := by funext w c; exact CaptureTie_sys_start w c
private theorem sysMeth_done : sysMeth "done" = SysCap.done := by funext w c; exact CaptureTie_sys_done w c
private theorem sysMeth_suspend : sysMeth "suspend" = SysCap.suspend := by funext w c; exact CaptureTie_sys_suspend w c
private theorem sysMeth_resume : sysMeth "resume" = SysCap.resume := by funext w c; exact CaptureTie_sys_resume w c

/-! ### `FDCaptureBase` / `FDCapture` -/

/-- `FDCaptureBase.__init__`: probe, `os.dup`, the temporary file's flags (`buffering=0`, UTF-8, `errors="replace"`,
`newline=""`, `write_through=True`) and the attached sys-level capture are what the model's constructor assumes. -/
theorem CaptureTie_fd_init (w : W) (target : Nat) : fdInitGen w target = FdCap.init w target := by
  have : fdInitFactsOk = true := by decide
  simp [fdInitGen, this]

/-- `start()` on an open temporary file. -/
theorem CaptureTie_fd_start (w : W) (c : FdCap) (f : Nat) (h : w.os.fd c.pyfd = some f) : fdStartGen w c = FdCap.start w c := by
  cases c with | mk target save invalid tmp pyfd sysc state =>
  simp only at h
  cases state <;>
    simp [fdStartGen, fdStart, runFd, FdCap.start, h, stateIn, stateOf?, arg1, sysMeth_start]

theorem CaptureTie_fd_done (w : W) (c : FdCap) : fdDoneGen w c = FdCap.done w c := by
  cases c with | mk target save invalid tmp pyfd sysc state =>
  cases state <;> cases invalid <;>
    simp [fdDoneGen, fdDone, runFd, FdCap.done, stateIn, stateOf?, arg1, sysMeth_done]

theorem CaptureTie_fd_suspend (w : W) (c : FdCap) : fdSuspendGen w c = FdCap.suspend w c := by
  cases c with | mk target save invalid tmp pyfd sysc state =>
  cases state <;>
    simp [fdSuspendGen, fdSuspend, runFd, FdCap.suspend, stateIn, stateOf?, arg1, sysMeth_suspend]

/-- `resume()` on an open temporary file. -/
theorem CaptureTie_fd_resume (w : W) (c : FdCap) (f : Nat) (h : w.os.fd c.pyfd = some f) : fdResumeGen w c = FdCap.resume w c := by
  cases c with | mk target save invalid tmp pyfd sysc state =>
  simp only at h
  cases state <;>
    simp [fdResumeGen, fdResume, runFd, FdCap.resume, h, stateIn, stateOf?, arg1, sysMeth_resume]

/-- The order inside `resume()` (17032a6, finding F6c): when the temporary file was closed by the task, `fileno()` raises
BEFORE the Python-level capture is installed — `sys.std*` are left as they are. (With `syscapture.resume()` first, the closed
file would be installed as `sys.stdout`.) -/
theorem CaptureTie_fd_resume_closed (w : W) (c : FdCap) (hs : c.state = .suspended) (h : w.os.fd c.pyfd = none) :
    (fdResumeGen w c).1.py = w.py ∧ (fdResumeGen w c).1.os = w.os ∧ (fdResumeGen w c).1.fault = true := by
  cases c with | mk target save invalid tmp pyfd sysc state =>
  simp only at h hs
  subst hs
  simp [fdResumeGen, fdResume, runFd, h, stateIn, stateOf?, arg1, W.fail]

theorem CaptureTie_fd_writeorg (w : W) (c : FdCap) (d : Data) : fdWriteorgGen w c d = FdCap.writeorg w c d := by
  cases c with | mk target save invalid tmp pyfd sysc state => cases state <;> rfl

/-- `FDCapture.snap` returns the whole file, read from its start through the text layer, and leaves it empty. -/
theorem CaptureTie_fd_snap (w : W) (c : FdCap) : fdSnapGen w c = FdCap.snap w c := by
  cases c with | mk target save invalid tmp pyfd sysc state => cases state <;> rfl

/-! ### `MultiCapture` -/

private theorem capMeth_start (w : W) (c : Cap) (h : ∀ f, c = .fd f → ∃ x, w.os.fd f.pyfd = some x) :
    capMeth "start" w c = Cap.start w c := by
  cases c with
  | sys s => simp [capMeth, Cap.start, sysMeth_start]
  | fd f => obtain ⟨x, hx⟩ := h f rfl; simp [capMeth, Cap.start, CaptureTie_fd_start w f x hx]

private theorem capMeth_done (w : W) (c : Cap) : capMeth "done" w c = Cap.done w c := by
  cases c with
  | sys s => simp [capMeth, Cap.done, sysMeth_done]
  | fd f => simp [capMeth, Cap.done, CaptureTie_fd_done]

private theorem capMeth_suspend (w : W) (c : Cap) : capMeth "suspend" w c = Cap.suspend w c := by
  cases c with
  | sys s => simp [capMeth, Cap.suspend, sysMeth_suspend]
  | fd f => simp [capMeth, Cap.suspend, CaptureTie_fd_suspend]

private theorem optCap_done (w : W) (c : Option Cap) : optCap (capMeth "done") w c = optCap Cap.done w c := by
  cases c <;> simp [optCap, capMeth_done]
private theorem optCap_suspend (w : W) (c : Option Cap) : optCap (capMeth "suspend") w c = optCap Cap.suspend w c := by
  cases c <;> simp [optCap, capMeth_suspend]

/-- `suspend_capturing(in_)`: stdout and stderr are always suspended, stdin only on request, and then remembered. -/
theorem CaptureTie_mc_suspend (w : W) (m : MC) (in_ : Bool) : mcSuspendGen w m in_ = MC.suspendCapturing w m in_ := by
  simp [mcSuspendGen, MC.suspendCapturing, plainStep, entry, mcSuspend, mcSuspendState, mcSuspendExtra, mcStateOf?, optCap_suspend]

/-- `stop_capturing()`: raises when already stopped; otherwise ALL three captures are finished — stdin also while it is
suspended. -/
theorem CaptureTie_mc_stop (w : W) (m : MC) : mcStopGen w m = MC.stopCapturing w m := by
  simp [mcStopGen, MC.stopCapturing, plainStep, entry, mcStop, mcStopState, mcStopExtra, mcStateOf?, optCap_done]

/-- `readouterr()`: stdout from `out`, stderr from `err`. -/
theorem CaptureTie_mc_readouterr (w : W) (m : MC) : mcReadouterrGen w m = MC.readouterr w m := by
  have hs : ∀ (w : W) (c : Option Cap), snapOptGen w c = MC.snapOpt w c := by
    intro w c
    cases c with
    | none => rfl
    | some c => cases c <;> simp [snapOptGen, MC.snapOpt, capSnapGen, Cap.snap, CaptureTie_sys_snap, CaptureTie_fd_snap]
  simp [mcReadouterrGen, MC.readouterr, mcReadouterr, hs]

theorem CaptureTie_mc_pop (w : W) (m : MC) : mcPopGen w m = MC.popOuterrToOrig w m := by
  have hw : ∀ (w : W) (d : Data) (c : Cap), capWriteorgGen w d c = Cap.writeorg w d c := by
    intro w d c; cases c <;> simp [capWriteorgGen, Cap.writeorg, CaptureTie_sys_writeorg, CaptureTie_fd_writeorg]
  unfold mcPopGen MC.popOuterrToOrig
  simp only [mcPop, CaptureTie_mc_readouterr, hw]
  rfl

/-- The captures of a MultiCapture are built for the standard descriptors (`target < 3`), their temporary files live on
descriptors ≥ 3 and are open — true from construction until `done()` unless a task closed the file (finding F6c). -/
def Separate (w : W) (m : MC) : Prop :=
  ∀ c ∈ [m.in_, m.out, m.err], ∀ f, c = some (.fd f) → f.target < 3 ∧ 3 ≤ f.pyfd ∧ ∃ x, w.os.fd f.pyfd = some x

private theorem sys_os (g : W → SysCap → W × SysCap) (hg : g = SysCap.start ∨ g = SysCap.resume) (w : W) (s : SysCap) :
    (g w s).1.os = w.os := by
  rcases hg with rfl | rfl <;> cases s with | mk n o t st => cases st <;> rfl

private theorem optSys_os (g : W → SysCap → W × SysCap) (hg : g = SysCap.start ∨ g = SysCap.resume) (w : W) (s : Option SysCap) :
    (optSys g w s).1.os = w.os := by
  cases s with
  | none => rfl
  | some s => exact sys_os g hg w s

/-- `start()` / `resume()` of one capture leave every descriptor ≥ 3 alone when the capture's target is a standard descriptor -/
private theorem cap_frame (meth : String) (hm : meth = "start" ∨ meth = "resume") (w : W) (c : Cap)
    (ht : ∀ f, c = .fd f → f.target < 3) (j : Nat) (hj : 3 ≤ j) :
    ((if meth = "start" then Cap.start w c else Cap.resume w c)).1.os.fd j = w.os.fd j := by
  cases c with
  | sys s =>
    rcases hm with rfl | rfl
    · simp [Cap.start]; rw [sys_os _ (Or.inl rfl)]
    · simp [Cap.resume]; rw [sys_os _ (Or.inr rfl)]
  | fd f =>
    have h3 := ht f rfl
    cases f with | mk target save invalid tmp pyfd sysc state =>
    simp only at h3
    rcases hm with rfl | rfl
    · cases state <;> simp [Cap.start, FdCap.start, W.fail]
      rw [optSys_os _ (Or.inl rfl)]
      simp only [OS.dup2]; split
      · rfl
      · rw [OS.fd_setFd, if_neg (by omega)]
    · cases state <;> simp [Cap.resume, FdCap.resume, W.fail]
      rw [optSys_os _ (Or.inr rfl)]
      simp only [OS.dup2]; split
      · rfl
      · rw [OS.fd_setFd, if_neg (by omega)]

private theorem capMeth_resume (w : W) (c : Cap) (h : ∀ f, c = .fd f → ∃ x, w.os.fd f.pyfd = some x) :
    capMeth "resume" w c = Cap.resume w c := by
  cases c with
  | sys s => simp [capMeth, Cap.resume, sysMeth_resume]
  | fd f => obtain ⟨x, hx⟩ := h f rfl; simp [capMeth, Cap.resume, CaptureTie_fd_resume w f x hx]

private theorem optCap_start (w : W) (c : Option Cap) (h : ∀ f, c = some (.fd f) → ∃ x, w.os.fd f.pyfd = some x) :
    optCap (capMeth "start") w c = optCap Cap.start w c := by
  cases c with
  | none => rfl
  | some c => simp [optCap, capMeth_start w c (fun f hf => h f (by rw [hf]))]

private theorem optCap_resume (w : W) (c : Option Cap) (h : ∀ f, c = some (.fd f) → ∃ x, w.os.fd f.pyfd = some x) :
    optCap (capMeth "resume") w c = optCap Cap.resume w c := by
  cases c with
  | none => rfl
  | some c => simp [optCap, capMeth_resume w c (fun f hf => h f (by rw [hf]))]

private theorem optCap_frame (start : Bool) (w : W) (c : Option Cap) (ht : ∀ f, c = some (.fd f) → f.target < 3) (j : Nat) (hj : 3 ≤ j) :
    (optCap (if start then Cap.start else Cap.resume) w c).1.os.fd j = w.os.fd j := by
  cases c with
  | none => rfl
  | some c =>
    have := cap_frame (if start then "start" else "resume") (by cases start <;> simp) w c (fun f hf => ht f (by rw [hf])) j hj
    cases start <;> simpa [optCap] using this

/-- `start_capturing()`: all three captures are started. -/
theorem CaptureTie_mc_start (w : W) (m : MC) (h : Separate w m) : mcStartGen w m = MC.startCapturing w m := by
  have hi := h m.in_ (by simp); have ho := h m.out (by simp); have he := h m.err (by simp)
  have e1 := optCap_start w m.in_ (fun f hf => (hi f hf).2.2)
  have f1 : ∀ j, 3 ≤ j → (optCap Cap.start w m.in_).1.os.fd j = w.os.fd j :=
    fun j hj => optCap_frame true w m.in_ (fun f hf => (hi f hf).1) j hj
  have e2 := optCap_start (optCap Cap.start w m.in_).1 m.out (fun f hf => by
    obtain ⟨_, b, x, hx⟩ := ho f hf; exact ⟨x, by rw [f1 _ b, hx]⟩)
  have f2 : ∀ j, 3 ≤ j → (optCap Cap.start (optCap Cap.start w m.in_).1 m.out).1.os.fd j = w.os.fd j :=
    fun j hj => by
      have := optCap_frame true (optCap Cap.start w m.in_).1 m.out (fun f hf => (ho f hf).1) j hj
      simp only [if_true] at this; rw [this, f1 j hj]
  have e3 := optCap_start (optCap Cap.start (optCap Cap.start w m.in_).1 m.out).1 m.err (fun f hf => by
    obtain ⟨_, b, x, hx⟩ := he f hf; exact ⟨x, by rw [f2 _ b, hx]⟩)
  simp [mcStartGen, MC.startCapturing, plainStep, entry, mcStart, mcStartState, mcStartExtra, mcStateOf?, e1, e2, e3]

/-- `resume_capturing()`: stdout and stderr are resumed, stdin exactly when it was suspended. -/
theorem CaptureTie_mc_resume (w : W) (m : MC) (h : Separate w m) : mcResumeGen w m = MC.resumeCapturing w m := by
  have hi := h m.in_ (by simp); have ho := h m.out (by simp); have he := h m.err (by simp)
  have e1 := optCap_resume w m.out (fun f hf => (ho f hf).2.2)
  have f1 : ∀ j, 3 ≤ j → (optCap Cap.resume w m.out).1.os.fd j = w.os.fd j :=
    fun j hj => optCap_frame false w m.out (fun f hf => (ho f hf).1) j hj
  have e2 := optCap_resume (optCap Cap.resume w m.out).1 m.err (fun f hf => by
    obtain ⟨_, b, x, hx⟩ := he f hf; exact ⟨x, by rw [f1 _ b, hx]⟩)
  have f2 : ∀ j, 3 ≤ j → (optCap Cap.resume (optCap Cap.resume w m.out).1 m.err).1.os.fd j = w.os.fd j :=
    fun j hj => by
      have := optCap_frame false (optCap Cap.resume w m.out).1 m.err (fun f hf => (he f hf).1) j hj
      simp only [Bool.false_eq_true, if_false] at this; rw [this, f1 j hj]
  simp only [mcResumeGen, MC.resumeCapturing, plainStep, entry, mcResume, mcResumeState, mcResumeExtra, mcStateOf?]
  simp [e1, e2]
  cases hin : m.in_ with
  | none => simp
  | some c =>
    have e3 := capMeth_resume (optCap Cap.resume (optCap Cap.resume w m.out).1 m.err).1 c (fun f hf => by
      obtain ⟨_, b, x, hx⟩ := hi f (by rw [hin, hf]); exact ⟨x, by rw [f2 _ b, hx]⟩)
    simp [e3]

/-! ### `CaptureManager` -/

private theorem mkCapGen_eq (w : W) (ctor : String × Nat) : mkCapGen w ctor = mkCap w ctor := by
  unfold mkCapGen mkCap
  split <;> simp_all [CaptureTie_fd_init]

theorem CaptureTie_get_multicapture (w : W) (m : Method) : getMulticaptureGen w m = getMulticapture w m := by
  unfold getMulticaptureGen getMulticapture
  cases h : ctorsOf m with
  | nil => rfl
  | cons a l =>
    cases l with
    | nil => rfl
    | cons b l =>
      cases l with
      | nil => rfl
      | cons c l => cases l <;> simp [mkCapGen_eq]

/-- `CaptureManager.start_capturing`, given that the captures `_get_multicapture` builds are separate (they are, from a process
with descriptors 0-2 open: `getMulticapture_fd` in Lemmas/Capture.lean). -/
theorem CaptureTie_cm_start (w : W) (c : CM)
    (h : Separate (getMulticapture w c.method).1 (getMulticapture w c.method).2) : cmStartGen w c = CM.startCapturing w c := by
  cases hc : c.capturing with
  | some m => simp [cmStartGen, cmStart, runCm, CM.startCapturing, hc]
  | none =>
    simp [cmStartGen, cmStart, runCm, CM.startCapturing, hc, CaptureTie_get_multicapture, CaptureTie_mc_start _ _ h]

/-- `CaptureManager.stop_capturing` (02ab3fe): pop, then — in a `finally` — stop and forget the MultiCapture. -/
theorem CaptureTie_cm_stop (w : W) (c : CM) : cmStopGen w c = CM.stopCapturing w c := by
  cases hc : c.capturing <;>
    simp [cmStopGen, cmStop, runCm, CM.stopCapturing, hc, CaptureTie_mc_pop, CaptureTie_mc_stop]

theorem CaptureTie_cm_suspend (w : W) (c : CM) (in_ : Bool) : cmSuspendGen w c in_ = CM.suspend w c in_ := by
  cases hc : c.capturing <;>
    simp [cmSuspendGen, cmSuspend, runCm, CM.suspend, hc, CaptureTie_mc_suspend]

theorem CaptureTie_cm_resume (w : W) (c : CM) (h : ∀ m, c.capturing = some m → Separate w m) :
    cmResumeGen w c = CM.resume w c := by
  cases hc : c.capturing with
  | none => simp [cmResumeGen, cmResume, runCm, CM.resume, hc]
  | some m => simp [cmResumeGen, cmResume, runCm, CM.resume, hc, CaptureTie_mc_resume w m (h m hc)]

theorem CaptureTie_cm_read (w : W) (c : CM) : cmReadGen w c = CM.read w c := by
  cases hc : c.capturing <;> simp [cmReadGen, cmRead, CM.read, hc, CaptureTie_mc_readouterr]

/-! ### Python-level writes and the other modules' hooks -/

/-- `CaptureIO` / `TeeCaptureIO.write`: a write is recorded in the buffer and, for a tee, then passed on. -/
theorem CaptureTie_writePy (w : W) (s : Stream) (d : Data) : writePyGen w s d = writePy w s d := by
  have hok : captureIOFactsOk = true := by decide
  induction s generalizing w with
  | orig i => rfl
  | file o p => rfl
  | capIO o b => simp [writePyGen, writePy, hok]
  | teeIO o b other ih =>
    simp only [writePyGen, writePy, hok, if_true, teeWrite, runTeeWrite]
    exact ih _
  | dontRead o => rfl

/-- the `pytask_unconfigure` implementations of task / logging / provisional / debugging / database / capture, read from their
bodies, do what `Capture.step` says -/
theorem CaptureTie_unconfigure (cfg : Cfg) (st : St) (impl : String)
    (h : impl ∈ ["task", "logging", "provisional", "debugging", "database", "capture", "build"]) :
    unconfigureGen cfg st impl = step cfg st (.unconfigure impl) := by
  simp only [List.mem_cons, List.not_mem_nil, or_false] at h
  rcases h with rfl | rfl | rfl | rfl | rfl | rfl | rfl
  · rfl
  · rfl
  · rfl
  · show (match st.w.py.pdbSaved with | [] => _ | x :: rest => _) = (match st.w.py.pdbSaved with | [] => _ | x :: rest => _)
    cases st.w.py.pdbSaved <;> rfl
  · show _ = (match st.w.py.dbFd with | none => st | some d => _)
    cases hd : st.w.py.dbFd <;> simp [unconfigureGen, databaseUnconfigure, hd]
  · show _ = withCM st CM.stopCapturing
    cases hc : st.cm <;> simp [unconfigureGen, captureUnconfigure, withCM, hc, CaptureTie_cm_stop]
  · rfl

/-- `build()` calls `pytask_unconfigure` unconditionally after a successful configuration, and the task function runs inside
`warnings.catch_warnings()` (the model's `callBody` restores the filters; `buildOps` appends the unconfigure hooks). -/
theorem CaptureTie_frame : frameFactsOk = true := by decide

/-- `report.sections` — what the checks observe and C14 speaks about — is `task.report_sections` as `task_capture` filled it (the
model's `St.secs`): all of it, for succeeding and failing tasks alike (no section is dropped or rewritten on the way into the
report, e.g. whitespace-only ones). -/
theorem CaptureTie_report_sections (failed : Bool) (secs : List Sec) : reportSectionsGen failed secs = some secs := by
  cases failed <;> simp [reportSectionsGen, reportSections]

/-- … and this holds for EVERY way a task can leave the protocol — it returned, it raised an ordinary exception or called
`sys.exit()`, it was interrupted (`KeyboardInterrupt`, which also stops the build): each branch of
`pytask_execute_task_protocol` builds its report through a constructor that hands over `task.report_sections`, and there is no
other branch. -/
theorem CaptureTie_report_sections_all (branch : String) (secs : List Sec)
    (h : branch ∈ ["else", "Exception,SystemExit", "KeyboardInterrupt"]) : reportSectionsFor branch secs = some secs := by
  simp only [List.mem_cons, List.not_mem_nil, or_false] at h
  rcases h with rfl | rfl | rfl <;> simp [reportSectionsFor, protocolCtor, protocolReports, CaptureTie_report_sections]

theorem CaptureTie_protocol_branches : protocolReports.map (fun e => e.1) = ["KeyboardInterrupt", "Exception,SystemExit", "else"] := by
  decide

/-! ### Non-vacuity: `Separate` holds for what `_get_multicapture` builds in a concrete process -/

private def w0 : W := { os := { files := [[], [], []], fdt := [some 0, some 1, some 2] } }

example : (getMulticapture w0 .fd).2.in_.isSome = true ∧ (getMulticapture w0 .fd).1.os.count = 9 := by decide +kernel

example : (cmStartGen w0 { method := .fd }).1.os.fd 1 = some 4 ∧ (cmStartGen w0 { method := .fd }) = CM.startCapturing w0 { method := .fd } := by
  decide +kernel

end Pytask
