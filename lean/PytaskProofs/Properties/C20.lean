import PytaskModel.Catalog
/-! # C20 — data catalog entries are stable, isolated and round-trip values (work in progress) -/
namespace Pytask
namespace Catalog

/-- **store_roundtrip.** Reading the file just written returns the written value; other files are untouched. -/
theorem C20_store_roundtrip (f : Path → Option Nat) (p q : Path) (v : Nat) :
    writeVal f p v p = some v ∧ (q ≠ p → writeVal f p v q = f q) := by
  constructor
  · simp [writeVal]
  · intro h; simp [writeVal, h]

end Catalog
end Pytask
