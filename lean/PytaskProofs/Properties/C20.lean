import PytaskProofs.Lemmas.Catalog
/-!
# C20 — data catalog entries are stable, isolated and round-trip values

Property theorems only (model: `PytaskModel/Catalog.lean`, lemmas: `Lemmas/Catalog.lean`).

`validName` is built from what the translator read in `data_catalog.py`: the character class
(`Generated.catalogNameClass`) and which `re` function is applied (`Generated.catalogNameAnchorKind`:
0 = `re.match`, 1 = `re.fullmatch`, 2 = `re.search`). Statements whose truth depends on that function
are given as *verdicts* `if Generated.catalogNameAnchorKind = 1 then <full statement> else ¬ <full statement>`:
the same file compiles against the unchanged tree (`re.match`: every `_full` statement is refuted with
the F5 witnesses, the `_partial` / documented-name theorems hold) and against the repaired tree
(`re.fullmatch`: every `_full` statement is proved). Changing the function or the class in the source
changes the Lean terms below.

`sha` (`sha256(entry).hexdigest()`) is a parameter with hypothesis `Function.Injective sha`.
-/
namespace Pytask
namespace Catalog

/-! ## Names -/

/-- **name_valid_full.** The property at full strength: `DataCatalog(name=s)` is accepted exactly when
`s` is non-empty and consists of letters, digits, hyphens and underscores. -/
def C20_name_valid_full : Prop := ∀ s : Str, validName s = true ↔ FullyValid s

/-- **name_valid_partial** — what the code does, for the `re` function it uses now:
`re.match` accepts iff the *first* character is documented; `re.fullmatch` iff all are;
`re.search` iff some character is. (The character class is the documented alphabet: `inClass_doc`.) -/
theorem C20_name_valid_partial (s : Str) :
    validName s = true ↔ AcceptsK Generated.catalogNameAnchorKind s :=
  validNameK_iff _ s

/-- The same, spelled out for the unchanged tree (`re.match`): a name is accepted iff it starts with
a documented character — nothing is required of the rest. -/
theorem C20_name_valid_prefix (h : Generated.catalogNameAnchorKind = 0) (s : Str) :
    validName s = true ↔ ∃ c rest, s = c :: rest ∧ docChar c = true := by
  have := C20_name_valid_partial s
  rw [h] at this
  exact this

/-- Documented names are accepted whichever of the three functions is used (no false rejections). -/
theorem C20_name_valid_accepts (s : Str) (h : FullyValid s) : validName s = true :=
  validName_of_fullyValid h

/-- Names that do not start with a documented character (in particular the empty name, absolute
paths, hidden names) are rejected by `re.match` and `re.fullmatch`. -/
theorem C20_name_valid_rejects (hk : Generated.catalogNameAnchorKind ≤ 1) (s : Str)
    (h : ∀ c rest, s = c :: rest → docChar c = false) : validName s = false := by
  cases hv : validName s with
  | false => rfl
  | true =>
    exfalso
    have := (C20_name_valid_partial s).1 hv
    have hk' : Generated.catalogNameAnchorKind = 0 ∨ Generated.catalogNameAnchorKind = 1 := by omega
    rcases hk' with h0 | h1
    · rw [h0] at this
      obtain ⟨c, rest, hs, hc⟩ := this
      rw [h c rest hs] at hc; exact Bool.noConfusion hc
    · rw [h1] at this
      cases s with
      | nil => exact this.1 rfl
      | cons c rest =>
        have := this.2 c (by simp)
        rw [h c rest rfl] at this; exact Bool.noConfusion this

/-- A name without any documented character (the empty name, `/`, `..`, `é`) is rejected whichever of
the three functions is used. -/
theorem C20_name_valid_rejects_foreign (s : Str) (h : ∀ c ∈ s, docChar c = false) : validName s = false := by
  cases hv : validName s with
  | false => rfl
  | true =>
    exfalso
    have hacc := (C20_name_valid_partial s).1 hv
    have hno : ∀ c ∈ s, docChar c = true → False := fun c hc hd => by rw [h c hc] at hd; exact Bool.noConfusion hd
    generalize Generated.catalogNameAnchorKind = k at hacc
    match k with
    | 0 => obtain ⟨c, rest, rfl, hc⟩ := hacc; exact hno c (by simp) hc
    | 1 =>
      cases s with
      | nil => exact hacc.1 rfl
      | cons c rest => exact hno c (by simp) (hacc.2 c (by simp))
    | 2 => obtain ⟨c, hc, hd⟩ := hacc; exact hno c hc hd
    | k + 3 => exact hacc

/-- **F5 witnesses.** With `re.match` the names `a/b`, `a b`, `a/../b` and `a\n` are accepted although
none of them is a documented name. -/
theorem C20_f5_witnesses (h : Generated.catalogNameAnchorKind = 0) :
    (validName witSlash = true ∧ ¬ FullyValid witSlash) ∧ (validName witSpace = true ∧ ¬ FullyValid witSpace) ∧
    (validName witDots = true ∧ ¬ FullyValid witDots) ∧ (validName witNewline = true ∧ ¬ FullyValid witNewline) := by
  have hv : ∀ rest, validName ('a' :: rest) = true := fun rest => by
    unfold validName; exact validName_of_head (Or.inl h) rest (by decide)
  exact ⟨⟨hv _, by decide⟩, ⟨hv _, by decide⟩, ⟨hv _, by decide⟩, ⟨hv _, by decide⟩⟩

/-- **name_valid verdict.** `C20_name_valid_full` holds iff the validator uses `re.fullmatch`. On the
unchanged tree (`re.match`) this is `¬ C20_name_valid_full`, refuted by `a/b` (finding F5). -/
theorem C20_name_valid_verdict :
    if Generated.catalogNameAnchorKind = 1 then C20_name_valid_full else ¬ C20_name_valid_full := by
  split
  · next h =>
    intro s
    unfold validName; rw [h]
    exact validNameK_full_iff s
  · next h =>
    intro hfull
    rcases kind_cases anchorKind_le h with hk | hk
    · have hv : validName witSlash = true := by
        unfold validName; exact validName_of_head (Or.inl hk) _ (by decide)
      exact absurd ((hfull witSlash).1 hv) (by decide)
    · have hv : validName witSlash = true := by
        unfold validName; exact validName_of_head (Or.inr hk) _ (by decide)
      exact absurd ((hfull witSlash).1 hv) (by decide)

/-! ## Locations -/

/-- **entry_stable.** In every state a project can reach — after any history of saves, loads, rejected
constructions and interpreter restarts — `DataCatalog(name=cat)[e]` is rejected iff the validator
rejects `cat`, and otherwise hands out a node whose location is `entryPath sha root cat e`: a function
of the project root, the catalog name and the entry name only, the same in every session (whether the
node was created now, cached in the session, or un-pickled from an earlier session's `*-node.pkl`). -/
theorem C20_entry_stable (sha : Str → Str) (root : Path) (ops : List Op) (cat e : Str) :
    (validName cat = false ∧ withCat sha (run sha (St.init root) ops) cat e = none) ∨
    (validName cat = true ∧ ∃ st' n, withCat sha (run sha (St.init root) ops) cat e = some (st', n) ∧
      n.name = e ∧ n.path = entryPath sha root cat e) := by
  obtain ⟨hinv, hroot⟩ := run_inv (stInv_init sha root) ops
  rcases withCat_spec hinv cat e with h | ⟨hv, st', n, hw, hn, _, _, _⟩
  · exact Or.inl h
  · refine Or.inr ⟨hv, st', n, hw, by rw [hn], ?_⟩
    rw [hn, hroot]; rfl

/-- A documented catalog name is used literally: the catalog lives in
`<root>/.pytask/data_catalogs/<name>` and entry `e` in the file `sha256(e).hexdigest() + ".pkl"` there. -/
theorem C20_entry_location (sha : Str → Str) (root : Path) (cat e : Str) (h : FullyValid cat) :
    entryPath sha root cat e =
      root ++ Generated.catalogDirParts ++ [cat] ++ [sha e ++ Generated.catalogEntrySuffix] := by
  unfold entryPath entryPathIn entryFile
  rw [catalogDir_fullyValid root h]

/-- **entry_iso.** Different (catalog, entry) pairs of documented catalogs never share a location
(entry names are arbitrary strings), provided SHA-256 does not collide. -/
theorem C20_entry_iso (sha : Str → Str) (hsha : Function.Injective sha) (root : Path)
    (c₁ e₁ c₂ e₂ : Str) (h₁ : FullyValid c₁) (h₂ : FullyValid c₂) (hne : (c₁, e₁) ≠ (c₂, e₂)) :
    entryPath sha root c₁ e₁ ≠ entryPath sha root c₂ e₂ := by
  intro h
  obtain ⟨a, b⟩ := entryPath_inj hsha root h₁ h₂ h
  exact hne (by rw [a, b])

/-- Isolation at full strength: for all names the validator *accepts*. -/
def C20_entry_iso_full : Prop :=
  ∀ (sha : Str → Str), Function.Injective sha → ∀ (root : Path) (c₁ e₁ c₂ e₂ : Str),
    validName c₁ = true → validName c₂ = true → (c₁, e₁) ≠ (c₂, e₂) →
    entryPath sha root c₁ e₁ ≠ entryPath sha root c₂ e₂

/-- **entry_iso_now_false.** With `re.match`, the two different accepted names `a/../b` and `b` denote
the same directory under every project root — so all their entries coincide. -/
theorem C20_entry_iso_now_false (h : Generated.catalogNameAnchorKind = 0) :
    ∃ c₁ c₂ : Str, validName c₁ = true ∧ validName c₂ = true ∧ c₁ ≠ c₂ ∧
      ∀ (sha : Str → Str) (root : Path) (e : Str), entryPath sha root c₁ e = entryPath sha root c₂ e := by
  refine ⟨witDots, witB, ?_, ?_, by decide, ?_⟩
  · unfold validName; exact validName_of_head (Or.inl h) _ (by decide)
  · unfold validName; exact validName_of_head (Or.inl h) _ (by decide)
  · intro sha root e
    unfold entryPath; rw [catalogDir_witDots]

/-- **entry_iso verdict.** Isolation for all accepted names holds iff the validator uses
`re.fullmatch`; on the unchanged tree it is refuted by (`a/../b`, `b`) (finding F5). -/
theorem C20_entry_iso_verdict :
    if Generated.catalogNameAnchorKind = 1 then C20_entry_iso_full else ¬ C20_entry_iso_full := by
  split
  · next h =>
    intro sha hsha root c₁ e₁ c₂ e₂ h₁ h₂ hne
    have hf : ∀ c, validName c = true → FullyValid c := fun c hc => by
      unfold validName at hc; rw [h] at hc; exact (validNameK_full_iff c).1 hc
    exact C20_entry_iso sha hsha root c₁ e₁ c₂ e₂ (hf _ h₁) (hf _ h₂) hne
  · next h =>
    intro hfull
    have hk := kind_cases anchorKind_le h
    have hv1 : validName witDots = true := by unfold validName; exact validName_of_head hk _ (by decide)
    have hv2 : validName witB = true := by unfold validName; exact validName_of_head hk _ (by decide)
    refine hfull id (fun _ _ h => h) [] witDots [] witB [] hv1 hv2 (by decide) ?_
    unfold entryPath; rw [catalogDir_witDots]

/-! ## Values -/

/-- **store_roundtrip.** Reading the file just written returns the written value; every other file
is untouched (`PickleNode.save` / `load` on the typed store). -/
theorem C20_store_roundtrip (f : Path → Option Nat) (p q : Path) (v : Nat) :
    writeVal f p v p = some v ∧ (q ≠ p → writeVal f p v q = f q) := by
  constructor
  · simp [writeVal]
  · intro h; simp [writeVal, h]

/-- All catalog names a history constructs successfully are documented names. Automatically true
once the validator uses `re.fullmatch`; on the unchanged tree this excludes the F5 names. -/
def DocumentedHistory (ops : List Op) : Prop :=
  ∀ op ∈ ops, ∀ c, op.cat? = some c → validName c = true → FullyValid c

/-- **catalog_roundtrip.** Take any history of operations on a fresh project — saves and loads
through any catalogs and entries, constructions with rejected names, any number of interpreter
restarts — in which the accepted catalog names are documented ones. Then a `load` through
`(cat, e)` issued after the history returns exactly the value of the last `save` through `(cat, e)`
(`loaded none` = nothing there, if there was none): saves through other catalogs or other entries do
not affect it, and neither do session boundaries. (`ops` is arbitrary, so this covers every load at
every point of every history.) -/
theorem C20_catalog_roundtrip (sha : Str → Str) (hsha : Function.Injective sha) (root : Path)
    (ops : List Op) (hops : DocumentedHistory ops) (cat e : Str) (hcat : FullyValid cat) :
    (step sha (run sha (St.init root) ops) (.load cat e)).2 = .loaded (lastSaved cat e ops) := by
  obtain ⟨hinv, hroot⟩ := run_inv (stInv_init sha root) ops
  rw [step_load_ans hinv, validName_of_fullyValid hcat, hroot]
  simp only [if_true]
  have := run_vals hsha (stInv_init sha root) ops hops hcat e
  simp only [St.init] at this ⊢
  rw [this]; rfl

/-- The same as a statement about the answer stream of one history: the `i`-th operation, if it is
a `load` through a documented catalog, answers with the last value saved through that entry among
the first `i` operations. -/
theorem C20_catalog_roundtrip_answers (sha : Str → Str) (hsha : Function.Injective sha) (root : Path)
    (ops : List Op) (hops : DocumentedHistory ops) (i : Nat) (hi : i < ops.length) (cat e : Str)
    (hop : ops[i] = .load cat e) (hcat : FullyValid cat) :
    (answers sha (St.init root) ops)[i]'(by rw [answers_length]; exact hi) =
      .loaded (lastSaved cat e (ops.take i)) := by
  rw [answers_getElem sha _ ops i hi, hop]
  exact C20_catalog_roundtrip sha hsha root (ops.take i)
    (fun op h => hops op (List.mem_of_mem_take h)) cat e hcat

/-- Saves are accepted exactly for accepted names, and a rejected operation changes nothing. -/
theorem C20_rejected_noop (sha : Str → Str) (root : Path) (ops : List Op) (op : Op) (c : Str)
    (hc : op.cat? = some c) (hv : validName c = false) :
    step sha (run sha (St.init root) ops) op = (run sha (St.init root) ops, .rejected) := by
  obtain ⟨hinv, _⟩ := run_inv (stInv_init sha root) ops
  cases op with
  | newSession => simp [Op.cat?] at hc
  | save c' e v =>
    simp only [Op.cat?, Option.some.injEq] at hc; subst hc
    rcases withCat_spec hinv c' e with ⟨_, hw⟩ | ⟨hv', _⟩
    · simp [step, hw]
    · rw [hv] at hv'; exact Bool.noConfusion hv'
  | load c' e =>
    simp only [Op.cat?, Option.some.injEq] at hc; subst hc
    rcases withCat_spec hinv c' e with ⟨_, hw⟩ | ⟨hv', _⟩
    · simp [step, hw]
    · rw [hv] at hv'; exact Bool.noConfusion hv'

/-- Round trip at full strength: for every accepted catalog name, with no restriction on the other
names in the history. -/
def C20_catalog_roundtrip_full : Prop :=
  ∀ (sha : Str → Str), Function.Injective sha → ∀ (root : Path) (ops : List Op) (cat e : Str),
    validName cat = true →
    (step sha (run sha (St.init root) ops) (.load cat e)).2 = .loaded (lastSaved cat e ops)

/-- **catalog_roundtrip verdict.** The unrestricted round trip holds iff the validator uses
`re.fullmatch`. On the unchanged tree it is refuted (finding F5): save 1 through (`b`, `x`), save 2
through (`a/../b`, `x`), then (`b`, `x`) loads 2. -/
theorem C20_catalog_roundtrip_verdict :
    if Generated.catalogNameAnchorKind = 1 then C20_catalog_roundtrip_full
    else ¬ C20_catalog_roundtrip_full := by
  split
  · next h =>
    intro sha hsha root ops cat e hv
    have hf : ∀ c, validName c = true → FullyValid c := fun c hc => by
      unfold validName at hc; rw [h] at hc; exact (validNameK_full_iff c).1 hc
    exact C20_catalog_roundtrip sha hsha root ops (fun _ _ c _ hc => hf c hc) cat e (hf _ hv)
  · next h =>
    intro hfull
    have hk := kind_cases anchorKind_le h
    have hv1 : validName witDots = true := by unfold validName; exact validName_of_head hk _ (by decide)
    have hv2 : validName witB = true := by unfold validName; exact validName_of_head hk _ (by decide)
    have hx := hfull id (fun _ _ h => h) [] [.save witB ['x'] 1, .save witDots ['x'] 2] witB ['x'] hv2
    have hl : lastSaved witB ['x'] [.save witB ['x'] 1, .save witDots ['x'] 2] = some 1 := by decide
    rw [hl] at hx
    -- what the model (and the real code) answers: 2
    have hinv0 := stInv_init id ([] : Path)
    obtain ⟨hinv1, hroot1⟩ := step_inv hinv0 (.save witB ['x'] 1)
    obtain ⟨hinv2, hroot2⟩ := step_inv hinv1 (.save witDots ['x'] 2)
    have hrun : run id (St.init []) [.save witB ['x'] 1, .save witDots ['x'] 2] =
        (step id (step id (St.init []) (.save witB ['x'] 1)).1 (.save witDots ['x'] 2)).1 := rfl
    rw [hrun, step_load_ans hinv2, hv2, hroot2, hroot1] at hx
    simp only [if_true] at hx
    rw [step_vals hinv1, hroot1] at hx
    have hp : entryPath id (St.init []).root witB ['x'] = entryPath id (St.init []).root witDots ['x'] := by
      unfold entryPath; rw [catalogDir_witDots]
    simp only [hv1, hp, true_and, if_true] at hx
    exact absurd hx (by decide)

/-! ## The tree as it is now (after `fix:` 7a8cb52, `re.fullmatch`): the full statements

These three are the `fullmatch` branches of the verdicts, stated unconditionally. They stop compiling
(on purpose) if the validator goes back to `re.match` / `re.search`: the check then reports the broken
proof together with the concrete failing names it finds on the real code. -/

theorem anchor_is_fullmatch : Generated.catalogNameAnchorKind = 1 := by decide

/-- **name_valid.** `DataCatalog(name=s)` is accepted iff `s` is non-empty and consists of letters,
digits, hyphens and underscores only — for all strings. -/
theorem C20_name_valid : C20_name_valid_full := by
  have h := C20_name_valid_verdict
  rw [if_pos anchor_is_fullmatch] at h
  exact h

/-- **entry_iso, all accepted names.** Different (catalog, entry) pairs never share a location, for
every pair of catalog names the validator accepts (SHA-256 collision-free). -/
theorem C20_entry_iso_all : C20_entry_iso_full := by
  have h := C20_entry_iso_verdict
  rw [if_pos anchor_is_fullmatch] at h
  exact h

/-- **catalog_roundtrip, unrestricted.** In every history whatsoever, a load through an accepted
`(cat, e)` returns the last value saved through exactly that pair. -/
theorem C20_catalog_roundtrip_all : C20_catalog_roundtrip_full := by
  have h := C20_catalog_roundtrip_verdict
  rw [if_pos anchor_is_fullmatch] at h
  exact h

/-- The former F5 witnesses `a/b`, `a b`, `a/../b`, `a\n` are rejected. -/
theorem C20_f5_witnesses_rejected :
    validName witSlash = false ∧ validName witSpace = false ∧ validName witDots = false ∧
    validName witNewline = false := by
  have hr : ∀ s, ¬ FullyValid s → validName s = false := fun s hs => by
    cases hv : validName s with
    | false => rfl
    | true => exact absurd ((C20_name_valid s).1 hv) hs
  exact ⟨hr _ (by decide), hr _ (by decide), hr _ (by decide), hr _ (by decide)⟩

/-! ## Non-vacuity: the hypotheses are satisfiable on concrete, non-trivial data -/

/-- `data-1` / `data_2` -/
private def catA : Str := ['d', 'a', 't', 'a', '-', '1']
private def catB : Str := ['d', 'a', 't', 'a', '_', '2']

/-- A two-session history over two documented catalogs, with a rejected name in between. -/
private def hist : List Op :=
  [.save catA ['x'] 7, .save catB ['x'] 8, .load ['/', '.'] ['x'], .newSession, .save catA ['y'] 9, .load catB ['x']]

private theorem hist_documented : DocumentedHistory hist := by
  intro op hop c hc hv
  simp only [hist, List.mem_cons, List.not_mem_nil, or_false] at hop
  rcases hop with rfl | rfl | rfl | rfl | rfl | rfl <;> simp only [Op.cat?, Option.some.injEq, reduceCtorEq] at hc
  · subst hc; decide
  · subst hc; decide
  · subst hc
    have := C20_name_valid_rejects_foreign ['/', '.'] (by decide)
    rw [this] at hv; exact Bool.noConfusion hv
  · subst hc; decide
  · subst hc; decide

/-- `C20_entry_iso`: documented names, an injective digest, different pairs. -/
example : entryPath id [['p']] catA ['x'] ≠ entryPath id [['p']] catB ['x'] :=
  C20_entry_iso id (fun _ _ h => h) [['p']] catA ['x'] catB ['x'] (by decide) (by decide) (by decide)

/-- `C20_entry_location` on a concrete documented name. -/
example : entryPath id [['p']] catA ['x'] =
    [['p'], ['.', 'p', 'y', 't', 'a', 's', 'k'], ['d', 'a', 't', 'a', '_', 'c', 'a', 't', 'a', 'l', 'o', 'g', 's'],
     catA, ['x', '.', 'p', 'k', 'l']] := by
  rw [C20_entry_location id [['p']] catA ['x'] (by decide)]; rfl

/-- `C20_catalog_roundtrip` on the two-session history: after the restart, (`data-1`, `x`) still
loads 7 although (`data_2`, `x`) and (`data-1`, `y`) were saved in between. -/
example : (step id (run id (St.init [['p']]) hist) (.load catA ['x'])).2 = .loaded (some 7) :=
  C20_catalog_roundtrip id (fun _ _ h => h) [['p']] hist hist_documented catA ['x'] (by decide)

/-- `C20_catalog_roundtrip_answers`: the load at position 5 of the history answers 8. -/
example : (answers id (St.init [['p']]) hist)[5]'(by rw [answers_length]; decide) = .loaded (some 8) :=
  C20_catalog_roundtrip_answers id (fun _ _ h => h) [['p']] hist hist_documented 5 (by decide) catB ['x'] rfl (by decide)

/-- `C20_name_valid_rejects`: the name `/a` is rejected under `re.match` and `re.fullmatch`. -/
example (hk : Generated.catalogNameAnchorKind ≤ 1) : validName ['/', 'a'] = false :=
  C20_name_valid_rejects hk ['/', 'a'] (fun c rest h => by cases h; decide)

/-- `C20_rejected_noop` on the history: constructing `DataCatalog(name="/.")` is rejected and changes nothing. -/
example : step id (run id (St.init [['p']]) hist) (.load ['/', '.'] ['x']) = (run id (St.init [['p']]) hist, .rejected) :=
  C20_rejected_noop id [['p']] hist _ ['/', '.'] rfl (C20_name_valid_rejects_foreign _ (by decide))

/-- `C20_entry_stable` is not vacuous: after the history, (`data-1`, `x`) is handed out at its location. -/
example : ∃ st' n, withCat id (run id (St.init [['p']]) hist) catA ['x'] = some (st', n) ∧
    n.path = entryPath id [['p']] catA ['x'] := by
  rcases C20_entry_stable id [['p']] hist catA ['x'] with ⟨h, _⟩ | ⟨_, st', n, hw, _, hp⟩
  · rw [C20_name_valid_accepts catA (by decide)] at h; exact Bool.noConfusion h
  · exact ⟨st', n, hw, hp⟩

end Catalog
end Pytask
