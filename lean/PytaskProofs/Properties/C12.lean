import PytaskModel.HashValue
import PytaskModel.PathNorm
/-!
# C12 — change detection sees content and identity only and separates different content
-/
namespace Pytask
namespace Hash

/-- **C12_state_missing.** A missing file has no state (`_get_state` returns `None`) and the memo is untouched. -/
theorem C12_state_missing (sha md5 : Bytes → Str) (memo : Memo) (p : Str) :
    stateOfFile sha md5 memo p none = (memo, none) := rfl

end Hash
end Pytask
